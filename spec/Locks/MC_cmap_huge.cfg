SPECIFICATION Spec
CONSTANTS NG = 3 Keys = {1} Rounds = 2 Modes = {"w", "r"} WRels = {"unlock", "deleteunlock"} RRels = {"runlock", "deleterunlock"} PlainDelete = FALSE Repaired = TRUE NonAtomicDeleteUnlock = FALSE
INVARIANTS Contract HoldsCurrent RWInv NoTwoHolders
PROPERTY AllFinish
CHECK_DEADLOCK FALSE
