SPECIFICATION Spec
CONSTANTS NG = 2 Keys = {1} Rounds = 2 Modes = {"w"} WRels = {"unlock"} RRels = {"runlock"} PlainDelete = TRUE Repaired = TRUE NonAtomicDeleteUnlock = FALSE
INVARIANTS Contract
CHECK_DEADLOCK FALSE
