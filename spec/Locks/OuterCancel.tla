----------------------------- MODULE OuterCancel -----------------------------
(* Implementation-shaped model of concurrency/lock/outercancel.go.             *)
(*   ch (chq)     1-slot request channel; one server goroutine (srv, sg = the  *)
(*                owner of the request in hand) serves it until closeCh        *)
(*   lock (lslot) 1-slot channel every hold passes through                     *)
(*   reader hold: wait for the slot or the caller's context; register the      *)
(*                reader (reg = live rcancels, wg = |reg|), answer, free the   *)
(*                slot                                                         *)
(*   writer hold: take the slot and KEEP it; launch every registered reader's  *)
(*                grace-cancel (grace[r] = its deadline: time.After(graceful)  *)
(*                | closeCh | doneCh, then rcancel); wg.Wait(); answer.  The   *)
(*                writer's unlock frees the slot.                              *)
(*   rcancel(r):  once: cancel r's context with the configured cause, remove   *)
(*                it from reg (wg.Done)                                        *)
(*   shutdown:    closeCh closed; callers fall back (readers: error, writers:  *)
(*                a separate FIFO mutex, sdheld); the server leaves its loop   *)
(*                and launches every registered reader's cancel                *)
(* cause[r]: why the context handed to reader r ended (first cause wins).      *)
(* Time: now, the virtual clock of a synctest bubble (see Tick).                *)
(* GraceFromAdmission = TRUE is a defect variant: the grace period is counted  *)
(* from the reader's admission instead of from the writer's arrival.           *)
EXTENDS LockContract

CONSTANTS Readers, Writers, Rounds, Grace, MaxT, AllowShutdown, AllowParentCancel, GraceFromAdmission,
          NoCtxOnSend,          \* TRUE: defect variant - RLock's first select (handing the request to the 1-slot channel) has no arm for
                                \* the caller's context: a reader blocked there does not stop waiting when its context ends
          AutoReleaseOnCtxEnd,  \* TRUE: defect variant - a reader is released (wg.Done, entry removed) as soon as its context ends for
                                \* any reason, e.g. its parent's, although it has not called its release func
          CancelAfterDone,      \* TRUE: defect variant - the grace-cancel first publishes "reader gone" (wg.Done, entry removed) and
                                \* cancels the reader's context only afterwards, outside the lock: two steps
          DeleteOnEveryRelease, \* TRUE: defect variant - a reader's release func removes the registry entry under its id on
                                \* EVERY call, not only the first: after a writer restarted the ids it removes a later reader's
          ErrButAdmitted   \* TRUE: defect variant - RLock's second select also returns on the caller's context, although
                           \* the serving goroutine may admit (register) the reader all the same
G == Readers \cup Writers
Ids == 0..(Cardinality(Readers) * Rounds)     \* rcancels keys: rcancelx restarts at 0 with every writer

VARIABLES now, closed, chq, srv, sg, lslot, reg, pcl, ents, rid, nextId, grace, cause, admittedAt, resp, pcancelled, told,
          sdheld, viaSd, pc, left, c
vars == <<now, closed, chq, srv, sg, lslot, reg, pcl, ents, rid, nextId, grace, cause, admittedAt, resp, pcancelled, told, sdheld, viaSd, pc, left, c>>

Ev(n, g) == [ev |-> n, g |-> g]
Init == /\ now = 0 /\ closed = FALSE /\ chq = 0 /\ srv = "loop" /\ sg = 0 /\ lslot = 0 /\ reg = {} /\ pcl = {}
        /\ ents = [i \in Ids |-> 0] /\ rid = [r \in Readers |-> 0] /\ nextId = 0
        /\ grace = [r \in Readers |-> -1] /\ cause = [r \in Readers |-> "none"] /\ admittedAt = [r \in Readers |-> 0]
        /\ resp = [g \in G |-> "none"] /\ pcancelled = [r \in Readers |-> FALSE] /\ told = [r \in Readers |-> FALSE]
        /\ sdheld = 0 /\ viaSd = [g \in Writers |-> FALSE]
        /\ pc = [g \in G |-> "idle"] /\ left = [g \in G |-> Rounds]
        /\ c = CReset([prim |-> "outercancel", graceful |-> Grace])

(* what the harness's watcher of reader r reports: only between the grant and the release of r *)
Tell(cc, r, cs) == IF pc[r] = "in" /\ ~told[r] THEN CNext(cc, [ev |-> "told_to_stop", g |-> r, cause |-> cs, now |-> now]) ELSE cc
TellFlag(r) == pc[r] = "in" /\ ~told[r]

(* rcancel of reader r (outercancel.go:117-127); no-op when done *)
(* the registry: ents = rcancels (id -> the reader whose grace-cancel is stored there, 0 = no entry), rid[r] = the id  *)
(* reader r was registered under, nextId = rcancelx; reg = the readers counted in wg (registered, release not yet run) *)
Registered == {ents[i] : i \in Ids} \ {0}
RCancelVars(r) == /\ reg' = reg \ {r}
                  /\ cause' = [cause EXCEPT ![r] = IF r \in reg /\ @ = "none" THEN "configured" ELSE @]
                  /\ ents' = IF r \in reg \/ DeleteOnEveryRelease THEN [ents EXCEPT ![rid[r]] = 0] ELSE ents
                  /\ UNCHANGED <<rid, nextId>>

(* RLock, outercancel.go:171-191 *)
RSelect1(g) == /\ g \in Readers /\ pc[g] = "call"
               /\ \/ (closed \/ (pcancelled[g] /\ ~NoCtxOnSend)) /\ pc' = [pc EXCEPT ![g] = "reterr"] /\ UNCHANGED chq
                  \/ chq = 0 /\ chq' = g /\ pc' = [pc EXCEPT ![g] = "wait"]
               /\ UNCHANGED <<now, closed, srv, sg, lslot, reg, pcl, ents, rid, nextId, grace, cause, admittedAt, resp, pcancelled, told, sdheld, viaSd, left, c>>
RSelect2(g) == /\ g \in Readers /\ pc[g] = "wait"
               /\ \/ closed /\ pc' = [pc EXCEPT ![g] = "reterr"]
                  \/ resp[g] = "ok" /\ pc' = [pc EXCEPT ![g] = "ret"]
                  \/ resp[g] = "err" /\ pc' = [pc EXCEPT ![g] = "reterr"]
                  \/ ErrButAdmitted /\ pcancelled[g] /\ pc' = [pc EXCEPT ![g] = "reterr"]
               /\ UNCHANGED <<now, closed, chq, srv, sg, lslot, reg, pcl, ents, rid, nextId, grace, cause, admittedAt, resp, pcancelled, told, sdheld, viaSd, left, c>>
(* Lock, outercancel.go:148-169 *)
WSelect1(g) == /\ g \in Writers /\ pc[g] = "call"
               /\ \/ closed /\ pc' = [pc EXCEPT ![g] = "sd"] /\ UNCHANGED chq
                  \/ chq = 0 /\ chq' = g /\ pc' = [pc EXCEPT ![g] = "wait"]
               /\ UNCHANGED <<now, closed, srv, sg, lslot, reg, pcl, ents, rid, nextId, grace, cause, admittedAt, resp, pcancelled, told, sdheld, viaSd, left, c>>
WSelect2(g) == /\ g \in Writers /\ pc[g] = "wait"
               /\ \/ closed /\ pc' = [pc EXCEPT ![g] = "sd"]
                  \/ resp[g] = "ok" /\ pc' = [pc EXCEPT ![g] = "ret"]
               /\ UNCHANGED <<now, closed, chq, srv, sg, lslot, reg, pcl, ents, rid, nextId, grace, cause, admittedAt, resp, pcancelled, told, sdheld, viaSd, left, c>>
WShutdownLock(g) == /\ g \in Writers /\ pc[g] = "sd" /\ sdheld = 0 /\ sdheld' = g /\ viaSd' = [viaSd EXCEPT ![g] = TRUE]
                    /\ pc' = [pc EXCEPT ![g] = "ret"]
                    /\ UNCHANGED <<now, closed, chq, srv, sg, lslot, reg, pcl, ents, rid, nextId, grace, cause, admittedAt, resp, pcancelled, told, left, c>>

Ret(g) == /\ pc[g] = "ret" /\ pc' = [pc EXCEPT ![g] = "in"]
          /\ LET c1 == CNext(c, [ev |-> "acq_ret", g |-> g, ok |-> TRUE, now |-> now])
                 \* a context that ended before the caller saw the grant is reported right away
                 c2 == IF g \in Readers /\ cause[g] # "none" THEN CNext(c1, [ev |-> "told_to_stop", g |-> g, cause |-> cause[g], now |-> now]) ELSE c1
             IN c' = CNext(c2, Ev("enter", g))
          /\ told' = IF g \in Readers /\ cause[g] # "none" THEN [told EXCEPT ![g] = TRUE] ELSE told
          /\ UNCHANGED <<now, closed, chq, srv, sg, lslot, reg, pcl, ents, rid, nextId, grace, cause, admittedAt, resp, pcancelled, sdheld, viaSd, left>>
RetErr(g) == /\ pc[g] = "reterr" /\ pc' = [pc EXCEPT ![g] = "idle"] /\ left' = [left EXCEPT ![g] = @ - 1]
             /\ c' = CNext(c, [ev |-> "acq_ret", g |-> g, ok |-> FALSE, now |-> now])
             /\ UNCHANGED <<now, closed, chq, srv, sg, lslot, reg, pcl, ents, rid, nextId, grace, cause, admittedAt, resp, pcancelled, told, sdheld, viaSd>>
Exit(g) == /\ pc[g] = "in" /\ pc' = [pc EXCEPT ![g] = "unl"]
           /\ c' = CNext2(c, Ev("exit", g), [ev |-> "rel_call", g |-> g, how |-> IF g \in Writers THEN "unlock" ELSE "runlock"])
           /\ UNCHANGED <<now, closed, chq, srv, sg, lslot, reg, pcl, ents, rid, nextId, grace, cause, admittedAt, resp, pcancelled, told, sdheld, viaSd, left>>
RRelease(g) == /\ g \in Readers /\ pc[g] = "unl" /\ RCancelVars(g) /\ UNCHANGED pcl
               /\ pc' = [pc EXCEPT ![g] = "idle"] /\ left' = [left EXCEPT ![g] = @ - 1] /\ c' = CNext(c, Ev("rel_ret", g))
               /\ UNCHANGED <<now, closed, chq, srv, sg, lslot, grace, admittedAt, resp, pcancelled, told, sdheld, viaSd>>
(* the release func called once more after the release (a deferred call after an explicit one): a no-op *)
RReleaseAgain(g) == /\ g \in Readers /\ pc[g] = "idle" /\ left[g] < Rounds /\ resp[g] = "ok" /\ RCancelVars(g) /\ UNCHANGED pcl
                    /\ UNCHANGED <<now, closed, chq, srv, sg, lslot, grace, admittedAt, resp, pcancelled, told, sdheld, viaSd, pc, left, c>>
WRelease(g) == /\ g \in Writers /\ pc[g] = "unl"
               /\ IF viaSd[g] THEN sdheld' = 0 /\ UNCHANGED lslot ELSE lslot = 1 /\ lslot' = 0 /\ UNCHANGED sdheld
               /\ pc' = [pc EXCEPT ![g] = "idle"] /\ left' = [left EXCEPT ![g] = @ - 1] /\ c' = CNext(c, Ev("rel_ret", g))
               /\ UNCHANGED <<now, closed, chq, srv, sg, reg, pcl, ents, rid, nextId, grace, cause, admittedAt, resp, pcancelled, told, viaSd>>

(* the server, outercancel.go:67-146 *)
SrvRecv == /\ srv = "loop" /\ chq # 0 /\ sg' = chq /\ chq' = 0 /\ srv' = "slot"
           /\ UNCHANGED <<now, closed, lslot, reg, pcl, ents, rid, nextId, grace, cause, admittedAt, resp, pcancelled, told, sdheld, viaSd, pc, left, c>>
SrvReaderGone == /\ srv = "slot" /\ sg \in Readers /\ pcancelled[sg]           \* case <-h.rctx.Done()
                 /\ resp' = [resp EXCEPT ![sg] = "err"] /\ srv' = "loop"
                 /\ UNCHANGED <<now, closed, chq, sg, lslot, reg, pcl, ents, rid, nextId, grace, cause, admittedAt, pcancelled, told, sdheld, viaSd, pc, left, c>>
SrvAdmitReader == /\ srv = "slot" /\ sg \in Readers /\ lslot = 0            \* slot taken, reader registered, answered, slot freed
                  /\ reg' = reg \cup {sg} /\ admittedAt' = [admittedAt EXCEPT ![sg] = now]
                  /\ ents' = [ents EXCEPT ![nextId] = sg] /\ rid' = [rid EXCEPT ![sg] = nextId] /\ nextId' = nextId + 1 /\ UNCHANGED pcl
                  /\ cause' = [cause EXCEPT ![sg] = IF pcancelled[sg] THEN "parent" ELSE "none"]
                  /\ grace' = [grace EXCEPT ![sg] = -1]
                  /\ resp' = [resp EXCEPT ![sg] = "ok"] /\ srv' = "loop"
                  /\ UNCHANGED <<now, closed, chq, sg, lslot, pcancelled, told, sdheld, viaSd, pc, left, c>>
SrvWriterSlot == /\ srv = "slot" /\ sg \in Writers /\ lslot = 0 /\ lslot' = 1
                 /\ grace' = [r \in Readers |-> IF r \in Registered THEN (IF GraceFromAdmission THEN admittedAt[r] + Grace ELSE now + Grace) ELSE grace[r]]
                 /\ nextId' = 0 /\ UNCHANGED <<ents, rid>>
                 /\ srv' = "wwait"
                 /\ UNCHANGED <<now, closed, chq, sg, reg, pcl, cause, admittedAt, resp, pcancelled, told, sdheld, viaSd, pc, left, c>>
SrvWriterGrant == /\ srv = "wwait" /\ reg = {} /\ resp' = [resp EXCEPT ![sg] = "ok"] /\ srv' = "loop"
                  /\ UNCHANGED <<now, closed, chq, sg, lslot, reg, pcl, ents, rid, nextId, grace, cause, admittedAt, pcancelled, told, sdheld, viaSd, pc, left, c>>
SrvExit == /\ srv = "loop" /\ closed /\ srv' = "exited"
           /\ grace' = [r \in Readers |-> IF r \in Registered /\ grace[r] = -1 THEN now ELSE grace[r]]     \* deferred: go cancel() for every rcancels entry
           /\ UNCHANGED <<now, closed, chq, sg, lslot, reg, pcl, ents, rid, nextId, cause, admittedAt, resp, pcancelled, told, sdheld, viaSd, pc, left, c>>
(* a launched rcancelGrace goroutine: timer | closeCh | doneCh, then rcancel *)
GraceFire(r) == /\ grace[r] >= 0 /\ (now >= grace[r] \/ closed \/ r \notin reg)
                /\ grace' = [grace EXCEPT ![r] = -1]
                /\ IF CancelAfterDone /\ r \in reg
                   THEN \* defect: "reader gone" is published first, the context is cancelled in a later step
                        /\ reg' = reg \ {r} /\ ents' = [ents EXCEPT ![rid[r]] = 0] /\ pcl' = pcl \cup {r}
                        /\ UNCHANGED <<cause, rid, nextId, c, told>>
                   ELSE /\ RCancelVars(r) /\ UNCHANGED pcl
                        /\ c' = IF r \in reg /\ cause[r] = "none" THEN Tell(c, r, "configured") ELSE c
                        /\ told' = IF r \in reg /\ cause[r] = "none" /\ TellFlag(r) THEN [told EXCEPT ![r] = TRUE] ELSE told
                /\ UNCHANGED <<now, closed, chq, srv, sg, lslot, admittedAt, resp, pcancelled, sdheld, viaSd, pc, left>>
(* defect CancelAfterDone: the second half of the grace-cancel *)
LateCancel(r) == /\ r \in pcl /\ pcl' = pcl \ {r}
                 /\ cause' = [cause EXCEPT ![r] = IF @ = "none" THEN "configured" ELSE @]
                 /\ c' = IF cause[r] = "none" THEN Tell(c, r, "configured") ELSE c
                 /\ told' = IF cause[r] = "none" /\ TellFlag(r) THEN [told EXCEPT ![r] = TRUE] ELSE told
                 /\ UNCHANGED <<now, closed, chq, srv, sg, lslot, reg, ents, rid, nextId, grace, admittedAt, resp, pcancelled, sdheld, viaSd, pc, left>>
(* defect AutoReleaseOnCtxEnd: context.AfterFunc(rctx, rcancel) *)
AutoRelease(r) == /\ AutoReleaseOnCtxEnd /\ r \in reg /\ cause[r] # "none" /\ RCancelVars(r) /\ UNCHANGED pcl
                  /\ UNCHANGED <<now, closed, chq, srv, sg, lslot, grace, admittedAt, resp, pcancelled, told, sdheld, viaSd, pc, left, c>>

(* environment *)
ParentCancel(r) == /\ AllowParentCancel /\ pc[r] \in {"call", "wait", "ret", "in"} /\ ~pcancelled[r]
                   /\ pcancelled' = [pcancelled EXCEPT ![r] = TRUE]
                   /\ LET admitted == resp[r] = "ok"
                          first == admitted /\ cause[r] = "none"
                      IN /\ cause' = [cause EXCEPT ![r] = IF first THEN "parent" ELSE @]
                         /\ c' = IF first THEN Tell(CNext(c, Ev("cancel", r)), r, "parent") ELSE CNext(c, Ev("cancel", r))
                         /\ told' = IF first /\ TellFlag(r) THEN [told EXCEPT ![r] = TRUE] ELSE told
                   /\ UNCHANGED <<now, closed, chq, srv, sg, lslot, reg, pcl, ents, rid, nextId, grace, admittedAt, resp, sdheld, viaSd, pc, left>>
Shutdown == /\ AllowShutdown /\ ~closed /\ closed' = TRUE /\ c' = CNext(c, [ev |-> "shutdown"])
            /\ UNCHANGED <<now, chq, srv, sg, lslot, reg, pcl, ents, rid, nextId, grace, cause, admittedAt, resp, pcancelled, told, sdheld, viaSd, pc, left>>
(* Observation discipline of the harness (testing/synctest bubble): the virtual clock moves only while EVERY        *)
(* goroutine of the bubble is blocked - the clients (so a client records the return of its call at the instant the  *)
(* call returned), the serving goroutine and the grace timers (a timer fires at its deadline, never early; nothing  *)
(* else can happen in between).  The contract's "writer delayed with nothing held" law relies on it.               *)
ClientRuns == \E g \in G : ENABLED (RSelect1(g) \/ RSelect2(g) \/ WSelect1(g) \/ WSelect2(g) \/ WShutdownLock(g) \/ Ret(g) \/ RetErr(g) \/ RRelease(g) \/ WRelease(g))
LibRuns == \/ ENABLED (SrvRecv \/ SrvReaderGone \/ SrvAdmitReader \/ SrvWriterSlot \/ SrvWriterGrant \/ SrvExit)
           \/ \E r \in Readers : ENABLED (GraceFire(r) \/ LateCancel(r) \/ AutoRelease(r))
AtRest == ~ClientRuns /\ ~LibRuns
(* the harness issues a call; atrest: nothing else was moving (then it comes to rest before the next call is issued) *)
Call(g) == /\ pc[g] = "idle" /\ left[g] > 0 /\ pc' = [pc EXCEPT ![g] = "call"]
           /\ c' = CNext(c, [ev |-> "acq_call", g |-> g, key |-> 0, mode |-> IF g \in Writers THEN "w" ELSE "r", pre |-> FALSE, now |-> now, atrest |-> AtRest])
           /\ IF g \in Readers THEN pcancelled' = [pcancelled EXCEPT ![g] = FALSE] /\ told' = [told EXCEPT ![g] = FALSE]
                                    /\ cause' = [cause EXCEPT ![g] = "none"] /\ UNCHANGED viaSd
                               ELSE viaSd' = [viaSd EXCEPT ![g] = FALSE] /\ UNCHANGED <<pcancelled, told, cause>>
           /\ resp' = [resp EXCEPT ![g] = "none"]
           /\ UNCHANGED <<now, closed, chq, srv, sg, lslot, reg, pcl, ents, rid, nextId, grace, admittedAt, sdheld, left>>

(* the harness looks at the bubble at rest *)
Settle == /\ AtRest /\ c' = CNext(c, [ev |-> "settled", now |-> now])
          /\ UNCHANGED <<now, closed, chq, srv, sg, lslot, reg, pcl, ents, rid, nextId, grace, cause, admittedAt, resp, pcancelled, told, sdheld, viaSd, pc, left>>
Tick == /\ now < MaxT /\ ~ClientRuns /\ ~LibRuns /\ now' = now + 1 /\ c' = CNext(c, [ev |-> "adv", now |-> now + 1])
        /\ UNCHANGED <<closed, chq, srv, sg, lslot, reg, pcl, ents, rid, nextId, grace, cause, admittedAt, resp, pcancelled, told, sdheld, viaSd, pc, left>>

Progress == \/ SrvRecv \/ SrvReaderGone \/ SrvAdmitReader \/ SrvWriterSlot \/ SrvWriterGrant \/ SrvExit
            \/ \E r \in Readers : GraceFire(r) \/ LateCancel(r) \/ AutoRelease(r)
            \/ \E g \in G : Call(g) \/ RSelect1(g) \/ RSelect2(g) \/ WSelect1(g) \/ WSelect2(g) \/ WShutdownLock(g)
                            \/ Ret(g) \/ RetErr(g) \/ Exit(g) \/ RRelease(g) \/ RReleaseAgain(g) \/ WRelease(g)
(* end of run: nothing can move, no timer is pending: whoever still waits will wait forever *)
Stuck == /\ ~ENABLED Progress /\ \A r \in Readers : grace[r] = -1
         /\ \E g \in G : pc[g] \in {"call", "wait", "sd", "unl"} /\ c' = CNext(c, Ev("stuck", g))
         /\ UNCHANGED <<now, closed, chq, srv, sg, lslot, reg, pcl, ents, rid, nextId, grace, cause, admittedAt, resp, pcancelled, told, sdheld, viaSd, pc, left>>

Next == Progress \/ Stuck \/ Settle \/ Shutdown \/ Tick \/ \E r \in Readers : ParentCancel(r)
Spec == Init /\ [][Next]_vars /\ WF_vars(Progress) /\ WF_vars(Tick)

Contract == ~IsBad(c)
(* the code's own bookkeeping *)
WgInv == \A r \in reg : resp[r] = "ok" \/ closed
(* while running: a writer that was answered holds the slot, and nobody is registered *)
WriterExcl == ~closed => \A g \in Writers : (pc[g] \in {"ret", "in"} /\ ~viaSd[g]) => lslot = 1
AllFinish == <>(\A g \in G : pc[g] = "idle" /\ left[g] = 0)
=============================================================================
