SPECIFICATION Spec
CONSTANTS NG = 3 Keys = {1} Rounds = 1 Modes = {"w"} WRels = {"unlock", "deleteunlock"} RRels = {"runlock"} PlainDelete = FALSE Repaired = TRUE NonAtomicDeleteUnlock = TRUE
INVARIANTS NoTwoHolders
CHECK_DEADLOCK FALSE
