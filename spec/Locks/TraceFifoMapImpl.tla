--------------------------- MODULE TraceFifoMapImpl ---------------------------
(* Binding of the implementation-shaped model to the code: hook-level traces   *)
(* of the real fifo.Map (client calls/returns, the decision points             *)
(* fifomap.lock.counted / fifomap.unlock.counted, the arrivals read from the   *)
(* goroutines' wait states and the VerifMapLen observations, all recorded      *)
(* under one mutex) must be behaviours of FifoMap.tla.  The channel operations *)
(* on the item's mutex have no hook and are silent; item identities, ilen and the send queues  *)
(* are inferred by TLC.  A trace that is not accepted is DRIFT between model   *)
(* and code - reported, never a violation by itself.                           *)
EXTENDS FifoMap, TraceLib

Trace == LoadTrace("trace.ndjson")
Starts == {i \in 1..Len(Trace) : Trace[i].ev = "reset"}
VARIABLES tr, l
tvars == <<vars, tr, l>>

TInit == Init /\ tr \in Starts /\ l = tr
HasNext == l + 1 <= Trace[tr].end
E == Trace[l + 1]
Eat == l' = l + 1 /\ UNCHANGED tr
Keep == UNCHANGED <<tr, l>>

TCall == HasNext /\ E.ev = "acq_call" /\ Eat /\ Call(E.g, E.key)
TCounted == /\ HasNext /\ E.ev = "hook" /\ E.point = "fifomap.lock.counted" /\ Eat
            /\ key[E.g] = E.key /\ LCount(E.g)
TRet == HasNext /\ E.ev = "acq_ret" /\ E.ok /\ Eat /\ LRet(E.g)
TRelCall == HasNext /\ E.ev = "rel_call" /\ Eat /\ Exit(E.g)
TUncounted == /\ HasNext /\ E.ev = "hook" /\ E.point = "fifomap.unlock.counted" /\ Eat
              /\ key[E.g] = E.key /\ UCount(E.g) /\ pc'[E.g] = "uncounted"
TRelRet == HasNext /\ E.ev = "rel_ret" /\ Eat /\ URet(E.g)
(* the harness saw E.g blocked in the send queue of a fifo mutex *)
TArrive == /\ HasNext /\ E.ev = "arrive" /\ Eat /\ pc[E.g] = "blocked"
           /\ seen' = seen \cup {E.g} /\ c' = CNext(c, E)
           /\ UNCHANGED <<items, nextObj, ilen, slot, sendq, pc, key, my, left>>
(* VerifMapLen at a quiescent point *)
TObs == /\ HasNext /\ E.ev = "obs" /\ Eat /\ E.entries = Cardinality({k \in Keys : items[k] # 0}) /\ UNCHANGED vars
(* silent: the send on / the receive from the item's mutex *)
Silent == HasNext /\ Keep /\ \E g \in G : LSend(g) \/ URecv(g)
TIgnore == HasNext /\ E.ev \in {"enter", "exit", "stuck", "quiet", "cancel"} /\ Eat /\ UNCHANGED vars

TNext == TCall \/ TCounted \/ TRet \/ TRelCall \/ TUncounted \/ TRelRet \/ TArrive \/ TObs \/ Silent \/ TIgnore
TSpec == TInit /\ [][TNext]_tvars
Done == IF l = Trace[tr].end THEN PrintT(<<"DONE", tr>>) ELSE TRUE
=============================================================================
