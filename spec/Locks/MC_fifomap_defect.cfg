SPECIFICATION Spec
CONSTANTS NG = 3 Keys = {1} Rounds = 2 CountUnderLock = FALSE
INVARIANTS Contract
CHECK_DEADLOCK FALSE
