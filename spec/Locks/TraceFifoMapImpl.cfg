SPECIFICATION TSpec
CONSTANTS
  NG = 8
  Keys = {1, 2, 3}
  Rounds = 4
  CountUnderLock = TRUE
CONSTRAINT Done
INVARIANTS CountInv NoOrphanUse
CHECK_DEADLOCK FALSE
