SPECIFICATION Spec
CONSTANTS NG = 2 Rounds = 2 Modes = {"w", "r"} LeakOnCancel = FALSE DeafWaiter = FALSE
INVARIANTS Contract TokenInv RWNeverBlocks
PROPERTY AllFinish
CHECK_DEADLOCK FALSE
