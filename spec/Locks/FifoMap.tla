------------------------------- MODULE FifoMap -------------------------------
(* Implementation-shaped model of concurrency/fifo/map.go.                     *)
(*   items: key -> item object (0 = absent); every object has ilen (holders +  *)
(*   waiters) and its own FIFO mutex (slot, sendq as in FifoMutex.tla).        *)
(*   Lock:   under the map lock find/create the item and ilen++   (LCount),    *)
(*           then - outside - block on the item's mutex           (LSend);     *)
(*           the state in between is pc = "counted".                           *)
(*   Unlock: under the map lock ilen--, delete at zero            (UCount),    *)
(*           then unlock the item's mutex                         (URecv),     *)
(*           return                                               (URet).      *)
(* The map lock's critical sections never block, so each is one step.          *)
(* CountUnderLock = FALSE is the defect variant: ilen++ happens after the map  *)
(* lock was released (LFind, then LIncr).                                      *)
EXTENDS LockContract

CONSTANTS NG, Keys, Rounds, CountUnderLock
G == 1..NG
Objs == 1..(NG * Rounds)

VARIABLES items, nextObj, ilen, slot, sendq, seen, pc, key, my, left, c
vars == <<items, nextObj, ilen, slot, sendq, seen, pc, key, my, left, c>>

Ev(n, g) == [ev |-> n, g |-> g]
Init == /\ items = [k \in Keys |-> 0] /\ nextObj = 1
        /\ ilen = [o \in Objs |-> 0] /\ slot = [o \in Objs |-> 0] /\ sendq = [o \in Objs |-> << >>]
        /\ seen = {} /\ pc = [g \in G |-> "idle"] /\ key = [g \in G |-> 0] /\ my = [g \in G |-> 0]
        /\ left = [g \in G |-> Rounds]
        /\ c = CReset([prim |-> "fifomap", graceful |-> 0])

Call(g, k) == /\ pc[g] = "idle" /\ left[g] > 0 /\ pc' = [pc EXCEPT ![g] = "call"] /\ key' = [key EXCEPT ![g] = k]
              /\ c' = CNext(c, [ev |-> "acq_call", g |-> g, key |-> k, mode |-> "w", pre |-> FALSE])
              /\ UNCHANGED <<items, nextObj, ilen, slot, sendq, seen, my, left>>

(* map.go:41-47: a.lock.Lock(); find or create; [m.ilen++;] a.lock.Unlock() *)
Find(g, count) ==
   LET k == key[g]
       fresh == items[k] = 0
       m == IF fresh THEN nextObj ELSE items[k]
   IN /\ items' = [items EXCEPT ![k] = m]
      /\ nextObj' = IF fresh THEN nextObj + 1 ELSE nextObj
      /\ my' = [my EXCEPT ![g] = m]
      /\ ilen' = IF count THEN [ilen EXCEPT ![m] = @ + 1] ELSE ilen
LCount(g) == /\ CountUnderLock /\ pc[g] = "call" /\ Find(g, TRUE) /\ pc' = [pc EXCEPT ![g] = "counted"]
             /\ UNCHANGED <<slot, sendq, seen, key, left, c>>
LFind(g) == /\ ~CountUnderLock /\ pc[g] = "call" /\ Find(g, FALSE) /\ pc' = [pc EXCEPT ![g] = "found"]
            /\ UNCHANGED <<slot, sendq, seen, key, left, c>>
LIncr(g) == /\ pc[g] = "found" /\ ilen' = [ilen EXCEPT ![my[g]] = @ + 1] /\ pc' = [pc EXCEPT ![g] = "counted"]
            /\ UNCHANGED <<items, nextObj, slot, sendq, seen, key, my, left, c>>
(* map.go:50: m.mutex.Lock() - gate "fifomap.lock.counted" sits before it *)
LSend(g) == /\ pc[g] = "counted"
            /\ LET m == my[g] IN
               IF slot[m] = 0 THEN slot' = [slot EXCEPT ![m] = 1] /\ pc' = [pc EXCEPT ![g] = "ret"] /\ UNCHANGED sendq
                              ELSE sendq' = [sendq EXCEPT ![m] = Append(@, g)] /\ pc' = [pc EXCEPT ![g] = "blocked"] /\ UNCHANGED slot
            /\ UNCHANGED <<items, nextObj, ilen, seen, key, my, left, c>>
LRet(g) == /\ pc[g] = "ret" /\ pc' = [pc EXCEPT ![g] = "in"]
           /\ c' = CNext2(c, [ev |-> "acq_ret", g |-> g, ok |-> TRUE], Ev("enter", g))
           /\ UNCHANGED <<items, nextObj, ilen, slot, sendq, seen, key, my, left>>
Exit(g) == /\ pc[g] = "in" /\ pc' = [pc EXCEPT ![g] = "unl"]
           /\ c' = CNext2(c, Ev("exit", g), [ev |-> "rel_call", g |-> g, how |-> "unlock"])
           /\ UNCHANGED <<items, nextObj, ilen, slot, sendq, seen, key, my, left>>
(* map.go:54-60: a.lock.Lock(); m := a.items[key]; m.ilen--; delete at zero; a.lock.Unlock() *)
UCount(g) == /\ pc[g] = "unl"
             /\ LET k == key[g]
                    m == items[k]
                IN IF m = 0
                   THEN /\ pc' = [pc EXCEPT ![g] = "dead"] /\ c' = CNext(c, [ev |-> "panic", g |-> g, what |-> "nil item"])
                        /\ UNCHANGED <<items, ilen, my>>
                   ELSE /\ ilen' = [ilen EXCEPT ![m] = @ - 1]           \* uint64: 0 - 1 wraps, it is not zero
                        /\ items' = IF ilen[m] = 1 THEN [items EXCEPT ![k] = 0] ELSE items
                        /\ my' = [my EXCEPT ![g] = m] /\ pc' = [pc EXCEPT ![g] = "uncounted"] /\ UNCHANGED c
             /\ UNCHANGED <<nextObj, slot, sendq, seen, key, left>>
(* map.go:62: m.mutex.Unlock() - gate "fifomap.unlock.counted" sits before it.  The receive hands the slot to the *)
(* first blocked sender, which may return (and be seen returning) before this caller's own return is recorded.    *)
URecv(g) == /\ pc[g] = "uncounted"
            /\ LET m == my[g] IN
               /\ slot[m] = 1
               /\ IF sendq[m] = << >> THEN slot' = [slot EXCEPT ![m] = 0] /\ UNCHANGED <<sendq, seen>> /\ pc' = [pc EXCEPT ![g] = "released"]
                  ELSE /\ sendq' = [sendq EXCEPT ![m] = Tail(@)] /\ seen' = seen \ {Head(sendq[m])}
                       /\ pc' = [pc EXCEPT ![g] = "released", ![Head(sendq[m])] = "ret"] /\ UNCHANGED slot
            /\ UNCHANGED <<items, nextObj, ilen, key, my, left, c>>
URet(g) == /\ pc[g] = "released" /\ pc' = [pc EXCEPT ![g] = "idle"]
           /\ left' = [left EXCEPT ![g] = @ - 1]
           /\ c' = CNext(c, Ev("rel_ret", g))
           /\ UNCHANGED <<items, nextObj, ilen, slot, sendq, seen, key, my>>

(* the harness at a quiescent point with nobody inside a map operation: arrivals, then the number of entries *)
Quiet == \A g \in G : pc[g] \in {"idle", "blocked", "in"}
Observe == LET U == {g \in G : pc[g] = "blocked" /\ g \notin seen} IN
           /\ Quiet /\ seen' = seen \cup U
           /\ c' = CNext(CArriveAll(c, U, TRUE), [ev |-> "obs", entries |-> Cardinality({k \in Keys : items[k] # 0})])
           /\ UNCHANGED <<items, nextObj, ilen, slot, sendq, pc, key, my, left>>
Dead(g) == pc[g] \in {"blocked", "dead"} \/ (pc[g] = "uncounted" /\ slot[my[g]] = 0)
Stuck == /\ \A g \in G : Dead(g) \/ (pc[g] = "idle" /\ left[g] = 0)
         /\ \E g \in G : Dead(g) /\ pc[g] # "dead" /\ c' = CNext(c, Ev("stuck", g))
         /\ UNCHANGED <<items, nextObj, ilen, slot, sendq, seen, pc, key, my, left>>

Next == \/ Stuck \/ Observe
        \/ \E g \in G : (\E k \in Keys : Call(g, k)) \/ LCount(g) \/ LFind(g) \/ LIncr(g) \/ LSend(g) \/ LRet(g) \/ Exit(g) \/ UCount(g) \/ URecv(g) \/ URet(g)
Spec == Init /\ [][Next]_vars /\ WF_vars(Next)

Contract == ~IsBad(c)
(* the bookkeeping invariant of the code: ilen = holders + waiters of the item that is in the map, *)
(* and nobody refers to an item that is not in the map                                            *)
Users(o) == {g \in G : my[g] = o /\ pc[g] \in {"counted", "ret", "blocked", "in", "unl"}}
CountInv == CountUnderLock => \A k \in Keys : items[k] # 0 => ilen[items[k]] = Cardinality(Users(items[k]))
NoOrphanUse == CountUnderLock => \A g \in G : pc[g] \in {"counted", "ret", "blocked", "in", "unl"} => items[key[g]] = my[g]
AllFinish == <>(\A g \in G : pc[g] = "idle" /\ left[g] = 0)
AtRestEmpty == [](((\A g \in G : pc[g] = "idle")) => \A k \in Keys : items[k] = 0)
=============================================================================
