SPECIFICATION Spec
CONSTANTS Readers = {1} Writers = {2} Rounds = 1 Grace = 2 MaxT = 3 AllowShutdown = FALSE AllowParentCancel = FALSE GraceFromAdmission = FALSE ErrButAdmitted = FALSE DeleteOnEveryRelease = FALSE AutoReleaseOnCtxEnd = FALSE CancelAfterDone = TRUE NoCtxOnSend = FALSE
INVARIANTS Contract
CHECK_DEADLOCK FALSE
