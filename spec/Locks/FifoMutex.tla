------------------------------ MODULE FifoMutex ------------------------------
(* Implementation-shaped model of concurrency/fifo/mutex.go: a 1-slot channel; *)
(* Lock = send, Unlock = receive.                                              *)
(* AXIOM (Go runtime, chan.go: sendq is a FIFO list of sudogs, a receive on a  *)
(* full buffered channel takes the buffer head and moves the value of the      *)
(* FIRST blocked sender into the buffer): blocked senders are served in the    *)
(* order in which they blocked.  LIFO = TRUE negates the axiom (defect model). *)
EXTENDS LockContract

CONSTANTS NG, Rounds, LIFO
G == 1..NG

VARIABLES slot,      \* 0 | 1 : the channel buffer
          sendq,     \* blocked senders, oldest first
          seen,      \* blocked senders the harness has already observed (arrival recorded)
          pc, left, c
vars == <<slot, sendq, seen, pc, left, c>>

Ev(n, g) == [ev |-> n, g |-> g]
Init == /\ slot = 0 /\ sendq = << >> /\ seen = {} /\ pc = [g \in G |-> "idle"] /\ left = [g \in G |-> Rounds]
        /\ c = CReset([prim |-> "fifomutex", graceful |-> 0])

Call(g) == /\ pc[g] = "idle" /\ left[g] > 0 /\ pc' = [pc EXCEPT ![g] = "call"]
           /\ c' = CNext(c, [ev |-> "acq_call", g |-> g, key |-> 0, mode |-> "w", pre |-> FALSE])
           /\ UNCHANGED <<slot, sendq, left, seen>>
(* m.lock <- struct{}{} *)
Send(g) == /\ pc[g] = "call"
           /\ IF slot = 0 THEN /\ slot' = 1 /\ pc' = [pc EXCEPT ![g] = "ret"] /\ UNCHANGED <<sendq, c>>
                          ELSE /\ sendq' = Append(sendq, g) /\ pc' = [pc EXCEPT ![g] = "blocked"] /\ UNCHANGED <<slot, c>>
           /\ UNCHANGED <<left, seen>>
(* the harness looks at the goroutines' wait states when nothing moves: arrival order = order of observation *)
Quiet == \A g \in G : pc[g] \in {"idle", "blocked", "in"}
Observe == LET U == {g \in G : pc[g] = "blocked" /\ g \notin seen} IN
           /\ Quiet /\ U # {} /\ seen' = seen \cup U /\ c' = CArriveAll(c, U, TRUE)
           /\ UNCHANGED <<slot, sendq, pc, left>>
Ret(g) == /\ pc[g] = "ret" /\ pc' = [pc EXCEPT ![g] = "in"]
          /\ c' = CNext2(c, [ev |-> "acq_ret", g |-> g, ok |-> TRUE], Ev("enter", g))
          /\ UNCHANGED <<slot, sendq, left, seen>>
Exit(g) == /\ pc[g] = "in" /\ pc' = [pc EXCEPT ![g] = "unl"]
           /\ c' = CNext2(c, Ev("exit", g), [ev |-> "rel_call", g |-> g, how |-> "unlock"])
           /\ UNCHANGED <<slot, sendq, left, seen>>
(* <-m.lock : hands the slot to the first blocked sender, which may return before this caller does *)
Recv(g) == /\ pc[g] = "unl" /\ slot = 1
           /\ IF sendq = << >> THEN slot' = 0 /\ UNCHANGED <<sendq, seen>> /\ pc' = [pc EXCEPT ![g] = "released"]
              ELSE LET i == IF LIFO THEN Len(sendq) ELSE 1
                       w == sendq[i]
                   IN /\ sendq' = SubSeq(sendq, 1, i - 1) \o SubSeq(sendq, i + 1, Len(sendq)) /\ seen' = seen \ {w}
                      /\ pc' = [pc EXCEPT ![g] = "released", ![w] = "ret"] /\ UNCHANGED slot
           /\ UNCHANGED <<left, c>>
RelRet(g) == /\ pc[g] = "released" /\ pc' = [pc EXCEPT ![g] = "idle"] /\ left' = [left EXCEPT ![g] = @ - 1]
             /\ c' = CNext(c, Ev("rel_ret", g)) /\ UNCHANGED <<slot, sendq, seen>>
(* end of run: whoever still waits will wait forever *)
Dead(g) == pc[g] = "blocked" \/ (pc[g] = "unl" /\ slot = 0)
Stuck == /\ \A g \in G : Dead(g) \/ (pc[g] = "idle" /\ left[g] = 0)
         /\ \E g \in G : Dead(g) /\ c' = CNext(c, Ev("stuck", g))
         /\ UNCHANGED <<slot, sendq, pc, left, seen>>

Next == Stuck \/ Observe \/ \E g \in G : Call(g) \/ Send(g) \/ Ret(g) \/ Exit(g) \/ Recv(g) \/ RelRet(g)
Spec == Init /\ [][Next]_vars /\ WF_vars(Next)

Contract == ~IsBad(c)
(* the model's own invariants: the slot is full iff somebody was granted and has not received yet *)
SlotInv == slot = (IF \E g \in G : pc[g] \in {"ret", "in", "unl"} THEN 1 ELSE 0)
OneHolder == Cardinality({g \in G : pc[g] \in {"ret", "in", "unl"}}) <= 1
AllFinish == <>(\A g \in G : pc[g] = "idle" /\ left[g] = 0)
=============================================================================
