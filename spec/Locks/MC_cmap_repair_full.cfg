SPECIFICATION Spec
CONSTANTS NG = 2 Keys = {1} Rounds = 3 Modes = {"w", "r"} WRels = {"unlock", "deleteunlock"} RRels = {"runlock", "deleterunlock"} PlainDelete = FALSE Revalidate = TRUE SafeDelR = TRUE
INVARIANTS Contract HoldsCurrent
PROPERTY AllFinish
CHECK_DEADLOCK FALSE
