SPECIFICATION Spec
CONSTANTS NG = 3 Rounds = 2 Modes = {"w"} LeakOnCancel = FALSE DeafWaiter = FALSE
INVARIANTS Contract TokenInv RWNeverBlocks
PROPERTY AllFinish
CHECK_DEADLOCK FALSE
