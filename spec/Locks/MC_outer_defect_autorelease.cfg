SPECIFICATION Spec
CONSTANTS Readers = {1} Writers = {2} Rounds = 1 Grace = 2 MaxT = 3 AllowShutdown = FALSE AllowParentCancel = TRUE GraceFromAdmission = FALSE ErrButAdmitted = FALSE DeleteOnEveryRelease = FALSE AutoReleaseOnCtxEnd = TRUE CancelAfterDone = FALSE NoCtxOnSend = FALSE
INVARIANTS Contract
CHECK_DEADLOCK FALSE
