SPECIFICATION Spec
CONSTANTS NG = 2 Rounds = 2 Modes = {"w"} LeakOnCancel = FALSE DeafWaiter = TRUE
INVARIANTS Contract
CHECK_DEADLOCK FALSE
