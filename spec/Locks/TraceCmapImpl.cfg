SPECIFICATION TSpec
CONSTANTS
  NG = 8
  Keys = {1, 2, 3}
  Rounds = 4
  Modes = {"w", "r"}
  WRels = {"unlock", "deleteunlock"}
  RRels = {"runlock", "deleterunlock"}
  PlainDelete = TRUE
  Repaired = TRUE NonAtomicDeleteUnlock = FALSE
CONSTRAINT Done
INVARIANTS RWInv
CHECK_DEADLOCK FALSE
