------------------------------ MODULE CmapMutex ------------------------------
(* Implementation-shaped model of concurrency/cmap/mutex.go.                   *)
(*   items: key -> mutex OBJECT (0 = absent).  An object has identity and its  *)
(*   own RWMutex state (w: write-locked, r: number of read locks); an object   *)
(*   that was removed from the map lives on for whoever still refers to it.    *)
(*   Lock/RLock:  Look   - look the object up under the map's READ lock;       *)
(*                          the result can be stale by the time it is used     *)
(*                Create - not found: under the map's write lock look again,   *)
(*                          create if still absent (double-checked creation)   *)
(*                Acq    - mutex.Lock()/RLock() on the object in hand, outside *)
(*                          the map lock (gates cmap.*.lookedUp / .created sit *)
(*                          before it)                                         *)
(*   Unlock/RUnlock look the object up AGAIN (map read lock) and unlock what   *)
(*   they find; nothing if absent.  DeleteUnlock/DeleteRUnlock do the same     *)
(*   under the map's write lock and remove the entry.  Delete only removes.    *)
(*   Unlocking an RWMutex that is not locked is a fatal runtime error.         *)
(* The critical sections of the map's own lock never block: one step each.     *)
(* Revalidate = TRUE models the repair "after acquiring, check under the map   *)
(* read lock that the key still maps to the object in hand, else release it    *)
(* and start over"; FALSE is the code as it is.  SafeDelR = TRUE models the    *)
(* companion repair of DeleteRUnlock (delete only when TryLock succeeds).      *)
EXTENDS LockContract

CONSTANTS NG, Keys, Rounds,
          Modes,       \* subset of {"w", "r"}
          WRels,       \* how writers release: subset of {"unlock", "deleteunlock"}
          RRels,       \* how readers release: subset of {"runlock", "deleterunlock"}
          PlainDelete, \* TRUE: a Delete(key) may be issued at any time by a bystander
          Revalidate,
          SafeDelR     \* TRUE models the repair of DeleteRUnlock: remove the entry only if TryLock succeeds (nobody else uses the mutex)
G == 1..NG
Objs == 1..(NG * Rounds)

VARIABLES items, nextObj, w, r, pc, key, mode, rel, my, left, crashed, c
vars == <<items, nextObj, w, r, pc, key, mode, rel, my, left, crashed, c>>

Ev(n, g) == [ev |-> n, g |-> g]
Init == /\ items = [k \in Keys |-> 0] /\ nextObj = 1 /\ w = [o \in Objs |-> FALSE] /\ r = [o \in Objs |-> 0]
        /\ pc = [g \in G |-> "idle"] /\ key = [g \in G |-> 0] /\ mode = [g \in G |-> "w"] /\ rel = [g \in G |-> "unlock"]
        /\ my = [g \in G |-> 0] /\ left = [g \in G |-> Rounds] /\ crashed = FALSE
        /\ c = CReset([prim |-> "cmap", graceful |-> 0])

Call(g, k, m, rl) ==
   /\ pc[g] = "idle" /\ left[g] > 0
   /\ pc' = [pc EXCEPT ![g] = "call"] /\ key' = [key EXCEPT ![g] = k] /\ mode' = [mode EXCEPT ![g] = m] /\ rel' = [rel EXCEPT ![g] = rl]
   /\ c' = CNext(c, [ev |-> "acq_call", g |-> g, key |-> k, mode |-> m, pre |-> FALSE])
   /\ UNCHANGED <<items, nextObj, w, r, my, left, crashed>>
(* mutex.go:58-60 / 85-87 *)
Look(g) == /\ pc[g] = "call"
           /\ IF items[key[g]] # 0 THEN my' = [my EXCEPT ![g] = items[key[g]]] /\ pc' = [pc EXCEPT ![g] = "have"]
                                   ELSE pc' = [pc EXCEPT ![g] = "create"] /\ UNCHANGED my
           /\ UNCHANGED <<items, nextObj, w, r, key, mode, rel, left, crashed, c>>
(* mutex.go:67-73 / 95-101 *)
Create(g) == /\ pc[g] = "create"
             /\ LET k == key[g]
                    fresh == items[k] = 0
                    o == IF fresh THEN nextObj ELSE items[k]
                IN /\ items' = [items EXCEPT ![k] = o] /\ nextObj' = IF fresh THEN nextObj + 1 ELSE nextObj
                   /\ my' = [my EXCEPT ![g] = o]
             /\ pc' = [pc EXCEPT ![g] = "have"]
             /\ UNCHANGED <<w, r, key, mode, rel, left, crashed, c>>
CanAcq(g) == IF mode[g] = "w" THEN ~w[my[g]] /\ r[my[g]] = 0 ELSE ~w[my[g]]
Acq(g) == /\ pc[g] = "have" /\ CanAcq(g)
          /\ IF mode[g] = "w" THEN w' = [w EXCEPT ![my[g]] = TRUE] /\ UNCHANGED r
                              ELSE r' = [r EXCEPT ![my[g]] = @ + 1] /\ UNCHANGED w
          /\ pc' = [pc EXCEPT ![g] = IF Revalidate THEN "check" ELSE "ret"]
          /\ UNCHANGED <<items, nextObj, key, mode, rel, my, left, crashed, c>>
Check(g) == /\ pc[g] = "check"
            /\ IF items[key[g]] = my[g] THEN pc' = [pc EXCEPT ![g] = "ret"] /\ UNCHANGED <<w, r>>
               ELSE /\ pc' = [pc EXCEPT ![g] = "call"]
                    /\ IF mode[g] = "w" THEN w' = [w EXCEPT ![my[g]] = FALSE] /\ UNCHANGED r
                                        ELSE r' = [r EXCEPT ![my[g]] = @ - 1] /\ UNCHANGED w
            /\ UNCHANGED <<items, nextObj, key, mode, rel, my, left, crashed, c>>
Ret(g) == /\ pc[g] = "ret" /\ pc' = [pc EXCEPT ![g] = "in"]
          /\ c' = CNext2(c, [ev |-> "acq_ret", g |-> g, ok |-> TRUE], Ev("enter", g))
          /\ UNCHANGED <<items, nextObj, w, r, key, mode, rel, my, left, crashed>>
Exit(g) == /\ pc[g] = "in" /\ pc' = [pc EXCEPT ![g] = "unl"]
           /\ c' = CNext2(c, Ev("exit", g), [ev |-> "rel_call", g |-> g, how |-> rel[g]])
           /\ UNCHANGED <<items, nextObj, w, r, key, mode, rel, my, left, crashed>>
(* mutex.go:77-83, 106-112, 120-138: look up again, unlock what is found, (delete) *)
Rel(g) == /\ pc[g] = "unl"
          /\ LET k == key[g]
                 o == items[k]
                 wr == rel[g] \in {"unlock", "deleteunlock"}
                 fatal == o # 0 /\ (IF wr THEN ~w[o] ELSE r[o] = 0)
             IN IF fatal
                THEN /\ crashed' = TRUE /\ c' = CNext(c, [ev |-> "crash", what |-> "unlock of unlocked RWMutex"])
                     /\ UNCHANGED <<items, w, r, pc, left>>
                ELSE /\ IF o = 0 THEN UNCHANGED <<w, r>>
                        ELSE IF wr THEN w' = [w EXCEPT ![o] = FALSE] /\ UNCHANGED r
                        ELSE r' = [r EXCEPT ![o] = @ - 1] /\ UNCHANGED w
                     /\ items' = IF rel[g] = "deleteunlock" \/ (rel[g] = "deleterunlock" /\ (~SafeDelR \/ o = 0 \/ (r[o] = 1 /\ ~w[o])))
                                 THEN [items EXCEPT ![k] = 0] ELSE items
                     /\ pc' = [pc EXCEPT ![g] = "idle"] /\ left' = [left EXCEPT ![g] = @ - 1]
                     /\ c' = CNext(c, Ev("rel_ret", g)) /\ UNCHANGED crashed
          /\ UNCHANGED <<nextObj, key, mode, rel, my>>
(* mutex.go:114-118 *)
Delete(k) == /\ PlainDelete /\ items[k] # 0 /\ items' = [items EXCEPT ![k] = 0]
             /\ UNCHANGED <<nextObj, w, r, pc, key, mode, rel, my, left, crashed, c>>

Dead(g) == pc[g] = "have" /\ ~CanAcq(g)
Stuck == /\ \A g \in G : Dead(g) \/ (pc[g] = "idle" /\ left[g] = 0)
         /\ \E g \in G : Dead(g) /\ c' = CNext(c, Ev("stuck", g))
         /\ UNCHANGED <<items, nextObj, w, r, pc, key, mode, rel, my, left, crashed>>

Rels(m) == IF m = "w" THEN WRels ELSE RRels
Next == /\ ~crashed
        /\ \/ Stuck
           \/ \E k \in Keys : Delete(k)
           \/ \E g \in G : \/ \E k \in Keys, m \in Modes : \E rl \in Rels(m) : Call(g, k, m, rl)
                           \/ Look(g) \/ Create(g) \/ Acq(g) \/ Check(g) \/ Ret(g) \/ Exit(g) \/ Rel(g)
Spec == Init /\ [][Next]_vars /\ WF_vars(Next)

Contract == ~IsBad(c)
(* whoever is between grant and release holds the object the key maps to (this is what F-C13-1 breaks) *)
HoldsCurrent == \A g \in G : pc[g] \in {"ret", "in", "unl"} => items[key[g]] = my[g]
AllFinish == <>(\A g \in G : pc[g] = "idle" /\ left[g] = 0)
=============================================================================
