------------------------------ MODULE CmapMutex ------------------------------
(* Implementation-shaped model of concurrency/cmap/mutex.go.                   *)
(*   items: key -> mutex OBJECT (0 = absent).  An object has identity and its  *)
(*   own sync.RWMutex state: wm = the goroutine that owns the RWMutex's inner  *)
(*   writer mutex (a writer that holds the lock, or the first pending writer:  *)
(*   it has announced itself, new readers wait, TryLock fails), w = write-     *)
(*   locked, r = number of read locks.  An object that was removed from the    *)
(*   map lives on for whoever still refers to it.                              *)
(*   Lock/RLock(key) = for { m := get(key); m.Lock()/RLock();                  *)
(*                           if current(key, m) { return }; m.Unlock()/RUnlock() } *)
(*     get:     Look   - look the object up under the map's READ lock          *)
(*                        (hook cmap.(r)lock.lookedUp{found} right after it)   *)
(*              Create - not found: under the map's write lock look again and  *)
(*                        create if still absent (hook cmap.(r)lock.created)   *)
(*     m.Lock:  WEnter - take the inner writer mutex and announce (silent)     *)
(*              WAcq   - the readers have drained: write-locked (silent)       *)
(*     m.RLock: RAcq   - no writer holds or is pending (silent)                *)
(*     Check    current(): still the object the key maps to?  else release it  *)
(*              and start over (silent)                                        *)
(*   Unlock/RUnlock look the object up AGAIN (map read lock) and unlock what   *)
(*   they find; nothing if absent.  DeleteUnlock does the same under the map's *)
(*   write lock and removes the entry.  DeleteRUnlock read-unlocks and removes *)
(*   the entry only if TryLock succeeds (nobody holds or waits as a writer).   *)
(*   Delete only removes.  Unlocking an RWMutex that is not locked is a fatal  *)
(*   runtime error.  The critical sections of the map's own lock never block:  *)
(*   one step each.                                                            *)
(* Repaired = TRUE is the code as it is now.  Repaired = FALSE is the code AS  *)
(* FOUND (defect variants F-C13-1): no current() check after acquiring, and    *)
(* DeleteRUnlock removes the entry unconditionally.                            *)
(* Every release method passes a verif point at its entry (cmap.unlock.begin,  *)
(* cmap.runlock.begin, cmap.deleteunlock.begin, cmap.deleterunlock.begin,      *)
(* cmap.delete.begin): RelBegin; its effect on the map and the mutex is one    *)
(* critical section of the map's lock: Rel; then it returns: RelRet.           *)
(* NonAtomicDeleteUnlock = TRUE is a defect variant in which DeleteUnlock is   *)
(* Unlock(key) followed by Delete(key): a waiter can take the mutex and find   *)
(* it still registered in between.                                             *)
(* The client program is not baked in: Call takes key and mode, Exit takes the *)
(* release call (chosen from the constant sets when model checking, from the   *)
(* recorded call events when validating traces).                               *)
EXTENDS LockContract

CONSTANTS NG, Keys, Rounds,
          Modes,       \* subset of {"w", "r"}
          WRels,       \* how writers release: subset of {"unlock", "deleteunlock"}
          RRels,       \* how readers release: subset of {"runlock", "deleterunlock"}
          PlainDelete, \* TRUE: a Delete(key) may be issued at any time by a bystander
          Repaired,
          NonAtomicDeleteUnlock  \* TRUE: defect variant - DeleteUnlock = Unlock(key); Delete(key), two critical sections
G == 1..NG
Objs == 1..(NG * Rounds)

VARIABLES items, nextObj, wm, w, r, pc, key, mode, rel, my, left, crashed, c
vars == <<items, nextObj, wm, w, r, pc, key, mode, rel, my, left, crashed, c>>

Ev(n, g) == [ev |-> n, g |-> g]
Init == /\ items = [k \in Keys |-> 0] /\ nextObj = 1
        /\ wm = [o \in Objs |-> 0] /\ w = [o \in Objs |-> FALSE] /\ r = [o \in Objs |-> 0]
        /\ pc = [g \in G |-> "idle"] /\ key = [g \in G |-> 0] /\ mode = [g \in G |-> "w"] /\ rel = [g \in G |-> "unlock"]
        /\ my = [g \in G |-> 0] /\ left = [g \in G |-> Rounds] /\ crashed = FALSE
        /\ c = CReset([prim |-> "cmap", graceful |-> 0])

Call(g, k, m) ==
   /\ pc[g] = "idle" /\ left[g] > 0
   /\ pc' = [pc EXCEPT ![g] = "call"] /\ key' = [key EXCEPT ![g] = k] /\ mode' = [mode EXCEPT ![g] = m]
   /\ c' = CNext(c, [ev |-> "acq_call", g |-> g, key |-> k, mode |-> m, pre |-> FALSE])
   /\ UNCHANGED <<items, nextObj, wm, w, r, rel, my, left, crashed>>
(* get(), mutex.go:59-62 *)
Look(g) == /\ pc[g] = "call"
           /\ IF items[key[g]] # 0 THEN my' = [my EXCEPT ![g] = items[key[g]]] /\ pc' = [pc EXCEPT ![g] = "have"]
                                   ELSE pc' = [pc EXCEPT ![g] = "create"] /\ UNCHANGED my
           /\ UNCHANGED <<items, nextObj, wm, w, r, key, mode, rel, left, crashed, c>>
(* get(), mutex.go:67-74 *)
Create(g) == /\ pc[g] = "create"
             /\ LET k == key[g]
                    fresh == items[k] = 0
                    o == IF fresh THEN nextObj ELSE items[k]
                IN /\ items' = [items EXCEPT ![k] = o] /\ nextObj' = IF fresh THEN nextObj + 1 ELSE nextObj
                   /\ my' = [my EXCEPT ![g] = o]
             /\ pc' = [pc EXCEPT ![g] = "have"]
             /\ UNCHANGED <<wm, w, r, key, mode, rel, left, crashed, c>>
Acquired(g) == IF Repaired THEN "check" ELSE "ret"
(* sync.RWMutex.Lock: rw.w.Lock(); announce; wait for the readers *)
WEnter(g) == /\ pc[g] = "have" /\ mode[g] = "w" /\ wm[my[g]] = 0
             /\ wm' = [wm EXCEPT ![my[g]] = g] /\ pc' = [pc EXCEPT ![g] = "wwait"]
             /\ UNCHANGED <<items, nextObj, w, r, key, mode, rel, my, left, crashed, c>>
WAcq(g) == /\ pc[g] = "wwait" /\ r[my[g]] = 0
           /\ w' = [w EXCEPT ![my[g]] = TRUE] /\ pc' = [pc EXCEPT ![g] = Acquired(g)]
           /\ UNCHANGED <<items, nextObj, wm, r, key, mode, rel, my, left, crashed, c>>
(* sync.RWMutex.RLock *)
RAcq(g) == /\ pc[g] = "have" /\ mode[g] = "r" /\ wm[my[g]] = 0
           /\ r' = [r EXCEPT ![my[g]] = @ + 1] /\ pc' = [pc EXCEPT ![g] = Acquired(g)]
           /\ UNCHANGED <<items, nextObj, wm, w, key, mode, rel, my, left, crashed, c>>
(* Lock/RLock, mutex.go:88-99 / 113-122: current(), else release and start over *)
Check(g) == /\ pc[g] = "check"
            /\ IF items[key[g]] = my[g] THEN pc' = [pc EXCEPT ![g] = "ret"] /\ UNCHANGED <<wm, w, r>>
               ELSE /\ pc' = [pc EXCEPT ![g] = "call"]
                    /\ IF mode[g] = "w" THEN w' = [w EXCEPT ![my[g]] = FALSE] /\ wm' = [wm EXCEPT ![my[g]] = 0] /\ UNCHANGED r
                                        ELSE r' = [r EXCEPT ![my[g]] = @ - 1] /\ UNCHANGED <<w, wm>>
            /\ UNCHANGED <<items, nextObj, key, mode, rel, my, left, crashed, c>>
Ret(g) == /\ pc[g] = "ret" /\ pc' = [pc EXCEPT ![g] = "in"]
          /\ c' = CNext2(c, [ev |-> "acq_ret", g |-> g, ok |-> TRUE], Ev("enter", g))
          /\ UNCHANGED <<items, nextObj, wm, w, r, key, mode, rel, my, left, crashed>>
Exit(g, rl) == /\ pc[g] = "in" /\ pc' = [pc EXCEPT ![g] = "unl"] /\ rel' = [rel EXCEPT ![g] = rl]
               /\ c' = CNext2(c, Ev("exit", g), [ev |-> "rel_call", g |-> g, how |-> rl])
               /\ UNCHANGED <<items, nextObj, wm, w, r, key, mode, my, left, crashed>>
(* the entry point of Unlock / RUnlock / DeleteUnlock / DeleteRUnlock *)
RelBegin(g) == /\ pc[g] = "unl" /\ pc' = [pc EXCEPT ![g] = "rel"]
               /\ UNCHANGED <<items, nextObj, wm, w, r, key, mode, rel, my, left, crashed, c>>
(* Unlock, RUnlock, DeleteUnlock, DeleteRUnlock: look up again, unlock what is found, (delete) *)
Split(g) == NonAtomicDeleteUnlock /\ rel[g] = "deleteunlock"
Rel(g) == /\ pc[g] = "rel"
          /\ LET k == key[g]
                 o == items[k]
                 wr == rel[g] \in {"unlock", "deleteunlock"}
                 fatal == o # 0 /\ (IF wr THEN ~w[o] ELSE r[o] = 0)
                 tryLock == o # 0 /\ wm[o] = 0 /\ r[o] = 1            \* after the RUnlock: no reader, no writer holding or pending
                 del == \/ rel[g] = "deleteunlock" /\ ~Split(g)
                        \/ rel[g] = "deleterunlock" /\ (IF Repaired THEN tryLock ELSE TRUE)
             IN IF fatal
                THEN /\ crashed' = TRUE /\ c' = CNext(c, [ev |-> "crash", what |-> "unlock of unlocked RWMutex"])
                     /\ UNCHANGED <<items, wm, w, r, pc, left>>
                ELSE /\ IF o = 0 THEN UNCHANGED <<wm, w, r>>
                        ELSE IF wr THEN w' = [w EXCEPT ![o] = FALSE] /\ wm' = [wm EXCEPT ![o] = 0] /\ UNCHANGED r
                        ELSE r' = [r EXCEPT ![o] = @ - 1] /\ UNCHANGED <<w, wm>>
                     /\ items' = IF del THEN [items EXCEPT ![k] = 0] ELSE items
                     /\ pc' = [pc EXCEPT ![g] = IF Split(g) THEN "du2" ELSE "released"] /\ UNCHANGED <<left, c, crashed>>
          /\ UNCHANGED <<nextObj, key, mode, rel, my>>
(* defect variant: the second half of a non-atomic DeleteUnlock *)
RelDeleteHalf(g) == /\ pc[g] = "du2" /\ items' = [items EXCEPT ![key[g]] = 0] /\ pc' = [pc EXCEPT ![g] = "released"]
                    /\ UNCHANGED <<nextObj, wm, w, r, key, mode, rel, my, left, crashed, c>>
(* the release call returns; a waiter it let in may have returned (and been seen returning) before *)
RelRet(g) == /\ pc[g] = "released" /\ pc' = [pc EXCEPT ![g] = "idle"] /\ left' = [left EXCEPT ![g] = @ - 1]
             /\ c' = CNext(c, Ev("rel_ret", g))
             /\ UNCHANGED <<items, nextObj, wm, w, r, key, mode, rel, my, crashed>>
(* Delete *)
Delete(k) == /\ PlainDelete /\ items[k] # 0 /\ items' = [items EXCEPT ![k] = 0]
             /\ UNCHANGED <<nextObj, wm, w, r, pc, key, mode, rel, my, left, crashed, c>>

Dead(g) == \/ pc[g] = "have" /\ wm[my[g]] # 0
           \/ pc[g] = "wwait" /\ r[my[g]] > 0
Stuck == /\ \A g \in G : Dead(g) \/ (pc[g] = "idle" /\ left[g] = 0)
         /\ \E g \in G : Dead(g) /\ c' = CNext(c, Ev("stuck", g))
         /\ UNCHANGED <<items, nextObj, wm, w, r, pc, key, mode, rel, my, left, crashed>>

Rels(m) == IF m = "w" THEN WRels ELSE RRels
Next == /\ ~crashed
        /\ \/ Stuck
           \/ \E k \in Keys : Delete(k)
           \/ \E g \in G : \/ \E k \in Keys, m \in Modes : Call(g, k, m)
                           \/ \E rl \in Rels(mode[g]) : Exit(g, rl)
                           \/ Look(g) \/ Create(g) \/ WEnter(g) \/ WAcq(g) \/ RAcq(g) \/ Check(g) \/ Ret(g) \/ RelBegin(g) \/ Rel(g) \/ RelDeleteHalf(g) \/ RelRet(g)
Spec == Init /\ [][Next]_vars /\ WF_vars(Next)

Contract == ~IsBad(c)
(* whoever is between grant and release holds the object the key maps to (this is what F-C13-1 broke) *)
HoldsCurrent == \A g \in G : pc[g] \in {"ret", "in", "unl"} => items[key[g]] = my[g]
(* the RWMutex bookkeeping: write-locked only by the owner of the inner mutex, never together with readers *)
RWInv == \A o \in Objs : (w[o] => wm[o] # 0 /\ r[o] = 0) /\ r[o] >= 0
(* mutual exclusion stated directly on the model: two goroutines inside critical sections of one key are both readers *)
NoTwoHolders == \A g1, g2 \in G : (g1 # g2 /\ pc[g1] = "in" /\ pc[g2] = "in" /\ key[g1] = key[g2]) => (mode[g1] = "r" /\ mode[g2] = "r")
AllFinish == <>(\A g \in G : pc[g] = "idle" /\ left[g] = 0)
=============================================================================
