SPECIFICATION Spec
CONSTANTS Readers = {1, 2} Writers = {3, 4} Rounds = 1 Grace = 1 MaxT = 2 AllowShutdown = FALSE AllowParentCancel = FALSE GraceFromAdmission = FALSE ErrButAdmitted = FALSE DeleteOnEveryRelease = TRUE AutoReleaseOnCtxEnd = FALSE CancelAfterDone = FALSE NoCtxOnSend = FALSE
INVARIANTS Contract
CHECK_DEADLOCK FALSE
