SPECIFICATION Spec
CONSTANTS NG = 3 Rounds = 2 LIFO = TRUE
INVARIANTS Contract
CHECK_DEADLOCK FALSE
