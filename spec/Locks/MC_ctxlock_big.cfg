SPECIFICATION Spec
CONSTANTS NG = 3 Rounds = 3 Modes = {"w", "r"} LeakOnCancel = FALSE DeafWaiter = FALSE
INVARIANTS Contract TokenInv RWNeverBlocks
PROPERTY AllFinish
CHECK_DEADLOCK FALSE
