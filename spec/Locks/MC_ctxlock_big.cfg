SPECIFICATION Spec
CONSTANTS NG = 4 Rounds = 2 Modes = {"w", "r"} LeakOnCancel = FALSE
INVARIANTS Contract TokenInv RWNeverBlocks
PROPERTY AllFinish
CHECK_DEADLOCK FALSE
