SPECIFICATION Spec
CONSTANTS NG = 2 Keys = {1} Rounds = 3 Modes = {"w", "r"} WRels = {"unlock", "deleteunlock"} RRels = {"runlock", "deleterunlock"} PlainDelete = FALSE Repaired = TRUE NonAtomicDeleteUnlock = FALSE
INVARIANTS Contract HoldsCurrent RWInv NoTwoHolders
PROPERTY AllFinish
CHECK_DEADLOCK FALSE
