SPECIFICATION Spec
CONSTANTS NG = 3 Keys = {1, 2} Rounds = 2 Modes = {"w", "r"} WRels = {"unlock"} RRels = {"runlock"} PlainDelete = FALSE Revalidate = FALSE SafeDelR = FALSE
INVARIANTS Contract HoldsCurrent
PROPERTY AllFinish
CHECK_DEADLOCK FALSE
