---------------------------- MODULE LockContract ----------------------------
(* C13 - what the users of the lock primitives of dapr/kit may rely on, as a  *)
(* deterministic monitor over observable events.  One run = one lock object   *)
(* (a map of locks for the per-key variants; key 0 for the single locks).     *)
(*                                                                            *)
(*   reset     {prim, graceful}      prim: fifomutex | fifomap | cmap |       *)
(*                                         ctxlock | outercancel              *)
(*   acq_call  {g, key, mode, pre [,now]}  goroutine g calls Lock (mode "w")  *)
(*                                   or RLock ("r"); pre: its context had     *)
(*                                   already ended                            *)
(*   arrive    {g, tie}              g was seen blocked in the FIFO mutex's   *)
(*                                   send queue (tie: in the same snapshot as *)
(*                                   the previous arrival - order unknown)    *)
(*   cancel    {g}                   g's (parent) context ends                *)
(*   acq_ret   {g, ok [,now]}        the call returned (ok: without an error) *)
(*   enter {g} / exit {g}            g's critical section                     *)
(*   rel_call  {g, how} / rel_ret {g}  unlock | runlock | deleteunlock |      *)
(*                                   deleterunlock                            *)
(*   told_to_stop {g, cause, now}    outer-cancel: the context handed to      *)
(*                                   reader g ended; cause: configured |      *)
(*                                   parent | other                           *)
(*   shutdown                        outer-cancel: Run's context ends         *)
(*   adv {now}                       the (virtual) clock was advanced         *)
(*                                   (outer-cancel runs on a virtual clock    *)
(*                                   that moves only while every goroutine is *)
(*                                   blocked: a writer that finds nothing     *)
(*                                   held and nothing in flight is granted at *)
(*                                   the instant it asks)                     *)
(*   obs {entries}                   fifo map at rest: number of per-key      *)
(*                                   entries                                  *)
(*   quiet                           lock.Context: every goroutine is blocked *)
(*                                   or parked (nothing can move by itself)   *)
(*   settled {now}                   outer-cancel: every goroutine of the     *)
(*                                   bubble is blocked (after a script step)  *)
(*   stuck {g}                       end of run: g's call never returns       *)
(*   panic {g, what} / crash {what}  a lock operation panicked / killed the   *)
(*                                   process                                  *)
(*                                                                            *)
(* The programs are correctly paired: every goroutine releases what it        *)
(* acquired, once, with the matching call, and leaves its critical section    *)
(* eventually.  Where the statement is silent everything is allowed.          *)
EXTENDS Integers, Sequences, FiniteSets, TLC

Bad(why) == [bad |-> TRUE, why |-> why]
IsBad(c) == c.bad

Get(f, k, d) == IF k \in DOMAIN f THEN f[k] ELSE d
Put(f, k, v) == (k :> v) @@ f
Now(e) == IF "now" \in DOMAIN e THEN e.now ELSE 0

NoG == [st |-> "idle", key |-> 0, mode |-> "w", ask |-> 0, cancelled |-> FALSE, told |-> FALSE, alone |-> FALSE, wclean |-> FALSE, lockTold |-> FALSE, ord |-> 0, atrest |-> FALSE]

CReset(e) == [bad |-> FALSE, why |-> "", prim |-> e.prim, graceful |-> e.graceful,
              real |-> IF "realtime" \in DOMAIN e THEN e.realtime ELSE FALSE,   \* outer-cancel run on the real clock (free-running)
              g |-> << >>,       \* goroutine -> NoG-shaped record; st: idle | calling | held | in | out | releasing
              q |-> << >>,       \* key -> sequence of sets of goroutines (arrival groups, oldest first)
              del |-> << >>,     \* key -> "" | "deleteunlock" | "deleterunlock" (the last delete-and-release)
              shut |-> FALSE, erred |-> FALSE, lastk |-> 0, ordok |-> TRUE]

Fifo(c) == c.prim \in {"fifomutex", "fifomap"}
Outer(c) == c.prim = "outercancel" /\ ~c.shut
(* the laws that need the virtual clock of a synctest bubble (timers fire at their deadline, nothing takes time) *)
Virtual(c) == Outer(c) /\ ~c.real
(* told to stop BY THE LOCK: for outer-cancel a context that ended with the parent's cause does not count - the   *)
(* lock has done its part once it cancelled with the configured cause, or let a full grace period pass (lockTold) *)
StopTold(c, x) == IF c.prim = "outercancel" THEN x.lockTold ELSE x.told
After(c, k) == LET d == Get(c.del, k, "") IN IF d = "" THEN "" ELSE "-after-" \o d
Holding(c, h) == c.g[h].st \in {"held", "in", "out"}
Gs(c) == DOMAIN c.g

(* remove g from every arrival group of key k, dropping empty groups *)
Unqueue(c, k, g) ==
  LET s == Get(c.q, k, << >>)
      t == [i \in 1..Len(s) |-> s[i] \ {g}]
  IN Put(c.q, k, SelectSeq(t, LAMBDA x : x # {}))

(* the highest position among the calls in flight (0 if none): positions are relative, so that they stay small *)
MaxOrd(c, g) == LET S == {c.g[x].ord : x \in {y \in Gs(c) \ {g} : c.g[y].st = "calling"}}
                IN IF S = {} THEN 0 ELSE CHOOSE m \in S : \A n \in S : n <= m

(* alone: during the whole call nobody else held anything (acq_ret ok .. rel_ret) or had a call in flight *)
(* (acq_call .. acq_ret); any other call that starts meanwhile ends it for everybody who waits            *)
CAcqCall(c, e) ==
  IF Get(c.g, e.g, NoG).st # "idle" THEN Bad("harness-acq-call-while-busy")
  ELSE LET others == [h \in Gs(c) \ {e.g} |-> [c.g[h] EXCEPT !.alone = FALSE, !.wclean = IF e.mode = "w" THEN FALSE ELSE @]]
           quiet == \A h \in Gs(c) \ {e.g} : c.g[h].st = "idle"
           \* wclean: no other writer holds, waits or arrives during this writer's call - nothing but readers stands
           \* between its Lock call and the start of the grace period
           nowriter == \A h \in Gs(c) \ {e.g} : c.g[h].mode # "w" \/ c.g[h].st = "idle"
       IN [c EXCEPT !.g = Put(others, e.g, [st |-> "calling", key |-> e.key, mode |-> e.mode, ask |-> Now(e),
                                            cancelled |-> e.pre, told |-> FALSE, alone |-> quiet,
                                            wclean |-> e.mode = "w" /\ nowriter, lockTold |-> FALSE,
                                            \* ord: position in the order of the calls; atrest: the call was issued while
                                            \* nothing else was moving and came to rest before the next one (then
                                            \* the order of the calls is the order in which they reached the lock)
                                            ord |-> IF c.prim = "outercancel" THEN 1 + MaxOrd(c, e.g) ELSE 0,
                                            atrest |-> FALSE]),
                    \* ordok: every call in flight was issued at rest
                    !.ordok = (IF \E h \in Gs(c) \ {e.g} : c.g[h].st = "calling" THEN c.ordok ELSE TRUE)
                              /\ (IF "atrest" \in DOMAIN e THEN e.atrest ELSE FALSE),
                    !.lastk = e.key]

CArrive(c, e) ==
  IF Get(c.g, e.g, NoG).st # "calling" THEN c      \* it has returned meanwhile: no information
  ELSE LET k == c.g[e.g].key
           s == Get(c.q, k, << >>)
       IN [c EXCEPT !.q = Put(c.q, k, IF e.tie /\ Len(s) > 0 THEN [s EXCEPT ![Len(s)] = @ \cup {e.g}] ELSE Append(s, {e.g}))]

CAcqRet(c, e) ==
  LET r == Get(c.g, e.g, NoG)
      k == r.key
      s == Get(c.q, k, << >>)
      liveR == {h \in Gs(c) \ {e.g} : c.g[h].mode = "r" /\ Holding(c, h)}
  IN
  IF r.st # "calling" THEN Bad("harness-acq-ret-without-call")
  ELSE IF ~e.ok THEN [c EXCEPT !.g[e.g].st = "idle", !.g[e.g].ord = 0, !.erred = TRUE, !.q = Unqueue(c, k, e.g)]   \* an error: holds nothing
  ELSE IF Fifo(c) /\ Len(s) > 0 /\ e.g \notin s[1] THEN Bad("fifo-granted-out-of-arrival-order")
  ELSE IF Outer(c) /\ r.mode = "r" /\ \E h \in Gs(c) \ {e.g} : c.g[h].mode = "w" /\ Holding(c, h)
       THEN Bad("outer-reader-admitted-while-writer-holds")
  ELSE IF Outer(c) /\ r.mode = "w" /\ \E h \in liveR : ~c.g[h].told
       THEN Bad("outer-writer-granted-before-reader-released-or-cancelled")
  ELSE IF Outer(c) /\ r.mode = "w" /\ Now(e) < r.ask + c.graceful /\ \E h \in liveR : ~c.g[h].lockTold
       THEN Bad("outer-writer-granted-before-grace-with-a-reader-still-holding")   \* e.g. a reader whose PARENT context ended
  ELSE IF Virtual(c) /\ r.mode = "w" /\ r.wclean /\ Now(e) > r.ask + c.graceful
       THEN Bad("outer-writer-not-granted-after-grace")
  ELSE IF Virtual(c) /\ r.mode = "w" /\ r.alone /\ Now(e) > r.ask
       THEN Bad("outer-writer-delayed-with-nothing-held")    \* an errored or released acquisition still holds something
  ELSE LET g1 == IF Outer(c) /\ r.mode = "w"      \* the lock has had its grace period with every reader still around
                 THEN [h \in Gs(c) |-> IF h \in liveR THEN [c.g[h] EXCEPT !.lockTold = TRUE] ELSE c.g[h]]
                 ELSE c.g
       IN [c EXCEPT !.g = [g1 EXCEPT ![e.g].st = "held", ![e.g].ord = 0], !.q = Unqueue(c, k, e.g)]

CEnter(c, e) ==
  LET r == Get(c.g, e.g, NoG)
      others == {h \in Gs(c) \ {e.g} : c.g[h].st = "in" /\ c.g[h].key = r.key}
      excused(h) == (c.g[h].mode = "r" /\ StopTold(c, c.g[h])) \/ (r.mode = "r" /\ StopTold(c, r))
  IN
  IF r.st # "held" THEN Bad("harness-enter-without-grant")
  ELSE IF c.prim = "outercancel" /\ c.shut THEN [c EXCEPT !.g[e.g].st = "in"]
  ELSE IF r.mode = "w" /\ \E h \in others : c.g[h].mode = "w" THEN Bad("two-holders" \o After(c, r.key))
  ELSE IF \E h \in others : (c.g[h].mode = "w" \/ r.mode = "w") /\ ~excused(h) THEN Bad("writer-with-reader" \o After(c, r.key))
  ELSE [c EXCEPT !.g[e.g].st = "in"]

CExit(c, e) == IF Get(c.g, e.g, NoG).st # "in" THEN Bad("harness-exit-without-enter") ELSE [c EXCEPT !.g[e.g].st = "out"]

CRelCall(c, e) ==
  LET r == Get(c.g, e.g, NoG) IN
  IF r.st # "out" THEN Bad("harness-release-without-exit")
  ELSE [c EXCEPT !.g[e.g].st = "releasing", !.lastk = r.key,
                 !.del = IF e.how \in {"deleteunlock", "deleterunlock"} THEN Put(c.del, r.key, e.how) ELSE @]
CRelRet(c, e) == IF Get(c.g, e.g, NoG).st # "releasing" THEN Bad("harness-rel-ret-without-call") ELSE [c EXCEPT !.g[e.g].st = "idle"]

CCancel(c, e) == IF e.g \in Gs(c) THEN [c EXCEPT !.g[e.g].cancelled = TRUE] ELSE c

(* outer-cancel: a reader's context ends only for its own release, its parent, a writer (configured cause, *)
(* not earlier than graceful after that writer asked) or shutdown                                          *)
CTold(c, e) ==
  LET r == Get(c.g, e.g, NoG)
      ws == {h \in Gs(c) : c.g[h].mode = "w" /\ c.g[h].st = "calling"}
  IN
  IF r.told \/ r.mode # "r" THEN c
  ELSE IF r.st \in {"releasing", "idle"} \/ r.cancelled \/ c.shut THEN [c EXCEPT !.g[e.g].told = TRUE, !.g[e.g].lockTold = (e.cause = "configured")]
  ELSE IF \E h \in ws : e.now >= c.g[h].ask + c.graceful
       THEN IF e.cause = "configured" THEN [c EXCEPT !.g[e.g].told = TRUE, !.g[e.g].lockTold = (e.cause = "configured")]
            ELSE Bad("outer-reader-cancelled-for-a-writer-with-another-cause")
  ELSE IF ws # {} THEN Bad("outer-reader-cancelled-before-grace-since-writer-asked")
  ELSE Bad("outer-reader-cancelled-for-no-allowed-reason")

(* outer-cancel, upper bound (virtual clock: timers fire at their deadline): a writer with no other writer around  *)
(* starts the grace period the instant it asks; once it has passed every earlier reader has released or been told *)
(* to stop, and the writer is granted                                                                            *)
CAdv(c, e) ==
  LET late == {h \in Gs(c) : c.g[h].mode = "w" /\ c.g[h].st = "calling" /\ c.g[h].wclean /\ e.now > c.g[h].ask + c.graceful}
  IN IF ~Virtual(c) \/ late = {} THEN c
     ELSE IF \E h \in Gs(c) : c.g[h].mode = "r" /\ Holding(c, h) /\ ~c.g[h].told
          THEN Bad("outer-reader-not-told-to-stop-after-grace")
          ELSE Bad("outer-writer-not-granted-after-grace")

(* fifo map at rest: exactly the keys somebody holds or waits for have an entry *)
CObs(c, e) ==
  LET want == Cardinality({c.g[h].key : h \in {x \in Gs(c) : c.g[x].st # "idle"}}) IN
  IF c.prim # "fifomap" THEN c
  ELSE IF e.entries > want THEN Bad("fifomap-entry-left-behind")
  ELSE IF e.entries < want THEN Bad("fifomap-entry-missing-while-in-use")
  ELSE c

(* lock.Context at a quiescent point: whoever still waits does so with a live context *)
CQuiet(c, e) ==
  IF c.prim = "ctxlock" /\ \E h \in Gs(c) : c.g[h].st = "calling" /\ c.g[h].cancelled
  THEN Bad("waiter-whose-context-ended-keeps-waiting")
  ELSE c

(* outer-cancel at rest (virtual clock; every call was issued at rest, so the calls reached the lock in call order):  *)
(* a reader with two or more acquisitions waiting ahead of it (one in the handler's hands, one in the 1-slot request *)
(* channel) is blocked handing its request over; once its context has ended it must have returned                  *)
CSettled(c, e) ==
  LET calling == {h \in Gs(c) : c.g[h].st = "calling"}
      ahead(h) == {x \in calling : c.g[x].ord < c.g[h].ord}
  IN IF Virtual(c) /\ c.ordok
        /\ \E h \in calling : c.g[h].mode = "r" /\ c.g[h].cancelled /\ Cardinality(ahead(h)) >= 2
     THEN Bad("waiter-whose-context-ended-keeps-waiting")
     ELSE c

(* a call that never returns *)
CStuck(c, e) ==
  LET r == Get(c.g, e.g, NoG)
      holders == {h \in Gs(c) \ {e.g} : c.g[h].st \in {"held", "in", "out", "releasing"} /\ c.g[h].key = r.key}
  IN
  IF c.prim = "outercancel" /\ c.shut THEN c
  ELSE IF r.st = "releasing" THEN Bad("release-never-returns" \o After(c, r.key))
  ELSE IF r.st # "calling" THEN c
  ELSE IF r.cancelled THEN Bad("waiter-whose-context-ended-keeps-waiting")
  ELSE IF holders # {} THEN c
  ELSE IF c.erred THEN Bad("unobtainable-though-nobody-holds-it-after-a-failed-acquisition")
  ELSE Bad("unobtainable-though-nobody-holds-it" \o After(c, r.key))

CNext(c, e) ==
  IF e.ev = "reset" THEN CReset(e)
  ELSE IF IsBad(c) THEN c
  ELSE CASE e.ev = "acq_call"     -> CAcqCall(c, e)
         [] e.ev = "arrive"       -> CArrive(c, e)
         [] e.ev = "acq_ret"      -> CAcqRet(c, e)
         [] e.ev = "enter"        -> CEnter(c, e)
         [] e.ev = "exit"         -> CExit(c, e)
         [] e.ev = "rel_call"     -> CRelCall(c, e)
         [] e.ev = "rel_ret"      -> CRelRet(c, e)
         [] e.ev = "cancel"       -> CCancel(c, e)
         [] e.ev = "told_to_stop" -> CTold(c, e)
         [] e.ev = "shutdown"     -> [c EXCEPT !.shut = TRUE]
         [] e.ev = "adv"          -> CAdv(c, e)
         [] e.ev = "obs"          -> CObs(c, e)
         [] e.ev = "quiet"        -> CQuiet(c, e)
         [] e.ev = "settled"      -> CSettled(c, e)
         [] e.ev = "stuck"        -> CStuck(c, e)
         [] e.ev = "panic"        -> Bad("panic" \o After(c, c.lastk))
         [] e.ev = "crash"        -> Bad("crash" \o After(c, c.lastk))
         [] OTHER                 -> c

(* a snapshot at a quiescent point shows the goroutines of U newly blocked in a send queue (models) *)
RECURSIVE CArriveAll(_, _, _)
CArriveAll(c, U, first) ==
  IF U = {} THEN c
  ELSE LET g == CHOOSE x \in U : TRUE
       IN CArriveAll(CNext(c, [ev |-> "arrive", g |-> g, tie |-> ~first]), U \ {g}, FALSE)

(* two events of one model step *)
CNext2(c, e1, e2) == CNext(CNext(c, e1), e2)
=============================================================================
