SPECIFICATION Spec
CONSTANTS NG = 2 Rounds = 2 Modes = {"w"} LeakOnCancel = TRUE DeafWaiter = FALSE
INVARIANTS Contract
CHECK_DEADLOCK FALSE
