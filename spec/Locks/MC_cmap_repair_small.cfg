SPECIFICATION Spec
CONSTANTS NG = 2 Keys = {1} Rounds = 2 Modes = {"w", "r"} WRels = {"unlock", "deleteunlock"} RRels = {"runlock"} PlainDelete = FALSE Revalidate = TRUE SafeDelR = FALSE
INVARIANTS Contract HoldsCurrent
PROPERTY AllFinish
CHECK_DEADLOCK FALSE
