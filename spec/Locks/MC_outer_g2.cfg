SPECIFICATION Spec
CONSTANTS Readers = {1, 2} Writers = {3} Rounds = 1 Grace = 2 MaxT = 3 AllowShutdown = FALSE AllowParentCancel = TRUE GraceFromAdmission = FALSE ErrButAdmitted = FALSE DeleteOnEveryRelease = FALSE AutoReleaseOnCtxEnd = FALSE CancelAfterDone = FALSE NoCtxOnSend = FALSE
INVARIANTS Contract WgInv WriterExcl
CHECK_DEADLOCK FALSE
