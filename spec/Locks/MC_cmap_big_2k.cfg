SPECIFICATION Spec
CONSTANTS NG = 3 Keys = {1, 2} Rounds = 1 Modes = {"w", "r"} WRels = {"unlock", "deleteunlock"} RRels = {"runlock", "deleterunlock"} PlainDelete = FALSE Repaired = TRUE
INVARIANTS Contract HoldsCurrent RWInv
PROPERTY AllFinish
CHECK_DEADLOCK FALSE
