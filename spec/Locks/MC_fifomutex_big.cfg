SPECIFICATION Spec
CONSTANTS NG = 4 Rounds = 2 LIFO = FALSE
INVARIANTS Contract SlotInv OneHolder
PROPERTY AllFinish
CHECK_DEADLOCK FALSE
