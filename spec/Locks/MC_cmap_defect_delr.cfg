SPECIFICATION Spec
CONSTANTS NG = 3 Keys = {1} Rounds = 1 Modes = {"w", "r"} WRels = {"unlock"} RRels = {"runlock", "deleterunlock"} PlainDelete = FALSE Repaired = FALSE NonAtomicDeleteUnlock = FALSE
INVARIANTS Contract
CHECK_DEADLOCK FALSE
