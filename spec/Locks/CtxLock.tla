------------------------------- MODULE CtxLock -------------------------------
(* Implementation-shaped model of concurrency/lock/context.go.                 *)
(*   Lock/RLock(ctx): select { <-ctx.Done(): return err ; locked <- token: }   *)
(*                    then lock.Lock() / lock.RLock() on the RWMutex           *)
(*   Unlock/RUnlock:  release the RWMutex, then <-locked                       *)
(* `locked` is a 1-slot channel: tok = its buffer, sendq = the goroutines      *)
(* blocked in the select (a receive hands the slot to the first of them; a     *)
(* cancelled context takes its goroutine out of the queue).  When both arms    *)
(* are ready the select may take either.  Every hold passes through the        *)
(* token, so RLock is exclusive too and the RWMutex never blocks.              *)
(* LeakOnCancel = TRUE is a defect variant: having been handed the token the   *)
(* caller notices the ended context and reports the error while keeping it.    *)
EXTENDS LockContract

CONSTANTS NG, Rounds, Modes, LeakOnCancel,
          DeafWaiter   \* TRUE: defect variant - a blocked waiter does not react to its context
G == 1..NG

VARIABLES tok, sendq, rww, rwr, cancelled, pc, mode, left, c
vars == <<tok, sendq, rww, rwr, cancelled, pc, mode, left, c>>

Ev(n, g) == [ev |-> n, g |-> g]
Init == /\ tok = 0 /\ sendq = << >> /\ rww = FALSE /\ rwr = 0 /\ cancelled = [g \in G |-> FALSE]
        /\ pc = [g \in G |-> "idle"] /\ mode = [g \in G |-> "w"] /\ left = [g \in G |-> Rounds]
        /\ c = CReset([prim |-> "ctxlock", graceful |-> 0])

Call(g, m, pre) == /\ pc[g] = "idle" /\ left[g] > 0
                   /\ pc' = [pc EXCEPT ![g] = "call"] /\ mode' = [mode EXCEPT ![g] = m] /\ cancelled' = [cancelled EXCEPT ![g] = pre]
                   /\ c' = CNext(c, [ev |-> "acq_call", g |-> g, key |-> 0, mode |-> m, pre |-> pre])
                   /\ UNCHANGED <<tok, sendq, rww, rwr, left>>
(* context.go:34-41 / 50-57: the select *)
Select(g) == /\ pc[g] = "call"
             /\ \/ cancelled[g] /\ pc' = [pc EXCEPT ![g] = "reterr"] /\ UNCHANGED <<tok, sendq>>
                \/ tok = 0 /\ tok' = 1 /\ pc' = [pc EXCEPT ![g] = "tok"] /\ UNCHANGED sendq
                \/ ~cancelled[g] /\ tok = 1 /\ sendq' = Append(sendq, g) /\ pc' = [pc EXCEPT ![g] = "blocked"] /\ UNCHANGED tok
             /\ UNCHANGED <<rww, rwr, cancelled, mode, left, c>>
(* the context of g's pending acquisition ends: while the call is on its way, while it waits, or just after *)
(* it was handed the token                                                                                  *)
Cancel(g) == /\ pc[g] \in {"call", "blocked", "tok"} /\ ~cancelled[g]
             /\ cancelled' = [cancelled EXCEPT ![g] = TRUE]
             /\ c' = CNext(c, Ev("cancel", g))
             /\ IF pc[g] = "blocked" /\ ~DeafWaiter THEN sendq' = SelectSeq(sendq, LAMBDA x : x # g) /\ pc' = [pc EXCEPT ![g] = "reterr"]
                                     ELSE UNCHANGED <<sendq, pc>>
             /\ UNCHANGED <<tok, rww, rwr, mode, left>>
(* context.go:39 / 55: c.lock.Lock() / RLock() *)
TakeRW(g) == /\ pc[g] = "tok"
             /\ IF LeakOnCancel /\ cancelled[g] THEN pc' = [pc EXCEPT ![g] = "reterr"] /\ UNCHANGED <<rww, rwr>>
                ELSE /\ IF mode[g] = "w" THEN ~rww /\ rwr = 0 /\ rww' = TRUE /\ UNCHANGED rwr
                                         ELSE ~rww /\ rwr' = rwr + 1 /\ UNCHANGED rww
                     /\ pc' = [pc EXCEPT ![g] = "ret"]
             /\ UNCHANGED <<tok, sendq, cancelled, mode, left, c>>
Ret(g) == /\ pc[g] = "ret" /\ pc' = [pc EXCEPT ![g] = "in"]
          /\ c' = CNext2(c, [ev |-> "acq_ret", g |-> g, ok |-> TRUE], Ev("enter", g))
          /\ UNCHANGED <<tok, sendq, rww, rwr, cancelled, mode, left>>
RetErr(g) == /\ pc[g] = "reterr" /\ pc' = [pc EXCEPT ![g] = "idle"] /\ left' = [left EXCEPT ![g] = @ - 1]
             /\ c' = CNext(c, [ev |-> "acq_ret", g |-> g, ok |-> FALSE])
             /\ UNCHANGED <<tok, sendq, rww, rwr, cancelled, mode>>
Exit(g) == /\ pc[g] = "in" /\ pc' = [pc EXCEPT ![g] = "unl1"]
           /\ c' = CNext2(c, Ev("exit", g), [ev |-> "rel_call", g |-> g, how |-> IF mode[g] = "w" THEN "unlock" ELSE "runlock"])
           /\ UNCHANGED <<tok, sendq, rww, rwr, cancelled, mode, left>>
(* context.go:44-47 / 60-63 *)
RwUnlock(g) == /\ pc[g] = "unl1" /\ pc' = [pc EXCEPT ![g] = "unl2"]
               /\ IF mode[g] = "w" THEN rww' = FALSE /\ UNCHANGED rwr ELSE rwr' = rwr - 1 /\ UNCHANGED rww
               /\ UNCHANGED <<tok, sendq, cancelled, mode, left, c>>
Recv(g) == /\ pc[g] = "unl2" /\ tok = 1
           /\ IF sendq = << >> THEN tok' = 0 /\ UNCHANGED sendq /\ pc' = [pc EXCEPT ![g] = "released"]
              ELSE sendq' = Tail(sendq) /\ pc' = [pc EXCEPT ![g] = "released", ![Head(sendq)] = "tok"] /\ UNCHANGED tok
           /\ UNCHANGED <<rww, rwr, cancelled, mode, left, c>>
(* the release call returns; the waiter that was handed the token may return before *)
RelRet(g) == /\ pc[g] = "released" /\ pc' = [pc EXCEPT ![g] = "idle"] /\ left' = [left EXCEPT ![g] = @ - 1]
             /\ c' = CNext(c, Ev("rel_ret", g))
             /\ UNCHANGED <<tok, sendq, rww, rwr, cancelled, mode>>
(* a quiescent point as the harness sees it: everybody is blocked in the select or inside a critical section *)
Quiet == /\ \A g \in G : pc[g] \in {"idle", "blocked", "in"}
         /\ c' = CNext(c, [ev |-> "quiet"])
         /\ UNCHANGED <<tok, sendq, rww, rwr, cancelled, pc, mode, left>>
(* end of run: nobody cancels any more; whoever still waits will wait forever *)
Stuck == /\ \A g \in G : pc[g] = "blocked" \/ (pc[g] = "idle" /\ left[g] = 0)
         /\ \E g \in G : pc[g] = "blocked" /\ c' = CNext(c, Ev("stuck", g))
         /\ UNCHANGED <<tok, sendq, rww, rwr, cancelled, pc, mode, left>>

Next == \/ Stuck \/ Quiet
        \/ \E g \in G : \/ \E m \in Modes, pre \in BOOLEAN : Call(g, m, pre)
                        \/ Select(g) \/ Cancel(g) \/ TakeRW(g) \/ Ret(g) \/ RetErr(g) \/ Exit(g) \/ RwUnlock(g) \/ Recv(g) \/ RelRet(g)
Spec == Init /\ [][Next]_vars /\ WF_vars(Next)

Contract == ~IsBad(c)
(* the token is out iff somebody is between taking it and giving it back; the RWMutex never makes anybody wait *)
TokenInv == ~LeakOnCancel => tok = (IF \E g \in G : pc[g] \in {"tok", "ret", "in", "unl1", "unl2"} THEN 1 ELSE 0)
RWNeverBlocks == \A g \in G : pc[g] = "tok" => ~rww /\ rwr = 0
AllFinish == <>(\A g \in G : pc[g] = "idle" /\ left[g] = 0)
=============================================================================
