---------------------------- MODULE TraceCmapImpl ----------------------------
(* Binding of the implementation-shaped model to the code: hook-level traces  *)
(* of the real cmap.Mutex (client calls/returns plus every decision point the *)
(* code passed: cmap.(r)lock.lookedUp{found}, cmap.(r)lock.created, all       *)
(* recorded under one mutex) must be behaviours of CmapMutex.tla.  Each event *)
(* is matched by the action it stands for, with the logged outcome as a       *)
(* post-condition; the RWMutex steps, the current() check and the effect of the  *)
(* release calls have no hook and are silent; the object identities, the RWMutex states and the goroutines'  *)
(* positions are inferred by TLC.  A trace that is not accepted is DRIFT      *)
(* between model and code - reported, never a violation by itself.            *)
EXTENDS CmapMutex, TraceLib

Trace == LoadTrace("trace.ndjson")
Starts == {i \in 1..Len(Trace) : Trace[i].ev = "reset"}
VARIABLES tr, l
tvars == <<vars, tr, l>>

TInit == Init /\ tr \in Starts /\ l = tr
HasNext == l + 1 <= Trace[tr].end
E == Trace[l + 1]
Eat == l' = l + 1 /\ UNCHANGED tr
Keep == UNCHANGED <<tr, l>>

TCall == HasNext /\ E.ev = "acq_call" /\ Eat /\ Call(E.g, E.key, E.mode)
TLook == /\ HasNext /\ E.ev = "hook" /\ E.point \in {"cmap.lock.lookedUp", "cmap.rlock.lookedUp"} /\ Eat
         /\ key[E.g] = E.key /\ mode[E.g] = (IF E.point = "cmap.lock.lookedUp" THEN "w" ELSE "r")
         /\ E.found = (items[E.key] # 0)
         /\ Look(E.g)
TCreated == /\ HasNext /\ E.ev = "hook" /\ E.point \in {"cmap.lock.created", "cmap.rlock.created"} /\ Eat
            /\ key[E.g] = E.key /\ mode[E.g] = (IF E.point = "cmap.lock.created" THEN "w" ELSE "r")
            /\ Create(E.g)
TRet == HasNext /\ E.ev = "acq_ret" /\ E.ok /\ Eat /\ Ret(E.g)
TRelCall == HasNext /\ E.ev = "rel_call" /\ Eat /\ Exit(E.g, E.how)
TRelRet == HasNext /\ E.ev = "rel_ret" /\ Eat /\ RelRet(E.g)
TDelete == /\ HasNext /\ E.ev = "delete" /\ Eat
           /\ IF items[E.key] # 0 THEN Delete(E.key) ELSE UNCHANGED vars
(* silent: no hook marks these *)
Silent == /\ HasNext /\ Keep
          /\ \E g \in G : WEnter(g) \/ WAcq(g) \/ RAcq(g) \/ Check(g) \/ (Rel(g) /\ ~crashed')
TIgnore == HasNext /\ E.ev \in {"enter", "exit", "stuck", "quiet", "obs", "arrive", "cancel"} /\ Eat /\ UNCHANGED vars

TNext == TCall \/ TLook \/ TCreated \/ TRet \/ TRelCall \/ TRelRet \/ TDelete \/ Silent \/ TIgnore
TSpec == TInit /\ [][TNext]_tvars
Done == IF l = Trace[tr].end THEN PrintT(<<"DONE", tr>>) ELSE TRUE
=============================================================================
