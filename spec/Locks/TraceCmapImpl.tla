---------------------------- MODULE TraceCmapImpl ----------------------------
(* Binding of the implementation-shaped model to the code: hook-level traces  *)
(* of the real cmap.Mutex (client calls/returns plus every decision point the *)
(* code passed: cmap.(r)lock.lookedUp{found}, cmap.(r)lock.created and the    *)
(* entry points cmap.<release method>.begin, all                              *)
(* recorded under one mutex) must be behaviours of CmapMutex.tla.  Each event *)
(* is matched by the action it stands for, with the logged outcome as a       *)
(* post-condition; the RWMutex steps, the current() check and the effect of the  *)
(* release calls have no hook and are silent; the object identities, the RWMutex states and the goroutines'  *)
(* positions are inferred by TLC.  A trace that is not accepted is DRIFT      *)
(* between model and code - reported, never a violation by itself.            *)
EXTENDS CmapMutex, TraceLib

Trace == LoadTrace("trace.ndjson")
Starts == {i \in 1..Len(Trace) : Trace[i].ev = "reset"}
VARIABLES tr, l,
          pd           \* plain Delete(key) calls (issued at rest): g -> [st: none | called | begun | done, key]
tvars == <<vars, tr, l, pd>>

TInit == Init /\ tr \in Starts /\ l = tr /\ pd = [g \in G |-> [st |-> "none", key |-> 0]]
HasNext == l + 1 <= Trace[tr].end
E == Trace[l + 1]
Eat == l' = l + 1 /\ UNCHANGED tr
Keep == UNCHANGED <<tr, l>>

TCall == HasNext /\ E.ev = "acq_call" /\ Eat /\ pd[E.g].st = "none" /\ Call(E.g, E.key, E.mode) /\ UNCHANGED pd
TLook == /\ HasNext /\ E.ev = "hook" /\ E.point \in {"cmap.lock.lookedUp", "cmap.rlock.lookedUp"} /\ Eat
         /\ key[E.g] = E.key /\ mode[E.g] = (IF E.point = "cmap.lock.lookedUp" THEN "w" ELSE "r")
         /\ E.found = (items[E.key] # 0)
         /\ Look(E.g) /\ UNCHANGED pd
TCreated == /\ HasNext /\ E.ev = "hook" /\ E.point \in {"cmap.lock.created", "cmap.rlock.created"} /\ Eat
            /\ key[E.g] = E.key /\ mode[E.g] = (IF E.point = "cmap.lock.created" THEN "w" ELSE "r")
            /\ Create(E.g) /\ UNCHANGED pd
TRet == HasNext /\ E.ev = "acq_ret" /\ E.ok /\ Eat /\ Ret(E.g) /\ UNCHANGED pd
TRelCall == HasNext /\ E.ev = "rel_call" /\ Eat /\ Exit(E.g, E.how) /\ UNCHANGED pd
(* the entry point of a release method: it must be the method the goroutine's pending release call names *)
BeginOf == [unlock |-> "cmap.unlock.begin", runlock |-> "cmap.runlock.begin",
            deleteunlock |-> "cmap.deleteunlock.begin", deleterunlock |-> "cmap.deleterunlock.begin"]
TRelBegin == /\ HasNext /\ E.ev = "hook" /\ E.point \in {BeginOf[x] : x \in DOMAIN BeginOf} /\ Eat
             /\ pc[E.g] = "unl" /\ E.point = BeginOf[rel[E.g]] /\ key[E.g] = E.key
             /\ RelBegin(E.g) /\ UNCHANGED pd
TRelRet == HasNext /\ E.ev = "rel_ret" /\ Eat /\ RelRet(E.g) /\ UNCHANGED pd
(* plain Delete(key) by a goroutine that is not inside a section: call, entry point, effect (silent), return *)
TDeleteCall == /\ HasNext /\ E.ev = "delete" /\ Eat /\ pc[E.g] = "idle" /\ pd[E.g].st = "none"
               /\ pd' = [pd EXCEPT ![E.g] = [st |-> "called", key |-> E.key]] /\ UNCHANGED vars
TDeleteBegin == /\ HasNext /\ E.ev = "hook" /\ E.point = "cmap.delete.begin" /\ Eat
                /\ pd[E.g].st = "called" /\ pd[E.g].key = E.key
                /\ pd' = [pd EXCEPT ![E.g].st = "begun"] /\ UNCHANGED vars
DeleteEffect(g) == /\ pd[g].st = "begun" /\ pd' = [pd EXCEPT ![g].st = "done"]
                   /\ IF items[pd[g].key] # 0 THEN Delete(pd[g].key) ELSE UNCHANGED vars
TDeleteRet == /\ HasNext /\ E.ev = "delete_ret" /\ Eat /\ pd[E.g].st = "done"
              /\ pd' = [pd EXCEPT ![E.g] = [st |-> "none", key |-> 0]] /\ UNCHANGED vars
(* silent: no hook marks these *)
Silent == /\ HasNext /\ Keep
          /\ \/ \E g \in G : (WEnter(g) \/ WAcq(g) \/ RAcq(g) \/ Check(g) \/ (Rel(g) /\ ~crashed')) /\ UNCHANGED pd
             \/ \E g \in G : DeleteEffect(g)
TIgnore == HasNext /\ E.ev \in {"enter", "exit", "stuck", "quiet", "obs", "arrive", "cancel"} /\ Eat /\ UNCHANGED <<vars, pd>>

TNext == TCall \/ TLook \/ TCreated \/ TRet \/ TRelCall \/ TRelBegin \/ TRelRet \/ TDeleteCall \/ TDeleteBegin \/ TDeleteRet \/ Silent \/ TIgnore
TSpec == TInit /\ [][TNext]_tvars
Done == IF l = Trace[tr].end THEN PrintT(<<"DONE", tr>>) ELSE TRUE
=============================================================================
