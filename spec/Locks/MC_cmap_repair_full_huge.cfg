SPECIFICATION Spec
CONSTANTS NG = 3 Keys = {1} Rounds = 2 Modes = {"w", "r"} WRels = {"unlock", "deleteunlock"} RRels = {"runlock", "deleterunlock"} PlainDelete = FALSE Revalidate = TRUE SafeDelR = TRUE
INVARIANTS Contract HoldsCurrent
PROPERTY AllFinish
CHECK_DEADLOCK FALSE
