SPECIFICATION Spec
CONSTANTS NG = 2 Keys = {1, 2} Rounds = 2 CountUnderLock = TRUE
INVARIANTS Contract CountInv NoOrphanUse
PROPERTIES AllFinish AtRestEmpty
CHECK_DEADLOCK FALSE
