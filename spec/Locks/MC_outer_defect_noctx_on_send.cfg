SPECIFICATION Spec
CONSTANTS Readers = {1, 2, 3} Writers = {4} Rounds = 1 Grace = 1 MaxT = 0 AllowShutdown = FALSE AllowParentCancel = TRUE GraceFromAdmission = FALSE ErrButAdmitted = FALSE DeleteOnEveryRelease = FALSE AutoReleaseOnCtxEnd = FALSE CancelAfterDone = FALSE NoCtxOnSend = TRUE
INVARIANTS Contract
CHECK_DEADLOCK FALSE
