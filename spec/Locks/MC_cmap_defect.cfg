SPECIFICATION Spec
CONSTANTS NG = 2 Keys = {1} Rounds = 2 Modes = {"w"} WRels = {"unlock", "deleteunlock"} RRels = {"runlock"} PlainDelete = FALSE Repaired = FALSE NonAtomicDeleteUnlock = FALSE
INVARIANTS Contract
CHECK_DEADLOCK FALSE
