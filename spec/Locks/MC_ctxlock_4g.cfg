SPECIFICATION Spec
CONSTANTS NG = 4 Rounds = 1 Modes = {"w", "r"} LeakOnCancel = FALSE DeafWaiter = FALSE
INVARIANTS Contract TokenInv RWNeverBlocks
PROPERTY AllFinish
CHECK_DEADLOCK FALSE
