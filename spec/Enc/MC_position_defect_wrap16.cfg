SPECIFICATION Spec
CONSTANTS Positions <- AllPositions Defect = "wrap16"
INVARIANTS FormatHolds BindingHolds
CHECK_DEADLOCK FALSE
