-------------------------- MODULE TraceEncV1Format --------------------------
(* Validates, against the EncV1FormatContract monitor, the structural         *)
(* decomposition of documents produced by the REAL Encrypt (made by the       *)
(* independent README implementation harness/c01/encref) together with the    *)
(* recorded WrapKeyFn / UnwrapKeyFn calls and the results of decrypting the   *)
(* document with the real Decrypt and with the reference implementation.      *)
(* trace.ndjson holds many runs, each starting with a "reset" line.           *)
EXTENDS EncV1FormatContract, TraceLib

Trace == LoadTrace("trace.ndjson")
Starts == {i \in 1..Len(Trace) : Trace[i].ev = "reset"}
VARIABLES l, c
TInit == l \in Starts /\ c = CReset(Trace[l])
TNext == /\ ~IsBad(c)
         /\ l + 1 <= Len(Trace)
         /\ Trace[l + 1].ev # "reset"
         /\ c' = CNext(c, Trace[l + 1])
         /\ l' = l + 1
TSpec == TInit /\ [][TNext]_<<l, c>>
Report == IF IsBad(c) THEN RejectLine(l, c.why) ELSE TRUE
=============================================================================
