----------------------------- MODULE EncPosition -----------------------------
(* The nonce of a segment as a function of its position over the WHOLE 32-bit *)
(* counter range (filekey.go:225-236 nonceForSegment), composed with the      *)
(* README nonce (prefix || BE32 counter || last flag).  A position is         *)
(* <<hi, lo>> (N = hi * 65536 + lo) plus the last flag.  For every sealed     *)
(* position and every candidate position the model produces the events the    *)
(* harnesses record from the real segment functions (v1.VerifSegmentFns):     *)
(*   segn   (C01, EncV1FormatContract): under which candidates the README     *)
(*          opener opens what the real encryptor sealed; the real decryptor   *)
(*          opens what the README sealed                                      *)
(*   openat (C02, EncTamperContract): the real decryptor accepts a segment    *)
(*          iff it is presented at the position it was sealed for             *)
(* An AEAD opens iff key and nonce are those of the sealing (assumption).     *)
EXTENDS Naturals, Sequences, FiniteSets, TLC

CONSTANTS Positions,   \* sequence of <<hi, lo>>
          Defect       \* "none" | "wrap24" (counter mod 2^24) | "wrap16" (mod 2^16) | "last-overlaps" (flag ORed into the counter's low bit)

(* N in {0, 1, 255, 256, 65535, 65536, 2^24-1, 2^24, 2^24+1, 2^31, 2^32-2, 2^32-1} *)
AllPositions == << <<0, 0>>, <<0, 1>>, <<0, 255>>, <<0, 256>>, <<0, 65535>>, <<1, 0>>, <<255, 65535>>, <<256, 0>>, <<256, 1>>,
                   <<32768, 0>>, <<65535, 65534>>, <<65535, 65535>> >>

F == INSTANCE EncV1FormatContract
T == INSTANCE EncTamperContract

VARIABLES s, stage, cf, ct
vars == <<s, stage, cf, ct>>

NP == Len(Positions)
PosSeq == [j \in 1..(2 * NP) |-> [hi |-> Positions[((j - 1) % NP) + 1][1], lo |-> Positions[((j - 1) % NP) + 1][2], last |-> j > NP]]
Pos == {PosSeq[j] : j \in 1..(2 * NP)}
RefNonce(p) == <<"NP", p.hi, p.lo, p.last>>
RealNonce(p) ==
  CASE Defect = "none"          -> <<"NP", p.hi, p.lo, p.last>>
    [] Defect = "wrap24"        -> <<"NP", p.hi % 256, p.lo, p.last>>
    [] Defect = "wrap16"        -> <<"NP", 0, p.lo, p.last>>
    [] Defect = "last-overlaps" -> <<"NP", p.hi, IF p.last THEN (p.lo \div 2) * 2 + 1 ELSE p.lo, FALSE>>

Where(P(_)) == SelectSeq(PosSeq, P)
RECURSIVE FeedF(_, _)
FeedF(c, evs) == IF evs = <<>> THEN c ELSE FeedF(F!CNext(c, Head(evs)), Tail(evs))

Init == s \in Pos /\ stage = "call" /\ cf = F!Dummy /\ ct = T!Dummy

Call ==
  /\ stage = "call" /\ stage' = "done" /\ s' = s
  /\ cf' = FeedF(cf, <<[ev |-> "reset", len |-> 0, S |-> 65536, tag |-> 16, cipher |-> "AES-GCM", alg |-> "A256KW", keyName |-> "k",
                        decKeyName |-> "", omit |-> FALSE, producer |-> "segfn", hmax |-> 65536],
                       [ev |-> "segn", dir |-> "enc", hi |-> s.hi, lo |-> s.lo, last |-> s.last,
                        opens |-> Where(LAMBDA p : RefNonce(p) = RealNonce(s)), same |-> RefNonce(s) = RealNonce(s), plainOK |-> TRUE],
                       [ev |-> "segn", dir |-> "dec", hi |-> s.hi, lo |-> s.lo, last |-> s.last,
                        opens |-> IF RealNonce(s) = RefNonce(s) THEN <<s>> ELSE <<>>, same |-> TRUE, plainOK |-> TRUE],
                       [ev |-> "end"]>>)
  /\ LET c0 == T!CReset([class |-> "segment-position", len |-> 0, mutated |-> TRUE, headerOnly |-> FALSE, forged |-> FALSE])
         \* events 1..2NP: sealed by the real encryptor; 2NP+1..4NP: sealed by the README implementation
         OpenAt(j) == LET p == PosSeq[((j - 1) % (2 * NP)) + 1] IN
                      [ev |-> "openat", shi |-> s.hi, slo |-> s.lo, slast |-> s.last, hi |-> p.hi, lo |-> p.lo, last |-> p.last,
                       ok |-> RealNonce(p) = (IF j <= 2 * NP THEN RealNonce(s) ELSE RefNonce(s)), wrote |-> 0]
         bads == {j \in 1..(4 * NP) : T!IsBad(T!CNext(c0, OpenAt(j)))}          \* the law is per event
     IN ct' = IF bads = {} THEN c0 ELSE T!CNext(c0, OpenAt(CHOOSE j \in bads : \A k \in bads : j <= k))

Spec == Init /\ [][Call]_vars
FormatHolds == ~F!IsBad(cf)
BindingHolds == ~T!IsBad(ct)
=============================================================================
