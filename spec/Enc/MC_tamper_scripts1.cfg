SPECIFICATION Spec
CONSTANTS MaxSegs = 3 MaxOps = 1 MaxOpsFail = 1 Defect = "none" Export = TRUE
INVARIANTS OnlyNamedDeviation
CONSTRAINT ExportScripts
CHECK_DEADLOCK FALSE
