SPECIFICATION Spec
CONSTANTS Sizes = {3} CSizes = {1, 5} MaxZero = 2 Defect = "empty-read-budget"
INVARIANTS NotBad
CHECK_DEADLOCK FALSE
