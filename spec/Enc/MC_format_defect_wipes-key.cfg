SPECIFICATION Spec
CONSTANTS SS = 4 Lens = {0, 5} AliasFix = TRUE OmitFix = TRUE WipesKey = TRUE HdrLimit = "ok"
INVARIANTS NotBad
CHECK_DEADLOCK FALSE
