SPECIFICATION Spec
CONSTANTS MaxSegs = 3 MaxOps = 1 MaxOpsFail = 0 Defect = "none" Export = FALSE
INVARIANTS Strict
CONSTRAINT ExportScripts
CHECK_DEADLOCK FALSE
