SPECIFICATION Spec
CONSTANTS SS = 4 Lens = {0, 5} AliasFix = TRUE OmitFix = FALSE WipesKey = FALSE HdrLimit = "ok"
INVARIANTS NotBad
CHECK_DEADLOCK FALSE
