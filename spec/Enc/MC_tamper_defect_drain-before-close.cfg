SPECIFICATION Spec
CONSTANTS MaxSegs = 3 MaxOps = 1 MaxOpsFail = 1 Defect = "drain-before-close" Export = FALSE
INVARIANTS OnlyNamedDeviation
CONSTRAINT ExportScripts
CHECK_DEADLOCK FALSE
