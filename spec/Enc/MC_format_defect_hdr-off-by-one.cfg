SPECIFICATION Spec
CONSTANTS SS = 4 Lens = {0, 5} AliasFix = TRUE OmitFix = TRUE HdrLimit = "off-by-one"
INVARIANTS NotBad
CHECK_DEADLOCK FALSE
