SPECIFICATION Spec
CONSTANTS SS = 4 Lens = {0, 5} AliasFix = TRUE OmitFix = TRUE WipesKey = FALSE HdrLimit = "off-by-one"
INVARIANTS NotBad
CHECK_DEADLOCK FALSE
