SPECIFICATION Spec
CONSTANTS MaxSegs = 3 MaxOps = 2 MaxOpsFail = 1 Defect = "none" Export = FALSE
INVARIANTS OnlyNamedDeviation ReleasedIsPrefix CleanMeansEqual SourceErrorSurfaces CacheIntact
CONSTRAINT ExportScripts
CHECK_DEADLOCK FALSE
