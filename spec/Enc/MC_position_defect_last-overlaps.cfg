SPECIFICATION Spec
CONSTANTS Positions <- AllPositions Defect = "last-overlaps"
INVARIANTS FormatHolds BindingHolds
CHECK_DEADLOCK FALSE
