SPECIFICATION Spec
CONSTANTS MaxSegs = 3 MaxOps = 1 MaxOpsFail = 0 Defect = "nolastbind" Export = FALSE
INVARIANTS OnlyNamedDeviation
CONSTRAINT ExportScripts
CHECK_DEADLOCK FALSE
