SPECIFICATION Spec
CONSTANTS MaxSegs = 3 MaxOps = 2 MaxOpsFail = 0 Defect = "none" Export = TRUE
INVARIANTS OnlyNamedDeviation
CONSTRAINT ExportScripts
CHECK_DEADLOCK FALSE
