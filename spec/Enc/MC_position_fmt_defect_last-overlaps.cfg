SPECIFICATION Spec
CONSTANTS Positions <- AllPositions Defect = "last-overlaps"
INVARIANTS FormatHolds
CHECK_DEADLOCK FALSE
