SPECIFICATION Spec
CONSTANTS SS = 4 Lens = {0, 1, 4, 5, 9} AliasFix = TRUE OmitFix = TRUE HdrLimit = "ok"
INVARIANTS NotBad WrapUnwrapAgree
CHECK_DEADLOCK FALSE
