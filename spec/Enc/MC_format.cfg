SPECIFICATION Spec
CONSTANTS SS = 4 Lens = {0, 1, 3, 4, 5, 8, 9, 13} AliasFix = TRUE OmitFix = TRUE
INVARIANTS NotBad WrapUnwrapAgree
CHECK_DEADLOCK FALSE
