SPECIFICATION Spec
CONSTANTS SS = 4 Lens = {0, 1, 4, 5, 9} AliasFix = TRUE OmitFix = TRUE WipesKey = FALSE HdrLimit = "ok"
INVARIANTS NotBad WrapUnwrapAgree CacheIntact
CHECK_DEADLOCK FALSE
