SPECIFICATION Spec
CONSTANTS MaxSegs = 3 MaxOps = 2 MaxOpsFail = 0 Defect = "zero-key-accepted" Export = FALSE
INVARIANTS OnlyNamedDeviation
CONSTRAINT ExportScripts
CHECK_DEADLOCK FALSE
