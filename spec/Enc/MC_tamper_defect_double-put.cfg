SPECIFICATION Spec
CONSTANTS MaxSegs = 3 MaxOps = 2 MaxOpsFail = 0 Defect = "double-put" Export = FALSE
INVARIANTS OnlyNamedDeviation
CONSTRAINT ExportScripts
CHECK_DEADLOCK FALSE
