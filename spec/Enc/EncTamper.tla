------------------------------ MODULE EncTamper ------------------------------
(* Symbolic (Dolev-Yao style) model of Decrypt (scheme.go:184-336,            *)
(* filekey.go:117-236) against an adversary who edits the document and a      *)
(* source reader that may fail.                                               *)
(*                                                                            *)
(* A document is a header state plus a sequence of stored UNITS.  An honest   *)
(* unit is the term Seal(key, nonce(np, ctr, last), data); a damaged one is   *)
(* Garbage.  Lengths are counted in CELLS: a full stored segment (65536+16    *)
(* bytes) is F = 3 cells - its first byte (what the look-ahead of the segment *)
(* loop sees), its body, its tag -; a short final segment is 2 cells (body,   *)
(* tag).  The decryptor is the framing loop of EncFraming (whole reads; all   *)
(* reader chunkings are covered there) cutting the cell stream into pieces of *)
(* F cells with one cell of look-ahead, composed with Open:                   *)
(*    a piece opens iff it coincides with ONE honest unit sealed under the    *)
(*    document's payload key and nonce(np, index of the piece, last flag).    *)
(* Everything else (a piece spanning two units, a cut or flipped unit, a unit *)
(* of another document, another position or another finality) is rejected -   *)
(* the cryptographic assumption.                                              *)
(*                                                                            *)
(* Adversary: op codes (recorded in `ops` as <<code, a, b>>)                   *)
(*   1 flip scheme line   2 flip manifest   3 flip MAC                        *)
(*   4 flip unit a, cell b (1 first byte / 2 body / 3 tag)                    *)
(*   5 truncate inside the header                                             *)
(*   6 truncate: keep units < a and b cells of unit a (b = 0: at a boundary;  *)
(*     a = 1, b = 0: right after the header; b = 1 on a full unit: inside the *)
(*     look-ahead byte)                                                       *)
(*   7 delete unit a      8 duplicate unit a      9 swap units a and b        *)
(*  10 append a copy of unit a     11 append b cells of garbage               *)
(*  12 replace unit a by unit (b div 10) of document B variant (b mod 10)     *)
(*  13 append unit a of document B variant b                                  *)
(*  14 the unwrap callback: a = 1 returns another 32-byte key; 2 fails         *)
(*     (nil, err); 3 returns a short/empty key without error; 4 returns 32    *)
(*     zero bytes together with an error; 5 returns 32 other bytes together   *)
(*     with an error.  When the callback fails (2..5) or the key is not 32    *)
(*     bytes, Decrypt continues with the ALL-ZERO file key "K0" (2, 3) or     *)
(*     with the bytes it got (4: "K0", 5: "KX") so that the MAC check fails   *)
(*     uniformly (scheme.go:216-224)                                          *)
(*  15 FORGE: replace the whole document by one built under the all-zero file *)
(*     key: header MAC under HKDF(K0, header), every segment sealed under     *)
(*     HKDF(K0, np, payload), same shape, attacker's plaintext, garbage wfk   *)
(*  17 LENGTHEN header line a (1 scheme, 2 a base64 value of the manifest,     *)
(*     3 the MAC) by b valid characters: the line still has its form but the  *)
(*     value is longer than what Encrypt writes (a MAC that decodes to more   *)
(*     than 32 bytes, ...)                                                    *)
(*  16 (first op only) the honest caller first decrypts the HONEST document    *)
(*     through its caching key provider - a provider that keeps the file key  *)
(*     in memory and hands out the same bytes on every unwrap                 *)
(* The attacker knows the all-zero key "K0".  `cache` is what the provider    *)
(* holds: the honest unwrap (no op 14) returns it.                            *)
(* Document B has two units; variant 1: same file key, other nonce prefix;    *)
(* 2: other key, same prefix; 3: both differ.                                 *)
(* Source failure: the reader fails after `failAt` payload cells (0 = right   *)
(* after the header, L = right after the last byte), or inside the header     *)
(* (-2); -1 = never; -3 = the source never fails and never ENDS on its own    *)
(* (a pipe / network body whose writer waits for the outcome): after the last *)
(* byte its Read blocks.  -1 = never fails and ends with EOF.  withData: the Read that delivers the last cells before  *)
(* the failure returns them TOGETHER with the error (n > 0, err), otherwise   *)
(* the error comes alone in the next Read.                                    *)
EXTENDS EncTamperContract, Integers, TLC

CONSTANTS MaxSegs,        \* honest documents have 0..MaxSegs segments, the last one short or full
          MaxOps,         \* adversary operations per behaviour
          MaxOpsFail,     \* ... when the source also fails
          Defect,         \* "none" | "nolastbind" | "release-first" | "swallow" | "wipes-unwrapped-key" (Decrypt clears the slice
                          \* the unwrap callback returned, i.e. the provider's cached key) | "drain-before-close" (the rejection path first
                          \* reads the rest of the input, then closes the output with the error) | "mac-overflow-panics" (a MAC line that
                          \* decodes to more than 32 bytes indexes out of range) | "double-put" (the rejection path gives the
                          \* pooled buffer back twice) | "zero-key-accepted" (a failed unwrap is
                          \* forgotten once the fallback key is in place: a document forged under that key passes the MAC check)
          Export          \* TRUE: print one SCRIPT line per terminal state (replayed on the real code)

VARIABLES nA, lastFull, hdr, ukey, ufail, cache, units, ops, failAt, withData, phase, i, released, term, c
vars == <<nA, lastFull, hdr, ukey, ufail, cache, units, ops, failAt, withData, phase, i, released, term, c>>

F == 3
RECURSIVE Feed(_, _)
Feed(cc, evs) == IF evs = <<>> THEN cc ELSE Feed(CNext(cc, Head(evs)), Tail(evs))

(* fb: the first cell of the unit is a single byte (full segment), not a whole body (short segment) *)
Seal(key, np, ctr, last, data, len) == [k |-> "seal", key |-> key, np |-> np, ctr |-> ctr, last |-> last, data |-> data, len |-> len, fb |-> len = 3]
Garbage(len, fb) == [k |-> "garb", key |-> "-", np |-> "-", ctr |-> 0, last |-> FALSE, data |-> 0, len |-> len, fb |-> fb]

OrigUnits(n, lf) == [j \in 1..n |-> Seal("KA", "NA", j - 1, j = n, j, IF j < n \/ lf THEN F ELSE 2)]
Orig == [j \in 1..nA |-> j]                                  \* the plaintext, one symbol per segment
BKey(v) == IF v = 1 THEN "KA" ELSE "KB"
BNp(v) == IF v = 2 THEN "NA" ELSE "NB"
BUnit(j, v) == Seal(BKey(v), BNp(v), j - 1, j = 2, 100 + j, IF j = 1 THEN F ELSE 2)

RECURSIVE SumLen(_)
SumLen(us) == IF us = <<>> THEN 0 ELSE Head(us).len + SumLen(Tail(us))
L == SumLen(units)
StartOf(j) == SumLen(SubSeq(units, 1, j - 1))
IsPrefix(s, t) == Len(s) <= Len(t) /\ SubSeq(t, 1, Len(s)) = s

RemoveAt(s, j) == SubSeq(s, 1, j - 1) \o SubSeq(s, j + 1, Len(s))
InsertAfter(s, j, x) == SubSeq(s, 1, j) \o <<x>> \o SubSeq(s, j + 1, Len(s))

Init ==
  /\ nA \in 0..MaxSegs /\ lastFull \in BOOLEAN /\ (nA = 0 => lastFull = FALSE)
  /\ hdr = "ok" /\ ukey = "KA" /\ ufail = FALSE /\ cache = "KA" /\ units = OrigUnits(nA, lastFull) /\ ops = <<>>
  /\ failAt = -1 /\ withData = FALSE /\ phase = "mutate" /\ i = 0 /\ released = <<>> /\ term = "none"
  /\ c = Dummy

Op(code, a, b, h2, k2, u2) ==
  /\ hdr' = h2 /\ ukey' = k2 /\ units' = u2 /\ ops' = Append(ops, <<code, a, b>>)
  /\ ufail' = (ufail \/ (code = 14 /\ a >= 2))
  /\ cache' = IF code = 16 /\ Defect = "wipes-unwrapped-key" THEN "K0" ELSE cache     \* scheme.go: clear(fileKeyBytes)
  /\ UNCHANGED <<nA, lastFull, failAt, withData, phase, i, released, term, c>>

N == Len(units)
Mutate ==
  /\ phase = "mutate" /\ Len(ops) < MaxOps /\ hdr # "cut"
  /\ \/ /\ hdr = "ok" /\ \E x \in 1..3 : Op(x, 0, 0, CASE x = 1 -> "scheme" [] x = 2 -> "manifest" [] x = 3 -> "mac", ukey, units)
     \/ \E a \in 1..N : \E b \in 1..units[a].len : Op(4, a, b, hdr, ukey, [units EXCEPT ![a] = Garbage(units[a].len, units[a].fb)])
     \/ Op(5, 0, 0, "cut", ukey, <<>>)
     \/ \E a \in 1..N : \E b \in 0..(units[a].len - 1) :
          Op(6, a, b, hdr, ukey, SubSeq(units, 1, a - 1) \o (IF b = 0 THEN <<>> ELSE <<Garbage(b, units[a].fb)>>))
     \/ \E a \in 1..N : Op(7, a, 0, hdr, ukey, RemoveAt(units, a))
     \/ \E a \in 1..N : Op(8, a, 0, hdr, ukey, InsertAfter(units, a, units[a]))
     \/ \E a \in 1..N : \E b \in (a + 1)..N : Op(9, a, b, hdr, ukey, [units EXCEPT ![a] = units[b], ![b] = units[a]])
     \/ \E a \in 1..N : Op(10, a, 0, hdr, ukey, Append(units, units[a]))
     \/ \E b \in 1..F : Op(11, 0, b, hdr, ukey, Append(units, Garbage(b, b # 2)))
     \/ \E a \in 1..N : \E j \in 1..2 : \E v \in 1..3 : Op(12, a, 10 * j + v, hdr, ukey, [units EXCEPT ![a] = BUnit(j, v)])
     \/ \E j \in 1..2 : \E v \in 1..3 : Op(13, j, v, hdr, ukey, Append(units, BUnit(j, v)))
     \/ /\ ukey = "KA" /\ ~ufail /\ \E a \in 1..5 : Op(14, a, 0, hdr, IF a \in {2, 3, 4} THEN "K0" ELSE "KX", units)
     \/ /\ hdr = "ok" /\ \E x \in 1..3 : \E b \in {1, 4, 8} :
             Op(17, x, b, CASE x = 1 -> "scheme" [] x = 2 -> "manifest" [] x = 3 -> "mac+", ukey, units)
     \/ /\ ops = <<>> /\ Op(16, 0, 0, hdr, ukey, units)
     \/ /\ ops \in {<<>>, << <<16, 0, 0>> >>} /\ Op(15, 0, 0, "forged0", ukey, [j \in 1..nA |-> Seal("K0", "NA", j - 1, j = nA, 200 + j, OrigUnits(nA, lastFull)[j].len)])

Mutated == hdr # "ok" \/ ukey # "KA" \/ units # OrigUnits(nA, lastFull)
Forged == hdr = "forged0"
(* what the unwrap callback hands to Decrypt: the provider's cached bytes unless op 14 substituted the outcome *)
UKey == IF ukey = "KA" THEN cache ELSE ukey
(* the provider's bytes after the Decrypt under test returned (it called the honest unwrap iff the header was readable) *)
CacheAfter == IF Defect = "wipes-unwrapped-key" /\ ukey = "KA" /\ failAt # -2 /\ hdr \in {"ok", "mac", "mac+", "forged0"} THEN "K0" ELSE cache
(* the header is accepted iff scheme line and manifest are intact and the MAC verifies under the key in use; the   *)
(* repaired Decrypt additionally returns an error after the MAC check whenever the unwrap callback had failed    *)
HeaderAccepted == /\ \/ hdr = "ok" /\ UKey = "KA"
                     \/ hdr = "forged0" /\ UKey = "K0"
                  /\ (ufail => Defect = "zero-key-accepted")
HeaderOnly == hdr \notin {"cut", "forged0"} /\ units = <<>> /\ nA > 0      \* nothing but a (complete) header is left of a non-empty message

(* the caller hands the document to Decrypt; the source will fail at fa (or never) *)
Start ==
  /\ phase = "mutate"
  /\ \E fa \in ({-1} \cup (IF Len(ops) <= MaxOpsFail THEN {-3, -2} \cup 0..L ELSE {})) :
       /\ failAt' = fa /\ withData' \in (IF fa >= 1 THEN BOOLEAN ELSE {FALSE})
       /\ c' = CReset([class |-> "model", len |-> nA, mutated |-> Mutated, headerOnly |-> HeaderOnly, forged |-> Forged])
  /\ phase' = "header"
  /\ UNCHANGED <<nA, lastFull, hdr, ukey, ufail, cache, units, ops, i, released, term>>

Finish(t, evs) ==
  /\ term' = t /\ phase' = "done"
  /\ c' = Feed(c, evs \o <<[ev |-> "end", term |-> t, released |-> Len(released), equal |-> released = Orig],
                              [ev |-> "keycheck", intact |-> CacheAfter = "KA"]>>)
  /\ UNCHANGED <<nA, lastFull, hdr, ukey, ufail, cache, units, ops, failAt, withData, i, released>>

(* scheme.go:196-236 readHeader, manifest, unwrap, MAC *)
Header ==
  /\ phase = "header"
  /\ IF failAt = -2 THEN Finish("decrypt-err", <<[ev |-> "srcerr"], [ev |-> "decrypt", err |-> TRUE]>>)
     ELSE IF failAt = -3 /\ hdr = "cut" THEN Finish("pending", <<>>)              \* readHeader waits for the rest of the header
     ELSE IF hdr = "mac+" /\ Defect = "mac-overflow-panics" THEN Finish("panic", <<>>)
     ELSE IF ~HeaderAccepted THEN Finish("decrypt-err", <<[ev |-> "decrypt", err |-> TRUE]>>)
     ELSE /\ phase' = "loop" /\ c' = Feed(c, <<[ev |-> "decrypt", err |-> FALSE]>>)
          /\ UNCHANGED <<nA, lastFull, hdr, ukey, ufail, cache, units, ops, failAt, withData, i, released, term>>

(* the unit a piece coincides with, or Garbage *)
Piece(from, to) ==
  IF \E j \in 1..N : StartOf(j) = from /\ StartOf(j) + units[j].len = to
    THEN units[CHOOSE j \in 1..N : StartOf(j) = from /\ StartOf(j) + units[j].len = to]
    ELSE Garbage(to - from, FALSE)
Opens(u, ctr, last) ==
  /\ u.k = "seal" /\ u.key = UKey /\ u.np = "NA" /\ u.ctr = ctr
  /\ (u.last = last \/ Defect = "nolastbind")

(* one iteration of processSegments + DecryptSegment (scheme.go:260-333, filekey.go:195-222) *)
Loop ==
  /\ phase = "loop"
  /\ LET from  == i * F
         avail == (IF failAt >= 0 THEN failAt ELSE L) - from        \* cells the source still delivers
         fails == failAt >= 0 /\ Defect # "swallow"
         \* a full piece plus the look-ahead cell; when those cells arrive together with the error the loop
         \* sees the error first and discards them (scheme.go:279-290)
         \* (only when the look-ahead cell is a single byte, i.e. the first byte of a full segment)
         oneByte == \E j \in 1..N : StartOf(j) = from + F /\ units[j].fb
         need  == IF failAt >= 0 /\ withData /\ oneByte /\ Defect # "swallow" THEN F + 2 ELSE F + 1
     IN IF avail >= need
          THEN LET u == Piece(from, from + F) IN
               IF Opens(u, i, FALSE)
                 THEN /\ released' = Append(released, u.data) /\ i' = i + 1
                      /\ c' = Feed(c, <<[ev |-> "release", n |-> 1, prefixOK |-> IsPrefix(Append(released, u.data), Orig)]>>)
                      /\ UNCHANGED <<nA, lastFull, hdr, ukey, ufail, cache, units, ops, failAt, withData, phase, term>>
                 ELSE IF Defect = "release-first"
                   THEN Finish("err", <<[ev |-> "release", n |-> 1, prefixOK |-> FALSE]>>)
                   ELSE IF Defect = "drain-before-close" /\ failAt = -3 THEN Finish("hang", <<>>)  \* waits for an EOF that never comes
                   ELSE Finish("err", <<[ev |-> "pool", twice |-> Defect = "double-put"]>>)       \* scheme.go:326-330
        ELSE IF failAt = -3 THEN Finish("pending", <<>>)           \* needs more input or EOF; the source stays open: it legitimately waits
        ELSE IF fails THEN Finish("err", <<[ev |-> "srcerr"]>>)                               \* :286-290
        ELSE IF avail <= 0 THEN Finish(IF i = 0 THEN "eof" ELSE "err",                           \* :311-318
                                       IF failAt >= 0 THEN <<[ev |-> "srcerr"]>> ELSE <<>>)
        ELSE LET u == Piece(from, from + avail) IN
             IF Opens(u, i, TRUE) /\ (failAt < 0 \/ from + avail = L)
               THEN /\ released' = Append(released, u.data) /\ term' = "eof" /\ phase' = "done"
                    /\ c' = Feed(c, (IF failAt >= 0 THEN <<[ev |-> "srcerr"]>> ELSE <<>>) \o
                                     <<[ev |-> "release", n |-> 1, prefixOK |-> IsPrefix(Append(released, u.data), Orig)],
                                       [ev |-> "end", term |-> "eof", released |-> Len(released) + 1,
                                        equal |-> Append(released, u.data) = Orig],
                                       [ev |-> "keycheck", intact |-> CacheAfter = "KA"]>>)
                    /\ UNCHANGED <<nA, lastFull, hdr, ukey, ufail, cache, units, ops, failAt, withData, i>>
               ELSE Finish("err", IF failAt >= 0 THEN <<[ev |-> "srcerr"]>> ELSE <<>>)

Next == Mutate \/ Start \/ Header \/ Loop
Spec == Init /\ [][Next]_vars

(* the property modulo exactly the named deviation *)
OnlyNamedDeviation == IsBad(c) => c.why = HeaderOnlyWhy
(* without the exemption: TLC must find the header-only truncation (shows the model is not vacuous) *)
Strict == ~IsBad(c)
ReleasedIsPrefix == IsPrefix(released, Orig)
CleanMeansEqual == (phase = "done" /\ term = "eof") => (released = Orig \/ HeaderOnly) /\ failAt < 0
CacheIntact == cache = "KA" /\ (phase = "done" => CacheAfter = "KA")
SourceErrorSurfaces == (phase = "done" /\ failAt # -1) => term # "eof"

(* one line per terminal state: the script and the model's prediction *)
TermCode == CASE term = "eof" -> 0 [] term = "err" -> 1 [] term = "decrypt-err" -> 2 [] term = "pending" -> 3 [] OTHER -> 9
ExportScripts ==
  (Export /\ phase = "done") =>
     PrintT(<<"SCRIPT", nA, IF lastFull THEN 1 ELSE 0, ops, failAt, IF withData THEN 1 ELSE 0, Len(released), TermCode>>)
=============================================================================
