SPECIFICATION Spec
CONSTANTS Positions <- AllPositions Defect = "wrap24"
INVARIANTS FormatHolds
CHECK_DEADLOCK FALSE
