------------------------- MODULE EncTamperContract -------------------------
(* C02 - "tampered or truncated documents never decrypt silently" as a        *)
(* monitor over what a caller of Decrypt can observe.                         *)
(*                                                                            *)
(* Events:                                                                    *)
(*  reset    class (mutation class, free text), len (length of the original   *)
(*           plaintext, in bytes or in symbolic units), mutated (the document *)
(*           differs from what Encrypt produced or another key is unwrapped), *)
(*           headerOnly (the document of a NON-EMPTY message was reduced to   *)
(*           three header lines with no payload byte: every segment cut off), *)
(*           forged (the document was not produced by Encrypt at all: the     *)
(*           adversary built header MAC and segments under a key of his own   *)
(*           choosing - the all-zero key Decrypt falls back to when the       *)
(*           unwrap callback fails - and the callback does not return that    *)
(*           document's key as a successful result)                           *)
(*  srcerr   the source reader returned a non-EOF error                       *)
(*  decrypt  err: Decrypt itself returned an error (no stream)                *)
(*  release  n, prefixOK: the consumer read n bytes; prefixOK <=> everything  *)
(*           read so far is a prefix of the original plaintext                *)
(*  end      term in {"eof","err","decrypt-err","hang","panic","pending"},    *)
(*           released, equal; hang: neither an error nor an end although the  *)
(*           decryptor had all it needed to reject (watchdog); panic: the     *)
(*           call terminated the caller instead of returning an error;        *)
(*           pending: the source is still open and the decryptor legitimately *)
(*           waits for more input (nothing can be demanded yet)               *)
(*           (everything read = the original plaintext)                       *)
(*  openat   shi, slo, slast / hi, lo, last, ok, wrote: a segment sealed for  *)
(*           position (N = shi*65536+slo, slast) was handed to the segment    *)
(*           decryptor at position (N' = hi*65536+lo, last); ok: it was       *)
(*           accepted; wrote: bytes it released (16-bit halves: TLC integers  *)
(*           are 32-bit signed)                                               *)
(*  panic    entry, value: the call (Decrypt, or Read on its stream) panicked  *)
(*  keycheck intact: after the Decrypt call (and its stream) ended, the key    *)
(*           bytes that the caller's key provider RETAINS and hands out on    *)
(*           every unwrap (a key cache / in-memory vault) are unchanged       *)
(*  pool     twice: after the stream ended, some buffer sits in the package's *)
(*           buffer pool more than once (so two later streams would share it) *)
(*                                                                            *)
(* Laws:                                                                      *)
(*  L1  every released byte is part of a prefix of the original plaintext     *)
(*  L2  a clean EOF only if the released bytes are exactly the original       *)
(*      plaintext (a shortened or altered message never ends cleanly)         *)
(*  L3  a source-reader error never ends in a clean EOF                       *)
(*  L4  nothing is released when Decrypt returned an error; the stream ends   *)
(*  L6  a forged document releases nothing and never ends in a clean EOF:     *)
(*      the unwrapped key is not the document's key, whatever Decrypt         *)
(*      substitutes internally when the unwrap callback fails                 *)
(*  L7  Decrypt never modifies memory owned by the caller's key provider (a    *)
(*      wiped cached key turns the next unwrap into "the all-zero key, no     *)
(*      error": valid documents stop decrypting and zero-key forgeries pass)  *)
(*  L8  pool discipline: a buffer is given back to the pool at most once, even *)
(*      on the rejection path (otherwise a later stream hands another         *)
(*      stream's raw input to its reader as "authenticated" plaintext)        *)
(*  L9  rejection is an error VALUE delivered in bounded time: Decrypt never   *)
(*      panics on any input and, once it has read a segment it cannot         *)
(*      authenticate, its stream ends in an error even if the source stays    *)
(*      open (it must not wait for the rest of the input first)               *)
(*  L5  position binding over the whole 32-bit counter range: a segment opens *)
(*      iff (N', last') = (N, last); a rejected segment releases nothing      *)
(*                                                                            *)
(* NAMED DEVIATION HeaderOnlyTruncation: by construction of the published     *)
(* format an empty message has no segment at all, so a document cut right     *)
(* after its header IS the encryption of the empty message under the same     *)
(* header; L2 cannot hold for it.  The monitor reports it under its own       *)
(* reason so that it is tracked as one known finding and every other          *)
(* clean-EOF-on-a-shortened-message stays a fresh violation.                  *)
EXTENDS Naturals, Sequences

Bad(why) == [bad |-> TRUE, why |-> why]
IsBad(c) == c.bad

HeaderOnlyWhy == "HeaderOnlyTruncation"

CReset(e) == [bad |-> FALSE, why |-> "", o |-> e, srcErr |-> FALSE, decErr |-> FALSE, released |-> 0]
Dummy == CReset([class |-> "", len |-> 0, mutated |-> FALSE, headerOnly |-> FALSE, forged |-> FALSE])

CRelease(c, e) ==
  IF c.o.forged /\ e.n > 0 THEN Bad("forged document released bytes")
  ELSE IF c.decErr /\ e.n > 0 THEN Bad("bytes released although Decrypt failed")
  ELSE IF ~e.prefixOK THEN Bad("released bytes are not a prefix of the plaintext")
  ELSE [c EXCEPT !.released = @ + e.n]

CEnd(c, e) ==
  IF e.term = "hang" THEN Bad("stream never terminated")
  ELSE IF e.term = "panic" THEN Bad("Decrypt panicked")
  ELSE IF e.term = "pending" THEN c
  ELSE IF e.term = "eof" /\ c.o.forged THEN Bad("forged document ended in a clean EOF")
  ELSE IF e.term = "eof" /\ c.srcErr THEN Bad("source error ended in a clean EOF")
  ELSE IF e.term = "eof" /\ ~e.equal THEN
         IF c.o.headerOnly /\ e.released = 0 THEN Bad(HeaderOnlyWhy)
         ELSE IF e.released < c.o.len THEN Bad("shortened message ended in a clean EOF")
         ELSE Bad("altered message ended in a clean EOF")
  ELSE c

COpenAt(c, e) ==
  LET own == e.shi = e.hi /\ e.slo = e.lo /\ e.slast = e.last IN
  IF e.ok /\ ~own THEN Bad("segment accepted at another position")
  ELSE IF ~e.ok /\ own THEN Bad("segment rejected at its own position")
  ELSE IF ~e.ok /\ e.wrote > 0 THEN Bad("rejected segment released bytes")
  ELSE c

CNext(c, e) ==
  IF e.ev = "reset" THEN CReset(e)
  ELSE IF IsBad(c) THEN c
  ELSE CASE e.ev = "srcerr"  -> [c EXCEPT !.srcErr = TRUE]
         [] e.ev = "decrypt" -> [c EXCEPT !.decErr = e.err]
         [] e.ev = "release" -> CRelease(c, e)
         [] e.ev = "panic"   -> Bad("Decrypt panicked")
         [] e.ev = "openat"  -> COpenAt(c, e)
         [] e.ev = "keycheck" -> IF e.intact THEN c ELSE Bad("caller's retained key bytes were modified")
         [] e.ev = "pool"    -> IF e.twice THEN Bad("pooled buffer is in the pool twice") ELSE c
         [] e.ev = "end"     -> CEnd(c, e)
=============================================================================
