------------------------- MODULE EncFramingContract -------------------------
(* C01 (framing part) - the chunking law of dapr.io/enc/v1 as a monitor      *)
(* automaton over the observable events of the segment loop that Encrypt and  *)
(* Decrypt share (schemes/enc/v1/scheme.go processSegments).  Positions, not  *)
(* bytes: the harness compares bytes and reports the result in `ok`.          *)
(*                                                                            *)
(* Events:                                                                    *)
(*  reset   S, len          segment size, number of bytes the source holds    *)
(*  srcread k, n, err       one Read(k) of the source returned n bytes and    *)
(*                          err in {"nil","eof","err"}                        *)
(*  emit    from, to, num, last, ok                                           *)
(*                          the loop handed bytes [from,to) to the segment    *)
(*                          function with counter num and the last flag       *)
(*  bulk    count, ok       count consecutive emit events in one (streams of   *)
(*                          tens of thousands of segments): the harness checked *)
(*                          each of them the way CEmit does; ok <=> all passed  *)
(*  read    k, n, err, ok   the consumer of the output stream read n bytes;   *)
(*                          err in {"nil","eof","srcerr","other"}; ok <=> they *)
(*                          are the next bytes of the source                  *)
(*  end                     the consumer stopped                              *)
(*                                                                            *)
(* Laws (CNext returns Bad(why) when one is broken):                          *)
(*  - the emitted segments are Chunks(len, S), in order: no segment for       *)
(*    len = 0, every segment but the final one exactly S bytes, never an      *)
(*    empty segment, counter = index, last flag exactly on the final one;     *)
(*    when the source fails, a prefix of Chunks(len, S);                      *)
(*  - the documented limit is 2^32 segments: any shorter well-formed stream    *)
(*    is processed to its end (no "too large" below the limit);               *)
(*  - the consumer receives the bytes of processed segments only, in order;   *)
(*  - a clean end only after all len bytes, and only if the source never      *)
(*    returned a non-EOF error; a source error ends the stream in an error;   *)
(*  - no error when the source ended cleanly.                                 *)
EXTENDS Naturals, Sequences

Bad(why) == [bad |-> TRUE, why |-> why]
IsBad(c) == c.bad
Min(a, b) == IF a < b THEN a ELSE b

NumChunks(len, S) == (len + S - 1) \div S
(* the i-th (0-based) segment of a message of len bytes *)
Chunk(len, S, i) == [from |-> i * S, to |-> Min(len, (i + 1) * S), num |-> i, last |-> (i + 1) * S >= len]
Chunks(len, S) == [j \in 1..NumChunks(len, S) |-> Chunk(len, S, j - 1)]

CReset(e) ==
  [bad |-> FALSE, why |-> "", S |-> e.S, len |-> e.len,
   srcErr |-> FALSE,      \* the source returned a non-EOF error
   emitted |-> 0,         \* segments handed to the segment function so far
   delivered |-> 0,       \* bytes the consumer received so far
   term |-> "none"]       \* terminal result of the output stream

Dummy == CReset([S |-> 1, len |-> 0])

CSrcRead(c, e) == IF e.err = "err" THEN [c EXCEPT !.srcErr = TRUE] ELSE c

CEmit(c, e) ==
  IF c.term # "none" THEN Bad("segment processed after the stream ended")
  ELSE IF e.num # c.emitted THEN Bad("segment counter is not the segment index")
  ELSE IF e.to <= e.from THEN Bad("empty segment processed")
  ELSE IF c.emitted >= NumChunks(c.len, c.S) THEN Bad("more segments than the chunking law allows")
  ELSE LET w == Chunk(c.len, c.S, c.emitted) IN
    IF e.from # w.from THEN Bad("segment does not start where the previous one ended")
    ELSE IF e.to # w.to /\ ~w.last THEN Bad("non-final segment is not exactly S bytes")
    ELSE IF e.to # w.to THEN Bad("final segment does not end at the end of the message")
    ELSE IF e.last /\ ~w.last THEN Bad("last flag on a non-final segment")
    ELSE IF ~e.last /\ w.last THEN Bad("final segment not flagged last")
    ELSE IF ~e.ok THEN Bad("segment bytes are not the source bytes at that position")
    ELSE [c EXCEPT !.emitted = @ + 1]

CBulk(c, e) ==
  IF c.term # "none" THEN Bad("segment processed after the stream ended")
  ELSE IF ~e.ok THEN Bad("a segment of the bulk run breaks the chunking law")
  ELSE IF c.emitted + e.count > NumChunks(c.len, c.S) THEN Bad("more segments than the chunking law allows")
  ELSE [c EXCEPT !.emitted = @ + e.count]

CRead(c, e) ==
  IF c.term # "none" THEN c          \* reads after the terminal result are not constrained
  ELSE LET d == c.delivered + e.n IN
    IF e.n > e.k THEN Bad("Read returned more than the buffer holds")
    ELSE IF ~e.ok THEN Bad("consumer received bytes that are not the next bytes of the message")
    ELSE IF d > Min(c.len, c.emitted * c.S) THEN Bad("consumer received bytes of a segment that was not processed")
    ELSE IF e.err = "eof" /\ c.srcErr THEN Bad("source error turned into a clean end")
    ELSE IF e.err = "eof" /\ (d # c.len \/ c.emitted # NumChunks(c.len, c.S)) THEN Bad("clean end before the whole message was processed")
    ELSE IF e.err \in {"srcerr", "other"} /\ ~c.srcErr THEN Bad("stream error although the source ended cleanly")
    ELSE [c EXCEPT !.delivered = d, !.term = IF e.err = "nil" THEN "none" ELSE e.err]

CEnd(c) == IF c.term = "none" THEN Bad("output stream never terminated") ELSE c

CNext(c, e) ==
  IF e.ev = "reset" THEN CReset(e)
  ELSE IF IsBad(c) THEN c
  ELSE CASE e.ev = "srcread" -> CSrcRead(c, e)
         [] e.ev = "emit"    -> CEmit(c, e)
         [] e.ev = "bulk"    -> CBulk(c, e)
         [] e.ev = "read"    -> CRead(c, e)
         [] e.ev = "end"     -> CEnd(c)
=============================================================================
