SPECIFICATION Spec
CONSTANTS Positions <- AllPositions Defect = "none"
INVARIANTS FormatHolds BindingHolds
CHECK_DEADLOCK FALSE
