------------------------ MODULE EncV1FormatContract ------------------------
(* C01 (format part) - the published dapr.io/enc/v1 layout                    *)
(* (schemes/enc/v1/README.md) and the key-name / algorithm option logic as a  *)
(* monitor over the STRUCTURAL decomposition of a document.  The              *)
(* decomposition is made by an independent implementation written from the    *)
(* README (harness/c01/encref): it splits the header lines, parses the        *)
(* manifest, recomputes the MAC under HKDF(file key, "header"), cuts the      *)
(* payload into stored segments and tries to open each one under the README   *)
(* nonce and payload key.  The monitor states what the README and the option  *)
(* documentation promise about the result.                                    *)
(*                                                                            *)
(* Events:                                                                    *)
(*  reset  len, S, tag, cipher ("" = default), alg (as given, may be an       *)
(*         alias), keyName, decKeyName, omit, producer in {"real","ref","stored"}*)
(*  wrap   alg, keyName, fkLen      what the WrapKeyFn callback received      *)
(*  encfail stage in {"call","stream"}, hdrWouldBe: Encrypt failed (options are *)
(*         valid and the source is clean in every recorded run); hdrWouldBe =  *)
(*         size of the header the README implementation builds for the same    *)
(*         manifest values.  The header is limited to one segment (reset.hmax  *)
(*         bytes): refusing a longer one with an error from the Encrypt call   *)
(*         is the only legitimate failure.                                     *)
(*  doc    scheme, lines, compact, required, hasK, k, kw, cph, wfkOK, npLen,  *)
(*         macStd, macLen, macOK, payloadLen                                  *)
(*  seg    i, clen, opens in {"last","notlast","none"}, plainOK               *)
(*  unwrap override, alg, keyName   what the UnwrapKeyFn callback received    *)
(*         (override = DecryptOptions.KeyName of that Decrypt call)           *)
(*  dec    by in {"real","ref"}, override, n, equal,                          *)
(*         term in {"eof","err","decrypt-err"}                                *)
(*  segn   dir in {"enc","dec"}, hi, lo, last, opens, same, plainOK            *)
(*         one segment function called with an ARBITRARY segment number        *)
(*         N = hi * 65536 + lo (two 16-bit halves: TLC integers are 32-bit     *)
(*         signed).  dir = "enc": the real segment encryptor sealed a chunk at *)
(*         (N, last); opens = the positions [hi, lo, last] of the candidate    *)
(*         set under which the README opener opens the result; same <=> the    *)
(*         bytes equal the README sealing at (N, last).  dir = "dec": a chunk  *)
(*         sealed by the README implementation at (N, last); opens = the       *)
(*         positions (here: its own) at which the real decryptor opened it.    *)
(*         (reset.producer = "segfn" for these runs)                           *)
(*  keycheck intact, after in {"encrypt","decrypt"}: the key bytes that the    *)
(*         caller's key provider retains (the slice its wrap callback was      *)
(*         given / its unwrap callback returns on every call) are unchanged    *)
(*         after the operation: a valid document decrypts any number of times  *)
(*  pool   twice: after the operation some buffer sits in the package's buffer *)
(*         pool more than once (two later segment loops would share it and a   *)
(*         valid message would stop round-tripping)                            *)
(*  end                                                                       *)
EXTENDS Naturals, Sequences

Bad(why) == [bad |-> TRUE, why |-> why]
IsBad(c) == c.bad
Min(a, b) == IF a < b THEN a ELSE b

SchemeLine == "dapr.io/enc/v1"
(* README: ids of the key-wrap algorithms and of the ciphers *)
AlgId(a) == CASE a = "A256KW" -> 1 [] a = "A128CBC-NOPAD" -> 2 [] a = "A192CBC-NOPAD" -> 3
              [] a = "A256CBC-NOPAD" -> 4 [] a = "RSA-OAEP-256" -> 5 [] OTHER -> 0
AlgName(i) == CASE i = 1 -> "A256KW" [] i = 2 -> "A128CBC-NOPAD" [] i = 3 -> "A192CBC-NOPAD"
              [] i = 4 -> "A256CBC-NOPAD" [] i = 5 -> "RSA-OAEP-256" [] OTHER -> "?"
(* option documentation: "AES" is an alias for A256KW, "RSA" for RSA-OAEP-256 *)
Resolve(a) == CASE a = "AES" -> "A256KW" [] a = "RSA" -> "RSA-OAEP-256" [] OTHER -> a
AllAlgs == {"A256KW", "A128CBC-NOPAD", "A192CBC-NOPAD", "A256CBC-NOPAD", "RSA-OAEP-256", "AES", "RSA"}
(* "If nil, defaults to AES-GCM" *)
CipherId(n) == CASE n = "" -> 1 [] n = "AES-GCM" -> 1 [] n = "CHACHA20-POLY1305" -> 2 [] OTHER -> 0

(* EncryptOptions: DecryptionKeyName "if empty, uses KeyName"; OmitKeyName "does not include the key name" *)
ManifestK(o) == IF o.omit THEN "" ELSE IF o.decKeyName # "" THEN o.decKeyName ELSE o.keyName
(* DecryptOptions.KeyName "if set, uses this value as key name rather than the one included in the manifest" *)
UnwrapName(o, ov) == IF ov # "" THEN ov ELSE ManifestK(o)

NumChunks(len, S) == (len + S - 1) \div S
ChunkLen(len, S, i) == Min(len, (i + 1) * S) - i * S          \* i is 0-based
ChunkLast(len, S, i) == (i + 1) * S >= len
PayloadLen(len, S, tag) == len + tag * NumChunks(len, S)

CReset(e) == [bad |-> FALSE, why |-> "", o |-> e, wrapSeen |-> FALSE, docSeen |-> FALSE, segs |-> 0, decs |-> 0, segns |-> 0, refused |-> FALSE]
Dummy == CReset([len |-> 0, S |-> 1, tag |-> 0, cipher |-> "", alg |-> "AES", keyName |-> "k", decKeyName |-> "",
                 omit |-> FALSE, producer |-> "real", hmax |-> 65536])

CWrap(c, e) ==
  IF e.alg # Resolve(c.o.alg) THEN Bad("WrapKeyFn did not receive the resolved algorithm id of the option")
  ELSE IF e.keyName # c.o.keyName THEN Bad("WrapKeyFn did not receive KeyName")
  ELSE IF e.fkLen # 32 THEN Bad("file key is not 256 bits")
  ELSE [c EXCEPT !.wrapSeen = TRUE]

CEncFail(c, e) ==
  IF e.stage # "call" THEN Bad("Encrypt failed after it started the output stream")
  ELSE IF e.hdrWouldBe <= c.o.hmax THEN Bad("Encrypt failed with valid options and a clean source")
  ELSE [c EXCEPT !.refused = TRUE]          \* header larger than one segment: refused cleanly

CDoc(c, e) ==
  IF c.refused THEN Bad("document produced after Encrypt returned an error")
  ELSE IF c.o.producer = "real" /\ ~c.wrapSeen THEN Bad("document produced without wrapping the file key")
  ELSE IF e.lines # 3 THEN Bad("header does not have three LF-terminated lines")
  ELSE IF e.scheme # SchemeLine THEN Bad("first header line is not the scheme name")
  ELSE IF ~e.compact THEN Bad("manifest is not compact JSON")
  ELSE IF ~e.required THEN Bad("manifest lacks one of kw, wfk, cph, np")
  ELSE IF e.k # ManifestK(c.o) THEN Bad("manifest key name does not follow KeyName/DecryptionKeyName/OmitKeyName")
  ELSE IF e.hasK /\ e.k = "" THEN Bad("manifest carries an empty key name")
  ELSE IF e.kw # AlgId(Resolve(c.o.alg)) THEN Bad("manifest kw is not the id of the (resolved) key-wrap algorithm")
  ELSE IF e.cph # CipherId(c.o.cipher) THEN Bad("manifest cph is not the id of the chosen cipher")
  ELSE IF ~e.wfkOK THEN Bad("manifest wfk is not the wrapped file key")
  ELSE IF e.npLen # 7 THEN Bad("nonce prefix is not 7 bytes")
  ELSE IF ~e.macStd \/ e.macLen # 32 THEN Bad("third header line is not a padded base64 HMAC-SHA-256")
  ELSE IF ~e.macOK THEN Bad("MAC does not verify under HKDF(file key, header) over the first two lines")
  ELSE IF e.payloadLen # PayloadLen(c.o.len, c.o.S, c.o.tag) THEN Bad("payload length is not len + 16 per segment of Chunks(len,S)")
  ELSE [c EXCEPT !.docSeen = TRUE]

CSeg(c, e) ==
  IF ~c.docSeen THEN Bad("segment before the header")
  ELSE IF e.i # c.segs THEN Bad("segments out of order")
  ELSE IF e.i >= NumChunks(c.o.len, c.o.S) THEN Bad("more segments than Chunks(len,S)")
  ELSE IF e.clen # ChunkLen(c.o.len, c.o.S, e.i) + c.o.tag THEN Bad("stored segment is not chunk plus 16-byte tag")
  ELSE IF e.opens = "none" THEN Bad("segment does not open under the README nonce and payload key")
  ELSE IF e.opens = "last" /\ ~ChunkLast(c.o.len, c.o.S, e.i) THEN Bad("non-final segment sealed with the last flag")
  ELSE IF e.opens = "notlast" /\ ChunkLast(c.o.len, c.o.S, e.i) THEN Bad("final segment sealed without the last flag")
  ELSE IF ~e.plainOK THEN Bad("segment plaintext is not the message chunk at that position")
  ELSE [c EXCEPT !.segs = @ + 1]

CUnwrap(c, e) ==
  IF e.alg # Resolve(c.o.alg) THEN Bad("UnwrapKeyFn did not receive the algorithm the key was wrapped with")
  ELSE IF e.keyName # UnwrapName(c.o, e.override) THEN Bad("UnwrapKeyFn did not receive the override / manifest key name")
  ELSE c

CDec(c, e) ==
  LET who == IF e.by = "real" THEN "real Decrypt" ELSE "reference implementation" IN
  IF UnwrapName(c.o, e.override) = "" THEN
       \* no key name anywhere: failing is the documented behaviour; only a wrong success is judged
       IF e.term = "eof" /\ ~e.equal THEN Bad(who \o " returned other bytes than the plaintext") ELSE [c EXCEPT !.decs = @ + 1]
  ELSE IF e.term = "decrypt-err" THEN Bad(who \o " rejected a well-formed document")
  ELSE IF e.term # "eof" THEN Bad(who \o " ended the stream of a well-formed document in an error")
  ELSE IF ~e.equal \/ e.n # c.o.len THEN Bad(who \o " returned other bytes than the plaintext")
  ELSE [c EXCEPT !.decs = @ + 1]

(* README: nonce = nonce_prefix || i (32-bit big-endian) || last_segment, for EVERY i in 0..2^32-1: segment i is   *)
(* sealed under Nonce(prefix, i, last_i) and under no other counter / flag                                        *)
CSegN(c, e) ==
  LET own == [hi |-> e.hi, lo |-> e.lo, last |-> e.last]
      S   == {e.opens[j] : j \in 1..Len(e.opens)} IN
  IF e.dir = "enc" THEN
       IF own \notin S THEN Bad("segment N is not sealed under Nonce(prefix, N, last)")
       ELSE IF S # {own} THEN Bad("segment N also opens under another counter or last flag")
       ELSE IF ~e.same THEN Bad("sealed segment N differs from the README sealing")
       ELSE IF ~e.plainOK THEN Bad("segment N does not hold the chunk")
       ELSE [c EXCEPT !.segns = @ + 1]
  ELSE IF own \notin S THEN Bad("real decryptor does not open a README-sealed segment N")
  ELSE IF ~e.plainOK THEN Bad("real decryptor returned other bytes for segment N")
  ELSE [c EXCEPT !.segns = @ + 1]

CEnd(c) ==
  IF c.o.producer = "stage" THEN c
  ELSE IF c.o.producer = "segfn" THEN (IF c.segns = 0 THEN Bad("no segment function call recorded") ELSE c)
  ELSE IF c.refused THEN c
  ELSE IF ~c.docSeen THEN Bad("no document was produced")
  ELSE IF c.segs # NumChunks(c.o.len, c.o.S) THEN Bad("fewer segments than Chunks(len,S)")
  ELSE IF c.decs = 0 THEN Bad("document was never decrypted")
  ELSE c

CNext(c, e) ==
  IF e.ev = "reset" THEN CReset(e)
  ELSE IF IsBad(c) THEN c
  ELSE CASE e.ev = "wrap"   -> CWrap(c, e)
         [] e.ev = "encfail" -> CEncFail(c, e)
         [] e.ev = "doc"    -> CDoc(c, e)
         [] e.ev = "seg"    -> CSeg(c, e)
         [] e.ev = "segn"   -> CSegN(c, e)
         [] e.ev = "stage"  -> c            \* staging step of a scenario (e.g. a tampered document was rejected first): not judged here
         [] e.ev = "pool"   -> IF e.twice THEN Bad("pooled buffer is in the pool twice") ELSE c
         [] e.ev = "keycheck" -> IF e.intact THEN c ELSE Bad("caller's retained key bytes were modified")
         [] e.ev = "unwrap" -> CUnwrap(c, e)
         [] e.ev = "dec"    -> CDec(c, e)
         [] e.ev = "end"    -> CEnd(c)
=============================================================================
