SPECIFICATION Spec
CONSTANTS Sizes = {3} CSizes = {1, 3, 5} MaxZero = 2 Defect = "none"
INVARIANTS NotBad CleanMeansComplete CounterIsIndex
PROPERTY Terminates
CHECK_DEADLOCK FALSE
