----------------------------- MODULE EncV1Format -----------------------------
(* The dapr.io/enc/v1 document as a structural (symbolic) term, built the way *)
(* Encrypt builds it (scheme.go:105-181, filekey.go:61-114, manifest.go) for   *)
(* EVERY combination of the options: 5 key-wrap algorithm ids + 2 aliases,     *)
(* default/explicit ciphers, KeyName x DecryptionKeyName x OmitKeyName, and    *)
(* read back with/without DecryptOptions.KeyName (scheme.go:184-245).  The     *)
(* term is then decomposed the way an implementation written from the README  *)
(* decomposes it, and the decomposition is shown to EncV1FormatContract.       *)
(*                                                                            *)
(*   doc == [scheme, mf: [k, kw, wfk, cph, np], mac, segs]                     *)
(*   wfk == <<"wrap", algorithm the WrapKeyFn saw, "FK">>                      *)
(*   mac == <<"hmac", HKDF("FK", "", "header"), <<scheme, mf>>>>               *)
(*   seg == <<"seal", HKDF("FK", np, "payload"), <<np, i, last>>, from, to>>   *)
(*                                                                            *)
(* Unwrapping <<"wrap", a, fk>> with algorithm b gives fk iff a = b: this is   *)
(* why an alias has to be resolved BOTH in the manifest and in what the        *)
(* WrapKeyFn receives.                                                        *)
EXTENDS EncV1FormatContract, TLC

CONSTANTS SS,          \* segment size of the model
          Lens,        \* plaintext lengths
          AliasFix,    \* TRUE: the WrapKeyFn receives the resolved algorithm (the code); FALSE: the alias as given
          OmitFix,     \* TRUE: OmitKeyName wins over DecryptionKeyName (the code); FALSE: it is ignored
          WipesKey,    \* FALSE: the code; TRUE: Decrypt clears the slice the unwrap callback returned (the caller's cached key)
          HdrLimit     \* "ok": a header of more than hmax bytes is refused (filekey.go:109); "off-by-one": hmax bytes are refused too;
                       \* "none": never refused (the oversized header is written and Decrypt cannot read it back)

VARIABLES o, ov, stage, doc, cache, c
vars == <<o, ov, stage, doc, cache, c>>

RECURSIVE Feed(_, _)
Feed(cc, evs) == IF evs = <<>> THEN cc ELSE Feed(CNext(cc, Head(evs)), Tail(evs))

HKDF(ikm, salt, info) == <<"hkdf", ikm, salt, info>>
(* symbolic header size: a fixed part plus the key name when the manifest carries one *)
HMax == 40
HBase == 20
HdrLen(k) == HBase + (IF k = "" THEN 0 ELSE o.klen)

Init ==
  /\ o \in [len : Lens, S : {SS}, tag : {1}, cipher : {"", "AES-GCM", "CHACHA20-POLY1305"}, alg : AllAlgs,
            keyName : {"k1"}, decKeyName : {"", "k2"}, omit : BOOLEAN, producer : {"real"}, hmax : {HMax},
            klen : {1, HMax - HBase - 1, HMax - HBase, HMax - HBase + 1}]      \* length of the key name that goes into the manifest
  /\ ov \in {"", "k3"}
  /\ stage = "encrypt" /\ doc = <<>>
  /\ cache = "intact"                \* the caller's key provider keeps the file key in memory and returns those bytes on every unwrap
  /\ c = CReset(o)

(* scheme.go:105-181 *)
Encrypt ==
  /\ stage = "encrypt"
  /\ LET kwa  == Resolve(o.alg)                                    \* opts.Algorithm.Validate()
         seen == IF AliasFix THEN kwa ELSE o.alg                    \* string(keyWrapAlgorithm) handed to WrapKeyFn
         k    == IF o.omit /\ OmitFix THEN "" ELSE IF o.decKeyName # "" THEN o.decKeyName ELSE o.keyName
         mf   == [k |-> k, kw |-> AlgId(kwa), wfk |-> <<"wrap", seen, "FK">>, cph |-> CipherId(o.cipher), np |-> "NP"]
         segs == [j \in 1..NumChunks(o.len, SS) |->
                    <<"seal", HKDF("FK", "NP", "payload"), <<"NP", j - 1, j = NumChunks(o.len, SS)>>,
                      (j - 1) * SS, Min(o.len, j * SS)>>]
         refuse == CASE HdrLimit = "ok" -> HdrLen(k) > HMax [] HdrLimit = "off-by-one" -> HdrLen(k) >= HMax [] OTHER -> FALSE
     IN IF refuse
        THEN /\ doc' = <<>> /\ stage' = "done"
             /\ c' = Feed(c, <<[ev |-> "wrap", alg |-> seen, keyName |-> o.keyName, fkLen |-> 32],
                               [ev |-> "encfail", stage |-> "call", hdrWouldBe |-> HdrLen(k)], [ev |-> "end"]>>)
        ELSE
        /\ stage' = "decompose"
        /\ doc' = [scheme |-> SchemeLine, mf |-> mf, mac |-> <<"hmac", HKDF("FK", "", "header"), <<SchemeLine, mf>>>>, segs |-> segs]
        /\ c' = Feed(c, <<[ev |-> "wrap", alg |-> seen, keyName |-> o.keyName, fkLen |-> 32]>>)
  /\ UNCHANGED <<o, ov, cache>>

UnwrapTerm(wfk, alg) == IF wfk[1] = "wrap" /\ wfk[2] = alg THEN wfk[3] ELSE "garbage"

(* what the implementation written from the README sees *)
Decompose ==
  /\ stage = "decompose"
  /\ LET fk == UnwrapTerm(doc.mf.wfk, AlgName(doc.mf.kw))
         segEv(j) == LET s == doc.segs[j] IN
            [ev |-> "seg", i |-> j - 1, clen |-> (s[5] - s[4]) + 1,
             opens |-> IF s[2] # HKDF(fk, doc.mf.np, "payload") \/ s[3][1] # doc.mf.np \/ s[3][2] # j - 1 THEN "none"
                       ELSE IF s[3][3] THEN "last" ELSE "notlast",
             plainOK |-> s[4] = (j - 1) * SS]
     IN c' = Feed(c, <<[ev |-> "doc", scheme |-> doc.scheme, lines |-> 3, compact |-> TRUE, required |-> TRUE,
                        hasK |-> doc.mf.k # "", k |-> doc.mf.k, kw |-> doc.mf.kw, cph |-> doc.mf.cph,
                        wfkOK |-> doc.mf.wfk[1] = "wrap" /\ doc.mf.wfk[3] = "FK", npLen |-> 7, macStd |-> TRUE, macLen |-> 32,
                        macOK |-> doc.mac = <<"hmac", HKDF(fk, "", "header"), <<doc.scheme, doc.mf>>>>,
                        payloadLen |-> o.len + Len(doc.segs)]>>
                     \o [j \in 1..Len(doc.segs) |-> segEv(j)])
  /\ stage' = "decrypt" /\ UNCHANGED <<o, ov, doc, cache>>

(* scheme.go:184-245; the document is decrypted twice through the same (caching) key provider *)
Decrypt ==
  /\ stage \in {"decrypt", "decrypt2"}
  /\ LET name == IF ov # "" THEN ov ELSE doc.mf.k
         alg  == AlgName(doc.mf.kw)
         fk   == IF cache = "intact" THEN UnwrapTerm(doc.mf.wfk, alg) ELSE "zeroed"      \* what the provider hands out
         ok   == doc.mac = <<"hmac", HKDF(fk, "", "header"), <<doc.scheme, doc.mf>>>> /\ HdrLen(doc.mf.k) <= HMax   \* readHeader reads one segment at most
         after == IF WipesKey /\ name # "" THEN "zeroed" ELSE cache
         fin  == IF stage = "decrypt2" THEN <<[ev |-> "end"]>> ELSE <<>>
     IN /\ cache' = after
        /\ c' = Feed(c, (IF name = "" THEN <<[ev |-> "dec", by |-> "real", override |-> ov, n |-> 0, equal |-> FALSE, term |-> "decrypt-err"]>>
                     ELSE <<[ev |-> "unwrap", override |-> ov, alg |-> alg, keyName |-> name],
                            [ev |-> "dec", by |-> "real", override |-> ov, n |-> IF ok THEN o.len ELSE 0, equal |-> ok,
                             term |-> IF ok THEN "eof" ELSE "decrypt-err"],
                            [ev |-> "keycheck", intact |-> after = "intact"]>>) \o fin)
  /\ stage' = (IF stage = "decrypt" THEN "decrypt2" ELSE "done") /\ UNCHANGED <<o, ov, doc>>

Next == Encrypt \/ Decompose \/ Decrypt
Spec == Init /\ [][Next]_vars
NotBad == ~IsBad(c)
(* wrap and unwrap see the same algorithm, whatever spelling the caller used *)
CacheIntact == cache = "intact"
WrapUnwrapAgree == (stage \in {"decompose", "decrypt", "decrypt2", "done"} /\ doc # <<>>) => doc.mf.wfk[2] = AlgName(doc.mf.kw)
=============================================================================
