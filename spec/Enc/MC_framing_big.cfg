SPECIFICATION Spec
CONSTANTS Sizes = {3, 4, 5} CSizes = {1, 2, 3, 4, 5, 6, 64} MaxZero = 2 Defect = "none"
INVARIANTS NotBad CleanMeansComplete CounterIsIndex
PROPERTY Terminates
CHECK_DEADLOCK FALSE
