SPECIFICATION Spec
CONSTANTS SS = 4 Lens = {0, 5} AliasFix = FALSE OmitFix = TRUE WipesKey = FALSE HdrLimit = "ok"
INVARIANTS NotBad
CHECK_DEADLOCK FALSE
