SPECIFICATION Spec
CONSTANTS SS = 4 Lens = {0, 5} AliasFix = FALSE OmitFix = TRUE HdrLimit = "ok"
INVARIANTS NotBad
CHECK_DEADLOCK FALSE
