SPECIFICATION Spec
CONSTANTS Sizes = {3} CSizes = {1, 5} MaxZero = 1 Defect = "small-counter-limit"
INVARIANTS NotBad
CHECK_DEADLOCK FALSE
