----------------------------- MODULE EncFraming -----------------------------
(* Implementation-shaped model of the segment loop shared by Encrypt and      *)
(* Decrypt (schemes/enc/v1/scheme.go processSegments:247-336) over POSITIONS: *)
(* the source holds bytes 0..len-1; the model tracks how many were read, how  *)
(* many sit in the buffer, the carry-over byte, the segment counter and the   *)
(* last flag.  It is composed with every legal io.Reader script of the source *)
(* (each Read(k) returns any c in 0..min(k, remaining); zero-length reads;    *)
(* EOF together with the last data or alone, sticky afterwards; a non-EOF     *)
(* error alone or together with data) and with a consumer of the io.Pipe that *)
(* reads in arbitrary chunk sizes.  Every observable step is shown to the     *)
(* monitor of EncFramingContract; the invariant is that it never goes bad.    *)
EXTENDS EncFramingContract, Integers, TLC

CONSTANTS Sizes,      \* segment sizes S explored; message lengths are 0..3S+1
          CSizes,     \* buffer sizes the consumer reads with
          MaxZero,    \* zero-length reads a source may return in total
          Defect      \* "none" | "swallow" (any read error is taken for EOF) | "nocarry" (carry-over byte dropped)
                      \* | "eager-last" (fills only S bytes; last decided by the EOF seen so far)
                      \* | "small-counter-limit" (the overflow guard of the 32-bit segment counter fires at the SECOND segment: the
                      \*   stream is refused as "too large" far below the documented limit of 2^32 segments)
                      \* | "empty-read-budget" (gives up with an error after 2 reads returning (0, nil) in the WHOLE stream:
                      \*   the counter of "consecutive" empty reads is never reset on progress)

VARIABLES S, len,                      \* configuration
          pos, seof, sfail, zeros, failOK,   \* source: bytes handed out, EOF returned, failed, zero reads left, may fail
          empties,                           \* loop: reads that returned (0, nil) so far (only used by the defect variant)
          n, bufFrom, carry, seg, done, err, \* loop: buffer fill, position of buf[0], hasCarryover, segment, done, err
          pc,                          \* "top" | "fill" | "decide" | "write" | "closed"
          pipeLeft, closed,            \* io.Pipe: bytes of the pending Write, "open" | "eof" | "err"
          cbuf, phase,                 \* consumer: buffer size, "reading" | "ended"
          c                            \* contract monitor
vars == <<S, len, pos, seof, sfail, zeros, failOK, empties, n, bufFrom, carry, seg, done, err, pc, pipeLeft, closed, cbuf, phase, c>>

RECURSIVE Feed(_, _)
Feed(cc, evs) == IF evs = <<>> THEN cc ELSE Feed(CNext(cc, Head(evs)), Tail(evs))

Target == IF Defect = "eager-last" THEN S ELSE S + 1     \* bytes the inner loop tries to have (scheme.go:279)

Init ==
  /\ S \in Sizes /\ len \in 0..(3 * S + 1)
  /\ pos = 0 /\ seof = FALSE /\ sfail = FALSE /\ zeros \in 0..MaxZero /\ failOK \in BOOLEAN
  /\ empties = 0
  /\ n = 0 /\ bufFrom = 0 /\ carry = FALSE /\ seg = 0 /\ done = FALSE /\ err = "nil"
  /\ pc = "top" /\ pipeLeft = 0 /\ closed = "open"
  /\ cbuf \in CSizes /\ phase = "reading"
  /\ c = CReset([S |-> S, len |-> len])

(* every result a legal io.Reader may give to Read(k): <<n, err, usesZero>> *)
SrcOutcomes(k) ==
  LET left == len - pos IN
  IF sfail THEN {<<0, "err", FALSE>>}
  ELSE IF seof THEN {<<0, "eof", FALSE>>}
  ELSE {<<m, "nil", FALSE>> : m \in 1..Min(k, left)}
       \cup (IF left >= 1 /\ left <= k THEN {<<left, "eof", FALSE>>} ELSE {})      \* the last data together with EOF
       \cup (IF left = 0 THEN {<<0, "eof", FALSE>>} ELSE {})                       \* EOF alone
       \cup (IF zeros > 0 THEN {<<0, "nil", TRUE>>} ELSE {})                       \* zero-length read
       \cup (IF failOK THEN {<<m, "err", FALSE>> : m \in 0..Min(k, left)} ELSE {}) \* error, alone or with data

(* scheme.go:262-271  n = 0; restore the carry-over byte *)
Top ==
  /\ pc = "top"
  /\ n' = IF carry /\ Defect # "nocarry" THEN 1 ELSE 0
  /\ bufFrom' = IF carry /\ Defect # "nocarry" THEN pos - 1 ELSE pos
  /\ carry' = FALSE /\ pc' = "fill"
  /\ UNCHANGED <<S, len, pos, seof, sfail, zeros, failOK, empties, seg, done, err, pipeLeft, closed, cbuf, phase, c>>

(* scheme.go:279-282  one in.Read(buf[n : segmentSize+1]) *)
Fill ==
  /\ pc = "fill" /\ n < Target /\ err = "nil"
  /\ \E o \in SrcOutcomes(Target - n) :
       /\ pos' = pos + o[1] /\ n' = n + o[1]
       /\ empties' = IF o[1] = 0 /\ o[2] = "nil" THEN empties + 1 ELSE empties
       /\ err' = IF Defect = "empty-read-budget" /\ o[1] = 0 /\ o[2] = "nil" /\ empties + 1 >= 2 THEN "err" ELSE o[2]
       /\ seof' = (seof \/ o[2] = "eof") /\ sfail' = (sfail \/ o[2] = "err")
       /\ zeros' = IF o[3] THEN zeros - 1 ELSE zeros
       /\ c' = Feed(c, <<[ev |-> "srcread", k |-> Target - n, n |-> o[1], err |-> o[2]]>>)
  /\ UNCHANGED <<S, len, failOK, bufFrom, carry, seg, done, pc, pipeLeft, closed, cbuf, phase>>

(* scheme.go:284-321  after the inner loop: error / carry-over / done / empty / processFn *)
Decide ==
  /\ pc = "fill" /\ ~(n < Target /\ err = "nil")
  /\ IF err = "err" /\ Defect # "swallow"
       THEN /\ closed' = "err" /\ pc' = "closed"                                   \* :286-290 CloseWithError(err)
            /\ UNCHANGED <<n, carry, done, pipeLeft, c>>
       ELSE LET over == (Defect # "eager-last") /\ n > S
                dn   == IF Defect = "eager-last" THEN err # "nil" ELSE ~over        \* :294-300
                nn   == IF over THEN n - 1 ELSE n IN
            /\ carry' = over /\ done' = dn /\ n' = nn
            /\ IF nn < S /\ ~dn THEN /\ closed' = "err" /\ pc' = "closed"           \* :304-307 (unreachable)
                                     /\ UNCHANGED <<pipeLeft, c>>
               ELSE IF nn = 0 THEN /\ closed' = (IF seg # 0 THEN "err" ELSE "eof")  \* :311-318
                                   /\ pc' = "closed" /\ UNCHANGED <<pipeLeft, c>>
               ELSE /\ pipeLeft' = nn /\ pc' = "write" /\ closed' = closed          \* :321 processFn -> out.Write
                    /\ c' = Feed(c, <<[ev |-> "emit", from |-> bufFrom, to |-> bufFrom + nn, num |-> seg,
                                       last |-> dn, ok |-> TRUE]>>)
  /\ UNCHANGED <<S, len, pos, seof, sfail, zeros, failOK, empties, bufFrom, seg, err, cbuf, phase>>

(* the pipe Write returned: err = nil, segment++, loop or close (:321-335) *)
Written ==
  /\ pc = "write" /\ pipeLeft = 0
  /\ err' = "nil" /\ seg' = seg + 1
  /\ IF done THEN closed' = "eof" /\ pc' = "closed"
     ELSE IF Defect = "small-counter-limit" /\ seg = 1 THEN closed' = "err" /\ pc' = "closed"      \* :333-337 (real guard: 2^32-1, unreachable here)
     ELSE closed' = closed /\ pc' = "top"
  /\ UNCHANGED <<S, len, pos, seof, sfail, zeros, failOK, empties, n, bufFrom, carry, done, pipeLeft, cbuf, phase, c>>

(* consumer: one Read(cbuf) on the pipe *)
ConsumerRead ==
  /\ phase = "reading" /\ pipeLeft > 0
  /\ LET m == Min(cbuf, pipeLeft) IN
       /\ pipeLeft' = pipeLeft - m
       /\ c' = Feed(c, <<[ev |-> "read", k |-> cbuf, n |-> m, err |-> "nil", ok |-> TRUE]>>)
  /\ UNCHANGED <<S, len, pos, seof, sfail, zeros, failOK, empties, n, bufFrom, carry, seg, done, err, pc, closed, cbuf, phase>>

ConsumerEnd ==
  /\ phase = "reading" /\ pc = "closed" /\ pipeLeft = 0
  /\ phase' = "ended"
  /\ c' = Feed(c, <<[ev |-> "read", k |-> cbuf, n |-> 0, err |-> IF closed = "eof" THEN "eof" ELSE "srcerr", ok |-> TRUE],
                    [ev |-> "end"]>>)
  /\ UNCHANGED <<S, len, pos, seof, sfail, zeros, failOK, empties, n, bufFrom, carry, seg, done, err, pc, pipeLeft, closed, cbuf>>

Next == Top \/ Fill \/ Decide \/ Written \/ ConsumerRead \/ ConsumerEnd
Spec == Init /\ [][Next]_vars /\ WF_vars(Next)

NotBad == ~IsBad(c)
(* the loop's own view agrees with the law when it closes cleanly *)
CleanMeansComplete == (pc = "closed" /\ closed = "eof") => (seg = NumChunks(len, S) /\ pos = len /\ ~sfail)
CounterIsIndex == c.bad \/ pc = "write" \/ c.emitted = seg
Terminates == <>(phase = "ended")
=============================================================================
