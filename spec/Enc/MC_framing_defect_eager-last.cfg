SPECIFICATION Spec
CONSTANTS Sizes = {3} CSizes = {1, 5} MaxZero = 1 Defect = "eager-last"
INVARIANTS NotBad
CHECK_DEADLOCK FALSE
