SPECIFICATION Spec
CONSTANTS Positions <- AllPositions Defect = "wrap24"
INVARIANTS FormatHolds BindingHolds
CHECK_DEADLOCK FALSE
