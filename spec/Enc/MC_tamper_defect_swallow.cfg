SPECIFICATION Spec
CONSTANTS MaxSegs = 3 MaxOps = 0 MaxOpsFail = 0 Defect = "swallow" Export = FALSE
INVARIANTS OnlyNamedDeviation
CONSTRAINT ExportScripts
CHECK_DEADLOCK FALSE
