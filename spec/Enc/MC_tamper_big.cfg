SPECIFICATION Spec
CONSTANTS MaxSegs = 3 MaxOps = 3 MaxOpsFail = 2 Defect = "none" Export = FALSE
INVARIANTS OnlyNamedDeviation ReleasedIsPrefix CleanMeansEqual SourceErrorSurfaces CacheIntact
CONSTRAINT ExportScripts
CHECK_DEADLOCK FALSE
