------------------------------ MODULE TraceCron ------------------------------
(* Validates recorded calls of the real cron parser / schedules against the *)
(* C04 contract.  trace.ndjson holds many runs; a run is a "reset" line (one *)
(* Parse call) followed by "next" lines (a walk of Next calls on the         *)
(* schedule it returned).  Every run is its own behaviour (one initial state *)
(* per run); the monitor is deterministic.                                   *)
EXTENDS CronContract, TraceLib

Trace == LoadTrace("trace.ndjson")
Starts == {i \in 1..Len(Trace) : Trace[i].ev = "reset"}
VARIABLES l, c, start
TInit == l \in Starts /\ c = CReset(Trace[l]) /\ start = l
TNext == /\ ~IsBad(c)
         /\ l + 1 <= Len(Trace)
         /\ Trace[l + 1].ev # "reset"
         /\ c' = CNext(c, Trace[l + 1], Trace[start].zt)
         /\ l' = l + 1
         /\ start' = start
TSpec == TInit /\ [][TNext]_<<l, c, start>>
Report == IF IsBad(c) THEN RejectLine(l, c.why) ELSE TRUE
=============================================================================
