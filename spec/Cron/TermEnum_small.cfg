SPECIFICATION Spec
CONSTANT Size = "small"
CONSTRAINT Emit
CHECK_DEADLOCK FALSE
