------------------------------ MODULE Calendar ------------------------------
(* The proleptic Gregorian calendar, written from its definition.            *)
(* Day 0 is 2000-01-01 (a Saturday).  Instants are whole seconds since       *)
(* 2000-01-01T00:00:00Z ("u"); a wall-clock reading is u + offset ("w"),     *)
(* split into a day number w \div 86400 and a second of the day.  TLC's      *)
(* integers are 32 bit, which covers 1932 .. 2068 on this epoch.             *)
EXTENDS Integers

EpochYear == 2000
IsLeap(y) == (y % 4 = 0 /\ y % 100 # 0) \/ y % 400 = 0
MonthLen(y, m) == IF m \in {1, 3, 5, 7, 8, 10, 12} THEN 31
                  ELSE IF m \in {4, 6, 9, 11} THEN 30
                  ELSE IF IsLeap(y) THEN 29 ELSE 28

(* leap years among 1 .. y-1 *)
LeapsBefore(y) == (y - 1) \div 4 - (y - 1) \div 100 + (y - 1) \div 400
DaysBeforeYear(y) == 365 * (y - EpochYear) + LeapsBefore(y) - LeapsBefore(EpochYear)

RECURSIVE DaysBeforeMonth(_, _)
DaysBeforeMonth(y, m) == IF m = 1 THEN 0 ELSE DaysBeforeMonth(y, m - 1) + MonthLen(y, m - 1)

DaysFromCivil(y, m, d) == DaysBeforeYear(y) + DaysBeforeMonth(y, m) + (d - 1)

(* the inverse, by its defining property (z >= 0) *)
YearOfDay(z) == LET e == EpochYear + z \div 365
                IN CHOOSE y \in (e - 1)..(e + 1) : DaysBeforeYear(y) <= z /\ z < DaysBeforeYear(y + 1)
Civil(z) == LET y == YearOfDay(z)
                doy == z - DaysBeforeYear(y)
                m == CHOOSE mm \in 1..12 : DaysBeforeMonth(y, mm) <= doy /\ doy < DaysBeforeMonth(y, mm) + MonthLen(y, mm)
            IN [y |-> y, m |-> m, d |-> doy - DaysBeforeMonth(y, m) + 1]

(* 0 = Sunday .. 6 = Saturday *)
DayOfWeek(z) == (z + 6) % 7

FirstOfNextMonth(y, m) == IF m = 12 THEN DaysFromCivil(y + 1, 1, 1) ELSE DaysFromCivil(y, m + 1, 1)
=============================================================================
