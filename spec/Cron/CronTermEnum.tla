---------------------------- MODULE CronTermEnum ----------------------------
(* Spec -> code: TLC enumerates the single-term grammar of every field      *)
(* exhaustively - every a, a-b, a-b/s, a/s, */s (and *, ?) over numbers from *)
(* below the minimum to above the maximum, every name of the field, names of *)
(* other fields, unknown words, non-numeric text, zero / negative / non-     *)
(* numeric steps - and prints, for each term, why it has no meaning or the   *)
(* set it stands for.  The harness replays every printed term on the real    *)
(* parser.                                                                   *)
EXTENDS CronField

CONSTANT Size   \* "small" | "big"
Big == Size = "big"

Word(w) == [n |-> 0, w |-> w]
BigField(f) == Hi[f] > 31
Nums(f) == IF BigField(f) /\ ~Big THEN {-1, 0, 1, 2, 3, 7, 29, 30, 31, 57, 58, 59, 60, 61}
           ELSE (Lo[f] - 2)..(Hi[f] + 2)
Junk(f) == {"foo", "1x", "1.5"} \cup (IF f # 5 THEN {"jan", "dec"} ELSE {}) \cup (IF f # 6 THEN {"mon", "sun"} ELSE {})
Atoms(f) == {Num(n) : n \in Nums(f)} \cup {Word(w) : w \in NameSet(f) \cup Junk(f)}
StepNums(f) == IF BigField(f) THEN (IF Big THEN {0, 1, 2, 3, 4, 5, 6, 7, 10, 12, 15, 20, 29, 30, 31, 58, 59, 60, 61, 100}
                                           ELSE {0, 1, 2, 7, 15, 30, 59, 60, 61})
               ELSE IF Big \/ Hi[f] < 20 THEN 0..(Hi[f] + 2)
               ELSE {0, 1, 2, 3, 5, 7, Hi[f] - 1, Hi[f], Hi[f] + 1}
Steps(f) == {Num(n) : n \in StepNums(f) \cup {-1}} \cup {Word("x"), Word("mon")}

T(k, a, b, s) == [k |-> k, a |-> a, b |-> b, s |-> s]
Terms(f) == {T("star", NoAtom, NoAtom, NoAtom)}
            \cup (IF f \in {4, 6} THEN {T("qmark", NoAtom, NoAtom, NoAtom)} ELSE {})
            \cup {T("one", a, NoAtom, NoAtom) : a \in Atoms(f)}
            \cup {T("range", a, b, NoAtom) : a \in Atoms(f), b \in Atoms(f)}
            \cup {T("rstep", a, b, s) : a \in Atoms(f), b \in Atoms(f), s \in Steps(f)}
            \cup {T("from", a, NoAtom, s) : a \in Atoms(f), s \in Steps(f)}
            \cup {T("starstep", NoAtom, NoAtom, s) : s \in Steps(f)}

VARIABLES f, t
Init == f \in 1..6 /\ t \in Terms(f)
Next == FALSE /\ UNCHANGED <<f, t>>
Spec == Init /\ [][Next]_<<f, t>>

(* one line per term: T|field|kind|a.n|a.w|b.n|b.w|s.n|s.w|defect|set|star *)
Emit == LET d == TermDefect(t, f) IN
        PrintT("T|" \o ToString(f) \o "|" \o t.k \o "|" \o ToString(t.a.n) \o "|" \o t.a.w \o "|" \o ToString(t.b.n) \o "|" \o t.b.w
               \o "|" \o ToString(t.s.n) \o "|" \o t.s.w \o "|" \o d \o "|"
               \o (IF d = "" THEN ToString(TermSet(t, f)) ELSE "") \o "|" \o (IF d = "" THEN Star3(<<t>>, f) ELSE ""))
=============================================================================
