----------------------------- MODULE CronNextMC -----------------------------
(* Self-consistency of the oracle: for every schedule of a small family,    *)
(* every synthetic zone (each kind of transition: 1 h gap / overlap at 02:00 *)
(* and at midnight, 30 min gap / overlap, a skipped calendar day, a fixed    *)
(* +05:30 offset) and start instants around the transition, the interval-wise *)
(* NextUpTo equals the second-by-second definition BruteNext, and the        *)
(* calendar functions are mutually inverse.  With Variant # "ok" NextUpTo    *)
(* has a planted slip and the check must fail (MC_defect.cfg).               *)
EXTENDS CronNext, TLC

CONSTANT Size         \* "small" | "big"

Big == Size = "big"
Window == IF Big THEN 12000 ELSE 6000         \* seconds searched after t
LongWindow == IF Big THEN 100000 ELSE 15000
Deltas == {-3700, -1801, -1, 0, 1799, 3600}
          \cup (IF Big THEN {-86400, -80000, -7000, -3599, -61, 1, 60, 1800, 3599, 5400} ELSE {})
Secs == {{0}, {7, 30}} \cup (IF Big THEN {0..59} ELSE {})
Mins == {{0}, {15}, {20, 50}} \cup (IF Big THEN {{29, 30, 31}} ELSE {})
Hours == {{2}, {1, 3}, 0..23} \cup (IF Big THEN {{0}, {23}} ELSE {})
(* <<day-of-month set, day-of-week set, rule>>; 2024-03-10 is a Sunday *)
Days == {<<1..31, 0..6, "and">>, <<{10}, 0..6, "and">>, <<{11}, {0}, "or">>, <<1..31, {1}, "and">>}
        \cup (IF Big THEN {<<{9, 11}, {3}, "or">>, <<{31}, 0..6, "and">>, <<{10}, {1}, "and">>} ELSE {})

ED == DaysFromCivil(2023, 1, 1)        \* the epoch of the instants below (a run's epoch is 1 January of some year)
B == DaysFromCivil(2024, 3, 10) - ED   \* 2024-03-10, a Sunday, relative to the epoch
Z(x, o1, o2) == <<[from |-> x - 3 * Day, to |-> x, off |-> o1], [from |-> x, to |-> x + 4 * Day, off |-> o2]>>
Zones == { Z(B * Day + 7200 + 18000, -18000, -14400),   \* 02:00 -> 03:00
           Z(B * Day + 7200 + 14400, -14400, -18000),   \* 02:00 -> 01:00
           Z(B * Day + 10800, -10800, -7200),           \* 00:00 -> 01:00
           Z(B * Day + 3600 + 14400, -14400, -18000),   \* 01:00 -> 00:00
           Z(B * Day + 7200 - 39600, 39600, 37800),     \* 02:00 -> 01:30
           Z(B * Day + 7200 - 37800, 37800, 39600),     \* 02:00 -> 02:30
           Z(B * Day + 36000, -36000, 50400),           \* 24:00 -> 24:00 next day (a day is skipped)
           Z(B * Day, 19800, 19800) }                   \* +05:30, no transition

(* staged so that the expensive comparison is evaluated by the workers, not *)
(* while computing initial states: pick the zone, then the schedule, then t *)
VARIABLES stage, zt, S, rule, t
vars == <<stage, zt, S, rule, t>>
Init == stage = 0 /\ zt \in Zones /\ S = <<>> /\ rule = "" /\ t = 0
PickSched == /\ stage = 0 /\ stage' = 1 /\ UNCHANGED <<zt, t>>
             /\ \E s \in Secs, m \in Mins, h \in Hours, d \in Days :
                  /\ S' = <<s, m, h, d[1], 1..12, d[2]>> /\ rule' = d[3]
PickStart == /\ stage = 1 /\ stage' = 2 /\ UNCHANGED <<zt, S, rule>>
             /\ \E dl \in Deltas : t' = zt[2].from + dl
Next == PickSched \/ PickStart
Spec == Init /\ [][Next]_vars

(* a long window (day roll-over, the skipped day) for the minute-sparse schedules, a short one otherwise *)
W == IF S[1] = {0} /\ S[2] = {0} THEN LongWindow ELSE Window
Agree == stage = 2 => NextUpTo(S, rule, ED, zt, t, t + W) = BruteNext(S, rule, ED, zt, t, t + W)

(* calendar round trip on the days the zones touch, and two anchors *)
CalendarOK == /\ \A z \in (ED + B - 400)..(ED + B + 400) \cup (36000..37300) \cup (72600..73800) \cup ((0 - 37300)..(0 - 35000)) : LET c == Civil(z) IN DaysFromCivil(c.y, c.m, c.d) = z /\ c.d >= 1 /\ c.d <= MonthLen(c.y, c.m)
              /\ Civil(0) = [y |-> 2000, m |-> 1, d |-> 1] /\ DayOfWeek(0) = 6
              /\ DaysFromCivil(2024, 2, 29) + 1 = DaysFromCivil(2024, 3, 1)
              /\ DaysFromCivil(2038, 1, 19) = 13898 /\ DayOfWeek(13898) = 2
              /\ DaysFromCivil(2012, 2, 29) = 4442
              /\ ~IsLeap(2100) /\ ~IsLeap(2200) /\ IsLeap(2096) /\ IsLeap(2104) /\ IsLeap(2000)
              /\ DaysFromCivil(2100, 3, 1) = DaysFromCivil(2100, 2, 28) + 1
              /\ DaysFromCivil(2100, 1, 1) = 36525 /\ DayOfWeek(36525) = 5      \* a Friday
              /\ DaysFromCivil(2200, 1, 1) = 73049 /\ DayOfWeek(73049) = 3      \* a Wednesday
              /\ ~IsLeap(1900) /\ IsLeap(1896) /\ IsLeap(1904)
              /\ DaysFromCivil(1900, 1, 1) = 0 - 36524 /\ DayOfWeek(0 - 36524) = 1   \* a Monday
              /\ Civil(0 - 36524) = [y |-> 1900, m |-> 1, d |-> 1] /\ Civil(0 - 36525) = [y |-> 1899, m |-> 12, d |-> 31]
              /\ FiveYearsOn(DaysFromCivil(2099, 1, 1), 151 * Day + 5) = (DaysFromCivil(2104, 6, 1) - DaysFromCivil(2099, 1, 1)) * Day + 5
ASSUME CalendarOK

(* the month-by-month search against a day-by-day definition, over long stretches of a fixed-offset zone   *)
(* (schedules firing at midnight only, so that a day either matches or not): month ends, leap days, the    *)
(* centuries 1900 / 2100 without 29 February, both day rules                                              *)
DayScanOK ==
  \A y0 \in {1899, 2023, 2099} :
    LET ed == DaysFromCivil(y0, 1, 1)
        zz == <<[from |-> 0, to |-> 2000 * Day, off |-> 19800]>>
    IN \A d \in {<<{31}, 0..6, "and">>, <<{29}, 0..6, "and">>, <<{30}, {1}, "or">>, <<1..31, {0}, "and">>} \cup (IF Big THEN {<<1..31, 0..6, "and">>, <<{29, 30}, {6}, "or">>} ELSE {}) :
       \A mo \in {1..12, {2}, {4, 6, 9, 11}} \cup (IF Big THEN {{2, 12}} ELSE {}) :
       \A t0 \in {58 * Day + 86399, 364 * Day + 50000, 425 * Day} \cup (IF Big THEN {40 * Day + 7, 200 * Day} ELSE {}) :
         LET SS == <<{0}, {0}, {0}, d[1], mo, d[2]>>
             M == {D \in 0..1900 : D * Day - 19800 > t0 /\ MatchesWall(SS, d[3], ed, D * Day)}
         IN NextUpTo(SS, d[3], ed, zz, t0, 1900 * Day) = IF M = {} THEN None ELSE MinOf(M) * Day - 19800
ASSUME DayScanOK
=============================================================================
