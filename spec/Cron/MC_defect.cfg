SPECIFICATION Spec
CONSTANTS
  Variant = "noMinuteCarry"
  Size = "small"
INVARIANT Agree
CHECK_DEADLOCK FALSE
