SPECIFICATION TSpec
CONSTANT Variant = "ok"
CONSTRAINT Report
CHECK_DEADLOCK FALSE
