SPECIFICATION Spec
CONSTANTS
  Variant = "ok"
  Size = "big"
INVARIANT Agree
CHECK_DEADLOCK FALSE
