---------------------------- MODULE CronContract ----------------------------
(* C04 - the property as a monitor over observed calls of the real package.  *)
(* One run = one expression:                                                 *)
(*  reset  the expression as an AST (x: see CronField!Meaning), what Parse   *)
(*         returned (out), and the zone table zt of the zone the schedule is *)
(*         to be read in, covering every instant the run touches + 5 years   *)
(*    out: [kind |-> "error"] | [kind |-> "panic"]                           *)
(*       | [kind |-> "spec", bits |-> <<6 x [v |-> <<members>>, star>>]      *)
(*       | [kind |-> "every", delaysec, delayns]                             *)
(*  next   t (whole seconds of the start instant; its nanoseconds do not     *)
(*         matter for "strictly after": the answer is a whole second), and   *)
(*         what Next returned: zero, or r/rns, wall = Go's wall-clock        *)
(*         reading of r in the schedule's zone (cross-checks Calendar.tla);  *)
(*         hang = the call did not return; far = r lies outside the table    *)
(* All instants of a run are whole seconds since 00:00 UTC on 1 January of   *)
(* the run's epochYear (reset line), so any century can be judged with 32 bit *)
(* integers.                                                                 *)
(* The monitor state carries the schedule's meaning computed by the spec     *)
(* from the AST, never the sets the implementation computed.                 *)
EXTENDS CronField, CronNext

Bad(why) == [bad |-> TRUE, why |-> why, kind |-> "none"]
IsBad(c) == c.bad
Range(s) == {s[i] : i \in 1..Len(s)}

EpochDay(e) == DaysFromCivil(e.epochYear, 1, 1)

CReset(e) ==
  LET m == Meaning(e.x)  o == e.out IN
  IF m.kind = "any" THEN [bad |-> FALSE, why |-> "", kind |-> IF o.kind = "panic" THEN "none" ELSE "anyspec"]
  ELSE IF o.kind = "panic" THEN Bad("parse: panic")
  ELSE IF m.kind = "refuse" THEN
       IF o.kind = "error" THEN [bad |-> FALSE, why |-> "", kind |-> "none"]
       ELSE Bad("parse: accepted although " \o m.why)
  ELSE IF o.kind = "error" THEN Bad("parse: well-formed expression refused")
  ELSE IF m.kind = "every" THEN
       IF o.kind # "every" THEN Bad("parse: @every gave a calendar schedule")
       ELSE IF o.delaysec # m.delay \/ o.delayns # 0 THEN Bad("parse: @every delay is not max(1s, d truncated to the second)")
       ELSE [bad |-> FALSE, why |-> "", kind |-> "every", delay |-> m.delay]
  ELSE IF o.kind # "spec" THEN Bad("parse: calendar expression gave a constant delay")
  ELSE LET wrong == {f \in 1..6 : Range(o.bits[f].v) # m.set[f]}
           wstar == {f \in {4, 6} : (m.star[f] = "yes" /\ ~o.bits[f].star) \/ (m.star[f] = "no" /\ o.bits[f].star)}
       IN IF wrong # {} THEN Bad("parse: wrong value set for " \o FieldName[CHOOSE f \in wrong : \A g \in wrong : f <= g])
          ELSE IF wstar # {} THEN Bad("parse: wrong star flag for " \o FieldName[CHOOSE f \in wstar : \A g \in wstar : f <= g])
          ELSE [bad |-> FALSE, why |-> "", kind |-> "spec", set |-> m.set, rules |-> DayRules(m), ed |-> EpochDay(e)]

(* verdict of one Next call under one day rule: "" = as stated; otherwise    *)
(* "next: <class>; detail" with class one of                                 *)
(*   zero-although-match-exists   the zero time, but something matches within five years *)
(*   result-does-not-match:<f>    the result violates field f (month, dom-dow, hour, minute, second: the coarsest) *)
(*   skipped-earlier-match        the result matches, but so does an earlier instant after t *)
(* The zero time is acceptable only when nothing matches within five years of t (wall clock of the zone);   *)
(* any other answer, however far, must be the earliest match after t.                                      *)
Judge(S, rule, ed, zt, e) ==
  LET wl == FiveYearsOn(ed, e.t + OffsetAt(zt, e.t))
      far == MinI(wl + Day - MinI(0, zt[Len(zt)].off), zt[Len(zt)].to - 1)   \* every instant whose reading can be <= wl
      n == NextUpTo(S, rule, ed, zt, e.t, IF e.zero THEN far ELSE e.r)
  IN
  IF e.zero THEN IF n = None \/ n + OffsetAt(zt, n) > wl THEN ""
                 ELSE "next: zero-although-match-exists; first match " \o ToString(n)
  ELSE IF n = e.r THEN ""
  ELSE LET v == Violated(S, rule, ed, e.r + OffsetAt(zt, e.r)) IN
       IF v = "" THEN IF n # None THEN "next: skipped-earlier-match " \o ToString(n) ELSE "SPEC-INCONSISTENT"
       ELSE "next: result-does-not-match:" \o v \o "; first match " \o
            ToString(IF n # None THEN n ELSE NextUpTo(S, rule, ed, zt, e.t, far))

CNext(c, e, zt) ==
  IF c.kind = "none" THEN c
  ELSE IF c.kind = "anyspec" THEN IF e.hang THEN Bad("next: hang") ELSE c   \* undocumented but accepted: Next must at least return
  ELSE IF e.hang THEN Bad("next: hang")
  ELSE IF c.kind = "every" THEN
       IF ~e.zero /\ e.r = e.t + c.delay /\ e.rns = 0 THEN c
       ELSE Bad("next: every-wrong; expected " \o ToString(e.t + c.delay))
  ELSE IF e.far THEN Bad("next: result-out-of-range")
  ELSE IF ~e.zero /\ e.rns # 0 THEN Bad("next: result-not-whole-second")
  ELSE IF ~e.zero /\ e.r <= e.t THEN Bad("next: result-not-after-t")
  ELSE IF ~e.zero /\ WallOf(c.ed, zt, e.r) # e.wall THEN Bad("SPEC-CALENDAR-MISMATCH")
  ELSE LET js == {Judge(c.set, rule, c.ed, zt, e) : rule \in c.rules} IN
       (* both readings of an unsettled day rule are accepted; if neither holds, report the milder failure *)
       IF "" \in js THEN c
       ELSE IF Judge(c.set, "or", c.ed, zt, e) \in js /\ "or" \in c.rules THEN Bad(Judge(c.set, "or", c.ed, zt, e))
       ELSE Bad(CHOOSE j \in js : TRUE)
=============================================================================
