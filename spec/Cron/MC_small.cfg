SPECIFICATION Spec
CONSTANTS
  Variant = "ok"
  Size = "small"
INVARIANT Agree
CHECK_DEADLOCK FALSE
