SPECIFICATION Spec
CONSTANT Size = "big"
CONSTRAINT Emit
CHECK_DEADLOCK FALSE
