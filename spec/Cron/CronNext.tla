------------------------------ MODULE CronNext ------------------------------
(* C04 - "the earliest whole second strictly after t whose wall-clock fields *)
(* satisfy the expression".                                                  *)
(*                                                                           *)
(* A schedule is S = <<sec, min, hour, dom, month, dow>> (sets of numbers)   *)
(* plus a day rule: "and" (a day must satisfy both day fields: one of them   *)
(* is a star) or "or" (either may match: both are restricted).               *)
(* A time zone is DATA: zt, a sequence of [from, to, off]: during the        *)
(* instants from <= u < to the wall clock reads u + off.  The intervals are  *)
(* contiguous and ascending (exported from tzdata by the harness).           *)
(*                                                                           *)
(* Two definitions:                                                          *)
(*  - Matches / BruteNext: the statement itself, second by second;           *)
(*  - NextUpTo: the same answer computed interval by interval (inside one    *)
(*    interval the wall clock is regular, so the first matching second is    *)
(*    found by plain rounding of day / hour / minute / second, no DST        *)
(*    reasoning).  CronNextMC checks that the two agree.                     *)
(* Neither follows the implementation's month->day->hour->... walk.          *)
EXTENDS Calendar, Sequences, FiniteSets

CONSTANT Variant     \* "ok"; anything else plants a slip in NextUpTo (shows CronNextMC is not vacuous)

None == -1
Day == 86400
MinOf(X) == CHOOSE v \in X : \A w \in X : v <= w
MaxI(a, b) == IF a >= b THEN a ELSE b
MinI(a, b) == IF a <= b THEN a ELSE b

(* ---- the statement ---- *)
OffsetAt(zt, u) == zt[CHOOSE i \in 1..Len(zt) : zt[i].from <= u /\ u < zt[i].to].off
DayOK(S, rule, d, wd) == IF rule = "and" THEN d \in S[4] /\ wd \in S[6] ELSE d \in S[4] \/ wd \in S[6]
MatchesWall(S, rule, w) ==
  LET tod == w % Day IN
  /\ (tod % 60) \in S[1]
  /\ ((tod \div 60) % 60) \in S[2]
  /\ (tod \div 3600) \in S[3]
  /\ LET c == Civil(w \div Day) IN c.m \in S[5] /\ DayOK(S, rule, c.d, DayOfWeek(w \div Day))
Matches(S, rule, zt, u) == MatchesWall(S, rule, u + OffsetAt(zt, u))
BruteNext(S, rule, zt, t, limit) ==
  LET M == {u \in (t + 1)..limit : Matches(S, rule, zt, u)} IN IF M = {} THEN None ELSE MinOf(M)

(* wall-clock reading of an instant, for cross-checking the calendar against Go's *)
WallOf(zt, u) == LET w == u + OffsetAt(zt, u)  c == Civil(w \div Day)  tod == w % Day
                 IN <<c.y, c.m, c.d, tod \div 3600, (tod \div 60) % 60, tod % 60, DayOfWeek(w \div Day)>>

(* ---- the same, computed per constant-offset interval ---- *)
LeastGE(X, x) == IF \E v \in X : v >= x THEN MinOf({v \in X : v >= x}) ELSE None
(* earliest second of the day >= lb (0 <= lb < 86400) whose hour, minute and second are allowed *)
FirstTOD(S, lb) ==
  LET h0 == lb \div 3600  m0 == (lb \div 60) % 60  s0 == lb % 60
      a == IF h0 \in S[3] /\ m0 \in S[2] THEN LeastGE(S[1], s0) ELSE None
      b == IF h0 \in S[3] /\ Variant = "ok" THEN LeastGE(S[2], m0 + 1) ELSE None
      c == LeastGE(S[3], h0 + 1)
  IN IF a # None THEN h0 * 3600 + m0 * 60 + a
     ELSE IF b # None THEN h0 * 3600 + b * 60 + MinOf(S[1])
     ELSE IF c # None THEN c * 3600 + MinOf(S[2]) * 60 + MinOf(S[1])
     ELSE None

(* earliest matching wall-clock second w with wa <= w <= wb, scanning days from D *)
RECURSIVE ScanDays(_, _, _, _, _)
ScanDays(S, rule, D, wa, wb) ==
  IF D * Day > wb THEN None
  ELSE LET c == Civil(D) IN
       IF c.m \notin S[5] THEN ScanDays(S, rule, FirstOfNextMonth(c.y, c.m), wa, wb)
       ELSE IF ~DayOK(S, rule, c.d, DayOfWeek(D)) THEN ScanDays(S, rule, D + 1, wa, wb)
       ELSE LET tod == FirstTOD(S, IF D * Day < wa THEN wa - D * Day ELSE 0) IN
            IF tod # None /\ D * Day + tod <= wb THEN D * Day + tod
            ELSE ScanDays(S, rule, D + 1, wa, wb)

(* earliest matching instant u with lo <= u <= limit, scanning intervals from i *)
RECURSIVE ScanZones(_, _, _, _, _, _)
ScanZones(S, rule, zt, i, lo, limit) ==
  IF i > Len(zt) THEN None
  ELSE IF zt[i].from > limit THEN None
  ELSE IF zt[i].to <= lo THEN ScanZones(S, rule, zt, i + 1, lo, limit)
  ELSE LET off == zt[i].off
           wa == MaxI(lo, zt[i].from) + off
           wb == MinI(limit, zt[i].to - 1) + off
           w == ScanDays(S, rule, wa \div Day, wa, wb)
       IN IF w # None THEN w - off ELSE ScanZones(S, rule, zt, i + 1, lo, limit)

(* the earliest matching instant in (t, limit], or None *)
NextUpTo(S, rule, zt, t, limit) == IF \A f \in 1..6 : S[f] # {} THEN ScanZones(S, rule, zt, 1, t + 1, limit) ELSE None

FiveYears == 1825 * Day   \* anything this close must be found; beyond it the zero time is also acceptable
=============================================================================
