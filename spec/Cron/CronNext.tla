------------------------------ MODULE CronNext ------------------------------
(* C04 - "the earliest whole second strictly after t whose wall-clock fields *)
(* satisfy the expression".                                                  *)
(*                                                                           *)
(* A schedule is S = <<sec, min, hour, dom, month, dow>> (sets of numbers)   *)
(* plus a day rule: "and" (a day must satisfy both day fields: one of them   *)
(* is a star) or "or" (either may match: both are restricted).               *)
(* A time zone is DATA: zt, a sequence of [from, to, off]: during the        *)
(* instants from <= u < to the wall clock reads u + off.  The intervals are  *)
(* contiguous and ascending (exported from tzdata by the harness).           *)
(*                                                                           *)
(* Two definitions:                                                          *)
(*  - Matches / BruteNext: the statement itself, second by second;           *)
(*  - NextUpTo: the same answer computed interval by interval (inside one    *)
(*    interval the wall clock is regular, so the first matching second is    *)
(*    found by plain rounding of day / hour / minute / second, no DST        *)
(*    reasoning).  CronNextMC checks that the two agree.                     *)
(* Neither follows the implementation's month->day->hour->... walk.          *)
EXTENDS Calendar, Sequences, FiniteSets

CONSTANT Variant     \* "ok"; anything else plants a slip in NextUpTo (shows CronNextMC is not vacuous)

None == -1
Day == 86400
MinOf(X) == CHOOSE v \in X : \A w \in X : v <= w
MaxI(a, b) == IF a >= b THEN a ELSE b
MinI(a, b) == IF a <= b THEN a ELSE b

(* ---- the statement ---- *)
OffsetAt(zt, u) == zt[CHOOSE i \in 1..Len(zt) : zt[i].from <= u /\ u < zt[i].to].off
DayOK(S, rule, d, wd) == IF rule = "and" THEN d \in S[4] /\ wd \in S[6] ELSE d \in S[4] \/ wd \in S[6]
(* Instants and wall-clock readings are seconds relative to the run's epoch  *)
(* (00:00 UTC on 1 January of its epoch year); ed is the epoch's day number  *)
(* on the absolute calendar (days since 2000-01-01), so leap years stay      *)
(* absolute while the seconds stay small (TLC integers are 32 bit).          *)
MatchesWall(S, rule, ed, w) ==
  LET tod == w % Day
      D == ed + w \div Day
  IN
  /\ (tod % 60) \in S[1]
  /\ ((tod \div 60) % 60) \in S[2]
  /\ (tod \div 3600) \in S[3]
  /\ LET c == Civil(D) IN c.m \in S[5] /\ DayOK(S, rule, c.d, DayOfWeek(D))
Matches(S, rule, ed, zt, u) == MatchesWall(S, rule, ed, u + OffsetAt(zt, u))
BruteNext(S, rule, ed, zt, t, limit) ==
  LET M == {u \in (t + 1)..limit : Matches(S, rule, ed, zt, u)} IN IF M = {} THEN None ELSE MinOf(M)

(* the coarsest field a wall-clock reading violates ("" = it matches) *)
Violated(S, rule, ed, w) ==
  LET tod == w % Day
      D == ed + w \div Day
      c == Civil(D)
  IN
  IF c.m \notin S[5] THEN "month"
  ELSE IF ~DayOK(S, rule, c.d, DayOfWeek(D)) THEN "dom-dow"
  ELSE IF (tod \div 3600) \notin S[3] THEN "hour"
  ELSE IF ((tod \div 60) % 60) \notin S[2] THEN "minute"
  ELSE IF (tod % 60) \notin S[1] THEN "second"
  ELSE ""

(* wall-clock reading of an instant, for cross-checking the calendar against Go's *)
WallOf(ed, zt, u) == LET w == u + OffsetAt(zt, u)
                         D == ed + w \div Day
                         c == Civil(D)
                         tod == w % Day
                     IN <<c.y, c.m, c.d, tod \div 3600, (tod \div 60) % 60, tod % 60, DayOfWeek(D)>>

(* ---- the same, computed per constant-offset interval ---- *)
LeastGE(X, x) == IF \E v \in X : v >= x THEN MinOf({v \in X : v >= x}) ELSE None
(* earliest second of the day >= lb (0 <= lb < 86400) whose hour, minute and second are allowed *)
FirstTOD(S, lb) ==
  LET h0 == lb \div 3600  m0 == (lb \div 60) % 60  s0 == lb % 60
      a == IF h0 \in S[3] /\ m0 \in S[2] THEN LeastGE(S[1], s0) ELSE None
      b == IF h0 \in S[3] /\ Variant = "ok" THEN LeastGE(S[2], m0 + 1) ELSE None
      c == LeastGE(S[3], h0 + 1)
  IN IF a # None THEN h0 * 3600 + m0 * 60 + a
     ELSE IF b # None THEN h0 * 3600 + b * 60 + MinOf(S[1])
     ELSE IF c # None THEN c * 3600 + MinOf(S[2]) * 60 + MinOf(S[1])
     ELSE None

(* earliest matching wall-clock second w with wa <= w <= wb, month by month from month number k = 12 * year + *)
(* (month - 1).  Inside a month: the allowed days (by day of month / day of week) not before wa's day; on *)
(* wa's own day the time of day must not be before wa, on any later day the earliest allowed time of day   *)
(* applies.  (Recursion is by month, with plain integers as arguments: TLC does not cache the arguments of *)
(* recursive operators, so a day-by-day recursion would cost quadratic time.)                              *)
RECURSIVE ScanMonths(_, _, _, _, _, _)
ScanMonths(S, rule, ed, k, wa, wb) ==
  LET y == k \div 12
      m == (k % 12) + 1
      D0 == DaysFromCivil(y, m, 1) - ed       \* day number (relative to the epoch) of the first of the month
      waDay == wa \div Day
  IN IF D0 * Day > wb THEN None
     ELSE IF m \notin S[5] THEN ScanMonths(S, rule, ed, k + 1, wa, wb)
     ELSE LET days == {d \in 1..MonthLen(y, m) : /\ D0 + d - 1 >= waDay
                                                  /\ (D0 + d - 1) * Day <= wb
                                                  /\ DayOK(S, rule, d, DayOfWeek(ed + D0 + d - 1))}
              onFirst == IF (waDay - D0 + 1) \in days THEN FirstTOD(S, wa - waDay * Day) ELSE None
              later == {d \in days : D0 + d - 1 > waDay}
          IN IF onFirst # None /\ waDay * Day + onFirst <= wb THEN waDay * Day + onFirst
             ELSE IF later = {} THEN ScanMonths(S, rule, ed, k + 1, wa, wb)
             ELSE LET w == (D0 + MinOf(later) - 1) * Day + FirstTOD(S, 0)
                  IN IF w <= wb THEN w ELSE None     \* any other candidate is later still

MonthNumber(ed, w) == LET c == Civil(ed + w \div Day) IN 12 * c.y + (c.m - 1)

(* earliest matching instant u with lo <= u <= limit, scanning intervals from i *)
RECURSIVE ScanZones(_, _, _, _, _, _, _)
ScanZones(S, rule, ed, zt, i, lo, limit) ==
  IF i > Len(zt) THEN None
  ELSE IF zt[i].from > limit THEN None
  ELSE IF zt[i].to <= lo THEN ScanZones(S, rule, ed, zt, i + 1, lo, limit)
  ELSE LET off == zt[i].off
           wa == MaxI(lo, zt[i].from) + off
           wb == MinI(limit, zt[i].to - 1) + off
           w == ScanMonths(S, rule, ed, MonthNumber(ed, wa), wa, wb)
       IN IF w # None THEN w - off ELSE ScanZones(S, rule, ed, zt, i + 1, lo, limit)

(* the earliest matching instant in (t, limit], or None *)
NextUpTo(S, rule, ed, zt, t, limit) == IF \A f \in 1..6 : S[f] # {} THEN ScanZones(S, rule, ed, zt, 1, t + 1, limit) ELSE None

(* "within five years": w is a wall-clock reading (relative seconds); the result is the same calendar date  *)
(* and time of day five years on (29 February -> 28 February).  A match whose wall-clock reading is not    *)
(* later than this, taken from the wall-clock reading of t, lies within five years of t.                   *)
FiveYearsOn(ed, w) == LET c == Civil(ed + w \div Day)
                          d == MinI(c.d, MonthLen(c.y + 5, c.m))
                      IN (DaysFromCivil(c.y + 5, c.m, d) - ed) * Day + (w % Day)
=============================================================================
