------------------------------ MODULE CronField ------------------------------
(* C04 - the documented meaning of a cron expression, as data -> sets.       *)
(* This is a declarative semantics of the grammar in cron/doc.go; it is not  *)
(* the parser's algorithm (no bit masks, no string splitting).               *)
(*                                                                           *)
(* Fields are numbered 1 second, 2 minute, 3 hour, 4 day of month, 5 month,  *)
(* 6 day of week.  A field is a non-empty list of terms; a term is           *)
(*   [k |-> kind, a |-> atom, b |-> atom, s |-> atom]                        *)
(*   kind: "star" *   "qmark" ?   "one" a   "range" a-b   "rstep" a-b/s      *)
(*         "from" a/s  (= a-max/s)   "starstep" */s  (= min-max/s)           *)
(* an atom is [n |-> Int, w |-> STRING]: the number n when w = "", else the  *)
(* word w in lower case (month/day names are case-insensitive; the harness   *)
(* renders them in arbitrary case).                                          *)
EXTENDS Integers, Sequences, FiniteSets, TLC

Lo == <<0, 0, 0, 1, 1, 0>>
Hi == <<59, 59, 23, 31, 12, 6>>
FieldName == <<"second", "minute", "hour", "dom", "month", "dow">>

MonthNames == [jan |-> 1, feb |-> 2, mar |-> 3, apr |-> 4, may |-> 5, jun |-> 6,
               jul |-> 7, aug |-> 8, sep |-> 9, oct |-> 10, nov |-> 11, dec |-> 12]
DowNames == [sun |-> 0, mon |-> 1, tue |-> 2, wed |-> 3, thu |-> 4, fri |-> 5, sat |-> 6]
NameSet(f) == IF f = 5 THEN DOMAIN MonthNames ELSE IF f = 6 THEN DOMAIN DowNames ELSE {}
NameVal(f, w) == IF f = 5 THEN MonthNames[w] ELSE DowNames[w]

Num(n) == [n |-> n, w |-> ""]
NoAtom == Num(0)
Star == [k |-> "star", a |-> NoAtom, b |-> NoAtom, s |-> NoAtom]
One(n) == [k |-> "one", a |-> Num(n), b |-> NoAtom, s |-> NoAtom]

(* ---- atoms ---- *)
AtomKnown(x, f) == IF x.w = "" THEN x.n >= 0 ELSE x.w \in NameSet(f)   \* a number, or a name of this field
AtomVal(x, f) == IF x.w = "" THEN x.n ELSE NameVal(f, x.w)
AtomIn(x, f) == AtomVal(x, f) >= Lo[f] /\ AtomVal(x, f) <= Hi[f]
StepNumeric(x) == x.w = "" /\ x.n >= 0

(* ---- why a term has no meaning ("" = it has one) ---- *)
AtomDefect(x, f) == IF ~AtomKnown(x, f) THEN "non-numeric or unknown name"
                    ELSE IF ~AtomIn(x, f) THEN "out of range" ELSE ""
StepDefect(x) == IF ~StepNumeric(x) THEN "non-numeric step" ELSE IF x.n = 0 THEN "zero step" ELSE ""
First(ss) == LET bad == {i \in 1..Len(ss) : ss[i] # ""} IN
             IF bad = {} THEN "" ELSE ss[CHOOSE i \in bad : \A j \in bad : i <= j]
TermDefect(t, f) ==
  CASE t.k \in {"star", "qmark", "empty"} -> ""
    [] t.k = "one"      -> AtomDefect(t.a, f)
    [] t.k = "range"    -> First(<<AtomDefect(t.a, f), AtomDefect(t.b, f),
                                  IF AtomKnown(t.a, f) /\ AtomKnown(t.b, f) /\ AtomVal(t.a, f) > AtomVal(t.b, f) THEN "inverted range" ELSE "">>)
    [] t.k = "rstep"    -> First(<<AtomDefect(t.a, f), AtomDefect(t.b, f),
                                  IF AtomKnown(t.a, f) /\ AtomKnown(t.b, f) /\ AtomVal(t.a, f) > AtomVal(t.b, f) THEN "inverted range" ELSE "",
                                  StepDefect(t.s)>>)
    [] t.k = "from"     -> First(<<AtomDefect(t.a, f), StepDefect(t.s)>>)
    [] t.k = "starstep" -> StepDefect(t.s)
TermOK(t, f) == TermDefect(t, f) = ""

(* '?' is documented for the two day fields only; elsewhere the documentation is silent *)
(* an empty list item ("1,,2", ",") is not in the documented grammar either: the parser may refuse it or   *)
(* give it some meaning (kind "empty"); the only thing required then is that Next returns                 *)
TermDocumented(t, f) == (t.k = "qmark" => f \in {4, 6}) /\ t.k # "empty"

(* ---- the set of values a well-formed term stands for ---- *)
Stepped(lo, hi, s) == {v \in lo..hi : (v - lo) % s = 0}
TermSet(t, f) ==
  CASE t.k \in {"star", "qmark"} -> Lo[f]..Hi[f]
    [] t.k = "empty"    -> {}
    [] t.k = "one"      -> {AtomVal(t.a, f)}
    [] t.k = "range"    -> AtomVal(t.a, f)..AtomVal(t.b, f)
    [] t.k = "rstep"    -> Stepped(AtomVal(t.a, f), AtomVal(t.b, f), t.s.n)
    [] t.k = "from"     -> Stepped(AtomVal(t.a, f), Hi[f], t.s.n)       \* "N/s" means "N-max/s"
    [] t.k = "starstep" -> Stepped(Lo[f], Hi[f], t.s.n)                 \* "*/s" means "first-last/s"

FieldDefect(ts, f) == IF Len(ts) = 0 THEN "empty field" ELSE First([i \in 1..Len(ts) |-> TermDefect(ts[i], f)])
FieldOK(ts, f) == FieldDefect(ts, f) = ""
FieldDocumented(ts, f) == \A i \in 1..Len(ts) : TermDocumented(ts[i], f)
FieldSet(ts, f) == UNION {TermSet(ts[i], f) : i \in 1..Len(ts)}

(* Is the field "unrestricted" (a star) for the either-day rule?  A field is *)
(* unrestricted when it is written with a star: a star or question-mark      *)
(* term, also with an explicit step of one ("*/1" is every value, written    *)
(* with a star), alone or as an item of a list.  (Documented rule: if both   *)
(* day fields are restricted, i.e. not a star, either may match.)  A field   *)
(* written with numbers or names only is restricted even when it happens to  *)
(* allow every value (1-31, sun-sat, 1/1, 1-15,16-31); so is a star with a   *)
(* step of two or more.                                                      *)
StarTerm(t) == t.k \in {"star", "qmark"} \/ (t.k = "starstep" /\ t.s.n = 1)
Star3(ts, f) == IF \E i \in 1..Len(ts) : StarTerm(ts[i]) THEN "yes" ELSE "no"

(* ---- parser options: which places an expression has ---- *)
(* places: <<p1..p6>>, each "no" | "yes" | "opt" (only second and day of week can be "opt") *)
DefaultField(f) == IF f <= 3 THEN <<One(0)>> ELSE <<Star>>
Included(places) == {f \in 1..6 : places[f] # "no"}
Optionals(places) == {f \in 1..6 : places[f] = "opt"}
CountOK(places, n) == n >= Cardinality(Included(places)) - Cardinality(Optionals(places)) /\ n <= Cardinality(Included(places))
Present(places, n) == IF n = Cardinality(Included(places)) THEN Included(places) ELSE Included(places) \ Optionals(places)
Normalize(places, fields) ==
  LET pres == Present(places, Len(fields)) IN
  [f \in 1..6 |-> IF f \in pres THEN fields[Cardinality({g \in pres : g <= f})] ELSE DefaultField(f)]

(* ---- predefined schedules ---- *)
Z0 == <<One(0)>>
D1 == <<One(1)>>
SS == <<Star>>
DescTable == ("@yearly"   :> <<Z0, Z0, Z0, D1, D1, SS>>) @@
             ("@annually" :> <<Z0, Z0, Z0, D1, D1, SS>>) @@
             ("@monthly"  :> <<Z0, Z0, Z0, D1, SS, SS>>) @@
             ("@weekly"   :> <<Z0, Z0, Z0, SS, SS, Z0>>) @@
             ("@daily"    :> <<Z0, Z0, Z0, SS, SS, SS>>) @@
             ("@midnight" :> <<Z0, Z0, Z0, SS, SS, SS>>) @@
             ("@hourly"   :> <<Z0, Z0, SS, SS, SS, SS>>)

(* ---- the meaning of a whole expression ----                               *)
(* x: [tz, tzknown, form ("fields"|"desc"|"every"), places, desc (descriptors *)
(* enabled), fields, name, durok, dursec]                                    *)
(* result: [kind |-> "refuse", why] | [kind |-> "any"] |                     *)
(*         [kind |-> "spec", set, star] | [kind |-> "every", delay]          *)
Refuse(why) == [kind |-> "refuse", why |-> why]
Sched(nf) == [kind |-> "spec", set |-> [f \in 1..6 |-> FieldSet(nf[f], f)], star |-> [f \in 1..6 |-> Star3(nf[f], f)]]
Meaning(x) ==
  IF x.tz # "" /\ ~x.tzknown THEN Refuse("unknown time zone")
  ELSE IF x.form = "desc" THEN
         IF ~x.desc THEN Refuse("descriptors not enabled")
         ELSE IF x.name \notin DOMAIN DescTable THEN Refuse("unknown descriptor")
         ELSE Sched(DescTable[x.name])
  ELSE IF x.form = "every" THEN
         IF ~x.desc THEN Refuse("descriptors not enabled")
         ELSE IF ~x.durok THEN Refuse("bad duration")
         ELSE [kind |-> "every", delay |-> IF x.dursec < 1 THEN 1 ELSE x.dursec]
  ELSE IF ~CountOK(x.places, Len(x.fields)) THEN Refuse("wrong number of fields")
  ELSE LET nf == Normalize(x.places, x.fields)
           bad == {f \in 1..6 : ~FieldOK(nf[f], f)}
       IN IF bad # {} THEN LET f == CHOOSE g \in bad : \A h \in bad : g <= h
                           IN Refuse(FieldName[f] \o ": " \o FieldDefect(nf[f], f))
          ELSE IF \E f \in 1..6 : ~FieldDocumented(nf[f], f) THEN [kind |-> "any"]
          ELSE Sched(nf)

(* which day rules a schedule admits: "and" = both day fields must match    *)
(* (one of them is a star), "or" = either may match (both are restricted)   *)
DayRules(m) == IF m.star[4] = "yes" \/ m.star[6] = "yes" THEN {"and"}
               ELSE IF m.star[4] = "no" /\ m.star[6] = "no" THEN {"or"}
               ELSE {"and", "or"}
=============================================================================
