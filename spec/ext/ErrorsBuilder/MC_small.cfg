SPECIFICATION Spec
CONSTANTS
  Variants = {"notag"}
  WithOps = {"EI1", "WD2", "RI"}
  AddVs = {1, 3}
  MaxBuilds = 2 MaxLen = 6 OkLen = 0 Defect = "none"
INVARIANTS NotBad BuilderAgrees Export
CHECK_DEADLOCK FALSE
