------------------------ MODULE TraceErrorsBuilder ------------------------
(* X08 - validates recorded call sequences on the real errors.ErrorBuilder / *)
(* errors.Error (and the FromError / Is fact groups) against the contract    *)
(* monitor.  Deterministic monitor, RejectLine idiom; one behaviour per      *)
(* "reset" line.                                                             *)
EXTENDS ErrorsBuilderContract, TraceLib

Trace == LoadTrace("trace.ndjson")
Starts == {i \in 1..Len(Trace) : Trace[i].ev = "reset"}
VARIABLES l, c
TInit == l \in Starts /\ c = CReset(Trace[l])
TNext == /\ ~IsBad(c)
         /\ l + 1 <= Len(Trace)
         /\ Trace[l + 1].ev # "reset"
         /\ c' = CNext(c, Trace[l + 1])
         /\ l' = l + 1
TSpec == TInit /\ [][TNext]_<<l, c>>
(* a trace must end with its "end" event (reset.end = line of the last event of the trace) *)
Report == IF IsBad(c) THEN RejectLine(l, c.why)
          ELSE IF l = c.p.end /\ Trace[l].ev # "end" THEN RejectLine(l, "trace: no end event")
          ELSE TRUE
=============================================================================
