SPECIFICATION Spec
CONSTANTS
  Variants = {"okcode"}
  WithOps = {"EI1", "RI"}
  AddVs = {1, 3}
  MaxBuilds = 2 MaxLen = 3 OkLen = 3 Defect = "okcode_message_lost"
INVARIANTS NotBad
CHECK_DEADLOCK FALSE
