SPECIFICATION Spec
CONSTANTS
  Variants = {"tag", "notag", "okcode"}
  WithOps = {"EI1", "EI2", "RI", "HL", "H2", "FV1", "FV2", "WD0", "WD1", "WD2", "WDU"}
  AddVs = {1, 2, 3}
  MaxBuilds = 3 MaxLen = 4 OkLen = 4 Defect = "none"
INVARIANTS NotBad BuilderAgrees Export
CHECK_DEADLOCK FALSE
