SPECIFICATION Spec
CONSTANTS
  Variants = {"tag"}
  WithOps = {"EI1", "RI"}
  AddVs = {1, 3}
  MaxBuilds = 2 MaxLen = 3 OkLen = 0 Defect = "no_panic"
INVARIANTS NotBad
CHECK_DEADLOCK FALSE
