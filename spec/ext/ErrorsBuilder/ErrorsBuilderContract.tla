----------------------- MODULE ErrorsBuilderContract -----------------------
(* X08 - github.com/dapr/kit/errors: ErrorBuilder and the Error it builds,   *)
(* the documented contract (README.md, doc comments, errors_test.go) as a    *)
(* deterministic monitor automaton over the observable events of ONE         *)
(* builder and the errors built from it.                                     *)
(*                                                                            *)
(* A detail is [k, items]: k the kind of the message, items the payload as a *)
(* sequence of atoms (short ids; the harness maps the CONTENT of a decoded   *)
(* message to the id, unknown content becomes "?<content>"):                 *)
(*   EI ErrorInfo (reason|domain|metadata)   RI ResourceInfo                 *)
(*   H  Help (one atom per link)             BR BadRequest (one per field    *)
(*   LM LocalizedMessage  QV QuotaFailure.Violation       violation)         *)
(*   DI DebugInfo  PV PreconditionFailure.Violation  HK Help.Link            *)
(*   UN a message that is not one of google.rpc's error details              *)
(*                                                                            *)
(* reset  kind "seq": vname, grpc (name of the gRPC code), http, msg, tag,   *)
(*        cat, okcode (the gRPC code is OK), n (number of op events)         *)
(*        kind "fact": group                                                 *)
(* op     op ("B" Build | "AD" AddDetails | a With* code), v (AddDetails     *)
(*        argument variant), tgt (AddDetails: index of the built error),     *)
(*        panic, pval, obs: one observation of EVERY error built so far,     *)
(*        taken after the call returned:                                     *)
(*          (details as tuples <<kind, atom, ...>>)                          *)
(*          det   details decoded from handle.GRPCStatus().Details()         *)
(*          jdet  details decoded from handle.JSONErrorValue() by the        *)
(*                documented field names                                     *)
(*          orig  details (JSON route) of a fresh FromError(<value returned  *)
(*                by Build>)                                                 *)
(*          http grpc code cat str sstr   HTTPStatusCode GrpcStatusCode      *)
(*                ErrorCode Category Error() String()                        *)
(*          snil scode smsg   GRPCStatus() == nil, its code and message      *)
(*          jcode jmsg jkeys  errorCode, message, top-level keys of the JSON *)
(*          opanic            a method of the Error panicked                 *)
(*        The handle of an error is the *Error FromError returned right      *)
(*        after Build; AddDetails is called on the handle.                   *)
(* fact   name, got   one FromError / Is fact (fact traces)                  *)
(* end    nops                                                               *)
(*                                                                            *)
(* Where the documentation is silent the monitor accepts:                    *)
(*  - whether several field violations / help links are kept as one detail   *)
(*    each or accumulated in one BadRequest / Help (Norm);                   *)
(*  - whether AddDetails on the handle shows through the value Build         *)
(*    returned (orig: any prefix of the added details);                      *)
(*  - which ErrorInfo reason is the error code when there are several and no *)
(*    tag; anything when there is neither tag nor reason;                    *)
(*  - a nil gRPC status when the gRPC code is OK (grpc cannot attach details *)
(*    to an OK status).                                                      *)
EXTENDS Integers, Sequences, FiniteSets

Bad(why) == [bad |-> TRUE, why |-> why]
IsBad(c) == c.bad

D(k, items) == [k |-> k, items |-> items]

(* ---- the call alphabet: what each call is documented to add ---- *)
WithOpsAll == {"EI1", "EI2", "RI", "HL", "H2", "FV1", "FV2", "WD0", "WD1", "WD2", "WDU"}
OpDetails(op) ==
  CASE op = "EI1" -> <<D("EI", <<"e1">>)>>               \* WithErrorInfo("REASON_A", {"k":"v"})
    [] op = "EI2" -> <<D("EI", <<"e2">>)>>               \* WithErrorInfo("REASON_B", nil)
    [] op = "RI"  -> <<D("RI", <<"r1">>)>>               \* WithResourceInfo(...)
    [] op = "HL"  -> <<D("H", <<"l1">>)>>                \* WithHelpLink(url1, desc1)
    [] op = "H2"  -> <<D("H", <<"l2", "l3">>)>>          \* WithHelp([link2, link3])
    [] op = "FV1" -> <<D("BR", <<"f1">>)>>               \* WithFieldViolation(field1, msg1)
    [] op = "FV2" -> <<D("BR", <<"f2">>)>>
    [] op = "WD0" -> <<>>                                \* WithDetails()
    [] op = "WD1" -> <<D("LM", <<"m1">>)>>               \* WithDetails(LocalizedMessage)
    [] op = "WD2" -> <<D("EI", <<"e3">>), D("QV", <<"q1">>)>>   \* WithDetails(ErrorInfo, QuotaFailure_Violation)
    [] op = "WDU" -> <<D("UN", <<"u1">>)>>               \* WithDetails(durationpb.Duration)
    [] OTHER -> <<>>
AddVsAll == {1, 2, 3}
AddDetailsOf(v) ==
  CASE v = 1 -> <<D("DI", <<"d1">>)>>                    \* AddDetails(DebugInfo)
    [] v = 2 -> <<D("PV", <<"p1">>), D("HK", <<"k1">>)>> \* AddDetails(PreconditionFailure_Violation, Help_Link)
    [] v = 3 -> <<D("LM", <<"m2">>)>>                    \* AddDetails(LocalizedMessage)
    [] OTHER -> <<>>
Reason(item) == CASE item = "e1" -> "REASON_A" [] item = "e2" -> "REASON_B" [] item = "e3" -> "REASON_C" [] OTHER -> ""

PanicValue == "Must include ErrorInfo in error details."

(* ---- normal form: field violations / help links accumulated in the first BadRequest / Help ---- *)
MergeKinds == {"BR", "H"}
ItemsOf(ds, k) ==
  LET F[i \in 0..Len(ds)] == IF i = 0 THEN <<>> ELSE IF ds[i].k = k THEN F[i - 1] \o ds[i].items ELSE F[i - 1]
  IN F[Len(ds)]
Norm(ds) ==
  LET F[i \in 0..Len(ds)] ==
        IF i = 0 THEN <<>>
        ELSE IF ds[i].k \in MergeKinds
             THEN (IF \A j \in 1..i - 1 : ds[j].k # ds[i].k THEN Append(F[i - 1], D(ds[i].k, ItemsOf(ds, ds[i].k))) ELSE F[i - 1])
             ELSE Append(F[i - 1], ds[i])
  IN F[Len(ds)]
(* observed details arrive as <<kind, atom, ...>> tuples *)
FromObs(ds) == [i \in 1..Len(ds) |-> D(Head(ds[i]), Tail(ds[i]))]
ToObs(ds) == [i \in 1..Len(ds) |-> <<ds[i].k>> \o ds[i].items]
Same(obsDs, exp) == Norm(FromObs(obsDs)) = Norm(exp)

HasEI(ds) == \E i \in 1..Len(ds) : ds[i].k = "EI"
Reasons(ds) == {Reason(ds[i].items[1]) : i \in {x \in 1..Len(ds) : ds[x].k = "EI" /\ Len(ds[x].items) = 1}} \ {""}

CReset(e) ==
  [bad |-> FALSE, why |-> "", p |-> e,
   bd |-> <<>>,        \* the details passed to the builder so far
   errs |-> <<>>,      \* per built error: base (details at Build), added (by AddDetails), bl (builder length at Build)
   pan |-> <<>>,       \* per Build call: 1 = it must panic
   nops |-> 0]

ExpDetails(x) == x.base \o x.added
ExpStr(p) == "api error: code = " \o p.grpc \o " desc = " \o p.msg

VictimClass(c1, kind, j, tgt) ==
  IF kind = "adddetails"
  THEN (IF c1.errs[j].bl = c1.errs[tgt].bl THEN "error-built-from-same-builder-state"
        ELSE IF j < tgt THEN "earlier-built-error" ELSE "later-built-error")
  ELSE IF kind = "with" THEN (IF Len(c1.errs[j].added) > 0 THEN "built-error-extended-by-adddetails" ELSE "built-error")
  ELSE "earlier-built-error"

(* a freshly built error that is wrong after AddDetails was called on an earlier error gets its own key *)
DetWhy(c1, kind, j, tgt, view) ==
  IF j = tgt THEN "details:" \o kind \o "-" \o view \o
                  (IF kind = "build" /\ \E i \in 1..j - 1 : Len(c1.errs[i].added) > 0 THEN "-after-adddetails-on-earlier-error" ELSE "")
  ELSE "aliasing:" \o kind \o "-changes-" \o VictimClass(c1, kind, j, tgt)

(* the first law the observation o of error j breaks, "" if none *)
ObsProblem(c1, o, j, kind, tgt) ==
  LET x == c1.errs[j]
      exp == ExpDetails(x)
      p == c1.p
      rs == Reasons(exp)
  IN
  IF o.opanic # "" THEN "panic:method-of-built-error-panicked"
  ELSE IF o.snil /\ ~p.okcode THEN "grpcstatus:nil"
  ELSE IF ~o.snil /\ ~Same(o.det, exp) THEN DetWhy(c1, kind, j, tgt, "grpc-status")
  ELSE IF ~Same(o.jdet, exp) THEN DetWhy(c1, kind, j, tgt, "json")
  ELSE IF ~\E k \in 0..Len(x.added) : Same(o.orig, x.base \o SubSeq(x.added, 1, k)) THEN DetWhy(c1, kind, j, tgt, "value-returned-by-build")
  ELSE IF o.http # p.http THEN "codes:http-status-code"
  ELSE IF o.grpc # p.grpc THEN "codes:grpc-status-code"
  ELSE IF o.cat # p.cat THEN "codes:category"
  ELSE IF o.str # ExpStr(p) \/ o.sstr # ExpStr(p) THEN "string:error-string-format"
  ELSE IF p.tag # "" /\ o.code # p.tag THEN "errorcode:tag-not-prioritized"
  ELSE IF p.tag = "" /\ rs # {} /\ o.code \notin rs THEN "errorcode:not-an-errorinfo-reason"
  ELSE IF ~o.snil /\ o.scode # p.grpc THEN "grpcstatus:code"
  ELSE IF ~o.snil /\ o.smsg # p.msg THEN "grpcstatus:message"
  ELSE IF o.jkeys # "details,errorCode,message" THEN "json:top-level-keys"
  ELSE IF o.jmsg # p.msg THEN (IF p.okcode THEN "json:message-when-grpc-code-is-ok" ELSE "json:message")
  ELSE IF p.tag # "" /\ o.jcode # p.tag THEN "json:errorcode-tag-not-prioritized"
  ELSE IF p.tag = "" /\ rs # {} /\ o.jcode \notin rs THEN "json:errorcode-not-an-errorinfo-reason"
  ELSE ""

Min(S) == CHOOSE x \in S : \A y \in S : x <= y

COp(c, e) ==
  LET kind == IF e.op = "B" THEN "build" ELSE IF e.op = "AD" THEN "adddetails" ELSE "with" IN
  IF kind = "adddetails" /\ (e.tgt \notin 1..Len(c.errs) \/ e.v \notin AddVsAll) THEN Bad("trace: AddDetails on an error that was not built")
  ELSE IF kind = "with" /\ e.op \notin WithOpsAll THEN Bad("trace: unknown call")
  ELSE
  LET expPanic == kind = "build" /\ ~HasEI(c.bd)
      c1 == [c EXCEPT !.nops = @ + 1,
                      !.bd = IF kind = "with" THEN @ \o OpDetails(e.op) ELSE @,
                      !.pan = IF kind = "build" THEN Append(@, IF expPanic THEN 1 ELSE 0) ELSE @,
                      !.errs = IF kind = "build" /\ ~expPanic THEN Append(@, [base |-> c.bd, added |-> <<>>, bl |-> Len(c.bd)])
                               ELSE IF kind = "adddetails" THEN [@ EXCEPT ![e.tgt].added = @ \o AddDetailsOf(e.v)]
                               ELSE @]
      n == Len(c1.errs)
      tgt == IF kind = "build" /\ ~expPanic THEN n ELSE IF kind = "adddetails" THEN e.tgt ELSE 0
      ord == IF tgt = 0 THEN [i \in 1..n |-> i]
             ELSE <<tgt>> \o [i \in 1..n - 1 |-> IF i < tgt THEN i ELSE i + 1]
      why == IF e.panic /\ ~expPanic
             THEN (IF kind = "build" THEN "panic:build-panicked-although-errorinfo-was-set" ELSE "panic:unexpected-panic-in-" \o kind)
             ELSE IF ~e.panic /\ expPanic THEN "panic:build-without-errorinfo-did-not-panic"
             ELSE IF e.panic /\ e.pval # PanicValue THEN "panic:build-panic-value"
             ELSE IF Len(e.obs) # n THEN "trace: number of observed errors"
             ELSE LET probs == [i \in 1..n |-> ObsProblem(c1, e.obs[ord[i]], ord[i], kind, tgt)]
                      bads == {i \in 1..n : probs[i] # ""}
                  IN IF bads = {} THEN "" ELSE probs[Min(bads)]
  IN IF why = "" THEN c1 ELSE Bad(why)

(* ---- FromError / Is facts (one group per trace; the first wrong fact names the finding) ---- *)
FactExpected(name) ==
  CASE name = "fromerror:nil" -> FALSE
    [] name = "fromerror:foreign-error" -> FALSE
    [] name = "fromerror:built-error" -> TRUE
    [] name = "fromerror:wrapped-built-error" -> TRUE
    [] name = "fromerror:twice-wrapped-built-error" -> TRUE
    [] name = "fromerror:recovered-error-has-same-content" -> TRUE
    [] name = "fromerror:pointer-error" -> TRUE                     \* the *Error AddDetails returns, used as an error
    [] name = "fromerror:wrapped-pointer-error" -> TRUE
    [] name = "is:same-pointer" -> TRUE
    [] name = "is:target-pointer-same-codes-other-message" -> TRUE  \* "Ignore the message in the comparison"
    [] name = "is:target-wrapped-pointer" -> TRUE
    [] name = "is:target-other-tag" -> FALSE
    [] name = "is:target-other-grpc-code" -> FALSE
    [] name = "is:target-other-http-code" -> FALSE
    [] name = "is:target-foreign-error" -> FALSE
    [] name = "is:target-nil" -> FALSE
    [] name = "is:target-built-error" -> TRUE                       \* the value Build returned
    [] name = "is:target-wrapped-built-error" -> TRUE
    [] name = "is:errors.Is-pointer-vs-pointer" -> TRUE
    [] name = "is:errors.Is-built-error-vs-same-codes" -> TRUE
    [] OTHER -> FALSE
FactNames == {"fromerror:nil", "fromerror:foreign-error", "fromerror:built-error", "fromerror:wrapped-built-error",
              "fromerror:twice-wrapped-built-error", "fromerror:recovered-error-has-same-content", "fromerror:pointer-error",
              "fromerror:wrapped-pointer-error", "is:same-pointer", "is:target-pointer-same-codes-other-message",
              "is:target-wrapped-pointer", "is:target-other-tag", "is:target-other-grpc-code", "is:target-other-http-code",
              "is:target-foreign-error", "is:target-nil", "is:target-built-error", "is:target-wrapped-built-error",
              "is:errors.Is-pointer-vs-pointer", "is:errors.Is-built-error-vs-same-codes"}

CFact(c, e) ==
  IF e.name \notin FactNames THEN Bad("trace: unknown fact")
  ELSE IF e.panic THEN Bad("panic:" \o e.name)
  ELSE IF e.got # FactExpected(e.name) THEN Bad(e.name)
  ELSE [c EXCEPT !.nops = @ + 1]

CNext(c, e) ==
  IF e.ev = "op" /\ c.p.kind = "seq" THEN COp(c, e)
  ELSE IF e.ev = "fact" /\ c.p.kind = "fact" THEN CFact(c, e)
  ELSE IF e.ev = "end" THEN (IF e.nops = c.nops /\ c.nops = c.p.n THEN c ELSE Bad("trace: truncated or padded"))
  ELSE Bad("trace: unknown event")
=============================================================================
