SPECIFICATION Spec
CONSTANTS
  Variants = {"tag"}
  WithOps = {"EI1", "RI"}
  AddVs = {1, 3}
  MaxBuilds = 2 MaxLen = 4 OkLen = 0 Defect = "build_resets"
INVARIANTS NotBad
CHECK_DEADLOCK FALSE
