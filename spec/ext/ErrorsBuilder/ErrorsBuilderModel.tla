------------------------- MODULE ErrorsBuilderModel -------------------------
(* X08 - implementation-shaped model of errors.ErrorBuilder / errors.Error:  *)
(* the details are Go slices (array, len; cap = length of the array) with    *)
(* the append semantics of the Go runtime (in place when cap allows it,      *)
(* otherwise a new array of max(2*cap, needed) cells - exact for fewer than  *)
(* 17 cells of 16 bytes).  The state holds the whole call history, so TLC    *)
(* enumerates EVERY sequence of calls up to MaxLen (one state per sequence); *)
(* every call produces the observation event the harness records on the real *)
(* package and feeds it to the contract monitor (invariant NotBad); the      *)
(* invariant Export prints, for every sequence, what the contract expects    *)
(* (the case table replayed on the real code).                               *)
(*                                                                            *)
(* Defect: "none" Build hands out a private copy of the details (the         *)
(*   repaired implementation); "shared_slice" Build returns the builder's    *)
(*   slice header (the code as found); "no_panic" Build never panics;        *)
(*   "reason_over_tag" ErrorCode prefers the ErrorInfo reason over the tag;  *)
(*   "build_resets" Build empties the builder; "okcode_message_lost" the     *)
(*   JSON message is taken from the nil gRPC status (the code as found).     *)
EXTENDS ErrorsBuilderContract, TLC

CONSTANTS Variants, WithOps, AddVs, MaxBuilds, MaxLen, OkLen, Defect
ASSUME WithOps \subseteq WithOpsAll /\ AddVs \subseteq AddVsAll /\ Variants \subseteq {"tag", "notag", "okcode"}
ASSUME Defect \in {"none", "shared_slice", "no_panic", "reason_over_tag", "build_resets", "okcode_message_lost"}

VARIABLES v, ops, arrs, bs, errs, nb, c
vars == <<v, ops, arrs, bs, errs, nb, c>>

VariantRec(vn) ==
  CASE vn = "tag"   -> [grpc |-> "ResourceExhausted", http |-> 418, msg |-> "state store is busy", tag |-> "DAPR_STATE_BUSY",
                        cat |-> "state", okcode |-> FALSE, stext |-> "I'm a teapot"]
    [] vn = "notag" -> [grpc |-> "NotFound", http |-> 404, msg |-> "pubsub pubsub1 is not found", tag |-> "",
                        cat |-> "pubsub", okcode |-> FALSE, stext |-> "Not Found"]
    [] OTHER        -> [grpc |-> "OK", http |-> 400, msg |-> "http only error", tag |-> "",
                        cat |-> "http", okcode |-> TRUE, stext |-> "Bad Request"]
P == VariantRec(v)
ResetEv(vn) ==
  LET r == VariantRec(vn) IN
  [ev |-> "reset", kind |-> "seq", vname |-> vn, grpc |-> r.grpc, http |-> r.http, msg |-> r.msg, tag |-> r.tag,
   cat |-> r.cat, okcode |-> r.okcode, n |-> 0]

(* ---- Go slices ---- *)
NilCell == D("nil", <<>>)
CapOf(A, s) == IF s.a = 0 THEN 0 ELSE Len(A[s.a])
Read(A, s) == [i \in 1..s.n |-> A[s.a][i]]
AppendSl(A, s, ds) ==
  LET need == s.n + Len(ds)
      cap == CapOf(A, s)
  IN IF Len(ds) = 0 THEN [A |-> A, s |-> s]
     ELSE IF need <= cap
     THEN [A |-> [A EXCEPT ![s.a] = [i \in 1..cap |-> IF i > s.n /\ i <= need THEN ds[i - s.n] ELSE @[i]]],
           s |-> [a |-> s.a, n |-> need]]
     ELSE LET nc == IF need > 2 * cap THEN need ELSE 2 * cap
              na == [i \in 1..nc |-> IF i <= s.n THEN A[s.a][i] ELSE IF i <= need THEN ds[i - s.n] ELSE NilCell]
          IN [A |-> Append(A, na), s |-> [a |-> Len(A) + 1, n |-> need]]

(* ---- the observation of one built error, as the implementation computes it ---- *)
NonEmptyReasons(ds) == SelectSeq([i \in 1..Len(ds) |-> IF ds[i].k = "EI" THEN Reason(ds[i].items[1]) ELSE ""], LAMBDA r : r # "")
ObsOf(A, x) ==
  LET ds == Read(A, x.h)
      rs == NonEmptyReasons(ds)
      code == IF Defect = "reason_over_tag" THEN (IF rs # <<>> THEN rs[1] ELSE P.tag)
              ELSE IF P.tag # "" THEN P.tag ELSE IF rs # <<>> THEN rs[1] ELSE ""
      jcode == IF P.tag # "" THEN P.tag ELSE IF rs # <<>> THEN rs[Len(rs)] ELSE P.stext
      snil == P.okcode /\ Len(ds) > 0
      str == "api error: code = " \o P.grpc \o " desc = " \o P.msg
  IN [det |-> IF snil THEN <<>> ELSE ToObs(ds), jdet |-> ToObs(ds), orig |-> ToObs(Read(A, x.o)),
      http |-> P.http, grpc |-> P.grpc, code |-> code, cat |-> P.cat, str |-> str, sstr |-> str,
      snil |-> snil, scode |-> IF snil THEN "OK" ELSE P.grpc, smsg |-> IF snil THEN "" ELSE P.msg,
      jcode |-> jcode, jmsg |-> IF snil /\ Defect = "okcode_message_lost" THEN "" ELSE P.msg,
      jkeys |-> IF Len(ds) > 0 THEN "details,errorCode,message" ELSE "errorCode,message", opanic |-> ""]
AllObs(A, es) == [j \in 1..Len(es) |-> ObsOf(A, es[j])]
OpEv(op, av, tgt, pan, A, es) ==
  [ev |-> "op", op |-> op, v |-> av, tgt |-> tgt, panic |-> pan, pval |-> IF pan THEN PanicValue ELSE "", obs |-> AllObs(A, es)]

Init ==
  /\ v \in Variants
  /\ ops = <<>> /\ arrs = <<>> /\ bs = [a |-> 0, n |-> 0] /\ errs = <<>> /\ nb = 0
  /\ c = CReset(ResetEv(v))

ADCode(av, j) == "A" \o ToString(av) \o "." \o ToString(j)

With(op) ==
  LET r == AppendSl(arrs, bs, OpDetails(op)) IN
  /\ ops' = Append(ops, op)
  /\ arrs' = r.A /\ bs' = r.s
  /\ UNCHANGED <<v, errs, nb>>
  /\ c' = CNext(c, OpEv(op, 0, 0, FALSE, r.A, errs))

Build ==
  /\ nb < MaxBuilds
  /\ nb' = nb + 1
  /\ ops' = Append(ops, "B")
  /\ UNCHANGED v
  /\ IF HasEI(Read(arrs, bs)) \/ Defect = "no_panic"
     THEN LET shared == Defect = "shared_slice"
              A1 == IF shared \/ bs.n = 0 THEN arrs ELSE Append(arrs, Read(arrs, bs))
              sl == IF shared \/ bs.n = 0 THEN bs ELSE [a |-> Len(arrs) + 1, n |-> bs.n]
              es == Append(errs, [o |-> sl, h |-> sl])
          IN /\ arrs' = A1 /\ errs' = es
             /\ bs' = IF Defect = "build_resets" THEN [a |-> 0, n |-> 0] ELSE bs
             /\ c' = CNext(c, OpEv("B", 0, 0, FALSE, A1, es))
     ELSE /\ UNCHANGED <<arrs, errs, bs>>
          /\ c' = CNext(c, OpEv("B", 0, 0, TRUE, arrs, errs))

Add(j, av) ==
  LET r == AppendSl(arrs, errs[j].h, AddDetailsOf(av))
      es == [errs EXCEPT ![j].h = r.s]
  IN /\ ops' = Append(ops, ADCode(av, j))
     /\ arrs' = r.A /\ errs' = es
     /\ UNCHANGED <<v, bs, nb>>
     /\ c' = CNext(c, OpEv("AD", av, j, FALSE, r.A, es))

Next ==
  /\ ~IsBad(c)
  /\ Len(ops) < (IF v = "okcode" THEN OkLen ELSE MaxLen)
  /\ \/ \E op \in WithOps : With(op)
     \/ Build
     \/ \E j \in 1..Len(errs), av \in AddVs : Add(j, av)
Spec == Init /\ [][Next]_vars

NotBad == ~IsBad(c)
(* the monitor's expectation and the (repaired) implementation agree on the builder *)
BuilderAgrees == (~IsBad(c) /\ Defect = "none") => Read(arrs, bs) = c.bd

(* ---- export: one line per call sequence ---- *)
Join(ss, sep) ==
  LET F[i \in 0..Len(ss)] == IF i = 0 THEN "" ELSE F[i - 1] \o (IF i > 1 THEN sep ELSE "") \o ss[i] IN F[Len(ss)]
RenderDs(ds) == Join([i \in 1..Len(ds) |-> ds[i].k \o ":" \o Join(ds[i].items, ",")], ";")
Line ==
  "SEQ|" \o v \o "|" \o Join(ops, ",") \o "|" \o Join([i \in 1..Len(c.pan) |-> ToString(c.pan[i])], "") \o "|"
  \o Join([j \in 1..Len(c.errs) |-> RenderDs(Norm(ExpDetails(c.errs[j])))], "/")
Export == ~IsBad(c) => PrintT(Line)
=============================================================================
