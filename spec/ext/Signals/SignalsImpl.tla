----------------------------- MODULE SignalsImpl -----------------------------
(* X10 - a small state machine of a process that uses signals.Context():     *)
(*   the kernel / Go runtime (pend: the set of pending signal kinds - a      *)
(*   standard signal that is already pending is not queued again; delivery   *)
(*   of a signal nobody is notified for follows Go's default: SIGINT,        *)
(*   SIGTERM and SIGHUP kill the process, SIGUSR1 is ignored),               *)
(*   os/signal's NON-BLOCKING send on the notification channel (capacity     *)
(*   Buf; a send to a parked receiver hands the value over directly; a send  *)
(*   to a full channel drops the signal),                                    *)
(*   the package's goroutine (receive; cancel with cause; receive; Fatalf =  *)
(*   exit code 1) and the onlyOneSignalHandler guard (second call panics),   *)
(* together with a parent that runs a program of SignalsCases and reports    *)
(* what it sees to the monitor of SignalsContract.                            *)
(*                                                                            *)
(*   Buf = 1: the code as found (make(chan os.Signal, 1)).  Two different    *)
(*     signals that arrive before the goroutine reached its first receive    *)
(*     fill the channel with the first and DROP the second: the context is   *)
(*     cancelled but the process does not exit on "the second signal".       *)
(*   Buf = 2: room for both signals the goroutine waits for.                  *)
(*   Handled: the signals given to signal.Notify ({INT, TERM}).              *)
(*   TwicePanics, ExitCode: the guard and the exit code.                      *)
EXTENDS SignalsContract, SignalsCases, TLC, Json, SequencesExt

CONSTANTS MaxSig, Buf, Handled, TwicePanics, ExitCode

VARIABLES prog, pc, c, gate, called, pend, ch, g, gv, ctx, proc, obsC, fin
vars == <<prog, pc, c, gate, called, pend, ch, g, gv, ctx, proc, obsC, fin>>

ProgSeq == SetToSeq(Programs(MaxSig))


Init == /\ prog \in Programs(MaxSig)
        /\ pc = 1
        /\ c = CNext(CReset([ev |-> "reset"]), [ev |-> "started"])
        /\ gate = ~prog.pre
        /\ called = 0 /\ pend = {} /\ ch = <<>> /\ g = "none" /\ gv = "none" /\ ctx = "live" /\ proc = "run"
        /\ obsC = FALSE /\ fin = FALSE

Step == prog.steps[pc]
More == pc <= Len(prog.steps)

(* ---------------- the parent ---------------- *)
PSend == /\ ~fin /\ More /\ proc = "run" /\ Step.op = "send"
         /\ c' = CNext(c, [ev |-> "sent", sig |-> Step.sig, by |-> "parent"])
         /\ pend' = pend \cup {Step.sig}
         /\ pc' = pc + 1
         /\ UNCHANGED <<prog, gate, called, ch, g, gv, ctx, proc, obsC, fin>>
PGoOpen == /\ ~fin /\ More /\ proc = "run" /\ Step.op = "go" /\ ~gate
           /\ gate' = TRUE
           /\ c' = CNext(c, [ev |-> "go"])
           /\ UNCHANGED <<prog, pc, called, pend, ch, g, gv, ctx, proc, obsC, fin>>
PGoDone == /\ ~fin /\ More /\ Step.op = "go" /\ called >= 1
           /\ pc' = pc + 1
           /\ UNCHANGED <<prog, c, gate, called, pend, ch, g, gv, ctx, proc, obsC, fin>>
PAck == /\ ~fin /\ More /\ Step.op = "ack" /\ (obsC \/ proc # "run")
        /\ pc' = pc + 1
        /\ UNCHANGED <<prog, c, gate, called, pend, ch, g, gv, ctx, proc, obsC, fin>>
PCtx2 == /\ ~fin /\ More /\ proc = "run" /\ Step.op = "ctx2" /\ called = 1
         /\ called' = 2
         /\ c' = CNext(CNext(c, [ev |-> "ctx2"]), [ev |-> IF TwicePanics THEN "panic2" ELSE "nopanic2"])
         /\ pc' = pc + 1
         /\ UNCHANGED <<prog, gate, pend, ch, g, gv, ctx, proc, obsC, fin>>
(* the child's report of the cancellation reaches the parent at any later time *)
PObserve == /\ ~fin /\ ctx # "live" /\ ~obsC
            /\ obsC' = TRUE
            /\ c' = CNext(c, [ev |-> "cancelled", kind |-> ctx])
            /\ UNCHANGED <<prog, pc, gate, called, pend, ch, g, gv, ctx, proc, fin>>

SigOf(p) == CASE p = "sig-INT" -> "INT" [] p = "sig-TERM" -> "TERM" [] p = "sig-HUP" -> "HUP" [] OTHER -> "none"
Quiescent == /\ pend = {}
             /\ \/ g \in {"parked1", "parked2"}
                \/ called = 0 /\ (~gate \/ ~More \/ Step.op # "go")
PExit == /\ ~fin /\ proc # "run"
         /\ fin' = TRUE
         /\ c' = CNext(CNext(c, [ev |-> "exit", code |-> IF proc = "exit1" THEN 1 ELSE IF proc = "exit-other" THEN 0 ELSE -1,
                                  sig |-> SigOf(proc)]), [ev |-> "end"])
         /\ UNCHANGED <<prog, pc, gate, called, pend, ch, g, gv, ctx, proc, obsC>>
PAlive == /\ ~fin /\ proc = "run" /\ ~More /\ Quiescent
          /\ fin' = TRUE
          /\ c' = CNext(CNext(c, [ev |-> "alive", done |-> ctx # "live", kind |-> IF ctx = "live" THEN "none" ELSE ctx]), [ev |-> "end"])
          /\ UNCHANGED <<prog, pc, gate, called, pend, ch, g, gv, ctx, proc, obsC>>

(* ---------------- the child: Context() ---------------- *)
CallContext == /\ ~fin /\ proc = "run" /\ gate /\ called = 0
               /\ called' = 1
               /\ g' = "nostart"
               /\ pend' = pend \cup Range(prog.self)      \* the child's own kills, before anything else ran
               /\ c' = CNext(c, [ev |-> "ctxret", self |-> prog.self, done |-> FALSE])
               /\ UNCHANGED <<prog, pc, gate, ch, gv, ctx, proc, obsC, fin>>

(* ---------------- kernel / runtime / os/signal ---------------- *)
Deliver(k) ==
  /\ ~fin /\ proc = "run" /\ k \in pend
  /\ pend' = pend \ {k}
  /\ IF called >= 1 /\ k \in Handled
     THEN /\ proc' = proc
          /\ IF g = "parked1" THEN g' = "run1" /\ gv' = k /\ ch' = ch
             ELSE IF g = "parked2" THEN g' = "run2" /\ gv' = k /\ ch' = ch
             ELSE IF Len(ch) < Buf THEN ch' = Append(ch, k) /\ UNCHANGED <<g, gv>>
             ELSE UNCHANGED <<ch, g, gv>>                                  \* select { case c <- sig: default: }
     ELSE /\ proc' = IF k \in Fatal THEN "sig-" \o k ELSE proc
          /\ UNCHANGED <<ch, g, gv>>
  /\ UNCHANGED <<prog, pc, c, gate, called, ctx, obsC, fin>>

(* ---------------- the package's goroutine ---------------- *)
GStep ==
  /\ ~fin /\ proc = "run"
  /\ \/ /\ g = "nostart"
        /\ IF ch # <<>> THEN g' = "run1" /\ gv' = Head(ch) /\ ch' = Tail(ch)
           ELSE g' = "parked1" /\ UNCHANGED <<gv, ch>>
        /\ UNCHANGED <<ctx, proc>>
     \/ /\ g = "run1"
        /\ ctx' = gv
        /\ IF ch # <<>> THEN g' = "run2" /\ gv' = Head(ch) /\ ch' = Tail(ch)
           ELSE g' = "parked2" /\ UNCHANGED <<gv, ch>>
        /\ proc' = proc
     \/ /\ g = "run2"
        /\ proc' = IF ExitCode = 1 THEN "exit1" ELSE "exit-other"
        /\ UNCHANGED <<g, gv, ch, ctx>>
  /\ UNCHANGED <<prog, pc, c, gate, called, pend, obsC, fin>>

Next == PSend \/ PGoOpen \/ PGoDone \/ PAck \/ PCtx2 \/ PObserve \/ PExit \/ PAlive \/ CallContext \/ GStep
        \/ \E k \in Kinds : Deliver(k)
Spec == Init /\ [][Next]_vars

NotBad == ~IsBad(c)
(* every run of the model reaches an outcome the parent can report *)
Finishes == <>fin
FairSpec == Spec /\ WF_vars(Next)

(* the programs for the harness *)
Describe(p, i) == [id |-> i, fam |-> p.fam, pre |-> p.pre, self |-> p.self, steps |-> p.steps]
ASSUME PrintT(<<"PROGRAMS", Len(ProgSeq)>>)
ASSUME ndJsonSerialize("programs.ndjson", [i \in 1..Len(ProgSeq) |-> Describe(ProgSeq[i], i)])
=============================================================================
