---------------------------- MODULE TraceSignals ----------------------------
(* Validates what the parent recorded of REAL child processes that call      *)
(* signals.Context() against the X10 contract monitor.  One behaviour per    *)
(* child (reset line); the monitor is deterministic.                          *)
EXTENDS SignalsContract, TraceLib

Trace == LoadTrace("trace.ndjson")
Starts == {i \in 1..Len(Trace) : Trace[i].ev = "reset"}
VARIABLES l, c
TInit == l \in Starts /\ c = CReset(Trace[l])
TNext == /\ ~IsBad(c)
         /\ l + 1 <= Len(Trace)
         /\ Trace[l + 1].ev # "reset"
         /\ c' = CNext(c, Trace[l + 1])
         /\ l' = l + 1
TSpec == TInit /\ [][TNext]_<<l, c>>
Report == IF IsBad(c) THEN RejectLine(l, c.why) ELSE TRUE
=============================================================================
