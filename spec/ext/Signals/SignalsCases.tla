---------------------------- MODULE SignalsCases ----------------------------
(* X10 - the driver programs: what the parent does to one child.  A program  *)
(* is a sequence of steps                                                     *)
(*   send(sig)   kill(2) the child with sig                                   *)
(*   ack         wait until the child has reported the cancellation (or has  *)
(*               ended) - without it the next signal races the previous one  *)
(*   go          let the child call Context() / wait until it has returned   *)
(*   ctx2        have the child call Context() a second time                  *)
(* plus `self`: signals the child sends to itself right after Context()      *)
(* returned, without yielding (the window before the package's goroutine has *)
(* run), and `pre`: the child waits for `go` (signals can be sent before     *)
(* Context() is called).                                                      *)
EXTENDS Integers, Sequences, FiniteSets

CShutdown == {"INT", "TERM"}
SigSeqs(n) == UNION {[1..k -> CShutdown] : k \in 0..n}

S(sig) == [op |-> "send", sig |-> sig]
Ack == [op |-> "ack", sig |-> "none"]
Go == [op |-> "go", sig |-> "none"]
Ctx2 == [op |-> "ctx2", sig |-> "none"]

RECURSIVE Sends(_, _, _)
(* the signals s with an ack after position i iff a[i] *)
Sends(s, a, i) == IF i > Len(s) THEN <<>>
                  ELSE <<S(s[i])>> \o (IF a[i] THEN <<Ack>> ELSE <<>>) \o Sends(s, a, i + 1)
AllAck(s) == [i \in 1..Len(s) |-> TRUE]
Acked(s) == Sends(s, AllAck(s), 1)
(* the acked prefix of length p, then x, then the acked rest *)
InsertAt(s, p, x) == Acked(SubSeq(s, 1, p)) \o x \o Acked(SubSeq(s, p + 1, Len(s)))

Prog(fam, pre, self, steps) == [fam |-> fam, pre |-> pre, self |-> self, steps |-> steps]

Twice     == UNION {{Prog("twice", FALSE, <<>>, <<Go>> \o InsertAt(s, p, <<Ctx2>>)) : p \in 0..Len(s)} : s \in SigSeqs(2)}
SelfBurst == {Prog("self", FALSE, self, <<Go>> \o Acked(s)) : self \in SigSeqs(2) \ {<<>>}, s \in SigSeqs(1)}
PreKill   == {Prog("prekill", TRUE, <<>>, <<S(k)>>) : k \in {"INT", "TERM", "HUP"}}
PreNoise  == {Prog("prenoise", TRUE, <<>>, <<S("USR1"), Go>> \o Acked(s)) : s \in SigSeqs(1)}
PreNone   == {Prog("prenone", TRUE, <<>>, <<Go>> \o Acked(s)) : s \in SigSeqs(1)}
Noise     == UNION {{Prog("noise", FALSE, <<>>, <<Go>> \o InsertAt(s, p, <<S("USR1")>>)) : p \in 0..Len(s)} : s \in SigSeqs(2)}
Hup       == {Prog("hup", FALSE, <<>>, <<Go>> \o Acked(s) \o <<S("HUP")>>) : s \in SigSeqs(1)}

(* Plain: the ack vector must have the length of the signal sequence *)
PlainSet(n) == UNION {{Prog("plain", FALSE, <<>>, <<Go>> \o Sends(s, a, 1)) : a \in [1..Len(s) -> BOOLEAN]} : s \in SigSeqs(n)}

Programs(n) == PlainSet(n) \cup Twice \cup SelfBurst \cup PreKill \cup PreNoise \cup PreNone \cup Noise \cup Hup
=============================================================================
