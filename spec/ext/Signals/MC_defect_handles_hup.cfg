SPECIFICATION Spec
CONSTANTS MaxSig = 3 Buf = 2 Handled = {"INT", "TERM", "HUP"} TwicePanics = TRUE ExitCode = 1
INVARIANTS NotBad
CHECK_DEADLOCK FALSE
