SPECIFICATION Spec
CONSTANTS MaxSig = 3 Buf = 1 Handled = {"INT", "TERM"} TwicePanics = TRUE ExitCode = 1
INVARIANTS NotBad
CHECK_DEADLOCK FALSE
