SPECIFICATION Spec
CONSTANTS MaxSig = 3 Buf = 2 Handled = {"INT"} TwicePanics = TRUE ExitCode = 1
INVARIANTS NotBad
CHECK_DEADLOCK FALSE
