SPECIFICATION Spec
CONSTANTS MaxSig = 3 Buf = 2 Handled = {"INT", "TERM"} TwicePanics = TRUE ExitCode = 0
INVARIANTS NotBad
CHECK_DEADLOCK FALSE
