-------------------------- MODULE SignalsContract --------------------------
(* X10 - github.com/dapr/kit/signals: the documented behaviour of Context() *)
(* as a monitor over what a PARENT process can observe of a child that uses  *)
(* the package:                                                               *)
(*   "Context returns a context which will be canceled when either the       *)
(*    SIGINT or SIGTERM signal is caught.  If either signal is caught a      *)
(*    second time, the program is terminated immediately with exit code 1."  *)
(*   and (comment in the function) "panics when called twice".               *)
(*                                                                            *)
(* Events (in the order the parent did / saw them):                           *)
(*   reset                     a new child                                    *)
(*   started                   the child runs, Context() not yet called       *)
(*   sent(sig, by)             the parent is about to kill(2) the child with  *)
(*                             sig (recorded BEFORE the system call)          *)
(*   go                        the parent lets the child call Context()       *)
(*   ctxret(self, done)        Context() returned; the child then sent itself *)
(*                             the signals `self` without yielding and then   *)
(*                             sampled ctx.Err() # nil as `done`              *)
(*   cancelled(kind)           the child saw ctx.Done(); kind = the signal    *)
(*                             named by context.Cause                         *)
(*   ctx2, panic2 / nopanic2   a second call of Context() and what it did     *)
(*   panic1                    the first call panicked                        *)
(*   exit(code, sig)           the child ended (sig # "none": killed by sig)  *)
(*   alive(done, kind)         the child is settled, alive and answers;       *)
(*                             ctx state as answered                          *)
(*   end                                                                      *)
(*                                                                            *)
(* What the parent cannot know is how many of its signals the kernel / the   *)
(* Go runtime merged: a standard signal that is already pending is not       *)
(* queued again.  The monitor therefore keeps a lower bound `min` (a signal  *)
(* whose kind is not among the kinds sent since the last acknowledged        *)
(* quiet point is certainly delivered on its own) and an upper bound `max`   *)
(* (every signal sent) of the number of SIGINT/SIGTERM deliveries, and only  *)
(* demands what follows from the bounds.  Where the documentation is silent  *)
(* (SIGHUP, SIGUSR1: not handled by the package, the Go defaults apply) it   *)
(* only demands that they neither cancel the context nor count.              *)
EXTENDS Integers, Sequences, FiniteSets

Shutdown == {"INT", "TERM"}
Fatal    == {"INT", "TERM", "HUP"}     \* Go's default: the program exits, killed by the signal
Kinds    == {"INT", "TERM", "HUP", "USR1"}

Bad(why) == [bad |-> TRUE, why |-> why]
IsBad(c) == c.bad

CReset(e) == [bad |-> FALSE, why |-> "", ph |-> "pre", preKill |-> "none", min |-> 0, max |-> 0, selfN |-> 0,
              unacked |-> {}, first |-> {}, hup |-> FALSE, canc |-> "none", ask2 |-> FALSE, got2 |-> FALSE]

(* one SIGINT/SIGTERM/... aimed at a child whose handler is installed *)
Armed(c, sig, self) ==
  IF sig \in Shutdown
  THEN [c EXCEPT !.max = @ + 1,
                 !.min = IF sig \in c.unacked THEN @ ELSE @ + 1,
                 !.unacked = @ \cup {sig},
                 !.first = IF c.canc = "none" THEN @ \cup {sig} ELSE @,
                 !.selfN = IF self THEN @ + 1 ELSE @]
  ELSE IF sig = "HUP" THEN [c EXCEPT !.hup = TRUE]
  ELSE c

RECURSIVE ArmedAll(_, _, _)
ArmedAll(c, sigs, i) == IF i > Len(sigs) THEN c ELSE ArmedAll(Armed(c, sigs[i], TRUE), sigs, i + 1)

Allowed(c) ==
  IF c.ph = "pre" THEN (IF c.preKill # "none" THEN {"sig-" \o c.preKill} ELSE {"alive-live"})
  ELSE IF c.hup THEN {"sig-HUP"} \cup (IF c.max >= 2 THEN {"exit1"} ELSE {})
  ELSE IF c.min >= 2 THEN {"exit1"}
  ELSE IF c.max >= 2 THEN {"exit1", "alive-cancelled"}
  ELSE IF c.max = 1 THEN {"alive-cancelled"}
  ELSE {"alive-live"}

(* why an outcome outside Allowed(c) is wrong; the text is the stable part of the finding key *)
Why(c, o) ==
  IF c.ph = "pre"
  THEN (IF c.preKill # "none" THEN "a signal sent before Context() was called did not end the process with the default disposition"
        ELSE "the process ended although no fatal signal was sent before Context()")
  ELSE IF o \notin {"exit-other", "exit1", "sig-INT", "sig-TERM", "sig-HUP", "alive-live", "alive-cancelled"}
       THEN "the process was killed by an unexpected signal"
  ELSE IF o = "exit-other" THEN "the process ended with an exit code other than 1"
  ELSE IF o \in {"sig-INT", "sig-TERM"} THEN "a handled signal killed the process instead of being caught"
  ELSE IF o = "sig-HUP" THEN "the process was killed by SIGHUP although none was sent"
  ELSE IF o = "exit1" THEN (IF c.max = 0 THEN "the process exited with code 1 although no SIGINT/SIGTERM was sent"
                            ELSE IF c.hup THEN "the process exited with code 1 after one shutdown signal and a SIGHUP"
                            ELSE "the process exited with code 1 after a single signal")
  ELSE IF o = "alive-live" THEN "the first signal did not cancel the context"
  ELSE IF c.max = 0 THEN "the context was cancelled although no SIGINT/SIGTERM was sent"
  ELSE IF c.hup THEN "SIGHUP did not end the process (it is not handled by the package: Go default)"
  ELSE IF c.selfN >= 1 THEN "second signal lost in the start-up window: a signal arrived before the goroutine of Context() reached its first receive"
  ELSE "the second signal did not terminate the process"

Outcome(c, o) == IF o \in Allowed(c) THEN [c EXCEPT !.ph = "end"] ELSE Bad(Why(c, o))

CNext(c, e) ==
  IF e.ev = "reset" THEN CReset(e)
  ELSE IF IsBad(c) THEN c
  ELSE IF c.ph = "end" THEN (IF e.ev = "end" THEN c ELSE Bad("harness: event after the outcome"))
  ELSE CASE e.ev = "started" -> c
    [] e.ev = "go" -> c
    [] e.ev = "sent" ->
         IF c.ph = "pre"
         THEN (IF e.sig \in Fatal /\ c.preKill = "none" THEN [c EXCEPT !.preKill = e.sig] ELSE c)
         ELSE Armed(c, e.sig, FALSE)
    [] e.ev = "ctxret" ->
         IF c.ph # "pre" THEN Bad("harness: Context() returned twice")
         ELSE IF c.preKill # "none" THEN Bad("a signal sent before Context() was called did not end the process with the default disposition")
         ELSE LET c2 == ArmedAll([c EXCEPT !.ph = "armed"], e.self, 1) IN
              IF e.done /\ c2.max = 0 THEN Bad("the context was already cancelled when Context() returned") ELSE c2
    [] e.ev = "panic1" -> Bad("the first call of Context() panicked")
    [] e.ev = "cancelled" ->
         IF c.ph # "armed" THEN Bad("harness: cancellation before Context() returned")
         ELSE IF c.canc # "none" THEN Bad("harness: cancellation reported twice")
         ELSE IF c.max = 0 THEN (IF c.hup THEN Bad("the context was cancelled by a signal the package does not handle")
                                 ELSE Bad("the context was cancelled although no SIGINT/SIGTERM was sent"))
         ELSE IF e.kind \notin c.first THEN Bad("the cancellation cause does not name the signal that was received")
         ELSE [c EXCEPT !.canc = e.kind, !.unacked = IF c.max = 1 THEN {} ELSE @]
    [] e.ev = "ctx2" -> IF c.ph # "armed" THEN Bad("harness: second Context() before the first") ELSE [c EXCEPT !.ask2 = TRUE]
    [] e.ev = "panic2" -> IF c.ask2 THEN [c EXCEPT !.got2 = TRUE] ELSE Bad("harness: panic2 without ctx2")
    [] e.ev = "nopanic2" -> Bad("the second call of Context() did not panic")
    [] e.ev = "exit" ->
         Outcome(c, IF e.sig # "none" THEN "sig-" \o e.sig ELSE IF e.code = 1 THEN "exit1" ELSE "exit-other")
    [] e.ev = "alive" ->
         IF e.done /\ c.ph = "armed" /\ c.max >= 1 /\ e.kind \notin c.first
         THEN Bad("the cancellation cause does not name the signal that was received")
         ELSE IF c.ask2 /\ ~c.got2 THEN Bad("harness: no answer to the second Context() call")
         ELSE Outcome(c, IF e.done THEN "alive-cancelled" ELSE "alive-live")
    [] e.ev = "end" -> Bad("no outcome recorded")
=============================================================================
