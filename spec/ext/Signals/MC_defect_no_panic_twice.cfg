SPECIFICATION Spec
CONSTANTS MaxSig = 3 Buf = 2 Handled = {"INT", "TERM"} TwicePanics = FALSE ExitCode = 1
INVARIANTS NotBad
CHECK_DEADLOCK FALSE
