SPECIFICATION FairSpec
CONSTANTS MaxSig = 4 Buf = 2 Handled = {"INT", "TERM"} TwicePanics = TRUE ExitCode = 1
INVARIANTS NotBad
PROPERTIES Finishes
CHECK_DEADLOCK FALSE
