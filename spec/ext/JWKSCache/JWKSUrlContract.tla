-------------------------- MODULE JWKSUrlContract --------------------------
(* X06 - jwkscache.JWKSCache with an HTTP(S) location: the contract of the   *)
(* initial fetch and of the background refresher as a deterministic monitor. *)
(* The server is owned by the harness; times are milliseconds since the      *)
(* scenario started (virtual clock for kind "refresh", real clock for kind   *)
(* "init").                                                                   *)
(*                                                                            *)
(*  reset     scen = "url", kind, initOK (the first answer is a well-formed  *)
(*            JWKS over a connection the client may trust), timeoutMs (the   *)
(*            request timeout), slackMs, minRefreshMs                         *)
(*  start     t          Start was called                                    *)
(*  fetch     t, resp    a request reached the server, which is going to      *)
(*            answer resp in {"okA","okB","e500","garbage","slow"} (slow: no  *)
(*            answer before the client gives up)                              *)
(*  ready     t, class   WaitForCacheReady returned {"nil","initerr",...}     *)
(*  keyset    t, val     KeySet() seen at a settled point: {"nil","A","B",    *)
(*            "other"}                                                        *)
(*  cancel    t          the harness cancels the context given to Start       *)
(*  start_ret t, class   Start returned                                       *)
(*  end                                                                       *)
(*  leak      goroutines started by the cache are still blocked although the  *)
(*            context was closed and Start returned (virtual-clock runs)      *)
EXTENDS Integers

Bad(why) == [bad |-> TRUE, why |-> why]
IsBad(c) == c.bad

UReset(e) ==
  [bad |-> FALSE, why |-> "", p |-> e,
   started |-> FALSE, nFetch |-> 0, lastFetchT |-> 0, lastResp |-> "none",
   cur |-> "nil",            \* the key set of the last successful fetch
   inited |-> "no",          \* "no" | "ok" | "failed"
   cancelled |-> FALSE, cancelT |-> 0, startRet |-> FALSE]

IsOK(resp) == resp \in {"okA", "okB"}
SetOf(resp) == IF resp = "okA" THEN "A" ELSE "B"

UFetch(c, e) ==
  IF ~c.started THEN Bad("fetched before Start was called")
  ELSE IF c.cancelled /\ e.t > c.cancelT THEN Bad("fetched after the context was closed")
  ELSE IF c.inited = "ok" /\ e.t - c.lastFetchT < c.p.minRefreshMs
       THEN Bad("refreshed sooner than the minimum refresh interval")
  ELSE [c EXCEPT !.nFetch = @ + 1, !.lastFetchT = e.t, !.lastResp = e.resp,
                 !.cur = IF IsOK(e.resp) THEN SetOf(e.resp) ELSE @]

UReady(c, e) ==
  IF c.inited # "no" THEN c     \* later waiters: judged by the local-source contract
  ELSE IF e.class = "nil"
  THEN (IF ~c.p.initOK THEN Bad("reported ready although the initial fetch cannot have succeeded")
        ELSE IF c.nFetch = 0 THEN Bad("reported ready without fetching the JWKS")
        ELSE [c EXCEPT !.inited = "ok"])
  ELSE IF e.class = "initerr"
  THEN (IF c.p.initOK /\ ~c.cancelled THEN Bad("initialisation failed although the server answered a well-formed JWKS")
        ELSE IF c.lastResp = "slow" /\ e.t - c.lastFetchT > c.p.timeoutMs + c.p.slackMs
             THEN Bad("the initial fetch did not honour the request timeout")
        ELSE [c EXCEPT !.inited = "failed"])
  ELSE IF e.class = "never" THEN Bad("initialisation was still not reported long after the request timeout had passed")
  ELSE Bad("WaitForCacheReady returned an unexpected result")

UKeySet(c, e) ==
  IF e.val = "panic" THEN Bad("KeySet panicked")
  ELSE IF c.inited # "ok" THEN c
  ELSE IF e.val = c.cur THEN c
  ELSE IF ~IsOK(c.lastResp) THEN Bad("a failed refresh dropped or replaced the previous key set")
  ELSE Bad("the key set is not the one fetched last")

UStartRet(c, e) ==
  IF e.class = "nil" /\ ~c.cancelled THEN Bad("Start returned nil before its context ended")
  ELSE IF e.class = "nil" /\ ~c.p.initOK THEN Bad("Start returned nil although the initial fetch cannot have succeeded")
  ELSE IF e.class = "initerr" /\ c.p.initOK /\ ~c.cancelled THEN Bad("Start failed although the server answered a well-formed JWKS")
  ELSE IF e.class \notin {"nil", "initerr"} THEN Bad("Start panicked or returned an unexpected error")
  ELSE [c EXCEPT !.startRet = TRUE]

UEnd(c) == IF ~c.startRet THEN Bad("Start did not return after its context ended") ELSE c

UNext(c, e) ==
  IF e.ev = "reset" THEN UReset(e)
  ELSE IF IsBad(c) THEN c
  ELSE CASE e.ev = "start"     -> [c EXCEPT !.started = TRUE]
         [] e.ev = "fetch"     -> UFetch(c, e)
         [] e.ev = "ready"     -> UReady(c, e)
         [] e.ev = "keyset"    -> UKeySet(c, e)
         [] e.ev = "cancel"    -> [c EXCEPT !.cancelled = TRUE, !.cancelT = e.t]
         [] e.ev = "start_ret" -> UStartRet(c, e)
         [] e.ev = "end"       -> UEnd(c)
         [] e.ev = "leak"      -> Bad("goroutines of the cache remain blocked after the context was closed")
=============================================================================
