SPECIFICATION Spec
CONSTANTS MaxScript = 2 Ticks = 6 IgnoreMin = FALSE DropOnFail = TRUE
INVARIANTS NotBad
CHECK_DEADLOCK FALSE
