SPECIFICATION Spec
CONSTANTS MaxScript = 4 Ticks = 8 IgnoreMin = FALSE DropOnFail = FALSE
INVARIANTS NotBad
CHECK_DEADLOCK FALSE
