--------------------------- MODULE JWKSContract ---------------------------
(* X06 - jwkscache.JWKSCache: the contract of Start / WaitForCacheReady /    *)
(* KeySet as a deterministic monitor over the observable events of ONE cache *)
(* instance used from several goroutines.  Every *_call event is recorded    *)
(* immediately before the call, every *_ret immediately after the return,    *)
(* all under one mutex.                                                      *)
(*                                                                            *)
(*  reset       scen = "local", src in {"good","bad"} (is the configured      *)
(*              location a well-formed JWKS), kind (how it was given)         *)
(*  start_call  id            start_ret  id, class in {"nil","initerr",       *)
(*                                        "already","panic","other"}          *)
(*  wait_call   id, done (the context passed is already done)                *)
(*  wait_ret    id, class in {"nil","initerr","ctxerr","panic","other"}       *)
(*  wcancel     id            the harness cancels that waiter's context       *)
(*  cancel                    the harness cancels the context given to Start  *)
(*  keyset_call id            keyset_ret id, val in {"nil","set","panic"},    *)
(*                            ok (val = "set": exactly the configured keys)   *)
(*  quiescent   initing       every goroutine of the cache and of the harness *)
(*              is blocked; initing: some goroutine is still inside initCache *)
(*  end                                                                       *)
EXTENDS Naturals, FiniteSets

Bad(why) == [bad |-> TRUE, why |-> why]
IsBad(c) == c.bad

CReset(e) ==
  [bad |-> FALSE, why |-> "", src |-> e.src,
   sCalled |-> {}, sPending |-> {}, sReturned |-> {}, refused |-> {},
   inits |-> 0,                 \* Starts that returned as the initialiser (class nil / initerr)
   mainCancelled |-> FALSE,
   ready |-> FALSE,             \* some WaitForCacheReady returned nil
   wPending |-> {}, wDone |-> {},
   kPending |-> {}]             \* records [id, ready]: was the cache reported ready before the call

CStartCall(c, e) == [c EXCEPT !.sCalled = @ \cup {e.id}, !.sPending = @ \cup {e.id}]

CStartRet(c, e) ==
  LET d == [c EXCEPT !.sPending = @ \ {e.id}, !.sReturned = @ \cup {e.id}] IN
  IF e.class = "panic"
  THEN (IF c.sCalled \ {e.id} # {} THEN Bad("a further Start panicked instead of being refused")
        ELSE IF c.mainCancelled THEN Bad("Start panicked when its context had ended")
        ELSE Bad("Start panicked"))
  ELSE IF e.class = "other" THEN Bad("Start returned an unexpected error")
  ELSE IF e.class = "already"
  THEN (IF c.sCalled \ {e.id} = {} THEN Bad("the only Start was refused as already running")
        ELSE [d EXCEPT !.refused = @ \cup {e.id}])
  ELSE IF c.inits >= 1 THEN Bad("a second Start initialised the cache again")
  ELSE IF e.class = "nil"
  THEN (IF c.src = "bad" THEN Bad("Start returned nil although the configured JWKS is malformed")
        ELSE IF ~c.mainCancelled THEN Bad("Start returned nil before its context ended")
        ELSE [d EXCEPT !.inits = 1])
  ELSE \* initerr
       (IF c.src = "good" /\ ~c.mainCancelled THEN Bad("Start failed to initialise from a well-formed JWKS")
        ELSE [d EXCEPT !.inits = 1])

CWaitCall(c, e) == [c EXCEPT !.wPending = @ \cup {e.id}, !.wDone = IF e.done THEN @ \cup {e.id} ELSE @]

CWaitRet(c, e) ==
  LET d == [c EXCEPT !.wPending = @ \ {e.id}] IN
  IF e.class = "nil"
  THEN (IF c.sCalled = {} THEN Bad("WaitForCacheReady returned nil before Start was called")
        ELSE IF c.src = "bad" THEN Bad("WaitForCacheReady returned nil although initialisation failed")
        ELSE [d EXCEPT !.ready = TRUE])
  ELSE IF e.class = "initerr"
  THEN (IF c.sCalled = {} THEN Bad("WaitForCacheReady returned an init error before Start was called")
        ELSE IF c.src = "good" /\ ~c.mainCancelled THEN Bad("WaitForCacheReady reported an init error for a well-formed JWKS")
        ELSE d)
  ELSE IF e.class = "ctxerr"
  THEN (IF e.id \notin c.wDone THEN Bad("WaitForCacheReady returned a context error but its context is live") ELSE d)
  ELSE Bad("WaitForCacheReady panicked or returned an unexpected error")

CKeySetCall(c, e) == [c EXCEPT !.kPending = @ \cup {[id |-> e.id, ready |-> c.ready]}]

CKeySetRet(c, e) ==
  LET r == CHOOSE r \in c.kPending : r.id = e.id
      d == [c EXCEPT !.kPending = @ \ {r}] IN
  IF e.val = "nil" THEN (IF r.ready THEN Bad("KeySet returned nil after WaitForCacheReady reported the cache ready") ELSE d)
  ELSE IF e.val = "set"
  THEN (IF c.sCalled = {} THEN Bad("KeySet returned a key set before Start was called")
        ELSE IF c.src = "good" /\ ~e.ok THEN Bad("KeySet is not the key set that was configured")
        ELSE d)
  ELSE Bad("KeySet panicked")

CQuiescent(c, e) ==
  IF e.initing THEN c
  ELSE IF c.wPending \cap c.wDone # {} THEN Bad("WaitForCacheReady still blocked although its context ended")
  ELSE IF c.wPending # {} /\ c.sCalled # {} THEN Bad("WaitForCacheReady still blocked although initialisation finished")
  ELSE IF c.mainCancelled /\ c.sPending # {} THEN Bad("Start still blocked although its context ended")
  ELSE IF Cardinality(c.sPending) >= 2 THEN Bad("two Starts are running at the same time")
  ELSE IF c.src = "bad" /\ c.sPending # {} THEN Bad("Start still blocked although initialisation failed")
  ELSE c

CEnd(c) ==
  IF c.sPending # {} \/ c.wPending # {} \/ c.kPending # {} THEN Bad("harness: operations pending at the end")
  ELSE IF c.sCalled # {} /\ c.refused = c.sCalled THEN Bad("every Start was refused: nobody initialised the cache")
  ELSE c

CNext(c, e) ==
  IF e.ev = "reset" THEN CReset(e)
  ELSE IF IsBad(c) THEN c
  ELSE CASE e.ev = "start_call"  -> CStartCall(c, e)
         [] e.ev = "start_ret"   -> CStartRet(c, e)
         [] e.ev = "wait_call"   -> CWaitCall(c, e)
         [] e.ev = "wait_ret"    -> CWaitRet(c, e)
         [] e.ev = "wcancel"     -> [c EXCEPT !.wDone = @ \cup {e.id}]
         [] e.ev = "cancel"      -> [c EXCEPT !.mainCancelled = TRUE]
         [] e.ev = "keyset_call" -> CKeySetCall(c, e)
         [] e.ev = "keyset_ret"  -> CKeySetRet(c, e)
         [] e.ev = "quiescent"   -> CQuiescent(c, e)
         [] e.ev = "end"         -> CEnd(c)
=============================================================================
