----------------------------- MODULE TraceJWKS -----------------------------
(* Validates recorded executions of the real jwkscache.JWKSCache (local      *)
(* sources: JSON, base64, files) against the X06 contract monitor.  One      *)
(* behaviour per recorded run (reset line); the monitor is deterministic.     *)
EXTENDS JWKSContract, TraceLib

Trace == LoadTrace("trace.ndjson")
Starts == {i \in 1..Len(Trace) : Trace[i].ev = "reset"}
VARIABLES l, c
TInit == l \in Starts /\ c = CReset(Trace[l])
TNext == /\ ~IsBad(c)
         /\ l + 1 <= Len(Trace)
         /\ Trace[l + 1].ev # "reset"
         /\ c' = CNext(c, Trace[l + 1])
         /\ l' = l + 1
TSpec == TInit /\ [][TNext]_<<l, c>>
Report == IF IsBad(c) THEN RejectLine(l, c.why) ELSE TRUE
=============================================================================
