SPECIFICATION Spec
CONSTANTS MaxScript = 2 Ticks = 6 IgnoreMin = TRUE DropOnFail = FALSE
INVARIANTS NotBad
CHECK_DEADLOCK FALSE
