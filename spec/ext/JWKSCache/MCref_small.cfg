SPECIFICATION Spec
CONSTANTS MaxScript = 3 Ticks = 6 IgnoreMin = FALSE DropOnFail = FALSE
INVARIANTS NotBad
CHECK_DEADLOCK FALSE
