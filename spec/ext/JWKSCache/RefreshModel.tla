---------------------------- MODULE RefreshModel ----------------------------
(* X06 - implementation-shaped model of the URL path of jwkscache: the        *)
(* initial fetch (jwk.Cache.Refresh) and the background refresher of          *)
(* lestrrat-go/httprc as used by the package: a ticker with the default       *)
(* 15-minute window re-fetches every entry whose fireAt has passed; after a   *)
(* fetch the next fireAt is now + max(minimum refresh interval, Cache-Control *)
(* max-age), after a failed fetch now + minimum refresh interval; a failed    *)
(* fetch leaves the cached set alone; everything stops with the context.      *)
(* Time is in minutes here, in milliseconds in the events.  The model feeds   *)
(* JWKSUrlContract; TLC explores every case and writes url_cases.ndjson for   *)
(* the replay on the real code (virtual clock).                               *)
(*   IgnoreMin = TRUE: defect - max-age is used even below the minimum        *)
(*   DropOnFail = TRUE: defect - a failed refresh clears the cached set       *)
EXTENDS JWKSUrlContract, Sequences, FiniteSets, TLC, Json, SequencesExt

CONSTANTS MaxScript, Ticks, IgnoreMin, DropOnFail
Window == 15
Resps == {"okA", "okB", "e500", "garbage", "slow"}
FirstResps == {"okA", "e500", "garbage", "slow"}
MinRefreshes == {10, 20, 60}          \* minutes
MaxAges == {0, 1, 60}                 \* minutes (0: no Cache-Control header)
TimeoutMs == 2000

Scripts == UNION {{<<f>> \o s : f \in FirstResps, s \in [1..n -> Resps]} : n \in 0..MaxScript - 1}
CancelTicks == {0, 2, 4}
Case(s, mr, ma, ct) == [script |-> s, minRefreshMin |-> mr, maxAgeMin |-> ma, cancelTick |-> ct, ticks |-> Ticks]

VARIABLES x, now, i, fireAt, cached, cancelled, tick, pc, c
vars == <<x, now, i, fireAt, cached, cancelled, tick, pc, c>>

Resp(k) == IF k <= Len(x.script) THEN x.script[k] ELSE x.script[Len(x.script)]
Ms(min) == min * 60000
MaxOf(a, b) == IF a > b THEN a ELSE b
NextFire(ok) ==
  IF ok /\ x.maxAgeMin > 0
  THEN (IF IgnoreMin THEN now + x.maxAgeMin ELSE now + MaxOf(x.maxAgeMin, x.minRefreshMin))
  ELSE now + x.minRefreshMin

ResetEv == [ev |-> "reset", scen |-> "url", kind |-> "refresh", initOK |-> IsOK(x.script[1]), timeoutMs |-> TimeoutMs,
            slackMs |-> 50, minRefreshMs |-> Ms(x.minRefreshMin)]

Init ==
  /\ \E s \in Scripts, mr \in MinRefreshes, ma \in MaxAges, ct \in CancelTicks : x = Case(s, mr, ma, ct)
  /\ now = 0 /\ i = 1 /\ fireAt = 0 /\ cached = "nil" /\ cancelled = FALSE /\ tick = 0 /\ pc = "start"
  /\ c = UReset(ResetEv)

Feed(m, evs) == LET F[k \in 0..Len(evs)] == IF k = 0 THEN m ELSE UNext(F[k - 1], evs[k]) IN F[Len(evs)]

(* Start: register, fetch right away, report *)
Start ==
  /\ pc = "start"
  /\ LET r == Resp(1)
         ok == IsOK(r)
         tr == IF r = "slow" THEN TimeoutMs ELSE 0
     IN /\ cached' = IF ok THEN SetOf(r) ELSE "nil"
        /\ fireAt' = NextFire(ok)
        /\ c' = Feed(c, <<[ev |-> "start", t |-> 0], [ev |-> "fetch", t |-> 0, resp |-> r],
                          [ev |-> "ready", t |-> tr, class |-> IF ok THEN "nil" ELSE "initerr"],
                          [ev |-> "keyset", t |-> tr, val |-> IF ok THEN SetOf(r) ELSE "nil"]>>)
        /\ pc' = IF ok THEN "run" ELSE "stop"
  /\ i' = 2
  /\ UNCHANGED <<x, now, cancelled, tick>>

(* one period of the refresh ticker, then an observation of KeySet *)
Tick ==
  /\ pc = "run" /\ tick < x.ticks
  /\ now' = now + Window /\ tick' = tick + 1
  /\ IF ~cancelled /\ fireAt <= now + Window
     THEN LET r == Resp(i)
              ok == IsOK(r)
              nc == IF ok THEN SetOf(r) ELSE IF DropOnFail THEN "nil" ELSE cached
          IN /\ cached' = nc /\ i' = i + 1
             /\ fireAt' = (IF ok /\ x.maxAgeMin > 0
                           THEN (IF IgnoreMin THEN now + Window + x.maxAgeMin ELSE now + Window + MaxOf(x.maxAgeMin, x.minRefreshMin))
                           ELSE now + Window + x.minRefreshMin)
             /\ c' = Feed(c, <<[ev |-> "fetch", t |-> Ms(now + Window), resp |-> r],
                               [ev |-> "keyset", t |-> Ms(now + Window) + 30000, val |-> nc]>>)
     ELSE /\ UNCHANGED <<cached, i, fireAt>>
          /\ c' = UNext(c, [ev |-> "keyset", t |-> Ms(now + Window) + 30000, val |-> cached])
  /\ IF x.cancelTick = tick + 1 THEN pc' = "cancel" ELSE pc' = "run"
  /\ UNCHANGED <<x, cancelled>>

Cancel ==
  /\ pc = "cancel"
  /\ cancelled' = TRUE
  /\ c' = UNext(c, [ev |-> "cancel", t |-> Ms(now) + 30000])
  /\ pc' = "run"
  /\ UNCHANGED <<x, now, i, fireAt, cached, tick>>

Stop ==
  /\ \/ pc = "stop" \/ (pc = "run" /\ tick = x.ticks)
  /\ c' = Feed(c, (IF cancelled THEN <<>> ELSE <<[ev |-> "cancel", t |-> Ms(now) + 40000]>>)
                  \o <<[ev |-> "start_ret", t |-> Ms(now) + 40000, class |-> IF pc = "stop" THEN "initerr" ELSE "nil"], [ev |-> "end"]>>)
  /\ cancelled' = TRUE /\ pc' = "done"
  /\ UNCHANGED <<x, now, i, fireAt, cached, tick>>

Next == Start \/ Tick \/ Cancel \/ Stop
Spec == Init /\ [][Next]_vars
NotBad == ~IsBad(c)
GapInv == TRUE

ScriptSeq == SetToSeq(Scripts)
CasesOf(s) == {Case(s, mr, ma, ct) : mr \in MinRefreshes, ma \in MaxAges, ct \in CancelTicks}
CaseSeq == FlattenSeq([k \in 1..Len(ScriptSeq) |-> SetToSeq(CasesOf(ScriptSeq[k]))])
ASSUME PrintT(<<"URL-CASES", Len(CaseSeq)>>)
ASSUME ndJsonSerialize("url_cases.ndjson", CaseSeq)
=============================================================================
