SPECIFICATION Spec
CONSTANTS NS = 2 NW = 2 NR = 1 StartOnceFix = TRUE ProgLen = 3 WaitFix = TRUE
INVARIANTS NotBad ReadyStable NoSendBlocks
CHECK_DEADLOCK FALSE
