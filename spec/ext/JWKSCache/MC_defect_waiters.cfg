SPECIFICATION Spec
CONSTANTS NS = 1 NW = 2 NR = 1 StartOnceFix = TRUE ProgLen = 1 WaitFix = FALSE
INVARIANTS NotBad
CHECK_DEADLOCK FALSE
