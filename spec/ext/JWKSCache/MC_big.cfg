SPECIFICATION Spec
CONSTANTS NS = 3 NW = 2 NR = 2 StartOnceFix = TRUE ProgLen = 6 WaitFix = TRUE
INVARIANTS NotBad ReadyStable NoSendBlocks
CHECK_DEADLOCK FALSE
