------------------------------ MODULE JWKSImpl ------------------------------
(* X06 - implementation-shaped model of jwkscache.JWKSCache for a local      *)
(* source: the `running` flag (CompareAndSwap / deferred Store(false)), the  *)
(* buffered channel initCh (capacity 1: the init error is sent, then the     *)
(* channel is closed), the jwks field, the context given to Start and the    *)
(* contexts of the waiters.  Starters, waiters and readers are separate      *)
(* goroutines taking atomic steps in any order; every call / return feeds    *)
(* the monitor of JWKSContract.                                               *)
(*   StartOnceFix = FALSE: the code as found - `running` is reset when Start *)
(*     returns, so a later Start initialises again and closes (or sends on)  *)
(*     the closed initCh: panic.  TRUE: a started cache refuses every further*)
(*     Start.                                                                 *)
(*   WaitFix = FALSE: the code as found - only the first receiver gets the   *)
(*     init error from initCh, later receivers read the zero value (nil) of  *)
(*     the closed channel.  TRUE: the init error is kept and handed to every *)
(*     waiter.                                                                *)
EXTENDS JWKSContract, Sequences, TLC, Json, SequencesExt

CONSTANTS NS, NW, NR, StartOnceFix, WaitFix, ProgLen
Starters == 1..NS
Waiters == 1..NW
Readers == 1..NR

VARIABLES src, running, started, chBuf, chClosed, initErr, jwks, mainC, pcS, pcW, wDone, pcR, rSeen, c
vars == <<src, running, started, chBuf, chClosed, initErr, jwks, mainC, pcS, pcW, wDone, pcR, rSeen, c>>

Ev(name) == [ev |-> name]
Init ==
  /\ src \in {"good", "bad"}
  /\ running = FALSE /\ started = FALSE /\ chBuf = 0 /\ chClosed = FALSE /\ initErr = FALSE
  /\ jwks = "nil" /\ mainC = FALSE
  /\ pcS = [i \in Starters |-> "idle"] /\ pcW = [j \in Waiters |-> "idle"] /\ wDone = {}
  /\ pcR = [r \in Readers |-> "idle"] /\ rSeen = [r \in Readers |-> "nil"]
  /\ c = CReset([ev |-> "reset", scen |-> "local", src |-> src, kind |-> "model"])

(* ---- Start ---- *)
SCall(i) == /\ pcS[i] = "idle"
            /\ pcS' = [pcS EXCEPT ![i] = "cas"]
            /\ c' = CNext(c, [ev |-> "start_call", id |-> i])
            /\ UNCHANGED <<src, running, started, chBuf, chClosed, initErr, jwks, mainC, pcW, wDone, pcR, rSeen>>
SCas(i) == /\ pcS[i] = "cas"
           /\ IF running \/ (StartOnceFix /\ started)
              THEN pcS' = [pcS EXCEPT ![i] = "ret_already"] /\ UNCHANGED <<running, started>>
              ELSE pcS' = [pcS EXCEPT ![i] = "init"] /\ running' = TRUE /\ started' = TRUE
           /\ UNCHANGED <<src, chBuf, chClosed, initErr, jwks, mainC, pcW, wDone, pcR, rSeen, c>>
SInit(i) == /\ pcS[i] = "init"
            /\ IF src = "good" THEN jwks' = "set" /\ pcS' = [pcS EXCEPT ![i] = "close_ok"] /\ UNCHANGED initErr
               ELSE IF WaitFix THEN initErr' = TRUE /\ pcS' = [pcS EXCEPT ![i] = "close_err"] /\ UNCHANGED jwks
               ELSE pcS' = [pcS EXCEPT ![i] = "send"] /\ UNCHANGED <<jwks, initErr>>
            /\ UNCHANGED <<src, running, started, chBuf, chClosed, mainC, pcW, wDone, pcR, rSeen, c>>
SSend(i) == /\ pcS[i] = "send"          \* c.initCh <- err
            /\ \/ /\ chClosed           \* send on closed channel: panic; the deferred running.Store(false) runs
                  /\ pcS' = [pcS EXCEPT ![i] = "ret_panic"] /\ running' = FALSE /\ UNCHANGED chBuf
               \/ /\ ~chClosed /\ chBuf = 0
                  /\ chBuf' = 1 /\ pcS' = [pcS EXCEPT ![i] = "close_err"] /\ UNCHANGED running
            /\ UNCHANGED <<src, started, chClosed, initErr, jwks, mainC, pcW, wDone, pcR, rSeen, c>>
SClose(i) == /\ pcS[i] \in {"close_ok", "close_err"}     \* close(c.initCh)
             /\ IF chClosed
                THEN pcS' = [pcS EXCEPT ![i] = "ret_panic"] /\ running' = FALSE /\ UNCHANGED chClosed
                ELSE /\ chClosed' = TRUE
                     /\ IF pcS[i] = "close_ok" THEN pcS' = [pcS EXCEPT ![i] = "block"] /\ UNCHANGED running
                        ELSE pcS' = [pcS EXCEPT ![i] = "ret_initerr"] /\ running' = FALSE
             /\ UNCHANGED <<src, started, chBuf, initErr, jwks, mainC, pcW, wDone, pcR, rSeen, c>>
SBlock(i) == /\ pcS[i] = "block" /\ mainC        \* <-ctx.Done()
             /\ pcS' = [pcS EXCEPT ![i] = "ret_nil"] /\ running' = FALSE
             /\ UNCHANGED <<src, started, chBuf, chClosed, initErr, jwks, mainC, pcW, wDone, pcR, rSeen, c>>
RetClass(pc) == CASE pc = "ret_nil" -> "nil" [] pc = "ret_initerr" -> "initerr" [] pc = "ret_already" -> "already"
                  [] pc = "ret_panic" -> "panic" [] pc = "ret_ctxerr" -> "ctxerr"
SRet(i) == /\ pcS[i] \in {"ret_nil", "ret_initerr", "ret_already", "ret_panic"}
           /\ c' = CNext(c, [ev |-> "start_ret", id |-> i, class |-> RetClass(pcS[i])])
           /\ pcS' = [pcS EXCEPT ![i] = "done"]
           /\ UNCHANGED <<src, running, started, chBuf, chClosed, initErr, jwks, mainC, pcW, wDone, pcR, rSeen>>

(* ---- WaitForCacheReady: select { <-ctx.Done() ; err := <-c.initCh } ---- *)
WCall(j) == /\ pcW[j] = "idle"
            /\ \E done \in BOOLEAN :
                 /\ c' = CNext(c, [ev |-> "wait_call", id |-> j, done |-> done])
                 /\ wDone' = IF done THEN wDone \cup {j} ELSE wDone
            /\ pcW' = [pcW EXCEPT ![j] = "sel"]
            /\ UNCHANGED <<src, running, started, chBuf, chClosed, initErr, jwks, mainC, pcS, pcR, rSeen>>
WSel(j) == /\ pcW[j] = "sel"
           /\ \/ /\ j \in wDone /\ pcW' = [pcW EXCEPT ![j] = "ret_ctxerr"] /\ UNCHANGED chBuf
              \/ /\ chBuf > 0 /\ chBuf' = 0 /\ pcW' = [pcW EXCEPT ![j] = "ret_initerr"]
              \/ /\ chBuf = 0 /\ chClosed /\ UNCHANGED chBuf
                 /\ pcW' = [pcW EXCEPT ![j] = IF WaitFix /\ initErr THEN "ret_initerr" ELSE "ret_nil"]
           /\ UNCHANGED <<src, running, started, chClosed, initErr, jwks, mainC, pcS, wDone, pcR, rSeen, c>>
WRet(j) == /\ pcW[j] \in {"ret_nil", "ret_initerr", "ret_ctxerr"}
           /\ c' = CNext(c, [ev |-> "wait_ret", id |-> j, class |-> RetClass(pcW[j])])
           /\ pcW' = [pcW EXCEPT ![j] = "done"]
           /\ UNCHANGED <<src, running, started, chBuf, chClosed, initErr, jwks, mainC, pcS, wDone, pcR, rSeen>>
WCancel(j) == /\ pcW[j] # "idle" /\ j \notin wDone
              /\ wDone' = wDone \cup {j}
              /\ c' = CNext(c, [ev |-> "wcancel", id |-> j])
              /\ UNCHANGED <<src, running, started, chBuf, chClosed, initErr, jwks, mainC, pcS, pcW, pcR, rSeen>>

(* ---- KeySet ---- *)
KCall(r) == /\ pcR[r] = "idle" /\ pcR' = [pcR EXCEPT ![r] = "read"]
            /\ c' = CNext(c, [ev |-> "keyset_call", id |-> r])
            /\ UNCHANGED <<src, running, started, chBuf, chClosed, initErr, jwks, mainC, pcS, pcW, wDone, rSeen>>
KRead(r) == /\ pcR[r] = "read" /\ pcR' = [pcR EXCEPT ![r] = "ret"] /\ rSeen' = [rSeen EXCEPT ![r] = jwks]
            /\ UNCHANGED <<src, running, started, chBuf, chClosed, initErr, jwks, mainC, pcS, pcW, wDone, c>>
KRet(r) == /\ pcR[r] = "ret" /\ pcR' = [pcR EXCEPT ![r] = "done"]
           /\ c' = CNext(c, [ev |-> "keyset_ret", id |-> r, val |-> rSeen[r], ok |-> TRUE])
           /\ UNCHANGED <<src, running, started, chBuf, chClosed, initErr, jwks, mainC, pcS, pcW, wDone, rSeen>>

Cancel == /\ ~mainC /\ mainC' = TRUE
          /\ c' = CNext(c, Ev("cancel"))
          /\ UNCHANGED <<src, running, started, chBuf, chClosed, initErr, jwks, pcS, pcW, wDone, pcR, rSeen>>

(* every goroutine that was started is blocked or finished *)
BlockedS(i) == pcS[i] \in {"idle", "done"} \/ (pcS[i] = "block" /\ ~mainC)
BlockedW(j) == pcW[j] \in {"idle", "done"} \/ (pcW[j] = "sel" /\ j \notin wDone /\ chBuf = 0 /\ ~chClosed)
BlockedR(r) == pcR[r] \in {"idle", "done"}
Quiet == (\A i \in Starters : BlockedS(i)) /\ (\A j \in Waiters : BlockedW(j)) /\ (\A r \in Readers : BlockedR(r))
Quiescent == /\ Quiet
             /\ c' = CNext(c, [ev |-> "quiescent", initing |-> FALSE])
             /\ UNCHANGED <<src, running, started, chBuf, chClosed, initErr, jwks, mainC, pcS, pcW, wDone, pcR, rSeen>>

Next == \/ \E i \in Starters : SCall(i) \/ SCas(i) \/ SInit(i) \/ SSend(i) \/ SClose(i) \/ SBlock(i) \/ SRet(i)
        \/ \E j \in Waiters : WCall(j) \/ WSel(j) \/ WRet(j) \/ WCancel(j)
        \/ \E r \in Readers : KCall(r) \/ KRead(r) \/ KRet(r)
        \/ Cancel \/ Quiescent
Spec == Init /\ [][Next]_vars

NotBad == ~IsBad(c)
(* the state machine uninitialised -> initialising -> ready | failed never goes back *)
ReadyStable == (chClosed /\ src = "good") => jwks = "set"
NoSendBlocks == chBuf <= 1

(* ---- driver programs for the real code: every order of client operations  *)
(* up to length ProgLen.  S: Start in a new goroutine; W / Wd: WaitForCacheReady *)
(* in a new goroutine with a live / an already cancelled context; K: KeySet;  *)
(* C: cancel the context of the Starts; Cw: cancel the context of the oldest  *)
(* waiter still having a live one.  The harness launches them one by one      *)
(* (waiting for quiescence in between) or all at once.                        *)
Ops == {"S", "W", "Wd", "K", "C", "Cw"}
Count(p, o) == Cardinality({k \in 1..Len(p) : p[k] = o})
ValidProg(p) ==
  /\ Count(p, "S") <= 3 /\ Count(p, "C") <= 1 /\ Count(p, "K") <= 3
  /\ Count(p, "W") + Count(p, "Wd") <= 3
  /\ \A k \in 1..Len(p) : p[k] = "Cw" =>
        Count(SubSeq(p, 1, k), "Cw") <= Count(SubSeq(p, 1, k), "W")
Progs == {p \in UNION {[1..n -> Ops] : n \in 1..ProgLen} : ValidProg(p)}
ProgSeq == LET q == SetToSeq(Progs) IN [k \in 1..Len(q) |-> [ops |-> q[k]]]
ASSUME PrintT(<<"PROGRAMS", Len(ProgSeq)>>)
ASSUME ndJsonSerialize("programs.ndjson", ProgSeq)
=============================================================================
