SPECIFICATION Spec
CONSTANTS NS = 2 NW = 1 NR = 1 StartOnceFix = FALSE ProgLen = 1 WaitFix = TRUE
INVARIANTS NotBad
CHECK_DEADLOCK FALSE
