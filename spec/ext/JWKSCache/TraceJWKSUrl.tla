---------------------------- MODULE TraceJWKSUrl ----------------------------
(* Validates recorded executions of the real jwkscache.JWKSCache against a   *)
(* harness-owned HTTP(S) server (URL locations) against JWKSUrlContract.      *)
EXTENDS JWKSUrlContract, TraceLib

Trace == LoadTrace("trace.ndjson")
Starts == {i \in 1..Len(Trace) : Trace[i].ev = "reset"}
VARIABLES l, c
TInit == l \in Starts /\ c = UReset(Trace[l])
TNext == /\ ~IsBad(c)
         /\ l + 1 <= Len(Trace)
         /\ Trace[l + 1].ev # "reset"
         /\ c' = UNext(c, Trace[l + 1])
         /\ l' = l + 1
TSpec == TInit /\ [][TNext]_<<l, c>>
Report == IF IsBad(c) THEN RejectLine(l, c.why) ELSE TRUE
=============================================================================
