SPECIFICATION Spec
CONSTANTS Tier = "small" Strict = FALSE Impl = "created-unknown-status"
INVARIANTS NotBad
CHECK_DEADLOCK FALSE
