SPECIFICATION TSpec
CONSTANTS Tier = "big" Strict = TRUE
CONSTRAINT Report
CHECK_DEADLOCK FALSE
