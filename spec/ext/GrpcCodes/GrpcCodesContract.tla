-------------------------- MODULE GrpcCodesContract --------------------------
(* X11 - github.com/dapr/kit/grpccodes: the two mappings between gRPC status *)
(* codes and HTTP response statuses, as DOCUMENTED by the sources the file   *)
(* cites (the tables below are typed in from those documents, not from the   *)
(* Go code):                                                                  *)
(*                                                                            *)
(*  HTTPStatusFromCode  "converts a gRPC error code into the corresponding   *)
(*    HTTP response status. ... See: googleapis/google/rpc/code.proto"        *)
(*    -> the "HTTP Mapping:" line of every enum value of code.proto           *)
(*    (DocStatus), and the enum numbers of code.proto (CodeName); a number   *)
(*    that code.proto does not define is handled like UNKNOWN (500) by the   *)
(*    grpc-gateway function the comment points to (and by the package test). *)
(*                                                                            *)
(*  CodeFromHTTPStatus  "converts http status code to gRPC status code. See: *)
(*    grpc/doc/http-grpc-status-mapping.md" -> the table of that document    *)
(*    (CitedRev; "All other codes -> UNKNOWN").  The document is written for *)
(*    a gRPC client that got a response without grpc-status and says itself  *)
(*    that it is "neither symmetric nor 1-to-1"; the package also offers the *)
(*    function as the counterpart of HTTPStatusFromCode.  The verdict of the *)
(*    check therefore accepts, for a status h, the code of the cited table   *)
(*    OR any code whose documented status (code.proto) is h OR - for a 2xx   *)
(*    status - OK (Strict = FALSE).  With Strict = TRUE only the cited table *)
(*    is accepted: the harness lists those additional deviations for         *)
(*    information (DOC-DEVIATION lines), they do not change the verdict.     *)
(*                                                                            *)
(* Families of cases: doc (the table itself against the vendored code.proto), *)
(* fwd (one code), rev (one status), law (laws that hold  *)
(* under every reading of the documents, evaluated on the OBSERVED tables of *)
(* the real functions: totality, success is mapped to success and only       *)
(* success is, both compositions keep a failure a failure, purity).          *)
(* A recorded run is: reset(id, fam, fed) ; obs(cls, val, msg) ; end.        *)
EXTENDS Integers, Sequences, FiniteSets, TLC

CONSTANTS Tier,        \* "small" (quick tier) | "big" (thorough tier)
          Strict       \* TRUE: CodeFromHTTPStatus must follow the cited table to the letter
Big == Tier = "big"

(* ---------------- google/rpc/code.proto ---------------- *)
(* enum Code: the number of a code is its position - 1 (UNAUTHENTICATED = 16) *)
CodeName == << "OK", "Canceled", "Unknown", "InvalidArgument", "DeadlineExceeded", "NotFound", "AlreadyExists",
               "PermissionDenied", "ResourceExhausted", "FailedPrecondition", "Aborted", "OutOfRange",
               "Unimplemented", "Internal", "Unavailable", "DataLoss", "Unauthenticated" >>
ProtoName == << "OK", "CANCELLED", "UNKNOWN", "INVALID_ARGUMENT", "DEADLINE_EXCEEDED", "NOT_FOUND", "ALREADY_EXISTS",
                "PERMISSION_DENIED", "RESOURCE_EXHAUSTED", "FAILED_PRECONDITION", "ABORTED", "OUT_OF_RANGE",
                "UNIMPLEMENTED", "INTERNAL", "UNAVAILABLE", "DATA_LOSS", "UNAUTHENTICATED" >>   \* the spelling of code.proto
MaxCode == Len(CodeName) - 1
Defined(n) == n \in 0..MaxCode
NameOf(n) == IF Defined(n) THEN CodeName[n + 1] ELSE "Code(" \o ToString(n) \o ")"   \* the spelling of codes.Code.String()
NumOf(name) == CHOOSE n \in 0..MaxCode : CodeName[n + 1] = name

(* "HTTP Mapping:" lines of code.proto *)
DocStatus == [ OK |-> 200,                   \* HTTP Mapping: 200 OK
               Canceled |-> 499,             \* HTTP Mapping: 499 Client Closed Request
               Unknown |-> 500,              \* HTTP Mapping: 500 Internal Server Error
               InvalidArgument |-> 400,      \* HTTP Mapping: 400 Bad Request
               DeadlineExceeded |-> 504,     \* HTTP Mapping: 504 Gateway Timeout
               NotFound |-> 404,             \* HTTP Mapping: 404 Not Found
               AlreadyExists |-> 409,        \* HTTP Mapping: 409 Conflict
               PermissionDenied |-> 403,     \* HTTP Mapping: 403 Forbidden
               Unauthenticated |-> 401,      \* HTTP Mapping: 401 Unauthorized
               ResourceExhausted |-> 429,    \* HTTP Mapping: 429 Too Many Requests
               FailedPrecondition |-> 400,   \* HTTP Mapping: 400 Bad Request
               Aborted |-> 409,              \* HTTP Mapping: 409 Conflict
               OutOfRange |-> 400,           \* HTTP Mapping: 400 Bad Request
               Unimplemented |-> 501,        \* HTTP Mapping: 501 Not Implemented
               Internal |-> 500,             \* HTTP Mapping: 500 Internal Server Error
               Unavailable |-> 503,          \* HTTP Mapping: 503 Service Unavailable
               DataLoss |-> 500 ]            \* HTTP Mapping: 500 Internal Server Error
DocHTTP(n) == IF Defined(n) THEN DocStatus[CodeName[n + 1]] ELSE DocStatus["Unknown"]

(* ---------------- grpc/doc/http-grpc-status-mapping.md ---------------- *)
CitedRev == [ h \in {400, 401, 403, 404, 429, 502, 503, 504} |->
                CASE h = 400 -> "Internal"            \* 400 Bad Request         INTERNAL
                  [] h = 401 -> "Unauthenticated"     \* 401 Unauthorized        UNAUTHENTICATED
                  [] h = 403 -> "PermissionDenied"    \* 403 Forbidden           PERMISSION_DENIED
                  [] h = 404 -> "Unimplemented"       \* 404 Not Found           UNIMPLEMENTED
                  [] h = 429 -> "Unavailable"         \* 429 Too Many Requests   UNAVAILABLE
                  [] h = 502 -> "Unavailable"         \* 502 Bad Gateway         UNAVAILABLE
                  [] h = 503 -> "Unavailable"         \* 503 Service Unavailable UNAVAILABLE
                  [] h = 504 -> "Unavailable" ]       \* 504 Gateway Timeout     UNAVAILABLE
CitedCode(h) == IF h \in DOMAIN CitedRev THEN NumOf(CitedRev[h]) ELSE NumOf("Unknown")    \* All other codes -> UNKNOWN

Success(h) == h >= 200 /\ h < 300
Inverse(h) == {n \in 0..MaxCode : DocHTTP(n) = h}                 \* the codes whose documented status is h
Accepted(h) == IF Strict THEN {CitedCode(h)}
               ELSE {CitedCode(h)} \cup Inverse(h) \cup (IF Success(h) THEN {NumOf("OK")} ELSE {})
Documented(h) == h \in DOMAIN CitedRev \/ Inverse(h) # {}
Class(h) == IF h >= 100 /\ h < 600 THEN ToString(h \div 100) \o "xx" ELSE "out-of-range"

(* ---------------- the cases ---------------- *)
Iota(a, b) == [i \in 1..(b - a + 1) |-> a + i - 1]
FwdInputs == Iota(0, IF Big THEN 2000 ELSE 20) \o <<57, 100, 255, 256, 65536, 65552, 2147483647>>
RevInputs == Iota(IF Big THEN -10000 ELSE -5, IF Big THEN 10000 ELSE 700)
             \o <<-200, -404, -2147483647, 1000, 1200, 65736, 65936, 66036, 2147483647>>
LawCodes == 20          \* the observed tables of the law cases: codes 0..LawCodes, statuses 0..LawStatuses
LawStatuses == 700
Laws == <<"total", "success-forward", "success-reverse", "compose-code", "compose-status", "undefined-code", "pure">>

FwdCases == [i \in 1..Len(FwdInputs) |-> [fam |-> "fwd", n |-> FwdInputs[i]]]
RevCases == [i \in 1..Len(RevInputs) |-> [fam |-> "rev", n |-> RevInputs[i]]]
LawCases == [i \in 1..Len(Laws) |-> [fam |-> "law", law |-> Laws[i]]]
DocCases == [i \in 1..Len(CodeName) |-> [fam |-> "doc", n |-> i - 1]]     \* binds the table above to the vendored copy of code.proto
CaseSeq == FwdCases \o RevCases \o LawCases \o DocCases
NumCases == Len(CaseSeq)
Fed(cs) == IF cs.fam = "law" THEN <<cs.law>> ELSE <<cs.n>>

(* ---------------- judging one observed call ---------------- *)
(* obs = [cls |-> "ok" | "panic" | "crash" | "hang", val, msg]                *)
(*   fwd: val = [http, name (codes.Code(n).String())]                        *)
(*   rev: val = [code, name]                                                 *)
(*   law: val = [f, r, f2, r2]: f[c + 1] = HTTPStatusFromCode(c), r[h + 1] = *)
(*        CodeFromHTTPStatus(h); f2 / r2: the same calls made a second time   *)
(*        in the opposite order                                               *)
Abnormal(o) == o.cls # "ok"
AbnormalWhy(o) == CASE o.cls = "panic" -> "panicked" [] o.cls = "crash" -> "crashed the process" [] o.cls = "hang" -> "did not return"
                    [] OTHER -> "gave no result"
InputKind(n) == IF Defined(n) THEN NameOf(n) ELSE "an undefined code"

FwdJudge(cs, o) ==
  IF Abnormal(o) THEN "HTTPStatusFromCode " \o AbnormalWhy(o) \o " for " \o InputKind(cs.n)
  ELSE IF o.val.name # NameOf(cs.n) THEN "harness: the gRPC library does not name the code as code.proto does"
  ELSE IF o.val.http = DocHTTP(cs.n) THEN ""
  ELSE IF Defined(cs.n) THEN "HTTPStatusFromCode(" \o NameOf(cs.n) \o ") is not the " \o ToString(DocHTTP(cs.n)) \o " of code.proto"
  ELSE "HTTPStatusFromCode of an undefined code is not 500"

StatusKind(h) == IF Success(h) THEN "a 2xx status"
                 ELSE IF Documented(h) THEN ToString(h)
                 ELSE IF Class(h) = "out-of-range" THEN "a number that is not an HTTP status"
                 ELSE "an undocumented " \o Class(h) \o " status"
RevJudge(cs, o) ==
  IF Abnormal(o) THEN "CodeFromHTTPStatus " \o AbnormalWhy(o) \o " for " \o StatusKind(cs.n)
  ELSE IF ~Defined(o.val.code) THEN "CodeFromHTTPStatus gives an undefined code for " \o StatusKind(cs.n)
  ELSE IF o.val.name # NameOf(o.val.code) THEN "harness: the gRPC library does not name the code as code.proto does"
  ELSE IF o.val.code \in Accepted(cs.n) THEN ""
  ELSE IF Strict THEN "cited table: CodeFromHTTPStatus(" \o StatusKind(cs.n) \o ") = " \o NameOf(o.val.code) \o ", http-grpc-status-mapping.md says " \o NameOf(CitedCode(cs.n))
  ELSE "CodeFromHTTPStatus(" \o StatusKind(cs.n) \o ") = " \o NameOf(o.val.code) \o ": not supported by the cited documents"

WellFormed(v) == /\ Len(v.f) = LawCodes + 1 /\ Len(v.f2) = LawCodes + 1
                 /\ Len(v.r) = LawStatuses + 1 /\ Len(v.r2) = LawStatuses + 1
F(v, n) == v.f[n + 1]
R(v, h) == v.r[h + 1]
LawHolds(law, v) ==
  CASE law = "total" -> (\A n \in 0..LawCodes : F(v, n) >= 100 /\ F(v, n) < 600) /\ (\A h \in 0..LawStatuses : Defined(R(v, h)))
    [] law = "success-forward" -> \A n \in 0..LawCodes : Success(F(v, n)) <=> n = 0
    [] law = "success-reverse" -> \A h \in 0..LawStatuses : R(v, h) = 0 => Success(h)
    [] law = "compose-code" -> \A n \in 1..LawCodes : F(v, n) \in 0..LawStatuses => R(v, F(v, n)) # 0
    [] law = "compose-status" -> \A h \in 0..LawStatuses : (~Success(h) /\ R(v, h) \in 0..LawCodes) => ~Success(F(v, R(v, h)))
    [] law = "undefined-code" -> \A n \in (MaxCode + 1)..LawCodes : F(v, n) = F(v, NumOf("Unknown"))
    [] law = "pure" -> v.f = v.f2 /\ v.r = v.r2
LawText(law) ==
  CASE law = "total" -> "every code has a status in 100..599 and every status has a defined code"
    [] law = "success-forward" -> "HTTPStatusFromCode gives a 2xx status for OK and only for OK"
    [] law = "success-reverse" -> "CodeFromHTTPStatus gives OK only for a 2xx status"
    [] law = "compose-code" -> "CodeFromHTTPStatus(HTTPStatusFromCode(c)) is not OK for a failure c"
    [] law = "compose-status" -> "HTTPStatusFromCode(CodeFromHTTPStatus(h)) is not 2xx for a status h outside 2xx"
    [] law = "undefined-code" -> "undefined codes have the status of Unknown"
    [] law = "pure" -> "repeated calls give the same answers"
LawJudge(cs, o) ==
  IF Abnormal(o) THEN "the functions " \o AbnormalWhy(o) \o " while their tables were read"
  ELSE IF ~WellFormed(o.val) THEN "harness: observed tables of the wrong size"
  ELSE IF LawHolds(cs.law, o.val) THEN ""
  ELSE "law violated: " \o LawText(cs.law)

(* doc: the harness reads the generated Go copy of code.proto in the module cache (google.golang.org/genproto/googleapis/rpc/code):  *)
(* val = [proto (enum value name), http (its "HTTP Mapping:" comment)] for the enum number n; cls "skip" when the file is not there.  *)
(* A disagreement is a mistake of THIS table, not of the code under test: the reasons start with "harness:" (inconclusive).           *)
DocJudge(cs, o) ==
  IF o.cls = "skip" THEN ""
  ELSE IF Abnormal(o) THEN "harness: the vendored code.proto could not be read"
  ELSE IF o.val.proto # ProtoName[cs.n + 1] THEN "harness: spec table: the enum numbers are not those of the vendored code.proto"
  ELSE IF o.val.http # DocHTTP(cs.n) THEN "harness: spec table: the HTTP mapping is not that of the vendored code.proto"
  ELSE ""

Judge(cs, o) == CASE cs.fam = "fwd" -> FwdJudge(cs, o) [] cs.fam = "rev" -> RevJudge(cs, o) [] cs.fam = "law" -> LawJudge(cs, o)
                  [] cs.fam = "doc" -> DocJudge(cs, o)

(* ---------------- the monitor ---------------- *)
Bad(why) == [bad |-> TRUE, why |-> why]
IsBad(m) == m.bad
MReset(e) == IF e.id \in 1..NumCases /\ CaseSeq[e.id].fam = e.fam /\ Fed(CaseSeq[e.id]) = e.fed
             THEN [bad |-> FALSE, why |-> "", id |-> e.id, done |-> FALSE]
             ELSE Bad("harness: the record does not belong to a case of the table")
MNext(m, e) ==
  IF e.ev = "reset" THEN MReset(e)
  ELSE IF IsBad(m) THEN m
  ELSE CASE e.ev = "obs" -> IF m.done THEN Bad("harness: two results")
                            ELSE LET why == Judge(CaseSeq[m.id], e) IN IF why = "" THEN [m EXCEPT !.done = TRUE] ELSE Bad(why)
         [] e.ev = "end" -> IF m.done THEN m ELSE Bad("harness: no result recorded")

(* ---------------- what TLC can check on the documents themselves ---------------- *)
ASSUME DOMAIN DocStatus = {CodeName[i] : i \in 1..Len(CodeName)}              \* code.proto gives a status for every code
ASSUME \A n \in 0..MaxCode : DocHTTP(n) >= 100 /\ DocHTTP(n) < 600
ASSUME \A n \in 0..MaxCode : Success(DocHTTP(n)) <=> n = 0                    \* only OK is a success
ASSUME \A n \in 0..MaxCode : n \in ({CitedCode(DocHTTP(n))} \cup Inverse(DocHTTP(n)))   \* every code can come back from its status
ASSUME \A h \in DOMAIN CitedRev : ~Success(h) /\ CitedRev[h] \in DOMAIN DocStatus /\ CitedRev[h] # "OK"
ASSUME \A h \in -10..710 : (NumOf("OK") \in ({CitedCode(h)} \cup Inverse(h)) => Success(h))
ASSUME \A h \in -10..710 : \A n \in Inverse(h) : Class(DocHTTP(n)) = Class(h)  \* the inverse reading keeps the class of the status
(* where the two documents disagree (the cited table is "neither symmetric nor 1-to-1") *)
Asymmetric == {h \in 0..700 : Inverse(h) # {} /\ CitedCode(h) \notin Inverse(h)}
ASSUME Asymmetric = {200, 400, 404, 409, 429, 499, 501, 504}
=============================================================================
