SPECIFICATION TSpec
CONSTANTS Tier = "big" Strict = FALSE
CONSTRAINT Report
CHECK_DEADLOCK FALSE
