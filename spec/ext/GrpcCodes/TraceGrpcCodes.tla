--------------------------- MODULE TraceGrpcCodes ---------------------------
(* Validates recorded calls of the real grpccodes functions against the      *)
(* documentation-derived tables of GrpcCodesContract.                        *)
EXTENDS GrpcCodesContract, TraceLib

Trace == LoadTrace("trace.ndjson")
Starts == {k \in 1..Len(Trace) : Trace[k].ev = "reset"}
VARIABLES vL, vMon
TInit == vL \in Starts /\ vMon = MReset(Trace[vL])
TNext == /\ ~IsBad(vMon)
         /\ vL + 1 <= Len(Trace)
         /\ Trace[vL + 1].ev # "reset"
         /\ vMon' = MNext(vMon, Trace[vL + 1])
         /\ vL' = vL + 1
TSpec == TInit /\ [][TNext]_<<vL, vMon>>
Report == IF IsBad(vMon) THEN RejectLine(vL, vMon.why) ELSE TRUE
=============================================================================
