SPECIFICATION Spec
CONSTANTS Tier = "small" Strict = FALSE Impl = "redirect-ok"
INVARIANTS NotBad
CHECK_DEADLOCK FALSE
