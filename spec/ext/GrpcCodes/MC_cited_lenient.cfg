SPECIFICATION Spec
CONSTANTS Tier = "small" Strict = FALSE Impl = "cited"
INVARIANTS NotBad
CHECK_DEADLOCK FALSE
