SPECIFICATION TSpec
CONSTANTS Tier = "small" Strict = FALSE
CONSTRAINT Report
CHECK_DEADLOCK FALSE
