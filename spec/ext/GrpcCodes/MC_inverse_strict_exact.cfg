SPECIFICATION Spec
CONSTANTS Tier = "small" Strict = TRUE Impl = "inverse"
INVARIANTS StrictRejected
CHECK_DEADLOCK FALSE
