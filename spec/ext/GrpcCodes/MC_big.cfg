SPECIFICATION Spec
CONSTANTS Tier = "big" Strict = FALSE Impl = "inverse"
INVARIANTS NotBad
CHECK_DEADLOCK FALSE
