SPECIFICATION Spec
CONSTANTS Tier = "small" Strict = FALSE Impl = "asfound"
INVARIANTS FoundRejected
CHECK_DEADLOCK FALSE
