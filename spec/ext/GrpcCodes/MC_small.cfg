SPECIFICATION Spec
CONSTANTS Tier = "small" Strict = FALSE Impl = "inverse"
INVARIANTS NotBad
CHECK_DEADLOCK FALSE
