--------------------------- MODULE GrpcCodesModel ---------------------------
(* X11 - enumeration of the case table.  TLC visits every case, feeds the    *)
(* answer of an implementation (Impl) to the monitor and writes cases.ndjson *)
(* for the replay on the real functions.                                      *)
(*                                                                            *)
(*  Impl = "inverse" : follows code.proto, answers CodeFromHTTPStatus with   *)
(*                     OK for 2xx, else the first code whose documented      *)
(*                     status it is, else the cited table   (must be accepted *)
(*                     with Strict = FALSE; with Strict = TRUE rejected on   *)
(*                     exactly the statuses where the documents disagree)     *)
(*         "cited"   : follows code.proto and the cited reverse table to the *)
(*                     letter (accepted with Strict = TRUE and FALSE)         *)
(*         "asfound" : the answers of the code as found on the unchanged tree *)
(*                     (rejected on exactly the cases listed in Deviates)     *)
(*         defect variants (must be rejected): "swap-auth", "undefined-ok",  *)
(*                     "redirect-ok", "created-unknown-status"                *)
EXTENDS GrpcCodesContract, Json

CONSTANT Impl
VARIABLES vId, vMon, vPc
vars == <<vId, vMon, vPc>>

Min(S) == CHOOSE x \in S : \A y \in S : x <= y
InvCode(h) == IF Success(h) THEN 0 ELSE IF Inverse(h) # {} THEN Min(Inverse(h)) ELSE CitedCode(h)

(* the functions of the code as found (typed in from the observed answers) *)
FoundHTTP(n) == IF n = NumOf("Canceled") THEN 408 ELSE DocHTTP(n)
FoundCode(h) ==
  IF Success(h) THEN 0
  ELSE CASE h = 408 -> NumOf("Canceled") [] h = 500 -> NumOf("Unknown") [] h = 400 -> NumOf("Internal")
         [] h = 504 -> NumOf("DeadlineExceeded") [] h = 404 -> NumOf("NotFound") [] h = 409 -> NumOf("AlreadyExists")
         [] h = 403 -> NumOf("PermissionDenied") [] h = 401 -> NumOf("Unauthenticated") [] h = 429 -> NumOf("ResourceExhausted")
         [] h = 501 -> NumOf("Unimplemented") [] h = 503 -> NumOf("Unavailable") [] OTHER -> NumOf("Unknown")

ImplHTTP(n) ==
  CASE Impl = "asfound" -> FoundHTTP(n)
    [] Impl = "swap-auth" -> (IF n = NumOf("Unauthenticated") THEN 403 ELSE IF n = NumOf("PermissionDenied") THEN 401 ELSE DocHTTP(n))
    [] Impl = "undefined-ok" -> (IF Defined(n) THEN DocHTTP(n) ELSE 200)
    [] Impl = "created-unknown-status" -> (IF n = NumOf("AlreadyExists") THEN 201 ELSE DocHTTP(n))
    [] OTHER -> DocHTTP(n)
ImplCode(h) ==
  CASE Impl = "cited" -> CitedCode(h)
    [] Impl = "asfound" -> FoundCode(h)
    [] Impl = "redirect-ok" -> (IF h >= 300 /\ h < 400 THEN 0 ELSE InvCode(h))
    [] OTHER -> InvCode(h)

Ok(val) == [ev |-> "obs", cls |-> "ok", val |-> val, msg |-> ""]
Tables == [f |-> [k \in 1..(LawCodes + 1) |-> ImplHTTP(k - 1)], r |-> [k \in 1..(LawStatuses + 1) |-> ImplCode(k - 1)],
           f2 |-> [k \in 1..(LawCodes + 1) |-> ImplHTTP(k - 1)], r2 |-> [k \in 1..(LawStatuses + 1) |-> ImplCode(k - 1)]]
Answer(cs) ==
  CASE cs.fam = "fwd" -> Ok([http |-> ImplHTTP(cs.n), name |-> NameOf(cs.n)])
    [] cs.fam = "rev" -> Ok([code |-> ImplCode(cs.n), name |-> NameOf(ImplCode(cs.n))])
    [] cs.fam = "law" -> Ok(Tables)
    [] cs.fam = "doc" -> Ok([proto |-> ProtoName[cs.n + 1], http |-> DocHTTP(cs.n)])

Init == /\ vId \in 1..NumCases
        /\ vMon = MReset([ev |-> "reset", id |-> vId, fam |-> CaseSeq[vId].fam, fed |-> Fed(CaseSeq[vId])])
        /\ vPc = "call"
Call == /\ vPc = "call"
        /\ vMon' = MNext(MNext(vMon, Answer(CaseSeq[vId])), [ev |-> "end"])
        /\ vPc' = "done"
        /\ UNCHANGED vId
Spec == Init /\ [][Call]_vars
NotBad == ~IsBad(vMon)
LawsNotBad == CaseSeq[vId].fam = "law" => ~IsBad(vMon)      \* used with the defect variants: the laws alone reject them

(* the cases on which the code as found deviates from the documents (Strict = FALSE) *)
Deviates(cs) == \/ cs.fam = "fwd" /\ cs.n = NumOf("Canceled")            \* 408 Request Timeout instead of 499
                \/ cs.fam = "rev" /\ cs.n = 408                         \* Canceled: no document maps 408 (the mirror of the line above)
                \/ cs.fam = "rev" /\ cs.n = 502                         \* Unknown; the cited table says UNAVAILABLE
FoundRejected == vPc = "done" => (IsBad(vMon) <=> Deviates(CaseSeq[vId]))
(* the "inverse" implementation judged by the letter of the cited table: rejected exactly where the documents disagree *)
StrictRejected == vPc = "done" => (IsBad(vMon) <=> (CaseSeq[vId].fam = "rev" /\ (CaseSeq[vId].n \in Asymmetric \/ Success(CaseSeq[vId].n))))

ASSUME PrintT(<<"GRPCCODES-CASES", NumCases, "fwd", Len(FwdCases), "rev", Len(RevCases), "law", Len(LawCases), "doc", Len(DocCases)>>)
ASSUME ndJsonSerialize("cases.ndjson", [k \in 1..NumCases |-> [id |-> k] @@ CaseSeq[k]])
=============================================================================
