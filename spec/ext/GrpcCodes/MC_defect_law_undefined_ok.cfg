SPECIFICATION Spec
CONSTANTS Tier = "small" Strict = FALSE Impl = "undefined-ok"
INVARIANTS LawsNotBad
CHECK_DEADLOCK FALSE
