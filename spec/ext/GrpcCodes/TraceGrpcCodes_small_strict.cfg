SPECIFICATION TSpec
CONSTANTS Tier = "small" Strict = TRUE
CONSTRAINT Report
CHECK_DEADLOCK FALSE
