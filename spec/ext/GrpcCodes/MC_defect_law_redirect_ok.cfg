SPECIFICATION Spec
CONSTANTS Tier = "small" Strict = FALSE Impl = "redirect-ok"
INVARIANTS LawsNotBad
CHECK_DEADLOCK FALSE
