SPECIFICATION Spec
CONSTANTS Tier = "small" Strict = TRUE Impl = "cited"
INVARIANTS NotBad
CHECK_DEADLOCK FALSE
