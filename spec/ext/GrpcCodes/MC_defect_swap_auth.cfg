SPECIFICATION Spec
CONSTANTS Tier = "small" Strict = FALSE Impl = "swap-auth"
INVARIANTS NotBad
CHECK_DEADLOCK FALSE
