SPECIFICATION Spec
CONSTANTS Tier = "small" Strict = FALSE Impl = "undefined-ok"
INVARIANTS NotBad
CHECK_DEADLOCK FALSE
