SPECIFICATION Spec
CONSTANTS Tier = "small" Strict = FALSE Impl = "asfound"
INVARIANTS NotBad
CHECK_DEADLOCK FALSE
