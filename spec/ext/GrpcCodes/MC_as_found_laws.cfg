SPECIFICATION Spec
CONSTANTS Tier = "small" Strict = FALSE Impl = "asfound"
INVARIANTS LawsNotBad
CHECK_DEADLOCK FALSE
