SPECIFICATION Spec
CONSTANTS Tier = "small" Strict = FALSE Impl = "created-unknown-status"
INVARIANTS LawsNotBad
CHECK_DEADLOCK FALSE
