SPECIFICATION TSpec
CONSTANTS Tier = "small"
CONSTRAINT Report
CHECK_DEADLOCK FALSE
