SPECIFICATION Spec
CONSTANTS Tier = "small" AsFound = TRUE
INVARIANTS NotBad
CHECK_DEADLOCK FALSE
