------------------------------- MODULE PUKeys -------------------------------
(* X12 (b) - EncodePrivateKey, EncodeX509, EncodeX509Chain, PublicKeysEqual. *)
EXTENDS PUBase

(* ---- EncodePrivateKey: "will encode a private key into PEM format" ---- *)
(* The type switch of the function names *ecdsa.PrivateKey and (a pointer to) ed25519.PrivateKey.            *)
(* exp: roundtrip  the key must be encoded, and DecodePEMPrivateKey must give an equal key back               *)
(*      either     a refusal (error) or a round trip - nothing else                                           *)
(*      err        not a private key: an error                                                                *)
(*      any        the doc is silent: anything but a panic                                                    *)
EK(kt, exp, what) == [fam |-> "enckey", kt |-> kt, exp |-> exp, what |-> what]
EncKeyCases == <<
  EK("ecdsa-p256", "roundtrip", "an ECDSA P-256 key"), EK("ecdsa-p384", "roundtrip", "an ECDSA P-384 key"), EK("ecdsa-p521", "roundtrip", "an ECDSA P-521 key"),
  EK("ed25519-value", "roundtrip", "an Ed25519 key as crypto/ed25519 generates it (ed25519.PrivateKey)"),
  EK("ed25519-pointer", "either", "a pointer to an ed25519.PrivateKey"),
  EK("rsa", "either", "an RSA key"), EK("ecdsa-value", "either", "an ecdsa.PrivateKey by value"), EK("x25519", "any", "an X25519 (ecdh) key"),
  EK("nil", "err", "nil"), EK("ecdsa-public", "err", "an ECDSA public key"), EK("ed25519-public", "err", "an Ed25519 public key"),
  EK("string", "err", "a string"), EK("nil-ecdsa-pointer", "any", "a nil *ecdsa.PrivateKey") >>
(* obs.val = [decoded: DecodePEMPrivateKey accepted the output, same: it gave an equal key] *)
EncKeyJudge(cs, o) ==
  IF Abnormal(o) THEN "EncodePrivateKey " \o AbnormalWhy(o) \o ": " \o cs.what
  ELSE IF cs.exp = "any" THEN ""
  ELSE IF cs.exp = "err" THEN (IF o.cls = "ok" THEN "EncodePrivateKey accepted " \o cs.what ELSE "")
  ELSE IF o.cls = "err" THEN (IF cs.exp = "either" THEN "" ELSE "EncodePrivateKey refused " \o cs.what)
  ELSE IF ~o.val.decoded THEN "EncodePrivateKey wrote PEM that DecodePEMPrivateKey does not read: " \o cs.what
  ELSE IF ~o.val.same THEN "EncodePrivateKey / DecodePEMPrivateKey round trip gave a different key: " \o cs.what
  ELSE ""

(* ---- EncodeX509: "will encode a single *x509.Certificate into PEM format" ---- *)
CertNames == <<"leaf", "int", "root", "other", "ssleaf">>
EncX509Cases == [ix \in 1..Len(CertNames) |-> [fam |-> "encx509", name |-> CertNames[ix]]] \o << [fam |-> "encx509", name |-> "nil"] >>
(* obs.val = [names: the certificates of the output decoded again, clean: the output is CERTIFICATE blocks only] *)
EncX509Judge(cs, o) ==
  IF Abnormal(o) THEN "EncodeX509 " \o AbnormalWhy(o) \o (IF cs.name = "nil" THEN " on a nil certificate" ELSE " on a certificate")
  ELSE IF cs.name = "nil" THEN ""                         \* the doc is silent: anything but a panic
  ELSE IF o.cls = "err" THEN "EncodeX509 refused a certificate"
  ELSE IF o.val.names # <<cs.name>> \/ ~o.val.clean THEN "EncodeX509: the output does not decode to the certificate"
  ELSE ""

(* ---- EncodeX509Chain ---- *)
(* "Self-signed certificates are not included ... Certificates are output in the order they're given"; an empty *)
(* list is refused ("no certificates in chain").  ssleaf is self-signed but not a CA (x509 does not accept it   *)
(* as its own parent): either included or not.                                                                   *)
ChainAlpha == <<"leaf", "int", "root", "other", "ssleaf", "nil">>
EncChainCases == LET ws == WordsUpTo(ChainAlpha, IF Big THEN 4 ELSE 3) IN [ix \in 1..Len(ws) |-> [fam |-> "encchain", names |-> ws[ix]]]
SelfSignedCA == {"root", "other"}
Must(given) == SelectSeq(given, LAMBDA n : n \in {"leaf", "int"})
May(given) == SelectSeq(given, LAMBDA n : n \in {"leaf", "int", "ssleaf"})
(* obs.val = [names, clean] as above *)
EncChainJudge(cs, o) ==
  IF Abnormal(o) THEN "EncodeX509Chain " \o AbnormalWhy(o) \o (IF \E ix \in 1..Len(cs.names) : cs.names[ix] = "nil" THEN " on a list with a nil element" ELSE "")
  ELSE IF cs.names = <<>> THEN (IF o.cls = "ok" THEN "EncodeX509Chain accepted an empty list" ELSE "")
  ELSE IF o.cls = "err" THEN (IF Must(cs.names) = <<>> THEN "" ELSE "EncodeX509Chain refused a list with certificates that are not self-signed")
  ELSE IF ~o.val.clean THEN "EncodeX509Chain: the output is not a sequence of CERTIFICATE blocks"
  ELSE IF \E ix \in 1..Len(o.val.names) : o.val.names[ix] \notin Elems(cs.names) \/ o.val.names[ix] = "nil" THEN "EncodeX509Chain: the output holds a certificate that was not given"
  ELSE IF \E ix \in 1..Len(o.val.names) : o.val.names[ix] \in SelfSignedCA THEN "EncodeX509Chain included a self-signed certificate"
  ELSE IF SelectSeq(o.val.names, LAMBDA n : n # "ssleaf") # Must(cs.names) /\ Len(SelectSeq(o.val.names, LAMBDA n : n # "ssleaf")) < Len(Must(cs.names))
       THEN "EncodeX509Chain left out a certificate that is not self-signed"
  ELSE IF SelectSeq(o.val.names, LAMBDA n : n # "ssleaf") # Must(cs.names) \/ ~IsSubseq(o.val.names, May(cs.names))
       THEN "EncodeX509Chain: the certificates are not output in the order they are given"
  ELSE ""

(* ---- PublicKeysEqual ---- *)
(* "Returns true if the keys are the same, false if they differ or an error if the key type of `a` cannot be determined" *)
PKeys == <<"rsaA", "rsaB", "p256A", "p256B", "p384A", "edA", "edB">>
Reps(k) == IF k \in {"edA", "edB"} THEN <<"orig", "reparsed", "copied">> ELSE <<"orig", "reparsed">>     \* the same key as another Go object
Items == Flat([ik \in 1..Len(PKeys) |-> [jr \in 1..Len(Reps(PKeys[ik])) |-> [key |-> PKeys[ik], rep |-> Reps(PKeys[ik])[jr]]]])
PE(a, arep, b, brep) == [fam |-> "pkeq", a |-> a, arep |-> arep, b |-> b, brep |-> brep]
Odd == <<"nil", "x25519", "string", "rsaA-value", "edA-pointer">>
OddIdentity(n) == CASE n = "rsaA-value" -> "rsaA" [] n = "edA-pointer" -> "edA" [] OTHER -> ""
PkEqCases == X2(Items, Items, LAMBDA x, y : PE(x.key, x.rep, y.key, y.rep))
             \o X2(Odd, <<"rsaA", "edA", "nil">>, LAMBDA x, y : PE(x, "odd", y, IF y = "nil" THEN "odd" ELSE "orig"))
             \o X2(PKeys, Odd, LAMBDA x, y : PE(x, "orig", y, "odd"))
(* obs.val = [eq] *)
PkEqJudge(cs, o) ==
  IF Abnormal(o) THEN "PublicKeysEqual " \o AbnormalWhy(o) \o (IF cs.arep = "odd" THEN ": a is " \o cs.a ELSE IF cs.brep = "odd" THEN ": b is " \o cs.b ELSE "")
  ELSE IF cs.arep = "odd"
       THEN (IF cs.a \in {"nil", "x25519", "string"} THEN (IF o.cls = "ok" THEN "PublicKeysEqual gave a verdict although the type of a cannot be determined: " \o cs.a ELSE "")
             ELSE IF o.cls = "ok" /\ o.val.eq /\ OddIdentity(cs.a) # cs.b THEN "PublicKeysEqual is true for different keys" ELSE "")
  ELSE IF o.cls = "err" THEN "PublicKeysEqual returned an error for a supported key a" \o (IF cs.brep = "odd" THEN " and an unsupported b" ELSE "")
  ELSE IF cs.brep = "odd" THEN (IF o.val.eq /\ OddIdentity(cs.b) # cs.a THEN "PublicKeysEqual is true for an unsupported b" ELSE "")
  ELSE IF cs.a = cs.b /\ ~o.val.eq THEN "PublicKeysEqual is false for the same key as another object (" \o cs.arep \o " / " \o cs.brep \o ")"
  ELSE IF cs.a # cs.b /\ o.val.eq THEN "PublicKeysEqual is true for different keys"
  ELSE ""

(* the whole observed relation of one run over the supported keys: an equivalence whose classes are the key identities *)
PkRelCases == << [fam |-> "pkrel", items |-> Items] >>
(* obs.val = [rel: matrix over Items of "t" | "f" | "e" (error)] *)
PkRelJudge(cs, o) ==
  LET N == Len(cs.items)
      R(ia, ib) == o.val.rel[ia][ib] = "t"
  IN IF Abnormal(o) THEN "PublicKeysEqual " \o AbnormalWhy(o) \o " while the relation was recorded"
     ELSE IF o.cls # "ok" \/ Len(o.val.rel) # N \/ \E ia \in 1..N : Len(o.val.rel[ia]) # N THEN "harness: the relation is not a matrix over the items"
     ELSE IF \E ia, ib \in 1..N : o.val.rel[ia][ib] \notin {"t", "f"} THEN "PublicKeysEqual returned an error for supported keys"
     ELSE IF \E ia \in 1..N : ~R(ia, ia) THEN "the observed PublicKeysEqual relation is not reflexive"
     ELSE IF \E ia, ib \in 1..N : R(ia, ib) /\ ~R(ib, ia) THEN "the observed PublicKeysEqual relation is not symmetric"
     ELSE IF \E ia, ib, ic \in 1..N : R(ia, ib) /\ R(ib, ic) /\ ~R(ia, ic) THEN "the observed PublicKeysEqual relation is not transitive"
     ELSE IF \E ia, ib \in 1..N : R(ia, ib) # (cs.items[ia].key = cs.items[ib].key) THEN "the classes of the observed PublicKeysEqual relation are not the key identities"
     ELSE ""
=============================================================================
