----------------------------- MODULE PUContract -----------------------------
(* X12 - the case table of crypto/pem and utils and the monitor that judges  *)
(* one real call per case.                                                    *)
(*                                                                            *)
(* Families: certs, chain, key, validpem, getpem (PUPem); enckey, encx509,   *)
(* encchain, pkeq, pkrel (PUKeys); truthy, yaml, envdur (PUUtils).           *)
(* A recorded run is: reset(id, fam, fed) ; obs(cls, val, msg) ; end.  The   *)
(* expected answer is looked up in the table by the case number; `fed` (what *)
(* the harness says it gave to the function) must be the input of that case. *)
EXTENDS PUPem, PUKeys, PUUtils

AllCases == CertCases \o ChainCases \o KeyCases \o ValidPemCases \o GetPemCases
            \o EncKeyCases \o EncX509Cases \o EncChainCases \o PkEqCases \o PkRelCases
            \o TruthyCases \o YamlCases \o EnvCases
CaseSeq == AllCases            \* a concrete tuple (TLC evaluates it once); the case number is the position
NumCases == Len(AllCases)

Judge(cs, o) ==
  CASE cs.fam = "certs" -> CertsJudge(cs, o)
    [] cs.fam = "chain" -> ChainJudge(cs, o)
    [] cs.fam = "key" -> KeyJudge(cs, o)
    [] cs.fam = "validpem" -> ValidPemJudge(cs, o)
    [] cs.fam = "getpem" -> GetPemJudge(cs, o)
    [] cs.fam = "enckey" -> EncKeyJudge(cs, o)
    [] cs.fam = "encx509" -> EncX509Judge(cs, o)
    [] cs.fam = "encchain" -> EncChainJudge(cs, o)
    [] cs.fam = "pkeq" -> PkEqJudge(cs, o)
    [] cs.fam = "pkrel" -> PkRelJudge(cs, o)
    [] cs.fam = "truthy" -> TruthyJudge(cs, o)
    [] cs.fam = "yaml" -> YamlJudge(cs, o)
    [] cs.fam = "envdur" -> EnvJudge(cs, o)

(* what identifies the input of a case in the record of the harness *)
Fed(cs) ==
  CASE cs.fam \in {"certs", "chain", "key", "validpem"} -> <<cs.lay>> \o cs.doc
    [] cs.fam = "getpem" -> <<cs.mode>> \o cs.doc
    [] cs.fam = "enckey" -> <<cs.kt>>
    [] cs.fam = "encx509" -> <<cs.name>>
    [] cs.fam = "encchain" -> cs.names
    [] cs.fam = "pkeq" -> <<cs.a, cs.arep, cs.b, cs.brep>>
    [] cs.fam = "pkrel" -> <<Len(cs.items)>>
    [] cs.fam = "truthy" -> cs.parts
    [] cs.fam = "yaml" -> <<cs.name>>
    [] cs.fam = "envdur" -> <<cs.text, cs.cls>> \o <<cs.def, cs.min, cs.max>>

Bad(why) == [bad |-> TRUE, why |-> why]
IsBad(mon) == mon.bad
MReset(e) == IF e.id \in 1..NumCases /\ CaseSeq[e.id].fam = e.fam /\ Len(Fed(CaseSeq[e.id])) = Len(e.fed) /\ Fed(CaseSeq[e.id]) = e.fed
             THEN [bad |-> FALSE, why |-> "", id |-> e.id, done |-> FALSE]
             ELSE Bad("harness: the record does not belong to a case of the table")
MNext(mon, e) ==
  IF e.ev = "reset" THEN MReset(e)
  ELSE IF IsBad(mon) THEN mon
  ELSE CASE e.ev = "obs" -> IF mon.done THEN Bad("harness: two results")
                            ELSE LET why == Judge(CaseSeq[mon.id], e) IN IF why = "" THEN [mon EXCEPT !.done = TRUE] ELSE Bad(why)
         [] e.ev = "end" -> IF mon.done THEN mon ELSE Bad("harness: no result recorded")
=============================================================================
