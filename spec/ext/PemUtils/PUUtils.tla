------------------------------ MODULE PUUtils ------------------------------
(* X12 (c) - utils.IsTruthy, utils.IsYaml, utils.GetEnvDurationWithRange.    *)
EXTENDS PUBase

(* ---- IsTruthy ---- *)
(* "Truthy values are "y", "yes", "true", "t", "on", "1" (case-insensitive); everything else is false."       *)
(* A text is a sequence of parts; the harness joins them, the tokens <SP> <TAB> <NL> <NUL> and U+XXXX stand   *)
(* for the characters.  exp: "true" | "false" | "either" (padding: the doc does not mention trimming).         *)
Up == ("y" :> "Y") @@ ("e" :> "E") @@ ("s" :> "S") @@ ("t" :> "T") @@ ("r" :> "R") @@ ("u" :> "U") @@ ("o" :> "O") @@ ("n" :> "N")
TruthWords == << <<"y">>, <<"y", "e", "s">>, <<"t", "r", "u", "e">>, <<"t">>, <<"o", "n">>, <<"1">> >>
Spell(w, m) == [ix \in 1..Len(w) |-> IF Bit(m, ix) /\ w[ix] \in DOMAIN Up THEN Up[w[ix]] ELSE w[ix]]
NMasks(w) == IF w = <<"1">> THEN 1 ELSE 2 ^ Len(w)
TC(parts, exp, klass) == [fam |-> "truthy", parts |-> parts, exp |-> exp, klass |-> klass]
Spelled == Flat([iw \in 1..Len(TruthWords) |-> [m \in 1..NMasks(TruthWords[iw]) |->
             [parts |-> Spell(TruthWords[iw], m - 1), klass |-> "the truthy word " \o Join(TruthWords[iw]) \o (IF m = 1 THEN "" ELSE " with upper-case letters")]]])
FG(klass, texts) == [ix \in 1..Len(texts) |-> [parts |-> texts[ix], klass |-> klass]]
FalseTexts ==
  FG("the empty text", << <<>> >>)
  \o FG("a falsy word", << <<"0">>, <<"no">>, <<"off">>, <<"false">>, <<"n">>, <<"f">>, <<"null">>, <<"nil">>, <<"NO">>, <<"OFF">> >>)
  \o FG("a prefix or an extension of a truthy word", << <<"ye">>, <<"yess">>, <<"tru">>, <<"truee">>, <<"yesyes">>, <<"tt">>, <<"o">>, <<"onn">>, <<"yy">>, <<"yea">>, <<"TRUEE">>, <<"YE">> >>)
  \o FG("a truthy word with a space inside", << <<"tr", "<SP>", "ue">>, <<"y", "<SP>", "es">>, <<"T", "<SP>", "T">>, <<"o", "<TAB>", "n">> >>)
  \o FG("a number other than 1", << <<"11">>, <<"01">>, <<"10">>, <<"2">>, <<"-1">>, <<"+1">>, <<"1.0">>, <<"1e0">> >>)
  \o FG("another word", << <<"enable">>, <<"enabled">>, <<"ok">>, <<"si">>, <<"oui">>, <<"ja">>, <<"active">> >>)
  \o FG("a truthy word with punctuation", << <<"yes!">>, <<"y,">>, <<"'y'">>, <<"TRUE.">>, <<"(on)">> >>)
  \o FG("a truthy word with a NUL character", << <<"true", "<NUL>">>, <<"<NUL>", "y">>, <<"y", "<NUL>">>, <<"o", "<NUL>", "n">> >>)
  \o FG("a look-alike of a truthy word in non-ASCII letters", <<
        <<"U+FF39", "U+FF25", "U+FF33">>,          \* fullwidth YES
        <<"ye", "U+015F">>,                        \* s with cedilla
        <<"U+FF11">>,                              \* fullwidth 1
        <<"U+0031", "U+20E3">>,                    \* keycap 1
        <<"tr", "U+00FC", "e">>, <<"o", "U+0144">>, <<"U+00FF">>, <<"U+0443">> >>)          \* Cyrillic u looks like y
Pads == <<"<SP>", "<TAB>", "<NL>">>
Sides == <<"left", "right", "both">>
Padded(w, p, side) == CASE side = "left" -> <<p>> \o w [] side = "right" -> w \o <<p>> [] side = "both" -> <<p>> \o w \o <<p>>
TruthyCases ==
  [ix \in 1..Len(Spelled) |-> TC(Spelled[ix].parts, "true", Spelled[ix].klass)]
  \o [ix \in 1..Len(FalseTexts) |-> TC(FalseTexts[ix].parts, "false", FalseTexts[ix].klass)]
  \o X3(Spelled, Pads, Sides, LAMBDA w, p, sd : TC(Padded(w.parts, p, sd), "either", "a padded truthy word"))
  \o X3(SelectSeq(FalseTexts, LAMBDA w : w.parts # <<>>), Pads, Sides, LAMBDA w, p, sd : TC(Padded(w.parts, p, sd), "false", w.klass \o ", padded"))
  \o [ix \in 1..Len(Pads) |-> TC(<<Pads[ix]>>, "false", "white space only")]
  \* the long s folds to s under Unicode case folding: whether "case-insensitive" covers it is not said
  \o << TC(<<"ye", "U+017F">>, "either", "a truthy word spelled with a letter that case-folds to ASCII"), TC(<<"YE", "U+017F">>, "either", "a truthy word spelled with a letter that case-folds to ASCII") >>
(* obs.val = [v] *)
TruthyJudge(cs, o) ==
  IF Abnormal(o) THEN "IsTruthy " \o AbnormalWhy(o) \o " on " \o cs.klass
  ELSE IF o.cls # "ok" THEN "harness: IsTruthy has no error result"
  ELSE IF cs.exp = "either" THEN ""
  ELSE IF cs.exp = "true" /\ ~o.val.v THEN "IsTruthy is false for " \o cs.klass
  ELSE IF cs.exp = "false" /\ o.val.v THEN "IsTruthy is true for " \o cs.klass
  ELSE ""

(* ---- IsYaml: "checks whether the file is yaml or not" (by the extension .yaml / .yml, any letter case) ---- *)
UpY == ("y" :> "Y") @@ ("a" :> "A") @@ ("m" :> "M") @@ ("l" :> "L")
SpellY(w, m) == Join([ix \in 1..Len(w) |-> IF Bit(m, ix) THEN UpY[w[ix]] ELSE w[ix]])
Exts == << <<"y", "a", "m", "l">>, <<"y", "m", "l">> >>
SpelledExts == Flat([ie \in 1..Len(Exts) |-> [m \in 1..(2 ^ Len(Exts[ie])) |-> SpellY(Exts[ie], m - 1)]])
Stems == <<"a", "A", "dir/x", "a.b", "/abs/dir.d/file", "a.json", "x y", "-">>
YC(name, exp, klass) == [fam |-> "yaml", name |-> name, exp |-> exp, klass |-> klass]
YamlCases ==
  X2(Stems, SpelledExts, LAMBDA st, ex : YC(st \o "." \o ex, "true", "a name with the extension yaml or yml in some letter case"))
  \o [ix \in 1..8 |-> YC(<<"a.json", "a.yaml.bak", "yaml", "a.yamlx", "a.ym", "", "a.", "a.yml.json">>[ix], "false", "a name with another extension or without one")]
  \o [ix \in 1..9 |-> YC(<<"a", "yml", "a/yaml", "a.yaml/b", "dir.yaml/file", "a.y", "a.yaaml", "a.txt", "a_yaml">>[ix], "false", "a name with another extension or without one")]
  \o [ix \in 1..5 |-> YC(<<".yaml", ".yml", "a.yaml/", "a.yaml ", "dir/.yaml">>[ix], "either", "a hidden file without a stem, or trailing characters")]
(* obs.val = [v] *)
YamlJudge(cs, o) ==
  IF Abnormal(o) THEN "IsYaml " \o AbnormalWhy(o)
  ELSE IF o.cls # "ok" THEN "harness: IsYaml has no error result"
  ELSE IF cs.exp = "either" THEN ""
  ELSE IF cs.exp = "true" /\ ~o.val.v THEN "IsYaml is false for " \o cs.klass
  ELSE IF cs.exp = "false" /\ o.val.v THEN "IsYaml is true for " \o cs.klass
  ELSE ""

(* ---- GetEnvDurationWithRange ---- *)
(* "If the environment variable is not set, it returns `defaultValue`.  If the value is set but is not valid   *)
(* (not a valid time.Duration or falls outside the specified range [minValue, maxValue] inclusively), it       *)
(* returns `defaultValue` and an error."  Otherwise: the value.  Durations in MICROSECONDS (TLC: 32 bit).      *)
(* The meaning of a text is a literal of the table (time.ParseDuration's documentation), not computed.         *)
(* cls: valid | invalid | lenient (not a duration by the letter of time.ParseDuration's doc, or padded: an     *)
(* error, or the value given) | empty (set to the empty string: the doc is silent) | unset                     *)
ET(text, cls, us) == [text |-> text, cls |-> cls, us |-> us]
EnvTexts == <<
  ET("<unset>", "unset", 0), ET("", "empty", 0),
  ET("1s", "valid", 1000000), ET("10s", "valid", 10000000), ET("999ms", "valid", 999000), ET("999.999ms", "valid", 999999), ET("999999us", "valid", 999999),
  ET("1000001us", "valid", 1000001), ET("10.001s", "valid", 10001000), ET("10.000001s", "valid", 10000001), ET("9.999999s", "valid", 9999999),
  ET("5s", "valid", 5000000), ET("5000ms", "valid", 5000000), ET("4999999us", "valid", 4999999), ET("5000001us", "valid", 5000001), ET("+5s", "valid", 5000000),
  ET("-1s", "valid", -1000000), ET("-5s", "valid", -5000000), ET("-5.000001s", "valid", -5000001), ET("30m", "valid", 1800000000), ET("1.5s", "valid", 1500000),
  ET("1m1s", "valid", 61000000), ET("0s", "valid", 0), ET("0.01m", "valid", 600000), ET("1s500ms", "valid", 1500000), ET(".5s", "lenient", 500000), ET("5.s", "lenient", 5000000),
  ET("0", "lenient", 0), ET(" 5s", "lenient", 5000000), ET("5s ", "lenient", 5000000), ET("5 s", "lenient", 5000000), ET("5S", "lenient", 5000000), ET("5sec", "lenient", 5000000),
  ET("0.005ks", "invalid", 0), ET("abc", "invalid", 0), ET("5", "invalid", 0), ET("s", "invalid", 0), ET("5ss", "invalid", 0), ET("--5s", "invalid", 0), ET("5s5", "invalid", 0),
  ET("1e3ms", "invalid", 0), ET("five seconds", "invalid", 0), ET("5s;", "invalid", 0), ET("0x5s", "invalid", 0), ET(".s", "invalid", 0), ET("-", "invalid", 0) >>
ER(def, min, max, what) == [def |-> def, min |-> min, max |-> max, what |-> what]
EnvRanges == <<
  ER(3000000, 1000000, 10000000, "1s..10s"), ER(0, 1000000, 10000000, "1s..10s with a default outside"), ER(5000000, 5000000, 5000000, "min = max"),
  ER(3000000, 10000000, 1000000, "min > max"), ER(2000000, -5000000, 5000000, "-5s..5s"), ER(7000000, 0, 1800000000, "0..30m"), ER(-1000000, 0, 0, "0..0") >>
EnvCases == X2(EnvRanges, EnvTexts, LAMBDA r, t : [fam |-> "envdur", text |-> t.text, cls |-> t.cls, us |-> t.us, def |-> r.def, min |-> r.min, max |-> r.max, range |-> r.what])
InRange(cs) == cs.min <= cs.us /\ cs.us <= cs.max
(* obs.val = [us: the value returned in microseconds, whole: it is a whole number of microseconds, err: an error was returned] *)
EnvJudge(cs, o) ==
  LET isDef == o.val.whole /\ o.val.us = cs.def
      isVal == o.val.whole /\ o.val.us = cs.us
  IN IF Abnormal(o) THEN "GetEnvDurationWithRange " \o AbnormalWhy(o)
     ELSE IF o.cls # "ok" THEN "harness: GetEnvDurationWithRange always returns a value"
     ELSE IF cs.cls = "unset" THEN (IF isDef /\ ~o.val.err THEN "" ELSE "GetEnvDurationWithRange: variable not set, but not the default without an error")
     ELSE IF cs.cls = "empty" THEN (IF isDef THEN "" ELSE "GetEnvDurationWithRange: variable set to the empty string, but not the default")
     ELSE IF cs.cls = "invalid" THEN (IF isDef /\ o.val.err THEN "" ELSE IF ~o.val.err THEN "GetEnvDurationWithRange: no error for a text that is not a duration" ELSE "GetEnvDurationWithRange: error, but not the default, for a text that is not a duration")
     ELSE IF o.val.err THEN (IF ~isDef THEN "GetEnvDurationWithRange: error, but not the default"
                             ELSE IF cs.cls = "valid" /\ InRange(cs) THEN "GetEnvDurationWithRange: error for a value inside the range" \o (IF cs.us \in {cs.min, cs.max} THEN " (a bound: the range is inclusive)" ELSE "")
                             ELSE "")
     ELSE IF ~InRange(cs) THEN "GetEnvDurationWithRange: no error for a value outside the range (" \o cs.range \o ")"
     ELSE IF ~isVal THEN "GetEnvDurationWithRange: another value than the one set"
     ELSE ""
=============================================================================
