SPECIFICATION Spec
CONSTANTS Tier = "small" AsFound = TRUE
INVARIANTS FoundRejected
CHECK_DEADLOCK FALSE
