SPECIFICATION Spec
CONSTANTS Tier = "big" AsFound = FALSE
INVARIANTS NotBad
CHECK_DEADLOCK FALSE
