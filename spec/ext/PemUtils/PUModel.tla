------------------------------ MODULE PUModel ------------------------------
(* X12 - enumeration of the case table.  TLC visits every case, checks that  *)
(* the answer of an implementation that follows the documentation satisfies  *)
(* the monitor (AsFound = FALSE), that the answers of the code as found do   *)
(* NOT (AsFound = TRUE: the deviations observed on the unchanged tree, see   *)
(* FoundAnswer), and writes cases.ndjson for the replay on the real code.    *)
EXTENDS PUContract, Json

CONSTANT AsFound
VARIABLES vId, vMon, vPc
vars == <<vId, vMon, vPc>>

Ok(val) == [ev |-> "obs", cls |-> "ok", val |-> val, msg |-> ""]
Er == [ev |-> "obs", cls |-> "err", val |-> "none", msg |-> "error"]
Pn == [ev |-> "obs", cls |-> "panic", val |-> "none", msg |-> "panic"]

(* ---- the answer of a conforming implementation ---- *)
CertsAnswer(doc, chain) == IF CertsOf(doc) = <<>> \/ HasBadCert(doc) \/ (chain /\ ~ChainOK(CertsOf(doc))) THEN Er ELSE Ok([names |-> CertsOf(doc)])
KeyAnswer(doc) == LET fb == FirstBlock(doc) IN IF fb # "none" /\ ClassOf(fb) = "key" THEN Ok([name |-> fb, type |-> KR[fb].id]) ELSE Er
GetPemAnswer(cs) == IF cs.mode = "missing" \/ ~HasBlock(cs.doc) THEN Er
                    ELSE Ok([eqval |-> cs.mode = "inline", eqfile |-> cs.mode = "file"])
EnvAnswer(cs) == IF cs.cls \in {"unset", "empty"} THEN Ok([us |-> cs.def, whole |-> TRUE, err |-> FALSE])
                 ELSE IF cs.cls = "valid" /\ InRange(cs) THEN Ok([us |-> cs.us, whole |-> TRUE, err |-> FALSE])
                 ELSE Ok([us |-> cs.def, whole |-> TRUE, err |-> TRUE])
PkEqAnswer(cs) == IF cs.arep = "odd" THEN Er ELSE Ok([eq |-> cs.brep # "odd" /\ cs.a = cs.b])
Answer(cs) ==
  CASE cs.fam = "certs" -> CertsAnswer(cs.doc, FALSE)
    [] cs.fam = "chain" -> CertsAnswer(cs.doc, TRUE)
    [] cs.fam = "key" -> KeyAnswer(cs.doc)
    [] cs.fam = "validpem" -> Ok([valid |-> HasBlock(cs.doc)])
    [] cs.fam = "getpem" -> GetPemAnswer(cs)
    [] cs.fam = "enckey" -> IF cs.exp = "roundtrip" THEN Ok([decoded |-> TRUE, same |-> TRUE]) ELSE Er
    [] cs.fam = "encx509" -> IF cs.name = "nil" THEN Er ELSE Ok([names |-> <<cs.name>>, clean |-> TRUE])
    [] cs.fam = "encchain" -> IF cs.names = <<>> THEN Er ELSE Ok([names |-> Must(cs.names), clean |-> TRUE])
    [] cs.fam = "pkeq" -> PkEqAnswer(cs)
    [] cs.fam = "pkrel" -> Ok([rel |-> [ia \in 1..Len(cs.items) |-> [ib \in 1..Len(cs.items) |-> IF cs.items[ia].key = cs.items[ib].key THEN "t" ELSE "f"]]])
    [] cs.fam = "truthy" -> Ok([v |-> cs.exp = "true"])
    [] cs.fam = "yaml" -> Ok([v |-> cs.exp = "true"])
    [] cs.fam = "envdur" -> EnvAnswer(cs)

(* ---- the code as found on the unchanged tree ---- *)
(* decodeCertificatePEM returns a nil rest for a block that is not a CERTIFICATE: the loop of                  *)
(* DecodePEMCertificates ends there and what follows is never looked at.                                         *)
FirstForeign(doc) == IF HasForeign(doc) THEN (CHOOSE ix \in 1..Len(doc) : ClassOf(doc[ix]) \in {"key", "badkey", "foreign"} /\ \A jx \in 1..(ix - 1) : ClassOf(doc[jx]) \notin {"key", "badkey", "foreign"}) ELSE Len(doc) + 1
Seen(doc) == SubSeq(doc, 1, FirstForeign(doc) - 1)
FoundCerts(doc, chain) == CertsAnswer(Seen(doc), chain)
DevCerts(cs) == cs.fam \in {"certs", "chain"} /\ HasForeign(cs.doc) /\ FoundCerts(cs.doc, cs.fam = "chain").cls = "ok"
                /\ (HasBadCert(cs.doc) \/ CertsOf(Seen(cs.doc)) # CertsOf(cs.doc))
(* EncodePrivateKey lists *ed25519.PrivateKey, not the type ed25519.PrivateKey; EncodeX509 dereferences a nil certificate, *)
(* EncodePrivateKey hands a nil *ecdsa.PrivateKey to x509.MarshalPKCS8PrivateKey                                             *)
DevEd(cs) == cs.fam = "enckey" /\ cs.kt = "ed25519-value"
DevNil(cs) == (cs.fam = "encx509" /\ cs.name = "nil") \/ (cs.fam = "enckey" /\ cs.kt = "nil-ecdsa-pointer")
Deviates(cs) == DevCerts(cs) \/ DevEd(cs) \/ DevNil(cs)
FoundAnswer(cs) ==
  IF cs.fam \in {"certs", "chain"} THEN FoundCerts(cs.doc, cs.fam = "chain")
  ELSE IF DevEd(cs) THEN Er
  ELSE IF DevNil(cs) THEN Pn
  ELSE IF cs.fam = "encchain" /\ cs.names # <<>> THEN Ok([names |-> SelectSeq(cs.names, LAMBDA n : n \in {"leaf", "int", "ssleaf"}), clean |-> TRUE])
  ELSE Answer(cs)

Init == vId \in 1..NumCases /\ vMon = MReset([ev |-> "reset", id |-> vId, fam |-> CaseSeq[vId].fam, fed |-> Fed(CaseSeq[vId])]) /\ vPc = "call"
Call == /\ vPc = "call"
        /\ vMon' = MNext(MNext(vMon, IF AsFound THEN FoundAnswer(CaseSeq[vId]) ELSE Answer(CaseSeq[vId])), [ev |-> "end"])
        /\ vPc' = "done"
        /\ UNCHANGED vId
Spec == Init /\ [][Call]_vars
NotBad == ~IsBad(vMon)
(* with AsFound: exactly the deviating cases are rejected *)
FoundRejected == vPc = "done" => (IsBad(vMon) <=> Deviates(CaseSeq[vId]))

(* sanity of the tables *)
ASSUME Len(Kinds) = Cardinality(Elems(KindNames)) /\ NReduced <= Len(Kinds)
ASSUME \A ix \in 1..Len(Kinds) : Kinds[ix].class \in {"cert", "badcert", "key", "badkey", "foreign", "noblock"}
ASSUME ChainOK(<<"leaf", "int", "root">>) /\ ChainOK(<<"root">>) /\ ~ChainOK(<<"leaf", "root">>) /\ ~ChainOK(<<"ssleaf", "ssleaf">>) /\ ~ChainOK(<<"int", "leaf">>) /\ ChainOK(<<>>)
ASSUME IsSubseq(<<1, 3>>, <<1, 2, 3>>) /\ ~IsSubseq(<<3, 1>>, <<1, 2, 3>>) /\ Len(Words(<<1, 2, 3>>, 2)) = 9 /\ Len(WordsUpTo(<<1, 2>>, 2)) = 7
ASSUME Len(Items) = 16 /\ Len(Spelled) = 33
ASSUME \A ix \in 1..Len(EnvTexts) : EnvTexts[ix].cls \in {"unset", "empty", "valid", "lenient", "invalid"}
ASSUME PrintT(<<"PU-CASES", NumCases, "docs", Len(Docs), "encchain", Len(EncChainCases), "pkeq", Len(PkEqCases), "truthy", Len(TruthyCases), "yaml", Len(YamlCases), "envdur", Len(EnvCases)>>)
(* dev: the as-found variant of this model predicts that the case is rejected on the unchanged tree (informational) *)
ASSUME ndJsonSerialize("cases.ndjson", [ix \in 1..NumCases |-> [id |-> ix, dev |-> Deviates(CaseSeq[ix])] @@ CaseSeq[ix]])
=============================================================================
