------------------------------ MODULE TracePU ------------------------------
(* Validates recorded calls of the real crypto/pem and utils functions       *)
(* against the expected answers of the X12 case table.                        *)
EXTENDS PUContract, TraceLib

Trace == LoadTrace("trace.ndjson")
Starts == {ix \in 1..Len(Trace) : Trace[ix].ev = "reset"}
VARIABLES vL, vMon
TInit == vL \in Starts /\ vMon = MReset(Trace[vL])
TNext == /\ ~IsBad(vMon)
         /\ vL + 1 <= Len(Trace)
         /\ Trace[vL + 1].ev # "reset"
         /\ vMon' = MNext(vMon, Trace[vL + 1])
         /\ vL' = vL + 1
TSpec == TInit /\ [][TNext]_<<vL, vMon>>
Report == IF IsBad(vMon) THEN RejectLine(vL, vMon.why) ELSE TRUE
=============================================================================
