SPECIFICATION Spec
CONSTANTS Tier = "small" AsFound = FALSE
INVARIANTS NotBad
CHECK_DEADLOCK FALSE
