------------------------------- MODULE PUPem -------------------------------
(* X12 (a) - PEM documents as SEQUENCES OF BLOCKS.                           *)
(*                                                                            *)
(* A document is a sequence of block kinds; the harness materialises every   *)
(* kind with real certificates / keys of a small PKI generated once per run: *)
(*   root (self-signed CA) -> int (CA) -> leaf, leaf2 ;  other (self-signed  *)
(*   CA of an unrelated PKI) ;  ssleaf (self-signed, NOT a CA).              *)
(*                                                                            *)
(* Functions and the doc sentences the expectations come from:               *)
(*  DecodePEMCertificates      "takes a PEM-encoded x509 certificates byte   *)
(*                              array and returns all certificates in a      *)
(*                              slice of x509.Certificate objects"           *)
(*  DecodePEMCertificatesChain  the same + "Expects certificates to be a     *)
(*                              chain with leaf certificate to be first"     *)
(*  DecodePEMPrivateKey        "takes a key PEM byte array and returns an    *)
(*                              object that represents either an RSA or EC   *)
(*                              private key"                                  *)
(*  utils.IsValidPEM           "validates the provided input has PEM         *)
(*                              formatted block"                              *)
(*  utils.GetPEM               "loads a PEM-encoded file (certificate or     *)
(*                              key)"; in the body: "If val is already a     *)
(*                              PEM-encoded string, return it as-is" ...     *)
(*                              "Assume it's a file"                          *)
EXTENDS PUBase

(* ---- the block alphabet: name, class, identity ---- *)
(* class: cert     a CERTIFICATE block holding a well-formed certificate (id = the certificate's name)       *)
(*        badcert  a CERTIFICATE block whose DER is garbage                                                    *)
(*        key      a well-formed private key whose label matches its encoding (id = the Go type returned)      *)
(*        badkey   a private-key block that cannot be returned as a signer                                     *)
(*        foreign  a well-formed PEM block that is neither a certificate nor a private key                     *)
(*        noblock  text that encoding/pem does not see as a block at all                                       *)
BK(name, class, ident) == [name |-> name, class |-> class, id |-> ident]
Kinds == <<
  BK("leaf", "cert", "leaf"), BK("int", "cert", "int"), BK("root", "cert", "root"), BK("other", "cert", "other"),
  BK("badcert", "badcert", ""),                       \* BEGIN CERTIFICATE, valid base64, DER garbage
  BK("pkcs8-ec", "key", "*ecdsa.PrivateKey"),         \* PRIVATE KEY, PKCS#8, ECDSA P-256
  BK("unknown", "foreign", ""),                       \* a block of type FOO
  BK("text", "noblock", ""),                          \* free text lines without any BEGIN marker
  BK("badb64", "noblock", ""),                        \* BEGIN CERTIFICATE / END CERTIFICATE around a body that is not base64: skipped by encoding/pem
  \* ---- kinds beyond the reduced alphabet
  BK("leaf2", "cert", "leaf2"), BK("ssleaf", "cert", "ssleaf"),
  BK("hdrleaf", "cert", "leaf"),                      \* the leaf certificate in a CERTIFICATE block with PEM headers
  BK("ec-sec1", "key", "*ecdsa.PrivateKey"),          \* EC PRIVATE KEY, SEC 1
  BK("rsa-pkcs1", "key", "*rsa.PrivateKey"),          \* RSA PRIVATE KEY, PKCS#1
  BK("pkcs8-rsa", "key", "*rsa.PrivateKey"),
  BK("pkcs8-ed25519", "key", "ed25519.PrivateKey"),
  BK("pkcs8-x25519", "badkey", ""),                   \* a PKCS#8 key that is not a crypto.Signer
  BK("mislabeled", "badkey", ""),                     \* PKCS#8 bytes under the label EC PRIVATE KEY
  BK("badkey", "badkey", ""),                         \* PRIVATE KEY, DER garbage
  BK("pub", "foreign", "") >>                         \* PUBLIC KEY (PKIX)
NReduced == 9
KindNames == [ix \in 1..Len(Kinds) |-> Kinds[ix].name]
FullAlpha == KindNames
ReducedAlpha == SubSeq(KindNames, 1, NReduced)
KR == [n \in Elems(KindNames) |-> Kinds[CHOOSE ix \in 1..Len(Kinds) : Kinds[ix].name = n]]

(* the PKI *)
SignedBy == {<<"leaf", "int">>, <<"leaf2", "int">>, <<"int", "root">>, <<"root", "root">>, <<"other", "other">>, <<"ssleaf", "ssleaf">>}
IsCA == {"root", "int", "other"}
ChainOK(cn) == \A ix \in 1..(Len(cn) - 1) : <<cn[ix], cn[ix + 1]>> \in SignedBy /\ cn[ix + 1] \in IsCA

(* ---- the documents: quick = length 0..3 over the full alphabet;                                     *)
(*      thorough = length 0..4 over the full alphabet + length 5 over the reduced one                    *)
Docs == IF Big THEN WordsUpTo(FullAlpha, 4) \o Words(ReducedAlpha, 5)
        ELSE WordsUpTo(FullAlpha, 3)
ShortDocs == WordsUpTo(FullAlpha, 2)
LayDocs == IF Big THEN WordsUpTo(FullAlpha, 3) ELSE ShortDocs          \* the documents that are also laid out in other ways
(* how the blocks are laid out in the text (the expected answers do not depend on it: all are PEM, RFC 7468): *)
(* lf: every line ends with LF; crlf: with CR LF; spaced: blank lines in front of and between the blocks;      *)
(* nofinalnl: the last line of the document has no line end                                                     *)
Layouts == <<"crlf", "spaced", "nofinalnl">>
DC(fam, doc, lay) == [fam |-> fam, doc |-> doc, lay |-> lay]
DocCases(fam) == [ix \in 1..Len(Docs) |-> DC(fam, Docs[ix], "lf")] \o X2(Layouts, LayDocs, LAMBDA la, d : DC(fam, d, la))

ClassOf(n) == KR[n].class
RealBlocks(doc) == SelectSeq(doc, LAMBDA n : ClassOf(n) # "noblock")                 \* what encoding/pem sees
CertsOf(doc) == LET cb == SelectSeq(doc, LAMBDA n : ClassOf(n) = "cert") IN [ix \in 1..Len(cb) |-> KR[cb[ix]].id]
HasBadCert(doc) == \E ix \in 1..Len(doc) : ClassOf(doc[ix]) = "badcert"
HasForeign(doc) == \E ix \in 1..Len(doc) : ClassOf(doc[ix]) \in {"key", "badkey", "foreign"}
HasText(doc) == \E ix \in 1..Len(doc) : ClassOf(doc[ix]) = "noblock"
(* documents on which the doc comment leaves no freedom: certificate blocks (and text) only, no PEM headers *)
Strict(doc) == ~HasForeign(doc) /\ \A ix \in 1..Len(doc) : doc[ix] # "hdrleaf"
DocClass(doc) == IF RealBlocks(doc) = <<>> THEN "a document without any PEM block"
                 ELSE IF HasBadCert(doc) THEN "a document with a malformed CERTIFICATE block"
                 ELSE IF HasForeign(doc) THEN "a document with non-certificate blocks"
                 ELSE "a document of certificates"

(* ---- DecodePEMCertificates / DecodePEMCertificatesChain ---- *)
CertCases == DocCases("certs")
ChainCases == DocCases("chain")

ChainDefect(cn) == IF \E ix \in 1..(Len(cn) - 1) : <<cn[ix], cn[ix + 1]>> \notin SignedBy
                   THEN "a certificate is not signed by the next one"
                   ELSE "a certificate is signed by one that is not a CA"
(* obs.val = [names: the returned certificates by fixture name] *)
CertsJudgeFn(fn, chain, doc, o) ==
  LET want == CertsOf(doc)
  IN IF Abnormal(o) THEN fn \o " " \o AbnormalWhy(o) \o " on " \o DocClass(doc)
     ELSE IF o.cls = "err"
          THEN (IF Strict(doc) /\ ~HasBadCert(doc) /\ want # <<>> /\ (chain => ChainOK(want))
                THEN fn \o " rejected " \o (IF chain THEN "a valid chain" ELSE "a document of well-formed certificates") \o (IF HasText(doc) THEN " with text around the blocks" ELSE "")
                ELSE "")
     ELSE IF want = <<>> /\ ~HasBadCert(doc) THEN fn \o " returned a result for a document without certificates"
     ELSE IF o.val.names = want
          THEN (IF HasBadCert(doc) THEN fn \o " accepted a document with a malformed CERTIFICATE block" \o (IF HasForeign(doc) THEN " among non-certificate blocks" ELSE "")
                ELSE IF chain /\ ~ChainOK(want) THEN fn \o " accepted certificates that are not a chain: " \o ChainDefect(want)
                ELSE "")
     ELSE IF Len(o.val.names) < Len(want)
          THEN (IF HasForeign(doc) THEN fn \o " silently drops certificates after a non-certificate block"     \* "returns all certificates"
                ELSE fn \o " returned fewer certificates than the document holds")
     ELSE fn \o " returned other certificates than the document holds"
CertsJudge(cs, o) == CertsJudgeFn("DecodePEMCertificates", FALSE, cs.doc, o)
ChainJudge(cs, o) == CertsJudgeFn("DecodePEMCertificatesChain", TRUE, cs.doc, o)

(* ---- DecodePEMPrivateKey ---- *)
KeyCases == DocCases("key")
FirstOf(sq) == IF sq = <<>> THEN "none" ELSE sq[1]
FirstBlock(doc) == FirstOf(RealBlocks(doc))
FirstKeyBlock(doc) == FirstOf(SelectSeq(doc, LAMBDA n : ClassOf(n) \in {"key", "badkey"}))
(* obs.val = [name: the key kind whose fixture key has the same public key, type: the dynamic Go type] *)
KeyJudge(cs, o) ==
  LET fb == FirstBlock(cs.doc)
      fk == FirstKeyBlock(cs.doc)
  IN IF Abnormal(o) THEN "DecodePEMPrivateKey " \o AbnormalWhy(o) \o ": first block " \o fb
     ELSE IF fb = "none" THEN (IF o.cls = "ok" THEN "DecodePEMPrivateKey returned a key for a document without any PEM block" ELSE "")
     ELSE IF ClassOf(fb) = "key"
          THEN (IF o.cls = "err" THEN "DecodePEMPrivateKey rejected a well-formed key: " \o fb
                ELSE IF o.val.name # fb THEN "DecodePEMPrivateKey returned another key than the one of the first block"
                ELSE IF o.val.type # KR[fb].id THEN "DecodePEMPrivateKey returned an unexpected type for " \o fb
                ELSE "")
     ELSE IF ClassOf(fb) = "badkey" THEN (IF o.cls = "ok" THEN "DecodePEMPrivateKey returned a key for a first block that is " \o fb ELSE "")
     \* the first block is not a private key: the doc is silent - an error, or the FIRST private key of the document
     ELSE IF o.cls = "err" THEN ""
     ELSE IF fk # "none" /\ ClassOf(fk) = "key" /\ o.val.name = fk /\ o.val.type = KR[fk].id THEN ""
     ELSE "DecodePEMPrivateKey returned a key that is not the first private key of the document"

(* ---- utils.IsValidPEM: at least one block that encoding/pem can decode ---- *)
ValidPemCases == [ix \in 1..Len(ShortDocs) |-> DC("validpem", ShortDocs[ix], "lf")] \o X2(Layouts, ShortDocs, LAMBDA la, d : DC("validpem", d, la))
HasBlock(doc) == RealBlocks(doc) # <<>>
(* obs.val = [valid] *)
ValidPemJudge(cs, o) ==
  IF Abnormal(o) THEN "IsValidPEM " \o AbnormalWhy(o)
  ELSE IF o.cls # "ok" THEN "harness: IsValidPEM has no error result"
  ELSE IF o.val.valid = HasBlock(cs.doc) THEN ""
  ELSE IF HasBlock(cs.doc) THEN "IsValidPEM is false for a text with a PEM block" \o (IF ClassOf(cs.doc[1]) = "noblock" THEN " after other text" ELSE "")
  ELSE "IsValidPEM is true for a text without a PEM block"

(* ---- utils.GetPEM ---- *)
(* mode inline: val is the text of the document; mode file: val is the path of an existing file that holds it;  *)
(* mode missing: val is a path that does not exist.                                                              *)
GetPemCases == Flat([ix \in 1..Len(ShortDocs) |-> << [fam |-> "getpem", mode |-> "inline", doc |-> ShortDocs[ix]], [fam |-> "getpem", mode |-> "file", doc |-> ShortDocs[ix]] >>])
               \o << [fam |-> "getpem", mode |-> "missing", doc |-> <<>>] >>
(* obs.val = [eqval: the result equals val, eqfile: the result equals the content of the file] *)
GetPemJudge(cs, o) ==
  IF Abnormal(o) THEN "GetPEM " \o AbnormalWhy(o) \o " (" \o cs.mode \o ")"
  ELSE IF cs.mode = "missing" THEN (IF o.cls = "ok" THEN "GetPEM returned a result for a path that does not exist" ELSE "")
  ELSE IF cs.mode = "inline"
       THEN (IF HasBlock(cs.doc) THEN (IF o.cls = "err" THEN "GetPEM rejected a PEM-encoded string"
                                       ELSE IF ~o.val.eqval THEN "GetPEM did not return the PEM-encoded string as it is" ELSE "")
             ELSE IF o.cls = "ok" THEN "GetPEM returned a result for a text that is neither PEM nor a file" ELSE "")
  ELSE IF HasBlock(cs.doc) THEN (IF o.cls = "err" THEN "GetPEM rejected the path of a PEM file"
                                 ELSE IF ~o.val.eqfile THEN "GetPEM did not return the content of the PEM file" ELSE "")
  ELSE ""        \* an existing file without PEM content: the doc is silent
=============================================================================
