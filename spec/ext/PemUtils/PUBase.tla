------------------------------- MODULE PUBase -------------------------------
(* X12 - helpers shared by the case tables of crypto/pem and utils.          *)
(* All tables are SEQUENCES built from literal tuples and index ranges (no   *)
(* sets), so that the numbering of the cases is the same in every TLC run    *)
(* (model check, export, trace validation).                                   *)
EXTENDS Integers, Sequences, FiniteSets, TLC, SequencesExt

CONSTANT Tier          \* "small" (quick tier) | "big" (thorough tier)
Big == Tier = "big"

Flat(ss) == FlattenSeq(ss)
X2(A, B, Op(_, _)) == Flat([ia \in 1..Len(A) |-> [ib \in 1..Len(B) |-> Op(A[ia], B[ib])]])
X3(A, B, C, Op(_, _, _)) == Flat([ia \in 1..Len(A) |-> Flat([ib \in 1..Len(B) |-> [ic \in 1..Len(C) |-> Op(A[ia], B[ib], C[ic])]])])
Elems(sq) == {sq[ix] : ix \in 1..Len(sq)}
Bit(m, ix) == (m \div (2 ^ (ix - 1))) % 2 = 1

RECURSIVE Join(_)
Join(cs) == IF cs = <<>> THEN "" ELSE Head(cs) \o Join(Tail(cs))
RECURSIVE JoinSep(_, _)
JoinSep(cs, sep) == IF cs = <<>> THEN "" ELSE IF Len(cs) = 1 THEN Head(cs) ELSE Head(cs) \o sep \o JoinSep(Tail(cs), sep)

(* all sequences of length n over the alphabet A (a sequence), in lexicographic order of positions *)
RECURSIVE Words(_, _)
Words(A, n) == IF n = 0 THEN << <<>> >>
               ELSE LET prev == Words(A, n - 1)
                    IN Flat([ia \in 1..Len(A) |-> [jp \in 1..Len(prev) |-> <<A[ia]>> \o prev[jp]]])
WordsUpTo(A, n) == Flat([len \in 1..(n + 1) |-> Words(A, len - 1)])

(* is `sub` obtained from `full` by deleting elements? *)
RECURSIVE IsSubseq(_, _)
IsSubseq(sub, full) == IF sub = <<>> THEN TRUE
                       ELSE IF full = <<>> THEN FALSE
                       ELSE IF Head(sub) = Head(full) THEN IsSubseq(Tail(sub), Tail(full))
                       ELSE IsSubseq(sub, Tail(full))

(* ---- outcome of one real call, as recorded by the harness ---- *)
(* obs = [cls |-> "ok" | "err" | "panic" | "crash" | "hang", val |-> ..., msg |-> ...] *)
Abnormal(o) == o.cls \in {"panic", "crash", "hang"}
AbnormalWhy(o) == CASE o.cls = "panic" -> "panicked" [] o.cls = "crash" -> "crashed the process" [] o.cls = "hang" -> "did not return" [] OTHER -> ""
=============================================================================
