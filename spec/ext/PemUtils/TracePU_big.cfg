SPECIFICATION TSpec
CONSTANTS Tier = "big"
CONSTRAINT Report
CHECK_DEADLOCK FALSE
