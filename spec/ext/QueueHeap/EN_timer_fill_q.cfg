SPECIFICATION Spec
CONSTANTS NKeys = 4 NTimes = 4 MaxLen = 4 Mode = "timer" Shape = "fill"
INVARIANTS Export GroupsSane
CHECK_DEADLOCK FALSE
