SPECIFICATION Spec
CONSTANTS NKeys = 4 NTimes = 3 MaxOps = 6 Defect = "rawremove"
INVARIANTS NotBad
CHECK_DEADLOCK FALSE
