SPECIFICATION Spec
CONSTANTS NKeys = 5 NTimes = 3 MaxOps = 6 Defect = "none"
INVARIANTS NotBad Shape HeapOrder
CHECK_DEADLOCK FALSE
