------------------------- MODULE QueueHeapContract -------------------------
(* X02 - the contract of the internal queue of events/queue (queue.go) as a *)
(* monitor automaton: the queue refines a map key -> item ordered by the     *)
(* item's scheduled time.  From the doc comments of queue.go:                *)
(*   Insert  "inserts a new item into the queue. If replace is true,         *)
(*           existing items are replaced" (replace = false keeps the old one)*)
(*   Update  "Update an item in the queue" (not in the queue: a nop)         *)
(*   Remove  "Remove an item from the queue" (not in the queue: a nop)       *)
(*   Peek / Pop  "the next item in the queue" = one with the earliest        *)
(*           scheduled time (ties: any); the boolean is true iff found       *)
(*   Len     the number of items                                             *)
(* Scheduled times are ordinals (the harness maps them to instants between   *)
(* year 1 and year 9999); only their order matters.  Events:                 *)
(*  reset   nkeys, now                                                       *)
(*  insert  k, t, s, replace      s: serial number of the value handed in    *)
(*  update  k, t, s                                                          *)
(*  remove  k                                                                *)
(*  pop     k, s                  Pop returned (item of key k, serial s),true *)
(*                                (through the Processor: the callback ran)  *)
(*  popnone                       Pop returned false                         *)
(*  peek    k, s / peeknone                                                  *)
(*  len     n                                                                *)
(*  adv     now                   the clock reached ordinal now              *)
(*  quiet                         (through the Processor) everything that is *)
(*                                due has had the time to be delivered       *)
(*  panicked                      an Enqueue / Dequeue call panicked         *)
(*  run                           (hold mode) the held delivery loop is let  *)
(*                                go; informational                          *)
EXTENDS Integers, Sequences, FiniteSets

Bad(why) == [bad |-> TRUE, why |-> why]
IsBad(c) == c.bad
None == [t |-> 0, s |-> 0]

CReset(e) == [bad |-> FALSE, why |-> "", nkeys |-> e.nkeys, now |-> e.now, q |-> [k \in 1..e.nkeys |-> None]]
Dummy == CReset([nkeys |-> 1, now |-> 0])

In(c, k) == c.q[k].t # 0
Present(c) == {k \in 1..c.nkeys : In(c, k)}
IsMin(c, k) == \A j \in Present(c) : c.q[k].t <= c.q[j].t

CInsert(c, e) ==
  IF In(c, e.k) /\ ~e.replace THEN c ELSE [c EXCEPT !.q[e.k] = [t |-> e.t, s |-> e.s]]
CUpdate(c, e) ==
  IF In(c, e.k) THEN [c EXCEPT !.q[e.k] = [t |-> e.t, s |-> e.s]] ELSE c
CRemove(c, e) == [c EXCEPT !.q[e.k] = None]

Front(c, e, what) ==
  IF ~(e.k \in 1..c.nkeys) \/ ~In(c, e.k) THEN Bad(what \o " an item that is not in the queue (removed, already delivered or never inserted)")
  ELSE IF c.q[e.k].s # e.s THEN Bad(what \o " a value that is not the current one of its key (replaced, or a rejected insert)")
  ELSE IF ~IsMin(c, e.k) THEN Bad(what \o " an item while one with an earlier scheduled time was queued")
  ELSE c

CPop(c, e) == LET r == Front(c, e, "Pop returned") IN IF IsBad(r) THEN r ELSE [c EXCEPT !.q[e.k] = None]
CPeek(c, e) == Front(c, e, "Peek returned")
CNone(c, what) == IF Present(c) # {} THEN Bad(what \o " found nothing in a non-empty queue") ELSE c
CLen(c, e) == IF e.n # Cardinality(Present(c)) THEN Bad("Len is not the number of items") ELSE c
CQuiet(c) == IF \E k \in Present(c) : c.q[k].t <= c.now THEN Bad("an item that is due was never delivered") ELSE c

CNext(c, e) ==
  CASE e.ev = "insert" -> CInsert(c, e)
    [] e.ev = "update" -> CUpdate(c, e)
    [] e.ev = "remove" -> CRemove(c, e)
    [] e.ev = "pop" -> CPop(c, e)
    [] e.ev = "popnone" -> CNone(c, "Pop")
    [] e.ev = "peek" -> CPeek(c, e)
    [] e.ev = "peeknone" -> CNone(c, "Peek")
    [] e.ev = "len" -> CLen(c, e)
    [] e.ev = "adv" -> [c EXCEPT !.now = e.now]
    [] e.ev = "quiet" -> CQuiet(c)
    [] e.ev = "run" -> c
    [] e.ev = "panicked" -> Bad("an operation on the queue panicked")
    [] OTHER -> Bad("harness: unknown event")
=============================================================================
