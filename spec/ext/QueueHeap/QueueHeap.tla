------------------------------ MODULE QueueHeap ------------------------------
(* X02 - the sequence-of-operations model.  The queue is a map key -> time;  *)
(* TLC enumerates ALL operation sequences up to MaxLen (one state per        *)
(* sequence: the history is part of the state) and exports each one together *)
(* with the callback order the contract admits when the sequence is replayed *)
(* on a queue.Processor: a sequence of groups, one group per (delivery       *)
(* burst, scheduled time); the keys of a group may be delivered in any order,*)
(* the groups in this order.                                                 *)
(*  Mode "timer": the Processor's clock starts before every scheduled time;  *)
(*     ops Enq(k,t), Deq(k), Adv(t) (clock := t); after every op whatever is *)
(*     due (t <= now) is delivered, earliest first.                          *)
(*  Mode "hold": every scheduled time is in the past of the clock and the    *)
(*     delivery loop is held (by a harness item whose callback blocks) while *)
(*     Enq/Deq run; op Run lets it deliver everything queued, earliest first.*)
(* After the last op the harness drains the queue (Adv(top) / Run).          *)
(*  Shape "all": every sequence.  Shape "fill": Enq of keys 1..NKeys in      *)
(*     order (every assignment of times), then up to MaxLen - NKeys further  *)
(*     Enq/Deq.                                                              *)
(* Key symmetry is reduced by construction: a key index is used only after   *)
(* all smaller ones.                                                         *)
EXTENDS Integers, Sequences, FiniteSets, TLC

CONSTANTS NKeys, NTimes, MaxLen, Mode, Shape

VARIABLES ops, q, now, groups, used
vars == <<ops, q, now, groups, used>>

Keys == 1..NKeys
Times == 1..NTimes

Min(S) == CHOOSE x \in S : \A y \in S : x <= y
RECURSIVE Burst(_, _)
Burst(qq, D) == IF D = {} THEN <<>>
                ELSE LET m == Min({qq[k] : k \in D})  G == {k \in D : qq[k] = m} IN <<G>> \o Burst(qq, D \ G)
Due(qq, n) == {k \in Keys : qq[k] # 0 /\ qq[k] <= n}
(* deliver everything due *)
Fire(qq, n) == [q |-> [k \in Keys |-> IF k \in Due(qq, n) THEN 0 ELSE qq[k]], g |-> Burst(qq, Due(qq, n))]

Init == ops = <<>> /\ q = [k \in Keys |-> 0] /\ now = (IF Mode = "hold" THEN NTimes + 1 ELSE 0) /\ groups = <<>> /\ used = 0

After(code, qq, n) ==
  /\ ops' = Append(ops, code)
  /\ IF Mode = "hold" THEN q' = qq /\ groups' = groups
     ELSE LET f == Fire(qq, n) IN q' = f.q /\ groups' = groups \o f.g
  /\ now' = n

KeyOK(k) == k <= used + 1
Filling == Shape = "fill" /\ Len(ops) < NKeys

Enq(k, t) ==
  /\ IF Filling THEN k = Len(ops) + 1 ELSE KeyOK(k)
  /\ used' = IF k > used THEN k ELSE used
  /\ After(10 * k + t, [q EXCEPT ![k] = t], now)
Deq(k) ==
  /\ ~Filling /\ KeyOK(k)
  /\ used' = IF k > used THEN k ELSE used
  /\ After(70 + k, [q EXCEPT ![k] = 0], now)
Adv(t) ==
  /\ Mode = "timer" /\ Shape = "all" /\ t > now
  /\ UNCHANGED used
  /\ After(80 + t, q, t)
Run ==
  /\ Mode = "hold" /\ Shape = "all"
  /\ ops' = Append(ops, 90) /\ UNCHANGED <<now, used>>
  /\ LET f == Fire(q, now) IN q' = f.q /\ groups' = groups \o f.g

Next ==
  /\ Len(ops) < MaxLen
  /\ \/ \E k \in Keys, t \in Times : Enq(k, t)
     \/ \E k \in Keys : Deq(k)
     \/ \E t \in Times : Adv(t)
     \/ Run
Spec == Init /\ [][Next]_vars

(* --- export: one line per sequence --- *)
RECURSIVE JoinInts(_)
JoinInts(s) == IF s = <<>> THEN "" ELSE ToString(Head(s)) \o (IF Len(s) > 1 THEN "," ELSE "") \o JoinInts(Tail(s))
RECURSIVE Digits(_, _)
Digits(G, k) == IF k > NKeys THEN "" ELSE (IF k \in G THEN ToString(k) ELSE "") \o Digits(G, k + 1)
RECURSIVE JoinGroups(_)
JoinGroups(gs) == IF gs = <<>> THEN "" ELSE Digits(Head(gs), 1) \o (IF Len(gs) > 1 THEN ";" ELSE "") \o JoinGroups(Tail(gs))
FinalGroups == groups \o Fire(q, NTimes + 1).g
Exportable == ops # <<>> /\ (Shape = "fill" => Len(ops) >= NKeys)
Export == Exportable => PrintT("SEQ|" \o Mode \o "|" \o ToString(NKeys) \o "|" \o JoinInts(ops) \o "|" \o JoinGroups(FinalGroups))

(* sanity of the model itself: an item is delivered at most once per enqueue, groups are non-empty *)
GroupsSane == \A i \in 1..Len(groups) : groups[i] # {} /\ groups[i] \subseteq Keys
=============================================================================
