--------------------------- MODULE TraceQueueHeap ---------------------------
(* Validates recorded replays of operation sequences on the real             *)
(* queue.Processor (whose callback order exposes the Pop order of the        *)
(* internal heap) against the X02 contract monitor.  Deterministic monitor,  *)
(* RejectLine idiom; one behaviour per "reset" line.                         *)
EXTENDS QueueHeapContract, TraceLib

Trace == LoadTrace("trace.ndjson")
Starts == {i \in 1..Len(Trace) : Trace[i].ev = "reset"}
VARIABLES l, c
TInit == l \in Starts /\ c = CReset(Trace[l])
TNext == /\ ~IsBad(c)
         /\ l + 1 <= Len(Trace)
         /\ Trace[l + 1].ev # "reset"
         /\ c' = CNext(c, Trace[l + 1])
         /\ l' = l + 1
TSpec == TInit /\ [][TNext]_<<l, c>>
Report == IF IsBad(c) THEN RejectLine(l, c.why) ELSE TRUE
=============================================================================
