SPECIFICATION Spec
CONSTANTS NKeys = 3 NTimes = 4 MaxLen = 4 Mode = "timer" Shape = "all"
INVARIANTS Export GroupsSane
CHECK_DEADLOCK FALSE
