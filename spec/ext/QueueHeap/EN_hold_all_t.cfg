SPECIFICATION Spec
CONSTANTS NKeys = 3 NTimes = 4 MaxLen = 6 Mode = "hold" Shape = "all"
INVARIANTS Export GroupsSane
CHECK_DEADLOCK FALSE
