SPECIFICATION Spec
CONSTANTS NKeys = 6 NTimes = 4 MaxLen = 7 Mode = "hold" Shape = "fill"
INVARIANTS Export GroupsSane
CHECK_DEADLOCK FALSE
