SPECIFICATION Spec
CONSTANTS NKeys = 4 NTimes = 3 MaxOps = 5 Defect = "nofix"
INVARIANTS NotBad
CHECK_DEADLOCK FALSE
