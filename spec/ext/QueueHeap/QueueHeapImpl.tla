--------------------------- MODULE QueueHeapImpl ---------------------------
(* X02 - implementation-shaped model of events/queue/queue.go: the items map *)
(* plus a binary heap stored in a slice and maintained with the algorithms   *)
(* of container/heap (up, down, Push, Pop, Remove, Fix); every queueItem     *)
(* carries its index in the slice, maintained by Swap / Push / Pop.          *)
(* All sequences of at most MaxOps calls of the whole API (Insert with       *)
(* replace true/false, Update, Remove, Pop, Peek, Len) are explored and fed  *)
(* to the contract monitor.  Positions are 1-based here (0-based in Go).     *)
EXTENDS QueueHeapContract, TLC

CONSTANTS NKeys, NTimes, MaxOps,
          Defect      \* "none" | "nofix" (replace/Update does not call heap.Fix) | "rawremove" (Remove
                      \* swaps with the last slot and truncates without restoring the heap) | "keepold"
                      \* (Insert with replace=true keeps the old value)

VARIABLES h,      \* the heap slice: sequence of keys (the item of key k is val[k])
          val,    \* key -> [t, s]: the value held by the queueItem of that key
          idx,    \* key -> index field of its queueItem (0: not in the heap)
          items,  \* the keys of the items map
          nops, ser, c
vars == <<h, val, idx, items, nops, ser, c>>

KeysI == 1..NKeys
Less(hh, vv, i, j) == vv[hh[i]].t < vv[hh[j]].t          \* queueHeap.Less: ScheduledTime().Before(...)

(* a heap state during an operation: the slice and the index fields *)
Swap(s, i, j) == [hh |-> [s.hh EXCEPT ![i] = s.hh[j], ![j] = s.hh[i]],
                  ix |-> [s.ix EXCEPT ![s.hh[i]] = j, ![s.hh[j]] = i]]

RECURSIVE Up(_, _, _)
Up(s, vv, j) ==                                            \* heap.up
  LET i == j \div 2 IN
  IF j <= 1 \/ ~Less(s.hh, vv, j, i) THEN s ELSE Up(Swap(s, i, j), vv, i)

RECURSIVE Down(_, _, _, _)
Down(s, vv, i, n) ==                                       \* heap.down on positions 1..n; returns the state and the final position
  LET j1 == 2 * i IN
  IF j1 > n THEN [s |-> s, at |-> i]
  ELSE LET j == IF j1 + 1 <= n /\ Less(s.hh, vv, j1 + 1, j1) THEN j1 + 1 ELSE j1 IN
       IF ~Less(s.hh, vv, j, i) THEN [s |-> s, at |-> i]
       ELSE Down(Swap(s, i, j), vv, j, n)

Fix(s, vv, i) ==                                           \* heap.Fix: if !down(i, n) { up(i) }
  LET d == Down(s, vv, i, Len(s.hh)) IN IF d.at > i THEN d.s ELSE Up(d.s, vv, i)

DropLast(s) == LET n == Len(s.hh) IN [hh |-> SubSeq(s.hh, 1, n - 1), ix |-> [s.ix EXCEPT ![s.hh[n]] = 0]]

HPush(s, vv, k) ==                                         \* heap.Push: append (index = n), up(n)
  LET s1 == [hh |-> Append(s.hh, k), ix |-> [s.ix EXCEPT ![k] = Len(s.hh) + 1]] IN Up(s1, vv, Len(s1.hh))

HPop(s, vv) ==                                             \* heap.Pop: Swap(0, n-1); down(0, n-1); Pop()
  LET n == Len(s.hh)
      s1 == IF n > 1 THEN Swap(s, 1, n) ELSE s
      s2 == Down(s1, vv, 1, n - 1).s
  IN DropLast(s2)

HRemove(s, vv, i) ==                                       \* heap.Remove
  LET n == Len(s.hh) IN
  IF Defect = "rawremove" THEN DropLast(IF i # n THEN Swap(s, i, n) ELSE s)
  ELSE IF i = n THEN DropLast(s)
  ELSE LET s1 == Swap(s, i, n)
           d == Down(s1, vv, i, n - 1)
           s2 == IF d.at > i THEN d.s ELSE Up(d.s, vv, i)
       IN DropLast(s2)

S == [hh |-> h, ix |-> idx]
Set(s) == h' = s.hh /\ idx' = s.ix

Feed(es) == c' = IF IsBad(c) THEN c
                 ELSE LET RECURSIVE F(_, _)
                          F(cc, rest) == IF rest = <<>> \/ IsBad(cc) THEN cc ELSE F(CNext(cc, Head(rest)), Tail(rest))
                      IN F(c, es)

Init == /\ h = <<>> /\ val = [k \in KeysI |-> None] /\ idx = [k \in KeysI |-> 0] /\ items = {}
        /\ nops = 0 /\ ser = 0 /\ c = CReset([nkeys |-> NKeys, now |-> 0])

Count == nops' = nops + 1

Insert(k, t, replace) ==                                   \* queue.go Insert
  /\ Count /\ ser' = ser + 1
  /\ Feed(<<[ev |-> "insert", k |-> k, t |-> t, s |-> ser + 1, replace |-> replace]>>)
  /\ IF k \in items THEN
        IF replace /\ Defect # "keepold" THEN
             LET vv == [val EXCEPT ![k] = [t |-> t, s |-> ser + 1]] IN
             /\ val' = vv /\ Set(IF Defect = "nofix" THEN S ELSE Fix(S, vv, idx[k])) /\ UNCHANGED items
        ELSE UNCHANGED <<h, val, idx, items>>
     ELSE LET vv == [val EXCEPT ![k] = [t |-> t, s |-> ser + 1]] IN
          /\ val' = vv /\ Set(HPush(S, vv, k)) /\ items' = items \cup {k}

Update(k, t) ==                                            \* queue.go Update
  /\ Count /\ ser' = ser + 1
  /\ Feed(<<[ev |-> "update", k |-> k, t |-> t, s |-> ser + 1]>>)
  /\ IF k \in items THEN
        LET vv == [val EXCEPT ![k] = [t |-> t, s |-> ser + 1]] IN
        /\ val' = vv /\ Set(IF Defect = "nofix" THEN S ELSE Fix(S, vv, idx[k])) /\ UNCHANGED items
     ELSE UNCHANGED <<h, val, idx, items>>

Remove(k) ==                                               \* queue.go Remove
  /\ Count /\ UNCHANGED ser
  /\ Feed(<<[ev |-> "remove", k |-> k]>>)
  /\ IF k \in items THEN Set(HRemove(S, val, idx[k])) /\ items' = items \ {k} /\ UNCHANGED val
     ELSE UNCHANGED <<h, val, idx, items>>

(* Len, Peek and Pop are observed together: Len, then Peek, then Pop *)
Pop ==
  /\ Count /\ UNCHANGED ser
  /\ IF Len(h) = 0 THEN
        /\ Feed(<<[ev |-> "len", n |-> 0], [ev |-> "peeknone"], [ev |-> "popnone"]>>)
        /\ UNCHANGED <<h, val, idx, items>>
     ELSE LET k == h[1] IN
        /\ Feed(<<[ev |-> "len", n |-> Len(h)], [ev |-> "peek", k |-> k, s |-> val[k].s], [ev |-> "pop", k |-> k, s |-> val[k].s]>>)
        /\ Set(HPop(S, val)) /\ items' = items \ {k} /\ UNCHANGED val

Next ==
  /\ nops < MaxOps
  /\ \/ \E k \in KeysI, t \in 1..NTimes, r \in BOOLEAN : (r \/ k \in items) /\ Insert(k, t, r)   \* replace only matters for a queued key
     \/ \E k \in KeysI, t \in 1..NTimes : Update(k, t)
     \/ \E k \in KeysI : Remove(k)
     \/ Pop
Spec == Init /\ [][Next]_vars

NotBad == ~IsBad(c)
(* structure: the slice holds exactly the keys of the map, every index field is right, heap order holds *)
Shape == /\ {h[i] : i \in 1..Len(h)} = items /\ Cardinality(items) = Len(h)
         /\ \A i \in 1..Len(h) : idx[h[i]] = i
         /\ \A k \in KeysI \ items : idx[k] = 0
HeapOrder == \A i \in 2..Len(h) : ~Less(h, val, i, i \div 2)
=============================================================================
