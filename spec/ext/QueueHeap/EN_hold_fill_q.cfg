SPECIFICATION Spec
CONSTANTS NKeys = 5 NTimes = 4 MaxLen = 6 Mode = "hold" Shape = "fill"
INVARIANTS Export GroupsSane
CHECK_DEADLOCK FALSE
