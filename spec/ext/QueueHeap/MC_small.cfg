SPECIFICATION Spec
CONSTANTS NKeys = 4 NTimes = 3 MaxOps = 5 Defect = "none"
INVARIANTS NotBad Shape HeapOrder
CHECK_DEADLOCK FALSE
