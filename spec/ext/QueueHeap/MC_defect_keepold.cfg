SPECIFICATION Spec
CONSTANTS NKeys = 3 NTimes = 3 MaxOps = 4 Defect = "keepold"
INVARIANTS NotBad
CHECK_DEADLOCK FALSE
