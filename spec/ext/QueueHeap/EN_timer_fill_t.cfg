SPECIFICATION Spec
CONSTANTS NKeys = 5 NTimes = 4 MaxLen = 5 Mode = "timer" Shape = "fill"
INVARIANTS Export GroupsSane
CHECK_DEADLOCK FALSE
