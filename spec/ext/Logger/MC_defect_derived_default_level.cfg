SPECIFICATION Spec
CONSTANTS Family = "tiny" Defect = "derived_default_level" Sharing = "shared"
INVARIANTS NotBad
CHECK_DEADLOCK FALSE
