----------------------------- MODULE TraceLogger -----------------------------
(* X13 - validates recorded executions of the real logger package (call      *)
(* sequences, table cases, fact groups) against the contract monitor.        *)
(* Deterministic monitor, RejectLine idiom; one behaviour per "reset" line.  *)
EXTENDS LoggerContract, TraceLib

Trace == LoadTrace("trace.ndjson")
Starts == {j \in 1..Len(Trace) : Trace[j].ev = "reset"}
VARIABLES vL, vC
TInit == vL \in Starts /\ vC = CReset(Trace[vL])
TNext == /\ ~IsBad(vC)
         /\ vL + 1 <= Len(Trace)
         /\ Trace[vL + 1].ev # "reset"
         /\ vC' = CNext(vC, Trace[vL + 1])
         /\ vL' = vL + 1
TSpec == TInit /\ [][TNext]_<<vL, vC>>
(* a trace must end with its "end" event (reset.end = line of the last event of the trace) *)
Report == IF IsBad(vC) THEN RejectLine(vL, vC.why)
          ELSE IF vL = vC.p.end /\ Trace[vL].ev # "end" THEN RejectLine(vL, "harness: no end event")
          ELSE TRUE
=============================================================================
