SPECIFICATION Spec
CONSTANTS TDefect = "new_one_for_all"
INVARIANTS NotBad
CHECK_DEADLOCK FALSE
