SPECIFICATION Spec
CONSTANTS Family = "tiny" Defect = "as_found" Sharing = "shared"
INVARIANTS NotBad
CHECK_DEADLOCK FALSE
