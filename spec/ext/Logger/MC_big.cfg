SPECIFICATION Spec
CONSTANTS Family = "core6" Defect = "none" Sharing = "shared"
INVARIANTS NotBad Export
CHECK_DEADLOCK FALSE
