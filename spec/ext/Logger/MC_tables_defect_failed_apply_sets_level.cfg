SPECIFICATION Spec
CONSTANTS TDefect = "failed_apply_sets_level"
INVARIANTS NotBad
CHECK_DEADLOCK FALSE
