SPECIFICATION Spec
CONSTANTS TDefect = "none"
INVARIANTS NotBad
CHECK_DEADLOCK FALSE
