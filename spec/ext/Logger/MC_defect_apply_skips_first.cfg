SPECIFICATION Spec
CONSTANTS Family = "tiny" Defect = "apply_skips_first" Sharing = "shared"
INVARIANTS NotBad
CHECK_DEADLOCK FALSE
