SPECIFICATION Spec
CONSTANTS TDefect = "accepts_any_level"
INVARIANTS NotBad
CHECK_DEADLOCK FALSE
