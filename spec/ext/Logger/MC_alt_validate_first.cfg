SPECIFICATION Spec
CONSTANTS Family = "tiny" Defect = "alt_validate_first" Sharing = "shared"
INVARIANTS NotBad
CHECK_DEADLOCK FALSE
