SPECIFICATION Spec
CONSTANTS Family = "tiny" Defect = "apply_drops_appid" Sharing = "shared"
INVARIANTS NotBad
CHECK_DEADLOCK FALSE
