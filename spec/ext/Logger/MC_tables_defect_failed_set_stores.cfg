SPECIFICATION Spec
CONSTANTS TDefect = "failed_set_stores"
INVARIANTS NotBad
CHECK_DEADLOCK FALSE
