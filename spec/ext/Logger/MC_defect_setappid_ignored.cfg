SPECIFICATION Spec
CONSTANTS Family = "tiny" Defect = "setappid_ignored" Sharing = "shared"
INVARIANTS NotBad
CHECK_DEADLOCK FALSE
