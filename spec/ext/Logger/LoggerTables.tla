----------------------------- MODULE LoggerTables -----------------------------
(* X13 - the table families (LoggerContract!CaseSeq) and the fact groups:    *)
(* TLC visits every case, checks that the answer of an implementation that   *)
(* follows the documentation satisfies the monitor (TDefect = "none") and    *)
(* that deviating answers do not, and writes cases.ndjson for the replay on  *)
(* the real package.                                                         *)
EXTENDS LoggerContract, TLC, Json

CONSTANT TDefect
ASSUME TDefect \in {"none", "case_sensitive", "accepts_any_level", "failed_set_stores", "failed_apply_sets_level", "new_always_fresh",
                    "new_one_for_all", "fact_false"}
VARIABLES vId, vMon, vPc
vars == <<vId, vMon, vPc>>

Valid(t) == IF TDefect = "case_sensitive" THEN t \in Levels5
            ELSE IF TDefect = "accepts_any_level" THEN TRUE
            ELSE LevelOf(t) # "undefined"
Answer(cs) ==
  CASE cs.fam = "optlevel" ->
        [ev |-> "call", panic |-> "", err |-> ~Valid(cs.x),
         after |-> IF Valid(cs.x) \/ TDefect = "failed_set_stores" THEN cs.x ELSE "warn"]
    [] cs.fam = "applylevel" ->
        [ev |-> "call", panic |-> "", err |-> ~Valid(cs.x),
         vec |-> IF LevelOf(cs.x) # "undefined" /\ Valid(cs.x) THEN EnabledVec(LevelOf(cs.x))
                 ELSE IF TDefect \in {"failed_apply_sets_level", "accepts_any_level"} THEN EnabledVec("off")
                 ELSE EnabledVec("warn")]
    [] cs.fam = "newident" ->
        [ev |-> "call", panic |-> "", nonnil |-> TRUE,
         same |-> IF TDefect = "new_always_fresh" THEN FALSE ELSE IF TDefect = "new_one_for_all" THEN TRUE ELSE cs.x = cs.y]

FactSeq == LET RECURSIVE ToSeq(_)
               ToSeq(S) == IF S = {} THEN <<>> ELSE LET x == CHOOSE y \in S : TRUE IN <<x>> \o ToSeq(S \ {x})
           IN ToSeq(FactNames)

(* vId in 1..NumCases: a table case; vId = 0: one trace with every fact *)
Init == /\ vId \in 0..NumCases
        /\ vPc = 0
        /\ vMon = IF vId = 0 THEN CReset([ev |-> "reset", kind |-> "facts", group |-> "all", n |-> Len(FactSeq)])
                  ELSE CReset([ev |-> "reset", kind |-> "case", id |-> vId, fam |-> CaseSeq[vId].fam, fed |-> Fed(CaseSeq[vId])])
Call == /\ vId > 0 /\ vPc = 0 /\ ~IsBad(vMon)
        /\ vMon' = CNext(CNext(vMon, Answer(CaseSeq[vId])), [ev |-> "end", nops |-> 1])
        /\ vPc' = 1 /\ UNCHANGED vId
Fact == /\ vId = 0 /\ vPc < Len(FactSeq) /\ ~IsBad(vMon)
        /\ vMon' = CNext(vMon, [ev |-> "fact", name |-> FactSeq[vPc + 1], panic |-> "",
                                got |-> ~(TDefect = "fact_false" /\ vPc + 1 = Len(FactSeq))])
        /\ vPc' = vPc + 1 /\ UNCHANGED vId
FactEnd == /\ vId = 0 /\ vPc = Len(FactSeq) /\ ~IsBad(vMon)
           /\ vMon' = CNext(vMon, [ev |-> "end", nops |-> vPc])
           /\ vPc' = vPc + 1 /\ UNCHANGED vId
Spec == Init /\ [][Call \/ Fact \/ FactEnd]_vars
NotBad == ~IsBad(vMon)

ASSUME PrintT(<<"LOGGER-CASES", NumCases, "facts", Cardinality(FactNames)>>)
ASSUME ndJsonSerialize("cases.ndjson", [j \in 1..NumCases |-> [id |-> j, fam |-> CaseSeq[j].fam, x |-> CaseSeq[j].x, y |-> CaseSeq[j].y]])
=============================================================================
