SPECIFICATION Spec
CONSTANTS Family = "all4" Defect = "none" Sharing = "shared"
INVARIANTS NotBad Export
CHECK_DEADLOCK FALSE
