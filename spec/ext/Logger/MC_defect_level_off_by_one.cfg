SPECIFICATION Spec
CONSTANTS Family = "tiny" Defect = "level_off_by_one" Sharing = "shared"
INVARIANTS NotBad
CHECK_DEADLOCK FALSE
