SPECIFICATION Spec
CONSTANTS TDefect = "new_always_fresh"
INVARIANTS NotBad
CHECK_DEADLOCK FALSE
