SPECIFICATION Spec
CONSTANTS Family = "tiny" Defect = "enabled_off_by_one" Sharing = "shared"
INVARIANTS NotBad
CHECK_DEADLOCK FALSE
