SPECIFICATION Spec
CONSTANTS Family = "tiny" Defect = "none" Sharing = "snapshot"
INVARIANTS NotBad
CHECK_DEADLOCK FALSE
