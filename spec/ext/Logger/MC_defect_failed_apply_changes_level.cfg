SPECIFICATION Spec
CONSTANTS Family = "tiny" Defect = "failed_apply_changes_level" Sharing = "shared"
INVARIANTS NotBad
CHECK_DEADLOCK FALSE
