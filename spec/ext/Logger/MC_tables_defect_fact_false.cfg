SPECIFICATION Spec
CONSTANTS TDefect = "fact_false"
INVARIANTS NotBad
CHECK_DEADLOCK FALSE
