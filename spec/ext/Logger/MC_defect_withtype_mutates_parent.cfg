SPECIFICATION Spec
CONSTANTS Family = "tiny" Defect = "withtype_mutates_parent" Sharing = "shared"
INVARIANTS NotBad
CHECK_DEADLOCK FALSE
