SPECIFICATION Spec
CONSTANTS TDefect = "case_sensitive"
INVARIANTS NotBad
CHECK_DEADLOCK FALSE
