SPECIFICATION Spec
CONSTANTS Family = "tiny" Defect = "apply_no_error" Sharing = "shared"
INVARIANTS NotBad
CHECK_DEADLOCK FALSE
