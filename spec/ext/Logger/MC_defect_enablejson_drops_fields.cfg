SPECIFICATION Spec
CONSTANTS Family = "tiny" Defect = "enablejson_drops_fields" Sharing = "shared"
INVARIANTS NotBad
CHECK_DEADLOCK FALSE
