----------------------------- MODULE LoggerModel -----------------------------
(* X13 - implementation-shaped model of the logger package: a registry of    *)
(* root loggers, each with its own logrus.Logger (level, format) and an      *)
(* entry (app_id, type, fields); a derived logger has its own entry and      *)
(* shares (Sharing = "shared", the code) or copies (Sharing = "snapshot")    *)
(* the logrus.Logger of the logger it was derived from.                      *)
(*                                                                            *)
(* The state holds the calls made so far, so TLC enumerates EVERY call       *)
(* sequence of the family (LoggerContract!Fam): one state per sequence.      *)
(* Every call produces the event the harness records on the real package     *)
(* and feeds it to the contract monitor (invariant NotBad).  The invariant   *)
(* Export prints the maximal sequences (every enumerated sequence is a       *)
(* prefix of one of them); they are replayed on the real code.               *)
(*                                                                            *)
(* Defect = "none": the conforming implementation.  Variants that must be    *)
(* rejected:                                                                  *)
(*   as_found                  EnableJSONOutput rebuilds the entry data with *)
(*                             scope / type=log / instance / ver only (the   *)
(*                             code as found): app_id, fields and type of    *)
(*                             the handle are lost; ApplyOptionsToLoggers    *)
(*                             calls it on every registered logger           *)
(*   enablejson_drops_appid, enablejson_drops_fields, enablejson_resets_type,*)
(*   apply_drops_appid         the four faces of as_found one at a time      *)
(*   new_fresh_every_time      NewLogger never consults the registry         *)
(*   apply_skips_first         Apply skips the first-registered logger       *)
(*   level_off_by_one          a message is written iff its level is ABOVE   *)
(*                             the output level                              *)
(*   enabled_off_by_one        the same for IsOutputLevelEnabled             *)
(*   failed_apply_changes_level  the undefined level is applied before the   *)
(*                             error is returned                             *)
(*   apply_no_error            an undefined level is silently ignored        *)
(*   withfields_mutates_parent, withtype_mutates_parent                      *)
(*   setappid_ignored, derived_default_level (a derived logger starts at     *)
(*   info instead of the level of its parent at derivation)                  *)
(* Variants that must be ACCEPTED (the contract is silent): Sharing =        *)
(* "snapshot"; Defect = "alt_validate_first" (a failed Apply changes nothing)*)
EXTENDS LoggerContract, TLC

CONSTANTS Family, Defect, Sharing
ASSUME Sharing \in {"shared", "snapshot"}
ASSUME Defect \in {"none", "as_found", "enablejson_drops_appid", "enablejson_drops_fields", "enablejson_resets_type", "apply_drops_appid",
                   "new_fresh_every_time", "apply_skips_first", "level_off_by_one", "enabled_off_by_one", "failed_apply_changes_level",
                   "apply_no_error", "withfields_mutates_parent", "withtype_mutates_parent", "setappid_ignored", "derived_default_level",
                   "alt_validate_first"}

VARIABLES vOps, vMon, vReg, vLog, vEnt
vars == <<vOps, vMon, vReg, vLog, vEnt>>
\* vReg: registered names in registration order; vLog: logrus.Logger key -> [lvl, fmt]; vEnt: handle -> [root, lg, app, typ, fs]

PP == Fam(Family)
ResetEv == [ev |-> "reset", kind |-> "seq", id |-> 0, fam |-> Family, fed |-> <<>>, n |-> 0, pfx |-> "", host |-> "host", ver |-> "ver"]

DropsApp(via) == Defect = "as_found" \/ (via = "enablejson" /\ Defect = "enablejson_drops_appid") \/ (via = "apply" /\ Defect = "apply_drops_appid")
Rebuilt(en, via) ==
  [en EXCEPT !.app = IF DropsApp(via) THEN "none" ELSE @,
             !.fs = IF Defect \in {"as_found", "enablejson_drops_fields"} THEN {} ELSE @,
             !.typ = IF Defect \in {"as_found", "enablejson_resets_type"} THEN "log" ELSE @]

FsSeq(S) == SelectSeq(FieldPairs, LAMBDA pr : pr \in S)
Ev(op, rest) == [ev |-> "op", op |-> op, panic |-> ""] @@ rest

(* the effect of one call on the implementation: [obs, reg, log, ent] *)
Step(op) ==
  CASE op[1] = "New" ->
        LET nm == op[2] IN
        IF nm \in DOMAIN vEnt /\ Defect # "new_fresh_every_time"
        THEN [obs |-> [ident |-> nm], reg |-> vReg, log |-> vLog, ent |-> vEnt]
        ELSE [obs |-> [ident |-> ""], reg |-> IF nm \in DOMAIN vEnt THEN vReg ELSE Append(vReg, nm),
              log |-> Put(vLog, nm, [lvl |-> "info", fmt |-> "text"]),
              ent |-> Put(vEnt, nm, [root |-> nm, lg |-> nm, app |-> "none", typ |-> "log", fs |-> {}])]
    [] op[1] = "Apply" ->
        LET lv == LevelOf(op[2])
            tset == {vReg[j] : j \in (IF Defect = "apply_skips_first" THEN 2..Len(vReg) ELSE 1..Len(vReg))}
            skip == lv = "undefined" /\ Defect = "alt_validate_first"
            ent1 == [h \in DOMAIN vEnt |->
                       IF h \in tset /\ ~skip THEN [Rebuilt(vEnt[h], "apply") EXCEPT !.app = IF op[4] # "" THEN op[4] ELSE @] ELSE vEnt[h]]
            newlv == IF lv # "undefined" THEN lv ELSE IF Defect = "failed_apply_changes_level" THEN "off" ELSE "keep"
            log1 == [g \in DOMAIN vLog |->
                       IF g \in tset /\ ~skip
                       THEN [vLog[g] EXCEPT !.fmt = op[3], !.lvl = IF newlv = "keep" THEN @ ELSE newlv]
                       ELSE vLog[g]]
        IN [obs |-> [err |-> lv = "undefined" /\ Defect # "apply_no_error", seterr |-> IF lv = "undefined" THEN "skipped" ELSE "nil"],
            reg |-> vReg, log |-> log1, ent |-> ent1]
    [] op[1] = "SetLevel" ->
        [obs |-> EmptyFn, reg |-> vReg, ent |-> vEnt,
         log |-> [vLog EXCEPT ![vEnt[op[2]].lg].lvl = IF op[3] \in Levels5 THEN op[3] ELSE "off"]]
    [] op[1] = "Enabled" ->
        LET lg == vLog[vEnt[op[2]].lg] IN
        [obs |-> [on |-> IF op[3] \notin Levels5 THEN TRUE
                         ELSE IF Defect = "enabled_off_by_one" THEN LvRank(op[3]) > LvRank(lg.lvl)
                         ELSE LvRank(op[3]) >= LvRank(lg.lvl)],
         reg |-> vReg, log |-> vLog, ent |-> vEnt]
    [] op[1] = "Log" ->
        LET en == vEnt[op[2]]
            lg == vLog[en.lg]
            wr == IF Defect = "level_off_by_one" THEN LvRank(op[3]) > LvRank(lg.lvl) ELSE LvRank(op[3]) >= LvRank(lg.lvl)
        IN [obs |-> [tok |-> "tok", nlines |-> IF wr THEN 1 ELSE 0, where |-> IF wr THEN <<en.root>> ELSE <<>>,
                     line |-> IF wr
                              THEN [fmt |-> lg.fmt, level |-> op[3], type |-> en.typ, scope |-> en.root,
                                    app |-> IF en.app = "none" THEN "<absent>" ELSE en.app, msg |-> "tok", time |-> "rfc3339",
                                    instance |-> "host", ver |-> "ver", fields |-> FsSeq(en.fs)]
                              ELSE [fmt |-> "none"]],
            reg |-> vReg, log |-> vLog, ent |-> vEnt]
    [] op[1] = "EnableJSON" ->
        [obs |-> EmptyFn, reg |-> vReg,
         log |-> [vLog EXCEPT ![vEnt[op[2]].lg].fmt = op[3]],
         ent |-> [vEnt EXCEPT ![op[2]] = Rebuilt(@, "enablejson")]]
    [] op[1] = "SetAppID" ->
        [obs |-> EmptyFn, reg |-> vReg, log |-> vLog,
         ent |-> IF Defect = "setappid_ignored" THEN vEnt ELSE [vEnt EXCEPT ![op[2]].app = op[3]]]
    [] op[1] \in {"WithFields", "WithType"} ->
        LET par == vEnt[op[2]]
            d == DerivedId(vMon.nd + 1)
            child == IF op[1] = "WithFields" THEN [par EXCEPT !.fs = @ \cup FieldsOf(op[3])] ELSE [par EXCEPT !.typ = op[3]]
            lgkey == IF Sharing = "shared" /\ Defect # "derived_default_level" THEN par.lg ELSE d
            mut == (op[1] = "WithFields" /\ Defect = "withfields_mutates_parent") \/ (op[1] = "WithType" /\ Defect = "withtype_mutates_parent")
            entP == IF mut THEN [vEnt EXCEPT ![op[2]] = [child EXCEPT !.lg = par.lg]] ELSE vEnt
        IN [obs |-> [nonnil |-> TRUE], reg |-> vReg,
            log |-> IF lgkey = d
                    THEN Put(vLog, d, IF Defect = "derived_default_level" THEN [lvl |-> "info", fmt |-> vLog[par.lg].fmt] ELSE vLog[par.lg])
                    ELSE vLog,
            ent |-> Put(entP, d, [child EXCEPT !.lg = lgkey])]

Init ==
  /\ vOps = <<>> /\ vReg = <<>> /\ vLog = EmptyFn /\ vEnt = EmptyFn
  /\ vMon = CReset(ResetEv)

(* the monitor is told the sequence call by call: fed = the calls made so far plus this one *)
Do(op) ==
  LET r == Step(op)
      fed == Append(vOps, op)
      mon0 == [vMon EXCEPT !.p.fed = fed, !.p.n = Len(fed)]
  IN /\ vOps' = fed
     /\ vReg' = r.reg /\ vLog' = r.log /\ vEnt' = r.ent
     /\ vMon' = CNext(mon0, Ev(op, r.obs))

Next == /\ ~IsBad(vMon)
        /\ \E op \in AllOps(vMon, PP) : Do(op)
Spec == Init /\ [][Next]_vars

NotBad == ~IsBad(vMon)

(* ---- export of the maximal sequences ---- *)
Join(ss, sep) ==
  LET F[j \in 0..Len(ss)] == IF j = 0 THEN "" ELSE F[j - 1] \o (IF j > 1 THEN sep ELSE "") \o ss[j] IN F[Len(ss)]
Render(ops) == Join([j \in 1..Len(ops) |-> Join(ops[j], ":")], ",")
IsLeaf == vMon.k = PP.maxlen \/ (vMon.k = PP.maxlen - 1 /\ AllOps(vMon, PP) = {})
Export == (~IsBad(vMon) /\ IsLeaf) => PrintT("SEQ|" \o Family \o "|" \o Render(vOps))
=============================================================================
