SPECIFICATION Spec
CONSTANTS Family = "tiny" Defect = "withfields_mutates_parent" Sharing = "shared"
INVARIANTS NotBad
CHECK_DEADLOCK FALSE
