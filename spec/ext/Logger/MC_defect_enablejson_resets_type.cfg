SPECIFICATION Spec
CONSTANTS Family = "tiny" Defect = "enablejson_resets_type" Sharing = "shared"
INVARIANTS NotBad
CHECK_DEADLOCK FALSE
