SPECIFICATION Spec
CONSTANTS Family = "all5" Defect = "none" Sharing = "shared"
INVARIANTS NotBad Export
CHECK_DEADLOCK FALSE
