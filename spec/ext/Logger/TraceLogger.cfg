SPECIFICATION TSpec
CONSTRAINT Report
CHECK_DEADLOCK FALSE
