SPECIFICATION Spec
CONSTANTS Family = "tiny" Defect = "new_fresh_every_time" Sharing = "shared"
INVARIANTS NotBad
CHECK_DEADLOCK FALSE
