--------------------------- MODULE LoggerContract ---------------------------
(* X13 - github.com/dapr/kit/logger: the documented contract (doc comments   *)
(* of logger.go / dapr_logger.go / options.go and the package's own tests)   *)
(* as a deterministic monitor over CALL SEQUENCES on the logger registry,    *)
(* the loggers it hands out and the loggers derived from them.               *)
(*                                                                            *)
(* Handles: "a", "b" = the loggers NewLogger returned for the two names of   *)
(* the sequence (roots); "d1", "d2" = loggers derived with WithFields /      *)
(* WithLogType, numbered in the order of derivation.  A family = a root and  *)
(* everything derived from it.                                               *)
(*                                                                            *)
(* A call is a tuple of strings:                                             *)
(*   <<"New", n>>                 NewLogger(name n); the harness sets the    *)
(*                                output of the returned logger to n's buffer*)
(*   <<"Apply", L, fmt, app>>     o := DefaultOptions(); o.SetOutputLevel(L) *)
(*                                (valid L) or o.OutputLevel = L (undefined  *)
(*                                L); o.JSONFormatEnabled = (fmt = "json");  *)
(*                                o.SetAppID(app) unless app = "";           *)
(*                                ApplyOptionsToLoggers(&o)                  *)
(*   <<"SetLevel", h, L>>         h.SetOutputLevel(L)                        *)
(*   <<"Enabled", h, m>>          h.IsOutputLevelEnabled(m)                  *)
(*   <<"Log", h, m>>              h.Debug/Info/Warn/Error[f](unique token);  *)
(*                                then the buffers of all roots are read     *)
(*   <<"EnableJSON", h, fmt>>     h.EnableJSONOutput(fmt = "json")           *)
(*   <<"SetAppID", h, id>>        h.SetAppID(id)                             *)
(*   <<"WithFields", h, fv>>      h.WithFields(fields of variant fv); the    *)
(*                                harness sets the root's buffer as output   *)
(*   <<"WithType", h, t>>         h.WithLogType(t); ditto                    *)
(*                                                                            *)
(* Events:                                                                    *)
(*   reset kind "seq":  id, fam (the family of call sequences it belongs to),*)
(*                      fed (the calls, as fed to the package), n, pfx (the  *)
(*                      prefix of the real logger names), host, ver          *)
(*         kind "case": id, fam, fed  (one call of a table family)           *)
(*         kind "facts": group, n                                            *)
(*   op    op (the call), panic ("" or the recovered value) and, per call:   *)
(*         New: ident ("" = an object not seen before in this sequence, else *)
(*              the name whose logger is the identical object)               *)
(*         Apply: err (BOOLEAN), seterr ("nil" | "err" | "skipped")          *)
(*         Enabled: on                                                       *)
(*         Log: tok (the message passed), nlines (lines found in all         *)
(*              buffers), where (roots whose buffer was not empty), line     *)
(*              (the first line: fmt "json" | "text" | "garbled" | "none",   *)
(*              level, type, scope, app, msg, instance, ver: the value of    *)
(*              the key or "<absent>"; time: "rfc3339" | "<absent>" |        *)
(*              "unparseable"; fields: <<key, value>> of every other key)    *)
(*         WithFields / WithType: nonnil                                     *)
(*   crash op, cls ("crash" | "hang"): the process died / stalled in the call *)
(*   call  the observation of a table case; fact: name, got; end: nops       *)
(*                                                                            *)
(* The monitor keeps, per handle, the SET of values each attribute may have: *)
(* a singleton where the documentation determines it, more where it is       *)
(* silent:                                                                    *)
(*  - whether a later SetOutputLevel / EnableJSONOutput / SetAppID /         *)
(*    ApplyOptionsToLoggers through one handle reaches the OTHER handles of  *)
(*    its family (old values or the new one);                                *)
(*  - format and app_id of every handle after an ApplyOptionsToLoggers that  *)
(*    returned an error (anything), the LEVEL is unchanged;                  *)
(*  - the level after SetOutputLevel("undefined") (anything, including       *)
(*    "nothing is enabled") and the answer of IsOutputLevelEnabled(          *)
(*    "undefined").                                                          *)
(* The handle a call is applied to is always checked strictly.               *)
EXTENDS Integers, Sequences, FiniteSets

Bad(why) == [bad |-> TRUE, why |-> why]
IsBad(mon) == mon.bad

(* ---------------------------------------------------------------- levels *)
Levels5 == {"debug", "info", "warn", "error", "fatal"}
AnyLevel == Levels5 \cup {"off"}          \* "off": not even fatal is enabled
LvRank(lv) == CASE lv = "debug" -> 1 [] lv = "info" -> 2 [] lv = "warn" -> 3 [] lv = "error" -> 4 [] lv = "fatal" -> 5 [] OTHER -> 6
AnyFmt == {"text", "json"}
AnyApp == {"none", "app1", "app2"}

(* toLogLevel lower-cases ("Options are debug, info, warn, error, or fatal"); every other text is undefined *)
LevelOf(t) ==
  IF t \in {"debug", "DEBUG", "Debug", "dEbUg"} THEN "debug"
  ELSE IF t \in {"info", "INFO", "Info", "iNfO"} THEN "info"
  ELSE IF t \in {"warn", "WARN", "Warn", "WaRn"} THEN "warn"
  ELSE IF t \in {"error", "ERROR", "Error", "eRRoR"} THEN "error"
  ELSE IF t \in {"fatal", "FATAL", "Fatal", "fAtAl"} THEN "fatal"
  ELSE "undefined"

(* the text of the level key of a line: the documentation does not spell it; the name of the level, or logrus' *)
(* "warning" for warn                                                                                         *)
LevelKeyTexts(m) == IF m = "warn" THEN {"warn", "warning"} ELSE {m}

(* ---------------------------------------------------------------- handles *)
HIdx(h) == CASE h = "a" -> 1 [] h = "b" -> 2 [] h = "d1" -> 3 [] h = "d2" -> 4 [] OTHER -> 9
IsRoot(h) == h \in {"a", "b"}
DerivedId(k) == IF k = 1 THEN "d1" ELSE "d2"
Put(f, key, val) == [h \in DOMAIN f \cup {key} |-> IF h = key THEN val ELSE f[h]]
EmptyFn == [h \in {} |-> 0]

FieldPairs == <<<<"k1", "v1">>, <<"k2", "v2">>, <<"n", "42">>>>
FieldsOf(fv) == IF fv = "F1" THEN {<<"k1", "v1">>} ELSE IF fv = "F2" THEN {<<"k2", "v2">>, <<"n", "42">>} ELSE {}

(* ---------------------------------------------------------------- the families of call sequences *)
Ap(L, ff, app) == <<"Apply", L, ff, app>>
AppliesFull == {Ap(L, ff, app) : L \in {"debug", "info", "warn", "error", "WARN", "Info", "verbose", ""}, ff \in AnyFmt, app \in {"", "app1", "app2"}}
AppliesMid == {Ap("debug", "json", "app1"), Ap("WARN", "text", ""), Ap("error", "json", ""), Ap("Info", "text", "app2"),
               Ap("verbose", "json", "app2"), Ap("", "text", ""), Ap("verbose", "text", "")}
AppliesCore == {Ap("debug", "json", ""), Ap("warn", "text", "app2"), Ap("verbose", "json", "")}

(* names: roots NewLogger may be called for; symnew: "b" only once "a" is registered (the two names are       *)
(* interchangeable); setlv / enlv / loglv: levels of SetLevel / Enabled / Log; maxder: derived handles;        *)
(* obslast: the call at position maxlen is an observation; ordered: consecutive observations in rising order   *)
(* (they commute)                                                                                              *)
Fam(fname) ==
  CASE fname = "all4" ->   \* quick: the whole alphabet, every sequence of length <= 4
        [names |-> {"a", "b"}, symnew |-> TRUE, applies |-> AppliesMid, setlv |-> {"debug", "warn", "error", "fatal"},
         enlv |-> {"debug", "info", "fatal"}, loglv |-> {"debug", "info", "warn", "error"}, fmts |-> AnyFmt, appids |-> {"app1", "app2"},
         fvs |-> {"F1"}, types |-> {"request"}, maxder |-> 2, maxlen |-> 4, obslast |-> TRUE, ordered |-> TRUE]
    [] fname = "core5" ->  \* quick: one root, one derived handle, length <= 5
        [names |-> {"a"}, symnew |-> TRUE, applies |-> AppliesCore, setlv |-> {"debug", "error"},
         enlv |-> {"warn"}, loglv |-> {"info", "error"}, fmts |-> AnyFmt, appids |-> {"app1"},
         fvs |-> {"F1"}, types |-> {"request"}, maxder |-> 1, maxlen |-> 5, obslast |-> TRUE, ordered |-> TRUE]
    [] fname = "all5" ->   \* thorough: the whole alphabet, length <= 5
        [names |-> {"a", "b"}, symnew |-> TRUE, applies |-> AppliesMid, setlv |-> {"debug", "warn", "error", "fatal"},
         enlv |-> {"debug", "warn", "fatal"}, loglv |-> {"debug", "info", "warn", "error"}, fmts |-> AnyFmt, appids |-> {"app1", "app2"},
         fvs |-> {"F1", "F2"}, types |-> {"request"}, maxder |-> 2, maxlen |-> 5, obslast |-> TRUE, ordered |-> TRUE]
    [] fname = "core6" ->  \* thorough: reduced alphabet, length <= 6
        [names |-> {"a"}, symnew |-> TRUE, applies |-> AppliesCore, setlv |-> {"debug", "error"},
         enlv |-> {}, loglv |-> {"info", "error"}, fmts |-> AnyFmt, appids |-> {"app1"},
         fvs |-> {"F1"}, types |-> {"request"}, maxder |-> 2, maxlen |-> 6, obslast |-> TRUE, ordered |-> TRUE]
    [] fname = "tiny" ->   \* the defect variants of the model
        [names |-> {"a", "b"}, symnew |-> TRUE, applies |-> {Ap("debug", "json", "app1"), Ap("Info", "text", ""), Ap("verbose", "json", "")},
         setlv |-> {"warn"}, enlv |-> {"info"}, loglv |-> {"info", "warn"}, fmts |-> AnyFmt, appids |-> {"app1"},
         fvs |-> {"F1"}, types |-> {"request"}, maxder |-> 1, maxlen |-> 4, obslast |-> TRUE, ordered |-> TRUE]
    [] OTHER ->        \* "sampled": sequences drawn by the harness; only well-formedness is required of them
        [names |-> {"a", "b"}, symnew |-> FALSE, applies |-> AppliesFull \cup {Ap(L, ff, app) : L \in {"fatal", "FATAL", "trace", " info"}, ff \in AnyFmt, app \in {"", "app1"}},
         setlv |-> Levels5 \cup {"undefined"}, enlv |-> Levels5 \cup {"undefined"}, loglv |-> {"debug", "info", "warn", "error"},
         fmts |-> AnyFmt, appids |-> {"app1", "app2"}, fvs |-> {"F1", "F2"}, types |-> {"request", "log"}, maxder |-> 2, maxlen |-> 16,
         obslast |-> FALSE, ordered |-> FALSE]

Live(mon) == DOMAIN mon.hs
IsObs(op) == op[1] \in {"Enabled", "Log"}
ObsRank(op) == HIdx(op[2]) * 100 + (IF op[1] = "Log" THEN 50 ELSE 0) + LvRank(op[3])

ShapeOK(mon, op, P) ==
  /\ Len(op) >= 2
  /\ CASE op[1] = "New" -> Len(op) = 2 /\ op[2] \in P.names /\ (P.symnew /\ op[2] = "b" => "a" \in mon.reg)
       [] op[1] = "Apply" -> op \in P.applies
       [] op[1] = "SetLevel" -> Len(op) = 3 /\ op[2] \in Live(mon) /\ op[3] \in P.setlv
       [] op[1] = "Enabled" -> Len(op) = 3 /\ op[2] \in Live(mon) /\ op[3] \in P.enlv
       [] op[1] = "Log" -> Len(op) = 3 /\ op[2] \in Live(mon) /\ op[3] \in P.loglv
       [] op[1] = "EnableJSON" -> Len(op) = 3 /\ op[2] \in Live(mon) /\ op[3] \in P.fmts
       [] op[1] = "SetAppID" -> Len(op) = 3 /\ op[2] \in Live(mon) /\ op[3] \in P.appids
       [] op[1] = "WithFields" -> Len(op) = 3 /\ op[2] \in Live(mon) /\ op[3] \in P.fvs /\ mon.nd < P.maxder
       [] op[1] = "WithType" -> Len(op) = 3 /\ op[2] \in Live(mon) /\ op[3] \in P.types /\ mon.nd < P.maxder
       [] OTHER -> FALSE

OpAllowed(mon, op, P) ==
  /\ mon.k < P.maxlen
  /\ ShapeOK(mon, op, P)
  /\ (P.obslast /\ mon.k = P.maxlen - 1) => IsObs(op)
  /\ (P.ordered /\ IsObs(op) /\ mon.lastobs > 0) => ObsRank(op) > mon.lastobs
  /\ (P.obslast /\ Live(mon) = {} /\ mon.k >= P.maxlen - 2) => op[1] = "New"

Universe(mon, P) ==
  {<<"New", nm>> : nm \in P.names} \cup P.applies
  \cup {<<"SetLevel", h, lv>> : h \in Live(mon), lv \in P.setlv}
  \cup {<<"Enabled", h, lv>> : h \in Live(mon), lv \in P.enlv}
  \cup {<<"Log", h, lv>> : h \in Live(mon), lv \in P.loglv}
  \cup {<<"EnableJSON", h, fm>> : h \in Live(mon), fm \in P.fmts}
  \cup {<<"SetAppID", h, ai>> : h \in Live(mon), ai \in P.appids}
  \cup {<<"WithFields", h, fv>> : h \in Live(mon), fv \in P.fvs}
  \cup {<<"WithType", h, ty>> : h \in Live(mon), ty \in P.types}
AllOps(mon, P) == {op \in Universe(mon, P) : OpAllowed(mon, op, P)}

(* ---------------------------------------------------------------- the monitor: call sequences *)
SeqReset(e) ==
  [bad |-> FALSE, why |-> "", p |-> e,
   hs |-> EmptyFn,     \* handle -> [root, lvl, fmt, app (sets of possible values), typ, fs, appby, sApp, sDer]
   reg |-> {},         \* the names registered by this sequence
   nd |-> 0, k |-> 0, lastobs |-> 0]

NewHandle(nm) == [root |-> nm, lvl |-> {"info"}, fmt |-> {"text"}, app |-> {"none"}, typ |-> "log", fs |-> {},
                  appby |-> "NewLogger", sApp |-> {}, sDer |-> {}, lvlby |-> "NewLogger", lvlfail |-> FALSE]

(* the call named in a finding: of the calls made through the handle since the attribute was determined, the one *)
(* most likely to have rewritten the entry                                                                       *)
Label(S, dflt) ==
  IF "EnableJSONOutput" \in S THEN "EnableJSONOutput"
  ELSE IF "ApplyOptions-without-appid" \in S THEN "ApplyOptions-without-appid"
  ELSE IF "ApplyOptions" \in S THEN "ApplyOptions"
  ELSE IF "SetAppID" \in S THEN "SetAppID"
  ELSE IF "SetOutputLevel" \in S THEN "SetOutputLevel"
  ELSE dflt
One(S, dflt) == IF Cardinality(S) = 1 THEN CHOOSE x \in S : TRUE ELSE dflt
(* level findings name the call that last determined the level of the handle (or the failed Apply after it) *)
LevelLabel(x) == IF x.lvlfail THEN "failed-ApplyOptions" ELSE x.lvlby

Advance(mon, op, hs2) == [mon EXCEPT !.hs = hs2, !.k = @ + 1, !.lastobs = IF IsObs(op) THEN ObsRank(op) ELSE 0]
Touch(x, kind) == [x EXCEPT !.sApp = @ \cup {kind}, !.sDer = @ \cup {kind}]

LogProblem(mon, h, m, e) ==
  LET x == mon.hs[h]
      may == {LvRank(m) >= LvRank(lv) : lv \in x.lvl}
      ln == e.line
      appSeen == IF ln.app = "<absent>" THEN "none" ELSE ln.app
      got == {ln.fields[j] : j \in 1..Len(ln.fields)}
  IN IF e.nlines = 0
     THEN (IF FALSE \in may THEN "" ELSE "level:enabled-message-suppressed-after-" \o LevelLabel(x))
     ELSE IF TRUE \notin may THEN "level:disabled-message-written-after-" \o LevelLabel(x)
     ELSE IF e.nlines # 1 THEN "output:one-call-wrote-more-than-one-line"
     ELSE IF e.where # <<x.root>> THEN "output:line-went-to-the-output-of-another-logger"
     ELSE IF ln.fmt \notin x.fmt THEN "format:" \o ln.fmt \o "-line-from-a-logger-set-to-" \o One(x.fmt, "either")
     ELSE IF ln.level \notin LevelKeyTexts(m) THEN "line:level-field"
     ELSE IF ln.type # x.typ THEN (IF ln.type = "log" THEN "type-reset-after-" \o Label(x.sDer, "WithLogType") ELSE "line:type-field")
     ELSE IF ln.scope # mon.p.pfx \o x.root THEN "line:scope-field"
     ELSE IF ln.msg # e.tok THEN "line:msg-field"
     ELSE IF ln.time # "rfc3339" THEN "line:time-field-" \o ln.time
     ELSE IF ln.instance # mon.p.host THEN "line:instance-field"
     ELSE IF ln.ver # mon.p.ver THEN "line:ver-field"
     ELSE IF appSeen \notin x.app
          THEN (IF appSeen = "none" THEN "appid-lost-after-" \o Label(x.sApp, x.appby)
                ELSE IF x.app = {"none"} THEN "appid-present-although-none-was-set"
                ELSE "appid-wrong-value-after-" \o Label(x.sApp, x.appby))
     ELSE IF x.fs \ got # {} THEN "fields-lost-after-" \o Label(x.sDer, "WithFields")
     ELSE IF got \ x.fs # {} THEN (IF x.fs = {} THEN "fields:unexpected-field-on-a-logger-without-fields" ELSE "fields:unexpected-field")
     ELSE ""

COp(mon, e) ==
  LET op == e.op
      P == Fam(mon.p.fam)
      hs == mon.hs
  IN
  IF mon.k + 1 > Len(mon.p.fed) \/ mon.p.fed[mon.k + 1] # op THEN Bad("harness: the recorded call is not the next call of the sequence fed")
  ELSE IF ~OpAllowed(mon, op, P) THEN Bad("harness: the call does not belong to the family of sequences")
  ELSE IF e.panic # "" THEN Bad("panic:" \o op[1])
  ELSE
  CASE op[1] = "New" ->
        LET nm == op[2] IN
        IF nm \in mon.reg
        THEN (IF e.ident = nm THEN Advance(mon, op, hs)
              ELSE IF e.ident = "" THEN Bad("registry:new-of-a-registered-name-returns-a-new-object")
              ELSE Bad("registry:new-returns-the-logger-of-another-name"))
        ELSE (IF e.ident # "" THEN Bad("registry:new-of-a-fresh-name-returns-an-existing-object")
              ELSE [Advance(mon, op, Put(hs, nm, NewHandle(nm))) EXCEPT !.reg = @ \cup {nm}])
    [] op[1] = "Apply" ->
        LET lv == LevelOf(op[2])
            fm == op[3]
            app == op[4]
        IN IF lv # "undefined"
           THEN (IF e.seterr # "nil" THEN Bad("options:setoutputlevel-rejects-a-valid-level")
                 ELSE IF e.err THEN Bad("apply:error-for-a-valid-level")
                 ELSE Advance(mon, op,
                   [h \in DOMAIN hs |->
                      IF IsRoot(h)
                      THEN [hs[h] EXCEPT !.lvl = {lv}, !.fmt = {fm}, !.lvlby = "ApplyOptions", !.lvlfail = FALSE,
                                         !.app = IF app # "" THEN {app} ELSE @,
                                         !.appby = IF app # "" THEN "ApplyOptions" ELSE @,
                                         !.sApp = IF app # "" THEN {} ELSE @ \cup {"ApplyOptions-without-appid"},
                                         !.sDer = @ \cup {"ApplyOptions"}]
                      ELSE [hs[h] EXCEPT !.lvl = @ \cup {lv}, !.fmt = @ \cup {fm},
                                         !.app = IF app # "" THEN @ \cup {app} ELSE @]]))
           ELSE (IF ~e.err THEN Bad("apply:no-error-for-an-undefined-level")
                 ELSE Advance(mon, op, [h \in DOMAIN hs |-> [hs[h] EXCEPT !.fmt = AnyFmt, !.app = AnyApp, !.lvlfail = TRUE]]))
    [] op[1] = "SetLevel" ->
        LET x == op[2]
            new == IF op[3] \in Levels5 THEN {op[3]} ELSE AnyLevel
        IN Advance(mon, op,
             [h \in DOMAIN hs |->
                IF h = x THEN [Touch(hs[h], "SetOutputLevel") EXCEPT !.lvl = new, !.lvlby = "SetOutputLevel", !.lvlfail = FALSE]
                ELSE IF hs[h].root = hs[x].root THEN [hs[h] EXCEPT !.lvl = @ \cup new]
                ELSE hs[h]])
    [] op[1] = "Enabled" ->
        LET x == hs[op[2]]
            m == op[3]
            may == IF m \in Levels5 THEN {LvRank(m) >= LvRank(lv) : lv \in x.lvl} ELSE BOOLEAN
        IN IF e.on \in may THEN Advance(mon, op, hs)
           ELSE Bad((IF e.on THEN "level:disabled-level-reported-enabled-after-" ELSE "level:enabled-level-reported-disabled-after-") \o LevelLabel(x))
    [] op[1] = "Log" ->
        LET why == LogProblem(mon, op[2], op[3], e) IN
        IF why = "" THEN Advance(mon, op, hs) ELSE Bad(why)
    [] op[1] = "EnableJSON" ->
        LET x == op[2] IN
        Advance(mon, op,
          [h \in DOMAIN hs |->
             IF h = x THEN [Touch(hs[h], "EnableJSONOutput") EXCEPT !.fmt = {op[3]}]
             ELSE IF hs[h].root = hs[x].root THEN [hs[h] EXCEPT !.fmt = @ \cup {op[3]}]
             ELSE hs[h]])
    [] op[1] = "SetAppID" ->
        LET x == op[2] IN
        Advance(mon, op,
          [h \in DOMAIN hs |->
             IF h = x THEN [hs[h] EXCEPT !.app = {op[3]}, !.appby = "SetAppID", !.sApp = {}, !.sDer = @ \cup {"SetAppID"}]
             ELSE IF hs[h].root = hs[x].root THEN [hs[h] EXCEPT !.app = @ \cup {op[3]}]
             ELSE hs[h]])
    [] op[1] = "WithFields" ->
        IF ~e.nonnil THEN Bad("derive:withfields-returned-nil")
        ELSE [Advance(mon, op, Put(hs, DerivedId(mon.nd + 1), [hs[op[2]] EXCEPT !.fs = @ \cup FieldsOf(op[3]), !.sDer = IF IsRoot(op[2]) THEN {} ELSE @])) EXCEPT !.nd = @ + 1]
    [] op[1] = "WithType" ->
        IF ~e.nonnil THEN Bad("derive:withlogtype-returned-nil")
        ELSE [Advance(mon, op, Put(hs, DerivedId(mon.nd + 1), [hs[op[2]] EXCEPT !.typ = op[3], !.sDer = IF IsRoot(op[2]) THEN {} ELSE @])) EXCEPT !.nd = @ + 1]

(* ---------------------------------------------------------------- table families: one call = one trace *)
LevelTexts == <<"debug", "info", "warn", "error", "fatal", "DEBUG", "Info", "WaRn", "ERROR", "Fatal", "dEbUg", "iNfO", "eRRoR", "fAtAl", "FATAL",
                "", "trace", "panic", "warning", "verbose", " info", "info ", "undefined", "inf", "debug,info", "0", "Undefined", "err">>
NamePool == <<"a", "b", "A", "", " ", "a b", "U+00FC", "dapr.runtime">>     \* "U+00FC": the harness passes the letter u-umlaut
OptLevelCases == [j \in 1..Len(LevelTexts) |-> [fam |-> "optlevel", x |-> LevelTexts[j], y |-> ""]]
ApplyLevelCases == [j \in 1..Len(LevelTexts) |-> [fam |-> "applylevel", x |-> LevelTexts[j], y |-> ""]]
NewIdentCases == [j \in 1..Len(NamePool) * Len(NamePool) |->
                    [fam |-> "newident", x |-> NamePool[((j - 1) \div Len(NamePool)) + 1], y |-> NamePool[((j - 1) % Len(NamePool)) + 1]]]
CaseSeq == OptLevelCases \o ApplyLevelCases \o NewIdentCases
NumCases == Len(CaseSeq)
Fed(cs) == <<cs.fam, cs.x, cs.y>>
EnabledVec(lv) == [j \in 1..5 |-> j >= LvRank(lv)]      \* debug, info, warn, error, fatal

(* optlevel:   o := DefaultOptions(); o.OutputLevel = "warn"; err := o.SetOutputLevel(x); obs err, after = o.OutputLevel     *)
(* applylevel: l := NewLogger(fresh); l.SetOutputLevel(warn); o := DefaultOptions(); o.OutputLevel = x;                     *)
(*             err := ApplyOptionsToLoggers(&o); obs err, vec = l.IsOutputLevelEnabled(debug..fatal)                        *)
(* newident:   p := NewLogger(x); q := NewLogger(y); obs same (p == q), nonnil                                              *)
Judge(cs, o) ==
  IF o.panic # "" THEN "panic:" \o cs.fam
  ELSE CASE cs.fam = "optlevel" ->
         IF LevelOf(cs.x) # "undefined"
         THEN (IF o.err THEN "options:setoutputlevel-rejects-a-valid-level"
               ELSE IF LevelOf(o.after) # LevelOf(cs.x) THEN "options:setoutputlevel-does-not-store-the-level" ELSE "")
         ELSE (IF ~o.err THEN "options:setoutputlevel-accepts-an-undefined-level"
               ELSE IF o.after # "warn" THEN "options:setoutputlevel-changes-the-level-although-it-fails" ELSE "")
    [] cs.fam = "applylevel" ->
         IF LevelOf(cs.x) # "undefined"
         THEN (IF o.err THEN "apply:error-for-a-valid-level"
               ELSE IF o.vec # EnabledVec(LevelOf(cs.x)) THEN "apply:level-not-applied" ELSE "")
         ELSE (IF ~o.err THEN "apply:no-error-for-an-undefined-level"
               ELSE IF o.vec # EnabledVec("warn") THEN "apply:failed-apply-changes-the-level" ELSE "")
    [] cs.fam = "newident" ->
         IF ~o.nonnil THEN "registry:new-returns-nil"
         ELSE IF cs.x = cs.y /\ ~o.same THEN "registry:new-of-a-registered-name-returns-a-new-object"
         ELSE IF cs.x # cs.y /\ o.same THEN "registry:new-returns-the-logger-of-another-name"
         ELSE ""
    [] OTHER -> "harness: unknown family"

CaseReset(e) ==
  IF e.id \in 1..NumCases /\ Fed(CaseSeq[e.id]) = e.fed
  THEN [bad |-> FALSE, why |-> "", p |-> e, k |-> 0]
  ELSE Bad("harness: the record does not belong to a case of the table")
CCall(mon, e) ==
  IF mon.k # 0 THEN Bad("harness: two results for one case")
  ELSE LET why == Judge(CaseSeq[mon.p.id], e) IN IF why = "" THEN [mon EXCEPT !.k = 1] ELSE Bad(why)

(* ---------------------------------------------------------------- facts (context, nop logger, options, fatal) *)
FactNames == {
  \* FromContextOrDefault "returns a Logger from ctx. If no Logger is found, this returns a Logger that discards all log messages"
  "context:default-is-not-nil", "context:default-discards-messages", "context:default-methods-do-not-panic",
  "context:default-derived-loggers-usable", "context:default-derived-loggers-discard",
  "context:roundtrip-returns-the-logger", "context:roundtrip-derived-logger", "context:innermost-logger-wins",
  "context:nil-logger-gives-non-nil", "context:nil-logger-gives-the-default", "context:nil-logger-discards-messages",
  "context:roundtrip-logger-still-writes",
  \* DefaultOptions / AttachCmdFlags (options_test.go)
  "options:default-level-is-info", "options:default-format-is-text", "options:attach-registers-log-level-default-info",
  "options:attach-registers-log-as-json-default-false", "options:attach-binds-the-level-field", "options:attach-binds-the-json-field",
  "options:attach-tolerates-nil-callbacks", "options:attach-nil-string-callback-still-registers-bool", "options:attach-nil-bool-callback-still-registers-string",
  \* "Fatal logs a message at level Fatal then the process will exit with status set to 1"
  "fatal:child-exits-with-status-1", "fatal:line-written-before-exit", "fatal:line-has-level-fatal-and-the-message",
  "fatal:nothing-runs-after-fatal"}
FactExpected(name) == TRUE        \* every fact is phrased so that the documentation makes it true

FactsReset(e) == [bad |-> FALSE, why |-> "", p |-> e, k |-> 0]
CFact(mon, e) ==
  IF e.name \notin FactNames THEN Bad("harness: unknown fact")
  ELSE IF e.panic # "" THEN Bad("panic:" \o e.name)
  ELSE IF e.got # FactExpected(e.name) THEN Bad(e.name)
  ELSE [mon EXCEPT !.k = @ + 1]

(* ---------------------------------------------------------------- dispatch *)
CReset(e) ==
  IF e.kind = "seq" THEN (IF e.n = Len(e.fed) THEN SeqReset(e) ELSE Bad("harness: n is not the number of calls fed"))
  ELSE IF e.kind = "case" THEN CaseReset(e)
  ELSE IF e.kind = "facts" THEN FactsReset(e)
  ELSE Bad("harness: unknown kind of trace")

CNext(mon, e) ==
  IF IsBad(mon) THEN mon
  ELSE IF e.ev = "op" /\ mon.p.kind = "seq" THEN COp(mon, e)
  ELSE IF e.ev = "crash" /\ mon.p.kind = "seq" THEN Bad(e.cls \o ":" \o e.op[1])     \* the child process died / stalled inside this call
  ELSE IF e.ev = "call" /\ mon.p.kind = "case" THEN CCall(mon, e)
  ELSE IF e.ev = "fact" /\ mon.p.kind = "facts" THEN CFact(mon, e)
  ELSE IF e.ev = "end"
       THEN (IF mon.p.kind = "case" THEN (IF mon.k = 1 THEN mon ELSE Bad("harness: no result recorded"))
             ELSE IF e.nops = mon.k /\ mon.k = mon.p.n THEN mon ELSE Bad("harness: truncated or padded trace"))
  ELSE Bad("harness: unknown event")
=============================================================================
