SPECIFICATION Spec
CONSTANTS Family = "core5" Defect = "none" Sharing = "shared"
INVARIANTS NotBad Export
CHECK_DEADLOCK FALSE
