SPECIFICATION Spec
CONSTANTS Family = "tiny" Defect = "enablejson_drops_appid" Sharing = "shared"
INVARIANTS NotBad
CHECK_DEADLOCK FALSE
