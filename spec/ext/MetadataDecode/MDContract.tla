----------------------------- MODULE MDContract -----------------------------
(* X09 - the case table of metadata / config decoding and the monitor that   *)
(* judges one real call per case.                                             *)
(*                                                                            *)
(* Families: key, keydup, target, getprop (MDKeys); val (MDValues); iso,     *)
(* jsonround, jsonin (MDDuration); norm, prefix, prefixtree (MDNormalize).   *)
(* A recorded run is: reset(id, fam, fed) ; obs(cls, val, msg) ; end.  The   *)
(* expected answer is looked up in the table by the case number; `fed` (what *)
(* the harness says it gave to the function) must be the input of that case. *)
EXTENDS MDKeys, MDValues, MDDuration, MDNormalize

AllCases == KeyCases \o DupCases \o TargetCases \o GetCases \o ValCases \o IsoCases \o JsonRoundCases \o JsonInCases
            \o NormCases \o PrefixCases \o PrefixTreeCases
CaseSeq == AllCases            \* a concrete tuple (TLC evaluates it once); the case number is the position
NumCases == Len(AllCases)

Judge(cs, o) ==
  CASE cs.fam = "key" -> KeyJudge(cs, o)
    [] cs.fam = "keydup" -> DupJudge(cs, o)
    [] cs.fam = "target" -> TargetJudge(cs, o)
    [] cs.fam = "getprop" -> GetJudge(cs, o)
    [] cs.fam = "val" -> ValJudge(cs, o)
    [] cs.fam = "iso" -> IsoJudge(cs, o)
    [] cs.fam = "jsonround" -> JsonRoundJudge(cs, o)
    [] cs.fam = "jsonin" -> JsonInJudge(cs, o)
    [] cs.fam = "norm" -> NormJudge(cs, o)
    [] cs.fam = "prefix" -> PrefixJudge(cs, o)
    [] cs.fam = "prefixtree" -> PrefixTreeJudge(cs, o)

(* what identifies the input of a case in the record of the harness *)
Fed(cs) ==
  CASE cs.fam \in {"key", "keydup"} -> <<cs.go, cs.api>>
    [] cs.fam = "target" -> <<cs.what>>
    [] cs.fam = "getprop" -> <<cs.map, Len(cs.keys), cs.api>>
    [] cs.fam = "val" -> <<cs.pkg, cs.ty, cs.src, cs.text, cs.base>>
    [] cs.fam \in {"iso", "jsonround"} -> <<cs.neg, cs.d, cs.h, cs.m, cs.s, cs.ms>>
    [] cs.fam = "jsonin" -> <<cs.text>>
    [] cs.fam = "norm" -> <<cs.tree.k, Len(cs.tree.kids)>>
    [] cs.fam = "prefix" -> <<cs.kind, Len(cs.prefix), Len(cs.keys)>>
    [] cs.fam = "prefixtree" -> <<cs.what>>

Bad(why) == [bad |-> TRUE, why |-> why]
IsBad(c) == c.bad
MReset(e) == IF e.id \in 1..NumCases /\ CaseSeq[e.id].fam = e.fam /\ Fed(CaseSeq[e.id]) = e.fed
             THEN [bad |-> FALSE, why |-> "", id |-> e.id, done |-> FALSE]
             ELSE Bad("harness: the record does not belong to a case of the table")
MNext(c, e) ==
  IF e.ev = "reset" THEN MReset(e)
  ELSE IF IsBad(c) THEN c
  ELSE CASE e.ev = "obs" -> IF c.done THEN Bad("harness: two results")
                            ELSE LET why == Judge(CaseSeq[c.id], e) IN IF why = "" THEN [c EXCEPT !.done = TRUE] ELSE Bad(why)
         [] e.ev = "end" -> IF c.done THEN c ELSE Bad("harness: no result recorded")
=============================================================================
