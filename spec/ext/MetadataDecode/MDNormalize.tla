---------------------------- MODULE MDNormalize ----------------------------
(* X09 (d) - config.Normalize and config.PrefixedBy.                         *)
(*                                                                            *)
(* Normalize: "converts map[interface{}]interface{} to map[string]interface{}*)
(* to normalize for JSON"; by the package tests it does so recursively       *)
(* through maps of both kinds and []interface{} slices, and a key that is    *)
(* not a string is an error.  Values are abstract trees                      *)
(*   [k, s, kids]   k = "str" | "int" | "nil" | "mss" (a map[string]string)  *)
(*                  | "strs" (a []string): leaves, left alone;                *)
(*                  k = "mii" (map[interface{}]interface{}) | "msi"          *)
(*                  (map[string]interface{}) | "sl" ([]interface{}): kids =  *)
(*                  <<[kt, key, val]>> with kt = "s" (string key) | "i" (int *)
(*                  key) | "-" (slice element), in key order.                 *)
EXTENDS MDBase

Leaf(k, s) == [k |-> k, s |-> s, kids |-> <<>>]
Leaves == <<Leaf("str", "x"), Leaf("int", "5"), Leaf("mss", ""), Leaf("strs", ""), Leaf("nil", "")>>
Kid(kt, key, val) == [kt |-> kt, key |-> key, val |-> val]
Node(k, kids) == [k |-> k, s |-> "", kids |-> kids]
K(kt, key) == [kt |-> kt, key |-> key]
KeySets(k) == CASE k = "mii" -> << <<>>, <<K("s", "a")>>, <<K("s", "b")>>, <<K("i", "7")>>, <<K("s", "a"), K("s", "b")>>, <<K("i", "7"), K("s", "a")>> >>
                [] k = "msi" -> << <<>>, <<K("s", "a")>>, <<K("s", "a"), K("s", "b")>> >>
                [] k = "sl"  -> << <<>>, <<K("-", "")>>, <<K("-", ""), K("-", "")>> >>
Kinds3 == <<"mii", "msi", "sl">>
(* every node of kind k over the key set ks: one value of V (resp. a pair from V1 x V2) per key *)
Assign1(k, ks, V) == [i \in 1..Len(V) |-> Node(k, <<Kid(ks[1].kt, ks[1].key, V[i])>>)]
Assign2(k, ks, V1, V2) == X2(V1, V2, LAMBDA a, b : Node(k, <<Kid(ks[1].kt, ks[1].key, a), Kid(ks[2].kt, ks[2].key, b)>>))
NodesOver(k, V1, V2, pairs) ==
  Flat([i \in 1..Len(KeySets(k)) |-> LET ks == KeySets(k)[i] IN
         IF Len(ks) = 0 THEN <<>> ELSE IF Len(ks) = 1 THEN Assign1(k, ks, V1)
         ELSE IF pairs THEN Assign2(k, ks, V1, V2) \o (IF V1 # V2 THEN Assign2(k, ks, V2, V1) ELSE <<>>) ELSE <<>>])
Empties == [i \in 1..3 |-> Node(Kinds3[i], <<>>)]
Nodes1 == Empties \o Flat([i \in 1..3 |-> NodesOver(Kinds3[i], Leaves, Leaves, TRUE)])
Nodes2 == Flat([i \in 1..3 |-> NodesOver(Kinds3[i], Nodes1, Leaves, Big)])
Nodes3 == IF Big THEN Flat([i \in 1..3 |-> NodesOver(Kinds3[i], SelectSeq(Nodes2, LAMBDA t : Len(t.kids) = 1), Leaves, FALSE)]) ELSE <<>>
Trees == Leaves \o Nodes1 \o Nodes2 \o Nodes3

RECURSIVE BadKey(_)
BadKey(t) == /\ t.k \in {"mii", "msi", "sl"}
             /\ \/ t.k = "mii" /\ \E i \in 1..Len(t.kids) : t.kids[i].kt = "i"
                \/ \E i \in 1..Len(t.kids) : BadKey(t.kids[i].val)
RECURSIVE Norm(_)
Norm(t) == IF t.k \in {"mii", "msi"} THEN [k |-> "msi", s |-> "", kids |-> [i \in 1..Len(t.kids) |-> [t.kids[i] EXCEPT !.val = Norm(t.kids[i].val)]]]
           ELSE IF t.k = "sl" THEN [t EXCEPT !.kids = [i \in 1..Len(t.kids) |-> [t.kids[i] EXCEPT !.val = Norm(t.kids[i].val)]]]
           ELSE t
RECURSIVE Depth(_)
Depth(t) == IF Len(t.kids) = 0 THEN 0 ELSE 1 + (IF Len(t.kids) = 1 THEN Depth(t.kids[1].val)
                                                  ELSE IF Depth(t.kids[1].val) > Depth(t.kids[2].val) THEN Depth(t.kids[1].val) ELSE Depth(t.kids[2].val))

NormCases == [i \in 1..Len(Trees) |-> [fam |-> "norm", tree |-> Trees[i]]]
NormClass(t) == (IF t.k \in {"mii", "msi", "sl"} THEN t.k ELSE "leaf") \o " of depth " \o ToString(Depth(t))
(* obs.val = [tree] *)
NormJudge(cs, o) ==
  IF Abnormal(o) THEN "Normalize " \o AbnormalWhy(o) \o ": " \o NormClass(cs.tree)
  ELSE IF BadKey(cs.tree) THEN (IF o.cls = "ok" THEN "Normalize accepted a map with a key that is not a string: " \o NormClass(cs.tree) ELSE "")
  ELSE IF o.cls = "err" THEN "Normalize failed on a value with string keys only: " \o NormClass(cs.tree)
  ELSE IF o.val.tree # Norm(cs.tree) THEN "Normalize: unexpected result: " \o NormClass(cs.tree)
  ELSE ""

(* ---- PrefixedBy: the entries whose key starts with the prefix, under the rest of the key with its first letter in lower case ---- *)
(* keys and prefixes are sequences of characters (a token "U+00C9" stands for a capital E with acute accent: TLC strings are ASCII) *)
PKeys == << <<"t", "e", "s", "t", "O", "n", "e">>, <<"t", "e", "s", "t", "T", "w", "o">>, <<"t", "e", "s", "t">>, <<"i", "g", "n", "o", "r", "e">>,
            <<"T", "e", "s", "t", "X">>, <<"r", "e", "t", "r", "y", ".", "m", "a", "x">>, <<"r", "e", "t", "r", "y", ".", "M", "a", "x">>,
            <<"o", "n", "e">>, <<"t", "e", "s", "t", "U+00C9", "c", "o", "l", "e">>, <<>> >>
PfxSeqs == << <<>>, <<"t", "e", "s", "t">>, <<"r", "e", "t", "r", "y", ".">>, <<"T">>, <<"t", "e", "s", "t", "O">> >>
LowerOf(c) == CASE c = "O" -> "o" [] c = "T" -> "t" [] c = "M" -> "m" [] c = "X" -> "x" [] c = "U+00C9" -> "U+00E9" [] OTHER -> c
MapKinds == <<"mss", "msi", "mii">>
IdxSets == << <<>> >> \o [i \in 1..Len(PKeys) |-> <<i>>]
           \o SelectSeq(X2([i \in 1..Len(PKeys) |-> i], [i \in 1..Len(PKeys) |-> i], LAMBDA a, b : <<a, b>>), LAMBDA q : q[1] < q[2])
           \o (IF Big THEN SelectSeq(X3([i \in 1..Len(PKeys) |-> i], [i \in 1..Len(PKeys) |-> i], [i \in 1..Len(PKeys) |-> i], LAMBDA a, b, d : <<a, b, d>>),
                                     LAMBDA q : q[1] < q[2] /\ q[2] < q[3]) ELSE <<>>)
PrefixCases == X3(MapKinds, PfxSeqs, IdxSets, LAMBDA kind, p, ix :
                 [fam |-> "prefix", kind |-> kind, prefix |-> p, keys |-> [j \in 1..Len(ix) |-> [chars |-> PKeys[ix[j]], val |-> "v" \o ToString(ix[j])]]])
HasPfx(k, p) == Len(k) >= Len(p) /\ SubSeq(k, 1, Len(p)) = p
Uncap(r) == IF r = <<>> THEN r ELSE <<LowerOf(r[1])>> \o Tail(r)
OutKey(k, p) == Join(Uncap(SubSeq(k, Len(p) + 1, Len(k))))
Matching(cs) == {i \in 1..Len(cs.keys) : HasPfx(cs.keys[i].chars, cs.prefix)}
ExpKeys(cs) == {OutKey(cs.keys[i].chars, cs.prefix) : i \in Matching(cs)}
AllowedVals(cs, rk) == {cs.keys[i].val : i \in {j \in Matching(cs) : OutKey(cs.keys[j].chars, cs.prefix) = rk}}
(* obs.val = [kind, ents |-> <<[key, val]>>] *)
PrefixJudge(cs, o) ==
  LET got == {o.val.ents[i].key : i \in 1..Len(o.val.ents)} IN
  IF Abnormal(o) THEN "PrefixedBy " \o AbnormalWhy(o)
  ELSE IF o.cls = "err" THEN "PrefixedBy failed on a map with string keys"
  ELSE IF o.val.kind # (IF cs.kind = "mss" THEN "mss" ELSE "msi") THEN "PrefixedBy: unexpected type of the result"
  ELSE IF \E k \in got : k \notin ExpKeys(cs) THEN "PrefixedBy: an entry without the prefix (or under a wrong name) in the result"
  ELSE IF \E k \in ExpKeys(cs) : k # "" /\ k \notin got THEN "PrefixedBy: an entry with the prefix is missing"
  ELSE IF \E i \in 1..Len(o.val.ents) : o.val.ents[i].val \notin AllowedVals(cs, o.val.ents[i].key) THEN "PrefixedBy: an entry has the value of another key"
  ELSE ""

(* inputs that are not flat maps: returned normalized; a key that is not a string is an error; nested maps are kept (normalized) *)
PT(what, tree, cls, want) == [fam |-> "prefixtree", what |-> what, tree |-> tree, cls |-> cls, want |-> want]
Inner == Node("mii", <<Kid("s", "a", Leaf("str", "x"))>>)
PrefixTreeCases ==
  << PT("string", Leaf("str", "x"), "val", Leaf("str", "x")), PT("nil", Leaf("nil", ""), "val", Leaf("nil", "")), PT("int", Leaf("int", "5"), "val", Leaf("int", "5")),
     PT("slice of maps", Node("sl", <<Kid("-", "", Inner)>>), "val", Norm(Node("sl", <<Kid("-", "", Inner)>>))),
     PT("map with a key that is not a string", Node("mii", <<Kid("i", "7", Leaf("str", "x")), Kid("s", "testA", Leaf("str", "x"))>>), "err", Leaf("nil", "")),
     PT("nested map with a key that is not a string", Node("msi", <<Kid("s", "testA", Node("mii", <<Kid("i", "7", Leaf("str", "x"))>>))>>), "err", Leaf("nil", "")),
     PT("nested map under a prefixed key", Node("mii", <<Kid("s", "other", Leaf("str", "x")), Kid("s", "testN", Inner)>>), "val", Node("msi", <<Kid("s", "n", Norm(Inner))>>)),
     PT("nested map under a prefixed key", Node("msi", <<Kid("s", "testN", Inner)>>), "val", Node("msi", <<Kid("s", "n", Norm(Inner))>>)),
     PT("slice under a prefixed key", Node("msi", <<Kid("s", "testS", Node("sl", <<Kid("-", "", Inner)>>))>>), "val", Node("msi", <<Kid("s", "s", Norm(Node("sl", <<Kid("-", "", Inner)>>)))>>)),
     PT("empty map", Node("mii", <<>>), "val", Node("msi", <<>>)) >>
PrefixTreeJudge(cs, o) ==
  IF Abnormal(o) THEN "PrefixedBy " \o AbnormalWhy(o) \o ": " \o cs.what
  ELSE IF cs.cls = "err" THEN (IF o.cls = "ok" THEN "PrefixedBy accepted a " \o cs.what ELSE "")
  ELSE IF o.cls = "err" THEN "PrefixedBy failed: " \o cs.what
  ELSE IF o.val.tree # cs.want THEN "PrefixedBy: unexpected result: " \o cs.what
  ELSE ""
=============================================================================
