----------------------------- MODULE MDDuration -----------------------------
(* X09 (c) - metadata.Duration: ToISOString and the JSON encoding.           *)
(*                                                                            *)
(* ToISOString (doc comment): an ISO-8601 duration with days, hours, minutes *)
(* and seconds (days are 24 h), fractions of a second are truncated; the     *)
(* package test fixes the format: zero is "P0D", no "T" part without time    *)
(* components, no component with value 0.  Parsing the string with the       *)
(* library's own time.ParseISO8601Duration gives the truncated duration      *)
(* back.  A duration is given by its components (TLC integers are 32 bit):   *)
(* sign, days, hours (< 24), minutes (< 60), seconds (< 60), milliseconds.   *)
EXTENDS MDBase

IC(neg, d, h, m, s, ms) == [fam |-> "iso", neg |-> neg, d |-> d, h |-> h, m |-> m, s |-> s, ms |-> ms]
IDays == IF Big THEN <<0, 1, 2, 10, 365, 106750>> ELSE <<0, 1, 2, 106750>>
IHours == IF Big THEN <<0, 1, 2, 23>> ELSE <<0, 1, 23>>
IMins == IF Big THEN <<0, 1, 20, 59>> ELSE <<0, 1, 59>>
ISecs == IF Big THEN <<0, 1, 15, 59>> ELSE <<0, 1, 59>>
IMs == <<0, 1, 999>>
IsoCases == Flat([ni \in 1..2 |-> Flat([di \in 1..Len(IDays) |-> Flat([hi \in 1..Len(IHours) |-> Flat([mi \in 1..Len(IMins) |->
              Flat([si \in 1..Len(ISecs) |-> [msi \in 1..3 |-> IC(ni = 2, IDays[di], IHours[hi], IMins[mi], ISecs[si], IMs[msi])]])])])])])

Comp(n, unit) == IF n > 0 THEN ToString(n) \o unit ELSE ""
Whole(cs) == cs.d + cs.h + cs.m + cs.s > 0
IsoExp(cs) == IF ~Whole(cs) THEN "P0D"
              ELSE "P" \o Comp(cs.d, "D") \o (IF cs.h + cs.m + cs.s > 0 THEN "T" \o Comp(cs.h, "H") \o Comp(cs.m, "M") \o Comp(cs.s, "S") ELSE "")
(* obs.val = [iso, perr (the library's parser rejected it), years, months, days, secs (of the time part), rep] *)
IsoJudge(cs, o) ==
  IF Abnormal(o) THEN "ToISOString " \o AbnormalWhy(o)
  ELSE IF cs.neg /\ Whole(cs)
       THEN (IF (o.val.perr /\ o.val.iso \notin {"PT", "P"})
                \/ (~o.val.perr /\ o.val.days = 0 - cs.d /\ o.val.secs = 0 - (cs.h * 3600 + cs.m * 60 + cs.s))
             THEN "" ELSE "ToISOString of a negative duration: the text is malformed or reads back as a different duration")
  ELSE IF o.val.iso # IsoExp(cs) THEN "ToISOString: unexpected text for " \o (IF Whole(cs) THEN (IF cs.ms > 0 THEN "a duration with a fraction of a second" ELSE "a whole number of seconds") ELSE "less than a second")
  ELSE IF o.val.perr THEN "ToISOString: the text is rejected by time.ParseISO8601Duration"
  ELSE IF o.val.years # 0 \/ o.val.months # 0 \/ o.val.days # cs.d \/ o.val.secs # cs.h * 3600 + cs.m * 60 + cs.s
       THEN "ToISOString: the text reads back as a different duration"
  ELSE ""

(* JSON: MarshalJSON writes a JSON string, UnmarshalJSON of it gives the same duration back (to the nanosecond) *)
JsonRoundCases == [i \in 1..Len(IsoCases) |-> [IsoCases[i] EXCEPT !.fam = "jsonround"]]
(* obs.val = [quoted (the text is a JSON string), same (unmarshalling it gave the duration back)] *)
JsonRoundJudge(cs, o) ==
  IF Abnormal(o) THEN "Duration JSON round trip " \o AbnormalWhy(o)
  ELSE IF o.cls = "err" THEN "Duration JSON round trip failed"
  ELSE IF ~o.val.quoted THEN "Duration.MarshalJSON did not write a JSON string"
  ELSE IF ~o.val.same THEN "Duration JSON round trip changed the value"
  ELSE ""

(* UnmarshalJSON of other texts: a string in Go duration syntax, or a number (of nanoseconds, by the code: unspecified beyond small integers) *)
JU(text, cls, ns, klass) == [fam |-> "jsonin", text |-> text, cls |-> cls, ns |-> ns, klass |-> klass]
JsonInCases ==
  << JU("\"5s\"", "val", "5000000000", "string in Go syntax"), JU("\"1h30m\"", "val", "5400000000000", "string in Go syntax"),
     JU("\"-250ms\"", "val", "-250000000", "string in Go syntax"), JU("\"0s\"", "val", "0", "string in Go syntax"),
     JU("5", "val", "5", "small integer number"), JU("-7", "val", "-7", "small integer number"), JU("5000000000", "val", "5000000000", "integer number"),
     JU("\"abc\"", "err", "", "string that is not a duration"), JU("true", "err", "", "boolean"), JU("{}", "err", "", "object"),
     JU("[1]", "err", "", "array"), JU("{", "err", "", "malformed JSON"),
     JU("\"5\"", "either", "", "string without unit"), JU("\"\"", "either", "", "empty string"), JU("null", "either", "", "null"),
     JU("1.5", "either", "", "fractional number"), JU("1e30", "either", "", "number beyond int64"), JU("9223372036854775808", "either", "", "number beyond int64") >>
(* obs.val = [ns] *)
JsonInJudge(cs, o) ==
  IF Abnormal(o) THEN "Duration.UnmarshalJSON " \o AbnormalWhy(o) \o ": " \o cs.klass
  ELSE IF cs.cls = "either" THEN ""
  ELSE IF cs.cls = "err" THEN (IF o.cls = "ok" THEN "Duration.UnmarshalJSON accepted " \o cs.klass ELSE "")
  ELSE IF o.cls = "err" THEN "Duration.UnmarshalJSON rejected " \o cs.klass
  ELSE IF o.val.ns # cs.ns THEN "Duration.UnmarshalJSON: wrong value for " \o cs.klass
  ELSE ""
=============================================================================
