------------------------------ MODULE TraceMD ------------------------------
(* Validates recorded calls of the real metadata / config functions against  *)
(* the expected answers of the X09 case table.                                *)
EXTENDS MDContract, TraceLib

Trace == LoadTrace("trace.ndjson")
Starts == {i \in 1..Len(Trace) : Trace[i].ev = "reset"}
VARIABLES l, c
TInit == l \in Starts /\ c = MReset(Trace[l])
TNext == /\ ~IsBad(c)
         /\ l + 1 <= Len(Trace)
         /\ Trace[l + 1].ev # "reset"
         /\ c' = MNext(c, Trace[l + 1])
         /\ l' = l + 1
TSpec == TInit /\ [][TNext]_<<l, c>>
Report == IF IsBad(c) THEN RejectLine(l, c.why) ELSE TRUE
=============================================================================
