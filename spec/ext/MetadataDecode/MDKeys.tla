------------------------------- MODULE MDKeys -------------------------------
(* X09 (a) - which metadata key fills which struct field.                    *)
(*                                                                            *)
(* metadata.DecodeMetadata / Properties.Decode: a property name matches the  *)
(* `mapstructure` tag (or the field name) of a field regardless of case; a   *)
(* field with `mapstructurealiases:"a,b"` is filled from alias a, else b,    *)
(* when - and only when - its main key is absent (package tests: "first      *)
(* alias wins", "do not overwrite existing fields with aliases", "aliases in *)
(* embedded struct"); a field none of whose names is present keeps the value *)
(* it had.                                                                    *)
(*                                                                            *)
(* The Go struct of this family (harness: keyT):                              *)
(*   KeyEmb  `,squash`  { EmbPlain `embPlain`; EmbAl `embMain` aliases embAlt }   exported embedded type      *)
(*   keyEmbU `,squash`  { UPlain `uPlain`; UAl `uMain` aliases uAlt }             unexported embedded type    *)
(*   Plain `plain`; Mixed `mixedCase`; NoTag (no tag); One `one` aliases oneAlt;                               *)
(*   Two `two` aliases twoAltA,twoAltB; MixAl `mixMain` aliases MixAlt                                         *)
EXTENDS MDBase

KF(go, main, al, where) == [go |-> go, main |-> main, al |-> al, where |-> where]
KeyFields == << KF("Plain", "plain", <<>>, "top-level"), KF("Mixed", "mixedCase", <<>>, "top-level"), KF("NoTag", "NoTag", <<>>, "top-level"),
                KF("One", "one", <<"oneAlt">>, "top-level"), KF("Two", "two", <<"twoAltA", "twoAltB">>, "top-level"),
                KF("MixAl", "mixMain", <<"MixAlt">>, "top-level"),
                KF("EmbPlain", "embPlain", <<>>, "embedded"), KF("EmbAl", "embMain", <<"embAlt">>, "embedded"),
                KF("UPlain", "uPlain", <<>>, "embedded-unexported-type"), KF("UAl", "uMain", <<"uAlt">>, "embedded-unexported-type") >>
Names(f) == <<f.main>> \o f.al
Spellings == <<"exact", "lower", "upper">>         \* how the harness writes the key names into the map
Apis == <<"map-string-string", "map-string-any", "properties-decode", "struct-with-properties", "ptr-to-ptr">>
KeyBases == <<"zero", "preset">>
BaseVal(b) == IF b = "preset" THEN "old" ELSE ""
ValOf(name) == "val-of-" \o name

Bit(mask, i) == (mask \div (2 ^ (i - 1))) % 2 = 1
PresentIdx(f, mask) == {i \in 1..Len(Names(f)) : Bit(mask, i)}
KeysOf(f, mask) == LET idx == SelectSeq([i \in 1..Len(Names(f)) |-> i], LAMBDA i : Bit(mask, i))
                   IN [j \in 1..Len(idx) |-> [name |-> Names(f)[idx[j]], val |-> ValOf(Names(f)[idx[j]])]]

KeyCase(fi, mask, sp, base, api) ==
  [fam |-> "key", field |-> fi, go |-> KeyFields[fi].go, mask |-> mask, sp |-> sp, base |-> base, api |-> api,
   keys |-> KeysOf(KeyFields[fi], mask)]

KeyCasesOf(fi) ==
  LET n == Len(Names(KeyFields[fi]))
      masks == [m \in 1..(2 ^ n) |-> m - 1]
      apis == IF Big THEN Apis ELSE <<Apis[1 + (fi % 5)], Apis[1 + ((fi + 2) % 5)]>>
  IN Flat([mi \in 1..Len(masks) |-> Flat([si \in 1..3 |-> Flat([bi \in 1..2 |->
        [ai \in 1..Len(apis) |-> KeyCase(fi, masks[mi], Spellings[si], KeyBases[bi], apis[ai])]])])])
KeyCases == Flat([fi \in 1..Len(KeyFields) |-> KeyCasesOf(fi)])

(* the expected value of the field: main key, else the first alias present, else untouched *)
KeyExp(cs) == LET f == KeyFields[cs.field] P == PresentIdx(f, cs.mask) IN
              IF P = {} THEN BaseVal(cs.base) ELSE ValOf(Names(f)[MinOf(P)])
KeyClass(cs) == LET f == KeyFields[cs.field] IN
  (IF cs.mask = 0 THEN "no key given"
   ELSE IF Bit(cs.mask, 1) THEN (IF cs.mask > 1 THEN "main key and alias given" ELSE "main key given")
   ELSE IF Cardinality(PresentIdx(f, cs.mask)) > 1 THEN "several aliases given" ELSE "alias given")
  \o ", " \o f.where \o " field"
KeyJudge(cs, o) ==
  IF Abnormal(o) THEN "DecodeMetadata " \o AbnormalWhy(o) \o ": " \o KeyClass(cs)
  ELSE IF o.cls = "err" THEN "DecodeMetadata failed on a valid map: " \o KeyClass(cs)
  ELSE IF o.val[cs.go] # KeyExp(cs) THEN "key matching: wrong value in the field: " \o KeyClass(cs)
  ELSE IF \E i \in 1..Len(KeyFields) : i # cs.field /\ o.val[KeyFields[i].go] # BaseVal(cs.base)
       THEN "key matching: a field whose key was not given changed: " \o KeyClass(cs)
  ELSE ""

(* the same name twice in different spellings: not documented - an error or either value *)
DupCases == [fi \in 1..Len(KeyFields) |-> [fam |-> "keydup", field |-> fi, go |-> KeyFields[fi].go, base |-> "zero",
                                           api |-> Apis[1 + (fi % 3)], keys |-> <<[name |-> KeyFields[fi].main, val |-> "val-a"]>>]]
DupJudge(cs, o) ==
  IF Abnormal(o) THEN "DecodeMetadata " \o AbnormalWhy(o) \o ": a key given twice in different spellings"
  ELSE IF o.cls = "ok" /\ o.val[cs.go] \notin {"val-a", "val-b"} THEN "key matching: a key given twice in different spellings filled the field with neither value"
  ELSE ""

(* ---- unusual inputs / results: an error (or a result), never a panic ---- *)
TG(what, cls) == [fam |-> "target", what |-> what, cls |-> cls]        \* cls: "err" | "either"
TargetCases == << TG("result-nil", "err"), TG("result-not-a-pointer", "err"), TG("result-pointer-to-int", "err"),
                  TG("result-typed-nil-pointer", "err"), TG("result-pointer-to-map", "either"), TG("result-ptr-ptr-ptr", "either"),
                  TG("result-squash-pointer-embedded", "either"),
                  TG("input-nil", "err"), TG("input-int", "err"), TG("input-slice", "err"),
                  TG("input-struct-without-properties", "err"), TG("input-struct-properties-not-a-map", "err"),
                  TG("input-pointer-to-struct-with-properties", "either"), TG("input-map-any-any", "either"),
                  TG("input-map-string-int", "either") >>
TargetJudge(cs, o) ==
  IF Abnormal(o) THEN "DecodeMetadata " \o AbnormalWhy(o) \o ": " \o cs.what
  ELSE IF cs.cls = "err" /\ o.cls = "ok" THEN "DecodeMetadata accepted an unusable argument: " \o cs.what
  ELSE ""

(* ---- GetMetadataProperty[WithMatchedKey] / Properties.GetProperty[WithMatchedKey] ---- *)
(* names are written base + spelling; two names are the same property iff    *)
(* their bases are equal (the bases are lower-case words).  The first of the *)
(* requested keys that names a property of the map wins; its value and the   *)
(* key AS REQUESTED are returned (package test "Case-insensitive matching"). *)
P(base, sp, val) == [base |-> base, sp |-> sp, val |-> val]
PropMaps == << <<P("key1", "lower", "value1"), P("key2", "lower", "value2"), P("emptykey", "title", "")>>,
               <<P("key1", "upper", "V1"), P("key3", "title", "V3")>>,
               <<>> >>
LBases == <<"key1", "key2", "key3", "emptykey", "nokey">>
LSps == <<"lower", "upper", "title">>
Atoms == X2(LBases, LSps, LAMBDA b, s : [base |-> b, sp |-> s])
GetApis == <<"GetMetadataProperty", "GetMetadataPropertyWithMatchedKey", "Properties.GetProperty", "Properties.GetPropertyWithMatchedKey">>
Lookups == [i \in 1..Len(Atoms) |-> <<Atoms[i]>>]
           \o SelectSeq(X2(Atoms, Atoms, LAMBDA a, b : <<a, b>>), LAMBDA q : q[1] # q[2])
           \o (IF Big THEN SelectSeq(X3(Atoms, Atoms, Atoms, LAMBDA a, b, d : <<a, b, d>>), LAMBDA q : q[1] # q[2] /\ q[2] # q[3] /\ q[1] # q[3])
               ELSE <<>>)
           \o << <<>> >>
GetCases == Flat([mi \in 1..Len(PropMaps) |-> [li \in 1..Len(Lookups) |->
               [fam |-> "getprop", map |-> mi, props |-> PropMaps[mi], keys |-> Lookups[li], api |-> GetApis[1 + ((mi + li) % 4)]]]])
BasesOf(m) == {m[i].base : i \in 1..Len(m)}
Hits(cs) == {i \in 1..Len(cs.keys) : cs.keys[i].base \in BasesOf(cs.props)}
ValIn(m, b) == LET i == CHOOSE i \in 1..Len(m) : m[i].base = b IN m[i].val
(* obs.val = [found, idx (1-based position of the returned key in the request, 0: none / not reported), val] *)
GetJudge(cs, o) ==
  IF Abnormal(o) THEN cs.api \o " " \o AbnormalWhy(o)
  ELSE IF Hits(cs) = {} THEN (IF o.val.found \/ o.val.val # "" \/ o.val.idx # 0 THEN "property lookup: a property reported although none of the keys is in the map" ELSE "")
  ELSE IF ~o.val.found THEN "property lookup: a property present under another spelling was not found"
  ELSE IF o.val.val # ValIn(cs.props, cs.keys[MinOf(Hits(cs))].base) THEN "property lookup: not the value of the first matching key"
  ELSE IF o.val.idx # 0 /\ o.val.idx # MinOf(Hits(cs)) THEN "property lookup: the matched key is not the first matching key as requested"
  ELSE ""
=============================================================================
