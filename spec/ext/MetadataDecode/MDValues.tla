------------------------------ MODULE MDValues ------------------------------
(* X09 (b) - conversion of one input value to the type of the target field,  *)
(* for metadata.DecodeMetadata (pkg "metadata": string input, mapstructure   *)
(* with weakly typed input + the package's hooks) and config.Decode (pkg     *)
(* "config": the decodeString hook).  One case = one key of the struct of    *)
(* the family given with one value; the expected answer is                   *)
(*   cls "val"       the call succeeds, the field holds one of `alts`, every *)
(*                   other field is untouched                                *)
(*   cls "err"       the call (for ByteSize: the call or GetBytes) fails     *)
(*   cls "either"    not specified by doc comments / package tests: any      *)
(*                   answer except a panic, crash or hang                    *)
(*   cls "unchanged" the key is not given: success, the field keeps its      *)
(*                   previous value (alts = that value)                      *)
(* Canonical values are sequences of strings: a scalar is <<text>>, a nil    *)
(* pointer / nil slice is <<"<nil>">>, a list is the sequence of its         *)
(* elements.  Integers and durations (nanoseconds) are decimal strings:      *)
(* TLC integers have 32 bits, the bounds below are digit sequences.          *)
EXTENDS MDBase

Nil == <<"<nil>">>
VC(pkg, ty, src, text, cls, alts, klass) ==
  [fam |-> "val", pkg |-> pkg, ty |-> ty, src |-> src, text |-> text, base |-> "zero", cls |-> cls, alts |-> alts, klass |-> klass]
Val(pkg, ty, text, v, klass)  == VC(pkg, ty, "string", text, "val", <<<<v>>>>, klass)
Err(pkg, ty, text, klass)     == VC(pkg, ty, "string", text, "err", <<>>, klass)
Eith(pkg, ty, text, klass)    == VC(pkg, ty, "string", text, "either", <<>>, klass)

(* ------------------------------------------------------------------ integers *)
IntTypes == <<"int8", "int16", "int32", "int64", "int", "uint8", "uint16", "uint32", "uint64", "uint">>
Signed(t) == t \in {"int8", "int16", "int32", "int64", "int"}
Max63 == <<9, 2, 2, 3, 3, 7, 2, 0, 3, 6, 8, 5, 4, 7, 7, 5, 8, 0, 7>>
Max64 == <<1, 8, 4, 4, 6, 7, 4, 4, 0, 7, 3, 7, 0, 9, 5, 5, 1, 6, 1, 5>>
PosMax(t) == CASE t = "int8" -> <<1, 2, 7>> [] t = "int16" -> <<3, 2, 7, 6, 7>> [] t = "int32" -> <<2, 1, 4, 7, 4, 8, 3, 6, 4, 7>>
               [] t \in {"int64", "int"} -> Max63
               [] t = "uint8" -> <<2, 5, 5>> [] t = "uint16" -> <<6, 5, 5, 3, 5>> [] t = "uint32" -> <<4, 2, 9, 4, 9, 6, 7, 2, 9, 5>>
               [] t \in {"uint64", "uint"} -> Max64
NegMax(t) == IF Signed(t) THEN Succ(PosMax(t)) ELSE <<0>>       \* |smallest value|
Huge == <<9, 9, 9, 9, 9, 9, 9, 9, 9, 9, 9, 9, 9, 9, 9, 9, 9, 9, 9, 9, 9, 9>>
Mags(t) == << <<0>>, <<1>>, <<4, 2>>, PosMax(t), Succ(PosMax(t)), Succ(Succ(PosMax(t))), Huge >>
Signs == <<"", "-", "+">>
Fits(t, sign, mag) == IF sign = "-" THEN MagLE(mag, NegMax(t)) ELSE MagLE(mag, PosMax(t))
IntCanon(sign, mag) == (IF sign = "-" /\ mag # <<0>> THEN "-" ELSE "") \o DStr(mag)
IntCase(pkg, t, sign, mag) ==
  LET text == sign \o DStr(mag) IN
  IF ~Fits(t, sign, mag) THEN Err(pkg, t, text, "decimal integer outside the range of the type")
  ELSE IF ~Signed(t) /\ sign # "" THEN Eith(pkg, t, text, "signed notation for an unsigned type")
  ELSE Val(pkg, t, text, IntCanon(sign, mag), "decimal integer in range")
IntCases(pkg) == Flat([ti \in 1..Len(IntTypes) |-> Flat([si \in 1..3 |->
                   [mi \in 1..Len(Mags(IntTypes[ti])) |-> IntCase(pkg, IntTypes[ti], Signs[si], Mags(IntTypes[ti])[mi])]])])
IntSpecials(pkg, t) ==
  << Err(pkg, t, "abc", "not a number"), Err(pkg, t, "3.5", "fraction for an integer"), Eith(pkg, t, "1e2", "exponent notation for an integer"),
     Eith(pkg, t, " 5", "number with surrounding space"), Eith(pkg, t, "5 ", "number with surrounding space"),
     Eith(pkg, t, "0x10", "prefixed base"), Eith(pkg, t, "010", "leading zero"), Eith(pkg, t, "1_0", "digit separator"),
     IF pkg = "config" THEN Err(pkg, t, "", "empty string for a number") ELSE Eith(pkg, t, "", "empty string for a number") >>
IntSpecialCases(pkg) == Flat([ti \in 1..Len(IntTypes) |-> IF Big \/ ti \in {1, 4, 6, 10} THEN IntSpecials(pkg, IntTypes[ti]) ELSE <<>>])

(* -------------------------------------------------------------------- floats *)
FloatCasesOf(pkg, t) ==
  << Val(pkg, t, "1.5", "1.5", "decimal"), Val(pkg, t, "-0.25", "-0.25", "decimal"), Val(pkg, t, "2", "2", "decimal"),
     Val(pkg, t, "1e3", "1000", "exponent"), Val(pkg, t, "0", "0", "decimal"),
     Err(pkg, t, "abc", "not a number"), Err(pkg, t, "1,5", "not a number"),
     IF t = "float32" THEN Err(pkg, t, "1e40", "outside the range of the type") ELSE Val(pkg, t, "1e40", "1e+40", "exponent"),
     Err(pkg, t, "1e400", "outside the range of the type"),
     Eith(pkg, t, "NaN", "not-a-number literal"), Eith(pkg, t, " 1", "number with surrounding space"),
     IF pkg = "config" THEN Err(pkg, t, "", "empty string for a number") ELSE Eith(pkg, t, "", "empty string for a number") >>
FloatCases(pkg) == FloatCasesOf(pkg, "float32") \o FloatCasesOf(pkg, "float64")

(* ------------------------------------------------------------------- strings *)
StringCases(pkg) == [i \in 1..6 |-> LET s == <<"hello", "", " padded ", "a,b", "TRUE", "123">>[i] IN Val(pkg, "string", s, s, "string")]

(* --------------------------------------------------------------------- bools *)
(* metadata: utils.IsTruthy - "y", "yes", "true", "t", "on", "1" (case-insensitive); everything else is false *)
W(lo, up, ti) == <<lo, up, ti>>
BoolWords == << W("true", "TRUE", "True"), W("t", "T", "T"), W("y", "Y", "Y"), W("yes", "YES", "Yes"), W("on", "ON", "On"), W("1", "1", "1"),
                W("false", "FALSE", "False"), W("f", "F", "F"), W("n", "N", "N"), W("no", "NO", "No"), W("off", "OFF", "Off"), W("0", "0", "0"),
                W("enabled", "ENABLED", "Enabled"), W("nonsense", "NONSENSE", "Nonsense"), W("2", "2", "2"), W("01", "01", "01"),
                W("true1", "TRUE1", "True1"), W("yess", "YESS", "Yess"), W("tr ue", "TR UE", "Tr Ue"), W("", "", "") >>
Truthy == {"true", "t", "y", "yes", "on", "1"}
Pads == << <<"", "">>, <<" ", "">>, <<"", " ">>, <<"  ", " ">> >>
MdBoolCase(ty, w, ci, pi) ==
  LET text == Pads[pi][1] \o w[ci] \o Pads[pi][2]
      v == IF w[1] \in Truthy THEN "true" ELSE "false" IN
  IF pi > 1 /\ w[1] \in Truthy THEN Eith("metadata", ty, text, "truthy word with surrounding space")
  ELSE Val("metadata", ty, text, v, IF w[1] \in Truthy THEN "truthy word" ELSE "any other word")
MdBoolCases == Flat([ti \in 1..2 |-> Flat([wi \in 1..Len(BoolWords) |-> Flat([ci \in 1..3 |->
                  [pi \in 1..Len(Pads) |-> MdBoolCase(<<"bool", "ptr:bool">>[ti], BoolWords[wi], ci, pi)]])])])
(* config: the package tests show "true" and "badval"; the accepted spellings of strconv.ParseBool are taken as given, other words as unspecified *)
CfgTrue == <<"1", "t", "T", "TRUE", "true", "True">>
CfgFalse == <<"0", "f", "F", "FALSE", "false", "False">>
CfgBoolCasesOf(ty) ==
  [i \in 1..6 |-> Val("config", ty, CfgTrue[i], "true", "boolean literal")] \o [i \in 1..6 |-> Val("config", ty, CfgFalse[i], "false", "boolean literal")]
  \o << Err("config", ty, "badval", "not a boolean"), Err("config", ty, "", "not a boolean"), Err("config", ty, "2", "not a boolean"),
        Eith("config", ty, "yes", "truthy word"), Eith("config", ty, "on", "truthy word"), Eith("config", ty, "tRuE", "mixed case literal"),
        Eith("config", ty, " true", "literal with surrounding space") >>
CfgBoolCases == CfgBoolCasesOf("bool") \o CfgBoolCasesOf("ptr:bool")

(* ----------------------------------------------------------------- durations *)
(* metadata: Go duration syntax, or a plain integer = SECONDS (package test: "17" is 17 s), "" = 0 (package test) *)
MaxSec == <<9, 2, 2, 3, 3, 7, 2, 0, 3, 6>>          \* the largest whole number of seconds a time.Duration holds
SecMags == << <<1, 7>>, <<1>>, <<0>>, <<8, 6, 4, 0, 0>>, MaxSec, Succ(MaxSec), <<9, 9, 9, 9, 9, 9, 9, 9, 9, 9, 9>>, Huge >>
SecCase(ty, sign, mag) ==
  LET text == sign \o DStr(mag) IN
  IF ~MagLE(mag, MaxSec) THEN Err("metadata", ty, text, "plain seconds beyond time.Duration")
  ELSE Val("metadata", ty, text, IF mag = <<0>> THEN "0" ELSE (IF sign = "-" THEN "-" ELSE "") \o DStr(mag) \o "000000000", "plain number of seconds")
DurLits(ty) ==
  << Val("metadata", ty, "5s", "5000000000", "Go duration"), Val("metadata", ty, "1h30m", "5400000000000", "Go duration"),
     Val("metadata", ty, "250ms", "250000000", "Go duration"), Val("metadata", ty, "1.5s", "1500000000", "Go duration"),
     Val("metadata", ty, "-5s", "-5000000000", "Go duration"), Val("metadata", ty, "1m30s", "90000000000", "Go duration"),
     Val("metadata", ty, "0s", "0", "Go duration"), Val("metadata", ty, "", "0", "empty string"),
     Val("metadata", ty, "2562047h47m16s", "9223372036000000000", "Go duration"),
     Err("metadata", ty, "2562048h", "Go duration that does not fit"),
     Err("metadata", ty, "abc", "not a duration"), Err("metadata", ty, "1.5", "fraction without unit"), Err("metadata", ty, "5 s", "not a duration"),
     Err("metadata", ty, "1d", "unknown unit"), Err("metadata", ty, "5x", "unknown unit"),
     Eith("metadata", ty, " 5s", "duration with surrounding space"), Eith("metadata", ty, "5s ", "duration with surrounding space"),
     Eith("metadata", ty, "0x10", "prefixed base"), Eith("metadata", ty, "1e3", "exponent notation") >>
DurTypes == <<"duration", "mdduration", "ptr:duration">>
DurCases == Flat([ti \in 1..3 |-> DurLits(DurTypes[ti]) \o Flat([si \in 1..3 |-> [mi \in 1..Len(SecMags) |-> SecCase(DurTypes[ti], Signs[si], SecMags[mi])]])])

(* duration arrays: comma separated, elements trimmed, empty elements skipped (package test: "," is an empty, non-nil list) *)
EA(text, ns) == [text |-> text, ns |-> ns]          \* ns: nanoseconds | "skip" | "err"
DurAtoms == << EA("1s", "1000000000"), EA("10", "10000000000"), EA(" 2s ", "2000000000"), EA("", "skip"), EA("  ", "skip"),
               EA("abc", "err"), EA("9223372037", "err"), EA("1m", "60000000000"), EA(" 20", "20000000000") >>
RECURSIVE JoinComma(_)
JoinComma(ts) == IF Len(ts) = 0 THEN "" ELSE IF Len(ts) = 1 THEN ts[1] ELSE ts[1] \o "," \o JoinComma(Tail(ts))
DurListCase(ty, atoms) ==
  LET text == JoinComma([i \in 1..Len(atoms) |-> atoms[i].text])
      kept == SelectSeq(atoms, LAMBDA a : a.ns # "skip")
      vals == [i \in 1..Len(kept) |-> kept[i].ns] IN
  IF \E i \in 1..Len(atoms) : atoms[i].ns = "err"
  THEN (IF \E i \in 1..Len(atoms) : atoms[i].text = "9223372037"
        THEN VC("metadata", ty, "string", text, "err", <<>>, "element: plain seconds beyond time.Duration")
        ELSE VC("metadata", ty, "string", text, "err", <<>>, "list with an invalid element"))
  ELSE IF text = "" THEN VC("metadata", ty, "string", text, "val", <<vals, Nil>>, "empty list")
  ELSE VC("metadata", ty, "string", text, "val", <<vals>>, IF Len(kept) < Len(atoms) THEN "list with empty elements" ELSE "list")
AtomSeqs(A, n) == << <<>> >> \o [i \in 1..Len(A) |-> <<A[i]>>] \o X2(A, A, LAMBDA a, b : <<a, b>>)
                  \o (IF n >= 3 THEN X3(A, A, A, LAMBDA a, b, d : <<a, b, d>>) ELSE <<>>)
DurListCases == Flat([ti \in 1..2 |-> LET S == AtomSeqs(DurAtoms, IF Big THEN 3 ELSE 2) IN
                   [i \in 1..Len(S) |-> DurListCase(<<"durations", "ptr:durations">>[ti], S[i])]])

(* string arrays: split at every comma, nothing trimmed, empty elements kept (package test: "" is [""], "test," is ["test", ""]) *)
StrAtoms == <<"one", "two", "", "a b", " pad ", "  ">>
TrimOf(s) == CASE s = " pad " -> "pad" [] s = "  " -> "" [] OTHER -> s
StrListCase(ty, atoms) ==
  LET text == JoinComma(atoms) trimmed == [i \in 1..Len(atoms) |-> TrimOf(atoms[i])] IN
  IF trimmed # atoms THEN VC("metadata", ty, "string", text, "val", <<atoms, trimmed>>, "list with padded elements")
  ELSE VC("metadata", ty, "string", text, "val", <<atoms>>, "list")
StrListCases == Flat([ti \in 1..2 |-> LET S == Tail(AtomSeqs(StrAtoms, IF Big THEN 3 ELSE 2)) IN
                   [i \in 1..Len(S) |-> StrListCase(<<"strings", "ptr:strings">>[ti], S[i])]])

(* ------------------------------------------------------------------ ByteSize *)
(* a Kubernetes resource quantity measured in bytes; GetBytes returns the number of bytes in the quantity *)
BN(text, num, den) == [text |-> text, num |-> num, den |-> den]
BNums == << BN("1", 1, 1), BN("2", 2, 1), BN("100", 100, 1), BN("1.5", 3, 2), BN("0.5", 1, 2), BN("0", 0, 1) >>
BS(text, mult) == [text |-> text, mult |-> mult]
BSufs == << BS("", 1), BS("Ki", 1024), BS("Mi", 1048576), BS("Gi", 1073741824), BS("k", 1000), BS("M", 1000000), BS("G", 1000000000) >>
ByteCase(ty, n, s) ==
  LET text == n.text \o s.text IN
  IF s.mult % n.den # 0 THEN Eith("metadata", ty, text, "fraction of a byte")
  ELSE Val("metadata", ty, text, ToString((s.mult \div n.den) * n.num),
           IF n.den # 1 THEN "fractional number with a unit, whole number of bytes" ELSE IF s.text = "" THEN "plain number" ELSE "number with a unit")
ByteOK(n, s) == n.num <= 1 \/ s.mult <= 1048576 \/ n.den = 2 \/ (n.num = 2 /\ s.mult = 1000000000)          \* keep the product below 2^31
ByteLits(ty) ==
  << Val("metadata", ty, "2Gi", "2147483648", "number with a unit"), Val("metadata", ty, "100Gi", "107374182400", "number with a unit"),
     Val("metadata", ty, "1Ti", "1099511627776", "number with a unit"), Val("metadata", ty, "1Ei", "1152921504606846976", "large value that fits an int64"),
     Val("metadata", ty, "7Ei", "8070450532247928832", "large value that fits an int64"),
     Val("metadata", ty, "9223372036854775807", "9223372036854775807", "large value that fits an int64"),
     Val("metadata", ty, "1e3", "1000", "exponent notation"),
     Eith("metadata", ty, "8Ei", "more bytes than an int64 holds"), Eith("metadata", ty, "10Ei", "more bytes than an int64 holds"),   \* the k8s parser caps at MaxInt64
     Eith("metadata", ty, "9223372036854775808", "more bytes than an int64 holds"),
     Err("metadata", ty, "abc", "not a quantity"), Err("metadata", ty, "", "not a quantity"), Err("metadata", ty, "1KiB", "not a quantity"),
     Err("metadata", ty, "1kb", "not a quantity"), Err("metadata", ty, "1 Ki", "not a quantity"),
     Eith("metadata", ty, "1K", "upper-case K"), Eith("metadata", ty, " 1Ki", "quantity with surrounding space"),
     Eith("metadata", ty, "-1Ki", "negative quantity"), Eith("metadata", ty, "100m", "fraction of a byte") >>
ByteCasesOf(ty) == SelectSeq(X2(BNums, BSufs, LAMBDA n, s : IF ByteOK(n, s) THEN ByteCase(ty, n, s) ELSE Eith("metadata", ty, "", "-")), LAMBDA bc : bc.klass # "-")
                   \o ByteLits(ty)
ByteCases == ByteCasesOf("bytesize") \o ByteCasesOf("ptr:bytesize")

(* ------------------------------------------------- config: other kinds of input *)
CN(ty, src, text, cls, v, klass) == VC("config", ty, src, text, cls, IF cls = "val" THEN <<<<v>>>> ELSE <<>>, klass)
CfgNative ==
  << CN("int8", "native-int", "5", "val", "5", "typed value in range"), CN("int64", "native-int", "-1234", "val", "-1234", "typed value in range"),
     CN("int", "native-int", "-9999", "val", "-9999", "typed value in range"), CN("uint16", "native-int", "9012", "val", "9012", "typed value in range"),
     CN("uint8", "native-int", "255", "val", "255", "typed value in range"), CN("float64", "native-float", "1234.5", "val", "1234.5", "typed value in range"),
     CN("float32", "native-float", "6789.5", "val", "6789.5", "typed value in range"), CN("bool", "native-bool", "true", "val", "true", "typed value in range"),
     CN("string", "native-int", "1234", "val", "1234", "number for a string field"), CN("string", "native-bool", "true", "val", "true", "boolean for a string field"),
     CN("ptr:int", "native-int", "-9999", "val", "-9999", "typed value in range"), CN("ptr:string", "native-string", "1234", "val", "1234", "typed value in range"),
     CN("int8", "ptr-int", "5", "val", "5", "pointer to a typed value"), CN("ptr:int", "ptr-int", "-9999", "val", "-9999", "pointer to a typed value"),
     CN("int8", "ptr-string", "5", "val", "5", "pointer to a string"), CN("uint8", "ptr-string", "256", "err", "", "pointer to a string: outside the range of the type"),
     CN("bool", "ptr-string", "true", "val", "true", "pointer to a string"), CN("string", "ptr-string", "1234", "val", "1234", "pointer to a string"),
     CN("int8", "ptrptr-string", "5", "val", "5", "pointer to a pointer to a string"),
     CN("uint8", "native-int", "-1", "err", "", "negative typed value for an unsigned type"),
     CN("int8", "native-int", "300", "either", "", "typed value outside the range of the type"),
     CN("uint8", "native-int", "256", "either", "", "typed value outside the range of the type"),
     CN("int8", "native-float", "1.5", "either", "", "typed fraction for an integer"), CN("bool", "native-int", "1", "either", "", "number for a boolean"),
     CN("int8", "native-bool", "true", "either", "", "boolean for a number"),
     CN("int", "nil-ptr-int", "", "either", "", "nil pointer"), CN("ptr:int", "nil-ptr-int", "", "either", "", "nil pointer"),
     CN("string", "nil-ptr-string", "", "either", "", "nil pointer"), CN("int8", "nil-ptrptr-string", "", "either", "", "pointer to a nil pointer"),
     CN("int", "nil", "", "either", "", "untyped nil") >>
(* StringDecoder fields (test type Decoded: "unlimited" = -1, else Atoi), time.Time, nested structs *)
CfgOther ==
  << Val("config", "decoded", "unlimited", "-1", "StringDecoder"), Val("config", "decoded", "42", "42", "StringDecoder"),
     Err("config", "decoded", "badval", "StringDecoder rejects the text"), Err("config", "decoded", "", "StringDecoder rejects the text"),
     Val("config", "ptr:decoded", "unlimited", "-1", "StringDecoder"), Val("config", "ptr:decoded", "42", "42", "StringDecoder"),
     Err("config", "ptr:decoded", "badval", "StringDecoder rejects the text"),
     Eith("config", "vmap", "x", "StringDecoder implemented on a map type with a value receiver"),
     Val("config", "time", "2021-01-02T15:04:05-07:00", "2021-01-02T22:04:05Z", "RFC 3339 time"),
     Val("config", "time", "2021-01-02T15:04:05.123456789Z", "2021-01-02T15:04:05.123456789Z", "RFC 3339 time"),
     Val("config", "ptr:time", "2021-01-02T15:04:05-07:00", "2021-01-02T22:04:05Z", "RFC 3339 time"),
     Err("config", "time", "badval", "not a time"), Err("config", "time", "2021-01-02", "not a time"), Err("config", "time", "", "not a time") >>
Nest(ty, src, text, cls, v, klass) == VC("config", ty, src, text, cls, IF cls = "val" THEN <<<<v>>>> ELSE <<>>, klass)
CfgNested ==
  Flat([ki \in 1..3 |-> LET src == <<"nested-map-string-any", "nested-map-string-string", "nested-map-any-any">>[ki] IN
    << Nest("nested:int64", src, "1234", "val", "1234", "nested struct"), Nest("nested:string", src, "5678", "val", "5678", "nested struct"),
       Nest("nested:uint8", src, "255", "val", "255", "nested struct"), Nest("nested:uint8", src, "256", "err", "", "nested struct: outside the range of the type"),
       Nest("nested:int64", src, "abc", "err", "", "nested struct: not a number"),
       Nest("nestedptr:int64", src, "-12", "val", "-12", "pointer to a nested struct"), Nest("nestedptr:uint8", src, "-1", "err", "", "pointer to a nested struct: negative for unsigned") >>])

(* ---------------------------------------------------- key not given: unchanged *)
MdTypes == IntTypes \o <<"float32", "float64", "string", "bool", "ptr:bool", "duration", "mdduration", "ptr:duration", "durations", "ptr:durations",
                         "strings", "ptr:strings", "bytesize", "ptr:bytesize", "ptr:int", "ptr:string">>
CfgTypes == IntTypes \o <<"float32", "float64", "string", "bool", "ptr:bool", "ptr:int", "ptr:string", "decoded", "ptr:decoded", "time", "ptr:time", "nested:int64", "nestedptr:int64">>
Elem(ty) == CASE ty \in {"ptr:bool"} -> "bool" [] ty = "ptr:duration" -> "duration" [] ty = "ptr:durations" -> "durations" [] ty = "ptr:strings" -> "strings"
              [] ty = "ptr:bytesize" -> "bytesize" [] ty = "ptr:int" -> "int" [] ty = "ptr:string" -> "string" [] ty = "ptr:decoded" -> "decoded"
              [] ty = "ptr:time" -> "time" [] ty = "nestedptr:int64" -> "nested:int64" [] OTHER -> ty
IsPtr(ty) == Elem(ty) # ty
ZeroOf(t) == CASE t \in Elems(IntTypes) \cup {"float32", "float64", "duration", "mdduration", "bytesize", "decoded", "nested:int64"} -> <<"0">>
               [] t = "string" -> <<"">> [] t = "bool" -> <<"false">> [] t \in {"durations", "strings"} -> Nil [] t = "time" -> <<"0001-01-01T00:00:00Z">>
PresetOf(t) == CASE t \in Elems(IntTypes) \cup {"decoded", "nested:int64"} -> <<"7">> [] t \in {"float32", "float64"} -> <<"2.5">>
                 [] t \in {"duration", "mdduration"} -> <<"3600000000000">> [] t = "bytesize" -> <<"4096">>
                 [] t = "string" -> <<"old">> [] t = "bool" -> <<"true">> [] t = "durations" -> <<"1000000000">> [] t = "strings" -> <<"old">>
                 [] t = "time" -> <<"2000-01-01T00:00:00Z">>
BaseCanon(ty, base) == IF base = "zero" THEN (IF IsPtr(ty) THEN Nil ELSE ZeroOf(ty)) ELSE PresetOf(Elem(ty))
AbsentCases(pkg, types) == Flat([ti \in 1..Len(types) |-> [bi \in 1..2 |->
   [VC(pkg, types[ti], "absent", "", "unchanged", <<BaseCanon(types[ti], <<"zero", "preset">>[bi])>>, "key not given") EXCEPT !.base = <<"zero", "preset">>[bi]]]])

(* ------------------------------------------------------------------ the table *)
(* given values alternate between a zero and a preset struct: a given value replaces the previous one *)
WithBases(cases) == [i \in 1..Len(cases) |-> IF cases[i].src = "absent" THEN cases[i] ELSE [cases[i] EXCEPT !.base = IF i % 2 = 0 THEN "preset" ELSE "zero"]]
MdValCases == WithBases(IntCases("metadata") \o IntSpecialCases("metadata") \o FloatCases("metadata") \o StringCases("metadata") \o MdBoolCases
                        \o DurCases \o DurListCases \o StrListCases \o ByteCases \o AbsentCases("metadata", MdTypes))
CfgValCases == WithBases(IntCases("config") \o IntSpecialCases("config") \o FloatCases("config") \o StringCases("config") \o CfgBoolCases
                         \o CfgNative \o CfgOther \o CfgNested \o AbsentCases("config", CfgTypes))
ValCases == MdValCases \o CfgValCases

(* the part of a finding key that names the target: pointer and width variants of one kind share it *)
KindOf(ty) == LET t == Elem(ty) IN
  CASE t \in {"int8", "int16", "int32", "int64", "int"} -> "signed integer" [] t \in {"uint8", "uint16", "uint32", "uint64", "uint"} -> "unsigned integer"
    [] t \in {"float32", "float64"} -> "float" [] t \in {"duration", "mdduration"} -> "duration" [] t = "durations" -> "duration list"
    [] t = "strings" -> "string list" [] t = "bytesize" -> "ByteSize" [] t = "decoded" -> "StringDecoder type"
    [] t \in {"nested:int64", "nested:string", "nested:uint8", "nestedptr:string", "nestedptr:uint8"} -> "nested struct field" [] OTHER -> t
ValWhat(cs) == cs.pkg \o " " \o KindOf(cs.ty) \o ": " \o cs.klass
(* obs.val = [v |-> canonical value of the field, others |-> every other field still has its previous value] *)
ValJudge(cs, o) ==
  IF Abnormal(o) THEN "decoding " \o AbnormalWhy(o) \o ": " \o ValWhat(cs)
  ELSE IF cs.cls = "either" THEN ""
  ELSE IF cs.cls = "err" THEN (IF o.cls = "ok" THEN "invalid value accepted without error: " \o ValWhat(cs) ELSE "")
  ELSE IF o.cls = "err" THEN "valid value rejected: " \o ValWhat(cs)
  ELSE IF \A i \in 1..Len(cs.alts) : o.val.v # cs.alts[i]
       THEN (IF cs.cls = "unchanged" THEN "a field whose key is not given changed: " ELSE "wrong value decoded: ") \o ValWhat(cs)
  ELSE IF ~o.val.others THEN "another field changed: " \o ValWhat(cs)
  ELSE ""
=============================================================================
