------------------------------ MODULE MDModel ------------------------------
(* X09 - enumeration of the case table.  TLC visits every case, checks that  *)
(* the answer of a decoder that follows the documentation satisfies the      *)
(* monitor (AsFound = FALSE), that the answers of the code as found do NOT   *)
(* (AsFound = TRUE: the deviations observed on the unchanged tree, see       *)
(* FoundAnswer), and writes cases.ndjson for the replay on the real code.    *)
EXTENDS MDContract, Json

CONSTANT AsFound
VARIABLES id, c, pc
vars == <<id, c, pc>>

Ok(val) == [ev |-> "obs", cls |-> "ok", val |-> val, msg |-> ""]
Er == [ev |-> "obs", cls |-> "err", val |-> "none", msg |-> "error"]
Pn == [ev |-> "obs", cls |-> "panic", val |-> "none", msg |-> "panic"]

(* the answer of a conforming implementation *)
KeyAnswer(cs) == Ok([i \in {KeyFields[j].go : j \in 1..Len(KeyFields)} |-> IF i = cs.go THEN KeyExp(cs) ELSE BaseVal(cs.base)])
GetAnswer(cs) == IF Hits(cs) = {} THEN Ok([found |-> FALSE, idx |-> 0, val |-> ""])
                 ELSE Ok([found |-> TRUE, idx |-> MinOf(Hits(cs)), val |-> ValIn(cs.props, cs.keys[MinOf(Hits(cs))].base)])
ValAnswer(cs) == IF cs.cls \in {"val", "unchanged"} THEN Ok([v |-> cs.alts[1], others |-> TRUE]) ELSE Er
IsoAnswer(cs) == IF cs.neg /\ Whole(cs) THEN Ok([iso |-> "-" \o IsoExp(cs), perr |-> TRUE, years |-> 0, months |-> 0, days |-> 0, secs |-> 0, rep |-> -1])
                 ELSE Ok([iso |-> IsoExp(cs), perr |-> FALSE, years |-> 0, months |-> 0, days |-> cs.d, secs |-> cs.h * 3600 + cs.m * 60 + cs.s, rep |-> -1])
PrefixAnswer(cs) == LET ix == SelectSeq([i \in 1..Len(cs.keys) |-> i], LAMBDA i : i \in Matching(cs) /\ \A j \in Matching(cs) : j < i => OutKey(cs.keys[j].chars, cs.prefix) # OutKey(cs.keys[i].chars, cs.prefix))
                    IN Ok([kind |-> IF cs.kind = "mss" THEN "mss" ELSE "msi", ents |-> [j \in 1..Len(ix) |-> [key |-> OutKey(cs.keys[ix[j]].chars, cs.prefix), val |-> cs.keys[ix[j]].val]]])
Answer(cs) ==
  CASE cs.fam = "key" -> KeyAnswer(cs)
    [] cs.fam = "keydup" -> Er
    [] cs.fam = "target" -> Er
    [] cs.fam = "getprop" -> GetAnswer(cs)
    [] cs.fam = "val" -> ValAnswer(cs)
    [] cs.fam = "iso" -> IsoAnswer(cs)
    [] cs.fam = "jsonround" -> Ok([quoted |-> TRUE, same |-> TRUE])
    [] cs.fam = "jsonin" -> IF cs.cls = "val" THEN Ok([ns |-> cs.ns]) ELSE Er
    [] cs.fam = "norm" -> IF BadKey(cs.tree) THEN Er ELSE Ok([tree |-> Norm(cs.tree)])
    [] cs.fam = "prefix" -> PrefixAnswer(cs)
    [] cs.fam = "prefixtree" -> IF cs.cls = "err" THEN Er ELSE Ok([tree |-> cs.want])

(* the deviations of the code as found (each is a finding of the check on the unchanged tree) *)
DevSeconds(cs) == cs.fam = "val" /\ cs.klass \in {"plain seconds beyond time.Duration", "element: plain seconds beyond time.Duration"}
DevBytes(cs)   == cs.fam = "val" /\ cs.klass \in {"fractional number with a unit, whole number of bytes", "large value that fits an int64"}
DevPtrStr(cs)  == cs.fam = "val" /\ cs.pkg = "config" /\ cs.ty = "string" /\ cs.src = "ptr-string"
DevVMap(cs)    == cs.fam = "val" /\ cs.ty = "vmap"
DevTarget(cs)  == cs.fam = "target" /\ cs.what \in {"result-nil", "result-squash-pointer-embedded"}
DevAlias(cs)   == cs.fam = "key" /\ cs.go = "UAl" /\ ~Bit(cs.mask, 1) /\ cs.mask > 0
DevIso(cs)     == cs.fam = "iso" /\ cs.neg /\ Whole(cs)
Deviates(cs) == DevPtrStr(cs) \/ DevSeconds(cs) \/ DevBytes(cs) \/ DevVMap(cs) \/ DevTarget(cs) \/ DevAlias(cs) \/ DevIso(cs)
FoundAnswer(cs) ==
  IF DevSeconds(cs) THEN Ok([v |-> <<"-9223372036709551616">>, others |-> TRUE])       \* seconds * 1e9 wraps around
  ELSE IF DevPtrStr(cs) THEN Ok([v |-> <<"0xc000012345">>, others |-> TRUE])               \* the pointer is formatted with %v
  ELSE IF DevBytes(cs) THEN Er                                                          \* GetBytes refuses the inf.Dec form
  ELSE IF DevVMap(cs) \/ DevTarget(cs) THEN Pn
  ELSE IF DevAlias(cs) THEN Ok([KeyAnswer(cs).val EXCEPT !["UAl"] = BaseVal(cs.base)])  \* aliases of an unexported embedded type are ignored
  ELSE IF DevIso(cs) THEN Ok([iso |-> "PT", perr |-> FALSE, years |-> 0, months |-> 0, days |-> 0, secs |-> 0, rep |-> -1])
  ELSE Answer(cs)

Init == id \in 1..NumCases /\ c = MReset([ev |-> "reset", id |-> id, fam |-> CaseSeq[id].fam, fed |-> Fed(CaseSeq[id])]) /\ pc = "call"
Call == /\ pc = "call"
        /\ c' = MNext(MNext(c, IF AsFound THEN FoundAnswer(CaseSeq[id]) ELSE Answer(CaseSeq[id])), [ev |-> "end"])
        /\ pc' = "done"
        /\ UNCHANGED id
Spec == Init /\ [][Call]_vars
NotBad == ~IsBad(c)
(* with AsFound: exactly the deviating cases are rejected *)
FoundRejected == pc = "done" => (IsBad(c) <=> Deviates(CaseSeq[id]))

(* sanity of the table *)
ASSUME \A t \in Elems(IntTypes) : Succ(PosMax(t)) # PosMax(t) /\ MagLE(PosMax(t), Succ(PosMax(t))) /\ ~MagLE(Succ(PosMax(t)), PosMax(t))
ASSUME Succ(<<1, 2, 7>>) = <<1, 2, 8>> /\ Succ(<<9, 9>>) = <<1, 0, 0>> /\ Succ(Max63) = <<9, 2, 2, 3, 3, 7, 2, 0, 3, 6, 8, 5, 4, 7, 7, 5, 8, 0, 8>>
ASSUME \A i \in 1..Len(ValCases) : ValCases[i].cls \in {"val", "unchanged"} => Len(ValCases[i].alts) >= 1
ASSUME PrintT(<<"MD-CASES", NumCases, "key", Len(KeyCases), "getprop", Len(GetCases), "val", Len(ValCases), "iso", Len(IsoCases), "norm", Len(NormCases), "prefix", Len(PrefixCases)>>)
ASSUME ndJsonSerialize("cases.ndjson", [i \in 1..NumCases |-> [id |-> i] @@ CaseSeq[i]])
=============================================================================
