------------------------------- MODULE MDBase -------------------------------
(* X09 - helpers shared by the case tables of metadata / config decoding.    *)
(* All tables are SEQUENCES built from literal tuples and index ranges (no   *)
(* sets), so that the numbering of the cases is the same in every TLC run    *)
(* (model check, export, trace validation).                                   *)
EXTENDS Integers, Sequences, FiniteSets, TLC, SequencesExt

CONSTANT Tier          \* "small" (quick tier) | "big" (thorough tier)
Big == Tier = "big"

Flat(ss) == FlattenSeq(ss)
X2(A, B, Op(_, _)) == Flat([i \in 1..Len(A) |-> [j \in 1..Len(B) |-> Op(A[i], B[j])]])
X3(A, B, C, Op(_, _, _)) == Flat([i \in 1..Len(A) |-> Flat([j \in 1..Len(B) |-> [k \in 1..Len(C) |-> Op(A[i], B[j], C[k])]])])
Elems(s) == {s[i] : i \in 1..Len(s)}
MinOf(S) == CHOOSE x \in S : \A y \in S : x <= y

RECURSIVE Join(_)
Join(cs) == IF cs = <<>> THEN "" ELSE Head(cs) \o Join(Tail(cs))

(* ---- decimal numbers as digit sequences (TLC integers are 32 bit) ---- *)
RECURSIVE DStr(_)
DStr(ds) == IF ds = <<>> THEN "" ELSE ToString(Head(ds)) \o DStr(Tail(ds))
RECURSIVE LexLE(_, _)
LexLE(a, b) == IF a = <<>> THEN TRUE
               ELSE IF a[1] < b[1] THEN TRUE
               ELSE IF a[1] > b[1] THEN FALSE
               ELSE LexLE(Tail(a), Tail(b))
MagLE(a, b) == Len(a) < Len(b) \/ (Len(a) = Len(b) /\ LexLE(a, b))     \* a <= b, no leading zeros
RECURSIVE Succ(_)
Succ(ds) == IF ds = <<>> THEN <<1>>
            ELSE IF ds[Len(ds)] < 9 THEN SubSeq(ds, 1, Len(ds) - 1) \o <<ds[Len(ds)] + 1>>
            ELSE Succ(SubSeq(ds, 1, Len(ds) - 1)) \o <<0>>

(* ---- outcome of one real call, as recorded by the harness ---- *)
(* obs = [cls |-> "ok" | "err" | "panic" | "crash" | "hang", val |-> ..., msg |-> ...] *)
Abnormal(o) == o.cls \in {"panic", "crash", "hang"}
AbnormalWhy(o) == CASE o.cls = "panic" -> "panicked" [] o.cls = "crash" -> "crashed the process" [] o.cls = "hang" -> "did not return" [] OTHER -> ""
=============================================================================
