------------------------------ MODULE TimeLang ------------------------------
(* X07 - the language accepted by dapr/kit time.ParseISO8601Duration,        *)
(* ParseDuration and ParseTime, and the value every accepted string denotes. *)
(* This is a DECLARATIVE definition (grammar predicates over the sequence of *)
(* lexemes + arithmetic on unbounded naturals), derived from the doc         *)
(* comments and the tests of /repo/time, ISO 8601 (durations, repetition     *)
(* prefix), the Go documentation of time.ParseDuration / Time.AddDate and    *)
(* RFC 3339.  It is not a transliteration of the scanner in time.go.         *)
(*                                                                           *)
(* A string is a sequence of one-character strings, e.g. <<"P","1","D">>.    *)
(* Naturals of arbitrary size are sequences of decimal digits (most          *)
(* significant first, no leading zeros, zero = <<>>): TLC integers are 32    *)
(* bit, the interesting boundaries are 2^63-1 (int, time.Duration).          *)
(*                                                                           *)
(* A verdict is "accept" (the call must succeed with exactly this value),    *)
(* "reject" (the call must fail) or "either" (the documents are silent or    *)
(* deliberately lenient: the call may fail; if it succeeds and the verdict   *)
(* is `valued`, the value is prescribed).                                    *)
EXTENDS Integers, Sequences, FiniteSets, SequencesExt, TLC

(* ------------------------------------------------------------ characters *)
DigitChars == <<"0", "1", "2", "3", "4", "5", "6", "7", "8", "9">>
DigitSet == {DigitChars[i] : i \in 1..10}
DigitVal == [c \in DigitSet |-> CHOOSE k \in 0..9 : DigitChars[k + 1] = c]
IsDigit(c) == c \in DigitSet

Max2(a, b) == IF a >= b THEN a ELSE b
Min2(a, b) == IF a <= b THEN a ELSE b
MinOf(S) == CHOOSE x \in S : \A y \in S : x <= y
Str(s) == FoldLeft(LAMBDA acc, ch : acc \o ch, "", s)             \* the text of a character sequence
Without(s, C) == SelectSeq(s, LAMBDA ch : ch \notin C)

(* ------------------------------------------------------------ lexemes *)
(* Lexemes are the maximal runs of characters of one class; characters of   *)
(* class "o" always stand alone.  [k |-> class, t |-> characters]            *)
Lex(s, Cls(_)) ==
  LET n == Len(s)
      starts == {i \in 1..n : i = 1 \/ Cls(s[i]) = "o" \/ Cls(s[i]) # Cls(s[i - 1])}
      ss == SetToSortSeq(starts, <)
  IN [j \in 1..Len(ss) |-> [k |-> Cls(s[ss[j]]),
                            t |-> SubSeq(s, ss[j], IF j = Len(ss) THEN n ELSE ss[j + 1] - 1)]]
IsC(x, ch) == x.k = "o" /\ x.t[1] = ch
IsNum(x) == x.k = "d"

(* ------------------------------------------------------------ naturals *)
Norm(a) == IF \A i \in 1..Len(a) : a[i] = 0 THEN <<>>
           ELSE LET k == CHOOSE k \in 1..Len(a) : a[k] # 0 /\ \A j \in 1..k - 1 : a[j] = 0
                IN SubSeq(a, k, Len(a))
NatOfChars(t) == Norm([i \in 1..Len(t) |-> DigitVal[t[i]]])
NumOf(x) == NatOfChars(x.t)
Dig(a, p) == IF p <= Len(a) THEN a[Len(a) + 1 - p] ELSE 0        \* p-th digit from the right
Leq(a, b) == \/ Len(a) < Len(b)
             \/ /\ Len(a) = Len(b)
                /\ \/ a = b
                   \/ LET k == CHOOSE k \in 1..Len(a) : a[k] # b[k] /\ \A j \in 1..k - 1 : a[j] = b[j] IN a[k] < b[k]
BigAdd(a, b) ==
  LET n == Max2(Len(a), Len(b)) + 1
      carry[p \in 0..n] == IF p = 0 THEN 0 ELSE (Dig(a, p) + Dig(b, p) + carry[p - 1]) \div 10
  IN Norm([q \in 1..n |-> LET p == n + 1 - q IN (Dig(a, p) + Dig(b, p) + carry[p - 1]) % 10])
BigMulS(a, k) ==                                                  \* k a small positive integer (<= 3600)
  LET n == Len(a) + 5
      carry[p \in 0..n] == IF p = 0 THEN 0 ELSE (Dig(a, p) * k + carry[p - 1]) \div 10
  IN Norm([q \in 1..n |-> LET p == n + 1 - q IN (Dig(a, p) * k + carry[p - 1]) % 10])
(* short cuts through TLC's native integers when everything is small (same results: see the ASSUMEs) *)
ToInt(a) == FoldLeft(LAMBDA acc, d : acc * 10 + d, 0, a)          \* only for Len(a) <= 9
FromInt(x) == IF x = 0 THEN <<>>
              ELSE LET n == CHOOSE n \in 1..10 : 10 ^ (n - 1) <= x /\ (n = 10 \/ x < 10 ^ n)
                   IN [q \in 1..n |-> (x \div 10 ^ (n - q)) % 10]
Add(a, b) == IF a = <<>> THEN b ELSE IF b = <<>> THEN a
             ELSE IF Len(a) <= 8 /\ Len(b) <= 8 THEN FromInt(ToInt(a) + ToInt(b)) ELSE BigAdd(a, b)
MulS(a, k) == IF a = <<>> \/ k = 1 THEN a
              ELSE IF Len(a) <= 5 THEN FromInt(ToInt(a) * k) ELSE BigMulS(a, k)
Shift(a, z) == IF a = <<>> THEN a ELSE a \o [i \in 1..z |-> 0]    \* a * 10^z
NatStr(a) == IF a = <<>> THEN "0" ELSE FoldLeft(LAMBDA acc, d : acc \o DigitChars[d + 1], "", a)
Sum(q) == FoldLeft(Add, <<>>, q)
MaxInt64 == <<9, 2, 2, 3, 3, 7, 2, 0, 3, 6, 8, 5, 4, 7, 7, 5, 8, 0, 7>>
FitsInt(a) == Leq(a, MaxInt64)
ASSUME Add(MaxInt64, <<1>>) = <<9, 2, 2, 3, 3, 7, 2, 0, 3, 6, 8, 5, 4, 7, 7, 5, 8, 0, 8>>
ASSUME MulS(<<1, 3, 1, 7, 6, 2, 4, 5, 7, 6, 6, 9, 3, 5, 3, 9, 4, 0, 1>>, 7) = MaxInt64
ASSUME NatStr(MulS(<<2, 5, 6, 2, 0, 4, 7>>, 3600)) = "9223369200" /\ NatStr(Sum(<< <<9, 9>>, <<>>, <<1>> >>)) = "100"
ASSUME \A x \in {<<>>, <<7>>, <<9, 9>>, <<9, 9, 9, 9, 9>>, <<1, 0, 0, 0, 0>>} :
          /\ \A k \in {7, 60, 3600} : BigMulS(x, k) = FromInt(ToInt(x) * k)
          /\ \A z \in {<<>>, <<1>>, <<9, 9, 9, 9, 9, 9, 9, 9>>} : BigAdd(x, z) = FromInt(ToInt(x) + ToInt(z))
ASSUME Leq(<<9, 9>>, <<1, 0, 0>>) /\ ~Leq(<<1, 0, 0>>, <<9, 9>>) /\ Leq(<<1, 2>>, <<1, 3>>) /\ ~Leq(<<1, 3>>, <<1, 2>>) /\ Leq(<<>>, <<>>)

(* ------------------------------------------------------------ verdicts *)
Rej(cls) == [v |-> "reject", cls |-> cls]
(* value of a duration: years, months, days, repetition (decimal texts;     *)
(* repetition "-1" = none), the time.Duration in nanoseconds as sign + text, *)
(* and, when every part is small, native integers for calendar arithmetic.  *)
Val(y, mo, d, ns, neg, rep) ==
  [y |-> NatStr(y), mo |-> NatStr(mo), d |-> NatStr(d), ns |-> NatStr(ns), neg |-> neg /\ ns # <<>>, rep |-> rep,
   small |-> Len(y) <= 4 /\ Len(mo) <= 5 /\ Len(d) <= 6 /\ Len(ns) <= 17,
   by |-> y, bmo |-> mo, bd |-> d, bns |-> ns]
Acc(v, cls, valued, val) == [v |-> v, cls |-> cls, valued |-> valued, val |-> val]
ZeroVal(rep) == Val(<<>>, <<>>, <<>>, <<>>, FALSE, rep)

(* ------------------------------------------------------------ ISO 8601 durations *)
(*   [ "R" n "/" ]  "P" [nY] [nM] [nW] [nD] [ "T" [nH] [nM] [nS] ]           *)
(* - at least one component; "T" only with at least one time component;      *)
(* - every component is  <digits><designator>; a designator at most once;    *)
(*   Y M W D only before "T", H M S only after it ("M" = months / minutes);  *)
(* - designators in the order above: accepted.  Other orders: the tests say  *)
(*   "technically invalid because it's out of order, but we'll accept        *)
(*   anyways" - either; if accepted, the value is the one defined here;      *)
(* - days = 7 * weeks + days; duration = 3600 H + 60 M + S seconds;          *)
(* - years, months, days, the repetition count must fit an int, the duration *)
(*   a time.Duration (2^63-1 ns): otherwise there is no correct result and   *)
(*   the string must be rejected;                                            *)
(* - "R<n>" and "R<n>/" alone are accepted (tests: "repetition only");       *)
(*   "R/..." (unbounded repetition in ISO 8601, not mentioned by kit): either;*)
(* - decimal fractions (ISO 8601 allows one in the last component; kit does  *)
(*   not mention them): either, value not prescribed;                        *)
(* - signs, blanks, lower-case or unknown letters: rejected.                 *)
IsoCls(c) == IF IsDigit(c) THEN "d" ELSE "o"
DateRank(c) == CASE c = "Y" -> 1 [] c = "M" -> 2 [] c = "W" -> 3 [] c = "D" -> 4 [] OTHER -> 0
TimeRank(c) == CASE c = "H" -> 1 [] c = "M" -> 2 [] c = "S" -> 3 [] OTHER -> 0

PairsOver(sec, Rank(_)) ==
  /\ Len(sec) % 2 = 0
  /\ \A i \in 1..Len(sec) : IF i % 2 = 1 THEN IsNum(sec[i]) ELSE (sec[i].k = "o" /\ Rank(sec[i].t[1]) > 0)
Desigs(sec) == [j \in 1..Len(sec) \div 2 |-> sec[2 * j].t[1]]
Distinct(q) == \A i, j \in 1..Len(q) : i < j => q[i] # q[j]
Ordered(q, Rank(_)) == \A i, j \in 1..Len(q) : i < j => Rank(q[i]) < Rank(q[j])
(* the number written in front of designator ch (zero when the designator is absent) *)
Comp(sec, ch) == LET js == {j \in 1..Len(sec) \div 2 : sec[2 * j].t[1] = ch}
                 IN IF js = {} THEN <<>> ELSE NumOf(sec[2 * (CHOOSE j \in js : TRUE) - 1])

DurV(D, rep) ==      \* D: lexemes of the duration part (from "P"), rep: text of the repetition count
  LET n == Len(D)
      ts == {i \in 1..n : IsC(D[i], "T")}
      t == IF ts = {} THEN n + 1 ELSE MinOf(ts)
      date == SubSeq(D, 2, t - 1)
      time == SubSeq(D, t + 1, n)
  IN
  IF n = 0 \/ ~IsC(D[1], "P") THEN Rej("no-P")
  ELSE IF Cardinality(ts) > 1 THEN Rej("repeated-T")
  ELSE IF ~PairsOver(date, DateRank) \/ ~PairsOver(time, TimeRank) THEN Rej("malformed-component")
  ELSE IF Len(date) + Len(time) = 0 THEN Rej("no-component")
  ELSE IF ts # {} /\ time = <<>> THEN Rej("T-without-time-component")
  ELSE IF ~Distinct(Desigs(date)) \/ ~Distinct(Desigs(time)) THEN Rej("repeated-designator")
  ELSE
    LET y == Comp(date, "Y")
        mo == Comp(date, "M")
        d == Add(MulS(Comp(date, "W"), 7), Comp(date, "D"))
        secs == Sum(<<MulS(Comp(time, "H"), 3600), MulS(Comp(time, "M"), 60), Comp(time, "S")>>)
        ns == Shift(secs, 9)
        inOrder == Ordered(Desigs(date), DateRank) /\ Ordered(Desigs(time), TimeRank)
    IN IF ~FitsInt(y) \/ ~FitsInt(mo) \/ ~FitsInt(d) THEN Rej("int-overflow")
       ELSE IF ~FitsInt(ns) THEN Rej("duration-overflow")
       ELSE Acc(IF inOrder THEN "accept" ELSE "either", IF inOrder THEN "in-order" ELSE "out-of-order", TRUE,
                Val(y, mo, d, ns, FALSE, rep))

IsoBase(s) ==
  LET L == Lex(s, IsoCls)
      n == Len(L)
  IN
  IF n = 0 THEN Rej("empty")
  ELSE IF ~IsC(L[1], "R") THEN DurV(L, "-1")
  ELSE IF n >= 2 /\ IsNum(L[2]) /\ (n = 2 \/ IsC(L[3], "/")) THEN
       LET rep == NumOf(L[2])
           rest == SubSeq(L, 4, n)
       IN IF ~FitsInt(rep) THEN Rej("repetition-overflow")
          ELSE IF rest = <<>> THEN Acc("accept", "repetition-only", TRUE, ZeroVal(NatStr(rep)))
          ELSE DurV(rest, NatStr(rep))
  ELSE IF n >= 2 /\ IsC(L[2], "/") THEN
       LET rest == SubSeq(L, 3, n)
           dv == IF rest = <<>> THEN Acc("either", "unbounded-repetition", FALSE, ZeroVal("-1")) ELSE DurV(rest, "-1")
       IN IF dv.v = "reject" THEN dv ELSE Acc("either", "unbounded-repetition", FALSE, dv.val)
  ELSE Rej("bad-repetition")

IsoV(s) ==
  IF \E i \in 1..Len(s) : s[i] = "."
  THEN LET b == IsoBase(Without(s, {"."}))
       IN IF b.v = "reject" THEN Rej("malformed") ELSE Acc("either", "decimal-fraction", FALSE, b.val)
  ELSE IsoBase(s)

(* Why a rejected string is rejected, for the finding key when the real code *)
(* accepts it: the repair that makes it acceptable (drop the signs; drop the *)
(* characters that cannot occur in a duration; drop a last number that has   *)
(* no designator), else the structural rule the repaired string violates.    *)
DurChars == DigitSet \cup {"T", "Y", "M", "W", "D", "H", "S"}
DropJunk(s) ==
  LET ps == {i \in 1..Len(s) : s[i] = "P"}
  IN IF ps = {} THEN s
     ELSE LET p == MinOf(ps) IN SubSeq(s, 1, p) \o SelectSeq(SubSeq(s, p + 1, Len(s)), LAMBDA ch : ch \in DurChars)
DropLastNumber(s) ==
  LET L == Lex(s, IsoCls) IN IF Len(L) > 0 /\ IsNum(L[Len(L)]) THEN SubSeq(s, 1, Len(s) - Len(L[Len(L)].t)) ELSE s
IsoRejectClass(s) ==
  LET noSign == Without(s, {"-", "+"})
      r1 == DropJunk(Without(s, {"."}))
      r2 == DropLastNumber(r1)
  IN IF noSign # s /\ IsoV(noSign).v # "reject" THEN "signed-number"
     ELSE IF r1 # s /\ IsoBase(r1).v # "reject" THEN "unknown-character"
     ELSE IF r2 # r1 /\ IsoBase(r2).v # "reject" THEN "number-without-designator"
     ELSE IsoBase(r2).cls

(* ------------------------------------------------------------ Go duration syntax *)
(* "A duration string is a possibly signed sequence of decimal numbers, each *)
(* with optional fraction and a unit suffix, such as "300ms", "-1.5h" or      *)
(* "2h45m".  Valid time units are "ns", "us" (or "µs"), "ms", "s", "m", "h"." *)
(* plus the special case "0".  The value is the signed sum; it must fit a     *)
(* time.Duration.  (The micro sign is not part of the enumerated alphabet.)   *)
GoCls(c) == IF IsDigit(c) THEN "d" ELSE IF c \in {".", "-", "+"} THEN "o" ELSE "w"
Unit(w) == CASE w = <<"h">> -> [m |-> 3600, z |-> 9] [] w = <<"m">> -> [m |-> 60, z |-> 9] [] w = <<"s">> -> [m |-> 1, z |-> 9]
             [] w = <<"m", "s">> -> [m |-> 1, z |-> 6] [] w = <<"u", "s">> -> [m |-> 1, z |-> 3] [] w = <<"n", "s">> -> [m |-> 1, z |-> 0]
             [] OTHER -> [m |-> 0, z |-> 0]
(* a term: int unit | int "." unit | int "." frac unit | "." frac unit *)
TermParts(seg) ==
  LET n == Len(seg) IN
  IF n = 2 /\ IsNum(seg[1]) THEN [ok |-> TRUE, int |-> seg[1].t, frac |-> <<>>]
  ELSE IF n = 3 /\ IsNum(seg[1]) /\ IsC(seg[2], ".") THEN [ok |-> TRUE, int |-> seg[1].t, frac |-> <<>>]
  ELSE IF n = 4 /\ IsNum(seg[1]) /\ IsC(seg[2], ".") /\ IsNum(seg[3]) THEN [ok |-> TRUE, int |-> seg[1].t, frac |-> seg[3].t]
  ELSE IF n = 3 /\ IsC(seg[1], ".") /\ IsNum(seg[2]) THEN [ok |-> TRUE, int |-> <<>>, frac |-> seg[2].t]
  ELSE [ok |-> FALSE, int |-> <<>>, frac |-> <<>>]
GoV(s) ==
  LET signed == Len(s) >= 1 /\ s[1] \in {"-", "+"}
      neg == signed /\ s[1] = "-"
      body == IF signed THEN Tail(s) ELSE s
      L == Lex(body, GoCls)
      n == Len(L)
      ws == SetToSortSeq({i \in 1..n : L[i].k = "w"}, <)
      Seg(j) == SubSeq(L, IF j = 1 THEN 1 ELSE ws[j - 1] + 1, ws[j])
      TermOK(j) == TermParts(Seg(j)).ok /\ Unit(L[ws[j]].t).m > 0
      (* value of term j in ns, scaled by 10^|frac|; exact iff the last |frac| digits are zeros *)
      Scaled(j) == LET p == TermParts(Seg(j)) u == Unit(L[ws[j]].t)
                   IN Shift(MulS(NatOfChars(p.int \o p.frac), u.m), u.z)
      FracLen(j) == Len(TermParts(Seg(j)).frac)
      Exact(j) == LET a == Scaled(j) IN \A p \in 1..FracLen(j) : Dig(a, p) = 0
      Term(j) == LET a == Scaled(j) IN SubSeq(a, 1, Max2(0, Len(a) - FracLen(j)))
  IN
  IF body = <<"0">> THEN Acc("accept", "go-zero", TRUE, ZeroVal("-1"))
  ELSE IF n = 0 \/ L[n].k # "w" \/ \E j \in 1..Len(ws) : ~TermOK(j) THEN Rej("not-go-syntax")
  ELSE LET total == Sum([j \in 1..Len(ws) |-> Term(j)])
       IN IF neg /\ total = BigAdd(MaxInt64, <<1>>) THEN Acc("either", "go-min-duration", FALSE, ZeroVal("-1"))   \* -2^63 ns
          ELSE IF ~FitsInt(total) \/ \E j \in 1..Len(ws) : ~FitsInt(NatOfChars(TermParts(Seg(j)).int)) THEN Rej("go-overflow")
          ELSE IF \E j \in 1..Len(ws) : ~Exact(j) THEN Acc("either", "go-inexact-fraction", FALSE, ZeroVal("-1"))
          ELSE Acc("accept", "go-syntax", TRUE, Val(<<>>, <<>>, <<>>, total, neg, "-1"))

(* ------------------------------------------------------------ calendar *)
IsLeap(y) == (y % 4 = 0 /\ y % 100 # 0) \/ y % 400 = 0
MonthLen(y, m) == CASE m \in {1, 3, 5, 7, 8, 10, 12} -> 31 [] m \in {4, 6, 9, 11} -> 30 [] m = 2 -> IF IsLeap(y) THEN 29 ELSE 28
LeapsUpTo(y) == y \div 4 - y \div 100 + y \div 400                 \* leap years among 1..y
DaysBeforeYear(y) == 365 * (y - 2000) + LeapsUpTo(y - 1) - LeapsUpTo(1999)
DaysBeforeMonth(y, m) == FoldLeft(LAMBDA acc, k : acc + MonthLen(y, k), 0, [k \in 1..m - 1 |-> k])
(* day number (2000-01-01 = 0) of "day d of month m of year y"; d may lie    *)
(* outside the month: October 32 is November 1 (Go: Date / AddDate           *)
(* normalisation)                                                            *)
DayNum(y, m, d) == DaysBeforeYear(y) + DaysBeforeMonth(y, m) + d - 1
ASSUME DayNum(2000, 1, 1) = 0 /\ DayNum(2000, 3, 1) = 60 /\ DayNum(2001, 1, 1) = 366 /\ DayNum(1999, 12, 31) = -1
ASSUME DayNum(2024, 2, 31) = DayNum(2024, 3, 2) /\ DayNum(2023, 2, 31) = DayNum(2023, 3, 3) /\ DayNum(2100, 2, 29) = DayNum(2100, 3, 1)
ASSUME DayNum(1970, 1, 1) = -10957

(* an instant: [day, sec, ns] (UTC, normalised).  A wall clock reading:      *)
(* [Y, M, D, h, mi, s, ns, off] with off = seconds east of UTC.              *)
Instant(day, sec, ns) ==
  LET s2 == sec + ns \div 1000000000
  IN [day |-> day + s2 \div 86400, sec |-> s2 % 86400, ns |-> ns % 1000000000]
(* wall + (years, months, days) in the wall clock's calendar, then + sign * (secs, ns) *)
AddTo(w, y, mo, d, sgn, secs, ns) ==
  LET tm == (w.Y + y) * 12 + (w.M - 1) + mo
      day == DayNum(tm \div 12, (tm % 12) + 1, w.D + d)
  IN Instant(day, w.h * 3600 + w.mi * 60 + w.s - w.off + sgn * secs, w.ns + sgn * ns)
InstLeq(a, b) == \/ a.day < b.day
                 \/ a.day = b.day /\ (a.sec < b.sec \/ (a.sec = b.sec /\ a.ns <= b.ns))

(* ------------------------------------------------------------ RFC 3339 *)
(*  YYYY-MM-DDThh:mm:ss[.f+](Z|(+|-)hh:mm), a valid calendar date and time   *)
(*  of day.  Lower-case t/z, second 60 and zone offsets beyond 23:59 are     *)
(*  left open (either).                                                      *)
AllDigits(s, a, b) == b <= Len(s) /\ \A i \in a..b : IsDigit(s[i])
N2(s, i) == DigitVal[s[i]] * 10 + DigitVal[s[i + 1]]
RfcStrict(s) ==
  LET n == Len(s)
      shape == /\ n >= 20
               /\ AllDigits(s, 1, 4) /\ s[5] = "-" /\ AllDigits(s, 6, 7) /\ s[8] = "-" /\ AllDigits(s, 9, 10)
               /\ s[11] \in {"T", "t"}
               /\ AllDigits(s, 12, 13) /\ s[14] = ":" /\ AllDigits(s, 15, 16) /\ s[17] = ":" /\ AllDigits(s, 18, 19)
      fe == IF n >= 21 /\ s[20] = "." /\ IsDigit(s[21])                  \* last position of the fraction (19: none)
            THEN CHOOSE k \in 21..n : AllDigits(s, 21, k) /\ (k = n \/ ~IsDigit(s[k + 1]))
            ELSE 19
      z == SubSeq(s, fe + 1, n)
      zoneZ == Len(z) = 1 /\ z[1] \in {"Z", "z"}
      zoneN == Len(z) = 6 /\ z[1] \in {"+", "-"} /\ AllDigits(z, 2, 3) /\ z[4] = ":" /\ AllDigits(z, 5, 6)
  IN
  IF ~shape \/ ~(zoneZ \/ zoneN) THEN Rej("not-rfc3339")
  ELSE
    LET Y == N2(s, 1) * 100 + N2(s, 3)
        M == N2(s, 6)   D == N2(s, 9)
        h == N2(s, 12)  mi == N2(s, 15)  sc == N2(s, 18)
        zh == IF zoneN THEN N2(z, 2) ELSE 0
        zm == IF zoneN THEN N2(z, 5) ELSE 0
        off == (IF zoneN /\ z[1] = "-" THEN -1 ELSE 1) * (zh * 3600 + zm * 60)
        fr == SubSeq(s, 21, Min2(fe, 29))                                  \* at most nanoseconds
        ns == IF fe = 19 THEN 0 ELSE ToInt([i \in 1..9 |-> IF i <= Len(fr) THEN DigitVal[fr[i]] ELSE 0])
        open == s[11] = "t" \/ (zoneZ /\ z[1] = "z") \/ sc = 60 \/ zh > 23 \/ zm > 59
    IN IF M < 1 \/ M > 12 \/ D < 1 \/ D > MonthLen(Y, Min2(Max2(M, 1), 12)) \/ h > 23 \/ mi > 59 \/ sc > 60 THEN Rej("rfc3339-out-of-range")
       ELSE IF open THEN [v |-> "either", cls |-> "rfc3339-open", valued |-> FALSE, t |-> [day |-> 0, sec |-> 0, ns |-> 0]]
       ELSE [v |-> "accept", cls |-> "rfc3339", valued |-> TRUE, t |-> Instant(DayNum(Y, M, D), h * 3600 + mi * 60 + sc - off, ns)]

(* Forms that Go's time.Parse(time.RFC3339, ..) is known to take although they *)
(* are not RFC 3339 (an hour of one digit, a comma before the fraction):  not   *)
(* the business of dapr/kit - either.                                           *)
RfcNorm(s) ==
  LET s1 == IF Len(s) >= 13 /\ s[11] \in {"T", "t"} /\ IsDigit(s[12]) /\ s[13] = ":"
            THEN SubSeq(s, 1, 11) \o <<"0">> \o SubSeq(s, 12, Len(s)) ELSE s
  IN IF Len(s1) >= 20 /\ s1[20] = "," THEN [s1 EXCEPT ![20] = "."] ELSE s1
LooksRfc(s) == Len(s) >= 10 /\ AllDigits(s, 1, 4) /\ s[5] = "-"
RfcV(s) ==
  LET strict == RfcStrict(s)
  IN IF strict.v # "reject" \/ ~LooksRfc(s) THEN strict
     ELSE LET nm == RfcNorm(s)
          IN IF nm # s /\ RfcStrict(nm).v # "reject"
             THEN [v |-> "either", cls |-> "rfc3339-go-lenient", valued |-> FALSE, t |-> [day |-> 0, sec |-> 0, ns |-> 0]]
             ELSE IF strict.cls = "not-rfc3339" THEN Rej("malformed-rfc3339") ELSE strict

(* ------------------------------------------------------------ the three functions *)
(* ParseDuration: "ISO8601 duration format" first, then "time.Duration string *)
(* format" (years, months, days = 0, no repetition).                          *)
DurationOf(iv, gv) == IF iv.v # "reject" THEN iv ELSE gv      \* the languages are disjoint (checked: Disjoint)
DurationV(s) == DurationOf(IsoV(s), GoV(s))
Disjoint(s) == Cardinality({k \in {1, 2, 3} : (CASE k = 1 -> IsoV(s).v [] k = 2 -> GoV(s).v [] k = 3 -> RfcV(s).v) # "reject"}) <= 1

(* ParseTime(s, offset): an ISO 8601 duration (without repetition:           *)
(* "repetitions are not allowed") or a Go duration is added to the offset -  *)
(* years, months and days with the calendar arithmetic of Time.AddDate - ;   *)
(* an RFC 3339 timestamp denotes itself.                                     *)
(* result: [v, cls, valued, t]                                               *)
SecsOf(val) == ToInt(SubSeq(val.bns, 1, Max2(0, Len(val.bns) - 9)))
NsOf(val) == ToInt(SubSeq(val.bns, Max2(1, Len(val.bns) - 8), Len(val.bns)))
NoTime(v, cls) == [v |-> v, cls |-> cls, valued |-> FALSE, t |-> Instant(0, 0, 0)]
TimeOf(dv, rv, w) ==
  IF dv.v = "reject" THEN rv
  ELSE IF dv.val.rep # "-1" THEN Rej("repetition-not-allowed")   \* whether or not a lenient form is accepted as a duration
  ELSE IF ~(dv.valued /\ dv.val.small) THEN NoTime(IF dv.valued THEN dv.v ELSE "either", dv.cls)
  ELSE [v |-> dv.v, cls |-> dv.cls, valued |-> TRUE,
        t |-> AddTo(w, ToInt(dv.val.by), ToInt(dv.val.bmo), ToInt(dv.val.bd), IF dv.val.neg THEN -1 ELSE 1, SecsOf(dv.val), NsOf(dv.val))]
TimeV(s, w) == TimeOf(DurationV(s), RfcV(s), w)
=============================================================================
