------------------------------ MODULE TimeCases ------------------------------
(* X07 - the enumerated input space: families of strings, each family a      *)
(* sequence of groups (sets of character sequences).  TLC visits every       *)
(* string of the selected groups, derives the expected answers from TimeLang *)
(* and writes them to cases.ndjson for the replay on the real functions.     *)
EXTENDS TimeLang

Chars(str) == [i \in 1..Len(str) |-> SubSeq(str, i, i)]
Cat(q) == FlattenSeq(q)
SeqsUpTo(S, n) == UNION {[1..k -> S] : k \in 0..n}
Big(tier) == tier = "big"

(* ---- the offsets ParseTime is called with (wall clock readings) ---- *)
W(Y, M, D, h, mi, s, ns, off) == [Y |-> Y, M |-> M, D |-> D, h |-> h, mi |-> mi, s |-> s, ns |-> ns, off |-> off]
Anchors == << W(2024, 1, 31, 0, 0, 0, 0, 0),              \* Jan 31 of a leap year: +1M = "Feb 31" = Mar 2
              W(2023, 1, 31, 10, 20, 30, 0, 0),           \* Jan 31 of a common year: +1M = Mar 3
              W(2024, 2, 29, 12, 0, 0, 500000000, 0),     \* leap day: +1Y = "Feb 29 2025" = Mar 1
              W(2023, 12, 31, 23, 59, 59, 0, 0),          \* last second of a year
              W(2024, 3, 31, 0, 30, 0, 0, 7200),          \* +02:00, the UTC date is Mar 30: arithmetic in the offset's zone
              W(2100, 2, 28, 23, 0, 0, 0, 0) >>           \* 2100 is not a leap year

(* ---- "doc": the strings of the package's own tests ---- *)
DocStrings == <<"0h30m0s", "R5/P10Y5M3DT30M", "P1MT2H10M3S", "P2W", "PT1S", "P1M", "PT1M", "P0D", "PT0S", "P1M2D", "R5", "R5/",
                "P1Y2M3D", "", "10D1M", "P", "PM", "PT1D", "P_D", "PTxS", "R5/PT30M", "2021-12-06T17:43:46Z", "PT", "R/PT1S", "R/">>
GDoc == << {Chars(DocStrings[i]) : i \in 1..Len(DocStrings)} >>

(* ---- "short": every string over the alphabet up to a length ---- *)
Sigma == <<"R", "0", "1", "2", "9", "/", "P", "Y", "M", "W", "D", "T", "H", "S", "x", ".", "-", "h", "m", "s">>
SigmaSet == {Sigma[i] : i \in 1..Len(Sigma)}
GShort(tier) == << {<<>>} >> \o [i \in 1..Len(Sigma) |-> {<<Sigma[i]>> \o t : t \in SeqsUpTo(SigmaSet, IF Big(tier) THEN 3 ELSE 2)}]

(* ---- "core": every string over the core of the ISO alphabet, longer ---- *)
Core == {"P", "T", "1", "D", "M", "S"}
CoreSeq == <<"P", "T", "1", "D", "M", "S">>
CoreLen(tier) == IF Big(tier) THEN 6 ELSE 5
GCore(tier) == << {<<"P">>, <<"P", "T">>} >>
               \o [i \in 1..12 |-> LET pre == IF i <= 6 THEN <<"P">> ELSE <<"P", "T">>
                                        ch == CoreSeq[((i - 1) % 6) + 1]
                                    IN {pre \o <<ch>> \o t : t \in SeqsUpTo(Core, CoreLen(tier) - 1)}]

(* ---- "macro": optional repetition prefix, "P", then up to K items, each  *)
(* "T" or <number><designator>; the k-th item carries the k-th number so     *)
(* that every sum tells which components entered it                          *)
ItemNums == <<"3", "5", "7", "11", "13", "17">>
Items == {"T", "Y", "M", "W", "D", "H", "S"}
Render(q) == Cat([k \in 1..Len(q) |-> IF q[k] = "T" THEN <<"T">> ELSE Chars(ItemNums[k]) \o <<q[k]>>])
MacroPrefixes(tier) == IF Big(tier) THEN <<"", "R2/", "R/", "R0/", "R2">> ELSE <<"", "R2/">>
ItemSeq == <<"T", "Y", "M", "W", "D", "H", "S">>
MacroLen(tier) == IF Big(tier) THEN 5 ELSE 4
GMacro(tier) == LET pf == MacroPrefixes(tier) IN
                [i \in 1..Len(pf) |-> {Chars(pf[i]) \o <<"P">>}]
                \o [i \in 1..Len(pf) * 7 |-> LET p == Chars(pf[((i - 1) \div 7) + 1])  it == ItemSeq[((i - 1) % 7) + 1]
                                             IN {p \o <<"P">> \o Render(<<it>> \o q) : q \in SeqsUpTo(Items, MacroLen(tier) - 1)}]

(* ---- "mut": single-character mutations of well-formed strings ---- *)
CompText == <<"1Y", "2M", "3W", "4D", "5H", "6M", "7S">>
BaseOf(S) == <<"P">> \o Cat([k \in 1..4 |-> IF k \in S THEN Chars(CompText[k]) ELSE <<>>])
             \o (IF S \cap 5..7 = {} THEN <<>> ELSE <<"T">> \o Cat([k \in 1..3 |-> IF k + 4 \in S THEN Chars(CompText[k + 4]) ELSE <<>>]))
BaseSets(tier) == IF Big(tier) THEN SUBSET (1..7) \ {{}}
                  ELSE {S \in SUBSET (1..7) : Cardinality(S) \in {1, 7}} \cup {{2, 6}, {1, 4}, {3, 4}, {5, 7}, {4, 5}, {1, 2, 4}}
Mutants(b) == {SubSeq(b, 1, i - 1) \o SubSeq(b, i + 1, Len(b)) : i \in 1..Len(b)}
              \cup {SubSeq(b, 1, i - 1) \o <<ch>> \o SubSeq(b, i, Len(b)) : i \in 1..Len(b) + 1, ch \in SigmaSet}
              \cup {SubSeq(b, 1, i - 1) \o <<ch>> \o SubSeq(b, i + 1, Len(b)) : i \in 1..Len(b), ch \in SigmaSet}
              \cup {b}
MutBases(tier) == SetToSeq({BaseOf(S) : S \in BaseSets(tier)}) \o << Chars("R2/") \o BaseOf(1..7), Chars("R2/") \o BaseOf({4, 7}) >>
GMut(tier) == [i \in 1..Len(MutBases(tier)) |-> Mutants(MutBases(tier)[i])]

(* ---- "num": boundary numbers in every slot ---- *)
NumLits == <<"0", "00", "1", "01", "007", "10", "2147483647", "2147483648", "4294967296",
             "9223372036854775807", "9223372036854775808", "99999999999999999999", "18446744073709551616",
             "1317624576693539401", "1317624576693539402",
             "2562047", "2562048", "153722867", "153722868", "9223372036", "9223372037",
             "-1", "-0", "+1", "1.5", "1.", ".5", "0.0">>
Slots == <<"R#/PT1S", "R#", "P#Y", "P#M", "P#W", "P#D", "PT#H", "PT#M", "PT#S", "P1Y#M", "P#W1D", "P1W#D", "PT1H#S", "R#/P#D">>
Fill(tpl, lit) == Cat([i \in 1..Len(tpl) |-> IF SubSeq(tpl, i, i) = "#" THEN Chars(lit) ELSE <<SubSeq(tpl, i, i)>>])
HsEdge == <<"", "0H", "2562047H", "2562048H">>
MsEdge == <<"", "47M", "48M", "153722867M", "153722868M">>
SsEdge == <<"", "16S", "17S", "9223372036S", "9223372037S">>
WsEdge == <<"", "0W", "1W", "1317624576693539401W", "1317624576693539402W">>
DsEdge == <<"", "0D", "1D", "6D", "7D", "9223372036854775800D", "9223372036854775807D">>
GNum == [i \in 1..Len(Slots) |-> {Fill(Slots[i], NumLits[j]) : j \in 1..Len(NumLits)}]
        \o << {Chars("PT" \o HsEdge[a] \o MsEdge[b] \o SsEdge[c]) : a \in 1..Len(HsEdge), b \in 1..Len(MsEdge), c \in 1..Len(SsEdge)},
              {Chars("P" \o WsEdge[a] \o DsEdge[b]) : a \in 1..Len(WsEdge), b \in 1..Len(DsEdge)} >>

(* ---- "go": the time.Duration syntax (fallback of ParseDuration / ParseTime) ---- *)
GoInts == <<"", "0", "1", "90">>
GoFracs == <<"", ".", ".5", ".25">>
GoUnits == <<"h", "m", "s", "ms", "", "H", "hs">>
GoTerms == {Chars(GoInts[a] \o GoFracs[b] \o GoUnits[c]) : a \in 1..Len(GoInts), b \in 1..Len(GoFracs), c \in 1..Len(GoUnits)}
GoSigns == <<"", "-", "+">>
GoExtra == <<"0", "-0", "+0", "00", "1us", "1ns", "1.5us", "0.001ns", "2562047h", "2562048h", "-2562048h", "9223372036854775807ns",
             "9223372036854775808ns", "-9223372036854775808ns", "99999999999999999999h", "1h 1m", " 1h", "1h-1m", "--1h", "1hP1D", "P1D1h", "1.5.5h", "0.3333333333h">>
GGo(tier) == [i \in 1..Len(GoSigns) |-> {Chars(GoSigns[i]) \o t : t \in GoTerms} \cup
                                       {Chars(GoSigns[i]) \o t \o u : t \in GoTerms, u \in IF Big(tier) THEN GoTerms ELSE {Chars("1m"), Chars(".5s"), Chars("2")}}]
             \o << {Chars(GoExtra[i]) : i \in 1..Len(GoExtra)} >>

(* ---- "rfc": RFC 3339 timestamps and near misses ---- *)
RDates == <<"2024-02-29", "2023-02-29", "2024-12-31", "2000-01-01", "2024-04-31", "2024-13-01", "2024-00-10", "2024-01-00", "2100-02-29", "1999-12-31">>
RTimes == <<"00:00:00", "23:59:59", "24:00:00", "12:60:00", "12:30:60", "12:30:61">>
RFracs == <<"", ".5", ".123456789", ".1234567891", ".">>
RZones == <<"Z", "+00:00", "+02:00", "-05:30", "+14:00", "-00:00", "", "z", "+0200", "+2", "+24:00", "+02:60", "Zx">>
RSeps == <<"T", "t", " ", "">>
GRfc(tier) == [i \in 1..Len(RDates) |->
                 {Chars(RDates[i] \o "T" \o RTimes[b] \o RFracs[c] \o RZones[d]) : b \in 1..Len(RTimes), c \in 1..Len(RFracs), d \in 1..Len(RZones)}
                 \cup {Chars(RDates[i] \o RSeps[a] \o "23:59:59" \o RZones[d]) : a \in 2..Len(RSeps), d \in 1..3}]
              \o << Mutants(Chars("2024-02-29T23:59:59Z")) \cup (IF Big(tier) THEN Mutants(Chars("2024-02-29T23:59:59.5+02:00")) ELSE {}) >>

(* ---- "cal": calendar arithmetic (years x months x days x time) ---- *)
CalY == <<"", "0Y", "1Y", "4Y", "76Y", "100Y">>
CalM == <<"", "1M", "2M", "11M", "12M", "13M", "25M">>
CalD == <<"", "1D", "28D", "29D", "30D", "31D", "366D", "1W", "1W1D">>
CalT == <<"", "T24H", "T1S", "T1H1M1S", "T86399S", "T90M">>
GCal(tier) == [i \in 1..Len(CalY) |-> {Chars("P" \o CalY[i] \o CalM[b] \o CalD[c] \o CalT[d]) : b \in 1..Len(CalM), c \in 1..Len(CalD),
                                                                                      d \in IF Big(tier) THEN 1..Len(CalT) ELSE {1, 2, 3}}]

Families == <<"doc", "short", "core", "macro", "mut", "num", "go", "rfc", "cal">>
Groups(fam, tier) == CASE fam = "doc" -> GDoc [] fam = "short" -> GShort(tier) [] fam = "core" -> GCore(tier) [] fam = "macro" -> GMacro(tier)
                       [] fam = "mut" -> GMut(tier) [] fam = "num" -> GNum [] fam = "go" -> GGo(tier) [] fam = "rfc" -> GRfc(tier)
                       [] fam = "cal" -> GCal(tier)
=============================================================================
