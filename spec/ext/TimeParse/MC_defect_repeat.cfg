SPECIFICATION Spec
CONSTANTS Tier = "small" Family = {"core"} Part = 0 Parts = 1 Lax = {"repeat"} Export = FALSE
INVARIANTS NotBad Disjointness
CHECK_DEADLOCK FALSE
