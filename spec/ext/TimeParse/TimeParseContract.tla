-------------------------- MODULE TimeParseContract --------------------------
(* X07 - contract monitor for the three parsing functions of dapr/kit time.  *)
(* One run = one input string:                                               *)
(*   reset  [chars, fam]          the input as a sequence of characters      *)
(*   obs    [iso, dur, times]     what ParseISO8601Duration(s),              *)
(*                                ParseDuration(s) and ParseTime(s, offset)  *)
(*                                (one entry per offset) returned            *)
(*   end                                                                     *)
(* A call observation is [out |-> "ok" | "err" | "panic" | "hang", ...] with *)
(* y, mo, d, rep as decimal texts and the duration as neg + ns text; a time  *)
(* observation carries the offset's wall clock reading w (lo/hi: readings    *)
(* taken around the call for the nil offset) and the result as day/sec/ns    *)
(* (UTC, day 0 = 2000-01-01) or far = TRUE when it is millennia away.        *)
(* The expected answers come from TimeLang (IsoV, GoV, RfcV and the          *)
(* composition rules DurationOf, TimeOf).                                    *)
EXTENDS TimeLang

Bad(why) == [bad |-> TRUE, why |-> why]
IsBad(c) == c.bad

F(fn, kind, cls) == [fn |-> fn, kind |-> kind, cls |-> cls]

(* judgement of a (years, months, days, duration, repetition) result against verdict v; *)
(* rcls: the class reported when an invalid string is accepted                         *)
ValueDiff(val, o) ==
  IF o.y # val.y THEN "years"
  ELSE IF o.mo # val.mo THEN "months"
  ELSE IF o.d # val.d THEN "days"
  ELSE IF o.ns # val.ns \/ o.neg # val.neg THEN "duration"
  ELSE IF o.rep # val.rep THEN "repetition"
  ELSE ""
JudgeDur(fn, v, o, rcls) ==
  IF o.out \in {"panic", "hang"} THEN <<F(fn, o.out, IF v.v = "reject" THEN rcls ELSE v.cls)>>
  ELSE IF v.v = "reject" THEN (IF o.out = "ok" THEN <<F(fn, "accepts-invalid", rcls)>> ELSE <<>>)
  ELSE IF o.out = "err" THEN (IF v.v = "accept" THEN <<F(fn, "rejects-valid", v.cls)>> ELSE <<>>)
  ELSE IF v.valued /\ ValueDiff(v.val, o) # "" THEN <<F(fn, "wrong-" \o ValueDiff(v.val, o), v.cls)>>
  ELSE <<>>

(* judgement of one ParseTime call.  strict = FALSE: the duration-level      *)
(* observations of this string already failed, only panics/hangs are new     *)
SameDay(a, b) == a.Y = b.Y /\ a.M = b.M /\ a.D = b.D
JudgeTime(dv, rv, o, rcls, strict) ==
  LET now == o.a = 0
      v == TimeOf(dv, rv, IF now THEN o.lo ELSE o.w)
      w0 == IF now THEN o.lo ELSE o.w
      (* the calendar situation of the addition, for the finding key *)
      tm == IF dv.v # "reject" /\ dv.valued /\ dv.val.small THEN (w0.Y + ToInt(dv.val.by)) * 12 + (w0.M - 1) + ToInt(dv.val.bmo) ELSE w0.Y * 12 + w0.M - 1
      tag == IF dv.v = "reject" THEN "timestamp"
             ELSE IF w0.D > MonthLen(tm \div 12, (tm % 12) + 1) THEN "month-end"
             ELSE IF w0.off # 0 THEN "zoned-offset" ELSE "plain"
      rc == IF v.cls \in {"repetition-not-allowed", "rfc3339-out-of-range", "malformed-rfc3339"} THEN v.cls ELSE rcls
      wrong == <<F("ParseTime", "wrong-time", v.cls \o " " \o tag)>>
  IN
  IF o.out \in {"panic", "hang"} THEN <<F("ParseTime", o.out, IF v.v = "reject" THEN rc ELSE v.cls)>>
  ELSE IF ~strict THEN <<>>
  ELSE IF v.v = "reject" THEN (IF o.out = "ok" THEN <<F("ParseTime", "accepts-invalid", rc)>> ELSE <<>>)
  ELSE IF o.out = "err" THEN (IF v.v = "accept" THEN <<F("ParseTime", "rejects-valid", v.cls)>> ELSE <<>>)
  ELSE IF ~v.valued THEN <<>>
  ELSE IF o.far THEN wrong
  ELSE LET got == [day |-> o.day, sec |-> o.sec, ns |-> o.ns]
       IN IF ~now \/ v.cls = "rfc3339" THEN (IF got = v.t THEN <<>> ELSE wrong)
          ELSE IF ~SameDay(o.lo, o.hi) THEN <<>>           \* the call straddled midnight: not judged
          ELSE IF InstLeq(v.t, got) /\ InstLeq(got, TimeOf(dv, rv, o.hi).t) THEN <<>> ELSE wrong

(* all failures of a run, one per distinct (kind, class), attributed to the  *)
(* first function that shows it                                              *)
Failures(s, e) ==
  LET iv == IsoV(s)
      gv == GoV(s)
      rv == RfcV(s)
      dv == DurationOf(iv, gv)
      ircls == IsoRejectClass(s)
      drcls == IF gv.cls = "go-overflow" THEN gv.cls ELSE ircls
      f1 == JudgeDur("ParseISO8601Duration", iv, e.iso, ircls)
      f2 == JudgeDur("ParseDuration", dv, e.dur, drcls)
      strict == f1 = <<>> /\ f2 = <<>>
      all == f1 \o f2 \o FlattenSeq([i \in 1..Len(e.times) |-> JudgeTime(dv, rv, e.times[i], drcls, strict)])
  IN SelectSeq([i \in 1..Len(all) |-> IF \E j \in 1..i - 1 : all[j].kind = all[i].kind /\ all[j].cls = all[i].cls
                                      THEN F("", "", "") ELSE all[i]],
               LAMBDA f : f.fn # "")
Describe(fs) == FoldLeft(LAMBDA acc, f : (IF acc = "" THEN "" ELSE acc \o " | ") \o f.fn \o " " \o f.kind \o ": " \o f.cls, "", fs)

CReset(e) == [bad |-> FALSE, why |-> "", s |-> e.chars, done |-> FALSE]
CObs(c, e) ==
  IF c.done THEN Bad("harness: two observations")
  ELSE LET fs == Failures(c.s, e)
       IN IF fs = <<>> THEN [c EXCEPT !.done = TRUE] ELSE Bad(Describe(fs))
CNext(c, e) ==
  IF e.ev = "reset" THEN CReset(e)
  ELSE IF IsBad(c) THEN c
  ELSE CASE e.ev = "obs" -> CObs(c, e)
         [] e.ev = "end" -> IF c.done THEN c ELSE Bad("harness: no observation recorded")
=============================================================================
