SPECIFICATION Spec
CONSTANTS Tier = "small" Family = {"doc", "short", "core", "macro", "mut", "num", "go", "rfc", "cal"} Part = 0 Parts = 1 Lax = {} Export = TRUE
INVARIANTS NotBad Disjointness
CHECK_DEADLOCK FALSE
