SPECIFICATION Spec
CONSTANTS Tier = "small" Family = {"doc"} Part = 0 Parts = 1 Lax = {} Export = TRUE
INVARIANTS NotBad Disjointness
CHECK_DEADLOCK FALSE
