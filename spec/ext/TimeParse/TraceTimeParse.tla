--------------------------- MODULE TraceTimeParse ---------------------------
(* Validates recorded calls of the real ParseISO8601Duration / ParseDuration *)
(* / ParseTime (one run per input string) against the contract monitor.      *)
(* Deterministic monitor, RejectLine idiom; one behaviour per "reset" line.  *)
EXTENDS TimeParseContract, TraceLib

Trace == LoadTrace("trace.ndjson")
Starts == {k \in 1..Len(Trace) : Trace[k].ev = "reset"}
(* NB: variable names that no bound identifier of the extended modules uses (see TimeParseModel) *)
VARIABLES l, vMon
TInit == l \in Starts /\ vMon = CReset(Trace[l])
TNext == /\ ~IsBad(vMon)
         /\ l + 1 <= Len(Trace)
         /\ Trace[l + 1].ev # "reset"
         /\ vMon' = CNext(vMon, Trace[l + 1])
         /\ l' = l + 1
TSpec == TInit /\ [][TNext]_<<l, vMon>>
Report == IF IsBad(vMon) THEN RejectLine(l, vMon.why) ELSE TRUE
=============================================================================
