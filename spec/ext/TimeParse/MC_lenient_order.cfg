SPECIFICATION Spec
CONSTANTS Tier = "small" Family = {"macro"} Part = 0 Parts = 1 Lax = {"order"} Export = FALSE
INVARIANTS NotBad Disjointness
CHECK_DEADLOCK FALSE
