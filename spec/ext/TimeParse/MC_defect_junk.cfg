SPECIFICATION Spec
CONSTANTS Tier = "small" Family = {"mut"} Part = 0 Parts = 1 Lax = {"junk"} Export = FALSE
INVARIANTS NotBad Disjointness
CHECK_DEADLOCK FALSE
