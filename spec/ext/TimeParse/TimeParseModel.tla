--------------------------- MODULE TimeParseModel ---------------------------
(* X07 - implementation-shaped model: a left-to-right scanner for            *)
(* ParseISO8601Duration (one step per character), ParseDuration = scanner,   *)
(* else the Go syntax, and ParseTime = duration added to the offset, else    *)
(* RFC 3339.  TLC runs the scanner over every enumerated string and feeds    *)
(* its answers to the contract monitor (TimeParseContract): the scanner      *)
(* automaton and the declarative grammar of TimeLang must agree on the whole *)
(* enumerated space.  Lax # {} switches on the liberties the scanner of      *)
(* time.go takes as found (non-vacuity: each of them is rejected by the      *)
(* monitor).  The selected groups are also written to cases.ndjson with the  *)
(* expected answers, for the replay on the real code.                        *)
EXTENDS TimeParseContract, TimeCases, Json

CONSTANTS Tier,      \* "small" | "big"
          Family,    \* a set of families of TimeCases
          Part, Parts, \* the groups i with i % Parts = Part
          Lax,       \* subset of {"junk", "trailing-number", "no-component", "repeat", "sign", "wrap"} (defects as found)
                     \* and "order" (a lenient scanner that takes designators in any order: admitted by the contract)
          Export     \* write cases.ndjson / anchors.ndjson

(* NB: the variables must not share a name with any bound identifier of the extended modules - TLC would  *)
(* otherwise take the constant definitions there for state-level and re-evaluate them at every use.     *)
VARIABLES vIn, vPos, vSt, vMon, vPc
vars == <<vIn, vPos, vSt, vMon, vPc>>

FamSeq == SelectSeq(Families, LAMBDA f : f \in Family)
GroupSeq == FlattenSeq([f \in 1..Len(FamSeq) |-> Groups(FamSeq[f], Tier)])
Mine == {g \in 1..Len(GroupSeq) : g % Parts = Part}

(* ---- the scanner ---- *)
(* st: ph (phase), acc (digits read, as characters), sign, rep, seen (designators of the current section), *)
(* last (rank of the last designator), comp (values per slot), n (components), nt (time components), err   *)
Slot(ph, ch) == IF ph = "date" THEN (CASE ch = "Y" -> "Y" [] ch = "M" -> "Mo" [] ch = "W" -> "W" [] ch = "D" -> "D" [] OTHER -> "")
                ELSE (CASE ch = "H" -> "H" [] ch = "M" -> "Mi" [] ch = "S" -> "S" [] OTHER -> "")
RankOf(ph, ch) == IF ph = "date" THEN DateRank(ch) ELSE TimeRank(ch)
SlotSet == {"Y", "Mo", "W", "D", "H", "Mi", "S"}
St0 == [ph |-> "start", acc |-> <<>>, sign |-> "", rep |-> "-1", seen |-> {}, last |-> 0, hasT |-> FALSE,
        comp |-> [x \in SlotSet |-> <<>>], neg |-> [x \in SlotSet |-> FALSE], n |-> 0, nt |-> 0, err |-> FALSE]
Fail(q) == [q EXCEPT !.err = TRUE]
AccumOK(q) == q.acc # <<>> /\ ("wrap" \in Lax \/ FitsInt(NatOfChars(q.acc)))

Step(q, ch) ==
  IF q.err THEN q
  ELSE IF q.ph = "start" THEN
       (IF ch = "R" THEN [q EXCEPT !.ph = "rep"] ELSE IF ch = "P" THEN [q EXCEPT !.ph = "date"] ELSE Fail(q))
  ELSE IF q.ph = "rep" THEN
       (IF IsDigit(ch) THEN [q EXCEPT !.acc = q.acc \o <<ch>>]
        ELSE IF ch = "-" /\ "sign" \in Lax /\ q.acc = <<>> /\ q.sign = "" THEN [q EXCEPT !.sign = "-"]
        ELSE IF ch = "/" /\ AccumOK(q)
             THEN [q EXCEPT !.ph = "afterrep", !.rep = q.sign \o NatStr(NatOfChars(q.acc)), !.acc = <<>>, !.sign = ""]
        ELSE Fail(q))
  ELSE IF q.ph = "afterrep" THEN (IF ch = "P" THEN [q EXCEPT !.ph = "date"] ELSE Fail(q))
  ELSE \* date | time
       IF IsDigit(ch) THEN [q EXCEPT !.acc = q.acc \o <<ch>>]
       ELSE IF ch = "-" /\ "sign" \in Lax /\ q.acc = <<>> /\ q.sign = "" THEN [q EXCEPT !.sign = "-"]
       ELSE IF ch = "T" THEN
            (IF q.acc = <<>> /\ q.sign = "" /\ (q.ph = "date" \/ "repeat" \in Lax)
             THEN [q EXCEPT !.ph = "time", !.hasT = TRUE, !.seen = IF q.ph = "date" THEN {} ELSE q.seen, !.last = IF q.ph = "date" THEN 0 ELSE q.last]
             ELSE Fail(q))
       ELSE IF Slot(q.ph, ch) # "" THEN
            LET x == Slot(q.ph, ch) IN
            IF ~AccumOK(q) THEN Fail(q)
            ELSE IF x \in q.seen /\ "repeat" \notin Lax THEN Fail(q)
            ELSE IF RankOf(q.ph, ch) < q.last /\ "order" \notin Lax THEN Fail(q)     \* the strict scanner insists on the order
            ELSE [q EXCEPT !.comp[x] = IF x \in q.seen /\ x \notin {"Y", "Mo"} THEN Add(q.comp[x], NatOfChars(q.acc)) ELSE NatOfChars(q.acc),
                           !.neg[x] = q.sign = "-" /\ NatOfChars(q.acc) # <<>>,
                           !.seen = q.seen \cup {x}, !.last = RankOf(q.ph, ch), !.acc = <<>>, !.sign = "",
                           !.n = q.n + 1, !.nt = IF q.ph = "time" THEN q.nt + 1 ELSE q.nt]
       ELSE IF "junk" \in Lax /\ ch \notin {"Y", "W", "D", "H", "S", "M", "T"} /\ q.acc = <<>> /\ q.sign = "" THEN q   \* skipped
       ELSE Fail(q)

(* the answer at the end of the input *)
Finish(q) ==
  LET y == q.comp["Y"]  mo == q.comp["Mo"]
      d == Add(MulS(q.comp["W"], 7), q.comp["D"])
      ns == Shift(Sum(<<MulS(q.comp["H"], 3600), MulS(q.comp["Mi"], 60), q.comp["S"]>>), 9)
      anyNeg == \E x \in SlotSet : q.neg[x]
      ok == /\ ~q.err
            /\ \/ q.ph = "rep" /\ AccumOK(q)
               \/ q.ph = "afterrep"
               \/ /\ q.ph \in {"date", "time"}
                  /\ (q.acc = <<>> /\ q.sign = "") \/ "trailing-number" \in Lax
                  /\ q.n > 0 \/ "no-component" \in Lax
                  /\ (q.hasT => q.nt > 0) \/ "no-component" \in Lax
                  /\ (FitsInt(y) /\ FitsInt(mo) /\ FitsInt(d) /\ FitsInt(ns)) \/ "wrap" \in Lax
      rep == IF q.ph = "rep" THEN q.sign \o NatStr(NatOfChars(q.acc)) ELSE q.rep
      sg(x) == IF q.neg[x] THEN "-" ELSE ""
  IN IF ~ok THEN [out |-> "err", y |-> "0", mo |-> "0", d |-> "0", ns |-> "0", neg |-> FALSE, rep |-> "0"]
     ELSE [out |-> "ok", y |-> sg("Y") \o NatStr(y), mo |-> sg("Mo") \o NatStr(mo), d |-> (IF q.neg["W"] \/ q.neg["D"] THEN "-" ELSE "") \o NatStr(d),
           ns |-> NatStr(ns), neg |-> q.neg["H"] \/ q.neg["Mi"] \/ q.neg["S"], rep |-> rep]

(* ParseDuration / ParseTime on top of the scanner *)
GoObs(str) == LET gv == GoV(str)
              IN IF gv.v = "accept" THEN [out |-> "ok", y |-> "0", mo |-> "0", d |-> "0", ns |-> gv.val.ns, neg |-> gv.val.neg, rep |-> "-1"]
                 ELSE [out |-> "err", y |-> "0", mo |-> "0", d |-> "0", ns |-> "0", neg |-> FALSE, rep |-> "0"]
DurObs(str, iso) == IF iso.out = "ok" THEN iso ELSE GoObs(str)
TimeObs(str, iso, a) ==
  LET w == Anchors[a]
      dobs == DurObs(str, iso)
      rv == RfcV(str)
      dv == DurationV(str)
      T(t) == [a |-> a, w |-> w, out |-> "ok", far |-> FALSE, day |-> t.day, sec |-> t.sec, ns |-> t.ns]
      E == [a |-> a, w |-> w, out |-> "err", far |-> FALSE, day |-> 0, sec |-> 0, ns |-> 0]
  IN IF dobs.out = "ok"
     THEN (IF dobs.rep # "-1" THEN E
           ELSE IF dv.v # "reject" /\ dv.valued /\ dv.val.small /\ ValueDiff(dv.val, dobs) = ""
                THEN T(AddTo(w, ToInt(dv.val.by), ToInt(dv.val.bmo), ToInt(dv.val.bd), IF dv.val.neg THEN -1 ELSE 1, SecsOf(dv.val), NsOf(dv.val)))
                ELSE [T(Instant(0, 0, 0)) EXCEPT !.far = TRUE])      \* a value the calendar model does not follow
     ELSE IF rv.v = "accept" THEN T(rv.t)
     ELSE E
ModelObs(str, q) ==
  LET iso == Finish(q)
  IN [ev |-> "obs", iso |-> iso, dur |-> DurObs(str, iso), times |-> [a \in 1..Len(Anchors) |-> TimeObs(str, iso, a)]]

Init == /\ \E g \in Mine : vIn \in GroupSeq[g]
        /\ vPos = 0
        /\ vSt = St0
        /\ vMon = CReset([ev |-> "reset", chars |-> vIn])
        /\ vPc = "scan"
Scan == /\ vPc = "scan" /\ vPos < Len(vIn) /\ ~vSt.err
        /\ vSt' = Step(vSt, vIn[vPos + 1])
        /\ vPos' = vPos + 1
        /\ UNCHANGED <<vIn, vMon, vPc>>
Return == /\ vPc = "scan" /\ (vPos = Len(vIn) \/ vSt.err)
          /\ vMon' = CNext(CNext(vMon, ModelObs(vIn, vSt)), [ev |-> "end"])
          /\ vPc' = "done"
          /\ UNCHANGED <<vIn, vPos, vSt>>
Spec == Init /\ [][Scan \/ Return]_vars

NotBad == ~IsBad(vMon)
(* the three languages are pairwise disjoint on the enumerated space: the order of the fall-backs is immaterial *)
Disjointness == vPc = "scan" /\ vPos = 0 => Disjoint(vIn)

(* ---- export ---- *)
ExpDur(v) == IF v.v = "reject" THEN [v |-> "reject", cls |-> v.cls, valued |-> FALSE, y |-> "", mo |-> "", d |-> "", ns |-> "", neg |-> FALSE, rep |-> ""]
             ELSE [v |-> v.v, cls |-> v.cls, valued |-> v.valued, y |-> v.val.y, mo |-> v.val.mo, d |-> v.val.d, ns |-> v.val.ns, neg |-> v.val.neg, rep |-> v.val.rep]
ExpTime(v) == IF v.v = "reject" THEN [v |-> "reject", cls |-> v.cls, valued |-> FALSE, day |-> 0, sec |-> 0, ns |-> 0]
              ELSE [v |-> v.v, cls |-> v.cls, valued |-> v.valued, day |-> v.t.day, sec |-> v.t.sec, ns |-> v.t.ns]
DescribeCase(str, fam) ==
  LET iv == IsoV(str) gv == GoV(str) rv == RfcV(str) dv == DurationOf(iv, gv)
  IN [s |-> Str(str), fam |-> fam, iso |-> ExpDur(iv), dur |-> ExpDur(dv),
      times |-> [a \in 1..Len(Anchors) |-> ExpTime(TimeOf(dv, rv, Anchors[a]))]]
FamOfGroup(g) == LET Upto[f \in 0..Len(FamSeq)] == IF f = 0 THEN 0 ELSE Upto[f - 1] + Len(Groups(FamSeq[f], Tier))
                 IN FamSeq[CHOOSE f \in 1..Len(FamSeq) : Upto[f - 1] < g /\ g <= Upto[f]]
MineSeq == SetToSortSeq(Mine, <)
CaseSeq == FlattenSeq([k \in 1..Len(MineSeq) |-> LET q == SetToSeq(GroupSeq[MineSeq[k]]) fam == FamOfGroup(MineSeq[k])
                                               IN [j \in 1..Len(q) |-> DescribeCase(q[j], fam)]])
ASSUME Export => PrintT(<<"CASES", Len(CaseSeq)>>)
ASSUME Export => ndJsonSerialize("cases.ndjson", CaseSeq)
ASSUME Export => ndJsonSerialize("anchors.ndjson", Anchors)
=============================================================================
