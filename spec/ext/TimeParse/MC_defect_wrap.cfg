SPECIFICATION Spec
CONSTANTS Tier = "small" Family = {"num"} Part = 0 Parts = 1 Lax = {"wrap"} Export = FALSE
INVARIANTS NotBad Disjointness
CHECK_DEADLOCK FALSE
