SPECIFICATION Spec
CONSTANTS Tier = "small" Family = {"short"} Part = 0 Parts = 1 Lax = {"no-component"} Export = FALSE
INVARIANTS NotBad Disjointness
CHECK_DEADLOCK FALSE
