SPECIFICATION Spec
CONSTANTS MaxInv = 3 MaxNow = 2 Minute = 1 Panics = TRUE SkipPutsBackOnPanic = TRUE Barging = FALSE Fifo = TRUE
CONSTANT Chains <- ChainsBig
INVARIANTS NotBad OneRunner MutexSane
PROPERTIES Terminates DelayRunsAll
CHECK_DEADLOCK FALSE
