SPECIFICATION Spec
CONSTANTS MaxInv = 3 MaxNow = 0 Minute = 1 Panics = FALSE SkipPutsBackOnPanic = TRUE Barging = TRUE Fifo = TRUE
CONSTANT Chains <- ChainsDelay
INVARIANTS NotBad
CHECK_DEADLOCK FALSE
