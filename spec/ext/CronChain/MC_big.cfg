SPECIFICATION Spec
CONSTANTS MaxInv = 4 MaxNow = 0 Minute = 0 Panics = TRUE SkipPutsBackOnPanic = TRUE Barging = FALSE Fifo = TRUE
CONSTANT Chains <- ChainsFour
INVARIANTS NotBad OneRunner MutexSane
CHECK_DEADLOCK FALSE
