--------------------------- MODULE CronChainImpl ---------------------------
(* X01 - implementation-shaped model of cron/chain.go.  Invocations 1..n of   *)
(* one wrapped job (NewChain(chain...).Then(job)) arrive at arbitrary times    *)
(* (the scheduler starts each in its own goroutine), the job body runs for an  *)
(* arbitrary duration and may panic.  Each wrapper is modelled by the          *)
(* synchronisation object it uses:                                             *)
(*   skip    a 1-slot channel holding a token (chain.go:109-122): non-blocking *)
(*           receive; the token is sent back AFTER j.Run() returns             *)
(*           (SkipPutsBackOnPanic = FALSE is the code as written: no defer)    *)
(*   delay   a sync.Mutex (chain.go:91-104): Lock / deferred Unlock; waiters   *)
(*           queue FIFO; Barging = TRUE lets an arriving goroutine take a free *)
(*           mutex ahead of the queue (Go's normal mode when the arrival races *)
(*           with an Unlock)                                                   *)
(*   recover a deferred recover() that logs (chain.go:58-78)                   *)
(*   m       a harness wrapper recording enter/exit                            *)
(* Every action feeds the contract monitor (CronChainContract).                *)
EXTENDS CronChainContract, TLC

CONSTANTS MaxInv,               \* invocations: every n in 1..MaxInv is explored
          Chains,               \* the set of chains explored
          MaxNow,               \* clock steps available
          Minute,               \* the "one minute" threshold, in clock steps
          Panics,               \* the job body may panic
          SkipPutsBackOnPanic,  \* Skip returns its token when the job panics (a deferred send)
          Barging,              \* a Lock that arrives while the mutex is free overtakes the waiters
          Fifo                  \* the monitor's arrival-order law is switched on

VARIABLES chain, n, pc, pos, pan, took, t0, token, holder, queue, now, fin, c
vars == <<chain, n, pc, pos, pan, took, t0, token, holder, queue, now, fin, c>>

Inv == 1..MaxInv
KK == Len(chain)

Init ==
  /\ chain \in Chains /\ n \in 1..MaxInv
  /\ pc = [i \in Inv |-> "idle"] /\ pos = [i \in Inv |-> 0] /\ pan = [i \in Inv |-> FALSE]
  /\ took = [i \in Inv |-> FALSE] /\ t0 = [i \in Inv |-> 0]
  /\ token = 1 /\ holder = 0 /\ queue = <<>> /\ now = 0 /\ fin = FALSE
  /\ c = LET c0 == CReset([chain |-> chain, n |-> n, fifo |-> Fifo, minute |-> Minute, logobs |-> TRUE])
             \* Then(): the wrappers are applied last-first (chain.go:53-58)
             ms == {p \in 1..Len(chain) : chain[p] = "m"}
             RECURSIVE App(_, _)
             App(cc, left) == IF left = {} THEN cc
                              ELSE LET p == CHOOSE x \in left : \A y \in left : y <= x IN App(CNext(cc, [ev |-> "apply", pos |-> p]), left \ {p})
         IN App(c0, ms)

Feed(e) == c' = IF IsBad(c) THEN c ELSE CNext(c, e)

Invoke(i) ==
  /\ i <= n /\ pc[i] = "idle" /\ (IF i = 1 THEN TRUE ELSE pc[i - 1] # "idle")
  /\ pc' = [pc EXCEPT ![i] = "down"] /\ pos' = [pos EXCEPT ![i] = 1]
  /\ Feed([ev |-> "invoke", i |-> i])
  /\ UNCHANGED <<chain, n, pan, took, t0, token, holder, queue, now, fin>>

Down(i) ==
  /\ pc[i] = "down"
  /\ IF pos[i] = KK + 1 THEN
        /\ pc' = [pc EXCEPT ![i] = "body"] /\ Feed([ev |-> "start", i |-> i])
        /\ UNCHANGED <<pos, pan, took, t0, token, holder, queue>>
     ELSE LET w == chain[pos[i]] IN
       CASE w = "m" ->
              /\ Feed([ev |-> "enter", i |-> i, pos |-> pos[i]]) /\ pos' = [pos EXCEPT ![i] = @ + 1]
              /\ UNCHANGED <<pc, pan, took, t0, token, holder, queue>>
         [] w = "recover" ->
              /\ pos' = [pos EXCEPT ![i] = @ + 1] /\ UNCHANGED <<pc, pan, took, t0, token, holder, queue, c>>
         [] w = "skip" ->
              IF token = 1
                THEN /\ token' = 0 /\ took' = [took EXCEPT ![i] = TRUE] /\ pos' = [pos EXCEPT ![i] = @ + 1]
                     /\ UNCHANGED <<pc, pan, t0, holder, queue, c>>
                ELSE /\ Feed([ev |-> "skiplog", i |-> i])
                     /\ pc' = [pc EXCEPT ![i] = "up"] /\ pos' = [pos EXCEPT ![i] = @ - 1] /\ pan' = [pan EXCEPT ![i] = FALSE]
                     /\ UNCHANGED <<took, t0, token, holder, queue>>
         [] w = "delay" ->
              /\ t0' = [t0 EXCEPT ![i] = now]
              /\ IF holder = 0 /\ (queue = <<>> \/ Barging)
                   THEN /\ holder' = i /\ pos' = [pos EXCEPT ![i] = @ + 1] /\ UNCHANGED <<pc, queue>>
                   ELSE /\ queue' = Append(queue, i) /\ pc' = [pc EXCEPT ![i] = "lockwait"] /\ UNCHANGED <<holder, pos>>
              /\ UNCHANGED <<pan, took, token, c>>
  /\ UNCHANGED <<chain, n, now, fin>>

(* a waiter gets the mutex; Since(start) > 1 minute is logged (chain.go:99-101) *)
Acquire(i) ==
  /\ pc[i] = "lockwait" /\ holder = 0 /\ queue # <<>> /\ Head(queue) = i
  /\ holder' = i /\ queue' = Tail(queue)
  /\ pc' = [pc EXCEPT ![i] = "down"] /\ pos' = [pos EXCEPT ![i] = @ + 1]
  /\ IF now - t0[i] > Minute THEN Feed([ev |-> "delaylog", i |-> i, dur |-> now - t0[i]]) ELSE UNCHANGED c
  /\ UNCHANGED <<chain, n, pan, took, t0, token, now, fin>>

(* the harness sees i blocked at a quiescent point *)
Observe(i) ==
  /\ Fifo /\ pc[i] = "lockwait" /\ ~c.bad /\ ~c.inv[i].waited
  /\ \A j \in Inv : pc[j] \in {"idle", "lockwait", "body", "done"}
  /\ Feed([ev |-> "waiting", i |-> i])
  /\ UNCHANGED <<chain, n, pc, pos, pan, took, t0, token, holder, queue, now, fin>>

End(i) ==
  /\ pc[i] = "body"
  /\ \E p \in (IF Panics THEN BOOLEAN ELSE {FALSE}) :
       /\ pan' = [pan EXCEPT ![i] = p] /\ Feed([ev |-> "end", i |-> i, p |-> p])
  /\ pc' = [pc EXCEPT ![i] = "up"] /\ pos' = [pos EXCEPT ![i] = KK]
  /\ UNCHANGED <<chain, n, took, t0, token, holder, queue, now, fin>>

Up(i) ==
  /\ pc[i] = "up"
  /\ IF pos[i] = 0 THEN
        /\ pc' = [pc EXCEPT ![i] = "done"]
        /\ Feed([ev |-> IF pan[i] THEN "escaped" ELSE "ret", i |-> i])
        /\ UNCHANGED <<pos, pan, took, token, holder>>
     ELSE LET w == chain[pos[i]] IN
       /\ pos' = [pos EXCEPT ![i] = @ - 1]
       /\ CASE w = "m" -> Feed([ev |-> "exit", i |-> i, pos |-> pos[i], p |-> pan[i]]) /\ UNCHANGED <<pc, pan, took, token, holder>>
            [] w = "recover" ->
                 IF pan[i] THEN /\ Feed([ev |-> "errlog", i |-> i, match |-> TRUE, stack |-> TRUE])
                                /\ pan' = [pan EXCEPT ![i] = FALSE] /\ UNCHANGED <<pc, took, token, holder>>
                           ELSE UNCHANGED <<pc, pan, took, token, holder, c>>
            [] w = "skip" ->
                 /\ token' = IF took[i] /\ (~pan[i] \/ SkipPutsBackOnPanic) THEN 1 ELSE token
                 /\ took' = [took EXCEPT ![i] = FALSE] /\ UNCHANGED <<pc, pan, holder, c>>
            [] w = "delay" ->
                 /\ holder' = 0 /\ UNCHANGED <<pc, pan, took, token, c>>
  /\ UNCHANGED <<chain, n, t0, queue, now, fin>>

(* the clock moves only at quiescent points (the harness steps it there) *)
Tick ==
  /\ now < MaxNow /\ ~fin
  /\ \A j \in Inv : pc[j] \in {"idle", "lockwait", "body", "done"}
  /\ \E j \in Inv : pc[j] \in {"lockwait", "body"}
  /\ now' = now + 1 /\ Feed([ev |-> "clock", now |-> now + 1])
  /\ UNCHANGED <<chain, n, pc, pos, pan, took, t0, token, holder, queue, fin>>

Finish ==
  /\ ~fin /\ \A i \in 1..n : pc[i] = "done"
  /\ fin' = TRUE /\ Feed([ev |-> "done"])
  /\ UNCHANGED <<chain, n, pc, pos, pan, took, t0, token, holder, queue, now>>

Step == \E i \in Inv : Invoke(i) \/ Down(i) \/ Acquire(i) \/ End(i) \/ Up(i)
Next == Step \/ Finish \/ Tick \/ (\E i \in Inv : Observe(i))
Spec == Init /\ [][Next]_vars /\ WF_vars(Step) /\ WF_vars(Finish)

NotBad == ~IsBad(c)
(* the model's own view of the two safety laws *)
OneRunner == (\E p \in 1..KK : chain[p] \in {"skip", "delay"}) => Cardinality({i \in Inv : pc[i] = "body"}) <= 1
MutexSane == holder = 0 \/ pc[holder] \in {"down", "body", "up"}
(* no invocation is lost or stuck: every invocation completes (Delay: after running the job) *)
Terminates == <>fin
DelayOnly == (\E p \in 1..KK : chain[p] = "delay") /\ ~(\E p \in 1..KK : chain[p] = "skip")
DelayRunsAll == [](fin => (DelayOnly => \A i \in 1..n : c.bad \/ c.inv[i].started))
=============================================================================
