--------------------------- MODULE TraceCronChain ---------------------------
(* Validates recorded executions of the real cron job wrappers against the  *)
(* X01 contract monitor.  trace.ndjson holds many runs, each starting with a *)
(* "reset" line; every run is its own behaviour.  The monitor is             *)
(* deterministic (RejectLine idiom).                                         *)
EXTENDS CronChainContract, TraceLib

Trace == LoadTrace("trace.ndjson")
Starts == {i \in 1..Len(Trace) : Trace[i].ev = "reset"}
VARIABLES l, c
TInit == l \in Starts /\ c = CReset(Trace[l])
TNext == /\ ~IsBad(c)
         /\ l + 1 <= Len(Trace)
         /\ Trace[l + 1].ev # "reset"
         /\ c' = CNext(c, Trace[l + 1])
         /\ l' = l + 1
TSpec == TInit /\ [][TNext]_<<l, c>>
Report == IF IsBad(c) THEN RejectLine(l, c.why) ELSE TRUE
=============================================================================
