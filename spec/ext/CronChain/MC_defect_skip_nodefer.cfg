SPECIFICATION Spec
CONSTANTS MaxInv = 2 MaxNow = 0 Minute = 1 Panics = TRUE SkipPutsBackOnPanic = FALSE Barging = FALSE Fifo = FALSE
CONSTANT Chains <- ChainsSkip
INVARIANTS NotBad
CHECK_DEADLOCK FALSE
