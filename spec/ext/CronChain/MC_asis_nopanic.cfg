SPECIFICATION Spec
CONSTANTS MaxInv = 3 MaxNow = 1 Minute = 0 Panics = FALSE SkipPutsBackOnPanic = FALSE Barging = FALSE Fifo = TRUE
CONSTANT Chains <- ChainsSmall
INVARIANTS NotBad OneRunner MutexSane
PROPERTIES Terminates DelayRunsAll
CHECK_DEADLOCK FALSE
