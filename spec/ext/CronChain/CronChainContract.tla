------------------------- MODULE CronChainContract -------------------------
(* X01 - the contract of the cron job wrappers (cron/chain.go) as a monitor  *)
(* automaton over observable events.  It is written from the doc comments:   *)
(*   Chain.Then         NewChain(m1,m2,m3).Then(job) == m1(m2(m3(job)))       *)
(*   Recover            "Recover panics in wrapped jobs and log them"         *)
(*   DelayIfStillRunning "serializes jobs, delaying subsequent runs until the *)
(*                      previous one is complete. Jobs running after a delay  *)
(*                      of more than a minute have the delay logged at Info." *)
(*   SkipIfStillRunning "skips an invocation of the Job if a previous         *)
(*                      invocation is still running. It logs skips ..."       *)
(*   cron.New           "Chain ... Default: A chain that recovers panics"     *)
(*                      (judged as the chain <<"recover">>)                   *)
(*                                                                            *)
(* A chain is a sequence over {"m","recover","skip","delay"}; "m" is a        *)
(* harness wrapper that only records enter/exit (position = index in the      *)
(* chain).  The job sits at position Len(chain)+1.  Every event is attributed *)
(* to an invocation i (one call of wrapped.Run()).  Events:                   *)
(*  reset    chain, n (max invocations), fifo (arrival-order law on), minute, *)
(*           logobs (the logger Recover writes to is observed: FALSE for the  *)
(*           default chain of cron.New, which logs "to stderr")               *)
(*  apply    pos                 Then() handed a job to the mark at pos       *)
(*  clock    now                 the (fake) clock was stepped to now          *)
(*  invoke   i                   immediately before wrapped.Run()             *)
(*  enter    i, pos              mark wrapper at pos entered                  *)
(*  exit     i, pos, p           ... left (p: a panic is unwinding through it)*)
(*  skiplog  i                   logger.Info("skip")                          *)
(*  delaylog i, dur              logger.Info("delay","duration",dur)          *)
(*  start    i                   the job body started                         *)
(*  end      i, p                the job body ended (p: by panicking)         *)
(*  errlog   i, match, stack     logger.Error(err,"panic","stack",..) (match: *)
(*                               err is the panic value; stack: non-empty)    *)
(*  ret      i                   wrapped.Run() returned normally              *)
(*  escaped  i                   wrapped.Run() panicked into its caller       *)
(*  waiting  i                   seen at a quiescent point: invoked, blocked, *)
(*                               job not started                              *)
(*  done                         final quiescent point, every gate released   *)
(* Where the doc comments are silent the monitor accepts (e.g. a panic that   *)
(* reaches the caller of a chain without Recover).                            *)
EXTENDS Integers, Sequences, FiniteSets

Bad(why) == [bad |-> TRUE, why |-> why]
IsBad(c) == c.bad

IdleInv == [ph |-> "idle", stack |-> <<>>, upPos |-> 0, pan |-> FALSE, started |-> FALSE,
            skipped |-> FALSE, t0 |-> 0, dlog |-> FALSE, cand |-> {}, before |-> {}, waited |-> FALSE]

CReset(e) ==
  [bad |-> FALSE, why |-> "", chain |-> e.chain, n |-> e.n, fifo |-> e.fifo, minute |-> e.minute, logobs |-> e.logobs,
   now |-> 0, running |-> 0, applied |-> Len(e.chain) + 1, napplied |-> 0,
   inv |-> [i \in 1..e.n |-> IdleInv]]

Dummy == CReset([chain |-> <<>>, n |-> 1, fifo |-> FALSE, minute |-> 60, logobs |-> TRUE])

K(c) == Len(c.chain)
PosOf(c, w) == IF \E p \in 1..K(c) : c.chain[p] = w THEN CHOOSE p \in 1..K(c) : c.chain[p] = w /\ \A q \in 1..(p - 1) : c.chain[q] # w ELSE 0
Has(c, w) == PosOf(c, w) # 0
HasBlocker(c) == Has(c, "skip") \/ Has(c, "delay")
Marks(c) == {p \in 1..K(c) : c.chain[p] = "m"}
Top(s) == IF s = <<>> THEN 0 ELSE s[Len(s)]
(* the next mark strictly after position from; the job's position when there is none *)
NextMark(c, from) == IF \E p \in Marks(c) : p > from THEN CHOOSE p \in Marks(c) : p > from /\ \A q \in Marks(c) : q > from => q >= p ELSE K(c) + 1
Open(v) == v.ph \in {"down", "run", "up"}

(* going down from below position a to position b: the Delay wrapper, if passed, must have logged a long delay *)
DelayOwed(c, v, a, b) ==
  LET dp == PosOf(c, "delay") IN dp # 0 /\ a < dp /\ dp < b /\ c.now - v.t0 > c.minute /\ ~v.dlog

Known(c, e) == e.i \in 1..c.n

CApply(c, e) ==
  IF ~(e.pos \in Marks(c)) THEN Bad("Then applied a wrapper that is not in the chain")
  ELSE IF e.pos >= c.applied THEN Bad("Then did not apply the wrappers innermost-first (last wrapper of the chain first)")
  ELSE IF \E p \in Marks(c) : e.pos < p /\ p < c.applied THEN Bad("Then left out a wrapper of the chain")
  ELSE [c EXCEPT !.applied = e.pos, !.napplied = @ + 1]

CInvoke(c, e) ==
  LET i == e.i IN
  IF c.inv[i].ph # "idle" THEN Bad("harness: invocation invoked twice")
  ELSE IF c.napplied # Cardinality(Marks(c)) THEN Bad("Then left out a wrapper of the chain")
  ELSE [c EXCEPT !.inv = [j \in 1..c.n |->
          IF j = i THEN [IdleInv EXCEPT !.ph = "down", !.t0 = c.now,
                           !.cand = {x \in 1..c.n : x # i /\ Open(c.inv[x])},
                           !.before = {x \in 1..c.n : x # i /\ Open(c.inv[x]) /\ c.inv[x].waited /\ ~c.inv[x].started}]
          ELSE IF c.inv[j].ph = "down" THEN [c.inv[j] EXCEPT !.cand = @ \cup {i}]
          ELSE c.inv[j]]]

CEnter(c, e) ==
  LET v == c.inv[e.i] IN
  IF v.ph # "down" THEN Bad("a wrapper was entered outside the descent of an invocation")
  ELSE IF e.pos # NextMark(c, Top(v.stack)) THEN Bad("wrappers did not run in chain order m1(m2(m3(job)))")
  ELSE IF DelayOwed(c, v, Top(v.stack), e.pos) THEN Bad("a delay of more than a minute was not logged")
  ELSE [c EXCEPT !.inv[e.i].stack = Append(@, e.pos)]

CDelayLog(c, e) ==
  LET v == c.inv[e.i]  dp == PosOf(c, "delay") IN
  IF dp = 0 THEN Bad("delay logged by a chain without DelayIfStillRunning")
  ELSE IF v.ph # "down" \/ ~(Top(v.stack) < dp /\ dp < NextMark(c, Top(v.stack))) THEN Bad("delay logged out of place")
  ELSE IF v.dlog THEN Bad("delay logged twice")
  ELSE IF ~(c.now - v.t0 > c.minute) THEN Bad("delay logged for a delay of at most a minute")
  ELSE IF e.dur # c.now - v.t0 THEN Bad("logged delay is not the time the invocation waited")
  ELSE [c EXCEPT !.inv[e.i].dlog = TRUE]

CSkipLog(c, e) ==
  LET v == c.inv[e.i]  sp == PosOf(c, "skip") IN
  IF sp = 0 THEN Bad("skip logged by a chain without SkipIfStillRunning")
  ELSE IF v.ph # "down" \/ ~(Top(v.stack) < sp /\ sp < NextMark(c, Top(v.stack))) THEN Bad("skip logged out of place")
  ELSE IF DelayOwed(c, v, Top(v.stack), sp) THEN Bad("a delay of more than a minute was not logged")
  ELSE IF v.cand = {} THEN Bad("invocation skipped while no run was in flight")
  ELSE [c EXCEPT !.inv[e.i].skipped = TRUE, !.inv[e.i].ph = "up", !.inv[e.i].upPos = sp, !.inv[e.i].pan = FALSE]

CStart(c, e) ==
  LET v == c.inv[e.i] IN
  IF v.ph = "up" /\ v.skipped THEN Bad("a skipped invocation ran the job")
  ELSE IF v.ph \in {"ret", "esc", "idle"} THEN Bad("the job ran outside an invocation (queued or run later)")
  ELSE IF v.ph # "down" THEN Bad("the job ran twice in one invocation")
  ELSE IF NextMark(c, Top(v.stack)) # K(c) + 1 THEN Bad("wrappers did not run in chain order m1(m2(m3(job)))")
  ELSE IF DelayOwed(c, v, Top(v.stack), K(c) + 1) THEN Bad("a delay of more than a minute was not logged")
  ELSE IF HasBlocker(c) /\ c.running >= 1 THEN Bad("two runs of the job in flight")
  ELSE IF c.fifo /\ \E x \in v.before : ~c.inv[x].started /\ ~c.inv[x].skipped
         THEN Bad("a later invocation ran before one that was already waiting")
  ELSE [c EXCEPT !.inv[e.i].ph = "run", !.inv[e.i].started = TRUE, !.running = @ + 1]

CEnd(c, e) ==
  IF c.inv[e.i].ph # "run" THEN Bad("harness: end without start")
  ELSE [c EXCEPT !.inv[e.i].ph = "up", !.inv[e.i].upPos = K(c) + 1, !.inv[e.i].pan = e.p, !.running = @ - 1]

CErrLog(c, e) ==
  LET v == c.inv[e.i]  rp == PosOf(c, "recover") IN
  IF rp = 0 THEN c      \* an error logged by some other wrapper: not constrained
  ELSE IF v.ph # "up" \/ ~v.pan THEN Bad("Recover logged a panic that did not happen")
  ELSE IF ~(Top(v.stack) < rp /\ rp < v.upPos) THEN Bad("panic logged out of place")
  ELSE IF ~e.match THEN Bad("the logged error is not the panic value")
  ELSE IF ~e.stack THEN Bad("the panic was logged without a stack")
  ELSE [c EXCEPT !.inv[e.i].pan = FALSE, !.inv[e.i].upPos = rp]

CExit(c, e) ==
  LET v == c.inv[e.i]  rp == PosOf(c, "recover") IN
  IF v.ph # "up" \/ v.stack = <<>> \/ Top(v.stack) # e.pos THEN Bad("wrappers did not unwind in reverse chain order")
  ELSE IF v.pan /\ rp # 0 /\ e.pos < rp /\ rp < v.upPos THEN
         IF e.p THEN Bad("a panic passed through Recover")
         ELSE IF c.logobs THEN Bad("Recover swallowed a panic without logging it")
         ELSE [c EXCEPT !.inv[e.i].stack = SubSeq(@, 1, Len(@) - 1), !.inv[e.i].upPos = e.pos, !.inv[e.i].pan = FALSE]
  ELSE IF e.p /\ ~v.pan THEN Bad("a wrapper panicked on its own")
  ELSE [c EXCEPT !.inv[e.i].stack = SubSeq(@, 1, Len(@) - 1), !.inv[e.i].upPos = e.pos, !.inv[e.i].pan = e.p]

CRet(c, e) ==
  LET v == c.inv[e.i]  rp == PosOf(c, "recover") IN
  IF v.ph = "down" THEN
       IF Has(c, "skip") THEN Bad("invocation neither ran the job nor was logged as skipped")
       ELSE Bad("invocation returned without running the job")
  ELSE IF v.ph # "up" THEN Bad("harness: return out of place")
  ELSE IF v.stack # <<>> THEN Bad("wrappers did not unwind in reverse chain order")
  ELSE IF v.pan /\ rp # 0 /\ rp < v.upPos /\ c.logobs THEN Bad("Recover swallowed a panic without logging it")
  ELSE [c EXCEPT !.inv[e.i].ph = "ret"]

CEscaped(c, e) ==
  LET v == c.inv[e.i]  rp == PosOf(c, "recover") IN
  IF rp # 0 /\ (v.ph # "up" \/ rp < v.upPos) THEN Bad("a panic propagated to the caller through Recover")
  ELSE [c EXCEPT !.inv[e.i].ph = "esc"]

CWaiting(c, e) ==
  IF c.inv[e.i].ph = "down" THEN [c EXCEPT !.inv[e.i].waited = TRUE] ELSE c

CDone(c) ==
  IF \E i \in 1..c.n : Open(c.inv[i]) THEN Bad("an invocation never completed although no job was running")
  ELSE IF \E i \in 1..c.n : c.inv[i].skipped /\ ~\E x \in c.inv[i].cand : c.inv[x].started
         THEN Bad("invocation skipped while no run was in flight")
  ELSE c

CNext(c, e) ==
  IF e.ev = "clock" THEN (IF e.now < c.now THEN Bad("harness: clock went back") ELSE [c EXCEPT !.now = e.now])
  ELSE IF e.ev = "apply" THEN CApply(c, e)
  ELSE IF e.ev = "done" THEN CDone(c)
  ELSE IF ~Known(c, e) THEN Bad("the job or a wrapper ran outside any invocation")
  ELSE CASE e.ev = "invoke" -> CInvoke(c, e)
         [] e.ev = "enter" -> CEnter(c, e)
         [] e.ev = "exit" -> CExit(c, e)
         [] e.ev = "skiplog" -> CSkipLog(c, e)
         [] e.ev = "delaylog" -> CDelayLog(c, e)
         [] e.ev = "start" -> CStart(c, e)
         [] e.ev = "end" -> CEnd(c, e)
         [] e.ev = "errlog" -> CErrLog(c, e)
         [] e.ev = "ret" -> CRet(c, e)
         [] e.ev = "escaped" -> CEscaped(c, e)
         [] e.ev = "waiting" -> CWaiting(c, e)
         [] OTHER -> Bad("harness: unknown event")
=============================================================================
