SPECIFICATION Spec
CONSTANTS MaxInv = 2 MaxNow = 1 Minute = 0 Panics = TRUE SkipPutsBackOnPanic = TRUE Barging = FALSE Fifo = TRUE
CONSTANT Chains <- ChainsBig
INVARIANTS NotBad OneRunner MutexSane
PROPERTIES Terminates DelayRunsAll
CHECK_DEADLOCK FALSE
