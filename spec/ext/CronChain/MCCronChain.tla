---------------------------- MODULE MCCronChain ----------------------------
(* Constants for the exhaustive runs of CronChainImpl (cfg files cannot hold *)
(* sequences of strings).                                                    *)
EXTENDS CronChainImpl

ChainsSmall == { <<>>, <<"m", "m">>, <<"recover">>, <<"skip">>, <<"delay">>,
                 <<"recover", "skip">>, <<"skip", "recover">>, <<"recover", "delay">>,
                 <<"m", "skip", "m">>, <<"m", "delay", "m">>, <<"m", "recover", "m">> }
ChainsBig == ChainsSmall \cup
               { <<"m", "m", "m">>, <<"delay", "recover">>, <<"delay", "skip">>, <<"skip", "delay">>,
                 <<"recover", "m", "skip", "m">>, <<"recover", "m", "delay", "m">>,
                 <<"m", "recover", "skip", "delay">> }
ChainsFour == { <<"skip">>, <<"delay">>, <<"recover", "skip">>, <<"recover", "delay">>, <<"skip", "delay">> }
ChainsSkip == { <<"skip">>, <<"recover", "skip">> }
ChainsDelay == { <<"delay">>, <<"m", "delay", "m">> }
=============================================================================
