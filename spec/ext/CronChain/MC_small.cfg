SPECIFICATION Spec
CONSTANTS MaxInv = 3 MaxNow = 1 Minute = 0 Panics = TRUE SkipPutsBackOnPanic = TRUE Barging = FALSE Fifo = TRUE
CONSTANT Chains <- ChainsSmall
INVARIANTS NotBad OneRunner MutexSane
CHECK_DEADLOCK FALSE
