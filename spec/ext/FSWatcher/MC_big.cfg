SPECIFICATION Spec
CONSTANTS Keys <- KeysABC Interval = 3 Steps <- Steps1235 MaxTouch = 4 MaxTick = 4 MaxPoll = 4 Consumers <- Both BufCap = 2 Defect = "none"
INVARIANTS NotBad OwedInPipeline
CHECK_DEADLOCK FALSE
