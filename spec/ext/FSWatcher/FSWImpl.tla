------------------------------- MODULE FSWImpl -------------------------------
(* Implementation-shaped model of fswatcher/fswatcher.go on top of            *)
(* events/batcher:                                                            *)
(*   kernel/fsnotify event stream (kq, FIFO of file names)                    *)
(*     -> Run loop: batcher.Batch(event.Name)  (queue item per name, due =    *)
(*        clock + interval, a new event for the name replaces the item)       *)
(*     -> queue processor: when the clock reaches the head item's due time,   *)
(*        execute pushes into the subscriber's buffer (capacity BufCap)       *)
(*     -> forwarder goroutine: buffer -> event channel (blocks on a slow      *)
(*        consumer; leaves and closes the channel when ctx is done)           *)
(* composed with a harness that acts only at quiescent points (as the real    *)
(* harness does): file operations, clock steps, polls of a slow consumer, a   *)
(* second Run call, cancellation.  Every visible step feeds the contract      *)
(* monitor of FSWContract; the invariant is that the monitor never goes bad.  *)
EXTENDS FSWContract

CONSTANTS Keys,        \* file names
          Interval,    \* ms
          Steps,       \* clock step sizes (ms)
          MaxTouch, MaxTick, MaxPoll,
          Consumers,   \* subset of {"prompt", "slow"}: the consumer kind is chosen initially
          BufCap,      \* subscriber buffer (50 in the code)
          Defect       \* "none" | "noreset" (a new event does not restart the interval) | "fixedkey" (one batch key for all names)
                       \* | "nobatch" (one notification per fsnotify event) | "sendafter" (forwarder keeps sending after cancel) | "rerun" (second Run accepted)

VARIABLES cons, now, kq, items, buf, hand, phase, chClosed, sawClosed, run2, nTouch, nTick, nPoll, dirty, c
vars == <<cons, now, kq, items, buf, hand, phase, chClosed, sawClosed, run2, nTouch, nTick, nPoll, dirty, c>>

RECURSIVE Feed(_, _)
Feed(cc, evs) == IF evs = <<>> THEN cc ELSE Feed(CNext(cc, Head(evs)), Tail(evs))

BKey(k) == IF Defect = "fixedkey" THEN "*" ELSE k
BKeys == {BKey(k) : k \in Keys}

Init == /\ now = 0 /\ kq = <<>> /\ items = [k \in BKeys |-> 0] /\ buf = 0 /\ hand = 0
        /\ phase = "init" /\ chClosed = FALSE /\ sawClosed = FALSE /\ run2 = FALSE
        /\ nTouch = 0 /\ nTick = 0 /\ nPoll = 0 /\ dirty = FALSE
        /\ cons \in Consumers
        /\ c = CReset([mode |-> "fake", interval |-> Interval, consumer |-> cons])

Due == {k \in BKeys : items[k] # 0 /\ items[k] <= now}
FireEnabled == phase = "running" /\ Due # {} /\ buf < BufCap
FwdEnabled == phase = "running" /\ buf > 0 /\ hand = 0
(* nothing inside the component can move (a forwarder blocked on a slow consumer, an execute blocked on a full buffer count as blocked) *)
Settled == /\ (phase = "running" => kq = <<>>)
           /\ ~FireEnabled /\ ~FwdEnabled
           /\ (cons = "prompt" /\ phase = "running" => hand = 0)
           /\ phase # "cancelled"
           /\ (cons = "prompt" /\ chClosed => sawClosed)

(* ---- harness / environment (only at quiescent points) ---- *)
Start == /\ phase = "init" /\ phase' = "running" /\ dirty' = TRUE
         /\ c' = CNext(c, [ev |-> "run_call", r |-> 1])
         /\ UNCHANGED <<cons, now, kq, items, buf, hand, chClosed, sawClosed, run2, nTouch, nTick, nPoll>>

(* a file operation: one name with one or two fsnotify events (write / truncate+write), or two names (rename) *)
TouchSeqs == {<<k>> : k \in Keys} \cup {<<k, k>> : k \in Keys} \cup {p \in Keys \X Keys : p[1] # p[2]}
Touch(ks) == /\ Settled /\ phase \in {"init", "running", "returned"} /\ nTouch < MaxTouch
             /\ (phase = "running" => Due = {})     \* the harness does not change files while execute is blocked on a full buffer (a change then merges with the blocked item)
             /\ nTouch' = nTouch + 1 /\ dirty' = TRUE
             /\ kq' = IF phase = "returned" THEN kq ELSE kq \o ks          \* after Run returned the fsnotify watcher is closed
             /\ c' = CNext(c, [ev |-> "touch", keys |-> ks, n |-> Len(ks)])
             /\ UNCHANGED <<cons, now, items, buf, hand, phase, chClosed, sawClosed, run2, nTick, nPoll>>

Tick(d) == /\ Settled /\ phase # "init" /\ nTick < MaxTick
           /\ now' = now + d /\ nTick' = nTick + 1 /\ dirty' = TRUE
           /\ c' = CNext(c, [ev |-> "tick", d |-> d])
           /\ UNCHANGED <<cons, kq, items, buf, hand, phase, chClosed, sawClosed, run2, nTouch, nPoll>>

Poll == /\ cons = "slow" /\ Settled /\ phase # "init" /\ nPoll < MaxPoll /\ ~sawClosed
        /\ nPoll' = nPoll + 1 /\ dirty' = TRUE
        /\ IF hand = 1 THEN /\ hand' = 0 /\ c' = CNext(c, [ev |-> "notify", r |-> 1]) /\ UNCHANGED sawClosed
           ELSE IF chClosed THEN /\ sawClosed' = TRUE /\ c' = CNext(c, [ev |-> "chclosed", r |-> 1]) /\ UNCHANGED hand
           ELSE /\ c' = CNext(c, [ev |-> "empty", r |-> 1]) /\ UNCHANGED <<hand, sawClosed>>
        /\ UNCHANGED <<cons, now, kq, items, buf, phase, chClosed, run2, nTouch, nTick>>

Run2 == /\ Settled /\ phase \in {"running", "returned"} /\ ~run2 /\ ~dirty    \* at an established quiescent point
        /\ run2' = TRUE /\ dirty' = TRUE
        /\ c' = Feed(c, <<[ev |-> "run_call", r |-> 2], [ev |-> "run_ret", r |-> 2, err |-> (Defect # "rerun")]>>)
        /\ UNCHANGED <<cons, now, kq, items, buf, hand, phase, chClosed, sawClosed, nTouch, nTick, nPoll>>

Cancel == /\ Settled /\ phase = "running" /\ phase' = "cancelled" /\ dirty' = TRUE
          /\ c' = CNext(c, [ev |-> "cancel"])
          /\ UNCHANGED <<cons, now, kq, items, buf, hand, chClosed, sawClosed, run2, nTouch, nTick, nPoll>>

Quiet == /\ Settled /\ dirty /\ dirty' = FALSE
         /\ c' = CNext(c, [ev |-> "quiet", waited |-> FALSE])
         /\ UNCHANGED <<cons, now, kq, items, buf, hand, phase, chClosed, sawClosed, run2, nTouch, nTick, nPoll>>

(* ---- the component ---- *)
(* Run loop: case event := <-f.w.Events: f.batcher.Batch(event.Name, struct{}{}) *)
Loop == /\ phase = "running" /\ kq # <<>>
        /\ LET k == BKey(Head(kq)) IN
           IF Defect = "nobatch"
           THEN /\ buf < BufCap /\ buf' = buf + 1 /\ UNCHANGED items
           ELSE /\ items' = [items EXCEPT ![k] = IF Defect = "noreset" /\ @ # 0 THEN @ ELSE now + Interval]
                /\ UNCHANGED buf
        /\ kq' = Tail(kq) /\ dirty' = TRUE
        /\ c' = CNext(c, [ev |-> "seen"])
        /\ UNCHANGED <<cons, now, hand, phase, chClosed, sawClosed, run2, nTouch, nTick, nPoll>>

(* queue processor + Batcher.execute: the earliest due item goes into the subscriber's buffer *)
Fire == /\ FireEnabled
        /\ \E k \in Due : /\ \A j \in Due : items[k] <= items[j]
                          /\ items' = [items EXCEPT ![k] = 0]
        /\ buf' = buf + 1 /\ dirty' = TRUE
        /\ UNCHANGED <<cons, now, kq, hand, phase, chClosed, sawClosed, run2, nTouch, nTick, nPoll, c>>

Fwd == /\ FwdEnabled /\ buf' = buf - 1 /\ hand' = 1 /\ dirty' = TRUE
       /\ UNCHANGED <<cons, now, kq, items, phase, chClosed, sawClosed, run2, nTouch, nTick, nPoll, c>>

(* forwarder: case ch <- env (a prompt consumer is always receiving) *)
Deliver == /\ cons = "prompt" /\ hand = 1 /\ (phase = "running" \/ Defect = "sendafter")
           /\ hand' = 0 /\ dirty' = TRUE
           /\ c' = CNext(c, [ev |-> "notify", r |-> 1])
           /\ UNCHANGED <<cons, now, kq, items, buf, phase, chClosed, sawClosed, run2, nTouch, nTick, nPoll>>

(* ctx.Done: Run closes the fsnotify watcher and the batcher (pending items are dropped), the forwarder leaves and closes the channel, Run returns *)
Exit == /\ phase = "cancelled" /\ phase' = "returned"
        /\ kq' = <<>> /\ items' = [k \in BKeys |-> 0] /\ buf' = 0
        /\ hand' = IF Defect = "sendafter" THEN hand ELSE 0
        /\ chClosed' = (Defect # "sendafter") /\ dirty' = TRUE
        /\ c' = CNext(c, [ev |-> "run_ret", r |-> 1, err |-> FALSE])
        /\ UNCHANGED <<cons, now, sawClosed, run2, nTouch, nTick, nPoll>>

SeeClosed == /\ cons = "prompt" /\ chClosed /\ ~sawClosed /\ sawClosed' = TRUE /\ dirty' = TRUE
             /\ c' = CNext(c, [ev |-> "chclosed", r |-> 1])
             /\ UNCHANGED <<cons, now, kq, items, buf, hand, phase, chClosed, run2, nTouch, nTick, nPoll>>

Next == \/ Start \/ (\E ks \in TouchSeqs : Touch(ks)) \/ (\E d \in Steps : Tick(d)) \/ Poll \/ Run2 \/ Cancel \/ Quiet
        \/ Loop \/ Fire \/ Fwd \/ Deliver \/ Exit \/ SeeClosed
Spec == Init /\ [][Next]_vars

NotBad == ~IsBad(c)
(* the model's own bookkeeping agrees with the monitor's: what the monitor thinks is owed is in the pipeline *)
OwedInPipeline == (phase = "running" /\ Settled /\ Defect = "none") => c.owed = buf + hand + Cardinality(Due)
=============================================================================
