---------------------------- MODULE FSWContract ----------------------------
(* X03 - fswatcher.FSWatcher as seen by its user: a deterministic monitor    *)
(* over the events a harness can observe from the outside.                   *)
(*                                                                           *)
(*   reset {mode, interval, consumer}  mode "fake": the batcher runs on a     *)
(*                              clock only the harness moves (ms);            *)
(*                              mode "real": wall clock, only counting facts  *)
(*                              mode "new": construction cases only           *)
(*   new {case, err}            fswatcher.New: case "missing" (a target that  *)
(*                              does not exist) and "negative" (interval < 0) *)
(*                              must fail, every other case must succeed      *)
(*   run_call {r} / run_ret {r, err}   Run call number r / its return         *)
(*   touch {keys, n}            the harness changed the files `keys` of a     *)
(*                              watched target (n: number of fsnotify events  *)
(*                              the operation produces at most)               *)
(*   seen {}                    the watcher consumed one fsnotify event       *)
(*                              (binding information, ignored here)           *)
(*   tick {d}                   the clock was moved by d ms (mode fake), only *)
(*                              at points where the watcher had consumed all  *)
(*                              fsnotify events of the earlier touches        *)
(*   notify {r}                 a value arrived on the channel of Run r       *)
(*   empty {r}                  a slow consumer polled the channel of Run r   *)
(*                              at a quiescent point and found nothing        *)
(*   chclosed {r}               the consumer of Run r found its channel closed*)
(*   cancel                     the context of the Run calls was cancelled    *)
(*   quiet {waited}             nothing can move any more: every goroutine is *)
(*                              blocked (mode real: and `waited` says that    *)
(*                              far more than an interval has passed)         *)
(*                                                                           *)
(* What the contract says (doc comments, code, the package's tests):         *)
(*  - one notification per changed file name and quiet interval: a change of *)
(*    a file (re)starts that file's interval; when the clock reaches the     *)
(*    last change + interval exactly one notification becomes due;           *)
(*  - no notification that is not due (none without a change, none early,    *)
(*    no duplicates);                                                        *)
(*  - a due notification is delivered (prompt consumer: by the next          *)
(*    quiescent point; slow consumer: it is there when polled);              *)
(*  - exactly one Run call is accepted, every other one returns an error and *)
(*    never touches its channel; Run returns only after the cancellation     *)
(*    (or with an error), and does return after it; nothing is sent after    *)
(*    Run returned; the channel is not closed while Run is running.          *)
EXTENDS Integers, Sequences, FiniteSets, TLC

Bad(why) == [bad |-> TRUE, why |-> why]
IsBad(c) == c.bad
ToSet(s) == {s[i] : i \in 1..Len(s)}

CReset(e) == [bad |-> FALSE, why |-> "", mode |-> e.mode, interval |-> e.interval, consumer |-> e.consumer,
              now |-> 0, pend |-> << >>, owed |-> 0,
              calls |-> {}, est |-> {}, mustfail |-> {}, active |-> {}, lost |-> {}, returned |-> {},
              cancelled |-> FALSE,
              credits |-> 0, burst |-> {}, got |-> 0]

Running(c) == c.active # {} /\ ~c.cancelled

Stamp(c, ks) == [k \in DOMAIN c.pend \cup ks |-> IF k \in ks THEN c.now + c.interval ELSE c.pend[k]]

CTouch(c, e) ==
  LET ks == ToSet(e.keys) IN
  IF c.cancelled THEN c
  ELSE IF c.mode = "real" THEN [c EXCEPT !.credits = @ + e.n, !.burst = @ \cup ks]
  ELSE [c EXCEPT !.pend = Stamp(c, ks)]

CTick(c, e) ==
  LET t == c.now + e.d
      due == {k \in DOMAIN c.pend : c.pend[k] <= t}
  IN IF Running(c) THEN [c EXCEPT !.now = t, !.owed = @ + Cardinality(due), !.pend = [k \in DOMAIN c.pend \ due |-> c.pend[k]]]
     ELSE [c EXCEPT !.now = t]

CNotify(c, e) ==
  IF e.r \in c.lost \/ e.r \in c.mustfail THEN Bad("a rejected Run call sent on its channel")
  ELSE IF e.r \in c.returned THEN Bad("a notification was sent after Run returned")
  ELSE IF c.mode = "real" THEN
       IF c.credits = 0 THEN Bad("a notification without a file system change")
       ELSE [c EXCEPT !.credits = @ - 1, !.got = @ + 1]
  ELSE IF c.owed = 0 THEN
       (IF DOMAIN c.pend = {} THEN Bad("a notification without a change: nothing was pending")
        ELSE Bad("a notification before the quiet interval of its change elapsed, or a duplicate"))
  ELSE [c EXCEPT !.owed = @ - 1]

CEmpty(c, e) ==
  IF Running(c) /\ e.r \in c.active /\ c.mode = "fake" /\ c.owed > 0
  THEN Bad("a due notification is not there for the consumer at quiescence")
  ELSE c

CQuiet(c, e) ==
  IF c.calls # {} /\ ~c.cancelled /\ Cardinality(c.active) > 1 THEN Bad("more than one Run call was accepted")
  ELSE IF c.calls # {} /\ ~c.cancelled /\ c.active = {} THEN Bad("no Run call is running although the context is not cancelled")
  ELSE IF c.cancelled /\ c.active # {} THEN Bad("Run did not return after its context was cancelled")
  ELSE IF c.mode = "fake" /\ Running(c) /\ c.consumer = "prompt" /\ c.owed > 0
       THEN Bad("a change was not notified one interval after the last change of its burst")
  ELSE IF c.mode = "real" /\ Running(c) /\ e.waited /\ c.got < Cardinality(c.burst)
       THEN Bad("a change was not notified although far more than an interval has passed")
  ELSE IF c.mode = "real" /\ e.waited THEN [c EXCEPT !.est = c.calls, !.credits = 0, !.burst = {}, !.got = 0]
  ELSE [c EXCEPT !.est = c.calls]

CRunCall(c, e) ==
  LET c1 == [c EXCEPT !.calls = @ \cup {e.r}, !.active = @ \cup {e.r},
                      !.mustfail = IF c.est # {} THEN @ \cup {e.r} ELSE @]
  IN IF c.calls = {} /\ c.mode = "fake" THEN [c1 EXCEPT !.pend = Stamp(c, DOMAIN c.pend)] ELSE c1   \* changes before Run are picked up when Run starts

CRunRet(c, e) ==
  LET c1 == [c EXCEPT !.active = @ \ {e.r}, !.returned = @ \cup {e.r}] IN
  IF e.r \in c.mustfail /\ ~e.err THEN Bad("a second Run call did not return an error")
  ELSE IF ~c.cancelled /\ ~e.err THEN Bad("Run returned nil although its context was not cancelled")
  ELSE IF ~c.cancelled THEN [c1 EXCEPT !.lost = @ \cup {e.r}]
  ELSE c1

CClosed(c, e) ==
  IF e.r \in c.lost \/ e.r \in c.mustfail THEN Bad("a rejected Run call closed its channel")
  ELSE IF ~c.cancelled THEN Bad("the event channel was closed while Run was running")
  ELSE c

CNew(c, e) ==
  IF e.case \in {"missing", "negative"} /\ ~e.err THEN Bad("New accepted a target that does not exist or a negative interval")
  ELSE IF e.case \notin {"missing", "negative"} /\ e.err THEN Bad("New rejected valid options")
  ELSE c

CNext(c, e) ==
  IF e.ev = "reset" THEN CReset(e)
  ELSE IF IsBad(c) THEN c
  ELSE CASE e.ev = "touch"    -> CTouch(c, e)
         [] e.ev = "seen"     -> c
         [] e.ev = "tick"     -> CTick(c, e)
         [] e.ev = "notify"   -> CNotify(c, e)
         [] e.ev = "empty"    -> CEmpty(c, e)
         [] e.ev = "chclosed" -> CClosed(c, e)
         [] e.ev = "cancel"   -> [c EXCEPT !.cancelled = TRUE]
         [] e.ev = "quiet"    -> CQuiet(c, e)
         [] e.ev = "run_call" -> CRunCall(c, e)
         [] e.ev = "run_ret"  -> CRunRet(c, e)
         [] e.ev = "new"      -> CNew(c, e)
=============================================================================
