SPECIFICATION Spec
CONSTANTS Keys <- KeysAB Interval = 2 Steps <- Steps123 MaxTouch = 3 MaxTick = 3 MaxPoll = 3 Consumers <- Both BufCap = 1 Defect = "fixedkey"
INVARIANTS NotBad OwedInPipeline
CHECK_DEADLOCK FALSE
