------------------------------ MODULE TraceFSW ------------------------------
(* Validates recorded executions of the real fswatcher.FSWatcher (real temp  *)
(* directories, real fsnotify events, the batcher on a harness-owned clock)  *)
(* against the X03 contract monitor.  trace.ndjson holds many runs, each     *)
(* starting with a "reset" line; the monitor is deterministic.               *)
EXTENDS FSWContract, TraceLib

Trace == LoadTrace("trace.ndjson")
Starts == {i \in 1..Len(Trace) : Trace[i].ev = "reset"}
VARIABLES l, c
TInit == l \in Starts /\ c = CReset(Trace[l])
TNext == /\ ~IsBad(c)
         /\ l + 1 <= Len(Trace)
         /\ Trace[l + 1].ev # "reset"
         /\ c' = CNext(c, Trace[l + 1])
         /\ l' = l + 1
TSpec == TInit /\ [][TNext]_<<l, c>>
Report == IF IsBad(c) THEN RejectLine(l, c.why) ELSE TRUE
=============================================================================
