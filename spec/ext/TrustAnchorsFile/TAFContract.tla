---------------------------- MODULE TAFContract ----------------------------
(* X04 - crypto/spiffe/trustanchors: the file-backed trust anchor source     *)
(* (FromFile) as seen by its users: a deterministic monitor over             *)
(*                                                                           *)
(*   reset {}                                                                *)
(*   write {v, valid, atomic}   the harness put content into the file: a     *)
(*                              valid bundle with version v (v grows), or    *)
(*                              garbage (valid = FALSE); atomic: the content *)
(*                              was renamed into place (never half-written)  *)
(*   remove {}                  the file was removed                         *)
(*   run_call {r} / run_ret {r, err} / run_cancel                            *)
(*   cta_call {i, probe} / cta_ret {i, ok, v} / cta_cancel {i}               *)
(*                              CurrentTrustAnchors call i; v: the version    *)
(*                              of the returned bytes (-1: bytes that were   *)
(*                              never written as a valid bundle); probe: the *)
(*                              call was issued at a quiescent point         *)
(*   watch_call {s, kind} / watch_ret {s} / sub_cancel {s} / drain {s}        *)
(*                              Watch call s with a prompt or slow consumer;  *)
(*                              drain: a slow consumer starts reading freely  *)
(*   recv {s, v}                the consumer of s received version v          *)
(*   quiet {}                   every goroutine is blocked and has been for   *)
(*                              many batching intervals                       *)
(*                                                                           *)
(* The contract (doc comments, code, the package's tests):                   *)
(*  - Run once: a second Run returns an error.  Run returns nil only after   *)
(*    its context was cancelled; it may fail only if the file was at some    *)
(*    point missing/garbage/half-written (the package's tests: "writing a    *)
(*    bad root PEM file should make Run return error").                      *)
(*  - CurrentTrustAnchors never returns bytes that are not a bundle that was *)
(*    written (nothing before the initial load, no garbage: a failed update  *)
(*    leaves the current bundle in place), never goes back to an older       *)
(*    bundle, and at quiescence - Run running, file valid - returns the      *)
(*    latest one.                                                            *)
(*  - Every Watch subscriber receives written bundles only, never an older   *)
(*    one after a newer one, and at quiescence has received the latest one   *)
(*    if it was written after the subscription.  (Duplicates are allowed:    *)
(*    the directory is watched, every notification reloads.)                 *)
(*  - Nothing deadlocks: at quiescence no CurrentTrustAnchors call is        *)
(*    pending once the source is ready or closed or the call's context is    *)
(*    done, no Watch is pending once its context is done or Run ended, Run   *)
(*    is not pending after its cancellation.  While a live subscriber's      *)
(*    consumer is not reading (slow), the source may legitimately be held up *)
(*    by it: the pending-call and freshness rules are suspended then.        *)
EXTENDS Integers, Sequences, FiniteSets, TLC

Bad(why) == [bad |-> TRUE, why |-> why]
IsBad(c) == c.bad

CReset == [bad |-> FALSE, why |-> "", latest |-> 0, fileOK |-> FALSE, everInvalid |-> FALSE,
           first |-> 0, calls |-> {}, est |-> {}, mustfail |-> {}, active |-> {}, returned |-> {}, cancelled |-> FALSE,
           ctaOpen |-> {}, ctaCancelled |-> {}, expect |-> << >>, lastCTA |-> 0, closedSeen |-> FALSE, early |-> 0,
           subs |-> << >>]

Ended(c) == c.first \in c.returned
Serving(c) == c.first \in c.active /\ c.first \in c.est /\ ~c.cancelled /\ c.fileOK     \* Run is up, had time to load, file valid
Live(c, s) == c.subs[s].st = "open" /\ ~c.subs[s].ctxdone
LiveSlow(c) == \E s \in DOMAIN c.subs : Live(c, s) /\ c.subs[s].kind = "slow"
SomeoneLeft(c) == \E s \in DOMAIN c.subs : ~Live(c, s)
(* early: file changes made after Run was called and before any call returned a bundle: they race the initial load *)
Early(c) == IF c.first \in c.active /\ c.lastCTA = 0 THEN c.early + 1 ELSE c.early
Context(c) == IF c.early >= 2 THEN " (the file kept changing while Run was picking it up)"
              ELSE IF SomeoneLeft(c) THEN " (a Watch subscriber left earlier)"
              ELSE IF DOMAIN c.subs # {} THEN " (all subscribers live and reading)" ELSE " (no subscribers)"

CWrite(c, e) ==
  IF e.valid THEN [c EXCEPT !.latest = e.v, !.fileOK = TRUE, !.everInvalid = @ \/ ~e.atomic, !.early = Early(c)]
  ELSE [c EXCEPT !.fileOK = FALSE, !.everInvalid = TRUE, !.early = Early(c)]

CRunCall(c, e) ==
  [c EXCEPT !.calls = @ \cup {e.r}, !.active = @ \cup {e.r}, !.first = IF c.calls = {} THEN e.r ELSE @,
            !.mustfail = IF c.calls # {} THEN @ \cup {e.r} ELSE @,
            !.everInvalid = IF c.calls = {} THEN @ \/ ~c.fileOK ELSE @]

CRunRet(c, e) ==
  LET c1 == [c EXCEPT !.active = @ \ {e.r}, !.returned = @ \cup {e.r}] IN
  IF e.r \in c.mustfail THEN (IF e.err THEN c1 ELSE Bad("a second Run call did not return an error"))
  ELSE IF c.cancelled THEN c1
  ELSE IF ~e.err THEN Bad("Run returned nil although its context was not cancelled")
  ELSE IF ~c.everInvalid THEN Bad("Run failed although the file always held a valid bundle")
  ELSE c1

CCtaCall(c, e) ==
  [c EXCEPT !.ctaOpen = @ \cup {e.i},
            !.expect = (e.i :> (IF e.probe /\ Serving(c) /\ ~LiveSlow(c) THEN c.latest ELSE 0)) @@ @]

CCtaRet(c, e) ==
  LET c1 == [c EXCEPT !.ctaOpen = @ \ {e.i}] IN
  IF e.ok THEN
       IF c.calls = {} THEN Bad("CurrentTrustAnchors returned a bundle although Run was never called")
       ELSE IF e.v < 1 THEN Bad("CurrentTrustAnchors returned bytes that are not a bundle written to the file")
       ELSE IF e.v < c.lastCTA THEN Bad("CurrentTrustAnchors went back to an older bundle")
       ELSE IF c.expect[e.i] > 0 /\ e.v # c.expect[e.i] THEN Bad("at quiescence CurrentTrustAnchors did not return the latest valid bundle" \o Context(c))
       ELSE [c1 EXCEPT !.lastCTA = e.v]
  ELSE IF c.expect[e.i] > 0 THEN Bad("CurrentTrustAnchors failed although Run is running and the file is valid")
  ELSE IF e.i \in c.ctaCancelled THEN c1
  ELSE [c1 EXCEPT !.closedSeen = TRUE]

CWatchCall(c, e) == [c EXCEPT !.subs = (e.s :> [kind |-> e.kind, st |-> "open", ctxdone |-> FALSE, last |-> 0, estab |-> FALSE, base |-> 0]) @@ @]

CRecv(c, e) ==
  IF e.v < 1 THEN Bad("a subscriber received bytes that are not a bundle written to the file")
  ELSE IF e.v < c.subs[e.s].last THEN Bad("a subscriber received an older bundle after a newer one")
  ELSE [c EXCEPT !.subs[e.s].last = e.v]

CQuiet(c, e) ==
  LET \* once a call has returned a bundle the source is ready for good: later calls have nothing to wait for but the lock
      stuckCta == {i \in c.ctaOpen : i \in c.ctaCancelled \/ Ended(c) \/ Serving(c) \/ c.lastCTA > 0}
      \* (a Watch call registers under the source's lock: while a live slow consumer holds the source up, it may wait there)
      stuckW == {s \in DOMAIN c.subs : c.subs[s].st = "open" /\ (Ended(c) \/ (c.subs[s].ctxdone /\ ~LiveSlow(c)))}
      behind == {s \in DOMAIN c.subs : Live(c, s) /\ c.subs[s].estab /\ c.latest > c.subs[s].base /\ c.subs[s].last # c.latest}
  IN
  IF c.first \in c.active /\ c.cancelled THEN Bad("Run does not return after its context was cancelled")
  ELSE IF c.closedSeen /\ c.calls # {} /\ ~Ended(c) THEN Bad("CurrentTrustAnchors reported closed although Run has not ended")
  ELSE IF c.closedSeen /\ c.calls = {} THEN Bad("CurrentTrustAnchors reported closed although Run was never called")
  ELSE IF ~LiveSlow(c) /\ stuckCta # {} THEN Bad("CurrentTrustAnchors does not return" \o Context(c))
  ELSE IF stuckW # {} THEN Bad("Watch does not return although its context is done or Run has ended")
  ELSE IF ~LiveSlow(c) /\ Serving(c) /\ behind # {} THEN Bad("a subscriber did not receive the latest bundle" \o Context(c))
  ELSE [c EXCEPT !.est = c.calls,
                 !.subs = [s \in DOMAIN c.subs |-> IF c.subs[s].estab THEN c.subs[s]
                                                    ELSE [c.subs[s] EXCEPT !.estab = TRUE, !.base = c.latest]]]

CNext(c, e) ==
  IF e.ev = "reset" THEN CReset
  ELSE IF IsBad(c) THEN c
  ELSE CASE e.ev = "write"      -> CWrite(c, e)
         [] e.ev = "remove"     -> [c EXCEPT !.fileOK = FALSE, !.everInvalid = TRUE, !.early = Early(c)]
         [] e.ev = "run_call"   -> CRunCall(c, e)
         [] e.ev = "run_ret"    -> CRunRet(c, e)
         [] e.ev = "run_cancel" -> [c EXCEPT !.cancelled = TRUE]
         [] e.ev = "cta_call"   -> CCtaCall(c, e)
         [] e.ev = "cta_ret"    -> CCtaRet(c, e)
         [] e.ev = "cta_cancel" -> [c EXCEPT !.ctaCancelled = @ \cup {e.i}]
         [] e.ev = "watch_call" -> CWatchCall(c, e)
         [] e.ev = "watch_ret"  -> [c EXCEPT !.subs[e.s].st = "returned"]
         [] e.ev = "sub_cancel" -> [c EXCEPT !.subs[e.s].ctxdone = TRUE]
         [] e.ev = "drain"      -> [c EXCEPT !.subs[e.s].kind = "prompt"]
         [] e.ev = "recv"       -> CRecv(c, e)
         [] e.ev = "noval"      -> c
         [] e.ev = "quiet"      -> CQuiet(c, e)
=============================================================================
