SPECIFICATION Spec
CONSTANTS Subs <- Subs1 SubCap = 1 MaxWrites = 4 MaxBad = 1 MaxCta = 1 Inits <- InitsAll Fix = "nonblocking" Defect = "early"
INVARIANTS NotBad
CHECK_DEADLOCK FALSE
