SPECIFICATION Spec
CONSTANTS Subs <- Subs1 SubCap = 1 MaxWrites = 5 MaxBad = 1 MaxCta = 2 Inits <- InitsAll Fix = "nonblocking" Defect = "none"
INVARIANTS NotBad
CHECK_DEADLOCK FALSE
