SPECIFICATION Spec
CONSTANTS Subs <- Subs1 SubCap = 1 MaxWrites = 5 MaxBad = 0 MaxCta = 1 Inits <- InitsValid Fix = "leak" Defect = "none"
INVARIANTS NotBad
CHECK_DEADLOCK FALSE
