------------------------------- MODULE TAFImpl -------------------------------
(* Implementation-shaped model of crypto/spiffe/trustanchors/file.go:        *)
(*   Run: wait for the file, initial updateAnchors, ready, then the reload   *)
(*        loop fed by fswatcher notifications (abstracted to a counter: at   *)
(*        least one notification follows the last change of the directory);  *)
(*        a failed reload ends Run; Run's return closes closeCh.             *)
(*   updateAnchors: write lock; read + parse the file; install; one sender   *)
(*        goroutine per registered subscriber channel (buffer SubCap, 5 in   *)
(*        the code) that blocks until the signal fits or the context is      *)
(*        done; wait for all senders; unlock.                                *)
(*   Watch: register a buffered signal channel under the lock (it is never   *)
(*        unregistered); on a signal read the current bundle under the read  *)
(*        lock and hand it to the consumer.  Two ways to wedge the code as   *)
(*        it is: a subscriber that left leaves a channel nobody drains; a    *)
(*        subscriber that is SubCap+1 signals behind holds one signal while  *)
(*        waiting for the read lock that updateAnchors keeps until the next  *)
(*        signal fits.  Fix selects a repaired variant.                      *)
(*   CurrentTrustAnchors: wait for ready / closed / ctx, then read lock.     *)
(* The environment (the harness) acts only when nothing in the component can *)
(* move, exactly like the real harness, and feeds the contract monitor.      *)
EXTENDS TAFContract

CONSTANTS Subs, SubCap, MaxWrites, MaxBad, MaxCta, Inits,
          Fix,        \* "none": the code as it is | "leak": a sender is released when its subscriber has left (repairs the leaked
                      \* signal channel only) | "nonblocking": the signal send never blocks (a full buffer already means "reload pending")
          Defect      \* "none" | "garbage" (a failed reload installs the bytes and goes on) | "early" (CurrentTrustAnchors does not wait for ready)
                      \* | "stale" (a reload does not install the new bundle) | "rerun" (second Run accepted)

VARIABLES file, nW, nBad, notif, rpc, rerr, ready, closed, root, lockW, reg, sbuf, send, wpc, hv, wctx, kind,
          cta, nCta, rcancel, run2, dirty, justQuiet, c
vars == <<file, nW, nBad, notif, rpc, rerr, ready, closed, root, lockW, reg, sbuf, send, wpc, hv, wctx, kind, cta, nCta, rcancel, run2, dirty, justQuiet, c>>

RECURSIVE Feed(_, _)
Feed(cc, evs) == IF evs = <<>> THEN cc ELSE Feed(CNext(cc, Head(evs)), Tail(evs))

Init == /\ file \in Inits                      \* 0 absent, -1 garbage, 1 valid version 1
        /\ nW = (IF file = 1 THEN 1 ELSE 0) /\ nBad = 0 /\ notif = 0
        /\ rpc = "idle" /\ rerr = FALSE /\ ready = FALSE /\ closed = FALSE /\ root = 0 /\ lockW = FALSE
        /\ reg = {} /\ sbuf = [s \in Subs |-> 0] /\ send = [s \in Subs |-> FALSE]
        /\ wpc = [s \in Subs |-> "none"] /\ hv = [s \in Subs |-> 0] /\ wctx = [s \in Subs |-> FALSE] /\ kind = [s \in Subs |-> "prompt"]
        /\ cta = << >> /\ nCta = 0 /\ rcancel = FALSE /\ run2 = FALSE /\ dirty = FALSE /\ justQuiet = FALSE
        /\ c = IF file = 1 THEN CNext(CReset, [ev |-> "write", v |-> 1, valid |-> TRUE, atomic |-> TRUE])
               ELSE IF file = -1 THEN CNext(CReset, [ev |-> "write", v |-> 0, valid |-> FALSE, atomic |-> TRUE]) ELSE CReset

Valid == file > 0
RunCtxDone == rcancel \/ rpc \in {"exit", "done"}
Watching == rpc \in {"loop", "upd"}            \* the fswatcher exists
Note == IF Watching /\ notif < 2 THEN notif + 1 ELSE notif

(* ------------------------------- component ------------------------------- *)
StartUpdate(nextpc) ==     \* updateAnchors up to the point where it waits for its senders; the caller holds no lock yet
  /\ ~lockW
  /\ IF Valid \/ Defect = "garbage"
     THEN /\ root' = (IF Defect = "stale" /\ root # 0 THEN root ELSE file)
          /\ lockW' = TRUE /\ send' = [s \in Subs |-> s \in reg] /\ rpc' = nextpc /\ UNCHANGED rerr
     ELSE /\ rpc' = "exit" /\ rerr' = TRUE /\ UNCHANGED <<root, lockW, send>>

RStat == /\ rpc = "stat"
         /\ IF file # 0 THEN rpc' = "load0" /\ UNCHANGED rerr
            ELSE rcancel /\ rpc' = "exit" /\ rerr' = TRUE        \* file missing: poll until it is there or the context is done
         /\ UNCHANGED <<file, nW, nBad, notif, ready, closed, root, lockW, reg, sbuf, send, wpc, hv, wctx, kind, cta, nCta, rcancel, run2, justQuiet, c>>
         /\ dirty' = TRUE
RLoad0 == /\ rpc = "load0" /\ StartUpdate("upd0") /\ dirty' = TRUE
          /\ UNCHANGED <<file, nW, nBad, notif, ready, closed, reg, sbuf, wpc, hv, wctx, kind, cta, nCta, rcancel, run2, justQuiet, c>>
RUpdDone == /\ rpc \in {"upd0", "upd"} /\ \A s \in Subs : ~send[s]
            /\ lockW' = FALSE /\ rpc' = "loop" /\ ready' = TRUE /\ dirty' = TRUE
            /\ UNCHANGED <<file, nW, nBad, notif, rerr, closed, root, reg, sbuf, send, wpc, hv, wctx, kind, cta, nCta, rcancel, run2, justQuiet, c>>
Sender(s) == /\ send[s]
             /\ \/ sbuf[s] < SubCap /\ sbuf' = [sbuf EXCEPT ![s] = @ + 1]
                \/ (RunCtxDone \/ (Fix = "leak" /\ wpc[s] = "ret") \/ (Fix = "nonblocking" /\ sbuf[s] = SubCap)) /\ UNCHANGED sbuf
             /\ send' = [send EXCEPT ![s] = FALSE] /\ dirty' = TRUE
             /\ UNCHANGED <<file, nW, nBad, notif, rpc, rerr, ready, closed, root, lockW, reg, wpc, hv, wctx, kind, cta, nCta, rcancel, run2, justQuiet, c>>
RLoop == /\ rpc = "loop"
         /\ \/ /\ rcancel /\ rpc' = "exit" /\ UNCHANGED <<notif, rerr, root, lockW, send>>
            \/ /\ notif > 0 /\ notif' = notif - 1 /\ StartUpdate("upd")
         /\ dirty' = TRUE
         /\ UNCHANGED <<file, nW, nBad, ready, closed, reg, sbuf, wpc, hv, wctx, kind, cta, nCta, rcancel, run2, justQuiet, c>>
RExit == /\ rpc = "exit" /\ rpc' = "done" /\ closed' = TRUE /\ dirty' = TRUE
         /\ c' = CNext(c, [ev |-> "run_ret", r |-> 1, err |-> rerr])
         /\ UNCHANGED <<file, nW, nBad, notif, rerr, ready, root, lockW, reg, sbuf, send, wpc, hv, wctx, kind, cta, nCta, rcancel, run2, justQuiet>>

WReg(s) == /\ wpc[s] = "reg" /\ ~lockW /\ reg' = reg \cup {s} /\ wpc' = [wpc EXCEPT ![s] = "wait"] /\ dirty' = TRUE
           /\ UNCHANGED <<file, nW, nBad, notif, rpc, rerr, ready, closed, root, lockW, sbuf, send, hv, wctx, kind, cta, nCta, rcancel, run2, justQuiet, c>>
WWait(s) == /\ wpc[s] = "wait"
            /\ \/ /\ (wctx[s] \/ closed) /\ wpc' = [wpc EXCEPT ![s] = "ret"] /\ UNCHANGED sbuf
                  /\ c' = CNext(c, [ev |-> "watch_ret", s |-> s])
               \/ /\ sbuf[s] > 0 /\ sbuf' = [sbuf EXCEPT ![s] = @ - 1] /\ wpc' = [wpc EXCEPT ![s] = "got"] /\ UNCHANGED c
            /\ dirty' = TRUE
            /\ UNCHANGED <<file, nW, nBad, notif, rpc, rerr, ready, closed, root, lockW, reg, send, hv, wctx, kind, cta, nCta, rcancel, run2, justQuiet>>
WGot(s) == /\ wpc[s] = "got" /\ ~lockW /\ hv' = [hv EXCEPT ![s] = root] /\ wpc' = [wpc EXCEPT ![s] = "deliver"] /\ dirty' = TRUE
           /\ UNCHANGED <<file, nW, nBad, notif, rpc, rerr, ready, closed, root, lockW, reg, sbuf, send, wctx, kind, cta, nCta, rcancel, run2, justQuiet, c>>
WDeliver(s) == /\ wpc[s] = "deliver"
               /\ \/ (wctx[s] \/ closed) /\ UNCHANGED c
                  \/ kind[s] = "prompt" /\ c' = CNext(c, [ev |-> "recv", s |-> s, v |-> (IF hv[s] < 1 THEN -1 ELSE hv[s])])
               /\ wpc' = [wpc EXCEPT ![s] = "wait"] /\ dirty' = TRUE
               /\ UNCHANGED <<file, nW, nBad, notif, rpc, rerr, ready, closed, root, lockW, reg, sbuf, send, hv, wctx, kind, cta, nCta, rcancel, run2, justQuiet>>

CtaSel(i) == /\ cta[i].pc = "wait"
             /\ \/ /\ (cta[i].ctxdone \/ closed) /\ cta' = [cta EXCEPT ![i].pc = "done"]
                   /\ c' = CNext(c, [ev |-> "cta_ret", i |-> i, ok |-> FALSE, v |-> 0])
                \/ /\ (ready \/ Defect = "early") /\ cta' = [cta EXCEPT ![i].pc = "lock"] /\ UNCHANGED c
             /\ dirty' = TRUE
             /\ UNCHANGED <<file, nW, nBad, notif, rpc, rerr, ready, closed, root, lockW, reg, sbuf, send, wpc, hv, wctx, kind, nCta, rcancel, run2, justQuiet>>
CtaLock(i) == /\ cta[i].pc = "lock" /\ ~lockW /\ cta' = [cta EXCEPT ![i].pc = "done"] /\ dirty' = TRUE
              /\ c' = CNext(c, [ev |-> "cta_ret", i |-> i, ok |-> TRUE, v |-> (IF root < 1 THEN -1 ELSE root)])
              /\ UNCHANGED <<file, nW, nBad, notif, rpc, rerr, ready, closed, root, lockW, reg, sbuf, send, wpc, hv, wctx, kind, nCta, rcancel, run2, justQuiet>>

Internal == \/ RStat \/ RLoad0 \/ RUpdDone \/ RLoop \/ RExit
            \/ \E s \in Subs : Sender(s) \/ WReg(s) \/ WWait(s) \/ WGot(s) \/ WDeliver(s)
            \/ \E i \in DOMAIN cta : CtaSel(i) \/ CtaLock(i)
Settled == ~ENABLED Internal

(* ------------------------- harness (quiescent points) ------------------------- *)
Env(evs) == /\ Settled /\ c' = Feed(c, evs) /\ dirty' = TRUE /\ justQuiet' = FALSE
E0 == <<file, nW, nBad, notif, rpc, rerr, ready, closed, root, lockW, reg, sbuf, send, wpc, hv, wctx, kind, cta, nCta, rcancel, run2>>

RunCall == /\ rpc = "idle" /\ Env(<<[ev |-> "run_call", r |-> 1]>>) /\ rpc' = "stat"
           /\ UNCHANGED <<file, nW, nBad, notif, rerr, ready, closed, root, lockW, reg, sbuf, send, wpc, hv, wctx, kind, cta, nCta, rcancel, run2>>
Run2 == /\ rpc # "idle" /\ ~run2 /\ ~dirty /\ run2' = TRUE
        /\ Env(<<[ev |-> "run_call", r |-> 2], [ev |-> "run_ret", r |-> 2, err |-> (Defect # "rerun")]>>)
        /\ UNCHANGED <<file, nW, nBad, notif, rpc, rerr, ready, closed, root, lockW, reg, sbuf, send, wpc, hv, wctx, kind, cta, nCta, rcancel>>
WriteValid == /\ nW < MaxWrites /\ nW' = nW + 1 /\ file' = nW + 1 /\ notif' = Note
              /\ Env(<<[ev |-> "write", v |-> nW + 1, valid |-> TRUE, atomic |-> TRUE]>>)
              /\ UNCHANGED <<nBad, rpc, rerr, ready, closed, root, lockW, reg, sbuf, send, wpc, hv, wctx, kind, cta, nCta, rcancel, run2>>
WriteBad == /\ nBad < MaxBad /\ nBad' = nBad + 1 /\ notif' = Note
            /\ \/ file' = -1 /\ Env(<<[ev |-> "write", v |-> 0, valid |-> FALSE, atomic |-> TRUE]>>)
               \/ file' = 0 /\ Env(<<[ev |-> "remove"]>>)
            /\ UNCHANGED <<nW, rpc, rerr, ready, closed, root, lockW, reg, sbuf, send, wpc, hv, wctx, kind, cta, nCta, rcancel, run2>>
Cancel == /\ ~rcancel /\ rpc # "idle" /\ rcancel' = TRUE /\ Env(<<[ev |-> "run_cancel"]>>)
          /\ UNCHANGED <<file, nW, nBad, notif, rpc, rerr, ready, closed, root, lockW, reg, sbuf, send, wpc, hv, wctx, kind, cta, nCta, run2>>
CtaCall == /\ nCta < MaxCta /\ nCta' = nCta + 1 /\ Settled
           /\ (rpc = "idle" => ~justQuiet)                                     \* the harness does not probe before Run
           /\ cta' = (nCta + 1 :> [pc |-> "wait", ctxdone |-> FALSE]) @@ cta
           /\ c' = CNext(c, [ev |-> "cta_call", i |-> nCta + 1, probe |-> justQuiet]) /\ dirty' = TRUE /\ justQuiet' = FALSE
           /\ UNCHANGED <<file, nW, nBad, notif, rpc, rerr, ready, closed, root, lockW, reg, sbuf, send, wpc, hv, wctx, kind, rcancel, run2>>
CtaCancel(i) == /\ cta[i].pc # "done" /\ ~cta[i].ctxdone /\ cta' = [cta EXCEPT ![i].ctxdone = TRUE]
                /\ Env(<<[ev |-> "cta_cancel", i |-> i]>>)
                /\ UNCHANGED <<file, nW, nBad, notif, rpc, rerr, ready, closed, root, lockW, reg, sbuf, send, wpc, hv, wctx, kind, nCta, rcancel, run2>>
WatchCall(s, k) == /\ wpc[s] = "none" /\ wpc' = [wpc EXCEPT ![s] = "reg"] /\ kind' = [kind EXCEPT ![s] = k]
                   /\ Env(<<[ev |-> "watch_call", s |-> s, kind |-> k]>>)
                   /\ UNCHANGED <<file, nW, nBad, notif, rpc, rerr, ready, closed, root, lockW, reg, sbuf, send, hv, wctx, cta, nCta, rcancel, run2>>
SubCancel(s) == /\ wpc[s] \notin {"none", "ret"} /\ ~wctx[s] /\ wctx' = [wctx EXCEPT ![s] = TRUE]
                /\ Env(<<[ev |-> "sub_cancel", s |-> s]>>)
                /\ UNCHANGED <<file, nW, nBad, notif, rpc, rerr, ready, closed, root, lockW, reg, sbuf, send, wpc, hv, kind, cta, nCta, rcancel, run2>>
Take(s) == /\ kind[s] = "slow" /\ wpc[s] = "deliver" /\ ~wctx[s] /\ ~closed /\ wpc' = [wpc EXCEPT ![s] = "wait"]
           /\ Env(<<[ev |-> "recv", s |-> s, v |-> (IF hv[s] < 1 THEN -1 ELSE hv[s])]>>)
           /\ UNCHANGED <<file, nW, nBad, notif, rpc, rerr, ready, closed, root, lockW, reg, sbuf, send, hv, wctx, kind, cta, nCta, rcancel, run2>>
Drain(s) == /\ kind[s] = "slow" /\ wpc[s] # "none" /\ kind' = [kind EXCEPT ![s] = "prompt"]
            /\ Env(<<[ev |-> "drain", s |-> s]>>)
            /\ UNCHANGED <<file, nW, nBad, notif, rpc, rerr, ready, closed, root, lockW, reg, sbuf, send, wpc, hv, wctx, cta, nCta, rcancel, run2>>
Quiet == /\ Settled /\ dirty /\ dirty' = FALSE /\ justQuiet' = TRUE
         /\ c' = CNext(c, [ev |-> "quiet"]) /\ UNCHANGED E0

Next == \/ Internal
        \/ RunCall \/ Run2 \/ WriteValid \/ WriteBad \/ Cancel \/ CtaCall \/ Quiet
        \/ \E i \in DOMAIN cta : CtaCancel(i)
        \/ \E s \in Subs : (\E k \in {"prompt", "slow"} : WatchCall(s, k)) \/ SubCancel(s) \/ Take(s) \/ Drain(s)
Spec == Init /\ [][Next]_vars

NotBad == ~IsBad(c)
=============================================================================
