SPECIFICATION Spec
CONSTANTS Subs <- Subs2 SubCap = 1 MaxWrites = 4 MaxBad = 0 MaxCta = 1 Inits <- InitsValid Fix = "nonblocking" Defect = "none"
INVARIANTS NotBad
CHECK_DEADLOCK FALSE
