SPECIFICATION Spec
CONSTANTS Subs <- Subs1 SubCap = 1 MaxWrites = 3 MaxBad = 1 MaxCta = 1 Inits <- InitsAll Fix = "nonblocking" Defect = "none"
INVARIANTS NotBad
CHECK_DEADLOCK FALSE
