SPECIFICATION Spec
CONSTANTS MaxLen = 4 Defect = "none"
INVARIANTS NotBad AsExpected Bounded
PROPERTY Terminates
CHECK_DEADLOCK FALSE
