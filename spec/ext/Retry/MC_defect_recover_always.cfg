SPECIFICATION Spec
CONSTANTS MaxLen = 3 Defect = "recover_always"
INVARIANTS NotBad
CHECK_DEADLOCK FALSE
