----------------------------- MODULE RetryModel -----------------------------
(* X05 - implementation-shaped model of retry.NotifyRecover on top of        *)
(* backoff.RetryNotify (cenkalti/backoff v4): the retry loop, the            *)
(* WithMaxRetries wrapper (numTries), the WithContext wrapper, the           *)
(* `notified` flag.  Every step feeds the monitor of RetryContract; at the   *)
(* end the counters are compared with the declarative expectation of         *)
(* RetryCases.  TLC explores every case of Cases(MaxLen) and writes the case *)
(* table (with the expected outcome) to cases.ndjson for the replay on the   *)
(* real code.  Defect # "none" switches to a known-bad variant.              *)
EXTENDS RetryContract, RetryCases, TLC, Json, SequencesExt

CONSTANTS MaxLen, Defect
ASSUME Defect \in {"none", "notify_every", "recover_always", "off_by_one", "ignore_ctx", "first_error", "retry_permanent"}

VARIABLES x, pc, n, numTries, notified, cancelled, firstErr, c, nNotify, nRecov, result
vars == <<x, pc, n, numTries, notified, cancelled, firstErr, c, nNotify, nRecov, result>>

ResetEv(cs) ==
  [ev |-> "reset", policy |-> "constant", dur |-> 0, init |-> 0, multNum |-> 1, multDen |-> 1, rfPct |-> 0,
   maxI |-> 0, maxEl |-> 0, maxRetries |-> cs.maxRetries, ctx |-> cs.ctx, timed |-> FALSE, rt |-> FALSE, variant |-> "data"]

Feed(m, evs) == \* feed a sequence of events to the monitor
  LET F[i \in 0..Len(evs)] == IF i = 0 THEN m ELSE CNext(F[i - 1], evs[i]) IN F[Len(evs)]

Init ==
  /\ \E s \in Scripts(MaxLen), mr \in RetriesSet : \E m \in CancelModes(s) : x = Case(s, mr, m[1], m[2], m[3], m[4])
  /\ pc = "op" /\ n = 0 /\ numTries = 0 /\ notified = FALSE /\ firstErr = 0
  /\ cancelled = x.pre
  /\ c = Feed(CReset(ResetEv(x)), IF x.pre THEN <<[ev |-> "cancel"]>> ELSE <<>>)
  /\ nNotify = 0 /\ nRecov = 0 /\ result = "none"

(* the wrapped operation: operation(); if err == nil && notified { recovered() } *)
Op ==
  /\ pc = "op"
  /\ LET k == n + 1
         out == Out(x, k)
         cnc == x.cancelAt = k
         rec == out = "ok" /\ (notified \/ Defect = "recover_always")
         evs == <<[ev |-> "attempt", k |-> k, at |-> 0, gap |-> 0, out |-> out]>>
                \o (IF cnc THEN <<[ev |-> "cancel"]>> ELSE <<>>)
                \o (IF rec THEN <<[ev |-> "recovered"]>> ELSE <<>>)
     IN /\ n' = k
        /\ cancelled' = (cancelled \/ cnc)
        /\ nRecov' = nRecov + (IF rec THEN 1 ELSE 0)
        /\ firstErr' = IF firstErr = 0 /\ out # "ok" THEN k ELSE firstErr
        /\ c' = Feed(c, evs)
        /\ pc' = CASE out = "ok" -> "ret_nil"
                   [] out = "permanent" -> IF Defect = "retry_permanent" THEN "next" ELSE "ret_perm"
                   [] OTHER -> "next"
  /\ UNCHANGED <<x, numTries, notified, nNotify, result>>

(* b.NextBackOff(): context wrapper, then the max-retries wrapper, then the policy *)
NextBackOff ==
  /\ pc = "next"
  /\ LET ctxStop == x.ctx /\ cancelled /\ Defect # "ignore_ctx"
         triesStop == x.maxRetries >= 0 /\
                      (IF Defect = "off_by_one" THEN x.maxRetries < numTries ELSE x.maxRetries <= numTries)
     IN IF ctxStop THEN pc' = "ret_ctx" /\ UNCHANGED numTries
        ELSE IF triesStop THEN pc' = (IF x.ctx /\ cancelled THEN "ret_ctx" ELSE "ret_last") /\ UNCHANGED numTries
        ELSE pc' = "notify" /\ numTries' = (IF x.maxRetries >= 0 THEN numTries + 1 ELSE numTries)
  /\ UNCHANGED <<x, n, notified, cancelled, firstErr, c, nNotify, nRecov, result>>

(* notify wrapper: if notified.CompareAndSwap(false, true) { notify(err, d) } *)
Notify ==
  /\ pc = "notify"
  /\ IF ~notified \/ Defect = "notify_every"
     THEN /\ c' = CNext(c, [ev |-> "notify", k |-> n, d |-> 0])
          /\ nNotify' = nNotify + 1
     ELSE UNCHANGED <<c, nNotify>>
  /\ notified' = TRUE
  /\ pc' = "wait"
  /\ UNCHANGED <<x, n, numTries, cancelled, firstErr, nRecov, result>>

(* select { case <-ctx.Done(): return ctx.Err(); case <-timer.C: } *)
Wait ==
  /\ pc = "wait"
  /\ IF x.cancelWait = n
     THEN /\ cancelled' = TRUE
          /\ c' = CNext(c, [ev |-> "cancel"])
          /\ pc' = IF Defect = "ignore_ctx" THEN "op" ELSE "ret_ctx"
     ELSE /\ pc' = (IF x.ctx /\ cancelled /\ Defect # "ignore_ctx" THEN "ret_ctx" ELSE "op")
          /\ UNCHANGED <<cancelled, c>>
  /\ UNCHANGED <<x, n, numTries, notified, firstErr, nNotify, nRecov, result>>

Ret ==
  /\ pc \in {"ret_nil", "ret_perm", "ret_last", "ret_ctx"}
  /\ LET cls == CASE pc = "ret_nil" -> "nil" [] pc = "ret_perm" -> "perm" [] pc = "ret_last" -> "last" [] OTHER -> "ctx"
         k == IF cls = "last" /\ Defect = "first_error" THEN firstErr ELSE n
     IN /\ result' = cls
        /\ c' = Feed(c, <<[ev |-> "ret", class |-> cls, k |-> k, data |-> n], [ev |-> "end"]>>)
  /\ pc' = "done"
  /\ UNCHANGED <<x, n, numTries, notified, cancelled, firstErr, nNotify, nRecov>>

Next == Op \/ NextBackOff \/ Notify \/ Wait \/ Ret
Spec == Init /\ [][Next]_vars /\ WF_vars(Next)

NotBad == ~IsBad(c)
(* the declarative expectation agrees with the loop *)
AsExpected ==
  pc = "done" => /\ n = ExpAttempts(x)
                 /\ result \in ExpResults(x)
                 /\ nNotify \in ExpNotifies(x)
                 /\ nRecov = ExpRecovered(x)
Bounded == n <= Len(x.script) + 1
Terminates == <>(pc = "done")

(* the case table, built script by script (no set of all cases is ever normalised) *)
ScriptSeq == SetToSeq(Scripts(MaxLen))
CasesOfScript(s) == {Case(s, mr, m[1], m[2], m[3], m[4]) : mr \in RetriesSet, m \in CancelModes(s)}
CaseSeq == FlattenSeq([i \in 1..Len(ScriptSeq) |-> SetToSeq({Describe(cs) : cs \in CasesOfScript(ScriptSeq[i])})])
RECURSIVE Pow3(_)
Pow3(i) == IF i = 0 THEN 1 ELSE 3 * Pow3(i - 1)
RECURSIVE NumCases(_)
NumCases(L) == 5 * (2 * L + 5) * Pow3(L) + (IF L = 0 THEN 0 ELSE NumCases(L - 1))
ASSUME PrintT(<<"CASES", Len(CaseSeq), NumCases(MaxLen)>>)
ASSUME Len(CaseSeq) = NumCases(MaxLen)
ASSUME ndJsonSerialize("cases.ndjson", CaseSeq)
=============================================================================
