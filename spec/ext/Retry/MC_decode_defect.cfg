SPECIFICATION Spec
CONSTANTS Tier = "small" OverflowFix = FALSE
INVARIANTS NotBad
CHECK_DEADLOCK FALSE
