SPECIFICATION Spec
CONSTANTS MaxLen = 3 Defect = "first_error"
INVARIANTS NotBad
CHECK_DEADLOCK FALSE
