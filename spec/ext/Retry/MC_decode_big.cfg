SPECIFICATION Spec
CONSTANTS Tier = "big" OverflowFix = TRUE
INVARIANTS NotBad
CHECK_DEADLOCK FALSE
