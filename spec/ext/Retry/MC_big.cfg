SPECIFICATION Spec
CONSTANTS MaxLen = 6 Defect = "none"
INVARIANTS NotBad AsExpected Bounded
PROPERTY Terminates
CHECK_DEADLOCK FALSE
