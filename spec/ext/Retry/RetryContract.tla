--------------------------- MODULE RetryContract ---------------------------
(* X05 - retry.NotifyRecover / NotifyRecoverWithData: the documented contract *)
(* as a deterministic monitor automaton over the observable events of ONE     *)
(* call.  Durations are integers in microseconds (floor of the Go value).     *)
(*                                                                            *)
(*  reset     policy in {"constant","exponential"}, dur, init, multNum,       *)
(*            multDen, rfPct, maxI, maxEl (0 = unlimited), maxRetries (-1 =   *)
(*            unlimited), ctx (the back-off was built WithContext), timed     *)
(*            (the run used a controllable clock: at/gap are exact), rt (real *)
(*            clock with non-zero waits: gap is a lower bound only), variant  *)
(*            in {"plain","data"}                                             *)
(*  attempt   k, at, gap, out   the scripted operation is entered for the     *)
(*            k-th time, `at` after the call started, `gap` after the previous*)
(*            attempt; it is going to return out in {"ok","transient",        *)
(*            "permanent"} (every attempt returns its own error value)        *)
(*  cancel    the harness is about to cancel the context                      *)
(*  notify    k, d     notify(err, d) was called; err is attempt k's error    *)
(*            (k = 0: an error no attempt returned)                           *)
(*  recovered the recovered callback was called                               *)
(*  ret       class in {"nil","last","perm","ctx","other"}, k, data           *)
(*            class "last"/"perm": the error (resp. the error inside the      *)
(*            backoff.Permanent wrapper) that attempt k returned;             *)
(*            data: the attempt whose data was returned (variant "data")      *)
(*  end       the harness saw the call return and nothing else happened       *)
EXTENDS Integers, Sequences

Bad(why) == [bad |-> TRUE, why |-> why]
IsBad(c) == c.bad

CReset(e) ==
  [bad |-> FALSE, why |-> "", p |-> e,
   n |-> 0,               \* attempts so far
   lastOut |-> "none", lastAt |-> 0,
   notified |-> 0, notifiedD |-> 0,
   recovered |-> 0, cancelled |-> FALSE, ret |-> "none"]

(* ---- exponential policy: the retry interval before randomisation ---- *)
RECURSIVE RI(_, _)
RI(p, k) ==   \* interval that follows the k-th failure, k >= 1
  IF k = 1 THEN p.init
  ELSE LET prev == RI(p, k - 1) IN
       IF prev * p.multNum >= p.maxI * p.multDen THEN p.maxI ELSE (prev * p.multNum) \div p.multDen
Pct(v, pct) == (v \div 100) * pct + ((v % 100) * pct) \div 100      \* v * pct / 100 without 32-bit overflow
Lo(p, k) == RI(p, k) - Pct(RI(p, k), p.rfPct) - 2
Hi(p, k) == RI(p, k) + Pct(RI(p, k), p.rfPct) + 2

GapLaw(c, e) ==  \* the wait between attempt c.n and attempt c.n + 1
  IF c.p.rt THEN   \* real clock: a timer never fires early, nothing more can be said
       (IF c.p.policy = "constant" /\ e.gap < c.p.dur THEN "constant policy retried sooner than Duration"
        ELSE IF c.p.policy = "exponential" /\ e.gap < Lo(c.p, c.n) THEN "exponential policy retried sooner than its lower bound"
        ELSE "ok")
  ELSE IF ~c.p.timed THEN "ok"
  ELSE IF c.p.policy = "constant"
  THEN (IF e.gap # c.p.dur THEN "constant policy did not wait exactly Duration between attempts" ELSE "ok")
  ELSE IF e.gap < Lo(c.p, c.n) \/ e.gap > Hi(c.p, c.n)
       THEN "exponential interval outside the InitialInterval-Multiplier-MaxInterval-RandomizationFactor bounds"
  ELSE IF c.p.maxEl # 0 /\ e.at > c.p.maxEl THEN "retried after MaxElapsedTime"
  ELSE "ok"

CAttempt(c, e) ==
  IF c.ret # "none" THEN Bad("operation called after the call returned")
  ELSE IF e.k # c.n + 1 THEN Bad("harness: attempt numbering")
  ELSE IF c.lastOut = "ok" THEN Bad("operation called again after it succeeded")
  ELSE IF c.lastOut = "permanent" THEN Bad("operation retried after a permanent error")
  ELSE IF c.n >= 1 /\ c.p.maxRetries >= 0 /\ c.n >= c.p.maxRetries + 1 THEN Bad("more retries than MaxRetries")
  ELSE IF c.n >= 1 /\ c.cancelled THEN Bad("operation retried after the context ended")
  ELSE IF c.n = 1 /\ c.notified = 0 THEN Bad("retried without notifying the first failure")
  ELSE IF c.n >= 1 /\ GapLaw(c, e) # "ok" THEN Bad(GapLaw(c, e))
  ELSE IF c.n = 1 /\ c.p.timed /\ e.gap # c.notifiedD THEN Bad("waited a different time than the one passed to notify")
  ELSE [c EXCEPT !.n = e.k, !.lastOut = e.out, !.lastAt = e.at]

CNotify(c, e) ==
  IF c.ret # "none" THEN Bad("notify called after the call returned")
  ELSE IF c.notified >= 1 THEN Bad("notify called more than once in one failure streak")
  ELSE IF c.n # 1 \/ c.lastOut # "transient" THEN Bad("notify called but not on the first failure")
  ELSE IF e.k # 1 THEN Bad("notify was not passed the error of the first failure")
  ELSE [c EXCEPT !.notified = 1, !.notifiedD = e.d]

CRecovered(c) ==
  IF c.ret # "none" THEN Bad("recovered called after the call returned")
  ELSE IF c.recovered >= 1 THEN Bad("recovered called more than once")
  ELSE IF c.lastOut # "ok" THEN Bad("recovered called without a success")
  ELSE IF c.n < 2 THEN Bad("recovered called although the operation succeeded first time")
  ELSE [c EXCEPT !.recovered = 1]

Exhausted(c) == c.p.maxRetries >= 0 /\ c.n = c.p.maxRetries + 1
Elapsed(c)   == c.p.policy = "exponential" /\ c.p.maxEl # 0 /\ (~c.p.timed \/ c.lastAt + Hi(c.p, c.n) > c.p.maxEl)

CRet(c, e) ==
  IF c.ret # "none" THEN Bad("harness: two returns")
  ELSE IF e.class = "panic" THEN Bad("the call panicked")
  ELSE IF c.n = 0 THEN Bad("returned without calling the operation")
  ELSE IF c.lastOut = "ok" THEN
       (IF e.class # "nil" THEN Bad("error returned although the operation succeeded")
        ELSE IF c.p.variant = "data" /\ e.data # c.n THEN Bad("data of another attempt returned")
        ELSE IF c.n >= 2 /\ c.recovered # 1 THEN Bad("recovered not called for a success after failures")
        ELSE [c EXCEPT !.ret = e.class])
  ELSE IF c.lastOut = "permanent" THEN
       (IF e.class = "nil" THEN Bad("nil returned although the operation failed permanently")
        ELSE IF e.class # "perm" \/ e.k # c.n THEN Bad("permanent error not returned as the error")
        ELSE [c EXCEPT !.ret = e.class])
  ELSE \* the last attempt failed with a retryable error
       (IF e.class = "nil" THEN Bad("nil returned although the last attempt failed")
        ELSE IF ~(Exhausted(c) \/ c.cancelled \/ Elapsed(c)) THEN Bad("gave up although retries remain and the context is live")
        ELSE IF e.class = "ctx" THEN (IF c.cancelled THEN [c EXCEPT !.ret = e.class] ELSE Bad("context error returned but the context is live"))
        ELSE IF e.class = "last" THEN (IF e.k = c.n THEN [c EXCEPT !.ret = e.class] ELSE Bad("an earlier error returned instead of the last one"))
        ELSE Bad("unexpected error value returned"))

CEnd(c) == IF c.ret = "none" THEN Bad("the call never returned") ELSE c

CNext(c, e) ==
  IF e.ev = "reset" THEN CReset(e)
  ELSE IF IsBad(c) THEN c
  ELSE CASE e.ev = "attempt"   -> CAttempt(c, e)
         [] e.ev = "cancel"    -> [c EXCEPT !.cancelled = TRUE]
         [] e.ev = "notify"    -> CNotify(c, e)
         [] e.ev = "recovered" -> CRecovered(c)
         [] e.ev = "ret"       -> CRet(c, e)
         [] e.ev = "end"       -> CEnd(c)
=============================================================================
