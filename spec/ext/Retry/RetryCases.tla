----------------------------- MODULE RetryCases -----------------------------
(* X05 - the case space of the exhaustive part and, for every case, the      *)
(* expected outcome of NotifyRecover stated declaratively (the least attempt *)
(* at which some reason to stop holds), not as a run of the retry loop.      *)
(*                                                                            *)
(* A case: script (outcome of the k-th attempt; attempts beyond the script   *)
(* succeed), maxRetries, ctx (back-off built WithContext), and at most one   *)
(* cancellation point: pre (context already cancelled at the call), cancelAt *)
(* = k (cancelled while attempt k runs), cancelWait = k (cancelled during    *)
(* the wait that follows attempt k, if there is such a wait).                 *)
EXTENDS Integers, Sequences, FiniteSets

Outs == {"ok", "transient", "permanent"}
RetriesSet == {-1, 0, 1, 2, 3}

Scripts(L) == UNION {[1..n -> Outs] : n \in 0..L}

Case(s, mr, ctx, pre, ca, cw) ==
  [script |-> s, maxRetries |-> mr, ctx |-> ctx, pre |-> pre, cancelAt |-> ca, cancelWait |-> cw]

CancelModes(s) ==   \* <<ctx, pre, cancelAt, cancelWait>>
  {<<FALSE, FALSE, 0, 0>>, <<TRUE, FALSE, 0, 0>>, <<TRUE, TRUE, 0, 0>>}
  \cup {<<TRUE, FALSE, k, 0>> : k \in 1..Len(s) + 1}
  \cup {<<TRUE, FALSE, 0, k>> : k \in 1..Len(s) + 1}

Cases(L) ==
  UNION {{Case(s, mr, m[1], m[2], m[3], m[4]) : mr \in RetriesSet, m \in CancelModes(s)} : s \in Scripts(L)}

Out(x, k) == IF k <= Len(x.script) THEN x.script[k] ELSE "ok"

ExhaustedAt(x, k)  == x.maxRetries >= 0 /\ k = x.maxRetries + 1
CancelSeenAt(x, k) == x.pre \/ (x.cancelAt >= 1 /\ x.cancelAt <= k)     \* cancelled before attempt k returned
WaitAfter(x, k)    == Out(x, k) = "transient" /\ ~ExhaustedAt(x, k) /\ ~CancelSeenAt(x, k)
CancelInWait(x, k) == x.cancelWait = k /\ WaitAfter(x, k)

StopsAt(x, k) ==
  \/ Out(x, k) # "transient"
  \/ ExhaustedAt(x, k)
  \/ CancelSeenAt(x, k)
  \/ CancelInWait(x, k)

ExpAttempts(x) == CHOOSE k \in 1..Len(x.script) + 1 : StopsAt(x, k) /\ \A j \in 1..k - 1 : ~StopsAt(x, j)

ExpResults(x) ==
  LET n == ExpAttempts(x) IN
  IF Out(x, n) = "ok" THEN {"nil"}
  ELSE IF Out(x, n) = "permanent" THEN {"perm"}
  ELSE (IF ExhaustedAt(x, n) THEN {"last"} ELSE {})
       \cup (IF CancelSeenAt(x, n) \/ CancelInWait(x, n) THEN {"ctx"} ELSE {})

(* notify: exactly once when the first failure is followed by a wait; the    *)
(* statement does not say whether a first failure that is NOT retried is      *)
(* notified, so both are expected there.                                      *)
ExpNotifies(x) ==
  IF Out(x, 1) # "transient" THEN {0}
  ELSE IF WaitAfter(x, 1) THEN {1}
  ELSE {0, 1}

ExpRecovered(x) == IF Out(x, ExpAttempts(x)) = "ok" /\ ExpAttempts(x) >= 2 THEN 1 ELSE 0

Describe(x) ==
  [script |-> x.script, maxRetries |-> x.maxRetries, ctx |-> x.ctx, pre |-> x.pre, cancelAt |-> x.cancelAt,
   cancelWait |-> x.cancelWait, expAttempts |-> ExpAttempts(x), expResults |-> ExpResults(x),
   expNotifies |-> ExpNotifies(x), expRecovered |-> ExpRecovered(x)]

(* the case a recorded run belongs to (reset line of a trace) *)
CaseOf(e) == Case(e.script, e.maxRetries, e.ctx, e.pre, e.cancelAt, e.cancelWait)
=============================================================================
