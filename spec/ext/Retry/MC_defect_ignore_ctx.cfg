SPECIFICATION Spec
CONSTANTS MaxLen = 3 Defect = "ignore_ctx"
INVARIANTS NotBad
CHECK_DEADLOCK FALSE
