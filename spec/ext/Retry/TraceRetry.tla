----------------------------- MODULE TraceRetry -----------------------------
(* Validates recorded runs of the real retry.NotifyRecover /                 *)
(* NotifyRecoverWithData against the X05 contract monitor.  Runs of the      *)
(* exhaustive part (reset.exh) are, in addition, compared at their end with   *)
(* the expected outcome RetryCases defines for their case: TLC re-derives the *)
(* expectation from the case in the reset line.                               *)
EXTENDS RetryContract, RetryCases, TraceLib

Trace == LoadTrace("trace.ndjson")
Starts == {i \in 1..Len(Trace) : Trace[i].ev = "reset"}

ExpCheck(c, e) ==
  LET x == CaseOf(c.p) IN
  IF e.attempts # ExpAttempts(x) THEN Bad("expected-outcome: number of attempts differs from the model")
  ELSE IF c.ret \notin ExpResults(x) THEN Bad("expected-outcome: result class differs from the model")
  ELSE IF e.notifies \notin ExpNotifies(x) THEN Bad("expected-outcome: number of notify calls differs from the model")
  ELSE IF e.recovereds # ExpRecovered(x) THEN Bad("expected-outcome: number of recovered calls differs from the model")
  ELSE c

TStep(c, e) ==
  LET d == CNext(c, e) IN
  IF e.ev = "end" /\ ~IsBad(d) /\ d.p.exh THEN ExpCheck(d, e) ELSE d

VARIABLES l, c
TInit == l \in Starts /\ c = CReset(Trace[l])
TNext == /\ ~IsBad(c)
         /\ l + 1 <= Len(Trace)
         /\ Trace[l + 1].ev # "reset"
         /\ c' = TStep(c, Trace[l + 1])
         /\ l' = l + 1
TSpec == TInit /\ [][TNext]_<<l, c>>
Report == IF IsBad(c) THEN RejectLine(l, c.why) ELSE TRUE
=============================================================================
