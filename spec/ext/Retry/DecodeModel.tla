----------------------------- MODULE DecodeModel -----------------------------
(* X05 - enumeration of the Config decoding case table.  TLC visits every    *)
(* case, checks that the answer a correct decoder gives satisfies the monitor *)
(* (with OverflowFix = FALSE: the decoder as found, which multiplies a plain  *)
(* number by time.Millisecond without a range check), checks the sanity of    *)
(* the table and writes decode_cases.ndjson for the replay on the real code.  *)
EXTENDS DecodeCases, TLC, Json, SequencesExt

CONSTANTS Tier, OverflowFix
VARIABLES x, c, pc
vars == <<x, c, pc>>

ModeSeq == SetToSeq(Modes)
PairSeq == SetToSeq(FieldPairs)
GroupSeq == [i \in 1..Len(ModeSeq) |-> GroupSingles(ModeSeq[i])]
            \o [i \in 1..Len(PairSeq) |-> GroupPairs(PairSeq[i], Tier)]
            \o <<GroupFull(Tier)>>

(* what the decoder answers *)
Accepts(e) == e.ok \/ (~OverflowFix /\ e.cls = "ms-overflow")
ModelErr(cs) == \E f \in Present(cs) : ~Accepts(Entry(cs, f))
ModelCfg(cs) == [f \in FieldSet |-> IF cs.vals[f] > 0
                                   THEN (IF Entry(cs, f).ok THEN Entry(cs, f).v ELSE -2147483647)
                                   ELSE Base(cs.base)[f]]

Init == /\ \E i \in 1..Len(GroupSeq) : x \in GroupSeq[i]
        /\ c = DReset([ev |-> "reset"] @@ x)
        /\ pc = "call"
Decode == /\ pc = "call"
          /\ c' = DNext(DNext(c, [ev |-> "decoded", err |-> ModelErr(x), panic |-> FALSE, cfg |-> ModelCfg(x)]), [ev |-> "end"])
          /\ pc' = "done"
          /\ UNCHANGED x
Spec == Init /\ [][Decode]_vars
NotBad == ~IsBad(c)

(* sanity of the table: every field has valid inputs that differ from each base configuration and invalid ones *)
ASSUME \A f \in FieldSet : /\ \E i \in 1..Len(TableOf(f)) : TableOf(f)[i].ok /\ TableOf(f)[i].v # DefaultCfg[f]
                           /\ \E i \in 1..Len(TableOf(f)) : TableOf(f)[i].ok /\ TableOf(f)[i].v # CustomCfg[f]
                           /\ Cardinality({i \in 1..Len(TableOf(f)) : ~TableOf(f)[i].ok}) >= 2
                           /\ TableOf(f)[1].ok /\ TableOf(f)[2].ok /\ Len(TableOf(f)) <= 12
ASSUME Cardinality(FieldPairs) = 28

Inputs(cs) == LET fs == SelectSeq(Fields, LAMBDA f : cs.vals[f] > 0)
              IN [i \in 1..Len(fs) |-> [f |-> fs[i], s |-> Entry(cs, fs[i]).s, t |-> Entry(cs, fs[i]).t]]
Describe(cs) == cs @@ [inputs |-> Inputs(cs), expErr |-> ExpErr(cs)]
DescribeAll(g) == LET q == SetToSeq(g) IN [k \in 1..Len(q) |-> Describe(q[k])]
CaseSeq == FlattenSeq([i \in 1..Len(GroupSeq) |-> DescribeAll(GroupSeq[i])])
NumCases == LET F[i \in 0..Len(GroupSeq)] == IF i = 0 THEN 0 ELSE F[i - 1] + Cardinality(GroupSeq[i]) IN F[Len(GroupSeq)]
ASSUME PrintT(<<"DECODE-CASES", Len(CaseSeq), NumCases>>)
ASSUME ndJsonSerialize("decode_cases.ndjson", CaseSeq)
=============================================================================
