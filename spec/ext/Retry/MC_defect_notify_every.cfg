SPECIFICATION Spec
CONSTANTS MaxLen = 3 Defect = "notify_every"
INVARIANTS NotBad
CHECK_DEADLOCK FALSE
