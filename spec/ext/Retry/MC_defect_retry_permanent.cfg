SPECIFICATION Spec
CONSTANTS MaxLen = 3 Defect = "retry_permanent"
INVARIANTS NotBad
CHECK_DEADLOCK FALSE
