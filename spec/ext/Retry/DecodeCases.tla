----------------------------- MODULE DecodeCases -----------------------------
(* X05 - retry.DecodeConfig / DecodeConfigWithPrefix as a case table.        *)
(* Every field of retry.Config has a table of inputs (text, Go type of the   *)
(* map value, valid?, canonical value, class).  Canonical values: durations  *)
(* in microseconds, floats in 1/1000, policy 0 = constant / 1 = exponential. *)
(* The expected answer is stated here, independently of the decoder: an      *)
(* error iff some present field is invalid; otherwise every present field has*)
(* its canonical value and every absent field keeps the value of the config  *)
(* passed in (the zero Config stands for DefaultConfig()).                    *)
EXTENDS Integers, Sequences, FiniteSets

Fields == <<"policy", "duration", "initialInterval", "randomizationFactor", "multiplier", "maxInterval",
            "maxElapsedTime", "maxRetries">>
FieldSet == {Fields[i] : i \in 1..Len(Fields)}
KindOf(f) == CASE f = "policy" -> "policy"
               [] f \in {"duration", "initialInterval", "maxInterval", "maxElapsedTime"} -> "dur"
               [] f \in {"randomizationFactor", "multiplier"} -> "float"
               [] f = "maxRetries" -> "int"

V(s, t, ok, v, cls) == [s |-> s, t |-> t, ok |-> ok, v |-> v, cls |-> cls]
Table(kind) ==
  CASE kind = "policy" ->
       << V("exponential", "string", TRUE, 1, "name"), V("constant", "string", TRUE, 0, "name"),
          V("linear", "string", FALSE, 0, "unknown-name"), V("", "string", FALSE, 0, "empty"),
          V("true", "bool", FALSE, 0, "bool") >>
    [] kind = "dur" ->
       << V("10s", "string", TRUE, 10000000, "units"), V("1500", "string", TRUE, 1500000, "plain-ms"),
          V("250ms", "string", TRUE, 250000, "units"), V("1m30s", "string", TRUE, 90000000, "units"),
          V("0", "string", TRUE, 0, "plain-ms"),
          V("abc", "string", FALSE, 0, "garbage"), V("", "string", FALSE, 0, "empty"),
          V("5 s", "string", FALSE, 0, "garbage"), V("1.5", "string", FALSE, 0, "fraction-without-unit"),
          V("true", "bool", FALSE, 0, "bool"),
          V("9999999h", "string", FALSE, 0, "unit-overflow"),
          V("10000000000000", "string", FALSE, 0, "ms-overflow") >>   \* 1e13 ms > 292 years: not a time.Duration
    [] kind = "float" ->
       << V("2.5", "string", TRUE, 2500, "decimal"), V("1.0", "string", TRUE, 1000, "decimal"),
          V("0", "string", TRUE, 0, "decimal"), V("2", "float", TRUE, 2000, "typed"),
          V("abc", "string", FALSE, 0, "garbage"), V("", "string", FALSE, 0, "empty"),
          V("true", "bool", FALSE, 0, "bool"), V("1e40", "string", FALSE, 0, "range") >>
    [] kind = "int" ->
       << V("3", "string", TRUE, 3, "decimal"), V("-1", "string", TRUE, -1, "decimal"),
          V("0", "string", TRUE, 0, "decimal"), V("5", "int", TRUE, 5, "typed"),
          V("abc", "string", FALSE, 0, "garbage"), V("3.5", "string", FALSE, 0, "fraction"),
          V("", "string", FALSE, 0, "empty"), V("true", "bool", FALSE, 0, "bool"),
          V("99999999999999999999", "string", FALSE, 0, "range") >>
TableOf(f) == Table(KindOf(f))

DefaultCfg == [policy |-> 0, duration |-> 5000000, initialInterval |-> 500000, randomizationFactor |-> 500,
               multiplier |-> 1500, maxInterval |-> 60000000, maxElapsedTime |-> 900000000, maxRetries |-> -1]
CustomCfg  == [policy |-> 1, duration |-> 7000000, initialInterval |-> 20000, randomizationFactor |-> 250,
               multiplier |-> 3000, maxInterval |-> 4000000, maxElapsedTime |-> 60000000, maxRetries |-> 9]
Bases == {"zero", "default", "noretry", "custom"}
Base(b) == CASE b \in {"zero", "default"} -> DefaultCfg
             [] b = "noretry" -> [DefaultCfg EXCEPT !.maxRetries = 0]
             [] b = "custom" -> CustomCfg

Absent == [f \in FieldSet |-> 0]
Present(x) == {f \in FieldSet : x.vals[f] > 0}
Entry(x, f) == TableOf(f)[x.vals[f]]

(* calls: fn "plain" = DecodeConfig(&c, m) with the field names as keys;      *)
(* fn "prefix" = DecodeConfigWithPrefix(&c, m, prefix) with keys              *)
(* prefix+Field ("backOffDuration"), prefix+field ("retry.duration") or, for  *)
(* the empty prefix, "Duration"; decoys = the map also holds keys that do not *)
(* carry the prefix (an unprefixed field name with a garbage value, and a key *)
(* of another component) which must be ignored.                               *)
Modes ==
  {<<"plain", "", mk>> : mk \in {"any", "string", "iface"}}
  \cup {<<"prefix", p, mk>> : p \in {"", "backOff", "retry."}, mk \in {"any", "string", "iface"}}
DecoyOpts(m) == IF m[1] = "prefix" /\ m[2] # "" THEN {TRUE} ELSE {FALSE}

Case(m, b, d, vals) == [fn |-> m[1], prefix |-> m[2], mapKind |-> m[3], base |-> b, decoys |-> d, vals |-> vals]
WellTyped(x) == x.mapKind = "string" => \A f \in Present(x) : Entry(x, f).t = "string"

FirstInvalid(f) == CHOOSE i \in 1..Len(TableOf(f)) : ~TableOf(f)[i].ok /\ \A j \in 1..i - 1 : TableOf(f)[j].ok

(* groups of cases (each a small set) *)
SingleVals == {Absent} \cup UNION {{[Absent EXCEPT ![f] = i] : i \in 1..Len(TableOf(f))} : f \in FieldSet}
PairVals(f, g) == {[Absent EXCEPT ![f] = i, ![g] = j] : i \in 1..Len(TableOf(f)), j \in 1..Len(TableOf(g))}
FullChoices(f, tier) == IF tier = "big" THEN {1, 2, FirstInvalid(f)} ELSE {1, FirstInvalid(f)}
FullVals(tier) ==
  {[policy |-> a, duration |-> b, initialInterval |-> d, randomizationFactor |-> e, multiplier |-> g,
    maxInterval |-> h, maxElapsedTime |-> i, maxRetries |-> j] :
     a \in FullChoices("policy", tier), b \in FullChoices("duration", tier), d \in FullChoices("initialInterval", tier),
     e \in FullChoices("randomizationFactor", tier), g \in FullChoices("multiplier", tier),
     h \in FullChoices("maxInterval", tier), i \in FullChoices("maxElapsedTime", tier), j \in FullChoices("maxRetries", tier)}

PairModes(tier) == IF tier = "big" THEN {<<"plain", "", "any">>, <<"prefix", "backOff", "any">>, <<"prefix", "backOff", "string">>, <<"prefix", "retry.", "iface">>}
                   ELSE {<<"prefix", "backOff", "any">>}
PairBases(tier) == IF tier = "big" THEN {"zero", "custom", "noretry"} ELSE {"custom"}

FieldPairs == {<<Fields[p[1]], Fields[p[2]]>> : p \in {q \in (1..Len(Fields)) \X (1..Len(Fields)) : q[1] < q[2]}}

GroupSingles(m) == {x \in {Case(m, b, d, v) : b \in Bases, d \in DecoyOpts(m), v \in SingleVals} : WellTyped(x)}
GroupPairs(p, tier) == {x \in {Case(m, b, FALSE, v) : m \in PairModes(tier), b \in PairBases(tier), v \in PairVals(p[1], p[2])} : WellTyped(x)}
GroupFull(tier) == {Case(<<"prefix", "backOff", "any">>, b, TRUE, v) : b \in {"zero", "custom"}, v \in FullVals(tier)}

(* ---- the expected answer ---- *)
ExpErr(x) == \E f \in Present(x) : ~Entry(x, f).ok
ExpCfg(x) == [f \in FieldSet |-> IF x.vals[f] > 0 THEN Entry(x, f).v ELSE Base(x.base)[f]]
FirstBadField(x) == LET i == CHOOSE i \in 1..Len(Fields) : Fields[i] \in Present(x) /\ ~Entry(x, Fields[i]).ok
                                  /\ \A j \in 1..i - 1 : ~(Fields[j] \in Present(x) /\ ~Entry(x, Fields[j]).ok)
                    IN Fields[i]
FirstDiff(x, cfg) == LET i == CHOOSE i \in 1..Len(Fields) : cfg[Fields[i]] # ExpCfg(x)[Fields[i]]
                                  /\ \A j \in 1..i - 1 : cfg[Fields[j]] = ExpCfg(x)[Fields[j]]
                     IN Fields[i]

(* ---- monitor: reset (the case) ; decoded (err, panic, cfg) ---- *)
Bad(why) == [bad |-> TRUE, why |-> why]
IsBad(c) == c.bad
CaseOf(e) == [fn |-> e.fn, prefix |-> e.prefix, mapKind |-> e.mapKind, base |-> e.base, decoys |-> e.decoys,
              vals |-> [f \in FieldSet |-> e.vals[f]]]
DReset(e) == [bad |-> FALSE, why |-> "", x |-> CaseOf(e), done |-> FALSE]
DDecoded(c, e) ==
  LET x == c.x IN
  IF c.done THEN Bad("harness: two results")
  ELSE IF e.panic THEN Bad("decoding panicked")
  ELSE IF ExpErr(x) /\ ~e.err
       THEN Bad("invalid value accepted without error: " \o KindOf(FirstBadField(x)) \o " " \o Entry(x, FirstBadField(x)).cls)
  ELSE IF ~ExpErr(x) /\ e.err THEN Bad("valid configuration rejected")
  ELSE IF ~ExpErr(x) /\ \E f \in FieldSet : e.cfg[f] # ExpCfg(x)[f]
       THEN Bad("decoded value differs from the configured one: " \o KindOf(FirstDiff(x, e.cfg)) \o
                (IF FirstDiff(x, e.cfg) \in Present(x) THEN " given" ELSE " not given"))
  ELSE [c EXCEPT !.done = TRUE]
DNext(c, e) ==
  IF e.ev = "reset" THEN DReset(e)
  ELSE IF IsBad(c) THEN c
  ELSE CASE e.ev = "decoded" -> DDecoded(c, e)
         [] e.ev = "end" -> IF c.done THEN c ELSE Bad("no result recorded")
=============================================================================
