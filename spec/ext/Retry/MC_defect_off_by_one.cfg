SPECIFICATION Spec
CONSTANTS MaxLen = 3 Defect = "off_by_one"
INVARIANTS NotBad
CHECK_DEADLOCK FALSE
