SPECIFICATION Spec
CONSTANTS Tier = "small" OverflowFix = TRUE
INVARIANTS NotBad
CHECK_DEADLOCK FALSE
