SPECIFICATION Spec
CONSTANTS
NReady = 1 NGet = 1 NCons = 1 MaxObs = 0 GetFix = TRUE Variant = "readyEarly" Dir = TRUE
Scripts <- OrderScripts StepSets <- NoSteps Horizon = 0 MaxTicks = 400
INVARIANT NotBad

CHECK_DEADLOCK FALSE
