------------------------------ MODULE MCSpiffe ------------------------------
(* Constants for the model-checking configurations of Spiffe.tla (cfg files   *)
(* cannot hold records).                                                      *)
EXTENDS Spiffe

W(nb, na) == [kind |-> "ok", nb |-> nb, na |-> na]
F(k) == [kind |-> k, nb |-> 0, na |-> 3600]
SeqsLE(S, k) == UNION {[1..m -> S] : m \in 0..k}

(* first-call orders: the initial fetch succeeds or fails in each of the three ways; no clock *)
OrderScripts == {<<W(0, 100000)>>, <<F("err")>>, <<F("noid")>>, <<F("empty")>>}

(* renewal timeline: initial window, <= K failures, renewed window (then a long-lived certificate) *)
TimeScripts(Ws, W2s, Fs, K) == {<<w1>> \o fs \o <<w2>> : w1 \in Ws, w2 \in W2s, fs \in SeqsLE(Fs, K)}
                          \cup {<<F(k)>> : k \in {"err", "noid", "empty"}}
(* validity windows: 2 s, 3 s (half-life at 1.5 s), 120 s, already past half-life (issued 200 s into a 400 s validity), not yet valid *)
WinSmall == {W(0, 2), W(0, 3), W(0, 120), W(-200, 200), W(20, 100)}
WinBig   == WinSmall \cup {W(0, 7200), W(-7200, 7200)}
Fails == {F("err"), F("noid"), F("empty")}
ScriptsSmall == TimeScripts(WinSmall, WinSmall, Fails, 2)
ScriptsBig   == TimeScripts(WinBig, WinBig, Fails, 3)
(* a behaviour moves its clock in steps of one size (mixed step sizes are left to the runs of the real code) *)
StepsSmall == {{2}, {7}, {60}}
StepsBig   == {{1}, {10}, {59}, {60}, {61}, {3600}}
(* for the defect variants: one script that exercises the variant *)
ScriptsDefect == {<<W(0, 120), F("noid"), F("err"), W(-200, 200)>>}
NoSteps == {{}}
=============================================================================
