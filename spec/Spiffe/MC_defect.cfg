SPECIFICATION Spec
CONSTANTS
NReady = 1 NGet = 2 NCons = 1 MaxObs = 0 GetFix = FALSE Variant = "asis" Dir = TRUE
Scripts <- OrderScripts Steps = {} Horizon = 0
INVARIANT NotBad
PROPERTY CallsReturn
CHECK_DEADLOCK FALSE
