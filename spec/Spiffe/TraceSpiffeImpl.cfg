SPECIFICATION TSpec
CONSTANTS
  NReady = 6 NGet = 6 NCons = 6 MaxObs = 1 GetFix = TRUE Variant = "asis" Dir = TRUE
  Scripts <- OrderScripts StepSets <- NoSteps Horizon = 0 MaxTicks = 0
CONSTRAINT Done
CHECK_DEADLOCK FALSE
