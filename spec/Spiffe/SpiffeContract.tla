--------------------------- MODULE SpiffeContract ---------------------------
(* C19 - crypto/spiffe as seen by its users and by the issuer: a              *)
(* deterministic monitor over events recorded in real-time order.             *)
(*   reset {dir}                       new run; dir: an identity directory is configured            *)
(*   run_call / run_ret {err}          SPIFFE.Run                                                    *)
(*   ready_call {r} / ready_ret {r,err}                                                              *)
(*   get_call {g,after} / get_ret {g,svid,key,chain,err}                                             *)
(*        after: the Ready call the same consumer made (and saw return) just before, 0 if none;     *)
(*        svid: number of the request whose certificate is served (0: none); key: number of the     *)
(*        request whose private key the SVID carries; chain: ids of its certificates (a leaf has the *)
(*        number of its request, IntId the intermediate CA, RootId the self-signed root)             *)
(*   req {n,now,keyid}                 RequestSVIDFn invoked for the n-th time at clock `now` (s);   *)
(*        keyid: number of the first request that used this CSR public key (= n iff fresh)           *)
(*   issue {n,ok,chain,certs,hasid,nb,na,anchors}  what the issuer answered: ok=FALSE an error;      *)
(*        chain: a non-empty chain, certs: its certificate ids; hasid: the leaf has a SPIFFE ID;     *)
(*        validity [nb,na] in clock seconds; anchors: version of the trust anchors current from now  *)
(*   adv {now}                         the clock was moved                                            *)
(*   files {set,key,cert,chain,ca}     what the identity directory resolves to: set = "none" |       *)
(*        "partial" | "set"; key/cert: request numbers of key.pem / the leaf of cert.pem; chain: ids *)
(*        of all certificates in cert.pem; ca: anchors version                                       *)
(*   cancel                            the context of Run was cancelled                               *)
(*   quiescent {served}                every goroutine is blocked in the runtime and none is held    *)
(*                                     at a gate of the harness; served: the SVID GetX509SVID        *)
(*                                     answers right now (request number, 0 none, -1 not probed)     *)
(*   stuck {n}                         end of the run: n Ready/Get calls never returned              *)
(* Times are whole seconds.  Half-life comparisons are done on doubled values.                       *)
EXTENDS Integers, Sequences, FiniteSets, TLC

IntId == 1000001
RootId == 1000002
NonRoot(s) == SelectSeq(s, LAMBDA x : x # RootId)   \* EncodeX509Chain leaves self-signed certificates out
Bad(why) == [bad |-> TRUE, why |-> why]
IsBad(c) == c.bad
CReset(dir) == [bad |-> FALSE, why |-> "", dir |-> dir, now |-> 0,
                runCalled |-> FALSE, runRet |-> FALSE, cancelled |-> FALSE,
                reqs |-> << >>,      \* reqs[n] = [at, key]
                iss |-> << >>,       \* iss[n]  = [good, at, nb, na, anchors]
                good |-> 0,          \* the most recent successful fetch
                settled |-> 0,       \* ... as of the last quiescent point (surely published by then)
                readys |-> << >>, gets |-> << >>,
                files |-> 0, filesSeen |-> FALSE,
                early |-> 0]         \* consecutive successful fetches that were followed by a new request before half-life

Max2(a, b) == IF a >= b THEN a ELSE b
InitDone(c) == Len(c.iss) >= 1
InitOK(c) == InitDone(c) /\ c.iss[1].good
PendReady(c) == {r \in DOMAIN c.readys : c.readys[r] = "called"}
PendGet(c) == {g \in DOMAIN c.gets : c.gets[g].st = "called"}

(* ---- never deadlock: evaluated when nothing can move any more ---- *)
Blocked(c) ==
  IF c.cancelled THEN c
  ELSE IF InitDone(c) /\ Len(c.reqs) = Len(c.iss) /\ (PendReady(c) \cup PendGet(c)) # {}
       THEN Bad("deadlock: Ready or GetX509SVID calls never return although the initial fetch finished")
  ELSE IF c.runCalled /\ ~c.runRet /\ Len(c.reqs) = 0
       THEN IF PendGet(c) # {}
            THEN Bad("deadlock: Run was called but can never start the initial fetch while GetX509SVID waits for readiness")
            ELSE Bad("deadlock: Run was called but never started the initial fetch")
  ELSE c

(* ---- renewal no later than 60 s after half-life; retry 10 s after a failure ---- *)
Due(c) ==
  IF ~c.runCalled \/ c.cancelled \/ ~InitOK(c) \/ Len(c.reqs) # Len(c.iss) THEN c
  ELSE LET n == Len(c.iss)
           i == c.iss[n]
       IN IF i.good
          THEN IF 2 * c.now >= Max2(i.nb + i.na, 2 * i.at) + 120
               THEN IF i.nb + i.na <= 2 * i.at
                    THEN Bad("no renewal was requested within one minute although the certificate handed out was already past half of its validity")
                    ELSE Bad("no renewal was requested within one minute after the certificate passed half of its validity")
               ELSE c
          ELSE IF c.now >= i.at + 10 THEN Bad("a failed renewal was not retried after 10 s") ELSE c

FilesAtRest(c) ==
  IF c.dir /\ c.filesSeen /\ c.files # c.good
  THEN IF c.good = 0 \/ c.files > c.good THEN Bad("the identity directory holds files of a fetch that did not succeed")
       ELSE Bad("the identity directory does not hold the most recently fetched SVID")
  ELSE c

(* at rest the SVID served is the most recently fetched one, and the directory holds that very identity *)
ServedAtRest(c, e) ==
  IF e.served < 0 \/ c.cancelled \/ ~InitOK(c) \/ Len(c.reqs) # Len(c.iss) THEN c
  ELSE IF c.dir /\ c.filesSeen /\ c.files > e.served
       THEN Bad("the identity directory holds an identity newer than the SVID served: disk and memory diverge")
  ELSE IF e.served # c.good THEN Bad("the SVID served at rest is not the most recently fetched one")
  ELSE c

CQuiescent(c, e) ==
  LET c1 == Blocked(c) IN
  IF IsBad(c1) THEN c1
  ELSE LET c2 == Due(c) IN
       IF IsBad(c2) THEN c2
       ELSE LET c4 == ServedAtRest(c, e) IN
            IF IsBad(c4) THEN c4
            ELSE LET c3 == FilesAtRest(c) IN
                 IF IsBad(c3) THEN c3 ELSE [c EXCEPT !.settled = c.good]

CStuck(c, e) == IF e.n = 0 THEN c ELSE Blocked(c)

CReadyRet(c, e) ==
  IF e.err THEN IF c.cancelled THEN [c EXCEPT !.readys[e.r] = "ret"]
                ELSE Bad("Ready returned an error although its context was not cancelled")
  ELSE IF ~InitDone(c) THEN Bad("Ready returned before the initial fetch finished")
  ELSE [c EXCEPT !.readys[e.r] = "ret"]

CGetRet(c, e) ==
  LET g == c.gets[e.g]
      ok == [c EXCEPT !.gets[e.g].st = "ret"] IN
  IF ~InitDone(c) THEN Bad("GetX509SVID returned before the initial fetch finished")
  ELSE IF ~InitOK(c)
       THEN IF e.err /\ e.svid = 0 THEN ok ELSE Bad("GetX509SVID returned an SVID although the initial fetch failed")
  ELSE IF e.err \/ e.svid = 0
       THEN IF g.after # 0 THEN Bad("a consumer released by Ready got no SVID although the initial fetch succeeded")
            ELSE Bad("GetX509SVID returned an error although the initial fetch succeeded")
  ELSE IF e.svid \notin DOMAIN c.iss \/ ~c.iss[e.svid].good
       THEN Bad("the SVID served was never successfully fetched: a failed or rejected renewal disturbed it")
  ELSE IF e.svid < g.floor THEN Bad("the SVID served is older than the most recently fetched one")
  ELSE IF e.key # c.reqs[e.svid].key THEN Bad("the SVID served carries a private key that does not belong to its certificate")
  ELSE IF e.chain # c.iss[e.svid].certs THEN Bad("the SVID served does not carry the certificate chain the issuer answered")
  ELSE ok

CReq(c, e) ==
  IF e.n # Len(c.reqs) + 1 \/ Len(c.iss) # Len(c.reqs) THEN Bad("a new request was made while the previous one was unanswered")
  ELSE IF e.keyid # e.n THEN Bad("a fetch reused the private key of an earlier fetch")
  ELSE IF e.n > 1 /\ ~c.iss[e.n - 1].good /\ e.now < c.iss[e.n - 1].at + 10
       THEN Bad("a failed renewal was retried earlier than 10 s after the failure")
  ELSE LET p == IF e.n > 1 /\ c.iss[e.n - 1].good /\ 2 * e.now < c.iss[e.n - 1].nb + c.iss[e.n - 1].na /\ e.now < c.iss[e.n - 1].at + 60
                 THEN c.early + 1 ELSE 0 IN
       IF p >= 3 THEN Bad("renewal never completes: the issuer answers with good certificates and is asked again at once, time after time")
       ELSE [c EXCEPT !.reqs = Append(@, [at |-> e.now, key |-> e.keyid]), !.early = p]

CIssue(c, e) ==
  LET good == e.ok /\ e.chain /\ e.hasid IN
  [c EXCEPT !.iss = Append(@, [good |-> good, at |-> c.now, nb |-> e.nb, na |-> e.na, anchors |-> e.anchors, certs |-> e.certs]),
            !.good = IF good THEN e.n ELSE @]

CFiles(c, e) ==
  IF ~c.dir THEN c
  ELSE IF e.set = "none" THEN IF c.files # 0 THEN Bad("the identity directory disappeared") ELSE [c EXCEPT !.filesSeen = TRUE]
  ELSE IF e.set = "partial" THEN Bad("the identity directory does not hold one complete file set")
  ELSE IF e.cert \notin DOMAIN c.iss \/ ~c.iss[e.cert].good
       THEN Bad("a certificate that was not accepted (and its throw-away key) was published to the identity directory")
  ELSE IF e.key # c.reqs[e.cert].key THEN Bad("key.pem and cert.pem in the identity directory belong to different fetches")
  ELSE IF e.chain # NonRoot(c.iss[e.cert].certs)
       THEN Bad("cert.pem in the identity directory differs from the certificate chain of the served SVID (self-signed roots excepted)")
  ELSE IF e.ca # c.iss[e.cert].anchors THEN Bad("ca.pem in the identity directory is not the trust anchors current at the fetch")
  ELSE IF e.cert < c.files THEN Bad("the identity directory went back to an older file set")
  ELSE [c EXCEPT !.files = e.cert, !.filesSeen = TRUE]

CNext(c, e) ==
  IF e.ev = "reset" THEN CReset(e.dir)
  ELSE IF IsBad(c) THEN c
  ELSE CASE e.ev = "run_call"   -> [c EXCEPT !.runCalled = TRUE]
         [] e.ev = "run_ret"    -> IF e.err /\ ~(InitDone(c) /\ ~InitOK(c)) THEN Bad("Run returned an error although the initial fetch did not fail")
                                   ELSE [c EXCEPT !.runRet = TRUE]
         [] e.ev = "ready_call" -> [c EXCEPT !.readys = (e.r :> "called") @@ @]
         [] e.ev = "ready_ret"  -> CReadyRet(c, e)
         [] e.ev = "get_call"   -> [c EXCEPT !.gets = (e.g :> [st |-> "called", floor |-> c.settled, after |-> e.after]) @@ @]
         [] e.ev = "get_ret"    -> CGetRet(c, e)
         [] e.ev = "req"        -> CReq(c, e)
         [] e.ev = "issue"      -> CIssue(c, e)
         [] e.ev = "adv"        -> [c EXCEPT !.now = e.now]
         [] e.ev = "files"      -> CFiles(c, e)
         [] e.ev = "cancel"     -> [c EXCEPT !.cancelled = TRUE]
         [] e.ev = "quiescent"  -> CQuiescent(c, e)
         [] e.ev = "stuck"      -> CStuck(c, e)
=============================================================================
