--------------------------- MODULE TraceSpiffeImpl ---------------------------
(* Binding of the implementation-shaped model to the code: hook-level traces  *)
(* of the real SPIFFE object (the decision points spiffe.run.beforeLock /     *)
(* spiffe.get.enter / spiffe.get.locked, the issuer's requests and answers,   *)
(* the step points of dir.Write, calls and returns, clock steps and the       *)
(* observations of the identity directory, all recorded under one mutex) must *)
(* be behaviours of Spiffe.tla with GetFix = TRUE.  Each event is matched by  *)
(* the model action it stands for (plus a post-condition on what the event    *)
(* reports); the steps no event determines (lock hand-over, publish, close,   *)
(* unlock, timer arm/wake, swap, the read and RUnlock inside GetX509SVID) are silent.  Events carry the model's        *)
(* process slot (pr: Ready slot, pg: Get slot; consumer k has slots K+k).     *)
(* A trace that is not accepted is DRIFT between model and code - reported in *)
(* the evidence, never a violation by itself.                                 *)
EXTENDS MCSpiffe, TraceLib

Trace == LoadTrace("trace.ndjson")
Starts == {i \in 1..Len(Trace) : Trace[i].ev = "reset"}
VARIABLES tr, l,
          rbl,         \* Run passed spiffe.run.beforeLock (only then it asks for the lock)
          mark         \* per Get slot: 0 called, 1 passed spiffe.get.enter, 2 passed spiffe.get.locked
tvars == <<vars, tr, l, rbl, mark>>

TInit == /\ script = <<>> /\ steps = {} /\ tr \in Starts /\ l = tr /\ InitCore(Trace[tr].dir)
         /\ rbl = FALSE /\ mark = [g \in GIds |-> 0]
HasNext == l + 1 <= Trace[tr].end
Ev == Trace[l + 1]
Eat == l' = l + 1 /\ UNCHANGED tr
Keep == UNCHANGED <<tr, l>>
Is(name) == HasNext /\ Ev.ev = name

KindOf(e) == IF ~e.ok THEN "err" ELSE IF ~e.chain THEN "empty" ELSE IF ~e.hasid THEN "noid" ELSE "ok"

TRunCall == Is("run_call") /\ Eat /\ RunCall /\ UNCHANGED <<rbl, mark>>
THookBL == Is("spiffe.run.beforeLock") /\ Eat /\ pcRun = "beforeLock" /\ ~rbl /\ rbl' = TRUE /\ UNCHANGED <<vars, mark>>
TReq == /\ Is("req") /\ Eat /\ (Req("req", "ans") \/ Req("req2", "ans2"))
        /\ nreq' = Ev.n /\ now = Ev.now /\ Ev.keyid = Ev.n /\ UNCHANGED <<rbl, mark>>
TIssue == /\ Is("issue") /\ Eat /\ Ev.n = nreq
          /\ LET a == [kind |-> KindOf(Ev), nb |-> Ev.nb - now, na |-> Ev.na - now] IN
             Issue(a, Ev.anchors, "ans", "publish", "initFail") \/ Issue(a, Ev.anchors, "ans2", "swapReq", "retry")
          /\ UNCHANGED <<rbl, mark>>
(* dir.Write: the step points before the rename change nothing; the rename publishes; removeprev comes after *)
TDirPre == /\ HasNext /\ Ev.ev \in {"dir.mkbase", "dir.mknew", "dir.file", "dir.symlink"} /\ Eat
           /\ pcRun \in {"dirw", "dirw2"} /\ UNCHANGED <<vars, rbl, mark>>
TDirRename == Is("dir.rename") /\ Eat /\ (DirWrite("dirw", "publish") \/ DirWrite("dirw2", "swapReq")) /\ UNCHANGED <<rbl, mark>>
TDirPost == Is("dir.removeprev") /\ Eat /\ files = nreq /\ UNCHANGED <<vars, rbl, mark>>
(* what the identity directory resolves to must be what the model has on disk *)
TFiles == /\ Is("files") /\ Eat /\ UNCHANGED <<vars, rbl, mark>>
          /\ IF files = 0 THEN Ev.set = "none"
             ELSE Ev.set = "set" /\ Ev.cert = files /\ Ev.key = files /\ Ev.ca = fca /\ Ev.chain = <<files, IntId>>
TReadyCall == /\ Is("ready_call") /\ Eat /\ UNCHANGED <<rbl, mark>>
              /\ IF Ev.pr <= NReady THEN ReadyBegin(Ev.pr) ELSE ConsStart(NGet + (Ev.pr - NReady))
TReadyRet == Is("ready_ret") /\ Eat /\ ~Ev.err /\ ReadyRet(Ev.pr) /\ UNCHANGED <<rbl, mark>>
TGetCall == Is("get_call") /\ Eat /\ GetBegin(Ev.pg) /\ mark' = [mark EXCEPT ![Ev.pg] = 0] /\ UNCHANGED rbl
THookEnter == /\ Is("spiffe.get.enter") /\ Eat /\ UNCHANGED <<vars, rbl>>
              /\ \E g \in GIds : pcG[g] = "enter" /\ mark[g] = 0 /\ mark' = [mark EXCEPT ![g] = 1]
THookLocked == /\ Is("spiffe.get.locked") /\ Eat /\ UNCHANGED <<vars, rbl>>
               /\ \E g \in GIds : pcG[g] = "held" /\ mark[g] = 1 /\ mark' = [mark EXCEPT ![g] = 2]
TGetRet == /\ Is("get_ret") /\ Eat /\ mark[Ev.pg] = 2 /\ GetRet(Ev.pg)
           /\ Ev.svid = gval[Ev.pg] /\ Ev.err = (gval[Ev.pg] = 0) /\ UNCHANGED <<rbl, mark>>
(* Run returns the error of the initial fetch; a return without error follows the cancellation that ends a run *)
TRunRet == /\ Is("run_ret") /\ Eat /\ UNCHANGED <<rbl, mark>>
           /\ IF Ev.err THEN FailRet ELSE pcRun \in {"wait", "retry"} /\ UNCHANGED vars
TAdv == Is("adv") /\ Eat /\ StepTo(Ev.now) /\ UNCHANGED <<rbl, mark>>
(* the harness saw every goroutine blocked and none held at a gate: nothing may be enabled in the model either *)
TQuiescent == Is("quiescent") /\ Eat /\ Quiet /\ (Ev.served < 0 \/ Ev.served = cur) /\ UNCHANGED <<vars, rbl, mark>>
TStuck == /\ Is("stuck") /\ Eat /\ UNCHANGED <<vars, rbl, mark>>
          /\ Ev.n = Cardinality({r \in 1..NReady : pcR[r] = "wait"}) + Cardinality({g \in GIds : pcG[g] \notin {"idle", "done"}})
TIgnore == HasNext /\ Ev.ev \in {"cancel", "issuer.answer"} /\ Eat /\ UNCHANGED <<vars, rbl, mark>>
(* silent: no event determines these *)
Silent == /\ HasNext /\ Keep /\ UNCHANGED <<rbl, mark>>
          /\ \/ RunSilent /\ (pcRun = "beforeLock" => rbl)
             \/ \E g \in GIds : (GetEnter(g) /\ mark[g] = 1) \/ GetSecond(g) \/ (GetUnlock(g) /\ mark[g] = 2)

TNext == TRunCall \/ THookBL \/ TReq \/ TIssue \/ TDirPre \/ TDirRename \/ TDirPost \/ TFiles \/ TReadyCall \/ TReadyRet
         \/ TGetCall \/ THookEnter \/ THookLocked \/ TGetRet \/ TRunRet \/ TAdv \/ TQuiescent \/ TStuck \/ TIgnore \/ Silent
TSpec == TInit /\ [][TNext]_tvars
Done == IF l = Trace[tr].end THEN PrintT(<<"DONE", tr>>) ELSE TRUE
=============================================================================
