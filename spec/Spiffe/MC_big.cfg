SPECIFICATION Spec
CONSTANTS
NReady = 2 NGet = 2 NCons = 1 MaxObs = 0 GetFix = TRUE Variant = "asis" Dir = TRUE
Scripts <- OrderScripts StepSets <- NoSteps Horizon = 0 MaxTicks = 400
INVARIANT NotBad
PROPERTY CallsReturn
CHECK_DEADLOCK FALSE
