------------------------------- MODULE Spiffe -------------------------------
(* Implementation-shaped model of crypto/spiffe (spiffe.go, svidsource.go).   *)
(*   rw        s.lock, a Go RWMutex: w (write-locked), ww (a writer is        *)
(*             waiting: new readers are held back), rd (read-lock holders)    *)
(*   readyCh   closed or not        cur   s.currentSVID (0 = nil)             *)
(*   Run       CAS; Lock; fetch (req, issuer answer, SPIFFE-ID check, dir     *)
(*             write); publish; close(readyCh); Unlock; rotation loop         *)
(*   Ready     <-readyCh                                                      *)
(*   Get       GetFix = FALSE (as first written): RLock, THEN <-readyCh       *)
(*             GetFix = TRUE  (repaired): <-readyCh, THEN RLock               *)
(*   consumers call Ready and, released by it, GetX509SVID                    *)
(* Every observable step feeds the contract monitor c (SpiffeContract); the   *)
(* invariant is ~IsBad(c).  The clock moves (Step) only when nothing else can *)
(* move - exactly what the harness does with the fake clock.                  *)
(* Variant switches the model to known-bad variants for the MC_defect cfgs:   *)
(*   "readyEarly" readiness signalled before the write lock is taken          *)
(*   "idLate"     SPIFFE-ID check after the identity-directory write          *)
(*   "rebase"     renewal time re-based on now for a certificate already past *)
(*                its half-life                                                *)
(*   "keyReuse"   the key of the first fetch is used again                    *)
(*   "swapFailed" a failed renewal clears the served SVID                     *)
(*   "retry5"     failed renewals retried after 5 s                           *)
EXTENDS SpiffeContract

CONSTANTS NReady, NGet, NCons,  \* pure Ready callers, pure Get callers, consumers (Ready then Get)
          MaxObs,               \* > 0: the pure Get callers call again and again (observers)
          GetFix, Variant, Dir,
          Scripts,              \* set of issuer scripts: sequences of [kind, nb, na] (validity relative to the answer time)
          MaxTicks,             \* a behaviour is explored up to Min(Horizon, MaxTicks * its largest step)
          StepSets, Horizon     \* sets of clock steps (s) - a behaviour draws its steps from one of them - and the last instant explored

RIds == 1..(NReady + NCons)        \* Ready callers; NReady+k is consumer k
GIds == 1..(NGet + NCons)          \* Get callers;   NGet+k   is consumer k
IsCons(g) == g > NGet
ConsReady(g) == NReady + (g - NGet)

VARIABLES c, script, now, pcRun, rw, readyCh, cur, nreq, fetched, renew, target, files,
          pcR, pcG, q, steps, seen
vars == <<c, script, now, pcRun, rw, readyCh, cur, nreq, fetched, renew, target, files, pcR, pcG, q, steps, seen>>

LongOK == [kind |-> "ok", nb |-> 0, na |-> 4 * Horizon + 100000]
Answer(n) == IF n <= Len(script) THEN script[n] ELSE LongOK
Min2(a, b) == IF a <= b THEN a ELSE b
Half(nb, na) == nb + ((na - nb) \div 2)

Init == /\ script \in Scripts /\ steps \in StepSets /\ seen = 0 /\ c = CReset(Dir) /\ now = 0 /\ pcRun = "idle"
        /\ rw = [w |-> FALSE, ww |-> FALSE, rd |-> {}] /\ readyCh = FALSE /\ cur = 0 /\ nreq = 0
        /\ fetched = [nb |-> 0, na |-> 0] /\ renew = 0 /\ target = 0 /\ files = 0
        /\ pcR = [r \in RIds |-> "idle"] /\ pcG = [g \in GIds |-> "idle"] /\ q = FALSE

FilesEv == IF files = 0 THEN [ev |-> "files", set |-> "none", key |-> 0, cert |-> 0, ca |-> 0]
           ELSE [ev |-> "files", set |-> "set", key |-> IF Variant = "keyReuse" THEN 1 ELSE files, cert |-> files, ca |-> files]
Emit(e) == c' = CNext(c, e)
Emit2(e1, e2) == c' = CNext(CNext(c, e1), e2)

(* ------------------------------ Run ------------------------------ *)
RunCall == /\ pcRun = "idle" /\ pcRun' = "beforeLock" /\ Emit([ev |-> "run_call"]) /\ q' = FALSE
           /\ UNCHANGED <<seen, steps, script, now, rw, readyCh, cur, nreq, fetched, renew, target, files, pcR, pcG>>
RunLockReq == /\ pcRun = "beforeLock" /\ pcRun' = "lockWait" /\ rw' = [rw EXCEPT !.ww = TRUE]
              /\ readyCh' = (IF Variant = "readyEarly" THEN TRUE ELSE readyCh) /\ q' = FALSE
              /\ UNCHANGED <<seen, steps, c, script, now, cur, nreq, fetched, renew, target, files, pcR, pcG>>
LockAcq(from, to) == /\ pcRun = from /\ rw.rd = {} /\ pcRun' = to /\ rw' = [rw EXCEPT !.w = TRUE, !.ww = FALSE] /\ q' = FALSE
                     /\ UNCHANGED <<seen, steps, c, script, now, readyCh, cur, nreq, fetched, renew, target, files, pcR, pcG>>
Req(from, to) == /\ pcRun = from /\ pcRun' = to /\ nreq' = nreq + 1 /\ q' = FALSE
                 /\ Emit([ev |-> "req", n |-> nreq + 1, now |-> now,
                          keyid |-> IF Variant = "keyReuse" /\ nreq >= 1 THEN 1 ELSE nreq + 1])
                 /\ UNCHANGED <<seen, steps, script, now, rw, readyCh, cur, fetched, renew, target, files, pcR, pcG>>
IssueEv(a) == [ev |-> "issue", n |-> nreq, ok |-> a.kind # "err", chain |-> a.kind # "empty", hasid |-> a.kind \notin {"noid", "empty"},
               nb |-> now + a.nb, na |-> now + a.na, anchors |-> nreq]
(* the issuer answers; fetchIdentityCertificate checks the answer and writes the identity directory *)
Ans(from, okTo, failTo) ==
  /\ pcRun = from /\ q' = FALSE
  /\ LET a == Answer(nreq) IN
     IF a.kind = "ok"
     THEN /\ pcRun' = okTo /\ fetched' = [nb |-> now + a.nb, na |-> now + a.na]
          /\ IF Dir THEN files' = nreq /\ c' = CNext(CNext(c, IssueEv(a)), [ev |-> "files", set |-> "set",
                                                 key |-> IF Variant = "keyReuse" THEN 1 ELSE nreq, cert |-> nreq, ca |-> nreq])
                    ELSE UNCHANGED files /\ Emit(IssueEv(a))
          /\ UNCHANGED <<target, cur>>
     ELSE /\ pcRun' = failTo /\ UNCHANGED fetched
          /\ target' = now + (IF Variant = "retry5" THEN 5 ELSE 10)
          /\ cur' = IF Variant = "swapFailed" /\ from = "ans2" THEN 0 ELSE cur
          /\ IF Dir /\ Variant = "idLate" /\ a.kind = "noid"
             THEN files' = nreq /\ c' = CNext(CNext(c, IssueEv(a)), [ev |-> "files", set |-> "set", key |-> nreq, cert |-> nreq, ca |-> nreq])
             ELSE UNCHANGED files /\ Emit(IssueEv(a))
  /\ UNCHANGED <<seen, steps, script, now, rw, readyCh, nreq, renew, pcR, pcG>>
RunPublish == /\ pcRun = "publish" /\ pcRun' = "close" /\ cur' = nreq /\ q' = FALSE
              /\ UNCHANGED <<seen, steps, c, script, now, rw, readyCh, nreq, fetched, renew, target, files, pcR, pcG>>
RunClose == /\ pcRun = "close" /\ pcRun' = "unlock" /\ readyCh' = TRUE /\ q' = FALSE
            /\ UNCHANGED <<seen, steps, c, script, now, rw, cur, nreq, fetched, renew, target, files, pcR, pcG>>
RunUnlock == /\ pcRun = "unlock" /\ pcRun' = "arm" /\ rw' = [rw EXCEPT !.w = FALSE] /\ q' = FALSE
             /\ renew' = Half(fetched.nb, fetched.na)
             /\ UNCHANGED <<seen, steps, c, script, now, readyCh, cur, nreq, fetched, target, files, pcR, pcG>>
RunInitFail == /\ pcRun = "initFail" /\ pcRun' = "done" /\ readyCh' = TRUE /\ rw' = [rw EXCEPT !.w = FALSE] /\ q' = FALSE
               /\ Emit([ev |-> "run_ret", err |-> TRUE])
               /\ UNCHANGED <<seen, steps, script, now, cur, nreq, fetched, renew, target, files, pcR, pcG>>
(* rotation loop - spiffe.go runRotation *)
RotArm == /\ pcRun = "arm" /\ pcRun' = "wait" /\ target' = now + Min2(60, renew - now) /\ q' = FALSE
          /\ UNCHANGED <<seen, steps, c, script, now, rw, readyCh, cur, nreq, fetched, renew, files, pcR, pcG>>
RotWake == /\ pcRun = "wait" /\ now >= target /\ pcRun' = (IF now < renew THEN "arm" ELSE "req2") /\ q' = FALSE
           /\ UNCHANGED <<seen, steps, c, script, now, rw, readyCh, cur, nreq, fetched, renew, target, files, pcR, pcG>>
RotRetry == /\ pcRun = "retry" /\ now >= target /\ pcRun' = "arm" /\ q' = FALSE
            /\ UNCHANGED <<seen, steps, c, script, now, rw, readyCh, cur, nreq, fetched, renew, target, files, pcR, pcG>>
SwapReq == /\ pcRun = "swapReq" /\ pcRun' = "swapWait" /\ rw' = [rw EXCEPT !.ww = TRUE] /\ q' = FALSE
           /\ UNCHANGED <<seen, steps, c, script, now, readyCh, cur, nreq, fetched, renew, target, files, pcR, pcG>>
Swap == /\ pcRun = "swap" /\ pcRun' = "arm" /\ cur' = nreq /\ rw' = [rw EXCEPT !.w = FALSE] /\ q' = FALSE
        /\ renew' = IF Variant = "rebase" /\ Half(fetched.nb, fetched.na) <= now
                    THEN now + ((fetched.na - now) \div 2) ELSE Half(fetched.nb, fetched.na)
        /\ UNCHANGED <<seen, steps, c, script, now, readyCh, nreq, fetched, target, files, pcR, pcG>>
RunInternal == \/ RunLockReq \/ LockAcq("lockWait", "req") \/ Req("req", "ans") \/ Ans("ans", "publish", "initFail")
               \/ RunPublish \/ RunClose \/ RunUnlock \/ RunInitFail
               \/ RotArm \/ RotWake \/ RotRetry \/ Req("req2", "ans2") \/ Ans("ans2", "swapReq", "retry")
               \/ SwapReq \/ LockAcq("swapWait", "swap") \/ Swap
RunBlocked == \/ pcRun \in {"idle", "done"}
              \/ pcRun \in {"lockWait", "swapWait"} /\ rw.rd # {}
              \/ pcRun \in {"wait", "retry"} /\ now < target

(* ------------------------------ Ready ------------------------------ *)
ReadyCall(r) == /\ pcR[r] = "idle" /\ r <= NReady /\ pcR' = [pcR EXCEPT ![r] = "wait"] /\ Emit([ev |-> "ready_call", r |-> r]) /\ q' = FALSE
                /\ UNCHANGED <<seen, steps, script, now, pcRun, rw, readyCh, cur, nreq, fetched, renew, target, files, pcG>>
ReadyRet(r) == /\ pcR[r] = "wait" /\ readyCh /\ pcR' = [pcR EXCEPT ![r] = "done"] /\ q' = FALSE
               /\ Emit([ev |-> "ready_ret", r |-> r, err |-> FALSE])
               /\ UNCHANGED <<seen, steps, script, now, pcRun, rw, readyCh, cur, nreq, fetched, renew, target, files, pcG>>
ReadyBlocked(r) == pcR[r] \in {"idle", "done"} \/ (pcR[r] = "wait" /\ ~readyCh)

(* ------------------------------ Get / consumers ------------------------------ *)
CanRLock == ~rw.w /\ ~rw.ww
ConsStart(g) == /\ IsCons(g) /\ pcG[g] = "idle" /\ pcR[ConsReady(g)] = "idle"
                /\ pcR' = [pcR EXCEPT ![ConsReady(g)] = "wait"] /\ pcG' = [pcG EXCEPT ![g] = "rwait"] /\ q' = FALSE
                /\ Emit([ev |-> "ready_call", r |-> ConsReady(g)])
                /\ UNCHANGED <<seen, steps, script, now, pcRun, rw, readyCh, cur, nreq, fetched, renew, target, files>>
(* To keep the timeline configurations finite and small, an observer calls while the clock has not moved yet, *)
(* while a renewal is in flight, or when there may be something new to see; the clock moves only between such calls, and *)
(* only once a new SVID has been looked at.                                                                    *)
MayObserve == now = 0 \/ pcRun \in {"ans2", "swapReq", "swapWait", "swap"} \/ seen # cur
GetCall(g) == /\ \/ ~IsCons(g) /\ pcG[g] = "idle" /\ MayObserve
                 \/ ~IsCons(g) /\ pcG[g] = "done" /\ MaxObs > 0 /\ MayObserve     \* an observer calls again (same id: the monitor keeps the last call)
                 \/ IsCons(g) /\ pcG[g] = "rwait" /\ pcR[ConsReady(g)] = "done"
              /\ pcG' = [pcG EXCEPT ![g] = "enter"] /\ q' = FALSE
              /\ Emit([ev |-> "get_call", g |-> g, after |-> IF IsCons(g) THEN ConsReady(g) ELSE 0])
              /\ UNCHANGED <<seen, steps, script, now, pcRun, rw, readyCh, cur, nreq, fetched, renew, target, files, pcR>>
GetEnter(g) == /\ pcG[g] = "enter" /\ q' = FALSE
               /\ IF GetFix THEN readyCh /\ pcG' = [pcG EXCEPT ![g] = "rlock"] /\ UNCHANGED rw
                            ELSE CanRLock /\ pcG' = [pcG EXCEPT ![g] = "locked"] /\ rw' = [rw EXCEPT !.rd = @ \cup {g}]
               /\ UNCHANGED <<seen, steps, c, script, now, pcRun, readyCh, cur, nreq, fetched, renew, target, files, pcR>>
GetSecond(g) == /\ q' = FALSE
                /\ \/ pcG[g] = "rlock" /\ CanRLock /\ rw' = [rw EXCEPT !.rd = @ \cup {g}]
                   \/ pcG[g] = "locked" /\ readyCh /\ UNCHANGED rw
                /\ pcG' = [pcG EXCEPT ![g] = "held"]
                /\ UNCHANGED <<seen, steps, c, script, now, pcRun, readyCh, cur, nreq, fetched, renew, target, files, pcR>>
GetRet(g) == /\ pcG[g] = "held" /\ pcG' = [pcG EXCEPT ![g] = "done"] /\ rw' = [rw EXCEPT !.rd = @ \ {g}] /\ q' = FALSE
             /\ seen' = cur
             /\ Emit([ev |-> "get_ret", g |-> g, svid |-> cur, err |-> cur = 0,
                      key |-> IF cur = 0 THEN 0 ELSE IF Variant = "keyReuse" THEN 1 ELSE cur])
             /\ UNCHANGED <<steps, script, now, pcRun, readyCh, cur, nreq, fetched, renew, target, files, pcR>>
GetInternal(g) == GetEnter(g) \/ GetSecond(g) \/ GetRet(g) \/ (IsCons(g) /\ GetCall(g))
GetBlocked(g) == \/ pcG[g] \in {"idle", "done"}
                 \/ pcG[g] = "rwait" /\ pcR[ConsReady(g)] # "done"
                 \/ pcG[g] = "enter" /\ (IF GetFix THEN ~readyCh ELSE ~CanRLock)
                 \/ pcG[g] = "rlock" /\ ~CanRLock
                 \/ pcG[g] = "locked" /\ ~readyCh

(* ------------------------------ quiescence and the clock ------------------------------ *)
Quiet == RunBlocked /\ (\A r \in RIds : ReadyBlocked(r)) /\ (\A g \in GIds : GetBlocked(g))
AllStarted == pcRun # "idle" /\ (\A r \in RIds : pcR[r] # "idle") /\ (\A g \in GIds : pcG[g] # "idle")
NPending == Cardinality({r \in RIds : pcR[r] = "wait"}) + Cardinality({g \in GIds : pcG[g] \notin {"idle", "done"}})
QuiesceEvs(c0) == CNext(CNext(c0, FilesEv), [ev |-> "quiescent"])
Quiesce == /\ Quiet /\ ~q /\ q' = TRUE
           /\ c' = IF AllStarted THEN CNext(QuiesceEvs(c), [ev |-> "stuck", n |-> NPending]) ELSE QuiesceEvs(c)
           /\ UNCHANGED <<seen, steps, script, now, pcRun, rw, readyCh, cur, nreq, fetched, renew, target, files, pcR, pcG>>
MaxOf(S) == CHOOSE x \in S : \A y \in S : y <= x
Step(d) == /\ Quiet /\ pcRun \in {"wait", "retry"} /\ now + d <= Min2(Horizon, MaxTicks * MaxOf(steps))
           /\ \A g \in GIds : pcG[g] \in {"idle", "done"}
           /\ (seen = cur \/ ~\E g \in GIds : ~IsCons(g) /\ (pcG[g] = "idle" \/ MaxObs > 0))
           /\ now' = now + d /\ q' = FALSE
           /\ c' = CNext(QuiesceEvs(c), [ev |-> "adv", now |-> now + d])
           /\ UNCHANGED <<seen, steps, script, pcRun, rw, readyCh, cur, nreq, fetched, renew, target, files, pcR, pcG>>

Next == \/ RunCall \/ RunInternal
        \/ \E r \in RIds : ReadyCall(r) \/ ReadyRet(r)
        \/ \E g \in GIds : ConsStart(g) \/ GetCall(g) \/ GetEnter(g) \/ GetSecond(g) \/ GetRet(g)
        \/ Quiesce \/ \E d \in steps : Step(d)
Spec == /\ Init /\ [][Next]_vars
        /\ WF_vars(RunCall) /\ WF_vars(RunInternal)
        /\ \A r \in RIds : WF_vars(ReadyRet(r))
        /\ \A g \in GIds : WF_vars(GetInternal(g))

NotBad == ~IsBad(c)
(* liveness: every call made returns (Run is eventually called; the issuer always answers) *)
CallsReturn == /\ \A r \in RIds : (pcR[r] = "wait") ~> (pcR[r] = "done")
               /\ \A g \in GIds : (pcG[g] \notin {"idle", "done"}) ~> (pcG[g] = "done")
=============================================================================
