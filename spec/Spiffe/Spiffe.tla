------------------------------- MODULE Spiffe -------------------------------
(* Implementation-shaped model of crypto/spiffe (spiffe.go, svidsource.go).   *)
(*   rw        s.lock, a Go RWMutex: w (write-locked), ww (a writer is        *)
(*             waiting: new readers are held back), rd (read-lock holders)    *)
(*   readyCh   closed or not        cur   s.currentSVID (0 = nil)             *)
(*   Run       CAS; Lock; fetch (request, issuer answer, SPIFFE-ID check, dir *)
(*             write); publish; close(readyCh); Unlock; rotation loop         *)
(*   Ready     <-readyCh                                                      *)
(*   Get       GetFix = FALSE (as first written): RLock, THEN <-readyCh       *)
(*             GetFix = TRUE  (repaired): <-readyCh, THEN RLock               *)
(*   consumers call Ready and, released by it, GetX509SVID                    *)
(* Every observable step feeds the contract monitor c (SpiffeContract); the   *)
(* invariant is ~IsBad(c).  The clock moves (Step) only when nothing else can *)
(* move - exactly what the harness does with the fake clock.  Times are whole *)
(* seconds; the renewal instant and the timer targets are kept DOUBLED        *)
(* (renew, target) because the half-life of an odd validity is x.5 s.         *)
(* The model is used twice: exhaustively (Init/Next: the issuer follows a     *)
(* script drawn from Scripts, clients and clock steps are free) and for       *)
(* validating hook-level traces of the real code (TraceSpiffeImpl: the        *)
(* issuer's answers, the calls and the clock steps come from the trace; the   *)
(* parameterised actions Issue(a, v, ..), ReadyBegin, GetBegin, StepTo are    *)
(* shared).                                                                   *)
(* Variant switches the model to known-bad variants for the MC_defect cfgs:   *)
(*   "readyEarly" readiness signalled before the write lock is taken          *)
(*   "idLate"     SPIFFE-ID check after the identity-directory write          *)
(*   "rebase"     renewal time re-based on now for a certificate already past *)
(*                its half-life                                                *)
(*   "keyReuse"   the key of the first fetch is used again                    *)
(*   "swapFailed" a failed renewal clears the served SVID                     *)
(*   "retry5"     failed renewals retried after 5 s                           *)
EXTENDS SpiffeContract

CONSTANTS NReady, NGet, NCons,  \* pure Ready callers, pure Get callers, consumers (Ready then Get)
          MaxObs,               \* > 0: the pure Get callers call again and again (observers)
          GetFix, Variant, Dir,
          Scripts,              \* set of issuer scripts: sequences of [kind, nb, na] (validity relative to the answer time)
          MaxTicks,             \* a behaviour is explored up to Min(Horizon, MaxTicks * its largest step)
          StepSets, Horizon     \* sets of clock steps (s) - a behaviour draws its steps from one of them - and the last instant explored

RIds == 1..(NReady + NCons)        \* Ready callers; NReady+k is consumer k
GIds == 1..(NGet + NCons)          \* Get callers;   NGet+k   is consumer k
IsCons(g) == g > NGet
ConsReady(g) == NReady + (g - NGet)

VARIABLES c, script, steps, dir, now, pcRun, rw, readyCh, cur, nreq, fetched, renew, target,
          files, fca,             \* identity directory: request number of the set on disk (0: none), its trust-anchor version
          ver,                    \* trust-anchor version current at the last answer
          pcR, pcG, q, seen,
          gval                    \* per Get caller: the SVID it read under the read lock (returned to the caller afterwards)
vars == <<c, script, steps, dir, now, pcRun, rw, readyCh, cur, nreq, fetched, renew, target, files, fca, ver, pcR, pcG, q, seen, gval>>

LongOK == [kind |-> "ok", nb |-> 0, na |-> 4 * Horizon + 100000]
Answer(n) == IF n <= Len(script) THEN script[n] ELSE LongOK
Min2(a, b) == IF a <= b THEN a ELSE b

InitCore(d) == /\ dir = d /\ seen = 0 /\ c = CReset(d) /\ now = 0 /\ pcRun = "idle"
               /\ rw = [w |-> FALSE, ww |-> FALSE, rd |-> {}] /\ readyCh = FALSE /\ cur = 0 /\ nreq = 0
               /\ fetched = [nb |-> 0, na |-> 0] /\ renew = 0 /\ target = 0 /\ files = 0 /\ fca = 0 /\ ver = 0
               /\ pcR = [r \in RIds |-> "idle"] /\ pcG = [g \in GIds |-> "idle"] /\ q = FALSE
               /\ gval = [g \in GIds |-> 0]
Init == script \in Scripts /\ steps \in StepSets /\ InitCore(Dir)

FilesEv == IF files = 0 THEN [ev |-> "files", set |-> "none", key |-> 0, cert |-> 0, chain |-> <<>>, ca |-> 0]
           ELSE [ev |-> "files", set |-> "set", key |-> IF Variant = "keyReuse" THEN 1 ELSE files, cert |-> files,
                 chain |-> <<files, IntId>>, ca |-> fca]
Emit(e) == c' = CNext(c, e)

(* ------------------------------ Run ------------------------------ *)
RunCall == /\ pcRun = "idle" /\ pcRun' = "beforeLock" /\ Emit([ev |-> "run_call"]) /\ q' = FALSE      \* CAS; hook spiffe.run.beforeLock
           /\ UNCHANGED <<script, steps, dir, now, rw, readyCh, cur, nreq, fetched, renew, target, files, fca, ver, pcR, pcG, seen, gval>>
RunLockReq == /\ pcRun = "beforeLock" /\ pcRun' = "lockWait" /\ rw' = [rw EXCEPT !.ww = TRUE]          \* Lock(): announced
              /\ readyCh' = (IF Variant = "readyEarly" THEN TRUE ELSE readyCh) /\ q' = FALSE
              /\ UNCHANGED <<c, script, steps, dir, now, cur, nreq, fetched, renew, target, files, fca, ver, pcR, pcG, seen, gval>>
LockAcq(from, to) == /\ pcRun = from /\ rw.rd = {} /\ pcRun' = to /\ rw' = [rw EXCEPT !.w = TRUE, !.ww = FALSE] /\ q' = FALSE
                     /\ UNCHANGED <<c, script, steps, dir, now, readyCh, cur, nreq, fetched, renew, target, files, fca, ver, pcR, pcG, seen, gval>>
(* fetchIdentityCertificate: fresh key + CSR, RequestSVIDFn *)
Req(from, to) == /\ pcRun = from /\ pcRun' = to /\ nreq' = nreq + 1 /\ q' = FALSE
                 /\ Emit([ev |-> "req", n |-> nreq + 1, now |-> now,
                          keyid |-> IF Variant = "keyReuse" /\ nreq >= 1 THEN 1 ELSE nreq + 1])
                 /\ UNCHANGED <<script, steps, dir, now, rw, readyCh, cur, fetched, renew, target, files, fca, ver, pcR, pcG, seen, gval>>
IssueEv(a, v) == [ev |-> "issue", n |-> nreq, ok |-> a.kind # "err", chain |-> a.kind # "empty", hasid |-> a.kind \notin {"noid", "empty"},
                  certs |-> IF a.kind \in {"err", "empty"} THEN <<>> ELSE <<nreq, IntId>>,      \* the issuer answers leaf + intermediate
                  nb |-> now + a.nb, na |-> now + a.na, anchors |-> v]
(* the issuer answers a (trust anchors now at version v); the answer is checked; a good one goes on to the directory write *)
Issue(a, v, from, okTo, failTo) ==
  /\ pcRun = from /\ q' = FALSE /\ ver' = v /\ Emit(IssueEv(a, v))
  /\ IF a.kind = "ok"
     THEN /\ pcRun' = (IF dir THEN (IF from = "ans" THEN "dirw" ELSE "dirw2") ELSE okTo)
          /\ fetched' = [nb |-> now + a.nb, na |-> now + a.na]
          /\ UNCHANGED <<target, cur>>
     ELSE /\ pcRun' = (IF dir /\ Variant = "idLate" /\ a.kind = "noid" THEN (IF from = "ans" THEN "dirwBad" ELSE "dirwBad2") ELSE failTo)
          /\ UNCHANGED fetched
          /\ target' = 2 * (now + (IF Variant = "retry5" THEN 5 ELSE 10))       \* (only used by the retry wait)
          /\ cur' = IF Variant = "swapFailed" /\ from = "ans2" THEN 0 ELSE cur
  /\ UNCHANGED <<script, steps, dir, now, rw, readyCh, nreq, renew, files, fca, pcR, pcG, seen, gval>>
(* dir.Write: the new set becomes visible at the rename (the other filesystem steps change nothing observable) *)
DirWrite(from, to) == /\ pcRun = from /\ pcRun' = to /\ files' = nreq /\ fca' = ver /\ q' = FALSE
                      /\ Emit([ev |-> "files", set |-> "set", key |-> IF Variant = "keyReuse" THEN 1 ELSE nreq, cert |-> nreq,
                               chain |-> <<nreq, IntId>>, ca |-> ver])
                      /\ UNCHANGED <<script, steps, dir, now, rw, readyCh, cur, nreq, fetched, renew, target, ver, pcR, pcG, seen, gval>>
RunPublish == /\ pcRun = "publish" /\ pcRun' = "close" /\ cur' = nreq /\ q' = FALSE
              /\ UNCHANGED <<c, script, steps, dir, now, rw, readyCh, nreq, fetched, renew, target, files, fca, ver, pcR, pcG, seen, gval>>
RunClose == /\ pcRun = "close" /\ pcRun' = "unlock" /\ readyCh' = TRUE /\ q' = FALSE
            /\ UNCHANGED <<c, script, steps, dir, now, rw, cur, nreq, fetched, renew, target, files, fca, ver, pcR, pcG, seen, gval>>
RunUnlock == /\ pcRun = "unlock" /\ pcRun' = "arm" /\ rw' = [rw EXCEPT !.w = FALSE] /\ q' = FALSE
             /\ renew' = fetched.nb + fetched.na
             /\ UNCHANGED <<c, script, steps, dir, now, readyCh, cur, nreq, fetched, target, files, fca, ver, pcR, pcG, seen, gval>>
(* the initial fetch failed: close(readyCh); Unlock; return the error *)
FailClose == /\ pcRun = "initFail" /\ pcRun' = "failUnlock" /\ readyCh' = TRUE /\ q' = FALSE
             /\ UNCHANGED <<c, script, steps, dir, now, rw, cur, nreq, fetched, renew, target, files, fca, ver, pcR, pcG, seen, gval>>
FailUnlock == /\ pcRun = "failUnlock" /\ pcRun' = "failRet" /\ rw' = [rw EXCEPT !.w = FALSE] /\ q' = FALSE
              /\ UNCHANGED <<c, script, steps, dir, now, readyCh, cur, nreq, fetched, renew, target, files, fca, ver, pcR, pcG, seen, gval>>
FailRet == /\ pcRun = "failRet" /\ pcRun' = "done" /\ q' = FALSE /\ Emit([ev |-> "run_ret", err |-> TRUE])
           /\ UNCHANGED <<script, steps, dir, now, rw, readyCh, cur, nreq, fetched, renew, target, files, fca, ver, pcR, pcG, seen, gval>>
(* rotation loop - spiffe.go runRotation: After(min(1 min, renewTime - now)) *)
RotArm == /\ pcRun = "arm" /\ pcRun' = "wait" /\ target' = Min2(2 * (now + 60), renew) /\ q' = FALSE
          /\ UNCHANGED <<c, script, steps, dir, now, rw, readyCh, cur, nreq, fetched, renew, files, fca, ver, pcR, pcG, seen, gval>>
RotWake == /\ pcRun = "wait" /\ 2 * now >= target /\ pcRun' = (IF 2 * now < renew THEN "arm" ELSE "req2") /\ q' = FALSE
           /\ UNCHANGED <<c, script, steps, dir, now, rw, readyCh, cur, nreq, fetched, renew, target, files, fca, ver, pcR, pcG, seen, gval>>
RotRetry == /\ pcRun = "retry" /\ 2 * now >= target /\ pcRun' = "arm" /\ q' = FALSE
            /\ UNCHANGED <<c, script, steps, dir, now, rw, readyCh, cur, nreq, fetched, renew, target, files, fca, ver, pcR, pcG, seen, gval>>
SwapReq == /\ pcRun = "swapReq" /\ pcRun' = "swapWait" /\ rw' = [rw EXCEPT !.ww = TRUE] /\ q' = FALSE
           /\ UNCHANGED <<c, script, steps, dir, now, readyCh, cur, nreq, fetched, renew, target, files, fca, ver, pcR, pcG, seen, gval>>
Swap == /\ pcRun = "swap" /\ pcRun' = "arm" /\ cur' = nreq /\ rw' = [rw EXCEPT !.w = FALSE] /\ q' = FALSE
        /\ renew' = IF Variant = "rebase" /\ fetched.nb + fetched.na <= 2 * now
                    THEN now + fetched.na ELSE fetched.nb + fetched.na
        /\ UNCHANGED <<c, script, steps, dir, now, readyCh, nreq, fetched, target, files, fca, ver, pcR, pcG, seen, gval>>
(* the steps of Run that no event of a trace determines *)
RunSilent == \/ RunLockReq \/ LockAcq("lockWait", "req")
             \/ RunPublish \/ RunClose \/ RunUnlock \/ FailClose \/ FailUnlock
             \/ DirWrite("dirwBad", "initFail") \/ DirWrite("dirwBad2", "retry")
             \/ RotArm \/ RotWake \/ RotRetry \/ SwapReq \/ LockAcq("swapWait", "swap") \/ Swap
RunInternal == \/ RunSilent \/ FailRet
               \/ Req("req", "ans") \/ Issue(Answer(nreq), nreq, "ans", "publish", "initFail") \/ DirWrite("dirw", "publish")
               \/ Req("req2", "ans2") \/ Issue(Answer(nreq), nreq, "ans2", "swapReq", "retry") \/ DirWrite("dirw2", "swapReq")
RunBlocked == \/ pcRun \in {"idle", "done"}
              \/ pcRun \in {"lockWait", "swapWait"} /\ rw.rd # {}
              \/ pcRun \in {"wait", "retry"} /\ 2 * now < target

(* ------------------------------ Ready ------------------------------ *)
ReadyBegin(r) == /\ pcR[r] = "idle" /\ r <= NReady /\ pcR' = [pcR EXCEPT ![r] = "wait"] /\ Emit([ev |-> "ready_call", r |-> r]) /\ q' = FALSE
                 /\ UNCHANGED <<script, steps, dir, now, pcRun, rw, readyCh, cur, nreq, fetched, renew, target, files, fca, ver, pcG, seen, gval>>
ReadyRet(r) == /\ pcR[r] = "wait" /\ readyCh /\ pcR' = [pcR EXCEPT ![r] = "done"] /\ q' = FALSE
               /\ Emit([ev |-> "ready_ret", r |-> r, err |-> FALSE])
               /\ UNCHANGED <<script, steps, dir, now, pcRun, rw, readyCh, cur, nreq, fetched, renew, target, files, fca, ver, pcG, seen, gval>>
ReadyBlocked(r) == pcR[r] \in {"idle", "done"} \/ (pcR[r] = "wait" /\ ~readyCh)

(* ------------------------------ Get / consumers ------------------------------ *)
CanRLock == ~rw.w /\ ~rw.ww
ConsStart(g) == /\ IsCons(g) /\ pcG[g] = "idle" /\ pcR[ConsReady(g)] = "idle"
                /\ pcR' = [pcR EXCEPT ![ConsReady(g)] = "wait"] /\ pcG' = [pcG EXCEPT ![g] = "rwait"] /\ q' = FALSE
                /\ Emit([ev |-> "ready_call", r |-> ConsReady(g)])
                /\ UNCHANGED <<script, steps, dir, now, pcRun, rw, readyCh, cur, nreq, fetched, renew, target, files, fca, ver, seen, gval>>
(* a call of GetX509SVID: a first call, an observer calling again (same id: the monitor keeps the last call), *)
(* or a consumer released by its Ready                                                                        *)
GetBegin(g) == /\ \/ ~IsCons(g) /\ pcG[g] \in {"idle", "done"}
                  \/ IsCons(g) /\ pcG[g] = "rwait" /\ pcR[ConsReady(g)] = "done"
               /\ pcG' = [pcG EXCEPT ![g] = "enter"] /\ q' = FALSE                                    \* hook spiffe.get.enter
               /\ Emit([ev |-> "get_call", g |-> g, after |-> IF IsCons(g) THEN ConsReady(g) ELSE 0])
               /\ UNCHANGED <<script, steps, dir, now, pcRun, rw, readyCh, cur, nreq, fetched, renew, target, files, fca, ver, pcR, seen, gval>>
(* To keep the timeline configurations finite and small, the exhaustive check lets an observer call while the  *)
(* clock has not moved yet, while a renewal is in flight, or when there may be something new to see; the clock *)
(* moves only between such calls, and only once a new SVID has been looked at.                                *)
MayObserve == now = 0 \/ pcRun \in {"ans2", "dirw2", "dirwBad2", "swapReq", "swapWait", "swap"} \/ seen # cur
GetCall(g) == /\ (~IsCons(g) => MayObserve /\ (pcG[g] = "done" => MaxObs > 0))
              /\ GetBegin(g)
GetEnter(g) == /\ pcG[g] = "enter" /\ q' = FALSE
               /\ IF GetFix THEN readyCh /\ pcG' = [pcG EXCEPT ![g] = "rlock"] /\ UNCHANGED rw
                            ELSE CanRLock /\ pcG' = [pcG EXCEPT ![g] = "locked"] /\ rw' = [rw EXCEPT !.rd = @ \cup {g}]
               /\ UNCHANGED <<c, script, steps, dir, now, pcRun, readyCh, cur, nreq, fetched, renew, target, files, fca, ver, pcR, seen, gval>>
GetSecond(g) == /\ q' = FALSE
                /\ \/ pcG[g] = "rlock" /\ CanRLock /\ rw' = [rw EXCEPT !.rd = @ \cup {g}]
                   \/ pcG[g] = "locked" /\ readyCh /\ UNCHANGED rw
                /\ pcG' = [pcG EXCEPT ![g] = "held"]                                                  \* hook spiffe.get.locked (repaired code)
                /\ UNCHANGED <<c, script, steps, dir, now, pcRun, readyCh, cur, nreq, fetched, renew, target, files, fca, ver, pcR, seen, gval>>
(* the value is read and the read lock released inside GetX509SVID; the caller sees the return later *)
GetUnlock(g) == /\ pcG[g] = "held" /\ pcG' = [pcG EXCEPT ![g] = "ret"] /\ rw' = [rw EXCEPT !.rd = @ \ {g}] /\ q' = FALSE
                /\ gval' = [gval EXCEPT ![g] = cur]
                /\ UNCHANGED <<c, script, steps, dir, now, pcRun, readyCh, cur, nreq, fetched, renew, target, files, fca, ver, pcR, seen>>
GetRet(g) == /\ pcG[g] = "ret" /\ pcG' = [pcG EXCEPT ![g] = "done"] /\ q' = FALSE
             /\ seen' = gval[g]
             /\ Emit([ev |-> "get_ret", g |-> g, svid |-> gval[g], err |-> gval[g] = 0,
                      chain |-> IF gval[g] = 0 THEN <<>> ELSE <<gval[g], IntId>>,
                      key |-> IF gval[g] = 0 THEN 0 ELSE IF Variant = "keyReuse" THEN 1 ELSE gval[g]])
             /\ UNCHANGED <<script, steps, dir, now, pcRun, rw, readyCh, cur, nreq, fetched, renew, target, files, fca, ver, pcR, gval>>
GetInternal(g) == GetEnter(g) \/ GetSecond(g) \/ GetUnlock(g) \/ GetRet(g) \/ (IsCons(g) /\ GetCall(g))
GetBlocked(g) == \/ pcG[g] \in {"idle", "done"}
                 \/ pcG[g] = "rwait" /\ pcR[ConsReady(g)] # "done"
                 \/ pcG[g] = "enter" /\ (IF GetFix THEN ~readyCh ELSE ~CanRLock)
                 \/ pcG[g] = "rlock" /\ ~CanRLock
                 \/ pcG[g] = "locked" /\ ~readyCh

(* ------------------------------ quiescence and the clock ------------------------------ *)
Quiet == RunBlocked /\ (\A r \in RIds : ReadyBlocked(r)) /\ (\A g \in GIds : GetBlocked(g))
AllStarted == pcRun # "idle" /\ (\A r \in RIds : pcR[r] # "idle") /\ (\A g \in GIds : pcG[g] # "idle")
NPending == Cardinality({r \in RIds : pcR[r] = "wait"}) + Cardinality({g \in GIds : pcG[g] \notin {"idle", "done"}})
QuiesceEvs(c0) == CNext(CNext(c0, FilesEv), [ev |-> "quiescent", served |-> IF readyCh THEN cur ELSE -1])
Quiesce == /\ Quiet /\ ~q /\ q' = TRUE
           /\ c' = IF AllStarted THEN CNext(QuiesceEvs(c), [ev |-> "stuck", n |-> NPending]) ELSE QuiesceEvs(c)
           /\ UNCHANGED <<script, steps, dir, now, pcRun, rw, readyCh, cur, nreq, fetched, renew, target, files, fca, ver, pcR, pcG, seen, gval>>
MaxOf(S) == CHOOSE x \in S : \A y \in S : y <= x
StepTo(t) == /\ now' = t /\ q' = FALSE /\ c' = CNext(QuiesceEvs(c), [ev |-> "adv", now |-> t])
             /\ UNCHANGED <<script, steps, dir, pcRun, rw, readyCh, cur, nreq, fetched, renew, target, files, fca, ver, pcR, pcG, seen, gval>>
Step(d) == /\ Quiet /\ pcRun \in {"wait", "retry"} /\ now + d <= Min2(Horizon, MaxTicks * MaxOf(steps))
           /\ \A g \in GIds : pcG[g] \in {"idle", "done"}
           /\ (seen = cur \/ ~\E g \in GIds : ~IsCons(g) /\ (pcG[g] = "idle" \/ MaxObs > 0))
           /\ StepTo(now + d)

Next == \/ RunCall \/ RunInternal
        \/ \E r \in RIds : ReadyBegin(r) \/ ReadyRet(r)
        \/ \E g \in GIds : ConsStart(g) \/ GetCall(g) \/ GetEnter(g) \/ GetSecond(g) \/ GetUnlock(g) \/ GetRet(g)
        \/ Quiesce \/ \E d \in steps : Step(d)
Spec == /\ Init /\ [][Next]_vars
        /\ WF_vars(RunCall) /\ WF_vars(RunInternal)
        /\ \A r \in RIds : WF_vars(ReadyRet(r))
        /\ \A g \in GIds : WF_vars(GetInternal(g))

NotBad == ~IsBad(c)
(* liveness: every call made returns (Run is eventually called; the issuer always answers) *)
CallsReturn == /\ \A r \in RIds : (pcR[r] = "wait") ~> (pcR[r] = "done")
               /\ \A g \in GIds : (pcG[g] \notin {"idle", "done"}) ~> (pcG[g] = "done")
=============================================================================
