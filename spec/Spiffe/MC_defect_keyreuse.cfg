SPECIFICATION Spec
CONSTANTS
NReady = 0 NGet = 1 NCons = 0 MaxObs = 1 GetFix = TRUE Variant = "keyReuse" Dir = TRUE
Scripts <- ScriptsDefect StepSets <- StepsSmall Horizon = 200 MaxTicks = 400
INVARIANT NotBad

CHECK_DEADLOCK FALSE
