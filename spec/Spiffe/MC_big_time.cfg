SPECIFICATION Spec
CONSTANTS
NReady = 0 NGet = 1 NCons = 0 MaxObs = 1 GetFix = TRUE Variant = "asis" Dir = TRUE
Scripts <- ScriptsBig StepSets <- StepsBig Horizon = 3800 MaxTicks = 400
INVARIANT NotBad

CHECK_DEADLOCK FALSE
