SPECIFICATION Spec
CONSTANTS MaxN = 6 MaxL = 3 MaxSrc = 3 LimitEOFFix = TRUE MultiCloseFix = TRUE
INVARIANTS NotBad LimitBound
PROPERTY Terminates
CHECK_DEADLOCK FALSE
