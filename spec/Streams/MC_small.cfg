SPECIFICATION Spec
CONSTANTS MaxN = 3 MaxL = 2 MaxSrc = 2 LimitEOFFix = TRUE MultiCloseFix = TRUE
INVARIANTS NotBad LimitBound
PROPERTY Terminates
CHECK_DEADLOCK FALSE
