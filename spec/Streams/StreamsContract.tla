-------------------------- MODULE StreamsContract --------------------------
(* C16 - the property as a monitor automaton over observable events.        *)
(* A monitor state is a record; CNext(c, e) is the successor, or Bad(why)    *)
(* when event e breaks a law of the property.  Events (JSON / records):      *)
(*  reset    kind in {"limit","multi","tee"}, N, lens (Seq Nat), closable    *)
(*           (Seq BOOLEAN), wcloser (tee: the writer is a Closer)            *)
(*  srcread  src, k, n, err in {"nil","eof","err"}   one Read on a source    *)
(*  srcclose src                                      Close on a source      *)
(*  wclose                                            Close on tee's writer  *)
(*  stop                                              tee.Stop() returned    *)
(*  read     k, n, err in {"nil","eof","toolarge","srcerr","other"}, ok      *)
(*           wrapper.Read returned n bytes; ok <=> they are exactly the next *)
(*           n bytes of the expected stream (compared by the harness)        *)
(*  writeto  n, err, ok       wrapper.WriteTo returned (io.Copy fast path)   *)
(*  teewrite n, ok            the tee writer received n bytes (ok: the right *)
(*                            ones, i.e. the bytes at offset `written`)      *)
(*  close                     wrapper.Close returned                         *)
(*  end                       consumer read to the terminal error and closed *)
(*  end_partial               consumer stopped early (early Close, Stop)     *)
EXTENDS Naturals, Sequences, FiniteSets

Bad(why) == [bad |-> TRUE, why |-> why]
IsBad(c) == c.bad

RECURSIVE SumSeq(_)
SumSeq(s) == IF s = <<>> THEN 0 ELSE Head(s) + SumSeq(Tail(s))

CReset(e) ==
  [bad |-> FALSE, why |-> "", kind |-> e.kind, N |-> e.N, lens |-> e.lens,
   total |-> SumSeq(e.lens), closable |-> e.closable, wcloser |-> e.wcloser,
   delivered |-> 0,            \* bytes handed to the consumer so far
   taken |-> 0,                \* bytes the sources handed to the wrapper so far
   written |-> 0,              \* bytes the tee writer received so far
   srcClosed |-> [i \in 1..Len(e.lens) |-> 0],
   wClosed |-> 0,
   srcErrSeen |-> FALSE,       \* some source returned a non-EOF error
   term |-> "none",            \* terminal result seen by the consumer
   retry |-> IF "retry" \in DOMAIN e THEN e.retry ELSE FALSE,   \* the consumer reads on after a source error (transient errors)
   closed |-> FALSE]           \* wrapper.Close returned

Dummy == CReset([kind |-> "limit", N |-> 0, lens |-> <<0>>, closable |-> <<TRUE>>, wcloser |-> FALSE])

(* the stream the consumer is entitled to *)
Expected(c) == IF c.kind = "limit" /\ c.total > c.N THEN c.N ELSE c.total
Oversize(c) == c.kind = "limit" /\ c.total > c.N

CSrcRead(c, e) ==
  [c EXCEPT !.srcErrSeen = @ \/ e.err = "err", !.taken = @ + e.n]

CSrcClose(c, e) ==
  IF ~c.closable[e.src] THEN Bad("close on a source that is not a Closer")
  ELSE IF c.srcClosed[e.src] >= 1 THEN Bad("source closed twice")
  ELSE [c EXCEPT !.srcClosed[e.src] = 1]

CWClose(c) ==
  IF c.wClosed >= 1 THEN Bad("tee writer closed twice") ELSE [c EXCEPT !.wClosed = 1]

(* laws common to Read and WriteTo results: n bytes, result err *)
Deliver(c, n, err, ok) ==
  LET d == c.delivered + n IN
  IF ~ok THEN Bad("bytes delivered are not the next bytes of the source")
  ELSE IF c.kind = "limit" /\ d > c.N THEN Bad("limit reader delivered more than N bytes")
  ELSE IF d > c.total THEN Bad("delivered more bytes than the sources hold")
  ELSE IF err = "eof" /\ Oversize(c) THEN Bad("oversize source ended in a clean EOF")
  ELSE IF err = "eof" /\ d # c.total THEN Bad("EOF before all source bytes were delivered")
  ELSE IF err = "toolarge" /\ ~Oversize(c) THEN Bad("ErrStreamTooLarge for a source within the limit")
  ELSE IF err = "toolarge" /\ c.srcClosed[1] # 1 THEN Bad("ErrStreamTooLarge reported without having closed the source")
  ELSE IF err = "srcerr" /\ ~c.srcErrSeen THEN Bad("source error reported that no source returned")
  ELSE IF err = "other" THEN Bad("unexpected error value")
  ELSE IF err = "closed" THEN [c EXCEPT !.delivered = d, !.term = err]   \* io.ErrClosedPipe from a stopped/closed tee: judged at the end
  ELSE IF c.kind = "tee" /\ c.written # d THEN Bad("tee writer did not receive exactly the bytes returned")
  ELSE [c EXCEPT !.delivered = d, !.term = IF err = "nil" \/ (err = "srcerr" /\ c.retry) THEN c.term ELSE err]

CRead(c, e) ==
  IF c.term # "none" THEN c           \* reads after the terminal error are not constrained
  ELSE IF e.n > e.k THEN Bad("Read returned more than the buffer holds")
  ELSE Deliver(c, e.n, e.err, e.ok)

CWriteTo(c, e) ==
  IF c.term # "none" THEN c
  ELSE Deliver(c, e.n, IF e.err = "nil" THEN "eof" ELSE e.err, e.ok)

CTeeWrite(c, e) ==
  IF ~e.ok THEN Bad("tee writer received bytes that are not the source bytes")
  ELSE [c EXCEPT !.written = c.written + e.n]

CClose(c) == [c EXCEPT !.closed = TRUE]

(* end of a run in which the consumer read until a terminal result and then *)
(* called Close                                                             *)
CEnd(c) ==
  IF c.term = "none" THEN Bad("stream never terminated (consumer gave up)")
  ELSE IF ~c.closed THEN c
  ELSE IF \E i \in 1..Len(c.lens) : c.closable[i] /\ c.srcClosed[i] # 1
       THEN Bad("a closable source was not closed exactly once after full consumption and Close")
  ELSE IF c.kind = "tee" /\ c.wcloser /\ c.wClosed # 1 THEN Bad("tee writer not closed exactly once")
  ELSE c

(* end of a run in which the consumer did NOT read to the end: it closed early, or (tee) called Stop while a Read was in  *)
(* flight.  What must still hold: nothing taken from a source is lost (a tee hands every byte it took to the consumer), *)
(* and Close closed every closable source exactly once - also when the Close of an earlier source failed, and however   *)
(* often Close is called.                                                                                               *)
CEndPartial(c) ==
  IF c.kind = "tee" /\ c.taken # c.delivered
    THEN Bad("bytes taken from the source were delivered to nobody")
  ELSE IF c.kind = "tee" /\ c.written # c.delivered THEN Bad("tee writer did not receive exactly the bytes returned")
  ELSE IF ~c.closed THEN c
  ELSE IF \E i \in 1..Len(c.lens) : c.closable[i] /\ c.srcClosed[i] # 1
       THEN Bad("a closable source was not closed exactly once by Close")
  ELSE IF c.kind = "tee" /\ c.wcloser /\ c.wClosed # 1 THEN Bad("tee writer not closed exactly once")
  ELSE c

CNext(c, e) ==
  IF e.ev = "reset" THEN CReset(e)
  ELSE IF IsBad(c) THEN c
  ELSE CASE e.ev = "srcread"  -> CSrcRead(c, e)
         [] e.ev = "srcclose" -> CSrcClose(c, e)
         [] e.ev = "wclose"   -> CWClose(c)
         [] e.ev = "read"     -> CRead(c, e)
         [] e.ev = "writeto"  -> CWriteTo(c, e)
         [] e.ev = "teewrite" -> CTeeWrite(c, e)
         [] e.ev = "stop"     -> c      \* tee.Stop(): closes the writer only (wclose precedes it); the closing laws are judged at `end`
         [] e.ev = "close"    -> CClose(c)
         [] e.ev = "end"      -> CEnd(c)
         [] e.ev = "end_partial" -> CEndPartial(c)
=============================================================================
