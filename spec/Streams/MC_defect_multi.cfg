SPECIFICATION Spec
CONSTANTS MaxN = 3 MaxL = 2 MaxSrc = 2 LimitEOFFix = TRUE MultiCloseFix = FALSE
INVARIANTS NotBad LimitBound
CHECK_DEADLOCK FALSE
