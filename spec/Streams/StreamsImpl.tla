---------------------------- MODULE StreamsImpl ----------------------------
(* Implementation-shaped model of streams/limitreadcloser.go,               *)
(* streams/multireadercloser.go and streams/teereadcloser.go, composed with  *)
(* every legal io.Reader script of the sources and a consumer that reads to  *)
(* the terminal error and then calls Close.  Each action is one call (or one *)
(* loop iteration) of the real code and feeds the events it makes visible to *)
(* the contract monitor of StreamsContract; the invariant is that the        *)
(* monitor never goes bad.                                                   *)
EXTENDS StreamsContract, Integers, TLC

CONSTANTS MaxN,          \* limits 0..MaxN, source lengths 0..N+3
          MaxL,          \* multi: source lengths 0..MaxL
          MaxSrc,        \* multi: 0..MaxSrc sources
          LimitEOFFix,   \* TRUE: model of the repaired limit reader (EOF with the extra byte => too large)
          MultiCloseFix  \* TRUE: model of the repaired WriteTo (closes each source it finished)

VARIABLES kind, N, lens, closable, wcloser, bs, path,   \* configuration (constant during a behaviour)
          spos, seof, sfail, zeroLeft, failOK,          \* source scripts
          rem, lclosed,                                 \* limitReadCloser.N / .closed
          cur, dropped, wn,                             \* MultiReaderCloser.readers = sources cur..m (dropped: set to nil); WriteTo progress
          teof, tnil, tstop,                            \* TeeReadCloser.eof / r,w == nil / w == nil after Stop()
          gave,                                         \* the consumer stopped reading before the terminal result (early Close)
          phase,                                        \* consumer: "consume" | "close" | "end" | "done"
          c                                             \* contract monitor
vars == <<kind, N, lens, closable, wcloser, bs, path, spos, seof, sfail, zeroLeft, failOK,
          rem, lclosed, cur, dropped, wn, teof, tnil, tstop, gave, phase, c>>

M == Len(lens)
Min(a, b) == IF a < b THEN a ELSE b

RECURSIVE Feed(_, _)
Feed(cc, evs) == IF evs = <<>> THEN cc ELSE Feed(CNext(cc, Head(evs)), Tail(evs))

Lens1 == UNION {{<<l>> : l \in 0..(n + 3)} : n \in 0..MaxN}
LensM == UNION {[1..m -> 0..MaxL] : m \in 0..MaxSrc}

Init ==
  /\ kind \in {"limit", "multi", "tee"}
  /\ IF kind = "limit" THEN /\ N \in 0..MaxN /\ lens \in {<<l>> : l \in 0..(N + 3)} /\ path = "read"
     ELSE IF kind = "tee" THEN /\ N = 0 /\ lens \in {<<l>> : l \in 0..MaxL + 1} /\ path = "read"
     ELSE /\ N = 0 /\ lens \in LensM /\ path \in {"read", "copy"}
  /\ closable \in [1..Len(lens) -> BOOLEAN]
  /\ (kind = "limit" => closable = <<TRUE>>)
  /\ wcloser \in (IF kind = "tee" THEN BOOLEAN ELSE {FALSE})
  /\ bs \in (IF kind = "limit" THEN 1..(N + 2) ELSE 1..2)
  /\ spos = [i \in 1..Len(lens) |-> 0]
  /\ seof = [i \in 1..Len(lens) |-> FALSE]
  /\ sfail = [i \in 1..Len(lens) |-> FALSE]
  /\ zeroLeft \in [1..Len(lens) -> 0..1]
  /\ failOK \in [1..Len(lens) -> BOOLEAN]
  /\ rem = N /\ lclosed = FALSE
  /\ cur = 1 /\ dropped = FALSE /\ wn = 0
  /\ teof = FALSE /\ tnil = FALSE /\ tstop = FALSE /\ gave = FALSE
  /\ phase = "consume"
  /\ c = CReset([kind |-> kind, N |-> N, lens |-> lens, closable |-> closable, wcloser |-> wcloser])

(* every result a legal io.Reader may give for Read(k) on source i: <<n, err, zeroUsed>> *)
SrcOutcomes(i, k) ==
  LET left == lens[i] - spos[i] IN
  IF sfail[i] THEN {<<0, "err", FALSE>>}
  ELSE IF seof[i] THEN {<<0, "eof", FALSE>>}
  ELSE IF k = 0 THEN {<<0, "nil", FALSE>>}
  ELSE {<<n, "nil", FALSE>> : n \in 1..Min(k, left)}
       \cup (IF left >= 1 /\ left <= k THEN {<<left, "eof", FALSE>>} ELSE {})   \* data together with EOF
       \cup (IF left = 0 THEN {<<0, "eof", FALSE>>} ELSE {})                     \* EOF alone
       \cup (IF zeroLeft[i] > 0 THEN {<<0, "nil", TRUE>>} ELSE {})               \* zero-length read
       \cup (IF failOK[i] THEN {<<0, "err", FALSE>>} ELSE {})                    \* error mid-stream
       \cup (IF failOK[i] THEN {<<n, "err", FALSE>> : n \in 1..Min(k, left)} ELSE {})  \* data together with an error

SrcApply(i, o) ==
  /\ spos' = [spos EXCEPT ![i] = @ + o[1]]
  /\ seof' = [seof EXCEPT ![i] = @ \/ o[2] = "eof"]
  /\ sfail' = [sfail EXCEPT ![i] = @ \/ o[2] = "err"]
  /\ zeroLeft' = [zeroLeft EXCEPT ![i] = IF o[3] THEN 0 ELSE @]

SrcReadEv(i, k, o) == [ev |-> "srcread", src |-> i, k |-> k, n |-> o[1], err |-> o[2]]
SrcCloseEv(i) == [ev |-> "srcclose", src |-> i]
ReadEv(k, n, err) == [ev |-> "read", k |-> k, n |-> n, err |-> err, ok |-> TRUE]
WErr(e) == IF e = "err" THEN "srcerr" ELSE e
Term(err) == IF err = "nil" THEN "consume" ELSE "close"

----------------------------------------------------------------------------
(* limitReadCloser.Read — limitreadcloser.go:44-73 *)
LimitRead ==
  /\ kind = "limit" /\ phase = "consume"
  /\ UNCHANGED <<cur, dropped, wn, teof, tnil, tstop, gave>>
  /\ IF rem < 0 THEN                                    \* line 45
       /\ c' = Feed(c, <<ReadEv(bs, 0, "toolarge")>>) /\ phase' = "close"
       /\ UNCHANGED <<spos, seof, sfail, zeroLeft, rem, lclosed, tstop, gave>>
     ELSE IF lclosed THEN                               \* line 51
       /\ c' = Feed(c, <<ReadEv(bs, 0, "eof")>>) /\ phase' = "close"
       /\ UNCHANGED <<spos, seof, sfail, zeroLeft, rem, lclosed, tstop, gave>>
     ELSE LET k == Min(bs, rem + 1) IN                  \* line 54
       \E o \in SrcOutcomes(1, k) :
         LET r2 == rem - o[1]
             over == r2 < 0
             n == IF r2 = -1 THEN o[1] - 1 ELSE o[1]   \* hide the extra byte
             err == IF over /\ (o[2] = "nil" \/ (LimitEOFFix /\ o[2] = "eof")) THEN "toolarge" ELSE WErr(o[2])
             evs == <<SrcReadEv(1, k, o)>> \o (IF over THEN <<SrcCloseEv(1)>> ELSE <<>>) \o <<ReadEv(bs, n, err)>>
         IN /\ SrcApply(1, o)
            /\ rem' = r2
            /\ lclosed' = (lclosed \/ over)
            /\ c' = Feed(c, evs)
            /\ phase' = Term(err)

(* limitReadCloser.Close — limitreadcloser.go:75-81 *)
LimitClose ==
  /\ kind = "limit" /\ phase = "close"
  /\ lclosed' = TRUE
  /\ c' = Feed(c, (IF lclosed THEN <<>> ELSE <<SrcCloseEv(1)>>) \o <<[ev |-> "close"]>>)
  /\ phase' = "end"
  /\ UNCHANGED <<spos, seof, sfail, zeroLeft, rem, cur, dropped, wn, teof, tnil, tstop, gave>>

----------------------------------------------------------------------------
(* one iteration of the loop in MultiReaderCloser.Read — multireadercloser.go:47-75 *)
MultiReadIter ==
  /\ kind = "multi" /\ path = "read" /\ phase = "consume"
  /\ UNCHANGED <<rem, lclosed, dropped, wn, teof, tnil, tstop, gave>>
  /\ IF cur > M THEN
       /\ c' = Feed(c, <<ReadEv(bs, 0, "eof")>>) /\ phase' = "close"
       /\ UNCHANGED <<spos, seof, sfail, zeroLeft, cur, tstop, gave>>
     ELSE \E o \in SrcOutcomes(cur, bs) :
       LET isEOF == o[2] = "eof"
           cur2 == IF isEOF THEN cur + 1 ELSE cur
           closeEv == IF isEOF /\ closable[cur] THEN <<SrcCloseEv(cur)>> ELSE <<>>
           returns == o[1] > 0 \/ ~isEOF
           err == IF isEOF /\ cur2 <= M THEN "nil" ELSE WErr(o[2])
       IN /\ SrcApply(cur, o)
          /\ cur' = cur2
          /\ c' = Feed(c, <<SrcReadEv(cur, bs, o)>> \o closeEv \o (IF returns THEN <<ReadEv(bs, o[1], err)>> ELSE <<>>))
          /\ phase' = IF returns THEN Term(err) ELSE "consume"

(* one source read inside MultiReaderCloser.WriteTo / io.CopyBuffer — multireadercloser.go:77-96 *)
Big == 64
MultiWriteToIter ==
  /\ kind = "multi" /\ path = "copy" /\ phase = "consume"
  /\ UNCHANGED <<rem, lclosed, teof, tnil, tstop, gave>>
  /\ IF cur > M THEN
       /\ dropped' = TRUE                                \* mr.readers = nil
       /\ c' = Feed(c, <<[ev |-> "writeto", n |-> wn, err |-> "nil", ok |-> TRUE]>>)
       /\ phase' = "close"
       /\ UNCHANGED <<spos, seof, sfail, zeroLeft, cur, wn, tstop, gave>>
     ELSE \E o \in SrcOutcomes(cur, Big) :
       /\ SrcApply(cur, o)
       /\ wn' = wn + o[1]
       /\ UNCHANGED dropped
       /\ IF o[2] = "eof" THEN                           \* CopyBuffer returned nil: next source
            /\ cur' = cur + 1
            /\ c' = Feed(c, <<SrcReadEv(cur, Big, o)>> \o (IF MultiCloseFix /\ closable[cur] THEN <<SrcCloseEv(cur)>> ELSE <<>>))
            /\ phase' = "consume"
          ELSE IF o[2] = "err" THEN                      \* readers = readers[i:], return the error
            /\ cur' = cur
            /\ c' = Feed(c, <<SrcReadEv(cur, Big, o), [ev |-> "writeto", n |-> wn + o[1], err |-> "srcerr", ok |-> TRUE]>>)
            /\ phase' = "close"
          ELSE /\ cur' = cur /\ c' = Feed(c, <<SrcReadEv(cur, Big, o)>>) /\ phase' = "consume"

(* MultiReaderCloser.Close — multireadercloser.go:98-106 *)
RECURSIVE CloseRest(_)
CloseRest(i) == IF i > M THEN <<>> ELSE (IF closable[i] THEN <<SrcCloseEv(i)>> ELSE <<>>) \o CloseRest(i + 1)
MultiClose ==
  /\ kind = "multi" /\ phase = "close"
  /\ c' = Feed(c, (IF dropped THEN <<>> ELSE CloseRest(cur)) \o <<[ev |-> "close"]>>)
  /\ cur' = M + 1
  /\ phase' = "end"
  /\ UNCHANGED <<spos, seof, sfail, zeroLeft, rem, lclosed, dropped, wn, teof, tnil, tstop, gave>>

----------------------------------------------------------------------------
(* TeeReadCloser.Read — teereadcloser.go:88-110 *)
TeeRead ==
  /\ kind = "tee" /\ phase = "consume"
  /\ UNCHANGED <<rem, lclosed, cur, dropped, wn, tnil, tstop, gave>>
  /\ IF teof THEN
       /\ c' = Feed(c, <<ReadEv(bs, 0, "eof")>>) /\ phase' = "close"
       /\ UNCHANGED <<spos, seof, sfail, zeroLeft, teof, tstop, gave>>
     ELSE \E o \in SrcOutcomes(1, bs) :
       /\ SrcApply(1, o)
       /\ teof' = (o[2] = "eof")
       /\ c' = Feed(c, <<SrcReadEv(1, bs, o)>>
                      \o (IF o[1] > 0 THEN <<[ev |-> "teewrite", n |-> o[1], ok |-> TRUE]>> ELSE <<>>)
                      \o <<ReadEv(bs, o[1], WErr(o[2]))>>)
       /\ phase' = Term(WErr(o[2]))

(* TeeReadCloser.Close — teereadcloser.go:45-71 *)
TeeClose ==
  /\ kind = "tee" /\ phase = "close"
  /\ tnil' = TRUE
  /\ c' = Feed(c, (IF closable[1] THEN <<SrcCloseEv(1)>> ELSE <<>>) \o (IF wcloser /\ ~tstop THEN <<[ev |-> "wclose"]>> ELSE <<>>) \o <<[ev |-> "close"]>>)
  /\ phase' = "end"
  /\ UNCHANGED <<spos, seof, sfail, zeroLeft, rem, lclosed, cur, dropped, wn, teof, tstop, gave>>

(* TeeReadCloser.Stop — teereadcloser.go:74-86: closes the writer only; the consumer may call it before Close *)
TeeStop ==
  /\ kind = "tee" /\ phase = "close" /\ ~tstop
  /\ tstop' = TRUE
  /\ c' = Feed(c, (IF wcloser THEN <<[ev |-> "wclose"]>> ELSE <<>>) \o <<[ev |-> "stop"]>>)
  /\ UNCHANGED <<spos, seof, sfail, zeroLeft, rem, lclosed, cur, dropped, wn, teof, tnil, phase, gave>>

(* the consumer may stop reading at any point and go straight to Close *)
GiveUp ==
  /\ phase = "consume" /\ phase' = "close" /\ gave' = TRUE
  /\ UNCHANGED <<spos, seof, sfail, zeroLeft, rem, lclosed, cur, dropped, wn, teof, tnil, tstop, c>>

----------------------------------------------------------------------------
End ==
  /\ phase = "end"
  /\ c' = Feed(c, <<[ev |-> IF gave THEN "end_partial" ELSE "end"]>>)
  /\ phase' = "done"
  /\ UNCHANGED <<spos, seof, sfail, zeroLeft, rem, lclosed, cur, dropped, wn, teof, tnil, tstop, gave>>

Next == /\ (LimitRead \/ LimitClose \/ MultiReadIter \/ MultiWriteToIter \/ MultiClose \/ TeeRead \/ TeeStop \/ TeeClose \/ GiveUp \/ End)
        /\ UNCHANGED <<kind, N, lens, closable, wcloser, bs, path, failOK>>
Spec == Init /\ [][Next]_vars /\ WF_vars(Next)

NotBad == ~IsBad(c)
(* every consumer reaches the end of its run: no read loop that never terminates *)
Terminates == <>(phase = "done")
(* at most N bytes are ever handed out by the limit reader *)
LimitBound == kind = "limit" => c.delivered <= N
=============================================================================
