SPECIFICATION Spec
CONSTANTS MaxN = 3 MaxL = 2 MaxSrc = 2 LimitEOFFix = FALSE MultiCloseFix = TRUE
INVARIANTS NotBad LimitBound
CHECK_DEADLOCK FALSE
