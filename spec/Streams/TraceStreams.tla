---------------------------- MODULE TraceStreams ----------------------------
(* Validates recorded executions of the real stream wrappers against the    *)
(* C16 contract monitor.  trace.ndjson holds many runs, each starting with a *)
(* "reset" line; every run is checked as its own behaviour (one initial      *)
(* state per run), so a violation is a short counterexample ending at the    *)
(* offending event.  The monitor is deterministic.                           *)
EXTENDS StreamsContract, TraceLib

Trace == LoadTrace("trace.ndjson")
Starts == {i \in 1..Len(Trace) : Trace[i].ev = "reset"}
VARIABLES l, c
TInit == l \in Starts /\ c = CReset(Trace[l])
TNext == /\ ~IsBad(c)
         /\ l + 1 <= Len(Trace)
         /\ Trace[l + 1].ev # "reset"
         /\ c' = CNext(c, Trace[l + 1])
         /\ l' = l + 1
TSpec == TInit /\ [][TNext]_<<l, c>>
Report == IF IsBad(c) THEN RejectLine(l, c.why) ELSE TRUE
=============================================================================
