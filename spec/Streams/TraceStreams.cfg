SPECIFICATION TSpec
INVARIANT NotBad
CHECK_DEADLOCK FALSE
