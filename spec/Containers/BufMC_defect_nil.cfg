SPECIFICATION Spec
CONSTANTS MaxSize = 3 MaxSteps = 8 MaxCells = 30 Defect = "empty-by-front-value"
INVARIANTS Refines
CHECK_DEADLOCK FALSE
