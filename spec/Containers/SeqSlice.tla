------------------------------ MODULE SeqSlice ------------------------------
(* The sequential object behind concurrency/slice.Slice: a plain sequence.   *)
(* append(items) returns the length afterwards, slen the length, slice the   *)
(* whole sequence.  append takes its items BY VALUE, as `s = append(s, items...)` *)
(* does for an ordinary slice: the memory the caller passed stays the        *)
(* caller's.  callerwrite records that the caller has just overwritten (and  *)
(* appended to) every buffer it ever passed to append; it is not an operation *)
(* on the object and has no effect on it.                                    *)
EXTENDS Naturals, Sequences

SliceEmpty == << >>
SliceOk(s, e, res) ==
    CASE e.op = "append" -> res = Len(s) + Len(e.items)
      [] e.op = "slen"   -> res = Len(s)
      [] e.op = "slice"  -> res = s
      [] e.op = "callerwrite" -> TRUE
SliceEff(s, e) == IF e.op = "append" THEN s \o e.items ELSE s
=============================================================================
