------------------------------ MODULE SeqSlice ------------------------------
(* The sequential object behind concurrency/slice.Slice: a plain sequence.   *)
(* append(items) returns the length afterwards, slen the length, slice the   *)
(* whole sequence.                                                           *)
EXTENDS Naturals, Sequences

SliceEmpty == << >>
SliceOk(s, e, res) ==
    CASE e.op = "append" -> res = Len(s) + Len(e.items)
      [] e.op = "slen"   -> res = Len(s)
      [] e.op = "slice"  -> res = s
SliceEff(s, e) == IF e.op = "append" THEN s \o e.items ELSE s
=============================================================================
