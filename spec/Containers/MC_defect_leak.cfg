SPECIFICATION Spec
CONSTANTS Procs = {1, 2} Keys = {"a"} MaxOps = 2 Defect = "range-leaks-rlock"
  MapOps = {"store", "range1"}
  AtomOps = {}
INVARIANTS NoStuckWaiter
CHECK_DEADLOCK FALSE
