----------------------------- MODULE AtomicMap ------------------------------
(* The sequential object behind cmap.Atomic + cmap.AtomicValue: a map from   *)
(* keys to HANDLES and a store of integer cells, one per handle ever created. *)
(* GetOrCreate returns a handle; Add/Load/Store act on handles, so an Add on  *)
(* a handle that Delete/Clear has orphaned is defined (it updates the cell    *)
(* that nobody can reach through the map any more).  State a = [items, val]. *)
(* Handles are first-class values: a handle kept by a caller across Delete /  *)
(* Clear of its key is DETACHED - it denotes its own private cell for ever;   *)
(* nothing done through it is visible under any key of the map, and no later *)
(* getorcreate may hand the same handle out again (a created handle is fresh). *)
(* Handle names are arbitrary: the name of a handle created by getorcreate is *)
(* taken from the result (it only has to be fresh: never handed out before).  *)
(* Results: get [ok, h] (h = 0 = nil when absent); getorcreate h; foreach a   *)
(* sequence of [k, h] listing every entry once in any order; hload / hadd the *)
(* value (hadd: the value after adding); others 0.                           *)
EXTENDS SeqMap

AtomEmpty == [items |-> << >>, val |-> << >>]

AtomOk(a, e, res) ==
    CASE e.op = "get" -> res = IF e.k \in DOMAIN a.items THEN [ok |-> TRUE, h |-> a.items[e.k]] ELSE [ok |-> FALSE, h |-> 0]
      [] e.op = "getorcreate" -> IF e.k \in DOMAIN a.items THEN res = a.items[e.k]
                                 ELSE res # 0 /\ res \notin DOMAIN a.val
      [] e.op = "foreach" -> /\ Injective([i \in 1..Len(res) |-> res[i].k])
                             /\ {res[i].k : i \in 1..Len(res)} = DOMAIN a.items
                             /\ \A i \in 1..Len(res) : a.items[res[i].k] = res[i].h
      [] e.op = "hload"  -> e.h \in DOMAIN a.val /\ res = a.val[e.h]
      [] e.op = "hadd"   -> e.h \in DOMAIN a.val /\ res = a.val[e.h] + e.v
      [] e.op = "hstore" -> e.h \in DOMAIN a.val
      [] e.op \in {"adelete", "aclear"} -> TRUE

AtomEff(a, e, res) ==
    CASE e.op = "getorcreate" -> IF e.k \in DOMAIN a.items THEN a
                                 ELSE [items |-> MPut(a.items, e.k, res), val |-> MPut(a.val, res, e.v)]
      [] e.op = "adelete" -> [a EXCEPT !.items = MDel(a.items, {e.k})]
      [] e.op = "aclear"  -> [a EXCEPT !.items = MapEmpty]
      [] e.op = "hstore"  -> [a EXCEPT !.val = MPut(a.val, e.h, e.v)]
      [] e.op = "hadd"    -> [a EXCEPT !.val = MPut(a.val, e.h, a.val[e.h] + e.v)]
      [] OTHER -> a
=============================================================================
