SPECIFICATION Spec
CONSTANTS MaxSize = 3 MaxSteps = 8 MaxCells = 30 Defect = "none"
INVARIANTS Refines FreeBounded
CHECK_DEADLOCK FALSE
