SPECIFICATION Spec
CONSTANTS Procs = {1, 2, 3} Keys = {"a"} MaxOps = 1 Defect = "lad-split"
  MapOps = {"store", "loadanddelete"}
  AtomOps = {}
INVARIANTS LinOK
CHECK_DEADLOCK FALSE
