----------------------------- MODULE BufRingImpl ----------------------------
(* Implementation-shaped model of ring.Buffered built from the operations of *)
(* Ring.tla: a ring of cells, a head pointer, the number of committed cells  *)
(* (end) and the buffer size.  AppendBack links a fresh ring of bsize cells  *)
(* behind the last cell when end >= Len; RemoveFront clears the head cell,   *)
(* advances the head and unlinks bsize cells behind the first free cell when *)
(* more than 2*bsize cells are free.  Checked against the FIFO queue of      *)
(* BufRing.tla for every initial size and buffer size in -1..MaxSize and     *)
(* every sequence of up to MaxSteps AppendBack/RemoveFront.                  *)
(* Defect = "unlink-one-early" starts the unlink at the last committed cell  *)
(* (must be caught); Defect = "empty-by-front-value" makes RemoveFront do     *)
(* nothing when the value in the front slot is nil (must be caught: a nil    *)
(* element then blocks the queue for ever).                                  *)
EXTENDS Ring, BufRing, TLC

CONSTANTS MaxSize, MaxSteps, MaxCells, Defect
Sizes == (0 - 1)..MaxSize
VARIABLES nx, val, head, end, bs, nalloc, steps, abs
vars == <<nx, val, head, end, bs, nalloc, steps, abs>>
Pool == 1..MaxCells

Fresh(from, k) == [i \in 1..k |-> from + i]
Init == \E isz \in Sizes, bsz \in Sizes :
          /\ nalloc = AtLeast1(isz) /\ bs = AtLeast1(bsz)
          /\ nx = SetCyc([c \in Pool |-> c], Fresh(0, AtLeast1(isz)))      \* New(initialSize)
          /\ val = [c \in Pool |-> BNIL] /\ head = 1 /\ end = 0 /\ steps = 0
          /\ abs = BInit(isz, bsz)

AppendBack == /\ steps < MaxSteps
              /\ \E v \in {steps + 1, BNIL} :        \* a fresh value or a nil element
                 LET grow == end >= RLen(nx, head)
                     nx1 == IF grow THEN RLink(SetCyc(nx, Fresh(nalloc, bs)), RMove(nx, head, end - 1), nalloc + 1).nx ELSE nx
                 IN /\ (grow => nalloc + bs <= MaxCells)
                    /\ nx' = nx1 /\ nalloc' = IF grow THEN nalloc + bs ELSE nalloc
                    /\ val' = [val EXCEPT ![RMove(nx1, head, end)] = v]
                    /\ abs' = BApply(abs, [op |-> "append", v |-> v]).b
              /\ end' = end + 1 /\ steps' = steps + 1 /\ UNCHANGED <<head, bs>>

RemoveFront == /\ steps < MaxSteps /\ end > 0
               /\ IF Defect = "empty-by-front-value" /\ val[head] = BNIL
                    THEN UNCHANGED <<nx, val, head, end>> /\ abs' = BApply(abs, [op |-> "remove"]).b    \* "nothing to remove"
                    ELSE
                  LET h2 == RMove(nx, head, 1)
                      e2 == end - 1
                      at == IF Defect = "unlink-one-early" THEN e2 - 1 ELSE e2
                  IN /\ head' = h2 /\ end' = e2
                     /\ val' = [val EXCEPT ![head] = BNIL]
                     /\ nx' = IF RLen(nx, h2) - e2 > bs * 2 THEN RUnlink(nx, RMove(nx, h2, at), bs).nx ELSE nx
                     /\ abs' = BApply(abs, [op |-> "remove"]).b
               /\ steps' = steps + 1 /\ UNCHANGED <<bs, nalloc>>

Next == AppendBack \/ RemoveFront
Spec == Init /\ [][Next]_vars

Contents == [i \in 1..end |-> val[RMove(nx, head, i - 1)]]
Refines == /\ Contents = abs.q                                   \* Range / Len
           /\ val[head] = BFront(abs.q)                          \* Front, and what RemoveFront returned
           /\ RLen(nx, head) = abs.cap                           \* the documented grow/shrink law
           /\ end <= RLen(nx, head)
           /\ \A i \in end..(RLen(nx, head) - 1) : val[RMove(nx, head, i)] = BNIL   \* free cells hold nil
FreeBounded == abs.cap - Len(abs.q) <= (IF nalloc > 2 * bs THEN nalloc ELSE 2 * bs)
=============================================================================
