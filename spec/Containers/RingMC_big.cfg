SPECIFICATION Spec
CONSTANTS N = 6
INVARIANTS Perm Laws
CHECK_DEADLOCK FALSE
