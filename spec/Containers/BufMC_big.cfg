SPECIFICATION Spec
CONSTANTS MaxSize = 5 MaxSteps = 12 MaxCells = 70 Defect = "none"
INVARIANTS Refines FreeBounded
CHECK_DEADLOCK FALSE
