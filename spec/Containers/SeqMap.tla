------------------------------- MODULE SeqMap -------------------------------
(* The sequential object that cmap.Map must be indistinguishable from: an    *)
(* ordinary map.  State: a function from a finite set of keys to values.     *)
(* An operation is a record e (fields op, k, v, n); MapOk(m, e, res) says    *)
(* whether res is a legal result of e in state m, MapEff(m, e) is the state  *)
(* afterwards.  Results:  load/loadanddelete [ok, v] (v = 0, the zero value, *)
(* when absent); len a number; keys a sequence listing every key once, in    *)
(* any order; range a sequence of [k, v] listing min(n, size) distinct       *)
(* entries in any order (the callback returned false at its n-th call; Go    *)
(* map iteration order is unspecified); store/delete/clear 0.                *)
EXTENDS Naturals, Sequences, FiniteSets

MapEmpty == << >>
MPut(m, k, v) == [x \in (DOMAIN m) \cup {k} |-> IF x = k THEN v ELSE m[x]]
MDel(m, K) == [x \in (DOMAIN m) \ K |-> m[x]]
MGet(m, k) == IF k \in DOMAIN m THEN [ok |-> TRUE, v |-> m[k]] ELSE [ok |-> FALSE, v |-> 0]
Injective(s) == \A i, j \in 1..Len(s) : i # j => s[i] # s[j]
SeqRange(s) == {s[i] : i \in 1..Len(s)}
MinN(a, b) == IF a < b THEN a ELSE b

MapOk(m, e, res) ==
    CASE e.op \in {"load", "loadanddelete"} -> res = MGet(m, e.k)
      [] e.op = "len"   -> res = Cardinality(DOMAIN m)
      [] e.op = "keys"  -> Injective(res) /\ SeqRange(res) = DOMAIN m
      [] e.op = "range" -> /\ Len(res) = MinN(e.n, Cardinality(DOMAIN m))
                           /\ Injective([i \in 1..Len(res) |-> res[i].k])
                           /\ \A i \in 1..Len(res) : res[i].k \in DOMAIN m /\ m[res[i].k] = res[i].v
      [] e.op \in {"store", "delete", "clear"} -> TRUE

MapEff(m, e) ==
    CASE e.op = "store" -> MPut(m, e.k, e.v)
      [] e.op \in {"delete", "loadanddelete"} -> MDel(m, {e.k})
      [] e.op = "clear" -> MapEmpty
      [] OTHER -> m
=============================================================================
