SPECIFICATION Spec
CONSTANTS N = 5
INVARIANTS Perm Laws
CHECK_DEADLOCK FALSE
