------------------------------ MODULE CMapImpl ------------------------------
(* Implementation-shaped model of cmap.Map and cmap.Atomic: one RWMutex, and *)
(* every method split into  call -> acquire (read or write mode) -> body +   *)
(* release -> return.  GetOrCreate is the double-checked two-section method  *)
(* of atomic.go: look up under RLock; if absent, release, take the write     *)
(* lock, look up AGAIN, create.  AtomicValue.Add/Load have their own lock and *)
(* are single atomic steps.  2-3 processes issue up to MaxOps operations each *)
(* over Keys; TLC explores every interleaving.                               *)
(*                                                                           *)
(* Impl => Contract: at the step in which an operation takes effect (its     *)
(* last body) the sequential objects SeqMap / AtomicMap are advanced in lock *)
(* step, and the result the implementation is about to return must be a legal *)
(* result of the sequential object at that moment (LinOK).  Plus the obvious  *)
(* consequences: at most one LoadAndDelete wins per Store (OneWinner), all   *)
(* GetOrCreate(k) return the same handle unless k was deleted (SameHandle),  *)
(* no Add is lost (NoLostAdd).                                               *)
(* Defect = "lad-split": LoadAndDelete reads under RLock and deletes under a *)
(* second (write) lock;  Defect = "no-doublecheck": GetOrCreate creates      *)
(* without looking again;  Defect = "range-split": Range snapshots the keys   *)
(* and then Loads each key under a lock of its own (so that the callback may *)
(* call back into the map) - it can report a view no instant ever had.  All  *)
(* Defect = "range-leaks-rlock": a Range whose callback returned false       *)
(* returns with the read lock still held, so every later writer waits for    *)
(* ever (LockHeldOnlyInBody, NoStuckWaiter).  All four must make TLC report  *)
(* a violation.                                                              *)
EXTENDS AtomicMap, TLC

CONSTANTS Procs, Keys, MaxOps, MapOps, AtomOps, Defect
ASSUME Procs \subseteq Nat \ {0}

VARIABLES lock, cm, items, hval, nh, pc, cur, res, held, nops, abs, good, stores, wins, handles, dels, adds
vars == <<lock, cm, items, hval, nh, pc, cur, res, held, nops, abs, good, stores, wins, handles, dels, adds>>

NoOp == [op |-> "none"]
Init == /\ lock = [w |-> 0, r |-> {}]
        /\ cm = << >> /\ items = << >> /\ hval = << >> /\ nh = 0
        /\ pc = [p \in Procs |-> "idle"] /\ cur = [p \in Procs |-> NoOp] /\ res = [p \in Procs |-> 0]
        /\ held = [p \in Procs |-> 0] /\ nops = [p \in Procs |-> 0]
        /\ abs = [map |-> MapEmpty, atomic |-> AtomEmpty] /\ good = [p \in Procs |-> TRUE]
        /\ stores = [k \in Keys |-> 0] /\ wins = [k \in Keys |-> 0]
        /\ handles = [k \in Keys |-> {}] /\ dels = [k \in Keys |-> 0] /\ adds = 0

IsMapOp(e) == e.op \in {"store", "load", "delete", "loadanddelete", "len", "clear", "range"}
Invocations(p) ==
    {[op |-> "store", k |-> k, v |-> p * 10 + nops[p]] : k \in IF "store" \in MapOps THEN Keys ELSE {}}
    \cup {[op |-> o, k |-> k] : o \in MapOps \cap {"load", "delete", "loadanddelete"}, k \in Keys}
    \cup {[op |-> o] : o \in MapOps \cap {"len", "clear"}}
    \cup {[op |-> "range", n |-> 99] : x \in IF "range" \in MapOps THEN {1} ELSE {}}
    \cup {[op |-> "range", n |-> 1] : x \in IF "range1" \in MapOps THEN {1} ELSE {}}     \* callback returns false at once
    \cup {[op |-> "getorcreate", k |-> k, v |-> p * 10] : k \in IF "getorcreate" \in AtomOps THEN Keys ELSE {}}
    \cup {[op |-> o, k |-> k] : o \in AtomOps \cap {"get", "adelete"}, k \in Keys}
    \cup {[op |-> o] : o \in AtomOps \cap {"aclear"}}
    \cup {[op |-> "hadd", h |-> held[p], v |-> 1] : x \in IF "hadd" \in AtomOps /\ held[p] # 0 THEN {1} ELSE {}}
    \cup {[op |-> "hload", h |-> held[p]] : x \in IF "hload" \in AtomOps /\ held[p] # 0 THEN {1} ELSE {}}

Call(p) == /\ pc[p] = "idle" /\ nops[p] < MaxOps
           /\ \E e \in Invocations(p) :
                /\ cur' = [cur EXCEPT ![p] = e]
                /\ pc' = [pc EXCEPT ![p] = IF e.op \in {"hadd", "hload"} THEN "hb" ELSE "a1"]
                /\ stores' = IF e.op = "store" THEN [stores EXCEPT ![e.k] = @ + 1] ELSE stores
                /\ dels' = CASE e.op = "adelete" -> [dels EXCEPT ![e.k] = @ + 1]
                             [] e.op = "aclear"  -> [k \in Keys |-> dels[k] + 1]
                             [] OTHER -> dels
           /\ UNCHANGED <<lock, cm, items, hval, nh, res, held, nops, abs, good, wins, handles, adds>>

(* lock mode of section s (1 or 2) of operation e *)
WriteMode(e, s) == CASE e.op \in {"store", "delete", "clear", "adelete", "aclear"} -> TRUE
                     [] e.op = "loadanddelete" -> IF Defect = "lad-split" THEN s = 2 ELSE TRUE
                     [] e.op = "getorcreate" -> s = 2
                     [] OTHER -> FALSE

Acquire(p) == /\ pc[p] \in {"a1", "a2"}
              /\ LET s == IF pc[p] = "a1" THEN 1 ELSE 2 IN
                 IF WriteMode(cur[p], s)
                   THEN lock.w = 0 /\ lock.r = {} /\ lock' = [lock EXCEPT !.w = p]
                   ELSE lock.w = 0 /\ lock' = [lock EXCEPT !.r = @ \cup {p}]
              /\ pc' = [pc EXCEPT ![p] = IF pc[p] = "a1" THEN "b1" ELSE "b2"]
              /\ UNCHANGED <<cm, items, hval, nh, cur, res, held, nops, abs, good, stores, wins, handles, dels, adds>>

Release(p) == lock' = [w |-> IF lock.w = p THEN 0 ELSE lock.w, r |-> lock.r \ {p}]

(* the operation of p takes effect now and is about to return r *)
Lin(p, r) == LET e == cur[p] IN
    IF IsMapOp(e)
      THEN /\ good' = [good EXCEPT ![p] = MapOk(abs.map, e, r)]
           /\ abs' = [abs EXCEPT !.map = MapEff(abs.map, e)]
      ELSE /\ good' = [good EXCEPT ![p] = AtomOk(abs.atomic, e, r)]
           /\ abs' = [abs EXCEPT !.atomic = AtomEff(abs.atomic, e, r)]
NoLin == UNCHANGED <<abs, good>>

Lookup(f, k) == IF k \in DOMAIN f THEN f[k] ELSE 0
Without(f, k) == [x \in (DOMAIN f) \ {k} |-> f[x]]
With(f, k, v) == [x \in (DOMAIN f) \cup {k} |-> IF x = k THEN v ELSE f[x]]
RECURSIVE SeqOf(_)
SeqOf(S) == IF S = {} THEN << >> ELSE LET x == CHOOSE y \in S : TRUE IN <<x>> \o SeqOf(S \ {x})
Entries(ks) == [i \in 1..Len(ks) |-> [k |-> ks[i], v |-> cm[ks[i]]]]      \* what Range hands to its callback
LoadRes(k) == IF k \in DOMAIN cm THEN [ok |-> TRUE, v |-> cm[k]] ELSE [ok |-> FALSE, v |-> 0]

(* Defect "range-leaks-rlock": a Range whose callback returned false returns without unlocking *)
Leaks(p) == /\ Defect = "range-leaks-rlock" /\ cur[p].op = "range" /\ Cardinality(DOMAIN cm) >= cur[p].n
Body1(p) == /\ pc[p] = "b1" /\ IF Leaks(p) THEN UNCHANGED lock ELSE Release(p)
            /\ LET e == cur[p] IN
               CASE e.op = "store" -> /\ cm' = With(cm, e.k, e.v) /\ res' = [res EXCEPT ![p] = 0] /\ Lin(p, 0)
                                      /\ pc' = [pc EXCEPT ![p] = "ret"] /\ UNCHANGED <<items, hval, nh>>
                 [] e.op = "load" -> /\ res' = [res EXCEPT ![p] = LoadRes(e.k)] /\ Lin(p, LoadRes(e.k))
                                     /\ pc' = [pc EXCEPT ![p] = "ret"] /\ UNCHANGED <<cm, items, hval, nh>>
                 [] e.op = "delete" -> /\ cm' = Without(cm, e.k) /\ res' = [res EXCEPT ![p] = 0] /\ Lin(p, 0)
                                       /\ pc' = [pc EXCEPT ![p] = "ret"] /\ UNCHANGED <<items, hval, nh>>
                 [] e.op = "loadanddelete" ->
                        IF Defect = "lad-split"
                          THEN /\ res' = [res EXCEPT ![p] = LoadRes(e.k)] /\ NoLin
                               /\ pc' = [pc EXCEPT ![p] = "a2"] /\ UNCHANGED <<cm, items, hval, nh>>
                          ELSE /\ cm' = Without(cm, e.k) /\ res' = [res EXCEPT ![p] = LoadRes(e.k)] /\ Lin(p, LoadRes(e.k))
                               /\ pc' = [pc EXCEPT ![p] = "ret"] /\ UNCHANGED <<items, hval, nh>>
                 [] e.op = "len" -> /\ res' = [res EXCEPT ![p] = Cardinality(DOMAIN cm)] /\ Lin(p, Cardinality(DOMAIN cm))
                                    /\ pc' = [pc EXCEPT ![p] = "ret"] /\ UNCHANGED <<cm, items, hval, nh>>
                 [] e.op = "range" ->
                        IF Defect = "range-split"      \* snapshot the keys now, Load each of them later, one lock each
                          THEN /\ res' = [res EXCEPT ![p] = [todo |-> SeqOf(DOMAIN cm), got |-> << >>]] /\ NoLin
                               /\ pc' = [pc EXCEPT ![p] = "a2"] /\ UNCHANGED <<cm, items, hval, nh>>
                          ELSE LET ks == SeqOf(DOMAIN cm) r == Entries(SubSeq(ks, 1, MinN(e.n, Len(ks)))) IN
                               /\ res' = [res EXCEPT ![p] = r] /\ Lin(p, r)
                               /\ pc' = [pc EXCEPT ![p] = "ret"] /\ UNCHANGED <<cm, items, hval, nh>>
                 [] e.op = "clear" -> /\ cm' = << >> /\ res' = [res EXCEPT ![p] = 0] /\ Lin(p, 0)
                                      /\ pc' = [pc EXCEPT ![p] = "ret"] /\ UNCHANGED <<items, hval, nh>>
                 [] e.op = "get" -> LET h == Lookup(items, e.k) r == [ok |-> h # 0, h |-> h] IN
                                    /\ res' = [res EXCEPT ![p] = r] /\ Lin(p, r)
                                    /\ pc' = [pc EXCEPT ![p] = "ret"] /\ UNCHANGED <<cm, items, hval, nh>>
                 [] e.op = "getorcreate" ->
                        LET h == Lookup(items, e.k) IN
                        IF h # 0 THEN /\ res' = [res EXCEPT ![p] = h] /\ Lin(p, h)
                                      /\ pc' = [pc EXCEPT ![p] = "ret"] /\ UNCHANGED <<cm, items, hval, nh>>
                                 ELSE /\ NoLin /\ pc' = [pc EXCEPT ![p] = "a2"] /\ UNCHANGED <<cm, items, hval, nh, res>>
                 [] e.op = "adelete" -> /\ items' = Without(items, e.k) /\ res' = [res EXCEPT ![p] = 0] /\ Lin(p, 0)
                                        /\ pc' = [pc EXCEPT ![p] = "ret"] /\ UNCHANGED <<cm, hval, nh>>
                 [] e.op = "aclear" -> /\ items' = << >> /\ res' = [res EXCEPT ![p] = 0] /\ Lin(p, 0)
                                       /\ pc' = [pc EXCEPT ![p] = "ret"] /\ UNCHANGED <<cm, hval, nh>>
            /\ UNCHANGED <<cur, held, nops, stores, wins, handles, dels, adds>>

Body2(p) == /\ pc[p] = "b2" /\ Release(p)
            /\ LET e == cur[p] IN
               CASE e.op = "loadanddelete" ->        \* only with Defect = "lad-split"
                        /\ cm' = Without(cm, e.k) /\ Lin(p, res[p]) /\ UNCHANGED <<items, hval, nh, res>>
                        /\ pc' = [pc EXCEPT ![p] = "ret"]
                 [] e.op = "range" ->                \* only with Defect = "range-split": one Load per round
                        LET r == res[p] IN
                        IF r.todo = << >>
                          THEN /\ res' = [res EXCEPT ![p] = r.got] /\ Lin(p, r.got)
                               /\ pc' = [pc EXCEPT ![p] = "ret"] /\ UNCHANGED <<cm, items, hval, nh>>
                          ELSE LET k == Head(r.todo) IN
                               /\ res' = [res EXCEPT ![p] = [todo |-> Tail(r.todo),
                                              got |-> IF k \in DOMAIN cm THEN Append(r.got, [k |-> k, v |-> cm[k]]) ELSE r.got]]
                               /\ NoLin /\ pc' = [pc EXCEPT ![p] = "a2"] /\ UNCHANGED <<cm, items, hval, nh>>
                 [] e.op = "getorcreate" ->
                        LET h == Lookup(items, e.k) IN
                        /\ pc' = [pc EXCEPT ![p] = "ret"]
                        /\ IF h # 0 /\ Defect # "no-doublecheck"
                          THEN /\ res' = [res EXCEPT ![p] = h] /\ Lin(p, h) /\ UNCHANGED <<cm, items, hval, nh>>
                          ELSE /\ nh' = nh + 1 /\ items' = With(items, e.k, nh + 1) /\ hval' = With(hval, nh + 1, e.v)
                               /\ res' = [res EXCEPT ![p] = nh + 1] /\ Lin(p, nh + 1) /\ UNCHANGED cm
            /\ UNCHANGED <<cur, held, nops, stores, wins, handles, dels, adds>>

HBody(p) == /\ pc[p] = "hb"
            /\ LET e == cur[p] IN
               IF e.op = "hadd"
                 THEN /\ hval' = [hval EXCEPT ![e.h] = @ + e.v] /\ res' = [res EXCEPT ![p] = hval[e.h] + e.v]
                      /\ Lin(p, hval[e.h] + e.v) /\ adds' = adds + e.v
                 ELSE /\ res' = [res EXCEPT ![p] = hval[e.h]] /\ Lin(p, hval[e.h]) /\ UNCHANGED <<hval, adds>>
            /\ pc' = [pc EXCEPT ![p] = "ret"]
            /\ UNCHANGED <<lock, cm, items, nh, cur, held, nops, stores, wins, handles, dels>>

Ret(p) == /\ pc[p] = "ret"
          /\ LET e == cur[p] IN
             /\ wins' = IF e.op = "loadanddelete" /\ res[p].ok THEN [wins EXCEPT ![e.k] = @ + 1] ELSE wins
             /\ handles' = IF e.op = "getorcreate" THEN [handles EXCEPT ![e.k] = @ \cup {res[p]}] ELSE handles
             /\ held' = CASE e.op = "getorcreate" -> [held EXCEPT ![p] = res[p]]
                          [] e.op = "get" /\ res[p].ok -> [held EXCEPT ![p] = res[p].h]
                          [] OTHER -> held
          /\ pc' = [pc EXCEPT ![p] = "idle"] /\ nops' = [nops EXCEPT ![p] = @ + 1]
          /\ cur' = [cur EXCEPT ![p] = NoOp]
          /\ UNCHANGED <<lock, cm, items, hval, nh, res, abs, good, stores, dels, adds>>

Next == \E p \in Procs : Call(p) \/ Acquire(p) \/ Body1(p) \/ Body2(p) \/ HBody(p) \/ Ret(p)
Spec == Init /\ [][Next]_vars

(* ---- Contract ---- *)
LinOK == \A p \in Procs : good[p]
OneWinner == \A k \in Keys : wins[k] <= stores[k]
SameHandle == \A k \in Keys : Cardinality(handles[k]) <= 1 + dels[k]
RECURSIVE SumAdds(_)
SumAdds(H) == IF H = {} THEN 0 ELSE LET h == CHOOSE x \in H : TRUE IN (hval[h] % 10) + SumAdds(H \ {h})
NoLostAdd == SumAdds(DOMAIN hval) = adds      \* cells start at a multiple of 10; fewer than 10 Adds in total
(* a lock is held only by a process that is inside a method body; hence nobody waits for a lock for ever *)
LockHeldOnlyInBody == /\ \A p \in lock.r : pc[p] \in {"b1", "b2"}
                      /\ lock.w # 0 => pc[lock.w] \in {"b1", "b2"}
NoStuckWaiter == ~ \E p \in Procs : /\ pc[p] \in {"a1", "a2"}
                                     /\ \A q \in Procs : pc[q] \notin {"b1", "b2"}
                                     /\ (lock.w # 0 \/ (lock.r # {} /\ WriteMode(cur[p], IF pc[p] = "a1" THEN 1 ELSE 2)))
MutualExclusion == lock.w # 0 => lock.r = {}
ImplMatchesAbs == Defect = "none" => cm = abs.map /\ items = abs.atomic.items /\ hval = abs.atomic.val
=============================================================================
