------------------------------- MODULE RingMC -------------------------------
(* Exhaustive exploration of Ring.tla over a universe of N cells: starting   *)
(* from N one-element rings (each of which may be a zero-value Ring), every  *)
(* operation with every argument is applied in every reachable state.  All   *)
(* operation sequences of any length are paths of this graph.  Every         *)
(* transition (state, operation, expected result, state afterwards) is       *)
(* written to trans.ndjson; the harness replays each of them on ring.Ring    *)
(* and on container/ring.  The invariants are the algebraic laws the         *)
(* documentation implies.                                                    *)
EXTENDS Ring, TLC, Json, CSV

CONSTANT N
Args == (0 - N - 1)..(N + 2)      \* arguments of Move and Unlink
Cells == 1..N
VARIABLE nx

Ops == {[op |-> o, r |-> r, s |-> 0, n |-> 0] : o \in {"len", "do"}, r \in Cells \cup {NIL}}
       \cup {[op |-> o, r |-> r, s |-> 0, n |-> 0] : o \in {"next", "prev"}, r \in Cells}
       \cup {[op |-> o, r |-> r, s |-> 0, n |-> n] : o \in {"move", "unlink"}, r \in Cells, n \in Args}
       \cup {[op |-> "link", r |-> r, s |-> s, n |-> 0] : r \in Cells, s \in Cells \cup {NIL}}

Init == nx = [c \in Cells |-> c]
Export(o, a) == CSVWrite("%1$s", <<ToJson([from |-> nx, op |-> o.op, r |-> o.r, s |-> o.s, n |-> o.n, res |-> a.res, to |-> a.nx])>>, "trans.ndjson")
Next == \E o \in Ops : LET a == Apply(nx, o) IN nx' = a.nx /\ Export(o, a)
Spec == Init /\ [][Next]_nx

Perm == IsPerm(nx)
Laws == \A r \in Cells :
          /\ RLen(nx, r) = Cardinality({RMove(nx, r, i) : i \in 0..N})          \* the ring of r has Len distinct cells
          /\ RMove(nx, RMove(nx, r, 1), -1) = r /\ RMove(nx, RMove(nx, r, -1), 1) = r
          /\ RMove(nx, r, RLen(nx, r)) = r /\ RMove(nx, r, 0) = r
          /\ \A n \in Args : RMove(nx, RMove(nx, r, n), -n) = r
          /\ RDo(nx, r)[1] = r /\ Len(RDo(nx, r)) = RLen(nx, r)
          /\ \A s \in Cells : LET a == RLink(nx, r, s) IN
                /\ IsPerm(a.nx) /\ a.res = nx[r]
                /\ a.nx[r] = s                                                   \* r.Next() becomes s
                /\ InSeq(Cyc(nx, r), s) => RLen(a.nx, r) + (IF a.nx = nx THEN 0 ELSE RLen(a.nx, a.res)) = RLen(nx, r)
                /\ ~InSeq(Cyc(nx, r), s) => RLen(a.nx, r) = RLen(nx, r) + RLen(nx, s)
          /\ \A n \in Args : LET a == RUnlink(nx, r, n) k == IF n > 0 THEN n % RLen(nx, r) ELSE 0 IN
                /\ IsPerm(a.nx) /\ RLen(a.nx, r) = RLen(nx, r) - k
                /\ k > 0 => RLen(a.nx, a.res) = k /\ a.res = nx[r]
=============================================================================
