------------------------------ MODULE TraceRing -----------------------------
(* Validates recorded operation sequences of the real ring.Ring (and of      *)
(* container/ring, recorded the same way) against Ring.tla.                  *)
(*   reset {n, init, impl}   init[c] = the cell following cell c at the start *)
(*   op {op, r, s, n, res, to}   one call; res = the returned cell (0 = nil), *)
(*                           number, or (do) sequence of visited cells; to =  *)
(*                           the successor of every cell observed afterwards *)
(* The monitor is deterministic: expected result and structure are computed  *)
(* by Ring!Apply; where the documentation is silent (ANY) only the structure *)
(* is compared.                                                              *)
EXTENDS Ring, TraceLib

Trace == LoadTrace("trace.ndjson")
Starts == {i \in 1..Len(Trace) : Trace[i].ev = "reset"}
VARIABLES l, c
CReset(e) == [nx |-> e.init, why |-> ""]
IsBad(m) == m.why # ""
CNext(m, e) ==
    LET a == Apply(m.nx, e) IN
    IF ~(e.op = "unlink" /\ a.res = ANY) /\ e.res # a.res THEN [m EXCEPT !.why = e.op \o ":result-differs-from-model"]
    ELSE IF e.to # a.nx THEN [m EXCEPT !.why = e.op \o ":structure-afterwards-differs-from-model"]
    ELSE [nx |-> a.nx, why |-> ""]
TInit == l \in Starts /\ c = CReset(Trace[l])
TNext == /\ ~IsBad(c)
         /\ l + 1 <= Len(Trace)
         /\ Trace[l + 1].ev # "reset"
         /\ c' = CNext(c, Trace[l + 1])
         /\ l' = l + 1
TSpec == TInit /\ [][TNext]_<<l, c>>
Report == IF IsBad(c) THEN RejectLine(l, c.why) ELSE TRUE
=============================================================================
