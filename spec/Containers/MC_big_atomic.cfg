SPECIFICATION Spec
CONSTANTS Procs = {1, 2, 3} Keys = {"a"} MaxOps = 2 Defect = "none"
  MapOps = {}
  AtomOps = {"getorcreate", "get", "adelete", "aclear", "hadd", "hload"}
INVARIANTS LinOK OneWinner SameHandle NoLostAdd MutualExclusion ImplMatchesAbs LockHeldOnlyInBody NoStuckWaiter
CHECK_DEADLOCK FALSE
