------------------------------ MODULE TraceLin ------------------------------
(* Generic linearizability check of recorded concurrent histories of the     *)
(* real cmap.Map ("map"), cmap.Atomic/AtomicValue ("atomic") and slice.Slice *)
(* ("slice") against the sequential objects SeqMap, AtomicMap and SeqSlice.  *)
(*                                                                           *)
(* Events (one JSON object per line, one history per reset line; the order  *)
(* of the lines is the order of one global atomic sequence number):          *)
(*   reset {end}                                                             *)
(*   call  {id, obj, op, k, v, n, h, items}   stamped immediately BEFORE the *)
(*                                            call                           *)
(*   ret   {id, res}                          immediately AFTER the return   *)
(*   hung  {ids}     the listed calls had not returned when the watchdog     *)
(*                   gave up (2 s).  Every operation of these objects is     *)
(*                   total and waits for nothing but operations in progress; *)
(*                   so NO rule consumes a hung record: a history that       *)
(*                   contains one is never accepted.                         *)
(*   crash {what}    the process died with a runtime fatal error inside the  *)
(*                   program (it ran in a child process); no rule either.    *)
(* so the order of the records is a sound real-time order: a ret that        *)
(* precedes a call in the file really happened before it.                    *)
(*                                                                           *)
(* Every operation takes effect in ONE silent step TLin(id) somewhere        *)
(* between its call and its ret records; the step is enabled only if the     *)
(* recorded result is a legal result of the sequential object in the state   *)
(* at that moment (the result is looked up ahead in the trace, which only    *)
(* prunes the search earlier: it is the same condition as comparing at the   *)
(* ret).  A ret is consumed only after its operation took effect.  A history *)
(* is accepted iff TLC reaches its last line (it prints DONE <trace>), i.e.  *)
(* iff some order of the silent steps explains every result.                 *)
EXTENDS AtomicMap, SeqSlice, TraceLib

Trace == LoadTrace("trace.ndjson")
Starts == {i \in 1..Len(Trace) : Trace[i].ev = "reset"}
VARIABLES tr, l, st, ops
vars == <<tr, l, st, ops>>

TInit == /\ tr \in Starts /\ l = tr /\ ops = << >>
         /\ st = [map |-> MapEmpty, atomic |-> AtomEmpty, slice |-> SliceEmpty]

HasNext == l + 1 <= Trace[tr].end
Ev == Trace[l + 1]
ResOf(id) == LET j == CHOOSE j \in (l + 2)..Trace[tr].end : Trace[j].ev = "ret" /\ Trace[j].id = id IN Trace[j].res

Ok(e, res)  == CASE e.obj = "map"    -> MapOk(st.map, e, res)
                 [] e.obj = "atomic" -> AtomOk(st.atomic, e, res)
                 [] e.obj = "slice"  -> SliceOk(st.slice, e, res)
Eff(e, res) == CASE e.obj = "map"    -> [st EXCEPT !.map = MapEff(st.map, e)]
                 [] e.obj = "atomic" -> [st EXCEPT !.atomic = AtomEff(st.atomic, e, res)]
                 [] e.obj = "slice"  -> [st EXCEPT !.slice = SliceEff(st.slice, e)]

HasRet(id) == \E j \in (l + 2)..Trace[tr].end : Trace[j].ev = "ret" /\ Trace[j].id = id
(* an operation whose ret lies beyond the end of the trace (prefixes cut by    *)
(* the harness to name the first unexplained result) carries its eventual    *)
(* result in the field pres; it may or may not take effect within the prefix *)
TCall == /\ HasNext /\ Ev.ev = "call" /\ Ev.id \notin DOMAIN ops
         /\ ops' = (Ev.id :> [e |-> Ev, lin |-> FALSE,
                              known |-> HasRet(Ev.id) \/ "pres" \in DOMAIN Ev,     \* FALSE: the call never returned (see hung)
                              res |-> IF HasRet(Ev.id) THEN ResOf(Ev.id) ELSE IF "pres" \in DOMAIN Ev THEN Ev.pres ELSE 0]) @@ ops
         /\ l' = l + 1 /\ UNCHANGED <<tr, st>>

TLin(id) == /\ HasNext /\ ~ops[id].lin /\ ops[id].known
            /\ Ok(ops[id].e, ops[id].res)
            /\ st' = Eff(ops[id].e, ops[id].res)
            /\ ops' = [ops EXCEPT ![id].lin = TRUE]
            /\ UNCHANGED <<tr, l>>

TRet == /\ HasNext /\ Ev.ev = "ret" /\ Ev.id \in DOMAIN ops /\ ops[Ev.id].lin
        /\ ops' = [i \in (DOMAIN ops) \ {Ev.id} |-> ops[i]]
        /\ l' = l + 1 /\ UNCHANGED <<tr, st>>

(* Search reduction (sound and complete).  An operation that cannot change   *)
(* the state - a pure read, a getorcreate of a key that is present, a         *)
(* loadanddelete of a key that is absent - and whose recorded result is legal *)
(* NOW may as well take effect now: doing so changes nothing for anybody      *)
(* else, and if it could take effect later with the same result it would be   *)
(* just as effect-free then (a present key cannot be created again under the  *)
(* same handle; a miss means the key is absent).  So whenever such operations *)
(* are pending, the one with the smallest id takes effect and nothing else    *)
(* happens; all interleavings of effect-free steps collapse into one.         *)
PureRead(e) == e.op \in {"load", "len", "keys", "range", "get", "foreach", "hload", "slen", "slice", "callerwrite"}
NoEffectNow(e) == \/ PureRead(e)
                  \/ e.op = "getorcreate" /\ e.k \in DOMAIN st.atomic.items
                  \/ e.op = "loadanddelete" /\ e.k \notin DOMAIN st.map
Eager == {id \in DOMAIN ops : ~ops[id].lin /\ ops[id].known /\ NoEffectNow(ops[id].e) /\ Ok(ops[id].e, ops[id].res)}
TNext == IF HasNext /\ Eager # {}
           THEN TLin(CHOOSE id \in Eager : \A j \in Eager : id <= j)
           ELSE TCall \/ TRet \/ \E id \in DOMAIN ops : TLin(id)
TSpec == TInit /\ [][TNext]_vars
Done == IF l = Trace[tr].end THEN PrintT(<<"DONE", tr>>) ELSE TRUE
=============================================================================
