-------------------------------- MODULE Ring --------------------------------
(* container/ring as documented: a ring is a cyclic sequence of cells; a     *)
(* pointer to any cell denotes the whole ring; the empty ring is nil (0);    *)
(* the zero value of a Ring is a one-element ring.  The state of a universe  *)
(* of cells is a set of disjoint rings, represented by nx: the function that *)
(* maps every cell to the cell that follows it (a permutation of the cells). *)
(* All operations are defined on Cyc(nx, r), the ring of r written as the    *)
(* sequence that starts at r and goes forward, following the package         *)
(* documentation (not the pointer manipulation of the implementation):       *)
(*   Len    number of elements                     (nil: 0)                  *)
(*   Do     the elements in forward order from r   (nil: nothing)            *)
(*   Move n moves n % Len elements backward (n<0) or forward (n>=0)          *)
(*   Next = Move 1, Prev = Move -1                                           *)
(*   Link(r, s): result is the original r.Next().  s = nil: nothing happens. *)
(*     Same ring: the elements between r and s are removed and form their    *)
(*     own ring (if there are none nothing changes).  Different rings: the   *)
(*     elements of s, starting at s, are inserted after r.                   *)
(*   Unlink(r, n): removes n % Len elements starting at r.Next(); the result *)
(*     is the removed subring.  If n % Len = 0 the ring is unchanged and the *)
(*     documentation does not say what is returned (ANY: the check then only *)
(*     demands what container/ring itself returns); n <= 0: nil, no change.  *)
(* Every operator returns [nx |-> state afterwards, res |-> result]; a result *)
(* is a cell, a number, or (Do) a sequence of cells.                         *)
EXTENDS Integers, Sequences, FiniteSets

NIL == 0
ANY == -1

RECURSIVE CycFrom(_, _, _)
CycFrom(nx, r, c) == IF nx[c] = r THEN <<c>> ELSE <<c>> \o CycFrom(nx, r, nx[c])
Cyc(nx, r) == CycFrom(nx, r, r)

InSeq(c, x) == \E i \in 1..Len(c) : c[i] = x
Pos(c, x) == CHOOSE i \in 1..Len(c) : c[i] = x
(* make c one ring; cells outside c keep their successor *)
SetCyc(nx, c) == [x \in DOMAIN nx |-> IF InSeq(c, x) THEN c[(Pos(c, x) % Len(c)) + 1] ELSE nx[x]]
IsPerm(nx) == /\ \A x \in DOMAIN nx : nx[x] \in DOMAIN nx
              /\ \A x, y \in DOMAIN nx : x # y => nx[x] # nx[y]

RLen(nx, r) == IF r = NIL THEN 0 ELSE Len(Cyc(nx, r))
RDo(nx, r) == IF r = NIL THEN << >> ELSE Cyc(nx, r)
RMove(nx, r, n) == LET c == Cyc(nx, r) IN c[(n % Len(c)) + 1]

RLink(nx, r, s) ==
    LET c == Cyc(nx, r)
        n == c[(1 % Len(c)) + 1]
    IN IF s = NIL THEN [nx |-> nx, res |-> n]
       ELSE IF InSeq(c, s)
         THEN LET j == Pos(c, s)
                  keep == IF j = 1 THEN <<r>> ELSE <<r>> \o SubSeq(c, j, Len(c))
                  gone == IF j = 1 THEN SubSeq(c, 2, Len(c)) ELSE SubSeq(c, 2, j - 1)
              IN [nx |-> IF gone = << >> THEN nx ELSE SetCyc(SetCyc(nx, keep), gone), res |-> n]
         ELSE [nx |-> SetCyc(nx, <<r>> \o Cyc(nx, s) \o Tail(c)), res |-> n]

RUnlink(nx, r, n) ==
    IF n <= 0 THEN [nx |-> nx, res |-> NIL]
    ELSE LET c == Cyc(nx, r)
             k == n % Len(c)
         IN IF k = 0 THEN [nx |-> nx, res |-> ANY]
            ELSE [nx |-> SetCyc(SetCyc(nx, <<r>> \o SubSeq(c, k + 2, Len(c))), SubSeq(c, 2, k + 1)), res |-> c[2]]

(* o = [op, r, s, n] *)
Apply(nx, o) ==
    CASE o.op = "len"    -> [nx |-> nx, res |-> RLen(nx, o.r)]
      [] o.op = "do"     -> [nx |-> nx, res |-> RDo(nx, o.r)]
      [] o.op = "next"   -> [nx |-> nx, res |-> RMove(nx, o.r, 1)]
      [] o.op = "prev"   -> [nx |-> nx, res |-> RMove(nx, o.r, -1)]
      [] o.op = "move"   -> [nx |-> nx, res |-> RMove(nx, o.r, o.n)]
      [] o.op = "link"   -> RLink(nx, o.r, o.s)
      [] o.op = "unlink" -> RUnlink(nx, o.r, o.n)
=============================================================================
