SPECIFICATION Spec
CONSTANTS Procs = {1, 2, 3} Keys = {"a", "b"} MaxOps = 2 Defect = "none"
  MapOps = {"store", "load", "delete", "loadanddelete", "len", "clear"}
  AtomOps = {}
INVARIANTS LinOK OneWinner SameHandle NoLostAdd MutualExclusion ImplMatchesAbs LockHeldOnlyInBody NoStuckWaiter
CHECK_DEADLOCK FALSE
