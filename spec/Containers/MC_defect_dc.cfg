SPECIFICATION Spec
CONSTANTS Procs = {1, 2} Keys = {"a"} MaxOps = 1 Defect = "no-doublecheck"
  MapOps = {}
  AtomOps = {"getorcreate"}
INVARIANTS SameHandle
CHECK_DEADLOCK FALSE
