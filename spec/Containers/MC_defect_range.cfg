SPECIFICATION Spec
CONSTANTS Procs = {1, 2, 3} Keys = {"a", "b"} MaxOps = 2 Defect = "range-split"
  MapOps = {"store", "delete", "range"}
  AtomOps = {}
INVARIANTS LinOK
CHECK_DEADLOCK FALSE
