------------------------------ MODULE TraceBuf ------------------------------
(* Validates recorded operation sequences of the real ring.Buffered against  *)
(* the FIFO queue of BufRing.tla.                                            *)
(*   reset {isz, bsz}          NewBuffered(isz, bsz)                         *)
(*   op {op, v, n, res}        append v | front | remove | len | range n     *)
(*   op {op: "obs", len, front, range, n, prange}   Len, Front, a complete   *)
(*                             Range and a Range stopped at the n-th value,  *)
(*                             taken together after a mutation               *)
(*   op {op: "hung", in}       the operation `in` did not return: the        *)
(*                             watchdog (2 s) gave up, or a Range was still  *)
(*                             calling back after 100000 elements            *)
(*   op {op: "panic", in, what}                                              *)
(* Values: the harness appends pointers to numbers (some of them 0) and nil  *)
(* pointers; it records the number pointed to, -1 for nil.  Deterministic.   *)
EXTENDS BufRing, TraceLib

Trace == LoadTrace("trace.ndjson")
Starts == {i \in 1..Len(Trace) : Trace[i].ev = "reset"}
VARIABLES l, c
CReset(e) == [b |-> BInit(e.isz, e.bsz), why |-> ""]
IsBad(m) == m.why # ""
Res(b, o) == BApply(b, o).res
ObsWhy(b, e) ==
    CASE e.len # Res(b, [op |-> "len"]) -> "len:result-differs-from-fifo-queue"
      [] e.front # Res(b, [op |-> "front"]) -> "front:result-differs-from-fifo-queue"
      [] e.range # Res(b, [op |-> "range", n |-> Len(b.q) + 1]) -> "range:result-differs-from-fifo-queue"
      [] e.prange # Res(b, [op |-> "range", n |-> e.n]) -> "range-stopped-early:result-differs-from-fifo-queue"
      [] OTHER -> ""
CNext(m, e) ==
    IF e.op = "hung" THEN [m EXCEPT !.why = e.in \o ":never-returned"]       \* every operation of a queue is total
    ELSE IF e.op = "panic" THEN [m EXCEPT !.why = e.in \o ":panicked"]
    ELSE IF e.op = "obs" THEN [m EXCEPT !.why = ObsWhy(m.b, e)]
    ELSE IF ~Enabled(m.b, e) THEN [m EXCEPT !.why = "harness:remove-on-empty-generated"]
    ELSE LET a == BApply(m.b, e) IN
         IF e.res # a.res THEN [m EXCEPT !.why = e.op \o ":result-differs-from-fifo-queue"]
         ELSE [b |-> a.b, why |-> ""]
TInit == l \in Starts /\ c = CReset(Trace[l])
TNext == /\ ~IsBad(c)
         /\ l + 1 <= Len(Trace)
         /\ Trace[l + 1].ev # "reset"
         /\ c' = CNext(c, Trace[l + 1])
         /\ l' = l + 1
TSpec == TInit /\ [][TNext]_<<l, c>>
Report == IF IsBad(c) THEN RejectLine(l, c.why) ELSE TRUE
=============================================================================
