SPECIFICATION Spec
CONSTANTS MaxSize = 3 MaxSteps = 8 MaxCells = 30 Defect = "unlink-one-early"
INVARIANTS Refines
CHECK_DEADLOCK FALSE
