SPECIFICATION Spec
CONSTANTS Procs = {1, 2} Keys = {"a"} MaxOps = 2 Defect = "none"
  MapOps = {"store", "load", "delete", "loadanddelete", "len", "clear", "range", "range1"}
  AtomOps = {"getorcreate", "get", "adelete", "aclear", "hadd", "hload"}
INVARIANTS LinOK OneWinner SameHandle NoLostAdd MutualExclusion ImplMatchesAbs LockHeldOnlyInBody NoStuckWaiter
CHECK_DEADLOCK FALSE
