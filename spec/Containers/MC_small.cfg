SPECIFICATION Spec
CONSTANTS Procs = {1, 2} Keys = {"a"} MaxOps = 2 Defect = "none"
  MapOps = {"store", "load", "delete", "loadanddelete", "len", "clear", "range"}
  AtomOps = {"getorcreate", "get", "adelete", "aclear", "hadd", "hload"}
INVARIANTS LinOK OneWinner SameHandle NoLostAdd MutualExclusion ImplMatchesAbs
CHECK_DEADLOCK FALSE
