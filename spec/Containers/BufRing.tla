------------------------------- MODULE BufRing ------------------------------
(* ring.Buffered as a plain FIFO queue of pointers plus a capacity.  Elements *)
(* are numbers >= 0 (a non-nil pointer, written as the number it points to,  *)
(* which may be 0) or BNIL = -1 (a nil pointer: AppendBack(nil) is an element *)
(* like any other - it counts in Len, is visited by Range and has to be      *)
(* removed like the others; whether the queue is empty is decided by Len,    *)
(* never by the value in front).                                             *)
(* NewBuffered(initialSize, bufferSize): both default to 1 when less than 1. *)
(* AppendBack adds at the back (capacity grows by the buffer size when the   *)
(* ring is full); Front is the first value (nil when there is none);     *)
(* RemoveFront removes the first value and returns the next one (nil when    *)
(* the queue became empty) and the capacity shrinks by the buffer size when  *)
(* more than twice the buffer size is free; Len; Range visits the values in  *)
(* order until the callback returns false (at its n-th call).  RemoveFront   *)
(* on an empty queue is not documented and is not part of the model.         *)
(* The contract is the queue; the capacity is kept for the model check only  *)
(* (it cannot be observed through the API).                                  *)
EXTENDS Integers, Sequences

BNIL == 0 - 1
AtLeast1(x) == IF x < 1 THEN 1 ELSE x
BMin(a, b) == IF a < b THEN a ELSE b
BInit(isz, bsz) == [q |-> << >>, cap |-> AtLeast1(isz), bs |-> AtLeast1(bsz)]
BFront(q) == IF q = << >> THEN BNIL ELSE Head(q)

(* o = [op, v, n];  returns [b |-> state afterwards, res |-> result] *)
BApply(b, o) ==
    CASE o.op = "append" -> [b |-> [b EXCEPT !.q = Append(@, o.v), !.cap = IF Len(b.q) >= @ THEN @ + b.bs ELSE @], res |-> 0]
      [] o.op = "front"  -> [b |-> b, res |-> BFront(b.q)]
      [] o.op = "remove" -> LET q2 == Tail(b.q) IN
                            [b |-> [b EXCEPT !.q = q2, !.cap = IF @ - Len(q2) > 2 * b.bs THEN @ - b.bs ELSE @], res |-> BFront(q2)]
      [] o.op = "len"    -> [b |-> b, res |-> Len(b.q)]
      [] o.op = "range"  -> [b |-> b, res |-> SubSeq(b.q, 1, BMin(o.n, Len(b.q)))]
Enabled(b, o) == o.op = "remove" => b.q # << >>
=============================================================================
