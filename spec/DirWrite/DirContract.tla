---------------------------- MODULE DirContract ----------------------------
(* C18 - dir.Write as seen from outside: a monitor over                      *)
(*   begin  w, files       Write call number w starts, with this file set    *)
(*   obs    present, dangling, w, files, foreign                             *)
(*          the target path resolved at a step boundary: present (the        *)
(*          symlink exists), dangling (it does not lead to a directory),     *)
(*          w (the Write whose version directory it leads to, 0 if none of   *)
(*          them), files (names found there), foreign (some file there holds *)
(*          content that is not Write w's content for that name)             *)
(*   crash                 the process died; a fresh Dir will be used        *)
(*   ret    w, err, versions   Write returned; versions = version dirs left  *)
(*   fault                 the environment makes a filesystem operation fail *)
(*          from now on (outside the statement's quantifier: a Write may     *)
(*          then return an error and left-over directories are not judged;   *)
(*          everything the statement says about the TARGET stays in force)   *)
EXTENDS Naturals, Sequences, FiniteSets

Bad(why) == [bad |-> TRUE, why |-> why]
IsBad(c) == c.bad

CReset == [bad |-> FALSE, why |-> "", files |-> <<>>,   \* files[w]: the set of names of Write w
           cur |-> 0,          \* the last Write that returned successfully
           inflight |-> 0,     \* the Write in progress (0: none)
           shown |-> 0,        \* the Write the target was last seen to resolve to
           crashes |-> 0, faults |-> 0]

ToSet(s) == {s[i] : i \in 1..Len(s)}

CBegin(c, e) ==
  IF e.w # Len(c.files) + 1 THEN Bad("harness: write ids must be consecutive")
  ELSE [c EXCEPT !.files = Append(c.files, ToSet(e.files)), !.inflight = e.w]

CObs(c, e) ==
  IF ~e.present THEN
      IF c.shown # 0 \/ c.cur # 0 THEN Bad("target absent after a set had been published") ELSE c
  ELSE IF e.dangling THEN Bad("target does not resolve to a directory")
  ELSE IF e.w = 0 \/ e.w > Len(c.files) THEN Bad("target resolves to a directory no Write created")
  ELSE IF e.foreign THEN Bad("target holds a file whose content is not that Write's (mixed set)")
  ELSE IF ToSet(e.files) # c.files[e.w] THEN Bad("target holds a partial or extended file set")
  ELSE IF e.w < c.shown THEN Bad("target went back to an older set")
  ELSE IF c.inflight = 0 /\ e.w # c.cur THEN Bad("target does not show the last written set")
  ELSE IF c.inflight # 0 /\ e.w # c.inflight /\ e.w # c.shown THEN Bad("target switched to a set that is neither the previous nor the new one")
  ELSE [c EXCEPT !.shown = e.w]

CCrash(c) == [c EXCEPT !.crashes = c.crashes + 1, !.inflight = 0, !.cur = c.shown]

CRet(c, e) ==
  IF e.err THEN IF c.faults > 0 THEN [c EXCEPT !.inflight = 0, !.cur = c.shown]
                ELSE Bad(IF c.crashes > 0 THEN "Write failed after an earlier crash" ELSE "Write failed")
  ELSE IF c.shown # e.w THEN Bad("Write returned but the target does not show its set")
  ELSE IF c.crashes = 0 /\ c.faults = 0 /\ e.versions # 1 THEN Bad("more than the current version directory remains after a crash-free Write")
  ELSE [c EXCEPT !.cur = e.w, !.inflight = 0]

CNext(c, e) ==
  IF e.ev = "reset" THEN CReset
  ELSE IF IsBad(c) THEN c
  ELSE CASE e.ev = "begin" -> CBegin(c, e)
         [] e.ev = "obs"   -> CObs(c, e)
         [] e.ev = "crash" -> CCrash(c)
         [] e.ev = "fault" -> [c EXCEPT !.faults = c.faults + 1]
         [] e.ev = "ret"   -> CRet(c, e)
=============================================================================
