SPECIFICATION TSpec
CONSTANTS Names = {"a", "b", "c", "n0"} MaxWrites = 1000 MaxCrashes = 1000 MaxFaults = 1000 StaleFix = TRUE
CONSTRAINT Done
INVARIANTS TargetComplete
CHECK_DEADLOCK FALSE
