---------------------------- MODULE TraceDirImpl ----------------------------
(* Binding of the implementation-shaped model to the code: hook-level traces *)
(* of the real dir.Write - every step point it passes, with the COMPLETE     *)
(* projection of the real directory taken at that point (all version         *)
(* directories with their file names, where <target> and <target>.new lead)  *)
(* - must be behaviours of DirImpl.tla: each step record is matched by the   *)
(* action that step point stands for, and the model's filesystem after the   *)
(* action must equal the recorded one.  A trace that is not accepted is      *)
(* DRIFT between model and code (never a violation by itself).               *)
(*   reset sets            file sets of the Writes of this run               *)
(*   begin w, files        Write w starts                                    *)
(*   step  point, arg, dirs = <<[w, files]...>>, target, new                 *)
(*   crash                 the process died at the last step point           *)
(*   ret   w, err, faulted    (faulted: the harness made RemoveAll(prev) fail)*)
EXTENDS DirImpl, TraceLib

Trace == LoadTrace("trace.ndjson")
Starts == {i \in 1..Len(Trace) : Trace[i].ev = "reset"}
VARIABLES tr, l
tvars == <<vars, tr, l>>

TInit == /\ tr \in Starts /\ l = tr
         /\ sets = [i \in 1..Len(Trace[tr].sets) |-> ToSet(Trace[tr].sets[i])]
         /\ dirs = << >> /\ target = 0 /\ new = 0
         /\ pc = "idle" /\ w = 0 /\ todo = {} /\ prev = 0 /\ crashes = 0 /\ faults = 0
         /\ c = CReset
HasNext == l + 1 <= Trace[tr].end
Ev == Trace[l + 1]
Eat == l' = l + 1 /\ UNCHANGED tr

FsMatches(e) ==
  /\ target' = e.target /\ new' = e.new
  /\ DOMAIN dirs' = {e.dirs[i].w : i \in 1..Len(e.dirs)}
  /\ \A i \in 1..Len(e.dirs) : dirs'[e.dirs[i].w] = ToSet(e.dirs[i].files)

TBegin == /\ HasNext /\ Ev.ev = "begin" /\ Eat
          /\ w + 1 \in DOMAIN sets /\ Ev.w = w + 1 /\ ToSet(Ev.files) = sets[w + 1]
          /\ Begin
TStep == /\ HasNext /\ Ev.ev = "step" /\ Eat
         /\ CASE Ev.point = "mkbase" -> MkBase
              [] Ev.point = "mknew" -> MkNew
              [] Ev.point = "file" -> WriteFile /\ todo' = todo \ {Ev.arg}
              [] Ev.point = "symlink" -> Symlink /\ pc' = "rename"
              [] Ev.point = "rename" -> Rename
              [] Ev.point = "removeprev" -> RemovePrev
              [] OTHER -> FALSE
         /\ FsMatches(Ev)
TCrash == /\ HasNext /\ Ev.ev = "crash" /\ Eat /\ Crash
TRet == /\ HasNext /\ Ev.ev = "ret" /\ Eat /\ Ev.w = w
        /\ \/ Ret /\ ~Ev.err
           \/ Symlink /\ pc' = "idle" /\ Ev.err          \* as-found code only: 'file exists' after an earlier crash
           \/ RemovePrevFail /\ Ev.err /\ Ev.faulted    \* the harness made the removal of the previous version fail

TNext == TBegin \/ TStep \/ TCrash \/ TRet
TSpec == TInit /\ [][TNext]_tvars
Done == IF l = Trace[tr].end THEN PrintT(<<"DONE", tr>>) ELSE TRUE
=============================================================================
