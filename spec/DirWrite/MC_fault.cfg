SPECIFICATION Spec
CONSTANTS Names = {"a", "b"} MaxWrites = 3 MaxCrashes = 1 MaxFaults = 2 StaleFix = TRUE
INVARIANTS NotBad TargetComplete
PROPERTY AllWritesFinish
CHECK_DEADLOCK FALSE
