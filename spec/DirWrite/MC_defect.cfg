SPECIFICATION Spec
CONSTANTS Names = {"a", "b"} MaxWrites = 3 MaxCrashes = 2 MaxFaults = 0 StaleFix = FALSE
INVARIANTS NotBad TargetComplete
CHECK_DEADLOCK FALSE
