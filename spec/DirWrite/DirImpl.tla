------------------------------ MODULE DirImpl ------------------------------
(* Implementation-shaped model of concurrency/dir/dir.go Write: one action   *)
(* per filesystem operation, a Crash action enabled between any two of them   *)
(* (the process dies: the Dir value and its in-memory `prev` are lost), and   *)
(* recovery with a fresh Dir.  After every step the externally visible       *)
(* filesystem is shown to the DirContract monitor.                            *)
EXTENDS DirContract, Integers, TLC

CONSTANTS Names,       \* universe of file names
          MaxWrites,   \* number of Write calls in a behaviour
          MaxCrashes,
          MaxFaults,   \* how often the removal of the previous version may fail (environment fault; 0 in the property's own space)
          StaleFix     \* TRUE: model of the repaired code (a stale <target>.new is removed before linking)

VARIABLES sets,        \* sets[w]: file set of Write w (chosen at the start)
          dirs,        \* version directories: w |-> set of names written so far
          target, new, \* the two symlinks: 0 = absent, else the version they point to
          pc, w, todo, prev, crashes, faults,
          c
vars == <<sets, dirs, target, new, pc, w, todo, prev, crashes, faults, c>>

RECURSIVE Feed(_, _)
Feed(cc, evs) == IF evs = <<>> THEN cc ELSE Feed(CNext(cc, Head(evs)), Tail(evs))
SetToSeq(S) == CHOOSE s \in [1..Cardinality(S) -> S] : \A i, j \in 1..Cardinality(S) : i # j => s[i] # s[j]

Obs(d, t) == [ev |-> "obs", present |-> t # 0, dangling |-> t # 0 /\ t \notin DOMAIN d,
              w |-> t, files |-> IF t # 0 /\ t \in DOMAIN d THEN SetToSeq(d[t]) ELSE <<>>, foreign |-> FALSE]

Init == /\ sets \in [1..MaxWrites -> SUBSET Names]
        /\ dirs = << >> /\ target = 0 /\ new = 0
        /\ pc = "idle" /\ w = 0 /\ todo = {} /\ prev = 0 /\ crashes = 0 /\ faults = 0
        /\ c = CReset

Begin == /\ pc = "idle" /\ w < MaxWrites
         /\ w' = w + 1 /\ pc' = "mkbase" /\ todo' = sets[w + 1]
         /\ c' = Feed(c, <<[ev |-> "begin", w |-> w + 1, files |-> SetToSeq(sets[w + 1])]>>)
         /\ UNCHANGED <<sets, dirs, target, new, prev, crashes, faults>>

Step(nextpc, d2, t2, n2) ==
  /\ dirs' = d2 /\ target' = t2 /\ new' = n2 /\ pc' = nextpc
  /\ c' = Feed(c, <<Obs(d2, t2)>>)

MkBase == pc = "mkbase" /\ Step("mknew", dirs, target, new) /\ UNCHANGED <<sets, w, todo, prev, crashes, faults>>      \* dir.go:52
MkNew  == pc = "mknew" /\ Step("files", (w :> {}) @@ dirs, target, new) /\ UNCHANGED <<sets, w, todo, prev, crashes, faults>>   \* dir.go:56
WriteFile ==                                                                                      \* dir.go:60-66 (map order: any)
  /\ pc = "files" /\ todo # {}
  /\ \E f \in todo : /\ todo' = todo \ {f}
                     /\ Step("files", [dirs EXCEPT ![w] = @ \cup {f}], target, new)
  /\ UNCHANGED <<sets, w, prev, crashes, faults>>
Symlink ==                                                                                        \* dir.go:68
  /\ pc = "files" /\ todo = {}
  /\ IF new # 0 /\ ~StaleFix
       THEN /\ pc' = "idle" /\ c' = Feed(c, <<[ev |-> "ret", w |-> w, err |-> TRUE, versions |-> Cardinality(DOMAIN dirs)]>>)
            /\ UNCHANGED <<dirs, target, new>>
       ELSE Step("rename", dirs, target, w)
  /\ UNCHANGED <<sets, w, todo, prev, crashes, faults>>
Rename == pc = "rename" /\ Step("removeprev", dirs, new, 0) /\ UNCHANGED <<sets, w, todo, prev, crashes, faults>>        \* dir.go:74
RemovePrev ==                                                                                     \* dir.go:80-84
  /\ pc = "removeprev"
  /\ Step("ret", IF prev # 0 THEN [x \in (DOMAIN dirs) \ {prev} |-> dirs[x]] ELSE dirs, target, new)
  /\ prev' = w
  /\ UNCHANGED <<sets, w, todo, crashes, faults>>
\* dir.go:92-96 with the environment refusing the removal: Write returns the error AFTER the rename - the target already shows
\* the new set, the previous version stays on disk, d.prev is not advanced
RemovePrevFail ==
  /\ pc = "removeprev" /\ prev # 0 /\ faults < MaxFaults
  /\ faults' = faults + 1 /\ pc' = "idle"
  /\ c' = Feed(c, <<[ev |-> "fault"], Obs(dirs, target), [ev |-> "ret", w |-> w, err |-> TRUE, versions |-> Cardinality(DOMAIN dirs)]>>)
  /\ UNCHANGED <<sets, dirs, target, new, w, todo, prev, crashes>>
Ret == /\ pc = "ret" /\ pc' = "idle"
       /\ c' = Feed(c, <<[ev |-> "ret", w |-> w, err |-> FALSE, versions |-> Cardinality(DOMAIN dirs)]>>)
       /\ UNCHANGED <<sets, dirs, target, new, w, todo, prev, crashes, faults>>

\* the process can also die after the last filesystem step, before Write returns (pc = "ret"): nothing differs on disk, but
\* the in-memory `prev` is lost like after any other crash
Crash == /\ pc # "idle" /\ crashes < MaxCrashes
         /\ pc' = "idle" /\ prev' = 0 /\ crashes' = crashes + 1 /\ todo' = {}
         /\ c' = Feed(c, <<[ev |-> "crash"]>>)
         /\ UNCHANGED <<sets, dirs, target, new, w, faults>>

Next == Begin \/ MkBase \/ MkNew \/ WriteFile \/ Symlink \/ Rename \/ RemovePrev \/ RemovePrevFail \/ Ret \/ Crash
Spec == Init /\ [][Next]_vars /\ WF_vars(Begin \/ MkBase \/ MkNew \/ WriteFile \/ Symlink \/ Rename \/ RemovePrev \/ Ret)

NotBad == ~IsBad(c)
(* the reader's view, stated directly on the model state as well *)
TargetComplete == target # 0 => target \in DOMAIN dirs /\ dirs[target] = sets[target]
AllWritesFinish == <>(w = MaxWrites /\ pc = "idle")
=============================================================================
