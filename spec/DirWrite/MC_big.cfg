SPECIFICATION Spec
CONSTANTS Names = {"a", "b", "c"} MaxWrites = 4 MaxCrashes = 3 StaleFix = TRUE
INVARIANTS NotBad TargetComplete
PROPERTY AllWritesFinish
CHECK_DEADLOCK FALSE
