SPECIFICATION Spec
CONSTANTS Names = {"a", "b"} MaxWrites = 3 MaxCrashes = 2 MaxFaults = 0 StaleFix = TRUE
INVARIANTS NotBad TargetComplete
PROPERTY AllWritesFinish
CHECK_DEADLOCK FALSE
