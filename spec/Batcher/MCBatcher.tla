----------------------------- MODULE MCBatcher -----------------------------
EXTENDS Batcher
S(s, k) == [op |-> "sub", s |-> s, kind |-> k]
BA(k) == [op |-> "batch", key |-> k]
CL == [op |-> "close"]
(* a stalled subscriber with more than buffer + 1 values outstanding (execute blocks holding the lock), one Close *)
ProgsS3 == << <<S(1, "stalled")>>, <<BA("a"), BA("b"), BA("c")>>, <<CL>> >>
(* a stalled and a prompt subscriber, Batch calls (distinct keys / a replaced key), one Close *)
ProgsSP2 == << <<S(1, "stalled")>>, <<S(2, "prompt")>>, <<BA("a"), BA("b")>>, <<CL>> >>
ProgsSP3 == << <<S(1, "stalled")>>, <<S(2, "prompt")>>, <<BA("a"), BA("b"), BA("c")>>, <<CL>> >>
ProgsSPt == << <<S(1, "stalled"), S(2, "prompt")>>, <<BA("a"), BA("b"), BA("a")>>, <<CL>> >>
(* one subscriber (its context may end at any time, also before Subscribe runs), one value, one Close *)
ProgsP1 == << <<S(1, "prompt")>>, <<BA("a")>>, <<CL>> >>
ProgsTrace == << <<>>, <<>>, <<>>, <<>> >>      \* trace validation: up to 4 clients, their operations come from the trace
=============================================================================
