----------------------------- MODULE MCBatcher -----------------------------
EXTENDS Batcher
KindsPS == <<"prompt", "stalled">>
KindsSP == <<"stalled", "prompt">>
=============================================================================
