--------------------------- MODULE TraceBatchImpl ---------------------------
(* Binding of the implementation-shaped model to the code: hook-level traces *)
(* of the real Batcher (every gated decision point it passes - batcher.* and *)
(* the three queue.* points - plus the client calls/returns, clock steps,    *)
(* cancels and the readers' receives, all recorded under one mutex) must be  *)
(* behaviours of Batcher.tla.  A record is not atomic with the step it marks: *)
(* a hook placed after a step (fwd.got, fwd.exit, fwd.exit.unregistered,     *)
(* close.afterQueue, queue.enqueue.enter after the stopped check) is recorded *)
(* some time after the step - goroutines woken by the step may get their     *)
(* records in first - and a hook placed before a step (exec.next before the  *)
(* select, queue.exec.enter before the pop, the *_call records) some time    *)
(* before it.  So the model steps are taken silently and every hook record   *)
(* must be owed by / must announce exactly the step it stands for, per       *)
(* goroutine, in order.  At the quiescent points and at the end of a run the *)
(* model must agree that nothing can move (and on the number of calls that   *)
(* never returned).  A trace that is not accepted is DRIFT between model and *)
(* code - reported in the evidence, never a violation by itself.             *)
EXTENDS MCBatcher, TraceLib

Trace == LoadTrace("trace.ndjson")
Starts == {i \in 1..Len(Trace) : Trace[i].ev = "reset"}
VARIABLES tr, l,
          open,       \* open[c]: client c has a call in flight whose return was not yet recorded
          cowe,       \* cowe[c]: the hook record c's call owes for its last step ("": none)
          fowe,       \* fowe[s]: the hook record s's forwarder owes for its last step
          eann,       \* the processor announced (queue.exec.enter) a pop
          xann,       \* execute announced (batcher.exec.next) the select at its current position
          pend,       \* pend[s]: the value handed to s's reader whose recv record is still to come (0: none)
          hint, free, popped \* look-ahead (see TBatchCall): hint[v] = the values popped before v; free = the interchangeable
                             \* values; popped = the values popped so far
aux == <<open, cowe, fowe, eann, xann, pend, hint, free, popped>>
tvars == <<vars, tr, l, aux>>

TInit == /\ Init /\ tr \in Starts /\ l = tr /\ open = [c \in Clients |-> FALSE] /\ cowe = [c \in Clients |-> ""]
         /\ fowe = [s \in Subs |-> ""] /\ eann = FALSE /\ xann = FALSE /\ pend = [s \in Subs |-> 0]
         /\ hint = <<>> /\ free = {} /\ popped = {}
HasNext == l + 1 <= Trace[tr].end
Ev == Trace[l + 1]
Eat == l' = l + 1 /\ UNCHANGED tr
Keep == UNCHANGED <<tr, l>>
Is(name) == HasNext /\ Ev.ev = name /\ Eat

(* ---- client, clock and reader records ---- *)
Call(o) == /\ Begin(Ev.c, o) /\ open' = [open EXCEPT ![Ev.c] = TRUE]
           /\ UNCHANGED <<nextV, cowe, fowe, eann, xann, pend, popped>>
TSubCall == Is("sub_call") /\ UNCHANGED <<hint, free>> /\ Call([op |-> "sub", s |-> Ev.s, kind |-> IF Ev.kind = "stalled" THEN "stalled" ELSE "gated",
                                    key |-> "", v |-> 0, due |-> 0])
(* Which of several due items the processor pops is not visible at the pop, only later in what the readers receive.  The *)
(* batch_call record carries a look-ahead computed from the same trace: pre = for every reader that receives this     *)
(* value, the value it receives just before.  Every subscriber receives in the order of the pops (buffer, forwarder   *)
(* and reader are FIFO), so a behaviour of the model that explains the trace pops those values earlier anyway: the    *)
(* look-ahead only prunes the search.  free = no reader ever receives this value and its key is not batched again in   *)
(* this trace: such items are interchangeable once due (nothing ever tells them apart), so of several the model pops   *)
(* only the first by (time, value) - the processor pops in time order anyway.                                          *)
TBatchCall == /\ Is("batch_call") /\ Ev.due = now + Interval
              /\ hint' = (Ev.n :> {Ev.pre[i] : i \in 1..Len(Ev.pre)}) @@ hint
              /\ free' = IF Ev.free THEN free \cup {Ev.n} ELSE free
              /\ Call([op |-> "batch", s |-> 0, kind |-> "", key |-> Ev.key, v |-> Ev.n, due |-> Ev.due])
TCloseCall == Is("close_call") /\ UNCHANGED <<hint, free>> /\ Call([op |-> "close", s |-> 0, kind |-> "", key |-> "", v |-> 0, due |-> 0])
TRet == /\ HasNext /\ Ev.ev \in {"sub_ret", "batch_ret", "close_ret"} /\ Eat
        /\ open[Ev.c] /\ cpc[Ev.c] = "idle"
        /\ open' = [open EXCEPT ![Ev.c] = FALSE] /\ UNCHANGED <<vars, cowe, fowe, eann, xann, pend, hint, free, popped>>
TCancel == Is("cancel") /\ Cancel(Ev.s) /\ UNCHANGED aux
TRWait == Is("rwait") /\ RWait(Ev.s) /\ UNCHANGED aux
TAdv == Is("adv") /\ SetNow(Ev.now) /\ UNCHANGED aux
TRecv == /\ Is("recv") /\ pend[Ev.s] = Ev.v /\ pend' = [pend EXCEPT ![Ev.s] = 0] /\ UNCHANGED <<vars, open, cowe, fowe, eann, xann, hint, free, popped>>

(* ---- hook records ---- *)
FOwed(name, what) == /\ Is(name) /\ UNCHANGED <<vars, open, cowe, eann, xann, pend, hint, free, popped>>
                     /\ \E s \in Subs : sid[s] = Ev.id /\ fowe[s] = what /\ fowe' = [fowe EXCEPT ![s] = ""]
TFwdGot == FOwed("batcher.fwd.got", "got")                          \* the forwarder took a value from its buffer
TFwdExit == FOwed("batcher.fwd.exit", "exit")                       \* ... saw its context or closeCh done
TFwdUnregd == FOwed("batcher.fwd.exit.unregistered", "unregd")      \* ... closed the subscriber's channel and unregistered
COwed(name, what) == /\ Is(name) /\ UNCHANGED <<vars, open, fowe, eann, xann, pend, hint, free, popped>>
                     /\ \E c \in Clients : cowe[c] = what /\ cowe' = [cowe EXCEPT ![c] = ""]
TEnqEnter == COwed("queue.enqueue.enter", "enq")                    \* Batch found the processor not stopped
TAfterQueue == COwed("batcher.close.afterQueue", "aq")              \* Close: queue.Close() has returned
(* the processor is about to pop (it does not if the head changed meanwhile) *)
TExecEnter == /\ Is("queue.exec.enter") /\ epc = "idle" /\ eann' = TRUE /\ UNCHANGED <<vars, open, cowe, fowe, xann, pend, hint, free, popped>>
(* execute (holding the lock) is about to select on the subscriber at its current position *)
TExecNext == /\ Is("batcher.exec.next") /\ UNCHANGED <<vars, open, cowe, fowe, eann, pend, hint, free, popped>>
             /\ epc = "loop" /\ ~xann /\ eidx <= Len(eventChs) /\ sid[eventChs[eidx]] = Ev.id /\ xann' = TRUE

(* ---- the model's steps ---- *)
Silent == /\ HasNext /\ Keep /\ UNCHANGED <<open, hint, free>>
          /\ \/ /\ UNCHANGED <<cowe, fowe, eann, xann, pend, popped>>
                /\ \/ EStart \/ EEnd
                   \/ \E c \in Clients : \/ Subscribe(c) \/ (BCheck(c) /\ cpc'[c] = "idle") \/ (BIns(c) /\ cowe[c] = "")
                                         \/ CloseStop(c) \/ (CloseLock(c) /\ cowe[c] = "") \/ CloseWait(c)
             \/ \E c \in Clients : /\ UNCHANGED <<fowe, eann, xann, pend, popped>>
                                   /\ \/ BCheck(c) /\ cpc'[c] = "enq" /\ cowe' = [cowe EXCEPT ![c] = "enq"]
                                      \/ CloseQueue(c) /\ cowe' = [cowe EXCEPT ![c] = "aq"]
             \/ /\ EPop /\ eann /\ eann' = FALSE /\ UNCHANGED <<cowe, fowe, xann, pend>>
                /\ hint[eval'] \subseteq popped /\ popped' = popped \cup {eval'}
                /\ eval' \in free => \A x \in q' : (x.v \in free /\ x.due - now < Early) => LET it == CHOOSE y \in q : y.v = eval'
                                                                                          IN it.due < x.due \/ (it.due = x.due /\ it.v < x.v)
             \/ ESend /\ xann /\ xann' = FALSE /\ UNCHANGED <<cowe, fowe, eann, pend, popped>>
             \/ \E s \in Subs : /\ fowe[s] = "" /\ UNCHANGED <<cowe, eann, xann, popped>>
                                /\ \/ FwdWait(s) /\ fowe' = [fowe EXCEPT ![s] = IF fpc'[s] = "got" THEN "got" ELSE "exit"] /\ UNCHANGED pend
                                   \/ FwdGot(s) /\ recvd' = recvd /\ UNCHANGED <<fowe, pend>>             \* value dropped
                                   \/ FwdGot(s) /\ recvd' # recvd /\ pend[s] = 0                         \* handed to the reader; its recv record follows
                                      /\ pend' = [pend EXCEPT ![s] = hand[s]] /\ UNCHANGED fowe
                                   \/ (FwdDepart(s) \/ FwdDone(s)) /\ UNCHANGED <<fowe, pend>>
                                   \/ FwdUnreg(s) /\ fowe' = [fowe EXCEPT ![s] = "unregd"] /\ UNCHANGED pend

(* ---- nothing can move: the model's view of a quiescent point ---- *)
FwdBlocked(s) == /\ fowe[s] = "" /\ pend[s] = 0
                 /\ \/ fpc[s] \in {"none", "done"}
                    \/ fpc[s] = "wait" /\ ~ctxDone[s] /\ ~closeCh /\ buf[s] = <<>>
                    \/ fpc[s] = "got" /\ ~ctxDone[s] /\ ~closeCh /\ ~rdy[s]
                    \/ fpc[s] = "unreg" /\ lock # 0
(* the processor's timer has certainly fired for an item whose time has come *)
ExecBlocked == \/ epc = "idle" /\ (qstop \/ \A it \in q : it.due > now)
               \/ epc = "loop" /\ xann /\ eidx <= Len(eventChs) /\ ~closeCh
                  /\ LET s == eventChs[eidx] IN ~depart[s] /\ Len(buf[s]) >= B
ClientBlocked(c) == /\ cowe[c] = ""
                    /\ \/ cpc[c] = "idle"
                       \/ cpc[c] \in {"sub", "clock"} /\ lock # 0
                       \/ cpc[c] = "cq" /\ epc # "idle"
                       \/ cpc[c] = "cwait" /\ wg # 0
TQuiescent == /\ Is("quiescent") /\ UNCHANGED <<vars, aux>>
              /\ \A c \in Clients : cpc[c] = "idle" /\ cowe[c] = ""
              /\ \A s \in Subs : FwdBlocked(s)
              /\ ExecBlocked
TStuck == /\ Is("stuck") /\ UNCHANGED <<vars, aux>>
          /\ \A c \in Clients : ClientBlocked(c)
          /\ \A s \in Subs : FwdBlocked(s)
          /\ ExecBlocked
          /\ Cardinality({c \in Clients : cpc[c] # "idle"}) = Ev.n
(* the processor's loop is abstracted (queue.loop.signals); reader.take is a harness gate; lateclosed is a probe after the end *)
TIgnore == /\ HasNext /\ Ev.ev \in {"reader.take", "queue.loop.signals", "lateclosed", "leftopen"} /\ Eat /\ UNCHANGED <<vars, aux>>

TNext == TSubCall \/ TBatchCall \/ TCloseCall \/ TRet \/ TCancel \/ TRWait \/ TAdv \/ TRecv \/ TFwdGot \/ TFwdExit \/ TFwdUnregd
         \/ TEnqEnter \/ TAfterQueue \/ TExecEnter \/ TExecNext \/ Silent \/ TQuiescent \/ TStuck \/ TIgnore
TSpec == TInit /\ [][TNext]_tvars
Done == IF l = Trace[tr].end THEN PrintT(<<"DONE", tr>>) ELSE TRUE
=============================================================================
