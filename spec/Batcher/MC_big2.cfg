SPECIFICATION Spec
CONSTANTS NSubs = 2 B = 2 Progs <- ProgsSPt Interval = 6 MaxNow = 2 DepartFix = TRUE
INVARIANTS CommonOrder ChannelsClosedAtReturn
PROPERTIES QuietAfterClose CloseReturns
CHECK_DEADLOCK FALSE
