SPECIFICATION Spec
CONSTANTS NSubs = 2 B = 2 Progs <- ProgsSPt Interval = 6 MaxNow = 2 DepartFix = TRUE SkipEndedSubscriber = FALSE
INVARIANTS CommonOrder ChannelsClosedAtReturn
PROPERTIES QuietAfterClose CloseReturns DepartedClosed
CHECK_DEADLOCK FALSE
