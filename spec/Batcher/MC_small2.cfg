SPECIFICATION Spec
CONSTANTS NSubs = 2 B = 1 Progs <- ProgsSP2 Interval = 0 MaxNow = 0 DepartFix = TRUE SkipEndedSubscriber = FALSE
INVARIANTS CommonOrder ChannelsClosedAtReturn
PROPERTIES QuietAfterClose CloseReturns
CHECK_DEADLOCK FALSE
