------------------------------- MODULE Batcher -------------------------------
(* Implementation-shaped model of events/batcher/batcher.go.  The queue       *)
(* Processor is abstracted to its contract (C06): Enqueue replaces the        *)
(* pending item of the key (and is dropped once the processor was told to     *)
(* stop), the processor calls execute for one due item at a time, and         *)
(* queue.Close() returns only when no execute runs and none will.  execute    *)
(* holds b.lock across its (possibly blocking) sends.                         *)
(* Clients run operations: in the exhaustive configurations they come from    *)
(* the constant Progs (Start), in trace validation from the recorded call     *)
(* events (Begin) - the operation in progress is cop[c].  Time is in ticks of *)
(* 100 µs.                                                                    *)
EXTENDS Integers, Sequences, FiniteSets, TLC

CONSTANTS NSubs,            \* subscribers are numbered 1..NSubs by their callers
          B,                \* per-subscriber buffer capacity (50 in the code)
          Progs,            \* Progs[c]: the operations of client c: [op |-> "sub", s, kind] | [op |-> "batch", key] | [op |-> "close"]
          Interval, MaxNow, \* the batching interval; clock bound of the exhaustive configurations
          DepartFix,        \* TRUE: repaired code - a departing forwarder signals a per-subscriber channel before taking the lock
          SkipEndedSubscriber  \* TRUE: defective variant - Subscribe does not register a subscriber whose context has already ended

Subs == 1..NSubs
Clients == 1..Len(Progs)
Early == 5                  \* the processor runs an item whose time is less than 0.5 ms away

VARIABLES lock,             \* 0 free, 1 held by execute
          closeCh, closed, wg, eventChs, nextId,
          qstop, qclosed,   \* the processor was told to stop / queue.Close() has returned
          q,                \* the processor's pending items [key, v, due]
          now,
          sst,              \* subscriber: "unsub" | "active" | "dropped" (batcher closed) | "skipped" (defective variant)
          sid,              \* its internal id (-1: none), assigned in lock order
          kind,             \* its reader: "prompt" (always takes) | "stalled" (never) | "gated" (takes when rdy)
          rdy,              \* the reader is waiting on its channel
          buf, depart, ctxDone, fpc, hand, recvd, chClosed,
          epc, eidx, eval, order,
          cpc, cip, cop,    \* client: pc within the current op, index of the current op, the op in progress
          nextV,
          closeRet          \* some Close call has returned
vars == <<lock, closeCh, closed, wg, eventChs, nextId, qstop, qclosed, q, now, sst, sid, kind, rdy, buf, depart, ctxDone, fpc, hand,
          recvd, chClosed, epc, eidx, eval, order, cpc, cip, cop, nextV, closeRet>>

NoOp == [op |-> "none", s |-> 0, kind |-> "", key |-> "", v |-> 0, due |-> 0]
CurOp(c) == Progs[c][cip[c]]
HasOp(c) == cip[c] <= Len(Progs[c])

Init == /\ lock = 0 /\ closeCh = FALSE /\ closed = FALSE /\ wg = 0 /\ eventChs = <<>> /\ nextId = 0
        /\ qstop = FALSE /\ qclosed = FALSE /\ q = {} /\ now = 0
        /\ sst = [s \in Subs |-> "unsub"] /\ sid = [s \in Subs |-> -1] /\ kind = [s \in Subs |-> "stalled"]
        /\ rdy = [s \in Subs |-> FALSE]
        /\ buf = [s \in Subs |-> <<>>] /\ depart = [s \in Subs |-> FALSE]
        /\ ctxDone = [s \in Subs |-> FALSE] /\ fpc = [s \in Subs |-> "none"] /\ hand = [s \in Subs |-> 0]
        /\ recvd = [s \in Subs |-> <<>>] /\ chClosed = [s \in Subs |-> FALSE]
        /\ epc = "idle" /\ eidx = 0 /\ eval = 0 /\ order = <<>>
        /\ cpc = [c \in Clients |-> "idle"] /\ cip = [c \in Clients |-> 1] /\ cop = [c \in Clients |-> NoOp]
        /\ nextV = 1 /\ closeRet = FALSE

Remove(seq, x) == SelectSeq(seq, LAMBDA y : y # x)

(* ---- clients: the call ---- *)
Begin(c, o) == /\ cpc[c] = "idle"
               /\ cop' = [cop EXCEPT ![c] = o]
               /\ cpc' = [cpc EXCEPT ![c] = o.op]
               /\ IF o.op = "sub" THEN /\ kind' = [kind EXCEPT ![o.s] = o.kind]
                                       /\ rdy' = [rdy EXCEPT ![o.s] = @ \/ o.kind = "prompt"]
                                  ELSE UNCHANGED <<kind, rdy>>
               /\ UNCHANGED <<lock, closeCh, closed, wg, eventChs, nextId, qstop, qclosed, q, now, sst, sid, buf, depart, ctxDone, fpc, hand,
                              recvd, chClosed, epc, eidx, eval, order, cip, closeRet>>
Start(c) == /\ HasOp(c)
            /\ LET o == CurOp(c) IN
               /\ Begin(c, [op |-> o.op, s |-> IF o.op = "sub" THEN o.s ELSE 0, kind |-> IF o.op = "sub" THEN o.kind ELSE "",
                            key |-> IF o.op = "batch" THEN o.key ELSE "", v |-> IF o.op = "batch" THEN nextV ELSE 0,
                            due |-> IF o.op = "batch" THEN now + Interval ELSE 0])         \* Batch reads the clock first
               /\ nextV' = IF o.op = "batch" THEN nextV + 1 ELSE nextV
Finish(c) == /\ cpc' = [cpc EXCEPT ![c] = "idle"] /\ cip' = [cip EXCEPT ![c] = @ + 1] /\ cop' = [cop EXCEPT ![c] = NoOp]

Subscribe(c) == /\ cpc[c] = "sub" /\ lock = 0                                   \* batcher.go:66-112 (never blocks inside: one step)
                /\ LET s == cop[c].s IN
                   IF closed THEN /\ sst' = [sst EXCEPT ![s] = "dropped"] /\ UNCHANGED <<eventChs, wg, fpc, sid, nextId>>
                   ELSE IF SkipEndedSubscriber /\ ctxDone[s]
                             THEN /\ sst' = [sst EXCEPT ![s] = "skipped"] /\ UNCHANGED <<eventChs, wg, fpc, sid, nextId>>
                             \* a subscriber whose context has already ended is registered like any other: its forwarder
                             \* sees the context done, closes the subscriber's channel and unregisters
                             ELSE /\ eventChs' = Append(eventChs, s) /\ wg' = wg + 1
                                  /\ sid' = [sid EXCEPT ![s] = nextId] /\ nextId' = nextId + 1
                                  /\ fpc' = [fpc EXCEPT ![s] = "wait"] /\ sst' = [sst EXCEPT ![s] = "active"]
                /\ Finish(c)
                /\ UNCHANGED <<lock, closeCh, closed, qstop, qclosed, q, now, kind, rdy, buf, depart, ctxDone, hand, recvd, chClosed,
                               epc, eidx, eval, order, nextV, closeRet>>
(* the subscriber's context ends: possible as soon as its Subscribe call was issued *)
Cancel(s) == /\ ctxDone' = [ctxDone EXCEPT ![s] = TRUE]
             /\ UNCHANGED <<lock, closeCh, closed, wg, eventChs, nextId, qstop, qclosed, q, now, sst, sid, kind, rdy, buf, depart, fpc, hand,
                            recvd, chClosed, epc, eidx, eval, order, cpc, cip, cop, nextV, closeRet>>
(* a gated reader starts waiting on its channel *)
RWait(s) == /\ rdy' = [rdy EXCEPT ![s] = TRUE]
            /\ UNCHANGED <<lock, closeCh, closed, wg, eventChs, nextId, qstop, qclosed, q, now, sst, sid, kind, buf, depart, ctxDone, fpc, hand,
                           recvd, chClosed, epc, eidx, eval, order, cpc, cip, cop, nextV, closeRet>>
SetNow(t) == /\ now' = t
             /\ UNCHANGED <<lock, closeCh, closed, wg, eventChs, nextId, qstop, qclosed, q, sst, sid, kind, rdy, buf, depart, ctxDone, fpc, hand,
                            recvd, chClosed, epc, eidx, eval, order, cpc, cip, cop, nextV, closeRet>>
Advance == now < MaxNow /\ SetNow(now + 1)

(* Batch -> queue.Enqueue - batcher.go:131-137, processor.go:57-73 *)
BCheck(c) == /\ cpc[c] = "batch"
             /\ IF qstop THEN Finish(c) ELSE cpc' = [cpc EXCEPT ![c] = "enq"] /\ UNCHANGED <<cip, cop>>
             /\ UNCHANGED <<lock, closeCh, closed, wg, eventChs, nextId, qstop, qclosed, q, now, sst, sid, kind, rdy, buf, depart, ctxDone, fpc, hand,
                            recvd, chClosed, epc, eidx, eval, order, nextV, closeRet>>
BIns(c) == /\ cpc[c] = "enq"
           /\ q' = {x \in q : x.key # cop[c].key} \cup {[key |-> cop[c].key, v |-> cop[c].v, due |-> cop[c].due]}
           /\ Finish(c)
           /\ UNCHANGED <<lock, closeCh, closed, wg, eventChs, nextId, qstop, qclosed, now, sst, sid, kind, rdy, buf, depart, ctxDone, fpc, hand,
                          recvd, chClosed, epc, eidx, eval, order, nextV, closeRet>>

(* forwarder goroutine - batcher.go:84-123; Go's select takes any ready arm *)
FwdWait(s) == /\ fpc[s] = "wait"
              /\ \/ (ctxDone[s] \/ closeCh) /\ fpc' = [fpc EXCEPT ![s] = "exit"] /\ UNCHANGED <<buf, hand>>
                 \/ buf[s] # <<>> /\ hand' = [hand EXCEPT ![s] = Head(buf[s])] /\ buf' = [buf EXCEPT ![s] = Tail(@)]
                    /\ fpc' = [fpc EXCEPT ![s] = "got"]
              /\ UNCHANGED <<lock, closeCh, closed, wg, eventChs, nextId, qstop, qclosed, q, now, sst, sid, kind, rdy, depart, ctxDone, recvd,
                             chClosed, epc, eidx, eval, order, cpc, cip, cop, nextV, closeRet>>
FwdGot(s) == /\ fpc[s] = "got"                                                       \* inner select: ch <- env | ctx | closeCh, then loop
             /\ \/ (ctxDone[s] \/ closeCh) /\ fpc' = [fpc EXCEPT ![s] = "wait"] /\ UNCHANGED <<recvd, rdy>>    \* value dropped
                \/ /\ rdy[s] /\ recvd' = [recvd EXCEPT ![s] = Append(@, hand[s])] /\ fpc' = [fpc EXCEPT ![s] = "wait"]
                   /\ rdy' = [rdy EXCEPT ![s] = (kind[s] = "prompt")]
             /\ UNCHANGED <<lock, closeCh, closed, wg, eventChs, nextId, qstop, qclosed, q, now, sst, sid, kind, buf, depart, ctxDone, hand,
                            chClosed, epc, eidx, eval, order, cpc, cip, cop, nextV, closeRet>>
FwdDepart(s) == /\ DepartFix /\ fpc[s] = "exit" /\ depart' = [depart EXCEPT ![s] = TRUE] /\ fpc' = [fpc EXCEPT ![s] = "unreg"]
                /\ UNCHANGED <<lock, closeCh, closed, wg, eventChs, nextId, qstop, qclosed, q, now, sst, sid, kind, rdy, buf, ctxDone, hand, recvd,
                               chClosed, epc, eidx, eval, order, cpc, cip, cop, nextV, closeRet>>
FwdUnreg(s) == /\ fpc[s] = (IF DepartFix THEN "unreg" ELSE "exit") /\ lock = 0      \* lock; close(ch); remove; unlock
               /\ chClosed' = [chClosed EXCEPT ![s] = TRUE]
               /\ eventChs' = Remove(eventChs, s) /\ fpc' = [fpc EXCEPT ![s] = "unregd"]
               /\ UNCHANGED <<lock, closeCh, closed, wg, nextId, qstop, qclosed, q, now, sst, sid, kind, rdy, buf, depart, ctxDone, hand, recvd,
                              epc, eidx, eval, order, cpc, cip, cop, nextV, closeRet>>
FwdDone(s) == /\ fpc[s] = "unregd" /\ wg' = wg - 1 /\ fpc' = [fpc EXCEPT ![s] = "done"]        \* wg.Done
              /\ UNCHANGED <<lock, closeCh, closed, eventChs, nextId, qstop, qclosed, q, now, sst, sid, kind, rdy, buf, depart, ctxDone, hand, recvd,
                             chClosed, epc, eidx, eval, order, cpc, cip, cop, nextV, closeRet>>

(* the processor: pops a due item and calls execute; the value goes to the subscribers registered when execute takes the
   lock (eventChs then), whether or not they were there when it was batched - processor.go:220-240, batcher.go:125-139 *)
EPop == /\ epc = "idle" /\ ~qclosed
        /\ \E it \in q : /\ it.due - now < Early
                         /\ q' = q \ {it} /\ eval' = it.v
        /\ epc' = "exec"
        /\ UNCHANGED <<lock, closeCh, closed, wg, eventChs, nextId, qstop, qclosed, now, sst, sid, kind, rdy, buf, depart, ctxDone, fpc, hand,
                       recvd, chClosed, eidx, order, cpc, cip, cop, nextV, closeRet>>
EStart == /\ epc = "exec" /\ lock = 0
          /\ IF closed THEN /\ epc' = "idle" /\ UNCHANGED <<lock, eidx, order>>
                       ELSE /\ lock' = 1 /\ epc' = "loop" /\ eidx' = 1 /\ order' = Append(order, eval)
          /\ UNCHANGED <<closeCh, closed, wg, eventChs, nextId, qstop, qclosed, q, now, sst, sid, kind, rdy, buf, depart, ctxDone, fpc, hand,
                         recvd, chClosed, eval, cpc, cip, cop, nextV, closeRet>>
ESend == /\ epc = "loop" /\ eidx <= Len(eventChs)
         /\ LET s == eventChs[eidx] IN
            \/ closeCh /\ UNCHANGED buf
            \/ DepartFix /\ depart[s] /\ UNCHANGED buf
            \/ Len(buf[s]) < B /\ buf' = [buf EXCEPT ![s] = Append(@, eval)]
         /\ eidx' = eidx + 1
         /\ UNCHANGED <<lock, closeCh, closed, wg, eventChs, nextId, qstop, qclosed, q, now, sst, sid, kind, rdy, depart, ctxDone, fpc, hand,
                        recvd, chClosed, epc, eval, order, cpc, cip, cop, nextV, closeRet>>
EEnd == /\ epc = "loop" /\ eidx > Len(eventChs) /\ lock' = 0 /\ epc' = "idle"
        /\ UNCHANGED <<closeCh, closed, wg, eventChs, nextId, qstop, qclosed, q, now, sst, sid, kind, rdy, buf, depart, ctxDone, fpc, hand,
                       recvd, chClosed, eidx, eval, order, cpc, cip, cop, nextV, closeRet>>

(* Close - batcher.go:153-162 *)
CloseStop(c) == /\ cpc[c] = "close" /\ qstop' = TRUE /\ cpc' = [cpc EXCEPT ![c] = "cq"]       \* queue.Close(): stopped := true ...
                /\ UNCHANGED <<lock, closeCh, closed, wg, eventChs, nextId, qclosed, q, now, sst, sid, kind, rdy, buf, depart, ctxDone, fpc, hand,
                               recvd, chClosed, epc, eidx, eval, order, cip, cop, nextV, closeRet>>
CloseQueue(c) == /\ cpc[c] = "cq" /\ epc = "idle" /\ qclosed' = TRUE /\ cpc' = [cpc EXCEPT ![c] = "clock"]    \* ... and waits for a running execute
                 /\ UNCHANGED <<lock, closeCh, closed, wg, eventChs, nextId, qstop, q, now, sst, sid, kind, rdy, buf, depart, ctxDone, fpc, hand,
                                recvd, chClosed, epc, eidx, eval, order, cip, cop, nextV, closeRet>>
CloseLock(c) == /\ cpc[c] = "clock" /\ lock = 0 /\ closed' = TRUE /\ closeCh' = TRUE /\ cpc' = [cpc EXCEPT ![c] = "cwait"]
                /\ UNCHANGED <<lock, wg, eventChs, nextId, qstop, qclosed, q, now, sst, sid, kind, rdy, buf, depart, ctxDone, fpc, hand,
                               recvd, chClosed, epc, eidx, eval, order, cip, cop, nextV, closeRet>>
CloseWait(c) == /\ cpc[c] = "cwait" /\ wg = 0 /\ Finish(c) /\ closeRet' = TRUE
                /\ UNCHANGED <<lock, closeCh, closed, wg, eventChs, nextId, qstop, qclosed, q, now, sst, sid, kind, rdy, buf, depart, ctxDone, fpc, hand,
                               recvd, chClosed, epc, eidx, eval, order, nextV>>

FwdStep == \E s \in Subs : FwdWait(s) \/ FwdGot(s) \/ FwdDepart(s) \/ FwdUnreg(s) \/ FwdDone(s)
ExecStep == EPop \/ EStart \/ ESend \/ EEnd
OpStep(c) == Subscribe(c) \/ BCheck(c) \/ BIns(c) \/ CloseStop(c) \/ CloseQueue(c) \/ CloseLock(c) \/ CloseWait(c)
Internal == FwdStep \/ ExecStep \/ \E c \in Clients : Start(c) \/ OpStep(c)
Called(s) == sst[s] = "active" \/ \E c \in Clients : cop[c].op = "sub" /\ cop[c].s = s
CancelSub(s) == Called(s) /\ ~ctxDone[s] /\ Cancel(s)
Env == \/ \E s \in Subs : CancelSub(s) \/ (kind[s] = "gated" /\ ~rdy[s] /\ RWait(s))
       \/ Advance
(* Begin only touches the caller's own state: a call that starts as soon as the previous one returned loses no behaviour. *)
(* The exhaustive configurations without a clock (a Batch call reads the clock first) use that to save states.             *)
Eager == MaxNow = 0 /\ \E c \in Clients : cpc[c] = "idle" /\ HasOp(c)
Next == IF Eager THEN \E c \in Clients : Start(c) ELSE Internal \/ Env
(* fairness: the component's goroutines and the callers keep going, time passes, and a stalled subscriber eventually leaves *)
Spec == Init /\ [][Next]_vars /\ WF_vars(Internal) /\ WF_vars(Advance)
             /\ \A t \in Subs : WF_vars(kind[t] = "stalled" /\ CancelSub(t))

IsSubseq(a, b) == \E f \in [1..Len(a) -> 1..Len(b)] : (\A i \in 1..Len(a) : b[f[i]] = a[i]) /\ (\A i, j \in 1..Len(a) : i < j => f[i] < f[j])
CommonOrder == \A s \in Subs : IsSubseq(recvd[s], order)
(* every channel handed to Subscribe while the batcher was open is closed when Close returns ... *)
Accepted(s) == sst[s] \in {"active", "skipped"}
ChannelsClosedAtReturn == closeRet => \A s \in Subs : Accepted(s) => chClosed[s]
(* ... and once its subscriber's context has ended *)
DepartedClosed == \A s \in Subs : (Accepted(s) /\ ctxDone[s]) ~> chClosed[s]
QuietAfterClose == [][closeRet => recvd' = recvd]_vars
(* a departed subscriber never wedges delivery or Close *)
CloseReturns == <>closeRet
=============================================================================
