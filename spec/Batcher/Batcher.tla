------------------------------- MODULE Batcher -------------------------------
(* Implementation-shaped model of events/batcher/batcher.go.  The queue       *)
(* Processor is abstracted to its contract (C06): it calls execute for one    *)
(* due item at a time, and queue.Close() returns only when no execute runs    *)
(* and none will.  execute holds b.lock across its (possibly blocking) sends. *)
EXTENDS Integers, Sequences, FiniteSets, TLC

CONSTANTS NSubs, Kinds,     \* Kinds[s] \in {"prompt", "stalled"}
          B,                \* per-subscriber buffer capacity (50 in the code)
          NVals,            \* number of due items the processor will execute
          DepartFix         \* TRUE: repaired code - a departing forwarder signals a per-subscriber channel before taking the lock

Subs == 1..NSubs

VARIABLES lock,             \* 0 free, 1 held by execute
          closeCh, closed, qclosed, wg, eventChs,
          sst, buf, depart, ctxDone, fpc, hand, recvd, chClosed,
          epc, eidx, eval, nextV, order,
          cpc
vars == <<lock, closeCh, closed, qclosed, wg, eventChs, sst, buf, depart, ctxDone, fpc, hand, recvd, chClosed, epc, eidx, eval, nextV, order, cpc>>

Init == /\ lock = 0 /\ closeCh = FALSE /\ closed = FALSE /\ qclosed = FALSE /\ wg = 0 /\ eventChs = <<>>
        /\ sst = [s \in Subs |-> "unsub"] /\ buf = [s \in Subs |-> <<>>] /\ depart = [s \in Subs |-> FALSE]
        /\ ctxDone = [s \in Subs |-> FALSE] /\ fpc = [s \in Subs |-> "none"] /\ hand = [s \in Subs |-> 0]
        /\ recvd = [s \in Subs |-> <<>>] /\ chClosed = [s \in Subs |-> FALSE]
        /\ epc = "idle" /\ eidx = 0 /\ eval = 0 /\ nextV = 1 /\ order = <<>> /\ cpc = "idle"

Remove(seq, x) == SelectSeq(seq, LAMBDA y : y # x)

Subscribe(s) == /\ sst[s] = "unsub" /\ lock = 0                                   \* batcher.go:66-112
                /\ IF closed THEN UNCHANGED <<eventChs, wg, fpc>> /\ sst' = [sst EXCEPT ![s] = "dropped"]
                             ELSE /\ eventChs' = Append(eventChs, s) /\ wg' = wg + 1
                                  /\ fpc' = [fpc EXCEPT ![s] = "wait"] /\ sst' = [sst EXCEPT ![s] = "active"]
                /\ UNCHANGED <<lock, closeCh, closed, qclosed, buf, depart, ctxDone, hand, recvd, chClosed, epc, eidx, eval, nextV, order, cpc>>
Cancel(s) == /\ sst[s] = "active" /\ ~ctxDone[s] /\ ctxDone' = [ctxDone EXCEPT ![s] = TRUE]
             /\ UNCHANGED <<lock, closeCh, closed, qclosed, wg, eventChs, sst, buf, depart, fpc, hand, recvd, chClosed, epc, eidx, eval, nextV, order, cpc>>

(* forwarder goroutine - batcher.go:84-111 *)
FwdWait(s) == /\ fpc[s] = "wait"
              /\ \/ (ctxDone[s] \/ closeCh) /\ fpc' = [fpc EXCEPT ![s] = "exit"] /\ UNCHANGED <<buf, hand>>
                 \/ buf[s] # <<>> /\ hand' = [hand EXCEPT ![s] = Head(buf[s])] /\ buf' = [buf EXCEPT ![s] = Tail(@)]
                    /\ fpc' = [fpc EXCEPT ![s] = "got"]
              /\ UNCHANGED <<lock, closeCh, closed, qclosed, wg, eventChs, sst, depart, ctxDone, recvd, chClosed, epc, eidx, eval, nextV, order, cpc>>
FwdGot(s) == /\ fpc[s] = "got"                                                       \* inner select: ch <- env | ctx | closeCh, then loop
             /\ \/ (ctxDone[s] \/ closeCh) /\ fpc' = [fpc EXCEPT ![s] = "wait"] /\ UNCHANGED recvd    \* value dropped
                \/ Kinds[s] = "prompt" /\ recvd' = [recvd EXCEPT ![s] = Append(@, hand[s])] /\ fpc' = [fpc EXCEPT ![s] = "wait"]
             /\ UNCHANGED <<lock, closeCh, closed, qclosed, wg, eventChs, sst, buf, depart, ctxDone, hand, chClosed, epc, eidx, eval, nextV, order, cpc>>
FwdDepart(s) == /\ DepartFix /\ fpc[s] = "exit" /\ depart' = [depart EXCEPT ![s] = TRUE] /\ fpc' = [fpc EXCEPT ![s] = "unreg"]
                /\ UNCHANGED <<lock, closeCh, closed, qclosed, wg, eventChs, sst, buf, ctxDone, hand, recvd, chClosed, epc, eidx, eval, nextV, order, cpc>>
FwdUnreg(s) == /\ fpc[s] = (IF DepartFix THEN "unreg" ELSE "exit") /\ lock = 0      \* :86-96 lock; close(ch); remove; unlock; wg.Done
               /\ chClosed' = [chClosed EXCEPT ![s] = TRUE]
               /\ eventChs' = Remove(eventChs, s) /\ wg' = wg - 1 /\ fpc' = [fpc EXCEPT ![s] = "done"]
               /\ UNCHANGED <<lock, closeCh, closed, qclosed, sst, buf, depart, ctxDone, hand, recvd, epc, eidx, eval, nextV, order, cpc>>

(* execute, called by the processor for one due item - batcher.go:114-126 *)
EStart == /\ epc = "idle" /\ nextV <= NVals /\ ~qclosed /\ lock = 0
          /\ IF closed THEN /\ nextV' = nextV + 1 /\ UNCHANGED <<lock, epc, eidx, eval, order>>
                       ELSE /\ lock' = 1 /\ epc' = "loop" /\ eidx' = 1 /\ eval' = nextV /\ nextV' = nextV + 1
                            /\ order' = Append(order, nextV)
          /\ UNCHANGED <<closeCh, closed, qclosed, wg, eventChs, sst, buf, depart, ctxDone, fpc, hand, recvd, chClosed, cpc>>
ESend == /\ epc = "loop" /\ eidx <= Len(eventChs)
         /\ LET s == eventChs[eidx] IN
            \/ closeCh /\ UNCHANGED buf
            \/ DepartFix /\ depart[s] /\ UNCHANGED buf
            \/ Len(buf[s]) < B /\ buf' = [buf EXCEPT ![s] = Append(@, eval)]
         /\ eidx' = eidx + 1
         /\ UNCHANGED <<lock, closeCh, closed, qclosed, wg, eventChs, sst, depart, ctxDone, fpc, hand, recvd, chClosed, epc, eval, nextV, order, cpc>>
EEnd == /\ epc = "loop" /\ eidx > Len(eventChs) /\ lock' = 0 /\ epc' = "idle"
        /\ UNCHANGED <<closeCh, closed, qclosed, wg, eventChs, sst, buf, depart, ctxDone, fpc, hand, recvd, chClosed, eidx, eval, nextV, order, cpc>>

(* Close - batcher.go:142-150 *)
CloseQueue == /\ cpc = "idle" /\ epc = "idle" /\ qclosed' = TRUE /\ cpc' = "locking"    \* queue.Close(): waits for a running execute
              /\ UNCHANGED <<lock, closeCh, closed, wg, eventChs, sst, buf, depart, ctxDone, fpc, hand, recvd, chClosed, epc, eidx, eval, nextV, order>>
CloseLock == /\ cpc = "locking" /\ lock = 0 /\ closed' = TRUE /\ closeCh' = TRUE /\ cpc' = "wait"
             /\ UNCHANGED <<lock, qclosed, wg, eventChs, sst, buf, depart, ctxDone, fpc, hand, recvd, chClosed, epc, eidx, eval, nextV, order>>
CloseWait == /\ cpc = "wait" /\ wg = 0 /\ cpc' = "done"
             /\ UNCHANGED <<lock, closeCh, closed, qclosed, wg, eventChs, sst, buf, depart, ctxDone, fpc, hand, recvd, chClosed, epc, eidx, eval, nextV, order>>

Internal == \/ \E s \in Subs : FwdWait(s) \/ FwdGot(s) \/ FwdDepart(s) \/ FwdUnreg(s)
            \/ EStart \/ ESend \/ EEnd \/ CloseQueue \/ CloseLock \/ CloseWait
Stalled == {s \in Subs : Kinds[s] = "stalled"}
Next == Internal \/ \E s \in Subs : Subscribe(s) \/ Cancel(s)
(* fairness: the component's goroutines keep going, everybody subscribes, and a stalled subscriber eventually leaves *)
Spec == Init /\ [][Next]_vars /\ WF_vars(Internal) /\ (\A s \in Subs : WF_vars(Subscribe(s))) /\ (\A t \in Stalled : WF_vars(Cancel(t)))

IsSubseq(a, b) == \E f \in [1..Len(a) -> 1..Len(b)] : (\A i \in 1..Len(a) : b[f[i]] = a[i]) /\ (\A i, j \in 1..Len(a) : i < j => f[i] < f[j])
CommonOrder == \A s \in Subs : IsSubseq(recvd[s], order)
ChannelsClosedAtReturn == cpc = "done" => \A s \in Subs : sst[s] = "active" => chClosed[s]
QuietAfterClose == [][cpc = "done" => recvd' = recvd]_vars
(* a departed subscriber never wedges delivery or Close *)
CloseReturns == <>(cpc = "done")
=============================================================================
