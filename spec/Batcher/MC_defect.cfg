SPECIFICATION Spec
CONSTANTS NSubs = 2 Kinds <- KindsSP B = 1 NVals = 3 DepartFix = FALSE
INVARIANTS CommonOrder ChannelsClosedAtReturn
PROPERTIES QuietAfterClose CloseReturns
CHECK_DEADLOCK FALSE
