SPECIFICATION TSpec
CONSTANTS
  NSubs = 4
  B = 50
  Progs <- ProgsTrace
  Interval = 10
  MaxNow = 0
  DepartFix = TRUE SkipEndedSubscriber = FALSE
CONSTRAINT Done
CHECK_DEADLOCK FALSE
