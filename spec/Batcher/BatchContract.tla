---------------------------- MODULE BatchContract ----------------------------
(* C10 - the Batcher as seen by its users: a deterministic monitor over       *)
(*   sub_call {s,kind} / sub_ret {s} / cancel {s}                              *)
(*        kind: how the reader behaves - prompt | slow | stalled | late (stays   *)
(*        away until the end of the run, then reads everything)                 *)
(*   batch_call {n,key,due} / batch_ret {n}   Batch call n (its value is n);   *)
(*                                  due = clock at the call + interval (ticks) *)
(*   adv {now}                      the clock was moved                        *)
(*   rwait {s} / recv {s,v}         a reader starts waiting / received value v *)
(*   close_call / close_ret {open}  open: subscribers (subscribed before the   *)
(*                                  call) whose channel was not closed when    *)
(*                                  Close returned                             *)
(*   quiescent {final} / stuck {n}  as in BcastContract                        *)
(*   leftopen {s}                   end of run (everything at rest): the channel *)
(*                                  of subscriber s, whose context has ended,   *)
(*                                  is not closed                               *)
(*   lateclosed {s}                 end of run: the channel of subscriber s -   *)
(*                                  whose Subscribe overlapped Close - was open  *)
(*                                  when Close returned and is closed now: it    *)
(*                                  had been accepted, so Close returned early  *)
(* Ticks are 100 µs; the processor may run an item up to 5 ticks early.       *)
(* Who must receive a value is decided when it is delivered, not when it is    *)
(* batched: every subscriber whose Subscribe had returned before the clock     *)
(* step that let the value fall due (and who stays) - also one that joined     *)
(* after the Batch call.                                                        *)
EXTENDS Integers, Sequences, FiniteSets, TLC

Early == 5
Bad(why) == [bad |-> TRUE, why |-> why]
IsBad(c) == c.bad
CReset == [bad |-> FALSE, why |-> "", subs |-> << >>, bs |-> << >>, before |-> {}, now |-> 0,
           closeCalled |-> FALSE, closeRet |-> FALSE]

(* `before` is kept transitively closed.  Adding "every x in X precedes v": *)
AddBefore(R, X, v) == LET A == X \cup {p[1] : p \in {q \in R : q[2] \in X}}
                          D == {v} \cup {p[2] : p \in {q \in R : q[1] = v}}
                      IN R \cup (A \X D)
(* ... creates a cycle iff v already precedes some x in X *)
WouldCycle(R, X, v) == v \in X \/ \E x \in X : <<v, x>> \in R
ToSet(s) == {s[i] : i \in 1..Len(s)}

(* late: the Subscribe call was not over when Close was called - the batcher may silently drop such a subscriber *)
CSubCall(c, e) == [c EXCEPT !.subs = (e.s :> [st |-> "called", kind |-> e.kind, recv |-> <<>>, lateWait |-> FALSE,
                                               late |-> c.closeCalled, retd |-> FALSE, awake |-> FALSE]) @@ c.subs]
CSubRet(c, e) == [c EXCEPT !.subs[e.s].st = IF c.subs[e.s].st = "called" THEN "subscribed" ELSE @, !.subs[e.s].retd = TRUE]
CCancel(c, e) == [c EXCEPT !.subs[e.s].st = "cancelled"]

(* A new Batch for a key supersedes the pending earlier ones.  The replacement takes effect somewhere between *)
(* the call and the return of Batch: from the call on the older value may be dropped; once Batch has returned   *)
(* while the older value was still not due, it is surely superseded and must never be delivered.                *)
CBatchCall(c, e) ==
  LET older == {m \in DOMAIN c.bs : c.bs[m].key = e.key /\ c.bs[m].delivered = {}}
      inflight == \E m \in DOMAIN c.bs : c.bs[m].key = e.key /\ ~c.bs[m].ret
      \* a Batch issued once Close was called may be dropped silently: it makes the older value uncertain, but never surely superseded
      bs2 == [m \in DOMAIN c.bs |-> IF m \in older THEN [c.bs[m] EXCEPT !.maybe = TRUE, !.supBy = IF c.closeCalled THEN @ ELSE @ \cup {e.n}]
                                                   ELSE c.bs[m]]
      atCall == {s \in DOMAIN c.subs : c.subs[s].st = "subscribed"}
  IN [c EXCEPT !.bs = (e.n :> [key |-> e.key, due |-> e.due, ret |-> FALSE, sup |-> FALSE, supBy |-> {},
                               maybe |-> inflight \/ c.closeCalled, atCall |-> atCall,
                               \* already deliverable at the call (interval 0): the subscribers of this moment are the sure ones
                               elig |-> IF c.now >= e.due - Early THEN atCall ELSE {}, fixed |-> c.now >= e.due - Early,
                               delivered |-> {}]) @@ bs2]
(* The clock moves.  A value may be delivered from Early ticks before its time on: the subscribers whose Subscribe *)
(* had returned before this step are the ones that surely are registered when it is delivered.                     *)
CAdv(c, e) ==
  LET subd == {s \in DOMAIN c.subs : c.subs[s].st = "subscribed"}
  IN [c EXCEPT !.now = e.now,
               !.bs = [m \in DOMAIN c.bs |-> IF ~c.bs[m].fixed /\ e.now >= c.bs[m].due - Early
                                               THEN [c.bs[m] EXCEPT !.elig = subd, !.fixed = TRUE] ELSE c.bs[m]]]
CBatchRet(c, e) ==
  [c EXCEPT !.bs = [m \in DOMAIN c.bs |->
       IF m = e.n THEN [c.bs[m] EXCEPT !.ret = TRUE]
       ELSE IF e.n \in c.bs[m].supBy /\ c.bs[m].ret /\ c.bs[m].delivered = {} /\ c.now < c.bs[m].due - Early
              THEN [c.bs[m] EXCEPT !.sup = TRUE]
              ELSE c.bs[m]]]

CRecv(c, e) ==
  IF e.v \notin DOMAIN c.bs THEN Bad("a value was received that was never batched")
  ELSE IF e.v \in ToSet(c.subs[e.s].recv) THEN Bad("a subscriber received a value twice")
  ELSE IF c.subs[e.s].lateWait THEN Bad("a value was delivered after Close returned")
  ELSE IF c.now < c.bs[e.v].due - Early THEN Bad("a value was delivered before its interval elapsed")
  ELSE IF c.bs[e.v].sup THEN Bad("a value superseded inside its interval was delivered")
  ELSE LET X == ToSet(c.subs[e.s].recv)
       IN IF WouldCycle(c.before, X, e.v) THEN Bad("subscribers saw values in different orders")
          ELSE [c EXCEPT !.before = AddBefore(c.before, X, e.v), !.subs[e.s].recv = Append(@, e.v), !.bs[e.v].delivered = @ \cup {e.s}]

(* a reader of kind "late" stays away (like a stalled one) until its first rwait, then reads everything *)
LiveStalled(c) == \E s \in DOMAIN c.subs : /\ c.subs[s].st = "subscribed"
                                           /\ (c.subs[s].kind = "stalled" \/ (c.subs[s].kind = "late" /\ ~c.subs[s].awake))

Missed(c, e, S(_)) ==
  \E n \in DOMAIN c.bs : /\ c.bs[n].ret /\ ~c.bs[n].sup /\ ~c.bs[n].maybe /\ c.bs[n].due <= c.now
                         /\ \E s \in S(n) : /\ c.subs[s].st = "subscribed"
                                            /\ (c.subs[s].kind = "prompt" \/ (e.final /\ c.subs[s].kind \in {"slow", "late"}))
                                            /\ n \notin ToSet(c.subs[s].recv)
CQuiescent(c, e) ==
  IF c.closeCalled \/ LiveStalled(c) THEN c
  ELSE IF Missed(c, e, LAMBDA n : c.bs[n].elig \cap c.bs[n].atCall)
       THEN Bad("a staying subscriber did not receive the latest value of a key one interval after its Batch call")
  ELSE IF Missed(c, e, LAMBDA n : c.bs[n].elig \ c.bs[n].atCall)
       THEN Bad("a subscriber that joined before the value fell due and stayed did not receive it")
       ELSE c

CCloseRet(c, e) ==
  IF e.open # <<>> THEN Bad("Close returned while a subscriber channel was still open")
  ELSE [c EXCEPT !.closeRet = TRUE]

(* the context of s has ended, everything is at rest and its channel is still open *)
CLeftOpen(c, e) ==
  IF c.subs[e.s].st = "cancelled" /\ c.subs[e.s].retd /\ ~c.subs[e.s].late /\ ~LiveStalled(c)
    THEN Bad("the channel of a departed subscriber was not closed")
    ELSE c

CStuck(c, e) ==
  IF e.n = 0 THEN c
  ELSE IF c.closeCalled /\ ~LiveStalled(c) THEN Bad("wedged: calls never return although Close was called and no live subscriber is stalled")
  ELSE IF ~LiveStalled(c) THEN Bad("wedged: calls never return although no live subscriber is stalled")
  ELSE c

CNext(c, e) ==
  IF e.ev = "reset" THEN CReset
  ELSE IF IsBad(c) THEN c
  ELSE CASE e.ev = "sub_call"   -> CSubCall(c, e)
         [] e.ev = "sub_ret"    -> CSubRet(c, e)
         [] e.ev = "cancel"     -> CCancel(c, e)
         [] e.ev = "batch_call" -> CBatchCall(c, e)
         [] e.ev = "batch_ret"  -> CBatchRet(c, e)
         [] e.ev = "adv"        -> CAdv(c, e)
         [] e.ev = "rwait"      -> [c EXCEPT !.subs[e.s].lateWait = c.closeRet, !.subs[e.s].awake = TRUE]
         [] e.ev = "recv"       -> CRecv(c, e)
         [] e.ev = "close_call" -> [c EXCEPT !.closeCalled = TRUE,
                                             !.subs = [s \in DOMAIN c.subs |-> IF c.subs[s].retd THEN c.subs[s] ELSE [c.subs[s] EXCEPT !.late = TRUE]]]
         [] e.ev = "leftopen"   -> CLeftOpen(c, e)
         [] e.ev = "close_ret"  -> CCloseRet(c, e)
         [] e.ev = "quiescent"  -> CQuiescent(c, e)
         [] e.ev = "stuck"      -> CStuck(c, e)
         [] e.ev = "lateclosed" -> Bad("Close returned while an accepted subscriber channel was still open")
=============================================================================
