SPECIFICATION Spec
CONSTANTS NSubs = 2 Kinds <- KindsSP B = 2 NVals = 4 DepartFix = TRUE
INVARIANTS CommonOrder ChannelsClosedAtReturn
PROPERTIES QuietAfterClose CloseReturns
CHECK_DEADLOCK FALSE
