SPECIFICATION Spec
CONSTANTS NSubs = 1 B = 1 Progs <- ProgsS3 Interval = 0 MaxNow = 0 DepartFix = TRUE SkipEndedSubscriber = FALSE
INVARIANTS CommonOrder ChannelsClosedAtReturn
PROPERTIES QuietAfterClose CloseReturns DepartedClosed
CHECK_DEADLOCK FALSE
