SPECIFICATION Spec
CONSTANTS NSubs = 2 Kinds <- KindsSP B = 1 NVals = 3 DepartFix = TRUE
INVARIANTS CommonOrder ChannelsClosedAtReturn
PROPERTIES QuietAfterClose CloseReturns
CHECK_DEADLOCK FALSE
