SPECIFICATION TSpec
CONSTANTS Big = FALSE
CONSTRAINT Report
CHECK_DEADLOCK FALSE
