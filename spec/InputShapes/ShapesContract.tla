--------------------------- MODULE ShapesContract ---------------------------
(* C07 - the property as a monitor over recorded calls.                      *)
(*                                                                           *)
(* Events (JSON / records), one run per (fam, entry, cls):                   *)
(*  reset  fam, entry, cls          starts the run                           *)
(*  call   fam, entry, cls, p, got, outcome in {"ok","error","panic","hang"} *)
(*         the real entry point was called on the rendering of shape p:      *)
(*         ok / error = it returned (a value / an error or false),           *)
(*         panic = it panicked (or crashed the process), hang = it did not   *)
(*         return within the deadline in two independent runs; got = the     *)
(*         harness's rendering of the decoded value where the grammar states *)
(*         an expectation ("" otherwise)                                     *)
(*  end    n                        the run is over, n calls were recorded   *)
(*                                                                           *)
(* Law: every call is a shape of the grammar fed to an entry point the       *)
(* grammar lists for it, and its outcome is ok or error - unless (entry,     *)
(* class) is one of the programmer-misuse panics the property excludes.      *)
(* "Malformed input is reported through the returned error": a call on a     *)
(* shape the grammar marks MustReject (a duration that does not fit          *)
(* time.Duration) must return an error, and a call that returns no error     *)
(* must have decoded the value the grammar expects (never a wrapped-around   *)
(* duration or a pointer's address).                                         *)
EXTENDS InputShapes

(* documented misuse panics, excluded by the property statement, by name:    *)
(*  cipher.AEAD Seal with a wrong-size nonce (standard-library contract);    *)
(*  cron.NewParser with two optional fields; ttlcache.Set with ttl <= 0;     *)
(*  errors.Build without ErrorInfo (the last two are not parsing / decoding  *)
(*  entry points and have no shapes; they are listed for completeness)       *)
Misuse == { <<"aescbcaead.Seal", "nonce-wrong-size">>,
            <<"cron.NewParser", "two-optionals">>,
            <<"ttlcache.Set", "ttl<=0">>,
            <<"errors.Build", "no-errorinfo">> }

Bad(c, why) == [c EXCEPT !.bad = TRUE, !.why = why]
IsBad(c) == c.bad

CReset(e) == [bad |-> FALSE, why |-> "", fam |-> e.fam, entry |-> e.entry, cls |-> e.cls, n |-> 0, ended |-> FALSE]

CCall(c, e) ==
  IF c.ended THEN Bad(c, "call after the end of its run")
  ELSE IF e.fam # c.fam \/ e.entry # c.entry \/ e.cls # c.cls THEN Bad(c, "call outside its run")
  ELSE IF ~IsShapeCall(e) THEN Bad(c, "not a shape of the grammar")
  ELSE IF e.outcome = "ok" /\ MustReject(e.fam, e.p) THEN Bad(c, "malformed input accepted")
  ELSE IF e.outcome = "ok" /\ Expect(e.fam, e.p) # "any" /\ e.got # Expect(e.fam, e.p)
       THEN Bad(c, "wrong value without an error")
  ELSE IF e.outcome \in {"ok", "error"} THEN [c EXCEPT !.n = @ + 1]
  ELSE IF e.outcome = "panic" /\ <<e.entry, e.cls>> \in Misuse THEN [c EXCEPT !.n = @ + 1]
  ELSE IF e.outcome = "panic" THEN Bad(c, "panic")
  ELSE IF e.outcome = "hang" THEN Bad(c, "hang")
  ELSE Bad(c, "unknown outcome")

CEnd(c, e) == IF c.ended THEN Bad(c, "run ended twice")
              ELSE IF e.n # c.n THEN Bad(c, "run is incomplete")
              ELSE [c EXCEPT !.ended = TRUE]

CNext(c, e) == CASE e.ev = "call" -> CCall(c, e)
                 [] e.ev = "end" -> CEnd(c, e)
                 [] OTHER -> Bad(c, "unknown event")
=============================================================================
