----------------------------- MODULE ShapesModel -----------------------------
(* C07 - enumeration of the shape space and a guard-table model of the entry *)
(* points, checked against the contract monitor.                             *)
(*                                                                           *)
(* 1. The ASSUME at the end writes every shape of the grammar (all families)  *)
(*    to EmitFile; the harness renders each one and calls the real code.     *)
(* 2. The model: a behaviour picks one shape and one of its entry points and  *)
(*    "calls" it.  The model of an entry point is its GUARD TABLE: a shape    *)
(*    carries a hazard (an input condition that makes unguarded code index    *)
(*    out of range, allocate a negative length, assert a wrong type or loop   *)
(*    without bound); the call returns an error when the hazard is guarded    *)
(*    and panics / hangs when it is not.  With every guard present (what the  *)
(*    property claims about the code) the monitor never goes bad; the         *)
(*    MC_defect configuration drops one guard and TLC must find the           *)
(*    violation.  The verdict of the check never comes from this model, only  *)
(*    from the real calls (TraceShapes).                                      *)
EXTENDS ShapesContract, Json, SequencesExt

CONSTANTS Dropped,     \* set of guards missing from the modelled code ({} = the claim)
          EmitFile,    \* "" or the file the shape space is written to
          ModelFams    \* the families the model explores (a subset of Families)

(* hazards by name; each is neutralised by the guard of the same name *)
Hazard(f, p, entry) ==
  CASE f = "cron-tz" /\ Cls(f, p) = "tz-without-fields" /\ entry = "cron.Parse" -> "tz-needs-a-space"
    [] f \in {"cron-sep", "cron-list", "cron-combo"} /\ entry = "cron.Next" -> "five-year-bound"
    [] f = "kw-unwrap" /\ p.len < 16 -> "wrapped-key-min-length"
    [] f = "sym-dec" /\ AlgFam(p.alg) = "AES-KW" /\ p.sweep = "ciphertext" /\ p.len < 16 -> "wrapped-key-min-length"
    [] f = "enc-wfk" /\ p.kw = 1 /\ p.len < 16 -> "wrapped-key-min-length"
    [] f = "sym-dec" /\ AlgFam(p.alg) \in {"AES-CBC", "AES-CBC-NOPAD"} /\ p.sweep = "ciphertext" /\ p.len % 16 # 0
         -> "cbc-block-multiple"
    [] f = "aead-open" /\ Cls(f, p) = "authentic-unaligned" -> "cbc-block-multiple"
    [] f = "aead-open" /\ Cls(f, p) = "shorter-than-tag" -> "tag-length"
    [] f = "pad" /\ entry = "padding.UnpadPKCS7" /\ p.last \in {"zero", "size+1", "ff"} -> "padding-length-range"
    [] f = "key-blob" /\ Cls(f, p) = "non-signer" /\ entry = "pem.DecodePEMPrivateKey" -> "checked-signer-assertion"
    [] f = "md-decode" /\ p.input = "struct-other" -> "checked-properties-assertion"
    [] f = "cfg-decode" /\ Cls(f, p) = "nil-ptr" -> "nil-pointer-check"
    [] f \in {"dur-int", "dur-lit"} /\ MustReject(f, p) -> "duration-range-check"
    [] f = "decode-target" /\ p.result \in {"nil", "squash-ptr", "squash-ptr-nested", "squash-nonstruct"}
         -> "result-kind-check"
    [] f = "cfg-decode" /\ p.target \in DecoderTargets -> "decoder-kind-check"
    [] f \in {"dur-tok", "dur-struct"} -> "index-in-range"
    [] f = "enc-header" /\ Cls(f, p) = "header-line-mutated" -> "header-line-checks"
    [] OTHER -> "none"

Outcomes(f, p, entry) ==
  LET h == Hazard(f, p, entry) IN
  IF <<entry, Cls(f, p)>> \in Misuse THEN {"panic"}
  ELSE IF h = "none" THEN {"ok", "error"}
  ELSE IF h \in Dropped THEN (IF h = "five-year-bound" THEN {"hang"} ELSE IF h = "duration-range-check" THEN {"ok"} ELSE {"panic"})
  ELSE IF MustReject(f, p) THEN {"error"}
  ELSE {"error", "ok"}

VARIABLES st, fam, par, ent, c

vars == <<st, fam, par, ent, c>>

Init == /\ st = "pick"
        /\ fam \in ModelFams
        /\ par \in Params(fam)
        /\ ent \in Range(Entries(fam, par))
        /\ c = CReset([fam |-> fam, entry |-> ent, cls |-> Cls(fam, par)])

Call == /\ st = "pick"
        /\ \E o \in Outcomes(fam, par, ent) :
             c' = CNext(c, [ev |-> "call", fam |-> fam, entry |-> ent, cls |-> Cls(fam, par), p |-> par, outcome |-> o,
                            got |-> IF Expect(fam, par) = "any" THEN "" ELSE Expect(fam, par)])
        /\ st' = "called"
        /\ UNCHANGED <<fam, par, ent>>

End == /\ st = "called"
       /\ c' = CNext(c, [ev |-> "end", n |-> c.n])
       /\ st' = "done"
       /\ UNCHANGED <<fam, par, ent>>

Next == Call \/ End
Spec == Init /\ [][Next]_vars

NotBad == ~IsBad(c)
Completes == st = "done" => c.ended

(* --- emission of the shape space --- *)
RECURSIVE Concat(_)
Concat(ss) == IF ss = <<>> THEN <<>> ELSE SetToSeq(ShapesOf(Head(ss))) \o Concat(Tail(ss))
AllShapes == Concat(SetToSeq(Families))
ASSUME EmitFile = "" \/ (ndJsonSerialize(EmitFile, AllShapes) /\ PrintT(<<"SHAPES", Len(AllShapes)>>))
=============================================================================
