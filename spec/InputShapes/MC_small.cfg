SPECIFICATION Spec
CONSTANTS Big = FALSE Dropped = {} EmitFile = "shapes.ndjson" ModelFams <- Families
INVARIANTS NotBad Completes
CHECK_DEADLOCK FALSE
