SPECIFICATION Spec
CONSTANTS Big = FALSE Dropped = {"wrapped-key-min-length"} EmitFile = "" ModelFams = {"kw-unwrap", "kw-wrap", "sym-dec", "enc-wfk"}
INVARIANTS NotBad Completes
CHECK_DEADLOCK FALSE
