SPECIFICATION Spec
CONSTANTS Big = FALSE Dropped = {"duration-range-check"} EmitFile = "" ModelFams = {"dur-int", "dur-lit"}
INVARIANTS NotBad Completes
CHECK_DEADLOCK FALSE
