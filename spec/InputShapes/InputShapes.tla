---------------------------- MODULE InputShapes ----------------------------
(* C07 - the finite, structured SHAPE GRAMMAR of inputs for every parsing,   *)
(* decoding and cryptographic entry point of dapr/kit.                       *)
(*                                                                           *)
(* A shape is a record [fam, cls, entries, p]:                               *)
(*   fam      the family (one grammar production set) the shape belongs to   *)
(*   p        the parameters of the shape (tokens, lengths, kinds): pure data *)
(*   cls      the shape CLASS, a function of (fam, p); violations are keyed   *)
(*            by (entry point, class)                                        *)
(*   entries  the entry points the shape is fed to (a function of (fam, p))  *)
(* The spec fixes WHICH inputs exist (tokens, lengths, mutations, kinds);    *)
(* the harness renders p to bytes / Go values (the rendering of every token  *)
(* is written next to its definition) and calls the real entry point.        *)
(* Every family is given as a set Params(fam) built from record sets,        *)
(* function sets and filters only, so that TLC can both ENUMERATE it (the     *)
(* shapes handed to the harness) and decide MEMBERSHIP lazily (the trace     *)
(* validator checks that every recorded call is a shape of the grammar).     *)
EXTENDS Integers, Sequences, FiniteSets, TLC

CONSTANT Big          \* FALSE: quick-tier grammar, TRUE: thorough-tier grammar

Opt(q, t) == IF Big THEN t ELSE q

(* every length 0..64, one past, and block multiples +-1 beyond *)
L64 == (0..65) \cup {79, 80, 81} \cup Opt({}, {95, 96, 97, 127, 128, 129})
(* the same plus the RSA-1024/2048 boundaries *)
LRSA == L64 \cup {127, 128, 129, 255, 256, 257}

-----------------------------------------------------------------------------
(* cron                                                                       *)
(* parser ids -> option sets (rendered by the harness):                       *)
(*  std      cron.ParseStandard (Minute|Hour|Dom|Month|Dow|Descriptor)         *)
(*  sec      Second|Minute|Hour|Dom|Month|Dow                                  *)
(*  secopt   SecondOptional|Minute|Hour|Dom|Month|Dow|Descriptor               *)
(*  dowopt   Minute|Hour|Dom|Month|DowOptional                                 *)
(*  desconly Descriptor                                                        *)
NFields(parser) == CASE parser = "std" -> 5 [] parser = "sec" -> 6 [] parser = "secopt" -> 6
                     [] parser = "dowopt" -> 5 [] OTHER -> 0
FieldParsers == {"std", "sec", "secopt", "dowopt"}

(* value tokens; "" absent, huge = 99999999999999999999, maxint = 2^63-1,     *)
(* 2^32 = 4294967296, fullwidth1 = U+FF11, others literal                      *)
ValTok == Opt({"", "*", "?", "0", "5", "60", "-1", "huge", "jan", "foo"},
              {"", "*", "?", "0", "1", "5", "7", "12", "31", "59", "60", "-1", "huge", "maxint",
               "2^32", "jan", "DEC", "sun", "foo", "fullwidth1", "1.5", "0x1", "+1"})
(* step tokens, literal except /huge and /maxint *)
StepTok == Opt({"", "/", "/0", "/2", "/huge", "/x"},
               {"", "/", "/0", "/1", "/2", "/60", "/huge", "/maxint", "/-1", "/x", "/2/3", "/*"})

(* one field (at position pos, the others are "*") holding one term            *)
(* lo [dash hi] [step]                                                         *)
CronTermP == {p \in [parser : Opt({"std", "sec"}, FieldParsers), pos : 0..5, lo : ValTok,
                     dash : {"", "-"}, hi : ValTok, step : StepTok] :
                 p.pos < NFields(p.parser) /\ (p.dash = "" => p.hi = "")}
RangeKind(p) == IF p.dash = ""
                THEN (IF p.lo = "" THEN "empty" ELSE IF p.lo \in {"*", "?"} THEN "star" ELSE "single")
                ELSE IF p.lo = "" /\ p.hi = "" THEN "lone-dash"
                ELSE IF p.lo = "" THEN "open-low" ELSE IF p.hi = "" THEN "open-high" ELSE "range"
StepKind(p) == IF p.step = "" THEN "nostep" ELSE IF p.step = "/" THEN "lone-slash" ELSE "step"
CronTermCls(p) == "term-" \o RangeKind(p) \o "-" \o StepKind(p)

(* one field holding a comma list of 2..3 small terms (empty terms included)   *)
SmallTerm == {"", "*", "1", "1-5", "*/2", "/", "-"}
CronListP == {p \in [parser : FieldParsers, pos : 0..5,
                     terms : UNION {[1..n -> SmallTerm] : n \in 2..Opt(2, 3)}] :
                 p.pos < NFields(p.parser)}
CronListCls(p) == IF \A i \in DOMAIN p.terms : p.terms[i] = "" THEN "list-only-commas"
                  ELSE IF \E i \in DOMAIN p.terms : p.terms[i] = "" THEN "list-with-empty-term"
                  ELSE "list"

(* one field consisting only of separators *)
SepOnly == {",", "-", "/", ",,", "-/", "/-", ",-", "--", "//", "-,-", "/,/", ",/"}
CronSepP == {p \in [parser : FieldParsers, pos : 0..5, field : SepOnly] : p.pos < NFields(p.parser)}

(* every option set x 0..7 fields.  Option bits: Second 1, SecondOptional 2,  *)
(* Minute 4, Hour 8, Dom 16, Month 32, Dow 64, DowOptional 128, Descriptor 256 *)
CronCountP == [opts : 0..511, n : 0..7, fill : Opt({"*"}, {"*", "1"})]
TwoOptionals(o) == (o \div 2) % 2 = 1 /\ (o \div 128) % 2 = 1

(* descriptors behind an optional time zone prefix *)
DescTok == {"@yearly", "@annually", "@monthly", "@weekly", "@daily", "@midnight", "@hourly",
            "@every 1s", "@every 1h30m", "@every", "@every ", "@every -1s", "@every 0", "@every 0s",
            "@every 1", "@every 9999999h", "@every 1ns", "@every 1.5h", "@", "@foo",
            "@every 1h extra", "@daily extra", "@@", "@every @daily"}
CronDescP == [parser : {"std", "sec", "secopt", "desconly"},
              tz : {"none", "TZ=UTC", "CRON_TZ=Asia/Tokyo", "TZ=Bad/Zone"}, d : DescTok]

(* time zone prefix: key zone sep tail; sep none|sp|sp2|tab|nl rendered as     *)
(* "", " ", "  ", "\t", "\n"                                                    *)
CronTzP == [parser : {"std", "sec"}, key : {"TZ=", "CRON_TZ=", "tz=", "TZ"},
            zone : {"UTC", "", "America/New_York", "Bad/Zone", "Local", "UTC=UTC"},
            sep : {"none", "sp", "sp2", "tab", "nl"},
            tail : {"", "* * * * *", "* * * * * *", "@daily", "*"}]
CronTzCls(p) ==
  IF p.key \notin {"TZ=", "CRON_TZ="} THEN "tz-prefix-malformed"
  \* no space anywhere in the spec: nothing the parser recognises as a field list follows the prefix
  ELSE IF p.sep \in {"none", "tab", "nl"} /\ p.tail \in {"", "@daily", "*"} THEN "tz-without-fields"
  ELSE IF p.sep \in {"sp", "sp2"} /\ p.tail = "" THEN "tz-blank-after"
  ELSE "tz-with-fields"

(* day-of-month / month / day-of-week combinations, among them dates that never *)
(* occur (the schedule search must give up, not spin)                          *)
CronComboP == [parser : {"std", "sec"}, dom : {"29", "30", "31", "*"}, month : {"2", "feb", "4", "2,4,6,9,11", "*"},
               dow : {"*", "0", "?"}]

CronParseNext == <<"cron.Parse", "cron.Next">>

-----------------------------------------------------------------------------
(* durations and timestamps (kit time package)                                *)
DurTok == Opt({"R", "/", "P", "T", "M", "S", "1", "-", "h"},
              {"R", "/", "P", "T", "Y", "M", "W", "D", "H", "S", "1", "-", ".", "h"})
DurTokP == [toks : UNION {[1..n -> DurTok] : n \in 0..Opt(4, 5)}]
DurTokCls(p) == IF Len(p.toks) = 0 THEN "tokens-empty" ELSE "tokens-start-" \o p.toks[1]
TimeEntries == <<"time.ParseISO8601Duration", "time.ParseDuration", "time.ParseTime">>
DurTokEntries(p) == IF Len(p.toks) <= Opt(3, 4) THEN TimeEntries ELSE <<"time.ParseISO8601Duration">>

(* the valid duration R5/P1Y2M1W3DT4H5M6S = 11 components                     *)
(* <<R5, /, P, 1Y, 2M, 1W, 3D, T, 4H, 5M, 6S>> (rep; norep: without the first  *)
(* two, positions past the end are no-ops) with one (two) mutation(s) at       *)
(* a component: drop, dup(licate), nonum (number removed), huge (number ->     *)
(* 99999999999999999999), neg, frac (1.5), swap (with the next), lower (case), *)
(* space (before it)                                                           *)
DurMut == {"none", "drop", "dup", "nonum", "huge", "neg", "frac", "swap", "lower", "space"}
DurStructP == [rep : {"rep", "norep"}, op : DurMut, at : 1..11, op2 : Opt({"none"}, DurMut), at2 : Opt({1}, 1..11)]
DurStructCls(p) == "iso-" \o p.op \o (IF p.op2 = "none" THEN "" ELSE "+" \o p.op2)

(* RFC 3339 timestamps as date sep time zone; sep sp = " ", none = ""          *)
StampP == [date : {"2024-01-01", "2024-02-30", "0000-00-00", "99999-01-01", "2024-1-1", "-2024-01-01", ""},
           sep : {"T", "t", "sp", "none"},
           time : {"00:00:00", "24:00:00", "23:59:60", "1:2:3", "00:00:00.123456789123", "00:00", ""},
           zone : {"Z", "z", "+00:00", "+25:00", "-0000", "+", ""},
           offset : {"nil", "fixed"}]

-----------------------------------------------------------------------------
(* AES key wrap, PKCS#7 padding, AES-CBC-HMAC AEAD                            *)
(* content classes: zeros; iv-prefix (0xA6 repeated); ff; valid-resized (a     *)
(* valid output of the inverse operation truncated / zero-extended to len)     *)
KwUnwrapP == [len : L64, key : {16, 24, 32}, content : {"zeros", "iv-prefix", "ff", "valid-resized"}]
KwUnwrapCls(p) == IF p.len < 16 THEN "len<16" ELSE IF p.len % 8 # 0 THEN "len-unaligned" ELSE "len-aligned"
KwWrapP == [len : L64, key : {16, 24, 32}]
KwWrapCls(p) == IF p.len % 8 = 0 THEN "len-aligned" ELSE "len-unaligned"

(* last: value of the final byte(s): zero, one, size, size+1, ff, or a valid   *)
(* padding run                                                                 *)
PadP == [len : L64, size : Opt({-1, 0, 1, 2, 8, 16, 17, 255, 256}, {-1, 0, 1, 2, 8, 15, 16, 17, 32, 255, 256, 257, 65536}),
         last : Opt({"zero", "size", "size+1", "valid"}, {"zero", "one", "size", "size+1", "ff", "valid"})]
PadCls(p) == IF p.size \in 2..255 THEN "block-size-valid" ELSE "block-size-invalid"

Ctors == {"AESCBC128SHA256", "AESCBC192SHA384", "AESCBC256SHA384", "AESCBC256SHA512"}
TagOf(ctor) == CASE ctor = "AESCBC128SHA256" -> 16 [] ctor = "AESCBC256SHA512" -> 32 [] OTHER -> 24
AeadNewP == [ctor : Ctors, keylen : L64]
(* Seal: every plaintext length with the right nonce; wrong nonce sizes are    *)
(* the documented cipher.AEAD misuse (class nonce-wrong-size)                  *)
AeadSealP == {p \in [ctor : Ctors, len : L64, aad : {0, 13}, nonce : 0..33, dst : {"nil", "spare", "exact"}] :
                 p.nonce # 16 => (p.len = 5 /\ p.aad = 0 /\ p.dst = "nil")}
AeadSealCls(p) == IF p.nonce = 16 THEN "plaintext-length" ELSE "nonce-wrong-size"
(* Open: len = ciphertext||tag length.  authentic: the tag is recomputed over  *)
(* the (arbitrary length, zero) body, i.e. produced by a key holder            *)
AeadOpenP == {p \in [ctor : Ctors, len : L64, content : {"zeros", "valid-resized", "authentic"},
                     nonce : {0, 12, 15, 16, 17, 32}, dst : {"nil", "spare"}] :
                 p.nonce # 16 => (p.content = "zeros" /\ p.dst = "nil")}
AeadOpenCls(p) ==
  IF p.nonce # 16 THEN "unauthentic-nonce-wrong-size"
  ELSE IF p.len < TagOf(p.ctor) THEN "shorter-than-tag"
  ELSE IF p.content # "authentic" THEN "unauthentic"
  ELSE IF (p.len - TagOf(p.ctor)) % 16 = 0 THEN "authentic-aligned" ELSE "authentic-unaligned"

-----------------------------------------------------------------------------
(* crypto.Encrypt / Decrypt (symmetric): one dimension swept over every        *)
(* length, the others at the size the algorithm expects                        *)
SymAlgs == {"A128CBC", "A192CBC", "A256CBC", "A128CBC-NOPAD", "A192CBC-NOPAD", "A256CBC-NOPAD",
            "A128GCM", "A192GCM", "A256GCM", "A128CBC-HS256", "A192CBC-HS384", "A256CBC-HS512",
            "A128KW", "A192KW", "A256KW", "A128GCMKW", "A192GCMKW", "A256GCMKW",
            "C20P", "XC20P", "C20PKW", "XC20PKW"}
BadAlgs == {"", "A", "A12", "A128", "foo", "a128gcm", "A512GCM", "HS256", "ECDH-ES", "ECDH-ES+A128KW",
            "A128CBC-HS512"}
AlgFam(a) == CASE a \in {"A128CBC", "A192CBC", "A256CBC"} -> "AES-CBC"
               [] a \in {"A128CBC-NOPAD", "A192CBC-NOPAD", "A256CBC-NOPAD"} -> "AES-CBC-NOPAD"
               [] a \in {"A128GCM", "A192GCM", "A256GCM"} -> "AES-GCM"
               [] a \in {"A128CBC-HS256", "A192CBC-HS384", "A256CBC-HS512"} -> "AES-CBC-HMAC"
               [] a \in {"A128KW", "A192KW", "A256KW"} -> "AES-KW"
               [] a \in {"A128GCMKW", "A192GCMKW", "A256GCMKW"} -> "AES-GCMKW"
               [] a \in {"C20P", "XC20P", "C20PKW", "XC20PKW"} -> "CHACHA20-POLY1305"
               [] OTHER -> "unknown-algorithm"
SymDecP == {p \in [alg : SymAlgs \cup BadAlgs, sweep : {"ciphertext", "tag", "nonce", "key"}, len : L64,
                   content : {"zeros", "valid-resized"}] :
              /\ (p.alg \in BadAlgs => p.len \in {0, 16})
              /\ (p.sweep \in {"nonce", "key"} => p.content = "zeros")}
SymDecCls(p) == AlgFam(p.alg) \o ":" \o
                (IF AlgFam(p.alg) = "AES-KW" /\ p.sweep = "ciphertext" /\ p.len < 16 THEN "ciphertext-len<16"
                 ELSE p.sweep \o "-length")
SymEncP == {p \in [alg : SymAlgs \cup BadAlgs, sweep : {"plaintext", "nonce", "key"}, len : L64] :
              p.alg \in BadAlgs => p.len \in {0, 16}}
SymEncCls(p) == AlgFam(p.alg) \o ":" \o p.sweep \o "-length"

(* asymmetric: key fixtures x algorithm names x data length                    *)
RsaEncAlgs == {"RSA1_5", "RSA-OAEP", "RSA-OAEP-256", "RSA-OAEP-384", "RSA-OAEP-512"}
RsaSigAlgs == {"RS256", "RS384", "RS512", "PS256", "PS384", "PS512"}
EcSigAlgs == {"ES256", "ES384", "ES512"}
OtherAsymAlgs == {"ECDH-ES", "ECDH-ES+A256KW", "HS256", "", "foo"}
AsymAlgs == RsaEncAlgs \cup RsaSigAlgs \cup EcSigAlgs \cup {"EdDSA"} \cup OtherAsymAlgs
RsaKeys == Opt({"rsa2048", "rsa2048-pub"}, {"rsa2048", "rsa2048-pub", "rsa1024"})
EcKeys == Opt({"ec-p256", "ec-p256-pub", "ec-p521"}, {"ec-p256", "ec-p256-pub", "ec-p384", "ec-p521"})   \* (jwx has no P-224)
EdKeys == {"ed25519", "ed25519-pub"}
KeyIds == RsaKeys \cup EcKeys \cup EdKeys \cup {"x25519", "oct32"}
KeyKind(k) == IF k \in RsaKeys THEN "rsa" ELSE IF k \in EcKeys THEN "ec" ELSE IF k \in EdKeys THEN "ed25519" ELSE k
AlgKind(a) == IF a \in RsaEncAlgs THEN "rsa-enc" ELSE IF a \in RsaSigAlgs THEN "rsa-sig"
              ELSE IF a \in EcSigAlgs THEN "ecdsa" ELSE IF a = "EdDSA" THEN "eddsa" ELSE "other-alg"
Matches(a, k) == \/ a \in RsaEncAlgs \cup RsaSigAlgs /\ k \in RsaKeys
                 \/ a \in EcSigAlgs /\ k \in EcKeys
                 \/ a = "EdDSA" /\ k \in EdKeys
(* op: encrypt/decrypt sweep the plaintext/ciphertext, sign the digest,        *)
(* verify-sig the signature (digest of the right size), verify-digest the      *)
(* digest (a valid signature of another digest)                                *)
AsymP == {p \in [op : {"encrypt", "decrypt", "sign", "verify-sig", "verify-digest"}, alg : AsymAlgs,
                 key : KeyIds, len : LRSA, content : {"zeros", "valid-resized"}] :
            /\ (~Matches(p.alg, p.key) => p.len \in {0, 32})
            /\ (p.op \in {"encrypt", "decrypt"} => AlgKind(p.alg) \in {"rsa-enc", "other-alg"})
            /\ (p.op \in {"sign", "verify-sig", "verify-digest"} => AlgKind(p.alg) # "rsa-enc")
            /\ (p.op \in {"encrypt", "sign", "verify-digest"} => p.content = "zeros")}
AsymCls(p) == KeyKind(p.key) \o "-key:" \o AlgKind(p.alg) \o ":" \o p.op
AsymEntries(p) == CASE p.op = "encrypt" -> <<"crypto.Encrypt", "crypto.EncryptPublicKey">>
                    [] p.op = "decrypt" -> <<"crypto.Decrypt", "crypto.DecryptPrivateKey">>
                    [] p.op = "sign" -> <<"crypto.SignPrivateKey">>
                    [] OTHER -> <<"crypto.VerifyPublicKey">>

-----------------------------------------------------------------------------
(* keys: every key type Go can marshal x encoding x container x label x cut    *)
KeyTypes == {"rsa", "ec-p224", "ec-p256", "ec-p384", "ec-p521", "ed25519", "x25519"}
EncOK(kt, enc) == \/ enc \in {"pkcs8", "pkix"}
                  \/ enc \in {"pkcs1", "pkcs1pub"} /\ kt = "rsa"
                  \/ enc = "sec1" /\ kt \in {"ec-p224", "ec-p256", "ec-p384", "ec-p521"}
PemLabels == {"PRIVATE KEY", "RSA PRIVATE KEY", "EC PRIVATE KEY", "PUBLIC KEY", "RSA PUBLIC KEY",
              "CERTIFICATE", "ENCRYPTED PRIVATE KEY", "", "FOO"}
(* cut: full; minus1 (last byte dropped); half; head12 (first 12 bytes);       *)
(* garbage-after; in thorough also minus-line, body-flip (one DER byte xored)  *)
Cuts == Opt({"full", "minus1", "half", "head12", "garbage-after"},
            {"full", "minus1", "half", "head12", "garbage-after", "head1", "minus-line", "body-flip"})
ContentTypes == {"", "application/json", "application/x-pem-file", "application/pkcs8", "text/plain"}
KeyBlobP == {p \in [kt : KeyTypes, enc : {"pkcs8", "pkcs1", "sec1", "pkix", "pkcs1pub"},
                    wrap : {"pem", "der", "b64", "b64url"}, label : PemLabels \cup {"-"}, cut : Cuts,
                    ct : ContentTypes] :
               /\ EncOK(p.kt, p.enc)
               /\ (p.wrap = "pem" <=> p.label # "-")}
NaturalLabel(enc) == CASE enc = "pkcs8" -> "PRIVATE KEY" [] enc = "pkcs1" -> "RSA PRIVATE KEY"
                       [] enc = "sec1" -> "EC PRIVATE KEY" [] enc = "pkix" -> "PUBLIC KEY"
                       [] OTHER -> "RSA PUBLIC KEY"
KeyBlobCls(p) ==
  \* a PKCS#8 private key that is not a crypto.Signer (X25519 is the only such type Go can marshal)
  IF p.kt = "x25519" /\ p.enc = "pkcs8" THEN "non-signer"
  ELSE IF p.cut # "full" THEN "key-" \o p.wrap \o "-cut"
  ELSE IF p.wrap = "pem" /\ p.label # NaturalLabel(p.enc) THEN "key-pem-label-mismatch"
  ELSE "key-" \o p.wrap \o "-well-formed"
KeyBlobEntries(p) ==
  IF p.ct = "" THEN <<"crypto.ParseKey", "crypto.SerializeKey", "pem.DecodePEMPrivateKey",
                      "pem.DecodePEMCertificates", "utils.IsValidPEM", "utils.GetPEM">>
  ELSE <<"crypto.ParseKey", "crypto.SerializeKey">>

(* all-whitespace and whitespace-prefixed blobs: n whitespace units then ...   *)
(* ws: sp " ", nl "\n", tab "\t", crlf "\r\n"; then: none, brace "{", dashes   *)
(* "-----", jwk (a valid oct JWK), pem (a valid PKCS#8 PEM), b64 (base64 of 32 *)
(* bytes), bin (32 raw bytes 0x80..)                                           *)
KeyWsP == [n : 0..40, ws : {"sp", "nl", "tab", "crlf"},
           then : Opt({"none", "brace", "dashes", "pem", "b64"}, {"none", "brace", "dashes", "jwk", "pem", "b64", "bin"}),
           ct : Opt({"", "application/json", "application/x-pem-file"}, ContentTypes)]
KeyWsCls(p) == IF p.then = "none" THEN "all-whitespace" ELSE "whitespace-prefixed"
KeyWsEntries == <<"crypto.ParseKey", "crypto.SerializeKey", "pem.DecodePEMPrivateKey", "utils.IsValidPEM">>

(* raw symmetric keys: n bytes of: zero 0x00, A 'A', eq '=', brace '{' then    *)
(* 'A's, dash "-----" then 'A's, Anl 'A's then "\n", ff 0xFF, b64url "-_"      *)
KeyRawP == [n : 0..65, fill : {"zero", "A", "eq", "brace", "dash", "Anl", "ff", "b64url"},
            ct : {"", "text/plain", "application/json", "application/x-pem-file"}]

(* JWKs with one member removed / retyped.  base: a valid JWK of that kind.    *)
(* mut: drop; empty ""; json-null; number 5; bool; array []; object {}; short "AA"; *)
(* badb64 "!!!"; long (600 bytes base64url); other-valid (the value another    *)
(* valid key would have there: a different kty / curve / coordinate)           *)
JwkBases == {"rsa-priv", "rsa-pub", "ec-priv", "ec-pub", "ed-priv", "ed-pub", "x25519-priv", "oct"}
JwkFields == {"kty", "crv", "n", "e", "d", "p", "q", "dp", "dq", "qi", "x", "y", "k", "alg", "use",
              "key_ops", "kid", "x5c"}
JwkMuts == {"none", "drop", "empty", "json-null", "number", "bool", "array", "object", "short", "badb64",
            "long", "other-valid"}
JwkMutP == {p \in [base : JwkBases, field : JwkFields, mut : JwkMuts] : p.mut = "none" => p.field = "kty"}
JwkKty(b) == CASE b \in {"rsa-priv", "rsa-pub"} -> "rsa" [] b \in {"ec-priv", "ec-pub"} -> "ec"
               [] b \in {"ed-priv", "ed-pub"} -> "okp-ed25519" [] b = "x25519-priv" -> "okp-x25519" [] OTHER -> "oct"
(* class: key type and the member that was mutated *)
JwkMutCls(p) == "jwk-" \o JwkKty(p.base) \o ":" \o (IF p.mut = "none" THEN "intact" ELSE p.field)
(* a parsed key is then used with the operations natural for its kty           *)
JwkEntries == <<"crypto.ParseKey", "crypto.SerializeKey", "crypto.Encrypt", "crypto.Decrypt",
                "crypto.SignPrivateKey", "crypto.VerifyPublicKey">>

(* certificate bundles: 0..3 PEM blocks, a tail and a cut of the whole blob    *)
(* root/inter/leaf: an ECDSA P-256 chain; leaf-cut: leaf DER minus 7 bytes;    *)
(* key: a PRIVATE KEY block; text: a line of prose; empty: a CERTIFICATE block *)
(* with no body; badb64: a block with invalid base64; rsa-leaf/ed-leaf: leaves *)
(* signed by root with an RSA / Ed25519 subject key                            *)
BlockTok == {"root", "inter", "leaf", "leaf-cut", "key", "text", "empty", "badb64", "rsa-leaf", "ed-leaf"}
CertsP == [blocks : UNION {[1..n -> BlockTok] : n \in 0..Opt(2, 3)},
           tail : {"none", "garbage", "nl"}, cut : {"none", "minus1", "half"}]
CertsEntries == <<"pem.DecodePEMCertificates", "pem.DecodePEMCertificatesChain", "pem.EncodeX509Chain",
                  "pem.EncodeX509", "utils.IsValidPEM">>

(* key objects for the encoders / comparison *)
KeyObjs == {"rsa", "rsa-pub", "ec-p224", "ec-p256", "ec-p384", "ec-p521", "ec-pub", "ed25519-ptr",
            "ed25519-value", "ed25519-pub", "x25519", "x25519-pub", "bytes", "string", "nil"}
KeyObjP == [a : KeyObjs, b : KeyObjs]

-----------------------------------------------------------------------------
(* streams uppercase transformer: n bytes made of a repeated unit (cut at n,   *)
(* so multi-byte units end truncated), read through chunk-sized reads          *)
(* units: a, Z, nul, ff (0xFF), c3 (lone lead byte), szlig (U+00DF),           *)
(* dotless-i (U+0131), dz (U+01C6), euro, max (U+10FFFF), surrogate (ED A0 80),*)
(* overlong (C0 AF)                                                            *)
UnitTok == {"a", "Z", "nul", "ff", "c3", "szlig", "dotless-i", "dz", "euro", "max", "surrogate", "overlong"}
UpperP == [n : L64, unit : UnitTok, chunk : {1, 3, 4096}]
RuneTok == {"-1", "0", "a", "z", "7f", "80", "df", "131", "d800", "10ffff", "110000", "maxint32", "minint32"}
RuneP == [r : RuneTok]

-----------------------------------------------------------------------------
(* schemes/enc/v1                                                              *)
(* header = 3 lines (scheme name, manifest, MAC), each kept or mutated:        *)
(* drop, dup, empty, long600, long70k (padded with spaces), crlf (line ends in *)
(* \r\n), nonl (its newline removed), lead-space                               *)
LineMut == Opt({"keep", "drop", "dup", "empty", "long70k", "crlf", "nonl"},
              {"keep", "drop", "dup", "empty", "long600", "long70k", "crlf", "nonl", "lead-space"})
(* payload after the header: none; seg (one valid segment); seg-minus1;        *)
(* seg-plus1; zeros15/16/17; twoseg (64KiB+16 then a short last one)           *)
PayloadTok == {"none", "seg", "seg-minus1", "seg-plus1", "zeros15", "zeros16", "zeros17", "twoseg"}
(* mac: stale (the MAC of the unmutated header) or resigned (recomputed by a   *)
(* key holder over the manifest line actually sent)                            *)
EncHeaderP == {p \in [l1 : LineMut, l2 : LineMut, l3 : LineMut, payload : PayloadTok,
                      mac : {"stale", "resigned"}] :
                 Big \/ p.payload \in {"none", "seg", "seg-minus1", "zeros16"}}
EncHeaderCls(p) == IF p.l1 = "keep" /\ p.l2 = "keep" /\ p.l3 = "keep" THEN "header-intact"
                   ELSE "header-line-mutated"

(* manifest members removed / retyped (mutation 1, then mutation 2 which wins  *)
(* on the same member); value tokens (rendered as JSON):                       *)
(* drop, null, n0, n1..n6, n-1, nhuge (1e30 as integer digits), n1.5, s ("")   *)
(* sx ("x"), s1 ("1"), true, arr ([]), obj ({}), b64:N (base64 of N bytes)      *)
ManFields == {"k", "kw", "wfk", "cph", "np"}
ManVals == {"drop", "null", "n0", "n1", "n2", "n3", "n4", "n5", "n6", "n-1", "nhuge", "n1.5", "s", "sx",
            "s1", "true", "arr", "obj", "b64:0", "b64:1", "b64:6", "b64:7", "b64:8", "b64:32", "b64:40"}
EncManifestP == [f1 : ManFields, v1 : ManVals, f2 : Opt({"k"}, ManFields), v2 : Opt({"sx"}, ManVals),
                 mac : {"stale", "resigned"}]
EncManifestCls(p) == "manifest-" \o p.f1 \o "+" \o p.f2
EncManifestEntries == <<"enc.Manifest", "enc.Decrypt">>

(* wrapped file key of every length for every key-wrap algorithm id (1 A256KW, *)
(* 2..4 A128/192/256CBC-NOPAD, 5 RSA-OAEP-256); the UnwrapKeyFn is kit's own   *)
(* crypto.Decrypt; the header is signed with the key Decrypt falls back to     *)
EncWfkP == [kw : 1..5, len : LRSA, content : {"zeros", "iv-prefix", "valid-resized"}]
EncWfkCls(p) == IF p.kw = 1 /\ p.len < 16 THEN "wfk-A256KW-len<16" ELSE "wfk-length"

(* payload segments of every length around 0..64 and the 64 KiB boundaries     *)
EncPayloadP == [len : L64 \cup {65535, 65536, 65537, 65551, 65552, 65553, 65554, 131103, 131104, 131105},
                content : {"zeros", "valid-resized"}, cipher : {1, 2}]

(* algorithm / cipher tokens: names for Validate/ID, JSON text for             *)
(* UnmarshalJSON, integers for New*FromID (tokens that are not integers are    *)
(* skipped there)                                                              *)
AlgTok == {"", "null", "0", "1", "2", "3", "4", "5", "6", "-1", "99999999999999999999", "1.5", "q1", "true",
           "[]", "{}", "sp1", "01", "+1", "0x1", "A256KW", "A128CBC-NOPAD", "A192CBC-NOPAD", "A256CBC-NOPAD",
           "RSA-OAEP-256", "AES", "RSA", "aes", "AES-GCM", "CHACHA20-POLY1305", "A256GCM", "foo"}
EncAlgP == [tok : AlgTok]
EncAlgEntries == <<"enc.KeyAlgorithm.Validate", "enc.KeyAlgorithm.UnmarshalJSON", "enc.NewKeyAlgorithmFromID",
                   "enc.Cipher.Validate", "enc.Cipher.UnmarshalJSON", "enc.NewCipherFromID">>
(* Encrypt options; wrap: nil, identity, error, short (returns 3 bytes),       *)
(* empty (returns nil, nil)                                                    *)
EncEncryptP == [alg : {"", "AES", "RSA", "A256KW", "A128CBC-NOPAD", "RSA-OAEP-256", "foo"},
                cipher : {"nil", "", "AES-GCM", "CHACHA20-POLY1305", "foo"},
                keyname : {"", "k"}, wrap : {"nil", "identity", "error", "short", "empty"},
                n : {0, 1, 65535, 65536, 65537}]

-----------------------------------------------------------------------------
(* metadata: input container kind x target field x value x key form x result   *)
(* input kinds: mss map[string]string, msa map[string]any, maa map[any]any,    *)
(* struct (a struct with Properties map[string]string), struct-other (a struct *)
(* whose Properties member is a map[string]int), json (a JSON object string),  *)
(* nil, int, slice                                                             *)
MdInputs == {"mss", "msa", "maa", "struct", "struct-other", "json", "nil", "int", "slice"}
(* target fields of the result struct, named after their Go types              *)
MdFields == {"string", "int", "uint8", "bool", "boolptr", "float64", "duration", "mdduration",
             "mddurationptr", "strings", "stringsptr", "durations", "durationsptr", "bytesize",
             "bytesizeptr", "nested", "squashed", "stringmap", "any", "aliased", "unknown"}
(* values: s:<text> a string; int 7; float 1.5; bool true; nil; nilptr         *)
(* a nil pointer-to-string; map (nested map); slice ([]any{"a", 1})            *)
MdStrVals == {"s:", "s:1", "s:-1", "s:true", "s:yes", "s:abc", "s:1s", "s:1h1", "s:9999999999999999999",
              "s:1.5", "s:1Ki", "s:1Gi", "s:1e999", "s:1,2", "s:,", "s:1s,2s", "s:1s, ,x", "s:Null", "s:P1D",
              "s:fullwidth1", "s:-", "s:1e-999Ei"}
MdOtherVals == {"int", "float", "bool", "nil", "nilptr", "ptr", "ptrptr", "ptrptr-nil", "intptr", "map", "slice"}
(* key: exact; upper (upper-cased); alias (the field's alias name);            *)
(* dup-case (both the exact key and its upper-cased form)                      *)
MdDecodeP == {p \in [input : MdInputs, field : MdFields, val : MdStrVals \cup MdOtherVals,
                     key : {"exact", "upper", "alias", "dup-case"},
                     result : {"ptr", "ptrptr", "value", "ptr-int"}] :
                /\ (p.val \in MdOtherVals => p.input \in {"msa", "maa"})
                /\ (p.input \in {"nil", "int", "slice"} => (p.val = "s:1" /\ p.field = "string" /\ p.key = "exact"))
                /\ (p.result # "ptr" => (p.val = "s:1" /\ p.key = "exact"))
                /\ (p.key # "exact" => p.val \in {"s:1", "s:abc"})}
MdValKind(v) == IF v \in MdOtherVals THEN v ELSE "string"
MdDecodeCls(p) == IF p.input = "struct-other" THEN "struct-properties-not-a-string-map"
                  ELSE IF p.result # "ptr" THEN "result-" \o p.result
                  ELSE "input-" \o p.input \o ":value-" \o MdValKind(p.val)
MdDecodeEntries(p) == IF p.input = "mss" THEN <<"metadata.DecodeMetadata", "metadata.Properties.Decode">>
                      ELSE <<"metadata.DecodeMetadata">>
(* tokens for Duration.UnmarshalJSON (JSON text), ToISOString (a duration),    *)
(* ByteSize (a quantity string), GetMetadataProperty (a key)                   *)
MdTok == {"", "1", "1.5", "q1s", "q", "null", "true", "[]", "{}", "1e400", "-1", "qabc", "quote",
          "99999999999999999999", "0", "1ns", "1s", "59s", "60s", "3600s", "86400s", "-1s", "minint64",
          "maxint64", "-86400s", "1Ki", "1Ei", "9Ei", "1e30", "0.5", "nilreceiver"}
MdMiscP == [tok : MdTok]
MdMiscEntries == <<"metadata.Duration.UnmarshalJSON", "metadata.Duration.ToISOString",
                   "metadata.ByteSize.GetBytes", "metadata.GetMetadataProperty">>

(* config.Decode: value kind x target field kind x output kind                 *)
(* values: as for metadata plus ptr (pointer to the string "5"), ptrptr-nil    *)
(* (pointer to a nil pointer-to-string), ptrptr, intptr, intptr-nil, duration  *)
(* (time.Duration), bytes ([]byte), maa (a map[any]any)                        *)
CfgStrVals == {"s:", "s:1", "s:-1", "s:abc", "s:1s", "s:true", "s:1.5", "s:99999999999999999999", "s:300",
               "s:2024-01-01T00:00:00Z", "s:2024-01-01T00:00:00.5+25:00", "s:fullwidth1", "s:1e999", "s:bad"}
(* pointer chains: ptr / ptrptr (to the string "5"), intptr / intptrptr (to the *)
(* int 7), and the same chains with a nil at each level: nilptr, ptrptr-nil,   *)
(* intptr-nil, intptrptr-nil                                                   *)
NilChainVals == {"nilptr", "ptrptr-nil", "intptr-nil", "intptrptr-nil"}
CfgOtherVals == {"int", "float", "bool", "nil", "ptr", "ptrptr", "intptr", "intptrptr",
                 "map", "slice", "maa", "duration", "bytes"} \cup NilChainVals
(* targets named after the Go type of the field.  The StringDecoder targets:   *)
(* decoder (struct type, pointer receiver), decoderptr (pointer to it),        *)
(* vdecoder (struct type, VALUE receiver), vdecoderptr (pointer to it),        *)
(* vmapdecoder / vslicedecoder (named map / slice type with a value receiver), *)
(* vmapdecoderptr (pointer to the named map type)                              *)
DecoderTargets == {"decoder", "decoderptr", "vdecoder", "vdecoderptr", "vmapdecoder", "vslicedecoder",
                   "vmapdecoderptr"}
CfgTargets == {"string", "int", "int8", "int16", "int32", "int64", "uint", "uint8", "uint16", "uint32",
               "uint64", "float32", "float64", "bool", "duration", "time",
               "intptr", "stringptr", "strings", "stringmap", "nested", "any", "unknown"} \cup DecoderTargets
CfgDecodeP == {p \in [val : CfgStrVals \cup CfgOtherVals, target : CfgTargets,
                      input : {"msa", "maa", "typed"}, out : {"ptr", "value", "mapptr", "ptr-int"}] :
                 /\ (p.out # "ptr" => p.target = "string")
                 /\ (p.input = "typed" => p.val \in {"s:1", "ptr", "ptrptr", "intptrptr"} \cup NilChainVals)}
CfgDecodeCls(p) == IF p.val \in NilChainVals THEN "nil-ptr"
                   ELSE IF p.out # "ptr" THEN "output-" \o p.out
                   ELSE IF p.target \in DecoderTargets THEN "target-" \o p.target
                   ELSE "value-" \o (IF p.val \in CfgOtherVals THEN p.val ELSE "string")
(* the text of the decoded field a successful call must produce (the harness   *)
(* renders the field: a string as is, an int in decimal, a duration with       *)
(* Duration.String); "any" = the statement is silent                           *)
CfgExpect(p) ==
  IF p.out # "ptr" \/ p.target \notin {"string", "int", "duration"} THEN "any"
  ELSE IF p.val \in NilChainVals \cup {"nil"}
       THEN (CASE p.target = "string" -> "" [] p.target = "int" -> "0" [] OTHER -> "0s")
  ELSE IF p.val \in {"ptr", "ptrptr"}          \* the pointee "5"; a plain integer duration is milliseconds
       THEN (CASE p.target = "string" -> "5" [] p.target = "int" -> "5" [] OTHER -> "5ms")
  ELSE IF p.val \in {"intptr", "intptrptr", "int"}   \* the int 7; an int duration is nanoseconds
       THEN (CASE p.target = "string" -> "7" [] p.target = "int" -> "7" [] OTHER -> "7ns")
  ELSE IF p.val = "s:1" THEN (CASE p.target = "string" -> "1" [] p.target = "int" -> "1" [] OTHER -> "1ms")
  ELSE IF p.val = "s:300" THEN (CASE p.target = "string" -> "300" [] p.target = "int" -> "300" [] OTHER -> "300ms")
  ELSE "any"

-----------------------------------------------------------------------------
(* duration VALUES for duration-typed fields.  A plain integer is seconds for  *)
(* metadata.DecodeMetadata and milliseconds for config.Decode /                *)
(* retry.DecodeConfig.  Integers are digit sequences (TLC integers are 32 bit) *)
(* around the bounds 9223372036 = MaxInt64 div 1e9 (seconds) and               *)
(* 9223372036854 = MaxInt64 div 1e6 (milliseconds)                             *)
DigitSeqs == { <<0>>, <<1>>, <<2,1,4,7,4,8,3,6,4,8>>,
               <<9,2,2,3,3,7,2,0,3,5>>, <<9,2,2,3,3,7,2,0,3,6>>, <<9,2,2,3,3,7,2,0,3,7>>,
               <<9,2,2,3,3,7,2,0,3,6,8,5,3>>, <<9,2,2,3,3,7,2,0,3,6,8,5,4>>, <<9,2,2,3,3,7,2,0,3,6,8,5,5>>,
               <<1,0,0,0,0,0,0,0,0,0,0,0,0,0>>,
               <<9,2,2,3,3,7,2,0,3,6,8,5,4,7,7,5,8,0,7>>, <<9,2,2,3,3,7,2,0,3,6,8,5,4,7,7,5,8,0,8>>,
               <<1,8,4,4,6,7,4,4,0,7,3,7,0,9,5,5,1,6,1,6>>, <<9,9,9,9,9,9,9,9,9,9,9,9,9,9,9,9,9,9,9,9>> }
SecondsBound == <<9,2,2,3,3,7,2,0,3,6>>
MillisBound == <<9,2,2,3,3,7,2,0,3,6,8,5,4>>
(* a <= b for decimal digit sequences without leading zeros *)
LeqDigits(a, b) == \/ Len(a) < Len(b)
                   \/ Len(a) = Len(b) /\ (a = b \/ \E i \in 1..Len(a) : a[i] < b[i] /\ \A j \in 1..(i - 1) : a[j] = b[j])
MdDurTgts == {"md-duration", "md-mdduration", "md-mddurationptr", "md-durations", "md-durationsptr"}
ListDurTgts == {"md-durations", "md-durationsptr"}
DurTgts == MdDurTgts \cup {"cfg-duration", "retry-duration", "retry-maxInterval"}
DurUnit(tgt) == IF tgt \in MdDurTgts THEN "seconds" ELSE "milliseconds"
(* form: plain "N"; list-first "N,1s"; list-last "1s, N" (list fields only)    *)
DurIntP == {p \in [tgt : DurTgts, form : {"plain", "list-first", "list-last"}, neg : BOOLEAN, digits : DigitSeqs] :
              p.form # "plain" => p.tgt \in ListDurTgts}
DurIntFits(p) == LeqDigits(p.digits, IF DurUnit(p.tgt) = "seconds" THEN SecondsBound ELSE MillisBound)
DurIntCls(p) == "duration-" \o (IF p.form = "plain" THEN "" ELSE "list-") \o DurUnit(p.tgt) \o
                (IF DurIntFits(p) THEN "-in-range" ELSE "-overflow")
(* literal duration texts; the ones that fit time.Duration: *)
DurLits == {"1h", "1.5h", "2562047h", "2562048h", "9999999h", "-2562048h", "9223372036854775807ns",
            "9223372036854775808ns", "PT1H", "PT2562048H", "P1D", "P106751D", "P106752D"}
DurLitsFitting == {"1h", "1.5h", "2562047h", "9223372036854775807ns", "PT1H", "P1D", "P106751D"}
DurLitP == {p \in [tgt : DurTgts, form : {"plain", "list-first", "list-last"}, lit : DurLits] :
              p.form # "plain" => p.tgt \in ListDurTgts}
DurLitCls(p) == "duration-text-" \o (IF p.lit \in DurLitsFitting THEN "in-range" ELSE "overflow")
DurEntries(p) == IF p.tgt \in MdDurTgts THEN <<"metadata.DecodeMetadata">>
                 ELSE IF p.tgt = "cfg-duration" THEN <<"config.Decode">> ELSE <<"retry.DecodeConfig">>

(* decode TARGET shapes (the result argument) for metadata.DecodeMetadata,     *)
(* Properties.Decode and config.Decode:                                        *)
(*  nil; typed-nil (a nil pointer to struct); value (non-pointer struct);       *)
(*  ptr-int / ptr-string / ptr-map / ptr-slice (pointer to a non-struct);       *)
(*  ptr-struct; ptrptr-struct; ptrptr-nil (pointer to a nil pointer to struct); *)
(*  squash-struct (embeds a struct with `mapstructure:",squash"`); squash-ptr   *)
(*  (embeds a *struct, nil) / squash-ptr-set (allocated); squash-nested (the    *)
(*  squashed struct squashes another); squash-ptr-nested (the inner one is a    *)
(*  *struct); squash-nonstruct (a map field tagged squash); embedded-untagged /  *)
(*  embedded-ptr-untagged (embedding without a tag)                             *)
(* key: which key the input map holds: none, outer (a field of the result),     *)
(* inner (a field of the embedded struct), inner-alias (its alias), both        *)
TgtResults == {"nil", "typed-nil", "value", "ptr-int", "ptr-string", "ptr-map", "ptr-slice", "ptr-struct",
               "ptrptr-struct", "ptrptr-nil", "squash-struct", "squash-ptr", "squash-ptr-set", "squash-nested",
               "squash-ptr-nested", "squash-nonstruct", "embedded-untagged", "embedded-ptr-untagged"}
DecodeTargetP == [result : TgtResults, key : {"none", "outer", "inner", "inner-alias", "both"}, val : {"s:x", "s:"}]
DecodeTargetEntries == <<"metadata.DecodeMetadata", "metadata.Properties.Decode", "config.Decode">>

(* retry.DecodeConfig / DecodeConfigWithPrefix: one Config member x value       *)
RetryFields == {"policy", "duration", "initialInterval", "randomizationFactor", "multiplier", "maxInterval",
                "maxElapsedTime", "maxRetries", "unknown"}
RetryVals == {"s:", "s:constant", "s:EXPONENTIAL", "s:foo", "s:1", "s:-1", "s:1.5", "s:1s", "s:1e999",
              "s:99999999999999999999", "s:fullwidth1", "int", "float", "bool", "nil", "map", "slice", "ptr",
              "intptr", "duration"} \cup NilChainVals
RetryCfgP == [field : RetryFields, val : RetryVals, via : {"plain", "prefix"}]
RetryCfgEntries(p) == IF p.via = "plain" THEN <<"retry.DecodeConfig">> ELSE <<"retry.DecodeConfigWithPrefix">>
(* config.Normalize / PrefixedBy: trees                                        *)
TreeTok == {"nil", "scalar", "mss", "msa", "maa", "maa-intkey", "maa-nested", "msa-maa", "msa-maa-intkey",
            "slice-maa", "slice-maa-intkey", "nil-map", "nil-slice", "empty", "deep"}
PrefixTok == {"", "x", "key", "KEY", "unicode"}
CfgTreeP == [tree : TreeTok, prefix : PrefixTok]

-----------------------------------------------------------------------------
(* the families *)
Families == {"cron-term", "cron-list", "cron-sep", "cron-count", "cron-desc", "cron-tz", "cron-combo",
             "dur-tok", "dur-struct", "stamp",
             "kw-unwrap", "kw-wrap", "pad", "aead-new", "aead-seal", "aead-open",
             "sym-dec", "sym-enc", "asym",
             "key-blob", "key-ws", "key-raw", "jwk-mut", "certs", "key-obj",
             "upper", "rune",
             "enc-header", "enc-manifest", "enc-wfk", "enc-payload", "enc-alg", "enc-encrypt",
             "md-decode", "md-misc", "cfg-decode", "cfg-tree",
             "dur-int", "dur-lit", "decode-target", "retry-cfg"}

Params(f) ==
  CASE f = "cron-term" -> CronTermP [] f = "cron-list" -> CronListP [] f = "cron-sep" -> CronSepP
    [] f = "cron-count" -> CronCountP [] f = "cron-desc" -> CronDescP [] f = "cron-tz" -> CronTzP
    [] f = "cron-combo" -> CronComboP
    [] f = "dur-tok" -> DurTokP [] f = "dur-struct" -> DurStructP [] f = "stamp" -> StampP
    [] f = "kw-unwrap" -> KwUnwrapP [] f = "kw-wrap" -> KwWrapP [] f = "pad" -> PadP
    [] f = "aead-new" -> AeadNewP [] f = "aead-seal" -> AeadSealP [] f = "aead-open" -> AeadOpenP
    [] f = "sym-dec" -> SymDecP [] f = "sym-enc" -> SymEncP [] f = "asym" -> AsymP
    [] f = "key-blob" -> KeyBlobP [] f = "key-ws" -> KeyWsP [] f = "key-raw" -> KeyRawP
    [] f = "jwk-mut" -> JwkMutP [] f = "certs" -> CertsP [] f = "key-obj" -> KeyObjP
    [] f = "upper" -> UpperP [] f = "rune" -> RuneP
    [] f = "enc-header" -> EncHeaderP [] f = "enc-manifest" -> EncManifestP [] f = "enc-wfk" -> EncWfkP
    [] f = "enc-payload" -> EncPayloadP [] f = "enc-alg" -> EncAlgP [] f = "enc-encrypt" -> EncEncryptP
    [] f = "md-decode" -> MdDecodeP [] f = "md-misc" -> MdMiscP
    [] f = "cfg-decode" -> CfgDecodeP [] f = "cfg-tree" -> CfgTreeP
    [] f = "dur-int" -> DurIntP [] f = "dur-lit" -> DurLitP
    [] f = "decode-target" -> DecodeTargetP [] f = "retry-cfg" -> RetryCfgP

Cls(f, p) ==
  CASE f = "cron-term" -> CronTermCls(p) [] f = "cron-list" -> CronListCls(p)
    [] f = "cron-sep" -> "separators-only"
    [] f = "cron-count" -> (IF TwoOptionals(p.opts) THEN "two-optionals" ELSE "field-count")
    [] f = "cron-desc" -> "descriptor" [] f = "cron-tz" -> CronTzCls(p) [] f = "cron-combo" -> "day-month-combination"
    [] f = "dur-tok" -> DurTokCls(p) [] f = "dur-struct" -> DurStructCls(p) [] f = "stamp" -> "timestamp"
    [] f = "kw-unwrap" -> KwUnwrapCls(p) [] f = "kw-wrap" -> KwWrapCls(p) [] f = "pad" -> PadCls(p)
    [] f = "aead-new" -> "key-length" [] f = "aead-seal" -> AeadSealCls(p) [] f = "aead-open" -> AeadOpenCls(p)
    [] f = "sym-dec" -> SymDecCls(p) [] f = "sym-enc" -> SymEncCls(p) [] f = "asym" -> AsymCls(p)
    [] f = "key-blob" -> KeyBlobCls(p) [] f = "key-ws" -> KeyWsCls(p) [] f = "key-raw" -> "raw-symmetric"
    [] f = "jwk-mut" -> JwkMutCls(p) [] f = "certs" -> "cert-bundle" [] f = "key-obj" -> "key-object"
    [] f = "upper" -> "bytes-" \o p.unit [] f = "rune" -> "rune"
    [] f = "enc-header" -> EncHeaderCls(p) [] f = "enc-manifest" -> EncManifestCls(p)
    [] f = "enc-wfk" -> EncWfkCls(p) [] f = "enc-payload" -> "payload-length"
    [] f = "enc-alg" -> "algorithm-token" [] f = "enc-encrypt" -> "encrypt-options"
    [] f = "md-decode" -> MdDecodeCls(p) [] f = "md-misc" -> "token"
    [] f = "cfg-decode" -> CfgDecodeCls(p) [] f = "cfg-tree" -> "tree"
    [] f = "dur-int" -> DurIntCls(p) [] f = "dur-lit" -> DurLitCls(p)
    [] f = "decode-target" -> "result-" \o p.result [] f = "retry-cfg" -> "retry-" \o p.field

Entries(f, p) ==
  CASE f \in {"cron-term", "cron-list", "cron-sep", "cron-desc", "cron-tz", "cron-combo"} -> CronParseNext
    [] f = "cron-count" -> (IF TwoOptionals(p.opts) THEN <<"cron.NewParser">> ELSE CronParseNext)
    [] f = "dur-tok" -> DurTokEntries(p) [] f = "dur-struct" -> TimeEntries [] f = "stamp" -> <<"time.ParseTime">>
    [] f = "kw-unwrap" -> <<"aeskw.Unwrap">> [] f = "kw-wrap" -> <<"aeskw.Wrap">>
    [] f = "pad" -> <<"padding.PadPKCS7", "padding.UnpadPKCS7">>
    [] f = "aead-new" -> <<"aescbcaead.New">> [] f = "aead-seal" -> <<"aescbcaead.Seal">>
    [] f = "aead-open" -> <<"aescbcaead.Open">>
    [] f = "sym-dec" -> <<"crypto.Decrypt", "crypto.DecryptSymmetric">>
    [] f = "sym-enc" -> <<"crypto.Encrypt", "crypto.EncryptSymmetric">>
    [] f = "asym" -> AsymEntries(p)
    [] f = "key-blob" -> KeyBlobEntries(p) [] f = "key-ws" -> KeyWsEntries
    [] f = "key-raw" -> <<"crypto.ParseKey", "crypto.SerializeKey">>
    [] f = "jwk-mut" -> JwkEntries [] f = "certs" -> CertsEntries
    [] f = "key-obj" -> <<"pem.EncodePrivateKey", "pem.PublicKeysEqual">>
    [] f = "upper" -> <<"streams.UppercaseTransformer">> [] f = "rune" -> <<"streams.RuneToUppercase">>
    [] f \in {"enc-header", "enc-wfk", "enc-payload"} -> <<"enc.Decrypt">>
    [] f = "enc-manifest" -> EncManifestEntries
    [] f = "enc-alg" -> EncAlgEntries [] f = "enc-encrypt" -> <<"enc.Encrypt">>
    [] f = "md-decode" -> MdDecodeEntries(p) [] f = "md-misc" -> MdMiscEntries
    [] f = "cfg-decode" -> <<"config.Decode">>
    [] f = "cfg-tree" -> <<"config.Normalize", "config.PrefixedBy">>
    [] f \in {"dur-int", "dur-lit"} -> DurEntries(p)
    [] f = "decode-target" -> DecodeTargetEntries [] f = "retry-cfg" -> RetryCfgEntries(p)

Range(s) == {s[i] : i \in DOMAIN s}

Shape(f, p) == [fam |-> f, cls |-> Cls(f, p), entries |-> Entries(f, p), p |-> p]
ShapesOf(f) == {Shape(f, p) : p \in Params(f)}

(* --- value laws ("malformed input is reported through the returned error") --- *)
(* a shape whose value does not fit the type it is decoded into: the call must  *)
(* return an error                                                              *)
MustReject(f, p) == \/ f = "dur-int" /\ ~DurIntFits(p)
                    \/ f = "dur-lit" /\ p.lit \notin DurLitsFitting
(* what a call that returns no error must have produced (the harness reports    *)
(* `got`): for duration values the sign of the decoded duration (a wrapped-     *)
(* around product shows as the wrong sign), for config pointer chains the       *)
(* text of the field; "any" = no expectation                                    *)
Expect(f, p) == CASE f = "dur-int" -> (IF p.digits = <<0>> THEN "zero" ELSE IF p.neg THEN "neg" ELSE "pos")
                  [] f = "dur-lit" -> "pos"
                  [] f = "cfg-decode" -> CfgExpect(p)
                  [] OTHER -> "any"

(* e is a recorded call on a shape of the grammar *)
IsShapeCall(e) ==
  /\ e.fam \in Families
  /\ e.p \in Params(e.fam)
  /\ e.cls = Cls(e.fam, e.p)
  /\ e.entry \in Range(Entries(e.fam, e.p))
=============================================================================
