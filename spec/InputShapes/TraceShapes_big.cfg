SPECIFICATION TSpec
CONSTANTS Big = TRUE
CONSTRAINT Report
CHECK_DEADLOCK FALSE
