SPECIFICATION Spec
CONSTANTS Big = TRUE Dropped = {} EmitFile = "shapes.ndjson" ModelFams <- Families
INVARIANTS NotBad Completes
CHECK_DEADLOCK FALSE
