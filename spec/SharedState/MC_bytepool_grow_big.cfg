SPECIFICATION Spec
CONSTANTS NG = 2 Cap = 2 MaxSl = 3 MaxOps = 7 ZeroToCap = TRUE AllowShrink = TRUE AllowGrow = TRUE ResizePutsOld = FALSE
INVARIANTS NotBad NoForeignReachable ExclusiveSlices
CHECK_DEADLOCK FALSE
