SPECIFICATION Spec
CONSTANTS NG = 3 LNames = {"a", "b", "c"} Calls = 3 Atomic = TRUE
INVARIANTS NotBad
PROPERTY Stable
CHECK_DEADLOCK FALSE
