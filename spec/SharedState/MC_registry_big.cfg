SPECIFICATION Spec
CONSTANTS NG = 3 LNames = {"a", "b", "c"} Calls = 3 Atomic = TRUE NW = 2 Walks = 2 RegistryWalkUnlocked = FALSE
INVARIANTS NotBad
PROPERTIES Stable NoWriteDuringLiveWalk
CHECK_DEADLOCK FALSE
