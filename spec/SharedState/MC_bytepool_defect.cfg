SPECIFICATION Spec
CONSTANTS NG = 2 Cap = 2 MaxSl = 1 MaxOps = 5 ZeroToCap = FALSE AllowShrink = TRUE
INVARIANTS NotBad
CHECK_DEADLOCK FALSE
