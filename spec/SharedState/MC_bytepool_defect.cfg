SPECIFICATION Spec
CONSTANTS NG = 2 Cap = 2 MaxSl = 1 MaxOps = 5 ZeroToCap = FALSE AllowShrink = TRUE AllowGrow = FALSE ResizePutsOld = FALSE
INVARIANTS NotBad
CHECK_DEADLOCK FALSE
