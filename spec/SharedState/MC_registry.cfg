SPECIFICATION Spec
CONSTANTS NG = 3 LNames = {"a", "b"} Calls = 2 Atomic = TRUE
INVARIANTS NotBad
PROPERTY Stable
CHECK_DEADLOCK FALSE
