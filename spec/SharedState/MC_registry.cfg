SPECIFICATION Spec
CONSTANTS NG = 3 LNames = {"a", "b"} Calls = 2 Atomic = TRUE NW = 1 Walks = 2 RegistryWalkUnlocked = FALSE
INVARIANTS NotBad
PROPERTIES Stable NoWriteDuringLiveWalk
CHECK_DEADLOCK FALSE
