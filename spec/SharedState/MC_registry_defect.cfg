SPECIFICATION Spec
CONSTANTS NG = 2 LNames = {"a"} Calls = 1 Atomic = FALSE NW = 0 Walks = 0 RegistryWalkUnlocked = FALSE
INVARIANTS NotBad
CHECK_DEADLOCK FALSE
