SPECIFICATION Spec
CONSTANTS NG = 2 LNames = {"a"} Calls = 1 Atomic = FALSE
INVARIANTS NotBad
CHECK_DEADLOCK FALSE
