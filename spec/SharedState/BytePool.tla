------------------------------ MODULE BytePool ------------------------------
(* Model of byteslicepool.ByteSlicePool (byteslicepool.go:42-81).  A slice   *)
(* has a capacity Cap, a length, and content data[1..Cap] where each byte is  *)
(* 0 or the number of the goroutine that wrote it.  Goroutines Get (a fresh   *)
(* slice or one from the pool), Append, Shrink (Resize to a smaller length,   *)
(* or b[:k]), View (Resize to a length within capacity / re-slice / append:   *)
(* the bytes 1..n become visible to the holder), Grow (Resize beyond the      *)
(* capacity: a new slice with the old content; the caller still references    *)
(* the old one and may read it, write it or Put it later, e.g. from a         *)
(* `defer pool.Put(buf)`) and Put.  The pool is a bag.                        *)
(* ZeroToCap = FALSE: Get clears buf[0:len(buf)] only (the code before its    *)
(* repair); TRUE: the whole capacity.  AllowShrink = FALSE restricts callers  *)
(* to returning slices at their full written length.  ResizePutsOld = TRUE    *)
(* is the broken shape in which a growing Resize puts the old slice into the  *)
(* pool itself.                                                               *)
EXTENDS SharedContract, Integers, TLC

CONSTANTS NG, Cap, MaxSl, MaxOps, ZeroToCap, AllowShrink, AllowGrow, ResizePutsOld

VARIABLES sl, pool, nsl, held, wrote, ops, old, exp, oexp, cslot, oslot, c
vars == <<sl, pool, nsl, held, wrote, ops, old, exp, oexp, cslot, oslot, c>>
G == 1..NG
Idx == 1..Cap
Zero == [i \in Idx |-> 0]
SName(g, slot) == g * 10 + slot          \* slice numbers shown to the monitor

Init == /\ sl = [s \in 1..MaxSl |-> [len |-> 0, data |-> Zero]]
        /\ pool = [s \in 1..MaxSl |-> 0] /\ nsl = 0
        /\ held = [g \in G |-> 0] /\ wrote = [g \in G |-> 0] /\ ops = [g \in G |-> 0]
        /\ old = [g \in G |-> 0] /\ exp = [g \in G |-> Zero] /\ oexp = [g \in G |-> Zero]
        /\ cslot = [g \in G |-> 1] /\ oslot = [g \in G |-> 0]
        /\ c = CReset([kind |-> "bytepool", n |-> NG])

Tick(g) == ops' = [ops EXCEPT ![g] = @ + 1]
FreeSlot(g) == IF oslot[g] = 1 THEN 2 ELSE 1

GetFresh(g) ==
  /\ held[g] = 0 /\ nsl < MaxSl
  /\ nsl' = nsl + 1 /\ held' = [held EXCEPT ![g] = nsl + 1] /\ wrote' = [wrote EXCEPT ![g] = 0]
  /\ cslot' = [cslot EXCEPT ![g] = FreeSlot(g)]
  /\ c' = Feed(c, <<[ev |-> "bget", g |-> g, len |-> 0, reused |-> FALSE],
                    [ev |-> "bown", s |-> SName(g, FreeSlot(g)), mem |-> nsl + 1, via |-> "get"]>>)
  /\ exp' = [exp EXCEPT ![g] = Zero]
  /\ Tick(g) /\ UNCHANGED <<sl, pool, old, oexp, oslot>>

GetPooled(g) ==
  /\ held[g] = 0
  /\ \E s \in 1..MaxSl :
       /\ pool[s] > 0
       /\ LET upto == IF ZeroToCap THEN Cap ELSE sl[s].len
              nd == [i \in Idx |-> IF i <= upto THEN 0 ELSE sl[s].data[i]] IN
          /\ sl' = [sl EXCEPT ![s] = [len |-> 0, data |-> nd]]
          /\ exp' = [exp EXCEPT ![g] = nd]     \* what the slice held when it was handed out
       /\ pool' = [pool EXCEPT ![s] = @ - 1] /\ held' = [held EXCEPT ![g] = s]
       /\ c' = Feed(c, <<[ev |-> "bget", g |-> g, len |-> 0, reused |-> TRUE],
                         [ev |-> "bown", s |-> SName(g, FreeSlot(g)), mem |-> s, via |-> "get"]>>)
  /\ wrote' = [wrote EXCEPT ![g] = 0]
  /\ cslot' = [cslot EXCEPT ![g] = FreeSlot(g)]
  /\ Tick(g) /\ UNCHANGED <<nsl, old, oexp, oslot>>

AppendB(g) ==
  /\ held[g] # 0 /\ sl[held[g]].len < Cap
  /\ LET s == held[g] IN sl' = [sl EXCEPT ![s].len = @ + 1, ![s].data[sl[s].len + 1] = g]
  /\ wrote' = [wrote EXCEPT ![g] = IF sl[held[g]].len + 1 > @ THEN sl[held[g]].len + 1 ELSE @]
  /\ exp' = [exp EXCEPT ![g][sl[held[g]].len + 1] = g]
  /\ Tick(g) /\ UNCHANGED <<pool, nsl, held, old, oexp, cslot, oslot, c>>

Shrink(g) ==
  /\ AllowShrink /\ held[g] # 0 /\ sl[held[g]].len > 0
  /\ \E k \in 0..(sl[held[g]].len - 1) : sl' = [sl EXCEPT ![held[g]].len = k]
  /\ Tick(g) /\ UNCHANGED <<pool, nsl, held, wrote, old, exp, oexp, cslot, oslot, c>>

View(g) ==
  /\ held[g] # 0
  /\ \E n \in Idx :
       /\ n > sl[held[g]].len
       /\ c' = Feed(c, <<[ev |-> "bview", g |-> g, n |-> n,
                          foreign |-> Cardinality({i \in 1..n : sl[held[g]].data[i] \notin {0, g}})]>>)
       /\ sl' = [sl EXCEPT ![held[g]].len = n]
  /\ Tick(g) /\ UNCHANGED <<pool, nsl, held, wrote, old, exp, oexp, cslot, oslot>>

(* Resize(orig, size) with size >= cap(orig): make + copy; orig stays with the caller *)
Grow(g) ==
  /\ AllowGrow /\ held[g] # 0 /\ old[g] = 0 /\ nsl < MaxSl
  /\ LET o == held[g] n == nsl + 1
         nd == [i \in Idx |-> IF i <= sl[o].len THEN sl[o].data[i] ELSE 0] IN
       /\ sl' = [sl EXCEPT ![n] = [len |-> sl[o].len, data |-> nd]]
       /\ nsl' = n /\ held' = [held EXCEPT ![g] = n]
       /\ old' = [old EXCEPT ![g] = o] /\ oexp' = [oexp EXCEPT ![g] = exp[g]] /\ exp' = [exp EXCEPT ![g] = nd]
       /\ oslot' = [oslot EXCEPT ![g] = cslot[g]] /\ cslot' = [cslot EXCEPT ![g] = 3 - cslot[g]]
       /\ pool' = IF ResizePutsOld THEN [pool EXCEPT ![o] = @ + 1] ELSE pool
       /\ c' = Feed(c, <<[ev |-> "bown", s |-> SName(g, 3 - cslot[g]), mem |-> n, via |-> "resize"]>>)
  /\ Tick(g) /\ UNCHANGED wrote

(* the caller writes through the slice it kept *)
WriteOld(g) ==
  /\ old[g] # 0
  /\ sl' = [sl EXCEPT ![old[g]].data[1] = g] /\ oexp' = [oexp EXCEPT ![g][1] = g]
  /\ Tick(g) /\ UNCHANGED <<pool, nsl, held, wrote, old, exp, cslot, oslot, c>>

PutOld(g) ==
  /\ old[g] # 0
  /\ pool' = [pool EXCEPT ![old[g]] = @ + 1] /\ old' = [old EXCEPT ![g] = 0] /\ oslot' = [oslot EXCEPT ![g] = 0]
  /\ c' = Feed(c, <<[ev |-> "brel", s |-> SName(g, oslot[g])]>>)
  /\ Tick(g) /\ UNCHANGED <<sl, nsl, held, wrote, exp, oexp, cslot>>

ReadBack(g) ==
  /\ AllowGrow
  /\ \/ /\ held[g] # 0
        /\ c' = Feed(c, <<[ev |-> "bread", s |-> SName(g, cslot[g]),
                           ok |-> sl[held[g]].data = exp[g]]>>)
     \/ /\ old[g] # 0
        /\ c' = Feed(c, <<[ev |-> "bread", s |-> SName(g, oslot[g]),
                           ok |-> sl[old[g]].data = oexp[g]]>>)
  /\ Tick(g) /\ UNCHANGED <<sl, pool, nsl, held, wrote, old, exp, oexp, cslot, oslot>>

PutB(g) ==
  /\ held[g] # 0
  /\ pool' = [pool EXCEPT ![held[g]] = @ + 1] /\ held' = [held EXCEPT ![g] = 0]
  /\ c' = Feed(c, <<[ev |-> "bput", g |-> g, wrote |-> wrote[g], putlen |-> sl[held[g]].len, cap |-> Cap],
                    [ev |-> "brel", s |-> SName(g, cslot[g])]>>)
  /\ Tick(g) /\ UNCHANGED <<sl, nsl, wrote, old, exp, oexp, cslot, oslot>>

Next == \E g \in G : ops[g] < MaxOps /\ (GetFresh(g) \/ GetPooled(g) \/ AppendB(g) \/ Shrink(g) \/ View(g) \/ Grow(g)
                                           \/ WriteOld(g) \/ PutOld(g) \/ ReadBack(g) \/ PutB(g))
Spec == Init /\ [][Next]_vars

NotBad == ~IsBad(c)
(* stated on the model state as well: whatever a holder can reach within the *)
(* capacity of its slice is zero or its own                                  *)
NoForeignReachable == \A g \in G : held[g] # 0 => \A i \in Idx : sl[held[g]].data[i] \in {0, g}
(* and: nothing a caller still references is in the pool or with another caller *)
Refs(g) == {held[g], old[g]} \ {0}
ExclusiveSlices == /\ \A g \in G : \A s \in Refs(g) : pool[s] = 0
                   /\ \A g, h \in G : g # h => Refs(g) \cap Refs(h) = {}
                   /\ \A g \in G : held[g] # 0 => held[g] # old[g]
                   /\ \A s \in 1..MaxSl : pool[s] <= 1
=============================================================================
