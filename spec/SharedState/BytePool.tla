------------------------------ MODULE BytePool ------------------------------
(* Model of byteslicepool.ByteSlicePool (byteslicepool.go:42-81).  A slice   *)
(* has a capacity Cap, a length, and content data[1..Cap] where each byte is  *)
(* 0 or the number of the goroutine that wrote it.  Goroutines Get (a fresh   *)
(* slice or one from the pool), Append, Shrink (Resize to a smaller length,   *)
(* or b[:k]), View (Resize to a length within capacity / re-slice / append:   *)
(* the bytes 1..n become visible to the holder) and Put.                      *)
(* ZeroToCap = FALSE is the code as found: Get clears buf[0:len(buf)] only.   *)
(* ZeroToCap = TRUE clears the whole capacity.  AllowShrink = FALSE restricts *)
(* callers to returning slices at their full written length.                  *)
EXTENDS SharedContract, Integers, TLC

CONSTANTS NG, Cap, MaxSl, MaxOps, ZeroToCap, AllowShrink

VARIABLES sl, pool, nsl, held, wrote, ops, c
vars == <<sl, pool, nsl, held, wrote, ops, c>>
G == 1..NG
Idx == 1..Cap
Zero == [i \in Idx |-> 0]

Init == /\ sl = [s \in 1..MaxSl |-> [len |-> 0, data |-> Zero]]
        /\ pool = {} /\ nsl = 0
        /\ held = [g \in G |-> 0] /\ wrote = [g \in G |-> 0] /\ ops = [g \in G |-> 0]
        /\ c = CReset([kind |-> "bytepool", n |-> NG])

Tick(g) == ops' = [ops EXCEPT ![g] = @ + 1]
Ev1(e) == c' = Feed(c, <<e>>)

GetFresh(g) ==
  /\ held[g] = 0 /\ nsl < MaxSl
  /\ nsl' = nsl + 1 /\ held' = [held EXCEPT ![g] = nsl + 1] /\ wrote' = [wrote EXCEPT ![g] = 0]
  /\ Ev1([ev |-> "bget", g |-> g, len |-> 0, reused |-> FALSE])
  /\ Tick(g) /\ UNCHANGED <<sl, pool>>

GetPooled(g) ==
  /\ held[g] = 0
  /\ \E s \in pool :
       LET upto == IF ZeroToCap THEN Cap ELSE sl[s].len IN
       /\ sl' = [sl EXCEPT ![s] = [len |-> 0, data |-> [i \in Idx |-> IF i <= upto THEN 0 ELSE sl[s].data[i]]]]
       /\ pool' = pool \ {s} /\ held' = [held EXCEPT ![g] = s]
  /\ wrote' = [wrote EXCEPT ![g] = 0]
  /\ Ev1([ev |-> "bget", g |-> g, len |-> 0, reused |-> TRUE])
  /\ Tick(g) /\ UNCHANGED nsl

AppendB(g) ==
  /\ held[g] # 0 /\ sl[held[g]].len < Cap
  /\ LET s == held[g] IN sl' = [sl EXCEPT ![s].len = @ + 1, ![s].data[sl[s].len + 1] = g]
  /\ wrote' = [wrote EXCEPT ![g] = IF sl[held[g]].len + 1 > @ THEN sl[held[g]].len + 1 ELSE @]
  /\ Tick(g) /\ UNCHANGED <<pool, nsl, held, c>>

Shrink(g) ==
  /\ AllowShrink /\ held[g] # 0 /\ sl[held[g]].len > 0
  /\ \E k \in 0..(sl[held[g]].len - 1) : sl' = [sl EXCEPT ![held[g]].len = k]
  /\ Tick(g) /\ UNCHANGED <<pool, nsl, held, wrote, c>>

View(g) ==
  /\ held[g] # 0
  /\ \E n \in Idx :
       /\ n > sl[held[g]].len
       /\ Ev1([ev |-> "bview", g |-> g, n |-> n,
               foreign |-> Cardinality({i \in 1..n : sl[held[g]].data[i] \notin {0, g}})])
       /\ sl' = [sl EXCEPT ![held[g]].len = n]
  /\ Tick(g) /\ UNCHANGED <<pool, nsl, held, wrote>>

PutB(g) ==
  /\ held[g] # 0
  /\ pool' = pool \cup {held[g]} /\ held' = [held EXCEPT ![g] = 0]
  /\ Ev1([ev |-> "bput", g |-> g, wrote |-> wrote[g], putlen |-> sl[held[g]].len, cap |-> Cap])
  /\ Tick(g) /\ UNCHANGED <<sl, nsl, wrote>>

Next == \E g \in G : ops[g] < MaxOps /\ (GetFresh(g) \/ GetPooled(g) \/ AppendB(g) \/ Shrink(g) \/ View(g) \/ PutB(g))
Spec == Init /\ [][Next]_vars

NotBad == ~IsBad(c)
(* stated on the model state as well: whatever a holder can reach within the *)
(* capacity of its slice is zero or its own                                  *)
NoForeignReachable == \A g \in G : held[g] # 0 => \A i \in Idx : sl[held[g]].data[i] \in {0, g}
=============================================================================
