SPECIFICATION Spec
CONSTANTS NP = 2 NBuf = 1 Segs = 1 Kinds = {"enc", "dec"} HeaderCopyFix = TRUE ExtraCopy = TRUE HavocOnPut = FALSE
INVARIANTS NotBad NoAliasAfterPut ExclusiveOwner
PROPERTY AllFinish
CHECK_DEADLOCK FALSE
