------------------------------ MODULE BufPool ------------------------------
(* Model of the way schemes/enc/v1 uses its package-level BufPool.          *)
(* Buffers have symbolic content [w |-> writer, t |-> tag]; pipelines are     *)
(* small programs of steps that mirror the code:                              *)
(*                                                                            *)
(*  Encrypt (scheme.go:103-178, 247-337)                                      *)
(*     cb (WrapKeyFn) ; get ; { fill seg s ; emit s }* ; put ; result         *)
(*  Decrypt (scheme.go:182-244, 339-418)                                      *)
(*     get ; fill header ; take manifest ; take mac ; take extra ; put        *)
(*     ; use manifest (json.Unmarshal) ; cb (UnwrapKeyFn)                     *)
(*     ; use manifest, use mac (VerifyHeaderSignature)                        *)
(*     ; get ; use extra (MultiReader delivers it first)                      *)
(*     ; { fill seg s ; emit s }* ; put ; result                              *)
(*                                                                            *)
(* "take" keeps either a slice INTO the pooled buffer (an alias) or a copy.   *)
(* HeaderCopyFix = FALSE is the code as found: readHeader returns manifest    *)
(* and mac as sub-slices of the buffer it Puts on return.  ExtraCopy = TRUE   *)
(* is the code as found for the bytes read past the header (copied).          *)
(* Put HAVOCS the content when HavocOnPut (anything may take and overwrite    *)
(* the buffer from then on; the harness' poison-on-Put hook does exactly      *)
(* that to the real buffer); with HavocOnPut = FALSE the content stays until  *)
(* the next owner fills it, so a violation needs a second pipeline and an     *)
(* unlucky schedule.  Every step is shown to the SharedContract monitor.      *)
EXTENDS SharedContract, Integers, TLC

CONSTANTS NP,            \* pipelines 1..NP
          NBuf,          \* buffers in existence (Get waits if none is free)
          Segs,          \* payload segments per pipeline
          Kinds,         \* pipeline kinds to choose from, subset of {"enc", "dec"}
          HeaderCopyFix, ExtraCopy, HavocOnPut

VARIABLES kind, pc, held, alias, copy, content, free, allok, ended, c
vars == <<kind, pc, held, alias, copy, content, free, allok, ended, c>>

P == 1..NP
B == 1..NBuf
Names == {"manifest", "mac", "extra"}
Val(w, t) == [w |-> w, t |-> t]
Init0 == Val(0, 0)
Havoc == Val(0, 99)
HdrTag == 50                      \* tags: 50 header, s = payload segment s

S(op, a) == [op |-> op, a |-> a]
RECURSIVE SegSteps(_)
SegSteps(s) == IF s > Segs THEN <<>> ELSE <<S("fill", s), S("emit", s)>> \o SegSteps(s + 1)

Prog(k) ==
  IF k = "enc" THEN <<S("cb", 0), S("get", 0)>> \o SegSteps(1) \o <<S("put", 0), S("result", 0)>>
  ELSE <<S("get", 0), S("fill", HdrTag), S("take", "manifest"), S("take", "mac"), S("take", "extra"), S("put", 0),
         S("use", "manifest"), S("cb", 0), S("use", "manifest"), S("use", "mac"),
         S("get", 0), S("use", "extra")>> \o SegSteps(1) \o <<S("put", 0), S("result", 0)>>

Init == /\ kind \in [P -> Kinds]
        /\ pc = [p \in P |-> 1]
        /\ held = [p \in P |-> 0]
        /\ alias = [p \in P |-> [nm \in Names |-> 0]]
        /\ copy = [p \in P |-> [nm \in Names |-> Init0]]
        /\ content = [b \in B |-> Init0]
        /\ free = B
        /\ allok = [p \in P |-> TRUE]
        /\ ended = FALSE
        /\ c = CReset([kind |-> "bufpool", n |-> NP])

Cur(p) == Prog(kind[p])[pc[p]]
Running(p) == pc[p] <= Len(Prog(kind[p]))
Adv(p) == pc' = [pc EXCEPT ![p] = @ + 1]
StepEv(p, op) == [ev |-> "step", p |-> p, op |-> op]
Site(nm) == IF nm = "extra" THEN "extraBytes" ELSE "readHeader"
Copies(nm) == IF nm = "extra" THEN ExtraCopy ELSE HeaderCopyFix

Get(p) == /\ Cur(p).op = "get" /\ held[p] = 0
          /\ \E b \in free : /\ held' = [held EXCEPT ![p] = b] /\ free' = free \ {b}
          /\ c' = Feed(c, <<StepEv(p, "get")>>) /\ Adv(p)
          /\ UNCHANGED <<kind, alias, copy, content, allok, ended>>

Fill(p) == /\ Cur(p).op = "fill" /\ held[p] # 0
           /\ content' = [content EXCEPT ![held[p]] = Val(p, Cur(p).a)]
           /\ c' = Feed(c, <<StepEv(p, "fill")>>) /\ Adv(p)
           /\ UNCHANGED <<kind, held, alias, copy, free, allok, ended>>

Take(p) == /\ Cur(p).op = "take" /\ held[p] # 0
           /\ LET nm == Cur(p).a IN
                IF Copies(nm) THEN /\ copy' = [copy EXCEPT ![p][nm] = content[held[p]]] /\ UNCHANGED alias
                ELSE /\ alias' = [alias EXCEPT ![p][nm] = held[p]] /\ UNCHANGED copy
           /\ c' = Feed(c, <<StepEv(p, "take")>>) /\ Adv(p)
           /\ UNCHANGED <<kind, held, content, free, allok, ended>>

Put(p) == /\ Cur(p).op = "put" /\ held[p] # 0
          /\ free' = free \cup {held[p]} /\ held' = [held EXCEPT ![p] = 0]
          /\ content' = IF HavocOnPut THEN [content EXCEPT ![held[p]] = Havoc] ELSE content
          /\ c' = Feed(c, <<StepEv(p, "put")>>) /\ Adv(p)
          /\ UNCHANGED <<kind, alias, copy, allok, ended>>

Callback(p) == /\ Cur(p).op = "cb"
               /\ c' = Feed(c, <<StepEv(p, "cb")>>) /\ Adv(p)
               /\ UNCHANGED <<kind, held, alias, copy, content, free, allok, ended>>

Use(p) == /\ Cur(p).op = "use"
          /\ LET nm == Cur(p).a
                 v == IF alias[p][nm] # 0 THEN content[alias[p][nm]] ELSE copy[p][nm]
                 ok == v = Val(p, HdrTag)
             IN /\ c' = Feed(c, <<[ev |-> "use", p |-> p, site |-> Site(nm), ok |-> ok]>>)
                /\ allok' = [allok EXCEPT ![p] = @ /\ ok]
          /\ Adv(p)
          /\ UNCHANGED <<kind, held, alias, copy, content, free, ended>>

Emit(p) == /\ Cur(p).op = "emit" /\ held[p] # 0
           /\ LET ok == content[held[p]] = Val(p, Cur(p).a)
              IN /\ c' = Feed(c, <<[ev |-> "use", p |-> p, site |-> "segment", ok |-> ok]>>)
                 /\ allok' = [allok EXCEPT ![p] = @ /\ ok]
           /\ Adv(p)
           /\ UNCHANGED <<kind, held, alias, copy, content, free, ended>>

Result(p) == /\ Cur(p).op = "result"
             /\ c' = Feed(c, <<[ev |-> "result", p |-> p, same |-> allok[p]]>>) /\ Adv(p)
             /\ UNCHANGED <<kind, held, alias, copy, content, free, allok, ended>>

End == /\ ~ended /\ \A p \in P : ~Running(p)
       /\ ended' = TRUE /\ c' = Feed(c, <<[ev |-> "end"]>>)
       /\ UNCHANGED <<kind, pc, held, alias, copy, content, free, allok>>

StepP(p) == Running(p) /\ (Get(p) \/ Fill(p) \/ Take(p) \/ Put(p) \/ Callback(p) \/ Use(p) \/ Emit(p) \/ Result(p))
Next == (\E p \in P : StepP(p)) \/ End
Spec == Init /\ [][Next]_vars /\ WF_vars(Next)

NotBad == ~IsBad(c)
(* the structural reading of the same law: a slice into a pooled buffer does *)
(* not outlive the ownership of that buffer                                  *)
NoAliasAfterPut == \A p \in P : \A nm \in Names : alias[p][nm] # 0 => alias[p][nm] = held[p]
(* ownership is exclusive *)
ExclusiveOwner == \A p, q \in P : p # q /\ held[p] # 0 => held[p] # held[q]
AllFinish == <>ended
=============================================================================
