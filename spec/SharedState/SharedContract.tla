--------------------------- MODULE SharedContract ---------------------------
(* C08 - independent operations do not interfere through package-level       *)
(* shared state.  The property as a deterministic monitor automaton over     *)
(* observable events.  CNext(c, e) is the successor state, or Bad(why) when  *)
(* event e shows one caller's bytes/objects in another caller's result.      *)
(*                                                                           *)
(* One run ("reset" line) is one scenario; its kind says which shared state  *)
(* is exercised.  Events (JSON / records):                                   *)
(*  reset     kind, n          n independent pipelines / workers 1..n        *)
(*  -- kind "bufpool": the enc/v1 buffer pool --------------------------------*)
(*  step      p, op            informational: pipeline p did get / fill /    *)
(*                             put / cb (user callback ran) / open / take    *)
(*  use       p, site, ok      pipeline p consumed bytes it had read through *)
(*                             a pooled buffer at `site` ("readHeader": the  *)
(*                             manifest and MAC lines, "extraBytes": bytes   *)
(*                             read past the header, "segment": a payload    *)
(*                             segment, "encrypt": the produced ciphertext); *)
(*                             ok <=> they are the bytes p itself put there  *)
(*  result    p, same          p finished; same <=> error class and output   *)
(*                             bytes equal p's own sequential run            *)
(*  -- kind "registry": logger get-or-create ---------------------------------*)
(*  newlogger g, name, obj     NewLogger(name) returned object number obj    *)
(*                             (objects numbered by identity)                *)
(*  -- kind "bytepool": ByteSlicePool ---------------------------------------*)
(*  bput      g, wrote, putlen, cap   g returned a slice in which it had     *)
(*                             written `wrote` bytes, with length putlen     *)
(*  bget      g, len, reused   Get returned a slice of this length           *)
(*  bview     g, n, foreign    g looked at the first n bytes of the slice it *)
(*                             got (Resize / re-slice / append within cap);  *)
(*                             foreign = how many of them are neither zero   *)
(*                             nor written by g                              *)
(*  bown      s, mem, via      Get or Resize (via) handed slice number s to  *)
(*                             a caller; mem numbers the memory block behind *)
(*                             it (equal mem <=> the blocks overlap)         *)
(*  brel      s                the caller that owned slice s Put it          *)
(*  bread     s, ok            the owner of s read it back; ok <=> it holds  *)
(*                             exactly what that owner wrote into it         *)
(*  (ownership law: a slice handed out by Get/Resize is owned by exactly one *)
(*  caller until that caller Puts it - growing through Resize does not end   *)
(*  the caller's ownership of the old slice)                                 *)
(*  -- kind "calc": stateless calls (cron parse, crypto) ---------------------*)
(*  calc      g, what, same    a call made concurrently returned the same    *)
(*                             value as when made alone                      *)
(*  -- kind "race" ------------------------------------------------------------*)
(*  race      site             the Go race detector reported a data race on  *)
(*                             the memory named by site while the scenarios  *)
(*                             ran (the property demands race freedom), or   *)
(*                             the runtime aborted the process with a fatal  *)
(*                             "concurrent map ..." error there              *)
(*  end                        the scenario is over                          *)
EXTENDS Naturals, Sequences, FiniteSets

Bad(why) == [bad |-> TRUE, why |-> why]
IsBad(c) == c.bad

CReset(e) ==
  [bad |-> FALSE, why |-> "", kind |-> e.kind, n |-> e.n,
   done |-> {},        \* pipelines whose result was seen
   reg |-> {},         \* <<name, obj>> pairs returned so far
   live |-> {}]        \* <<slice, mem>> pairs handed out by the byte pool and not yet Put

Dummy == CReset([kind |-> "bufpool", n |-> 0])

Known(c, p) == p \in 1..c.n

CStep(c, e) == IF ~Known(c, e.p) THEN Bad("harness: unknown pipeline") ELSE c

(* the heart of the buffer-pool law: whatever a pipeline reads back through  *)
(* the pool (directly, or through a slice it kept) is what it wrote itself   *)
CUse(c, e) ==
  IF ~Known(c, e.p) THEN Bad("harness: unknown pipeline")
  ELSE IF ~e.ok THEN Bad("bytes consumed at " \o e.site \o " are not the pipeline's own")
  ELSE c

CResult(c, e) ==
  IF ~Known(c, e.p) THEN Bad("harness: unknown pipeline")
  ELSE IF e.p \in c.done THEN Bad("harness: two results for one pipeline")
  ELSE IF ~e.same THEN Bad("result differs from the pipeline's own sequential run")
  ELSE [c EXCEPT !.done = @ \cup {e.p}]

(* get-or-create is linearizable and nothing is ever removed: every call for *)
(* a name returns the one object of that name, and names do not share        *)
CNewLogger(c, e) ==
  IF \E pr \in c.reg : pr[1] = e.name /\ pr[2] # e.obj THEN Bad("two loggers for one name")
  ELSE IF \E pr \in c.reg : pr[1] # e.name /\ pr[2] = e.obj THEN Bad("one logger for two names")
  ELSE [c EXCEPT !.reg = @ \cup {<<e.name, e.obj>>}]

CBPut(c, e) == IF e.putlen > e.cap THEN Bad("harness: putlen beyond cap") ELSE c
CBGet(c, e) == IF e.len # 0 THEN Bad("Get returned a non-empty slice") ELSE c
CBView(c, e) == IF e.foreign > 0 THEN Bad("stale bytes visible") ELSE c

CBOwn(c, e) ==
  IF \E pr \in c.live : pr[2] = e.mem /\ pr[1] # e.s THEN Bad("a slice handed out shares memory with a live slice")
  ELSE [c EXCEPT !.live = {pr \in @ : pr[1] # e.s} \cup {<<e.s, e.mem>>}]
CBRel(c, e) == [c EXCEPT !.live = {pr \in @ : pr[1] # e.s}]
CBRead(c, e) ==
  IF (\E pr \in c.live : pr[1] = e.s) /\ ~e.ok THEN Bad("a live slice no longer holds what its owner wrote")
  ELSE c

CCalc(c, e) == IF ~e.same THEN Bad("concurrent " \o e.what \o " call differs from the same call made alone") ELSE c

CRace(c, e) == Bad("data race on " \o e.site)

CEnd(c) ==
  IF c.kind = "bufpool" /\ c.done # 1..c.n THEN Bad("a pipeline never finished")
  ELSE c

CNext(c, e) ==
  IF e.ev = "reset" THEN CReset(e)
  ELSE IF IsBad(c) THEN c
  ELSE CASE e.ev = "step"      -> CStep(c, e)
         [] e.ev = "use"       -> CUse(c, e)
         [] e.ev = "result"    -> CResult(c, e)
         [] e.ev = "newlogger" -> CNewLogger(c, e)
         [] e.ev = "bput"      -> CBPut(c, e)
         [] e.ev = "bget"      -> CBGet(c, e)
         [] e.ev = "bview"     -> CBView(c, e)
         [] e.ev = "bown"      -> CBOwn(c, e)
         [] e.ev = "brel"      -> CBRel(c, e)
         [] e.ev = "bread"     -> CBRead(c, e)
         [] e.ev = "calc"      -> CCalc(c, e)
         [] e.ev = "race"      -> CRace(c, e)
         [] e.ev = "end"       -> CEnd(c)

RECURSIVE Feed(_, _)
Feed(cc, evs) == IF evs = <<>> THEN cc ELSE Feed(CNext(cc, Head(evs)), Tail(evs))
=============================================================================
