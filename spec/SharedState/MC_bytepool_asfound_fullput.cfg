SPECIFICATION Spec
CONSTANTS NG = 2 Cap = 3 MaxSl = 2 MaxOps = 6 ZeroToCap = FALSE AllowShrink = FALSE AllowGrow = FALSE ResizePutsOld = FALSE
INVARIANTS NotBad
CHECK_DEADLOCK FALSE
