---------------------------- MODULE TraceShared ----------------------------
(* Validates recorded executions of the real code (enc/v1 pipelines under    *)
(* poison-on-Put and under seeded/free schedules, logger.NewLogger rounds,    *)
(* ByteSlicePool sequences, concurrent cron/crypto calls) against the C08     *)
(* contract monitor.  trace.ndjson holds many runs, each starting with a      *)
(* "reset" line; every run is its own behaviour.  The monitor is              *)
(* deterministic; a rejected run is reported from the Report constraint.      *)
EXTENDS SharedContract, TraceLib

Trace == LoadTrace("trace.ndjson")
Starts == {i \in 1..Len(Trace) : Trace[i].ev = "reset"}
VARIABLES l, c
TInit == l \in Starts /\ c = CReset(Trace[l])
TNext == /\ ~IsBad(c)
         /\ l + 1 <= Len(Trace)
         /\ Trace[l + 1].ev # "reset"
         /\ c' = CNext(c, Trace[l + 1])
         /\ l' = l + 1
TSpec == TInit /\ [][TNext]_<<l, c>>
Report == IF IsBad(c) THEN RejectLine(l, c.why) ELSE TRUE
=============================================================================
