SPECIFICATION Spec
CONSTANTS NP = 2 NBuf = 1 Segs = 1 Kinds = {"enc", "dec"} HeaderCopyFix = FALSE ExtraCopy = TRUE HavocOnPut = FALSE
INVARIANTS NotBad
CHECK_DEADLOCK FALSE
