SPECIFICATION Spec
CONSTANTS NG = 1 Cap = 1 MaxSl = 2 MaxOps = 6 ZeroToCap = TRUE AllowShrink = FALSE AllowGrow = TRUE ResizePutsOld = TRUE
INVARIANTS NotBad
CHECK_DEADLOCK FALSE
