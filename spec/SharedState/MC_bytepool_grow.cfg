SPECIFICATION Spec
CONSTANTS NG = 2 Cap = 2 MaxSl = 3 MaxOps = 5 ZeroToCap = TRUE AllowShrink = FALSE AllowGrow = TRUE ResizePutsOld = FALSE
INVARIANTS NotBad NoForeignReachable ExclusiveSlices
CHECK_DEADLOCK FALSE
