SPECIFICATION Spec
CONSTANTS NG = 1 LNames = {"a", "b"} Calls = 2 Atomic = TRUE NW = 1 Walks = 1 RegistryWalkUnlocked = TRUE
INVARIANTS NotBad
CHECK_DEADLOCK FALSE
