SPECIFICATION Spec
CONSTANTS NP = 3 NBuf = 3 Segs = 2 Kinds = {"enc", "dec"} HeaderCopyFix = TRUE ExtraCopy = TRUE HavocOnPut = FALSE
INVARIANTS NotBad NoAliasAfterPut ExclusiveOwner
PROPERTY AllFinish
CHECK_DEADLOCK FALSE
