SPECIFICATION Spec
CONSTANTS NG = 2 Cap = 3 MaxSl = 2 MaxOps = 6 ZeroToCap = TRUE AllowShrink = TRUE AllowGrow = FALSE ResizePutsOld = FALSE
INVARIANTS NotBad NoForeignReachable
CHECK_DEADLOCK FALSE
