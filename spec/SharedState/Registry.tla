------------------------------ MODULE Registry ------------------------------
(* Model of logger.NewLogger (logger/logger.go:133-145): a package-level     *)
(* name |-> Logger map with get-or-create.  Atomic = TRUE is the code as      *)
(* found: look-up and insertion happen under one exclusive lock, i.e. in one  *)
(* step.  Atomic = FALSE is the classic broken shape (look up under a read    *)
(* lock, create and insert later without looking again): two callers of a     *)
(* new name each get their own object.  Every return is shown to the          *)
(* SharedContract monitor (same name => same object).                         *)
EXTENDS SharedContract, Integers, TLC

CONSTANTS NG,        \* goroutines 1..NG
          LNames,    \* logger names
          Calls,     \* NewLogger calls per goroutine
          Atomic

VARIABLES reg, nobj, st, cur, seen, left, c
vars == <<reg, nobj, st, cur, seen, left, c>>
G == 1..NG

Init == /\ reg = [nm \in LNames |-> 0] /\ nobj = 0
        /\ st = [g \in G |-> "idle"] /\ cur = [g \in G |-> CHOOSE nm \in LNames : TRUE]
        /\ seen = [g \in G |-> 0] /\ left = [g \in G |-> Calls]
        /\ c = CReset([kind |-> "registry", n |-> NG])

Ret(g, nm, o) == c' = Feed(c, <<[ev |-> "newlogger", g |-> g, name |-> nm, obj |-> o]>>)

(* the whole call in one step: globalLoggersLock.Lock() ... Unlock() *)
CallAtomic(g) ==
  /\ Atomic /\ st[g] = "idle" /\ left[g] > 0
  /\ \E nm \in LNames :
       LET o == IF reg[nm] # 0 THEN reg[nm] ELSE nobj + 1 IN
       /\ reg' = [reg EXCEPT ![nm] = o]
       /\ nobj' = IF reg[nm] # 0 THEN nobj ELSE nobj + 1
       /\ Ret(g, nm, o)
  /\ left' = [left EXCEPT ![g] = @ - 1]
  /\ UNCHANGED <<st, cur, seen>>

(* the split shape *)
Check(g) ==
  /\ ~Atomic /\ st[g] = "idle" /\ left[g] > 0
  /\ \E nm \in LNames : cur' = [cur EXCEPT ![g] = nm] /\ seen' = [seen EXCEPT ![g] = reg[nm]]
  /\ st' = [st EXCEPT ![g] = "checked"]
  /\ UNCHANGED <<reg, nobj, left, c>>

Create(g) ==
  /\ ~Atomic /\ st[g] = "checked"
  /\ IF seen[g] # 0
       THEN /\ Ret(g, cur[g], seen[g]) /\ UNCHANGED <<reg, nobj>>
       ELSE /\ reg' = [reg EXCEPT ![cur[g]] = nobj + 1] /\ nobj' = nobj + 1
            /\ Ret(g, cur[g], nobj + 1)
  /\ st' = [st EXCEPT ![g] = "idle"] /\ left' = [left EXCEPT ![g] = @ - 1]
  /\ UNCHANGED <<cur, seen>>

Next == \E g \in G : CallAtomic(g) \/ Check(g) \/ Create(g)
Spec == Init /\ [][Next]_vars

NotBad == ~IsBad(c)
(* the registry itself never rebinds a name *)
Stable == [][\A nm \in LNames : reg[nm] # 0 => reg'[nm] = reg[nm]]_vars
=============================================================================
