------------------------------ MODULE Registry ------------------------------
(* Model of the logger registry (logger/logger.go:61-160, options.go:83-105): *)
(* a package-level name |-> Logger map behind an RWMutex, NewLogger           *)
(* (get-or-create) and ApplyOptionsToLoggers (walks all registered loggers).  *)
(* Atomic = TRUE is the code as found for NewLogger: look-up and insertion    *)
(* happen under the exclusive lock, i.e. in one step that needs the lock      *)
(* free of readers.  Atomic = FALSE is the classic broken shape (look up,     *)
(* create and insert later without looking again).                            *)
(* RegistryWalkUnlocked = FALSE is the code as found for the walk: getLoggers *)
(* copies the map while holding the read lock and the caller walks the copy.  *)
(* RegistryWalkUnlocked = TRUE hands out the live map: the read lock is       *)
(* released before the walk, so an insertion can happen in the middle of the  *)
(* iteration - a data race, and a fatal "concurrent map iteration and map     *)
(* write" of the Go runtime; the model shows that moment to the monitor as a  *)
(* `race` event.  Every NewLogger return is shown as `newlogger`.             *)
EXTENDS SharedContract, Integers, TLC

CONSTANTS NG,        \* goroutines 1..NG calling NewLogger
          LNames,    \* logger names
          Calls,     \* NewLogger calls per goroutine
          Atomic,
          NW,        \* goroutines NG+1..NG+NW calling ApplyOptionsToLoggers
          Walks,     \* walks per walker
          RegistryWalkUnlocked

VARIABLES reg, nobj, st, cur, seen, left, rlock, wst, todo, wleft, c
vars == <<reg, nobj, st, cur, seen, left, rlock, wst, todo, wleft, c>>
G == 1..NG
W == (NG + 1)..(NG + NW)
Registered == {nm \in LNames : reg[nm] # 0}

Init == /\ reg = [nm \in LNames |-> 0] /\ nobj = 0
        /\ st = [g \in G |-> "idle"] /\ cur = [g \in G |-> CHOOSE nm \in LNames : TRUE]
        /\ seen = [g \in G |-> 0] /\ left = [g \in G |-> Calls]
        /\ rlock = {}                                  \* holders of the read lock
        /\ wst = [w \in W |-> "idle"]                  \* idle | locked | live (walking the map itself) | copy (walking a private copy)
        /\ todo = [w \in W |-> {}] /\ wleft = [w \in W |-> Walks]
        /\ c = CReset([kind |-> "registry", n |-> NG + NW])

LiveWalkers == {w \in W : wst[w] = "live"}
(* a map insertion: legal only with the lock exclusively held; a walker in   *)
(* the middle of a live iteration is hit by it                               *)
InsertEvs(g) == IF LiveWalkers # {} THEN <<[ev |-> "race", site |-> "logger-registry"]>> ELSE <<>>
RetEv(g, nm, o) == [ev |-> "newlogger", g |-> g, name |-> nm, obj |-> o]

(* the whole call in one step: globalLoggersLock.Lock() ... Unlock() *)
CallAtomic(g) ==
  /\ Atomic /\ st[g] = "idle" /\ left[g] > 0 /\ rlock = {}
  /\ \E nm \in LNames :
       LET new == reg[nm] = 0
           o == IF new THEN nobj + 1 ELSE reg[nm] IN
       /\ reg' = [reg EXCEPT ![nm] = o]
       /\ nobj' = IF new THEN nobj + 1 ELSE nobj
       /\ c' = Feed(c, (IF new THEN InsertEvs(g) ELSE <<>>) \o <<RetEv(g, nm, o)>>)
  /\ left' = [left EXCEPT ![g] = @ - 1]
  /\ UNCHANGED <<st, cur, seen, rlock, wst, todo, wleft>>

(* the split shape *)
Check(g) ==
  /\ ~Atomic /\ st[g] = "idle" /\ left[g] > 0
  /\ \E nm \in LNames : cur' = [cur EXCEPT ![g] = nm] /\ seen' = [seen EXCEPT ![g] = reg[nm]]
  /\ st' = [st EXCEPT ![g] = "checked"]
  /\ UNCHANGED <<reg, nobj, left, rlock, wst, todo, wleft, c>>

Create(g) ==
  /\ ~Atomic /\ st[g] = "checked" /\ (seen[g] # 0 \/ rlock = {})
  /\ IF seen[g] # 0
       THEN /\ c' = Feed(c, <<RetEv(g, cur[g], seen[g])>>) /\ UNCHANGED <<reg, nobj>>
       ELSE /\ reg' = [reg EXCEPT ![cur[g]] = nobj + 1] /\ nobj' = nobj + 1
            /\ c' = Feed(c, InsertEvs(g) \o <<RetEv(g, cur[g], nobj + 1)>>)
  /\ st' = [st EXCEPT ![g] = "idle"] /\ left' = [left EXCEPT ![g] = @ - 1]
  /\ UNCHANGED <<cur, seen, rlock, wst, todo, wleft>>

(* ApplyOptionsToLoggers: getLoggers() then a walk *)
WLock(w) ==                                            \* globalLoggersLock.RLock()
  /\ wst[w] = "idle" /\ wleft[w] > 0
  /\ rlock' = rlock \cup {w} /\ wst' = [wst EXCEPT ![w] = "locked"]
  /\ UNCHANGED <<reg, nobj, st, cur, seen, left, todo, wleft, c>>

WUnlock(w) ==                                          \* ... RUnlock(): with a copy, or with the map itself
  /\ wst[w] = "locked"
  /\ rlock' = rlock \ {w}
  /\ todo' = [todo EXCEPT ![w] = Registered]
  /\ wst' = [wst EXCEPT ![w] = IF RegistryWalkUnlocked THEN "live" ELSE "copy"]
  /\ UNCHANGED <<reg, nobj, st, cur, seen, left, wleft, c>>

WStep(w) ==                                            \* one iteration of the range loop
  /\ wst[w] \in {"live", "copy"} /\ todo[w] # {}
  /\ \E nm \in todo[w] : todo' = [todo EXCEPT ![w] = @ \ {nm}]
  /\ UNCHANGED <<reg, nobj, st, cur, seen, left, rlock, wst, wleft, c>>

WEnd(w) ==
  /\ wst[w] \in {"live", "copy"} /\ todo[w] = {}
  /\ wst' = [wst EXCEPT ![w] = "idle"] /\ wleft' = [wleft EXCEPT ![w] = @ - 1]
  /\ UNCHANGED <<reg, nobj, st, cur, seen, left, rlock, todo, c>>

Next == \/ \E g \in G : CallAtomic(g) \/ Check(g) \/ Create(g)
        \/ \E w \in W : WLock(w) \/ WUnlock(w) \/ WStep(w) \/ WEnd(w)
Spec == Init /\ [][Next]_vars

NotBad == ~IsBad(c)
(* the registry itself never rebinds a name *)
Stable == [][\A nm \in LNames : reg[nm] # 0 => reg'[nm] = reg[nm]]_vars
(* stated on the model state: the map is never written while someone iterates it *)
NoWriteDuringLiveWalk == [][LiveWalkers # {} => reg' = reg]_vars
=============================================================================
