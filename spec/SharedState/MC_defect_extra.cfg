SPECIFICATION Spec
CONSTANTS NP = 2 NBuf = 1 Segs = 1 Kinds = {"enc", "dec"} HeaderCopyFix = TRUE ExtraCopy = FALSE HavocOnPut = FALSE
INVARIANTS NotBad
CHECK_DEADLOCK FALSE
