SPECIFICATION Spec
CONSTANTS NP = 3 NBuf = 2 Segs = 1 Kinds = {"enc", "dec"} HeaderCopyFix = TRUE ExtraCopy = TRUE HavocOnPut = TRUE
INVARIANTS NotBad NoAliasAfterPut ExclusiveOwner
PROPERTY AllFinish
CHECK_DEADLOCK FALSE
