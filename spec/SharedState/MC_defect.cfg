SPECIFICATION Spec
CONSTANTS NP = 1 NBuf = 1 Segs = 1 Kinds = {"dec"} HeaderCopyFix = FALSE ExtraCopy = TRUE HavocOnPut = TRUE
INVARIANTS NotBad
CHECK_DEADLOCK FALSE
