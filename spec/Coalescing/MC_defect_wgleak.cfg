SPECIFICATION Spec
CONSTANTS Configs <- CfgOne AddProgs <- P1 NClosers = 1 AllowCancel = FALSE ConsKinds <- Prompt MaxNow = 0
  AdvIdleOnly = FALSE UseMonitor = TRUE CloseFix = TRUE Variant = "wgLeakOnRejectedRun"
  NRun2 <- One
INVARIANTS NoWedge MonitorOK
CHECK_DEADLOCK FALSE
