SPECIFICATION Spec
CONSTANTS Configs <- CfgTiny AddProgs <- P1 NClosers = 1 AllowCancel = FALSE ConsKinds <- Prompt MaxNow = 1
  AdvIdleOnly = FALSE UseMonitor = TRUE CloseFix = FALSE Variant = "ok"
INVARIANTS NoWedge MonitorOK
CHECK_DEADLOCK FALSE
