SPECIFICATION Spec
CONSTANTS Configs <- CfgTiny AddProgs <- P21 NClosers = 1 AllowCancel = FALSE ConsKinds <- Both MaxNow = 4
  AdvIdleOnly = FALSE UseMonitor = TRUE CloseFix = TRUE Variant = "ok"
INVARIANTS MonitorOK NoWedge SignalsLeAdds WaitGroupExact CloseWaited NoLostAdd TypeOK
CHECK_DEADLOCK FALSE
