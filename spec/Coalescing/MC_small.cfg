SPECIFICATION Spec
CONSTANTS Configs <- CfgCap1 AddProgs <- P11 NClosers = 0 AllowCancel = FALSE ConsKinds <- Slow MaxNow = 3
  AdvIdleOnly = FALSE UseMonitor = TRUE CloseFix = TRUE Variant = "ok"
INVARIANTS MonitorOK NoWedge SignalsLeAdds WaitGroupExact CloseWaited NoLostAdd TypeOK
CHECK_DEADLOCK FALSE
