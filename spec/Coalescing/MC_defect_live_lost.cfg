SPECIFICATION Spec
CONSTANTS Configs <- CfgTiny AddProgs <- P11 NClosers = 1 AllowCancel = FALSE ConsKinds <- Slow MaxNow = 3
  AdvIdleOnly = TRUE UseMonitor = FALSE CloseFix = TRUE Variant = "skipfire"

PROPERTIES AddCovered
CHECK_DEADLOCK FALSE
