SPECIFICATION Spec
CONSTANTS Configs <- CfgOne4 AddProgs <- P4 NClosers = 0 AllowCancel = FALSE ConsKinds <- Prompt MaxNow = 8
  AdvIdleOnly = TRUE UseMonitor = TRUE CloseFix = TRUE Variant = "bfkept"
INVARIANTS MonitorOK
CHECK_DEADLOCK FALSE
