SPECIFICATION Spec
CONSTANTS Configs <- CfgSmall AddProgs <- P21 NClosers = 1 AllowCancel = TRUE ConsKinds <- Slow MaxNow = 4
  AdvIdleOnly = FALSE UseMonitor = FALSE CloseFix = TRUE Variant = "ok"
INVARIANTS NoWedge SignalsLeAdds WaitGroupExact CloseWaited NoLostAdd TypeOK
CHECK_DEADLOCK FALSE
