SPECIFICATION Spec
CONSTANTS Configs <- CfgAll AddProgs <- P22 NClosers = 1 AllowCancel = TRUE ConsKinds <- Slow MaxNow = 10
  AdvIdleOnly = FALSE UseMonitor = FALSE CloseFix = TRUE Variant = "ok"
INVARIANTS NoWedge SignalsLeAdds WaitGroupExact CloseWaited NoLostAdd TypeOK
CHECK_DEADLOCK FALSE
