SPECIFICATION Spec
CONSTANTS Configs <- CfgAll AddProgs <- P22 NClosers = 2 AllowCancel = TRUE ConsKinds <- Both MaxNow = 10
  AdvIdleOnly = FALSE UseMonitor = TRUE CloseFix = TRUE Variant = "ok"
INVARIANTS MonitorOK NoWedge SignalsLeAdds WaitGroupExact CloseWaited NoLostAdd TypeOK
CHECK_DEADLOCK FALSE
