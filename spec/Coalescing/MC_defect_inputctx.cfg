SPECIFICATION Spec
CONSTANTS Configs <- CfgOne AddProgs <- P1 NClosers = 1 AllowCancel = FALSE ConsKinds <- Slow MaxNow = 0
  AdvIdleOnly = FALSE UseMonitor = TRUE CloseFix = TRUE Variant = "inputctx"
INVARIANTS NoWedge MonitorOK
CHECK_DEADLOCK FALSE
