SPECIFICATION Spec
CONSTANTS Configs <- CfgTiny AddProgs <- P2 NClosers = 0 AllowCancel = FALSE ConsKinds <- Slow MaxNow = 2
  AdvIdleOnly = FALSE UseMonitor = TRUE CloseFix = TRUE Variant = "skipfire"
INVARIANTS MonitorOK
CHECK_DEADLOCK FALSE
