---------------------------- MODULE MCCoalescing ----------------------------
EXTENDS Coalescing
CfgTiny  == {<<1, 2, 0>>, <<1, 2, 2>>}
CfgCap1  == {<<1, 2, 0>>, <<1, 2, 1>>}
CfgOnlyCap1 == {<<1, 2, 1>>}
CfgSmall == {<<1, 2, 0>>, <<1, 2, 1>>, <<1, 2, 2>>, <<2, 4, 0>>, <<2, 2, 2>>}
CfgAll   == {<<i, m, cap>> \in {1, 2} \X {2, 4} \X {0, 1, 2} : TRUE}
(* trace validation: every configuration the harness uses; client goroutines 1..6 call Add as often as the trace says *)
CfgTrace == Nat \X Nat \X Nat
PTrace == <<1000, 1000, 1000, 1000, 1000, 1000>>
One == 1
Two == 2
R2Trace == 16
CfgCapOne == {<<1, 4, 2>>}
P3   == <<3>>
P4   == <<4>>
CfgOne4 == {<<1, 4, 0>>}
CfgOne == {<<1, 2, 0>>}
P1   == <<1>>
P2   == <<2>>
P11  == <<1, 1>>
P21  == <<2, 1>>
P22  == <<2, 2>>
Prompt == {"prompt"}
Slow == {"slow"}
Both == {"prompt", "slow"}
=============================================================================
