SPECIFICATION Spec
CONSTANTS Configs <- CfgSmall AddProgs <- P21 NClosers = 1 AllowCancel = FALSE ConsKinds <- Both MaxNow = 8
  AdvIdleOnly = TRUE UseMonitor = FALSE CloseFix = TRUE Variant = "ok"
INVARIANTS NoWedge TypeOK
PROPERTIES CloseReturns AddsReturn AddCovered
CHECK_DEADLOCK FALSE
