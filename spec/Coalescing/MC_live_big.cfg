SPECIFICATION Spec
CONSTANTS Configs <- CfgTiny AddProgs <- P21 NClosers = 1 AllowCancel = FALSE ConsKinds <- Slow MaxNow = 4
  AdvIdleOnly = TRUE UseMonitor = FALSE CloseFix = TRUE Variant = "ok"
INVARIANTS NoWedge TypeOK
PROPERTIES CloseReturns AddsReturn AddCovered
CHECK_DEADLOCK FALSE
