---------------------------- MODULE CoalContract ----------------------------
(* C09 - the coalescing rate limiter as seen by its users.  Time is in ms.    *)
(*                                                                            *)
(* Observable events (recorded in real-time order under one mutex):          *)
(*   reset {i,m,cap}          a new run: InitialDelay i, MaxDelay m,          *)
(*                            MaxPendingEvents cap (0 = unset); Run is started *)
(*   add_call {n} / add_ret {n}   Add call number n                           *)
(*   adv {now}                the clock was moved to now                      *)
(*   signal                   the consumer received from the output channel   *)
(*   cancel                   the context given to Run was cancelled          *)
(*   close_call / close_ret {helpers}   helpers: goroutines of the limiter    *)
(*                            (Run, token senders, signal senders) that were  *)
(*                            alive before the call and still when it returned *)
(*   run_ret                  Run returned                                    *)
(*   run2_call / run2_ret {err}   Run was called again while / after the first *)
(*                            Run (rejected: err); no law of its own, but all  *)
(*                            other laws go on unchanged and Close must return *)
(*   quiescent {recv}         nothing can move: no call in flight, every      *)
(*                            goroutine of the limiter blocked; recv: the      *)
(*                            consumer is waiting in its receive (a prompt     *)
(*                            consumer always is; a slow one only when it asked)*)
(*   new_err                  the constructor refused the run's configuration  *)
(*                            (the harness only uses legal ones)               *)
(*   stuck {n,run,clock}      end of the run: n calls of Add/Close never       *)
(*                            returned; run: Run never returned although its   *)
(*                            context was cancelled or Close was called;       *)
(*                            clock: a step of the injected clock never returned*)
(*                                                                            *)
(* The statement is about WHEN signals are emitted.  What a client cannot see *)
(* is the instant an Add takes effect (somewhere inside the call), the instant *)
(* the limiter notices it (Add is asynchronous: any time after it took effect, *)
(* at the latest when nothing can move any more) and the instant a signal is   *)
(* offered to a consumer that is not receiving.  The contract is therefore a   *)
(* small nondeterministic machine with these silent steps; the monitor keeps   *)
(* the SET of machine states compatible with the events seen so far and rejects*)
(* a run when the set becomes empty.  In a sequential timeline (every op issued*)
(* at a quiescent point) the set is a singleton: the signal timeline is unique.*)
(*                                                                            *)
(* Machine state: win/end/len  the open quiet window, its end and length      *)
(*   pre    Adds called that have not taken effect yet                        *)
(*   unarr  Adds that took effect, not yet noticed by the limiter             *)
(*   unc    Adds that took effect and are not covered by an emitted signal    *)
(*   infl   signals emitted, not yet received by the consumer                 *)
(*   on     the limiter is running (it may stop once cancel/Close was called) *)
(*   last   why the most recent signal was emitted (for the verdict text)     *)
EXTENDS Integers, Sequences, FiniteSets, TLC

Bad(why) == [bad |-> TRUE, why |-> why]
IsBad(c) == c.bad
Min2(a, b) == IF a < b THEN a ELSE b

A0 == [win |-> FALSE, end |-> 0, len |-> 0, pre |-> {}, unarr |-> 0, unc |-> 0, infl |-> 0, on |-> TRUE, last |-> "none"]

CResetCfg(i, m, cap) == [bad |-> FALSE, why |-> "", I |-> i, M |-> m, cap |-> cap, now |-> 0, adds |-> 0, sigs |-> 0,
                         canStop |-> FALSE, closeRet |-> FALSE, S |-> {A0}]

Take1(s) == [s EXCEPT !.infl = @ - 1, !.last = IF s.infl = 1 THEN "none" ELSE @]
Emit(s, tag) == [s EXCEPT !.unc = 0, !.infl = @ + 1, !.last = tag]

(* the silent steps of the machine *)
Silent(c, s) ==
  (* an Add takes effect, inside its call *)
  {[s EXCEPT !.pre = @ \ {a}, !.unc = @ + 1, !.unarr = @ + 1] : a \in s.pre}
  \cup
  (* the limiter notices an Add *)
  (IF s.on /\ s.unarr > 0
     THEN {LET t == [s EXCEPT !.unarr = @ - 1] IN
           IF ~s.win
             (* first Add after an idle period: signalled immediately, a window of InitialDelay opens *)
             THEN LET u == [t EXCEPT !.win = TRUE, !.len = c.I, !.end = c.now + c.I]
                  IN IF s.unc > 0 THEN Emit(u, "first") ELSE u
             ELSE IF c.cap > 0 /\ s.unc >= c.cap
               (* the pending-events cap is reached: signalled as soon as noticed, the window stays *)
               THEN Emit(t, "cap")
               (* a further Add inside the window: the window doubles (up to MaxDelay) and restarts from here *)
               ELSE LET nl == IF s.len >= c.M THEN c.M ELSE Min2(2 * s.len, c.M) IN [t EXCEPT !.len = nl, !.end = c.now + nl]}
     ELSE {})
  \cup
  (* the window ends: one signal for everything that arrived inside it, back to idle *)
  (IF s.on /\ s.win /\ c.now >= s.end
     THEN {LET t == [s EXCEPT !.win = FALSE, !.end = 0, !.len = 0] IN IF s.unc > 0 THEN Emit(t, "end") ELSE t}
     ELSE {})
  \cup
  (* after cancel / Close the limiter may stop, and signals not yet received may be withdrawn *)
  (IF c.canStop /\ s.on THEN {[s EXCEPT !.on = FALSE]} ELSE {})
  \cup
  (IF c.canStop /\ s.infl > 0 THEN {Take1(s)} ELSE {})

RECURSIVE Clo(_, _, _)
Clo(c, done, front) ==
  IF front = {} THEN done
  ELSE LET d2 == done \cup front
           nf == (UNION {Silent(c, s) : s \in front}) \ d2
       IN Clo(c, d2, nf)
Closure(c, S) == Clo(c, {}, S)
With(c, S) == [c EXCEPT !.S = Closure(c, S)]

CAddCall(c, e) == With([c EXCEPT !.adds = @ + 1], {[s EXCEPT !.pre = @ \cup {e.n}] : s \in c.S})
(* when Add has returned it has taken effect *)
CAddRet(c, e) == [c EXCEPT !.S = {s \in c.S : e.n \notin s.pre}]

CSignal(c, e) ==
  IF c.closeRet THEN Bad("after-close: a signal was delivered after Close returned")
  ELSE IF c.sigs + 1 > c.adds THEN Bad("excess: more signals than Adds")
  ELSE LET S1 == {Take1(s) : s \in {t \in c.S : t.infl > 0}}
       IN IF S1 = {}
            THEN IF \A s \in c.S : s.unc = 0 /\ s.pre = {}
                   THEN Bad("duplicate: a signal although every Add was already covered by one (a burst inside one window yields a single signal)")
                   ELSE Bad("early: a signal for an Add inside an open quiet window before its end and below the cap")
            ELSE With([c EXCEPT !.sigs = @ + 1], S1)

(* Nothing can move: every Add has been noticed, an expired window has been closed, and a consumer that *)
(* is receiving has got every emitted signal.  Before cancel/Close this is the no-lost-Add law: the run  *)
(* must be explainable with every Add covered (or still waiting inside its open window, below the cap).  *)
CQuiescent(c, e) ==
  LET S1 == {s \in c.S : s.pre = {} /\ (s.on => (s.unarr = 0 /\ ~(s.win /\ c.now >= s.end)))}
      S2 == IF e.recv THEN {s \in S1 : s.infl = 0} ELSE S1
      tags == {s.last : s \in S1}
  IN IF S2 # {} THEN [c EXCEPT !.S = S2]
     ELSE IF tags = {"first"} THEN Bad("lost: the first Add after an idle period was not signalled immediately")
     ELSE IF tags = {"cap"} THEN Bad("lost: the pending-events cap was reached and no signal followed")
     ELSE IF tags = {"end"} THEN Bad("lost: the quiet window ended and an Add inside it was never signalled")
     ELSE Bad("lost: a signal that was due was never delivered")

CCloseRet(c, e) ==
  IF e.helpers # 0 THEN Bad("helpers: Close returned while helper goroutines of the limiter were still alive")
  ELSE [c EXCEPT !.closeRet = TRUE, !.S = {s \in c.S : ~s.on /\ s.infl = 0}]

CRunRet(c, e) ==
  IF ~c.canStop THEN Bad("run-returned: Run returned although its context was not cancelled and Close was not called")
  ELSE [c EXCEPT !.S = {s \in c.S : ~s.on}]

CStuck(c, e) ==
  IF e.clock THEN Bad("deadlock: the injected clock could not be stepped: it blocks on a timer of the limiter whose channel still holds an unread expiry")
  ELSE IF e.n > 0 THEN Bad("deadlock: a call of Add or Close never returned")
  ELSE IF e.run THEN Bad("deadlock: Run never returned after its context was cancelled or Close was called")
  ELSE c

CNext(c, e) ==
  IF e.ev = "reset" THEN CResetCfg(e.i, e.m, e.cap)
  ELSE IF IsBad(c) THEN c
  ELSE CASE e.ev = "add_call"   -> CAddCall(c, e)
         [] e.ev = "add_ret"    -> CAddRet(c, e)
         [] e.ev = "adv"        -> With([c EXCEPT !.now = e.now], c.S)
         [] e.ev = "signal"     -> CSignal(c, e)
         [] e.ev = "cancel"     -> With([c EXCEPT !.canStop = TRUE], c.S)
         [] e.ev = "close_call" -> With([c EXCEPT !.canStop = TRUE], c.S)
         [] e.ev = "close_ret"  -> CCloseRet(c, e)
         [] e.ev = "run_ret"    -> CRunRet(c, e)
         [] e.ev = "new_err"    -> Bad("config: NewCoalescing refused a legal configuration (0 < InitialDelay <= MaxDelay, cap unset or positive)")
         [] e.ev = "run2_call"  -> c      \* Run called again on the running (or ended) limiter: the statement is
         [] e.ev = "run2_ret"   -> c      \* about the running limiter, whose behaviour this must not change
         [] e.ev = "quiescent"  -> CQuiescent(c, e)
         [] e.ev = "stuck"      -> CStuck(c, e)
=============================================================================
