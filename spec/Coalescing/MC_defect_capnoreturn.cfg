SPECIFICATION Spec
CONSTANTS Configs <- CfgCapOne AddProgs <- P4 NClosers = 0 AllowCancel = FALSE ConsKinds <- Prompt MaxNow = 6
  AdvIdleOnly = TRUE UseMonitor = TRUE CloseFix = TRUE Variant = "capnoreturn"
INVARIANTS MonitorOK
CHECK_DEADLOCK FALSE
