SPECIFICATION Spec
CONSTANTS Configs <- CfgTiny AddProgs <- P1 NClosers = 1 AllowCancel = FALSE ConsKinds <- Prompt MaxNow = 1
  AdvIdleOnly = TRUE UseMonitor = FALSE CloseFix = FALSE Variant = "ok"
PROPERTIES CloseReturns
CHECK_DEADLOCK FALSE
