--------------------------- MODULE TraceCoalImpl ---------------------------
(* Binding of the implementation-shaped model to the code: hook-level traces *)
(* of the real limiter (every decision point it passes - coal.run.top,       *)
(* coal.run.input, coal.run.timer, coal.add.beforeSend, coal.fire.beforeSend,*)
(* coal.close.beforeLock - plus the client calls/returns, clock steps,       *)
(* signals, cancel, Run's return and the quiescent points, all recorded      *)
(* under one mutex) must be behaviours of Coalescing.tla with CloseFix=TRUE. *)
(* A hook is recorded when its goroutine ARRIVES at the decision point, so   *)
(* it precedes the model action of that goroutine that follows the point;    *)
(* actions without a hook are silent.  A trace that is not accepted is DRIFT *)
(* between model and code - reported in the evidence, never a violation.     *)
EXTENDS MCCoalescing, TraceLib

Trace == LoadTrace("trace.ndjson")
Starts == {i \in 1..Len(Trace) : Trace[i].ev = "reset"}
VARIABLES tr, l,
          atTop,     \* Run was seen at coal.run.top and has not yet gone on (RLock, read the timer channel)
          tokArr,    \* token senders seen at coal.add.beforeSend that have neither delivered nor given up
          sigArr,    \* signal senders seen at coal.fire.beforeSend that have neither delivered nor given up
          clArr      \* Close callers seen at coal.close.beforeLock that have not yet entered the critical section
tvars == <<vars, tr, l, atTop, tokArr, sigArr, clArr>>

TInit == /\ tr \in Starts /\ l = tr /\ atTop = FALSE /\ tokArr = 0 /\ sigArr = 0 /\ clArr = 0
         /\ cfg = <<Trace[tr].i, Trace[tr].m, Trace[tr].cap>> /\ kind = Trace[tr].kind /\ Init
HasNext == l + 1 <= Trace[tr].end
Ev == Trace[l + 1]
Eat == l' = l + 1 /\ UNCHANGED tr
Keep == UNCHANGED <<tr, l>>
Same == UNCHANGED <<atTop, tokArr, sigArr, clArr>>

(* client events *)
TAddCall == /\ HasNext /\ Ev.ev = "add_call" /\ Eat /\ Same /\ AddCall(Ev.c + 1) /\ nextId = Ev.n
TAddRet == /\ HasNext /\ Ev.ev = "add_ret" /\ Eat /\ Same /\ AddRet(Ev.c + 1) /\ aid[Ev.c + 1] = Ev.n
TCloseCall == /\ HasNext /\ Ev.ev = "close_call" /\ Eat /\ Same /\ \E k \in Ks : CloseCall(k)
TCloseRet == /\ HasNext /\ Ev.ev = "close_ret" /\ Eat /\ Same /\ \E k \in Ks : CloseRet(k) /\ chelp[k] = Ev.helpers
TCancel == /\ HasNext /\ Ev.ev = "cancel" /\ Eat /\ Same /\ Cancel
TAdv == /\ HasNext /\ Ev.ev = "adv" /\ Eat /\ Same /\ AdvTo(Ev.now)
TSignal == /\ HasNext /\ Ev.ev = "signal" /\ Eat /\ sigArr > 0 /\ sigArr' = sigArr - 1 /\ UNCHANGED <<atTop, tokArr, clArr>>
           /\ \E x \in sigS : Deliver(x)
TRun2Call == /\ HasNext /\ Ev.ev = "run2_call" /\ Eat /\ Same /\ \E j \in R2s : Run2Call(j) /\ \A i \in R2s : i < j => r2pc[i] # "idle"   \* callers are interchangeable: the first idle one
TRun2Ret == /\ HasNext /\ Ev.ev = "run2_ret" /\ Eat /\ Same /\ Ev.err /\ \E j \in R2s : Run2Ret(j)
TRunRet == /\ HasNext /\ Ev.ev = "run_ret" /\ Eat /\ Same /\ RunRet
(* observation points: the model is at rest too, with the consumer where the harness saw it *)
TQuiescent == /\ HasNext /\ Ev.ev = "quiescent" /\ Eat /\ Same /\ UNCHANGED vars
              /\ AtRest /\ InFlight = 0 /\ ((cons = "ready") <=> Ev.recv)
              /\ ~atTop /\ clArr = 0
TStuck == /\ HasNext /\ Ev.ev = "stuck" /\ Eat /\ Same /\ UNCHANGED vars
          /\ InFlight = Ev.n /\ (Ev.run <=> ((cancelled \/ closeCh) /\ rpc # "done"))

(* hook events *)
TTop == /\ HasNext /\ Ev.ev = "coal.run.top" /\ Eat /\ rpc = "top" /\ ~atTop /\ atTop' = TRUE
        /\ UNCHANGED <<vars, tokArr, sigArr, clArr>>
TInput == /\ HasNext /\ Ev.ev = "coal.run.input" /\ Eat /\ RunSelect /\ rpc' = "input"
          /\ tokArr > 0 /\ tokArr' = tokArr - 1 /\ UNCHANGED <<atTop, sigArr, clArr>>
TTimer == /\ HasNext /\ Ev.ev = "coal.run.timer" /\ Eat /\ RunSelect /\ rpc' = "timer" /\ Same
TAddSend == /\ HasNext /\ Ev.ev = "coal.add.beforeSend" /\ Eat /\ tokArr < tokS /\ tokArr' = tokArr + 1
            /\ UNCHANGED <<vars, atTop, sigArr, clArr>>
TFireSend == /\ HasNext /\ Ev.ev = "coal.fire.beforeSend" /\ Eat /\ sigArr < Cardinality(sigS) /\ sigArr' = sigArr + 1
             /\ UNCHANGED <<vars, atTop, tokArr, clArr>>
TCloseBefore == /\ HasNext /\ Ev.ev = "coal.close.beforeLock" /\ Eat
                /\ clArr < Cardinality({k \in Ks : cpc[k] = "called"}) /\ clArr' = clArr + 1
                /\ UNCHANGED <<vars, atTop, tokArr, sigArr>>
TIgnore == /\ HasNext /\ Ev.ev = "consumer.take" /\ Eat /\ Same /\ UNCHANGED vars

(* silent: no hook marks these *)
TSilent == /\ HasNext /\ Keep
          /\ \/ Same /\ \/ \E g \in Gs : AddBody(g)
                        \/ (RunSelect /\ rpc' = "ret") \/ RunInput \/ RunTimer \/ RunExit
                        \/ \E k \in Ks : CloseWait(k)
                        \/ \E j \in R2s : Run2Body(j)
                        \/ Take
             \/ atTop /\ atTop' = FALSE /\ RunTop /\ UNCHANGED <<tokArr, sigArr, clArr>>
             \/ tokArr > 0 /\ tokArr' = tokArr - 1 /\ TokExit /\ UNCHANGED <<atTop, sigArr, clArr>>
             \/ sigArr > 0 /\ sigArr' = sigArr - 1 /\ (\E x \in sigS : SigExit(x)) /\ UNCHANGED <<atTop, tokArr, clArr>>
             \/ clArr > 0 /\ clArr' = clArr - 1 /\ (\E k \in Ks : CloseCrit(k)) /\ UNCHANGED <<atTop, tokArr, sigArr>>

TNext == TAddCall \/ TAddRet \/ TCloseCall \/ TCloseRet \/ TCancel \/ TAdv \/ TSignal \/ TRunRet \/ TRun2Call \/ TRun2Ret \/ TQuiescent \/ TStuck
         \/ TTop \/ TInput \/ TTimer \/ TAddSend \/ TFireSend \/ TCloseBefore \/ TIgnore \/ TSilent
TSpec == TInit /\ [][TNext]_tvars
Done == IF l = Trace[tr].end THEN PrintT(<<"DONE", tr>>) ELSE TRUE
=============================================================================
