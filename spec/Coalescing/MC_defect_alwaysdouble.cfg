SPECIFICATION Spec
CONSTANTS Configs <- CfgOne AddProgs <- P3 NClosers = 0 AllowCancel = FALSE ConsKinds <- Prompt MaxNow = 1
  AdvIdleOnly = FALSE UseMonitor = TRUE CloseFix = TRUE Variant = "alwaysdouble"
INVARIANTS MonitorOK
CHECK_DEADLOCK FALSE
