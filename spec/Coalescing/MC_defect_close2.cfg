SPECIFICATION Spec
CONSTANTS Configs <- CfgTiny AddProgs <- P1 NClosers = 2 AllowCancel = FALSE ConsKinds <- Slow MaxNow = 1
  AdvIdleOnly = FALSE UseMonitor = TRUE CloseFix = TRUE Variant = "close2early"
INVARIANTS MonitorOK
CHECK_DEADLOCK FALSE
