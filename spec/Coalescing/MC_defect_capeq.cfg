SPECIFICATION Spec
CONSTANTS Configs <- CfgOnlyCap1 AddProgs <- P21 NClosers = 0 AllowCancel = FALSE ConsKinds <- Prompt MaxNow = 0
  AdvIdleOnly = FALSE UseMonitor = TRUE CloseFix = TRUE Variant = "capeq"
INVARIANTS MonitorOK
CHECK_DEADLOCK FALSE
