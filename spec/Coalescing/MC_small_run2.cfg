SPECIFICATION Spec
CONSTANTS Configs <- CfgOne AddProgs <- P1 NClosers = 1 AllowCancel = TRUE ConsKinds <- Slow MaxNow = 1
  AdvIdleOnly = FALSE UseMonitor = TRUE CloseFix = TRUE Variant = "ok"
  NRun2 <- Two
INVARIANTS AtRestDef MonitorOK NoWedge SignalsLeAdds WaitGroupExact CloseWaited NoLostAdd TypeOK
CHECK_DEADLOCK FALSE
