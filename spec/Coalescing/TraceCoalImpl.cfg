SPECIFICATION TSpec
CONSTANTS Configs <- CfgTrace AddProgs <- PTrace NClosers = 3 AllowCancel = TRUE ConsKinds <- Both MaxNow = 0
  AdvIdleOnly = FALSE UseMonitor = FALSE CloseFix = TRUE Variant = "ok"
  NRun2 <- R2Trace
CONSTRAINT Done
INVARIANTS WaitGroupExact TypeOK
CHECK_DEADLOCK FALSE
