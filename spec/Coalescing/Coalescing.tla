----------------------------- MODULE Coalescing -----------------------------
(* Implementation-shaped model of events/ratelimiting/coalescing.go.          *)
(*   lock      c.lock (RWMutex).  Every critical section of the code except   *)
(*             Close's is non-blocking and modelled as one step that needs    *)
(*             the lock to be free; Close (as written) HOLDS the write lock   *)
(*             while it waits for the WaitGroup.                              *)
(*   wg        the WaitGroup: Run itself, one sender per Add (token on the    *)
(*             unbuffered inputCh), one sender per fired signal               *)
(*   pendSet   pendingEvents (as the set of Adds counted and not yet fired)   *)
(*   hasTimer, tstate/deadline (the fake timer: armed / fired = value in its  *)
(*             channel / taken = value consumed by the select), curDur        *)
(*   rpc/tch   Run's program counter and the timer channel it read at the top *)
(* Every observable step feeds the contract monitor (variable c): the model   *)
(* check shows  Impl => Contract  (MonitorOK) for every interleaving.         *)
EXTENDS CoalContract

CONSTANTS Configs,      \* set of <<InitialDelay, MaxDelay, MaxPendingEvents (0 = unset)>>
          AddProgs,     \* AddProgs[g]: number of Add calls of client goroutine g
          NClosers,     \* number of goroutines calling Close once
          AllowCancel,  \* the context given to Run may be cancelled
          ConsKinds,    \* subset of {"prompt", "slow"}
          MaxNow,       \* time horizon
          AdvIdleOnly,  \* TRUE: the clock moves only when nothing else can (liveness configurations)
          UseMonitor,   \* FALSE: the monitor is switched off (liveness configurations)
          CloseFix,     \* FALSE: Close as written (holds the lock across wg.Wait); TRUE: repaired
          Variant       \* "ok" | "capeq" | "skipfire" | "close2early" | "alwaysdouble" | "inputctx" | "bfkept" | "wgLeakOnRejectedRun" | "capnoreturn": known-bad variants (non-vacuity)

Gs == 1..Len(AddProgs)
Ks == 1..NClosers
(* number of goroutines that call Run once more while/after the first Run (overridden in some configurations) *)
NRun2 == 0
R2s == 1..NRun2
TotalAdds == LET RECURSIVE Sum(_) Sum(i) == IF i = 0 THEN 0 ELSE AddProgs[i] + Sum(i - 1) IN Sum(Len(AddProgs))

VARIABLES cfg, kind, now, lock, closed, closeCh, cancelled, wg,
          pendSet, hasTimer, tstate, deadline, curDur,
          bf,            \* backoffFactor (only tracked by the known-bad variant "alwaysdouble", otherwise constantly 1)
          tokS,          \* token sender goroutines alive
          sigS,          \* signal sender goroutines alive: each is the set of Adds its signal covers
          rpc, tch,
          apc, aid, aleft, nextId,
          cpc, chelp,
          r2pc,          \* callers of a second Run on the running (or ended) limiter: "idle" | "called" | "body" | "done"
          cons,          \* "ready" (in its receive) | "parked" (slow consumer, not receiving)
          counted, cov,  \* history: Adds that took effect / covered by a delivered signal
          c              \* the contract monitor
vars == <<cfg, kind, r2pc, now, lock, closed, closeCh, cancelled, wg, pendSet, hasTimer, tstate, deadline, curDur, bf, tokS, sigS,
          rpc, tch, apc, aid, aleft, nextId, cpc, chelp, cons, counted, cov, c>>

I == cfg[1]
M == cfg[2]
Cap == cfg[3]

Obs(e) == IF UseMonitor THEN c' = CNext(c, e) ELSE UNCHANGED c

Init == /\ cfg \in Configs /\ kind \in ConsKinds /\ now = 0 /\ lock = 0 /\ closed = FALSE /\ closeCh = FALSE /\ cancelled = FALSE
        /\ wg = 1 /\ pendSet = {} /\ hasTimer = FALSE /\ tstate = "none" /\ deadline = 0 /\ curDur = cfg[1] /\ bf = 1
        /\ tokS = 0 /\ sigS = {} /\ rpc = "top" /\ tch = FALSE
        /\ apc = [g \in Gs |-> "idle"] /\ aid = [g \in Gs |-> 0] /\ aleft = [g \in Gs |-> AddProgs[g]] /\ nextId = 1
        /\ cpc = [k \in Ks |-> "idle"] /\ chelp = [k \in Ks |-> 0] /\ r2pc = [j \in R2s |-> "idle"]
        /\ cons = (IF kind = "slow" THEN "parked" ELSE "ready") /\ counted = {} /\ cov = {}
        /\ c = CResetCfg(cfg[1], cfg[2], cfg[3])

RunAlive == rpc \notin {"exited", "done"}
Helpers == (IF RunAlive THEN 1 ELSE 0) + tokS + Cardinality(sigS)
RctxDone == cancelled \/ rpc \in {"ret", "exited", "done"}
InFlight == Cardinality({g \in Gs : apc[g] # "idle"}) + Cardinality({k \in Ks : cpc[k] \notin {"idle", "done"}})
            + Cardinality({j \in R2s : r2pc[j] \notin {"idle", "done"}})
(* AtRest: no step of Internal is enabled (written out; AtRestDef checks it against ENABLED) *)
AtRest == /\ \A g \in Gs : apc[g] # "body" /\ (apc[g] = "called" => lock # 0)
          /\ ~(tokS > 0 /\ closeCh)
          /\ (rpc \in {"top", "input", "timer"} => lock # 0) /\ rpc \notin {"ret", "exited"}
          /\ (rpc = "select" => ~(cancelled \/ closeCh \/ tokS > 0 \/ (tch /\ tstate = "fired")))
          /\ \A x \in sigS : cons # "ready" /\ ~(IF 0 \in x THEN cancelled ELSE RctxDone)
          /\ \A j \in R2s : r2pc[j] # "body" /\ (r2pc[j] = "called" => Variant = "wgLeakOnRejectedRun" /\ lock # 0)
          /\ \A k \in Ks : /\ cpc[k] # "unlocked" /\ (cpc[k] = "wait" => wg # 0)
                            /\ (cpc[k] = "called" => CloseFix /\ lock # 0) /\ (cpc[k] = "beforeLock" => lock # 0)
(* the harness observes at rest; in the model the observation is taken as soon as it is informative *)
QuiescentEv == [ev |-> "quiescent", recv |-> (cons = "ready")]
StuckEv == [ev |-> "stuck", n |-> InFlight, run |-> (cancelled \/ closeCh) /\ rpc # "done", clock |-> FALSE]
ObsPending == /\ UseMonitor /\ AtRest
              /\ \/ InFlight = 0 /\ CNext(c, QuiescentEv) # c
                 \/ (InFlight > 0 \/ ((cancelled \/ closeCh) /\ rpc # "done")) /\ CNext(c, StuckEv) # c


(* ---------------- Add - coalescing.go:229-242 ---------------- *)
AddCall(g) == /\ apc[g] = "idle" /\ aleft[g] > 0 /\ ~ObsPending
              /\ (AdvIdleOnly => now + M <= MaxNow)
              /\ apc' = [apc EXCEPT ![g] = "called"] /\ aid' = [aid EXCEPT ![g] = nextId] /\ nextId' = nextId + 1
              /\ Obs([ev |-> "add_call", n |-> nextId])
              /\ UNCHANGED <<cfg, kind, r2pc, now, lock, closed, closeCh, cancelled, wg, pendSet, hasTimer, tstate, deadline, curDur, bf, tokS, sigS,
                             rpc, tch, aleft, cpc, chelp, cons, counted, cov>>
AddBody(g) == /\ apc[g] = "called" /\ lock = 0
              /\ IF CloseFix /\ closed
                   THEN UNCHANGED <<pendSet, wg, tokS, counted>>
                   ELSE /\ pendSet' = pendSet \cup {aid[g]} /\ counted' = counted \cup {aid[g]}
                        /\ wg' = wg + 1 /\ tokS' = tokS + 1
              /\ apc' = [apc EXCEPT ![g] = "body"]
              /\ UNCHANGED <<cfg, kind, r2pc, now, lock, closed, closeCh, cancelled, hasTimer, tstate, deadline, curDur, bf, sigS,
                             rpc, tch, aid, aleft, nextId, cpc, chelp, cons, cov, c>>
AddRet(g) == /\ apc[g] = "body"
             /\ apc' = [apc EXCEPT ![g] = "idle"] /\ aleft' = [aleft EXCEPT ![g] = @ - 1]
             /\ Obs([ev |-> "add_ret", n |-> aid[g]])
             /\ UNCHANGED <<cfg, kind, r2pc, now, lock, closed, closeCh, cancelled, wg, pendSet, hasTimer, tstate, deadline, curDur, bf, tokS, sigS,
                            rpc, tch, aid, nextId, cpc, chelp, cons, counted, cov>>
(* a token sender gives up once closeCh is closed *)
TokExit == /\ tokS > 0 /\ closeCh /\ tokS' = tokS - 1 /\ wg' = wg - 1
           /\ UNCHANGED <<cfg, kind, r2pc, now, lock, closed, closeCh, cancelled, pendSet, hasTimer, tstate, deadline, curDur, bf, sigS,
                          rpc, tch, apc, aid, aleft, nextId, cpc, chelp, cons, counted, cov, c>>

(* ---------------- Run - coalescing.go:106-147 ---------------- *)
RunTop == /\ rpc = "top" /\ lock = 0 /\ tch' = hasTimer /\ rpc' = "select"
          /\ UNCHANGED <<cfg, kind, r2pc, now, lock, closed, closeCh, cancelled, wg, pendSet, hasTimer, tstate, deadline, curDur, bf, tokS, sigS,
                         apc, aid, aleft, nextId, cpc, chelp, cons, counted, cov, c>>
RunSelect == /\ rpc = "select"
             /\ \/ /\ (cancelled \/ closeCh) /\ rpc' = "ret" /\ UNCHANGED <<tokS, wg, tstate>>
                \/ /\ tokS > 0 /\ tokS' = tokS - 1 /\ wg' = wg - 1 /\ rpc' = "input" /\ UNCHANGED tstate
                \/ /\ tch /\ tstate = "fired" /\ tstate' = "taken" /\ rpc' = "timer" /\ UNCHANGED <<tokS, wg>>
             /\ UNCHANGED <<cfg, kind, r2pc, now, lock, closed, closeCh, cancelled, pendSet, hasTimer, deadline, curDur, bf, sigS,
                            tch, apc, aid, aleft, nextId, cpc, chelp, cons, counted, cov, c>>
(* fireEvent: pending is zeroed and a sender goroutine is spawned *)
FireSig == IF pendSet # {} /\ ~(Variant = "skipfire" /\ sigS # {}) THEN sigS \cup {pendSet} ELSE sigS
FireWg == IF pendSet # {} /\ ~(Variant = "skipfire" /\ sigS # {}) THEN wg + 1 ELSE wg
(* width of backoffFactor in the "alwaysdouble" variant: 2 bits, so the third doubling wraps to 0 (64 bits in the code) *)
FactorRange == 4
(* known-bad "inputctx": senders spawned from the input path watch the CALLER's context (tagged with 0), not Run's *)
FireSigIn == IF Variant = "inputctx" /\ pendSet # {} THEN sigS \cup {pendSet \cup {0}} ELSE FireSig
CapReached == Cap > 0 /\ (IF Variant = "capeq" THEN Cardinality(pendSet) = Cap ELSE Cardinality(pendSet) >= Cap)
RunInput == /\ rpc = "input" /\ lock = 0 /\ rpc' = "top"
            /\ IF ~hasTimer
                 THEN /\ hasTimer' = TRUE /\ tstate' = "armed" /\ deadline' = now + I
                      /\ sigS' = FireSigIn /\ wg' = FireWg /\ pendSet' = {} /\ UNCHANGED <<curDur, bf>>
                 ELSE IF CapReached /\ Variant # "capnoreturn"
                   THEN /\ sigS' = FireSigIn /\ wg' = FireWg /\ pendSet' = {} /\ UNCHANGED <<hasTimer, tstate, deadline, curDur, bf>>
                 ELSE IF CapReached
                   (* known-bad "capnoreturn": the Add that reaches the cap fires AND doubles/restarts the window *)
                   THEN /\ sigS' = FireSigIn /\ wg' = FireWg /\ pendSet' = {}
                        /\ curDur' = (IF curDur < M THEN Min2(2 * curDur, M) ELSE curDur) /\ UNCHANGED bf
                        /\ tstate' = "armed" /\ deadline' = now + curDur' /\ UNCHANGED hasTimer
                   ELSE /\ IF Variant = "bfkept"
                             (* known-bad: the factor is never put back to 1 (see RunTimer), the duration restarts from it *)
                             THEN IF curDur < M THEN bf' = 2 * bf /\ curDur' = Min2(I * bf', M) ELSE UNCHANGED <<curDur, bf>>
                             ELSE IF Variant = "alwaysdouble"
                             (* known-bad: the factor is doubled on every Add in a machine integer and wraps *)
                             THEN /\ bf' = (2 * bf) % FactorRange /\ curDur' = Min2(I * bf', M)
                             (* as written: doubled only while below MaxDelay, then capped *)
                             ELSE /\ curDur' = (IF curDur < M THEN Min2(2 * curDur, M) ELSE curDur) /\ UNCHANGED bf
                        /\ tstate' = "armed" /\ deadline' = now + curDur'
                        /\ UNCHANGED <<hasTimer, sigS, wg, pendSet>>
            /\ UNCHANGED <<cfg, kind, r2pc, now, lock, closed, closeCh, cancelled, tokS,
                           tch, apc, aid, aleft, nextId, cpc, chelp, cons, counted, cov, c>>
RunTimer == /\ rpc = "timer" /\ lock = 0 /\ rpc' = "top"
            /\ sigS' = FireSig /\ wg' = FireWg
            /\ pendSet' = {} /\ hasTimer' = FALSE /\ tstate' = "none" /\ deadline' = 0
            /\ IF Variant = "bfkept" THEN curDur' = I /\ UNCHANGED bf ELSE curDur' = I /\ bf' = 1
            /\ UNCHANGED <<cfg, kind, r2pc, now, lock, closed, closeCh, cancelled, tokS,
                           tch, apc, aid, aleft, nextId, cpc, chelp, cons, counted, cov, c>>
(* return: deferred cancel() and wg.Done(); then the caller sees Run return *)
RunExit == /\ rpc = "ret" /\ rpc' = "exited" /\ wg' = wg - 1
           /\ UNCHANGED <<cfg, kind, r2pc, now, lock, closed, closeCh, cancelled, pendSet, hasTimer, tstate, deadline, curDur, bf, tokS, sigS,
                          tch, apc, aid, aleft, nextId, cpc, chelp, cons, counted, cov, c>>
RunRet == /\ rpc = "exited" /\ rpc' = "done" /\ Obs([ev |-> "run_ret"])
          /\ UNCHANGED <<cfg, kind, r2pc, now, lock, closed, closeCh, cancelled, wg, pendSet, hasTimer, tstate, deadline, curDur, bf, tokS, sigS,
                         tch, apc, aid, aleft, nextId, cpc, chelp, cons, counted, cov>>

(* ---------------- signal senders - coalescing.go:203-210 ---------------- *)
Deliver(x) == /\ x \in sigS /\ cons = "ready"
              /\ sigS' = sigS \ {x} /\ wg' = wg - 1 /\ cov' = cov \cup x
              /\ cons' = (IF kind = "slow" THEN "parked" ELSE "ready")
              /\ Obs([ev |-> "signal"])
              /\ UNCHANGED <<cfg, kind, r2pc, now, lock, closed, closeCh, cancelled, pendSet, hasTimer, tstate, deadline, curDur, bf, tokS,
                             rpc, tch, apc, aid, aleft, nextId, cpc, chelp, counted>>
SigExit(x) == /\ x \in sigS /\ (IF 0 \in x THEN cancelled ELSE RctxDone) /\ sigS' = sigS \ {x} /\ wg' = wg - 1
              /\ UNCHANGED <<cfg, kind, r2pc, now, lock, closed, closeCh, cancelled, pendSet, hasTimer, tstate, deadline, curDur, bf, tokS,
                             rpc, tch, apc, aid, aleft, nextId, cpc, chelp, cons, counted, cov, c>>

(* ---------------- Close - coalescing.go:244-255 ---------------- *)
CloseCall(k) == /\ cpc[k] = "idle" /\ ~ObsPending /\ cpc' = [cpc EXCEPT ![k] = "called"] /\ Obs([ev |-> "close_call"])
                /\ UNCHANGED <<cfg, kind, r2pc, now, lock, closed, closeCh, cancelled, wg, pendSet, hasTimer, tstate, deadline, curDur, bf, tokS, sigS,
                               rpc, tch, apc, aid, aleft, nextId, chelp, cons, counted, cov>>
(* as written: CAS + close(closeCh); then Lock; wg.Wait; Unlock *)
CloseSignal(k) == /\ ~CloseFix /\ cpc[k] = "called"
                  /\ IF Variant = "close2early" /\ closed
                       THEN cpc' = [cpc EXCEPT ![k] = "unlocked"] /\ chelp' = [chelp EXCEPT ![k] = Helpers] /\ UNCHANGED <<closed, closeCh>>
                       ELSE closed' = TRUE /\ closeCh' = TRUE /\ cpc' = [cpc EXCEPT ![k] = "beforeLock"] /\ UNCHANGED chelp
                  /\ UNCHANGED <<cfg, kind, r2pc, now, lock, cancelled, wg, pendSet, hasTimer, tstate, deadline, curDur, bf, tokS, sigS,
                                 rpc, tch, apc, aid, aleft, nextId, cons, counted, cov, c>>
CloseLock(k) == /\ ~CloseFix /\ cpc[k] = "beforeLock" /\ lock = 0 /\ lock' = k /\ cpc' = [cpc EXCEPT ![k] = "wait"]
                /\ UNCHANGED <<cfg, kind, r2pc, now, closed, closeCh, cancelled, wg, pendSet, hasTimer, tstate, deadline, curDur, bf, tokS, sigS,
                               rpc, tch, apc, aid, aleft, nextId, chelp, cons, counted, cov, c>>
(* repaired: closed/closeCh inside a short critical section, wg.Wait outside the lock *)
CloseCrit(k) == /\ CloseFix /\ cpc[k] = "called" /\ lock = 0
                /\ IF Variant = "close2early" /\ closed
                     THEN cpc' = [cpc EXCEPT ![k] = "unlocked"] /\ chelp' = [chelp EXCEPT ![k] = Helpers] /\ UNCHANGED <<closed, closeCh>>
                     ELSE closed' = TRUE /\ closeCh' = TRUE /\ cpc' = [cpc EXCEPT ![k] = "wait"] /\ UNCHANGED chelp
                /\ UNCHANGED <<cfg, kind, r2pc, now, lock, cancelled, wg, pendSet, hasTimer, tstate, deadline, curDur, bf, tokS, sigS,
                               rpc, tch, apc, aid, aleft, nextId, cons, counted, cov, c>>
CloseWait(k) == /\ cpc[k] = "wait" /\ wg = 0
                /\ lock' = (IF lock = k THEN 0 ELSE lock) /\ cpc' = [cpc EXCEPT ![k] = "unlocked"] /\ chelp' = [chelp EXCEPT ![k] = Helpers]
                /\ UNCHANGED <<cfg, kind, r2pc, now, closed, closeCh, cancelled, wg, pendSet, hasTimer, tstate, deadline, curDur, bf, tokS, sigS,
                               rpc, tch, apc, aid, aleft, nextId, cons, counted, cov, c>>
CloseRet(k) == /\ cpc[k] = "unlocked" /\ cpc' = [cpc EXCEPT ![k] = "done"] /\ Obs([ev |-> "close_ret", helpers |-> chelp[k]])
               /\ UNCHANGED <<cfg, kind, r2pc, now, lock, closed, closeCh, cancelled, wg, pendSet, hasTimer, tstate, deadline, curDur, bf, tokS, sigS,
                              rpc, tch, apc, aid, aleft, nextId, chelp, cons, counted, cov>>

(* ---------------- a second Run - coalescing.go:107-109 ---------------- *)
(* `running` is already (and stays) set: the call returns "already running" at once and changes nothing.        *)
(* Known-bad "wgLeakOnRejectedRun": the WaitGroup registration was moved in front of the check, wg.Done was not. *)
Run2Call(j) == /\ r2pc[j] = "idle" /\ ~ObsPending /\ r2pc' = [r2pc EXCEPT ![j] = "called"] /\ Obs([ev |-> "run2_call"])
               /\ UNCHANGED <<cfg, kind, now, lock, closed, closeCh, cancelled, wg, pendSet, hasTimer, tstate, deadline, curDur, bf, tokS, sigS,
                              rpc, tch, apc, aid, aleft, nextId, cpc, chelp, cons, counted, cov>>
Run2Body(j) == /\ r2pc[j] = "called" /\ r2pc' = [r2pc EXCEPT ![j] = "body"]
               /\ IF Variant = "wgLeakOnRejectedRun" THEN lock = 0 /\ wg' = wg + 1 ELSE UNCHANGED wg
               /\ UNCHANGED <<cfg, kind, now, lock, closed, closeCh, cancelled, pendSet, hasTimer, tstate, deadline, curDur, bf, tokS, sigS,
                              rpc, tch, apc, aid, aleft, nextId, cpc, chelp, cons, counted, cov, c>>
Run2Ret(j) == /\ r2pc[j] = "body" /\ r2pc' = [r2pc EXCEPT ![j] = "done"] /\ Obs([ev |-> "run2_ret", err |-> TRUE])
              /\ UNCHANGED <<cfg, kind, now, lock, closed, closeCh, cancelled, wg, pendSet, hasTimer, tstate, deadline, curDur, bf, tokS, sigS,
                             rpc, tch, apc, aid, aleft, nextId, cpc, chelp, cons, counted, cov>>

(* ---------------- environment ---------------- *)
Internal == \/ \E g \in Gs : AddBody(g) \/ AddRet(g)
            \/ TokExit \/ RunTop \/ RunSelect \/ RunInput \/ RunTimer \/ RunExit \/ RunRet
            \/ \E x \in sigS : Deliver(x) \/ SigExit(x)
            \/ \E k \in Ks : CloseSignal(k) \/ CloseLock(k) \/ CloseCrit(k) \/ CloseWait(k) \/ CloseRet(k)
            \/ \E j \in R2s : Run2Body(j) \/ Run2Ret(j)
AtRestDef == AtRest <=> ~ENABLED Internal
(* the clock is moved to t: a timer whose deadline is reached fires (its channel gets a value) *)
AdvTo(t) == /\ now' = t
            /\ tstate' = (IF tstate = "armed" /\ deadline <= t THEN "fired" ELSE tstate)
            /\ Obs([ev |-> "adv", now |-> t])
            /\ UNCHANGED <<cfg, kind, r2pc, lock, closed, closeCh, cancelled, wg, pendSet, hasTimer, deadline, curDur, bf, tokS, sigS,
                           rpc, tch, apc, aid, aleft, nextId, cpc, chelp, cons, counted, cov>>
Adv == /\ now < MaxNow /\ (AdvIdleOnly => AtRest) /\ ~ObsPending /\ AdvTo(now + 1)
Cancel == /\ AllowCancel /\ ~cancelled /\ ~ObsPending /\ cancelled' = TRUE /\ Obs([ev |-> "cancel"])
          /\ UNCHANGED <<cfg, kind, r2pc, now, lock, closed, closeCh, wg, pendSet, hasTimer, tstate, deadline, curDur, bf, tokS, sigS,
                         rpc, tch, apc, aid, aleft, nextId, cpc, chelp, cons, counted, cov>>
Take == /\ cons = "parked" /\ ~ObsPending /\ cons' = "ready"
        /\ UNCHANGED <<cfg, kind, r2pc, now, lock, closed, closeCh, cancelled, wg, pendSet, hasTimer, tstate, deadline, curDur, bf, tokS, sigS,
                       rpc, tch, apc, aid, aleft, nextId, cpc, chelp, counted, cov, c>>
(* observation points of the harness: nothing can move *)
Quiescent == /\ UseMonitor /\ AtRest /\ InFlight = 0
             /\ c' = CNext(c, QuiescentEv) /\ c' # c
             /\ UNCHANGED <<cfg, kind, r2pc, now, lock, closed, closeCh, cancelled, wg, pendSet, hasTimer, tstate, deadline, curDur, bf, tokS, sigS,
                            rpc, tch, apc, aid, aleft, nextId, cpc, chelp, cons, counted, cov>>
Stuck == /\ UseMonitor /\ AtRest /\ (InFlight > 0 \/ ((cancelled \/ closeCh) /\ rpc # "done"))
         /\ c' = CNext(c, StuckEv) /\ c' # c
         /\ UNCHANGED <<cfg, kind, r2pc, now, lock, closed, closeCh, cancelled, wg, pendSet, hasTimer, tstate, deadline, curDur, bf, tokS, sigS,
                        rpc, tch, apc, aid, aleft, nextId, cpc, chelp, cons, counted, cov>>

Env == Adv \/ Cancel \/ Take \/ Quiescent \/ Stuck \/ \E g \in Gs : AddCall(g) \/ \E k \in Ks : CloseCall(k) \/ \E j \in R2s : Run2Call(j)
Next == Internal \/ Env
Spec == Init /\ [][Next]_vars /\ WF_vars(Internal) /\ WF_vars(Adv) /\ WF_vars(Take)
             /\ (\A g \in Gs : WF_vars(AddCall(g)))

(* ---------------- properties ---------------- *)
MonitorOK == ~IsBad(c)
(* nothing is wedged: when no goroutine of the component can move, no call is in flight *)
NoWedge == AtRest => InFlight = 0
SignalsLeAdds == Cardinality(cov) <= Cardinality(counted) /\ Cardinality(sigS) + c.sigs <= nextId - 1
WaitGroupExact == wg = Helpers
CloseWaited == \A k \in Ks : cpc[k] \in {"unlocked", "done"} => chelp[k] = 0
(* at rest, before cancel/Close, with the consumer receiving and no window open, every Add is covered *)
NoLostAdd == (AtRest /\ InFlight = 0 /\ ~cancelled /\ ~closeCh /\ cons = "ready" /\ ~hasTimer) => counted \subseteq cov
TypeOK == /\ wg >= 0 /\ tokS >= 0 /\ pendSet \subseteq counted /\ (hasTimer <=> tstate # "none")
          /\ (Variant \notin {"alwaysdouble", "bfkept"} => curDur >= I /\ curDur <= M /\ bf = 1)

CloseReturns == \A k \in Ks : (cpc[k] = "called") ~> (cpc[k] = "done")
AddsReturn == \A g \in Gs : (apc[g] = "called") ~> (apc[g] = "idle")
AddCovered == \A n \in 1..TotalAdds : (n \in counted) ~> (n \in cov \/ cancelled \/ closeCh)
=============================================================================
