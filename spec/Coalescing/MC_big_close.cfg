SPECIFICATION Spec
CONSTANTS Configs <- CfgTiny AddProgs <- P11 NClosers = 2 AllowCancel = TRUE ConsKinds <- Slow MaxNow = 1
  AdvIdleOnly = FALSE UseMonitor = TRUE CloseFix = TRUE Variant = "ok"
INVARIANTS MonitorOK NoWedge SignalsLeAdds WaitGroupExact CloseWaited NoLostAdd TypeOK
CHECK_DEADLOCK FALSE
