SPECIFICATION Spec
CONSTANTS
  Scheds <- SchedsChain
  Blocking = {1}
  MaxNow = 4
  MaxStep = 2
  MaxOps = 4
  Chain = "skip"
  Variant = "ok"
INVARIANTS Accepted ViewsAgree WaitGroupSane
CHECK_DEADLOCK FALSE
