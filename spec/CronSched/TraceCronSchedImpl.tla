------------------------- MODULE TraceCronSchedImpl -------------------------
(* Binding of the implementation-shaped model to the code: hook-level traces *)
(* of the real Cron - the caller's calls/returns, the clock steps, the       *)
(* scheduler's own Logger lines (log.start / log.schedule / log.wake / run / *)
(* log.added / log.removed / log.stop with now, entry, next), the verif      *)
(* points cron.run.armed (with the deadline of the timer it armed, read from *)
(* the fake clock) / cron.run.woke / cron.job.start, the jobs' begin and end *)
(* and the context of Stop - all recorded under one mutex, must be           *)
(* behaviours of CronSched.tla.  Each event is matched by the action it      *)
(* stands for plus the values it reports; actions without an event are       *)
(* silent; unlogged variables (the timer's fired/buffered state, wg) are     *)
(* inferred.  A trace that is not accepted is DRIFT between model and code - *)
(* reported in the evidence, never a violation by itself.                    *)
EXTENDS MCCronSched, TraceLib

Trace == LoadTrace("trace.ndjson")
Starts == {i \in 1..Len(Trace) : Trace[i].ev = "reset"}
VARIABLES tr, l, open          \* open: the caller has a call in flight whose return was not yet recorded
tvars == <<vars, tr, l, open>>

TInit == tr \in Starts /\ InitWith(Trace[tr].chain) /\ l = tr /\ open = FALSE
HasNext == l + 1 <= Trace[tr].end
Ev == Trace[l + 1]
Eat == l' = l + 1 /\ UNCHANGED tr
Is(name) == HasNext /\ Ev.ev = name /\ Eat
Same == UNCHANGED vars

(* ---- the caller ---- *)
TSchedCall == /\ Is("sched_call") /\ ~open /\ CallSchedWith(Ev.p, Ev.ph, Ev.block, Ev.panic) /\ nadded' = Ev.id /\ open' = TRUE
TRemoveCall == /\ Is("remove_call")
               /\ \/ ~open /\ CallRemove(Ev.id) /\ open' = TRUE
                  \/ RCall(Ev.id) /\ UNCHANGED open          \* the Remove issued together with a Stop: the second caller
TEntriesCall == /\ Is("entries_call") /\ ~open /\ CallEntries /\ open' = TRUE
TStopCall == /\ Is("stop_call") /\ ~open /\ CallStop /\ nstops' = Ev.k /\ open' = TRUE
TStart == /\ Is("start") /\ ~open /\ CallStart /\ UNCHANGED open
TRunCall == /\ Is("runcall") /\ ~open /\ CallRun /\ rx'.n = Ev.r /\ UNCHANGED open
TRunRet == /\ Is("runret") /\ UNCHANGED open
           /\ \/ RunReturn(Ev.r)
              \/ RunNoopReturn /\ Ev.r \in rx.noop /\ Ev.r \notin rx'.noop
(* a return: either the model's Ret (the call went through the scheduler) or, for a call that was served directly *)
(* because the Cron was not running, the second half of the step already taken                                     *)
RetOp == CASE Ev.ev = "sched_ret" -> "sched" [] Ev.ev = "remove_ret" -> "remove"
           [] Ev.ev = "entries_ret" -> "entries" [] Ev.ev = "stop_ret" -> "stop"
(* the second caller's Remove returns: after the rendezvous, or directly when it found the Cron stopped *)
TRemRet == /\ Is("remove_ret") /\ rm.id = Ev.id /\ UNCHANGED open
           /\ \/ RRet
              \/ rm.pc = "called" /\ RLock /\ rm'.pc = "idle"
TRet == /\ HasNext /\ Ev.ev \in {"sched_ret", "remove_ret", "entries_ret", "stop_ret"} /\ Eat
        /\ open /\ cop.op = RetOp /\ open' = FALSE
        /\ \/ cpc \in {"got", "done"} /\ Ret /\ (Ev.ev = "entries_ret" => reply = Ev.list)
           \/ cpc = "wantmu" /\ Ev.ev = "stop_ret" /\ StopLock /\ cpc' = "idle"     \* Stop found the Cron not running
           \/ cpc = "idle" /\ Same /\ (Ev.ev = "entries_ret" => Snapshot = Ev.list)
TAdv == /\ Is("adv") /\ Ev.now >= now
        /\ (Ev.now > now => ~Pending)
        /\ Step(Ev.now - now) /\ UNCHANGED open

(* ---- run() ---- *)
TLogStart == /\ Is("log.start") /\ LInit /\ UNCHANGED open
TLogSchedule == /\ Is("log.schedule") /\ lpc = "sort" /\ lnow = Ev.now /\ Ev.entry \in Range(list) /\ nx[Ev.entry] = Ev.next
                /\ Same /\ UNCHANGED open
TArmed == /\ Is("cron.run.armed") /\ LSort
          /\ timer'.on = Ev.timer /\ (Ev.timer => timer'.dl = Ev.dl) /\ UNCHANGED open
TWoke == /\ Is("cron.run.woke") /\ SelTimer /\ UNCHANGED open
TLogWake == /\ Is("log.wake") /\ lpc = "wake" /\ wi = 1 /\ lnow = Ev.now /\ Same /\ UNCHANGED open
TRun == /\ Is("run") /\ LWake /\ wi' = wi + 1 /\ list[wi] = Ev.id /\ lnow = Ev.now /\ nx'[Ev.id] = Ev.next
        /\ pv'[Ev.id] = nx[Ev.id] /\ UNCHANGED open
(* The caller is released by the rendezvous itself, so its return may be recorded before the scheduler's log line: *)
(* the select arm is a silent step (it must precede the return), the log line reports what that arm did.          *)
TLogAdded == /\ Is("log.added") /\ lpc = "sort" /\ cop.op = "sched" /\ cop.id = Ev.entry /\ cpc \in {"got", "idle"}
             /\ lnow = Ev.now /\ nx[Ev.entry] = Ev.next /\ Ev.entry \in Range(list) /\ Same /\ UNCHANGED open
TLogRemoved == /\ Is("log.removed") /\ lpc = "sort"
               /\ \/ cop.op = "remove" /\ cop.id = Ev.entry /\ cpc \in {"got", "idle"}
                  \/ rm.id = Ev.entry /\ rm.pc \in {"got", "done", "idle"}
               /\ Ev.entry \notin Range(list) /\ Same /\ UNCHANGED open
TLogStop == /\ Is("log.stop") /\ lpc = "off" /\ cop.op = "stop" /\ cpc \in {"got", "done", "idle"} /\ Same /\ UNCHANGED open

(* ---- jobs, Stop's context ---- *)
(* the job goroutine is spawned before the scheduler writes its "run" line (one model step): the new goroutine can *)
(* reach its gate while the entry it belongs to is still the current one of the wake-up loop                      *)
TJobGate == /\ Is("cron.job.start")
            /\ \/ \E j \in 1..Len(jobs) : jobs[j].st = "spawned"
               \/ lpc = "wake" /\ wi <= Len(list) /\ nx[list[wi]] # 0 /\ nx[list[wi]] <= lnow
            /\ Same /\ UNCHANGED open
TJobStart == /\ Is("jobstart") /\ (\E j \in 1..Len(jobs) : jobs[j].id = Ev.id /\ JBegin(j)) /\ UNCHANGED open
TJobEnd == /\ Is("jobend") /\ (\E j \in 1..Len(jobs) : jobs[j].id = Ev.id /\ JEnd(j)) /\ UNCHANGED open
TJobSkip == /\ Is("jobskip") /\ (\E j \in 1..Len(jobs) : jobs[j].id = Ev.id /\ JSkip(j)) /\ UNCHANGED open
TCtxDone == /\ Is("stopctx_done") /\ WDone(Ev.k) /\ UNCHANGED open
TQuiescent == /\ Is("quiescent") /\ ~open /\ Quiesce /\ UNCHANGED open
TIgnore == /\ HasNext /\ Ev.ev \in {"nx", "job.block", "stuck", "cron.log.stop"} /\ Eat /\ Same /\ UNCHANGED open

(* ---- silent: no event marks these ---- *)
Silent == /\ HasNext /\ UNCHANGED <<tr, l, open>>
          /\ \/ (LWake /\ lpc' = "sort")        \* the wake-up loop ran out of due entries
             \/ SelSnapshot                     \* the snapshot arm (the reply is checked at entries_ret)
             \/ SelAdd \/ SelRemove \/ SelStop  \* the other caller arms (reported by their log lines, see above)
             \/ SelRemoveR                      \* ... and the remove arm served to the second caller
             \/ RetRelease \/ RRelease          \* a call returned (its return is recorded later)
             \/ (RLock /\ rm'.pc = "sending")   \* the second caller got runningMu and found the Cron running
             \/ (StopLock /\ cpc' = "sending")  \* Stop got runningMu and found the Cron running
             \/ Unblock                         \* the driver let a blocked job go

TNext == TSchedCall \/ TRemoveCall \/ TEntriesCall \/ TStopCall \/ TStart \/ TRunCall \/ TRunRet \/ TRet \/ TRemRet \/ TAdv
         \/ TLogStart \/ TLogSchedule \/ TArmed \/ TWoke \/ TLogWake \/ TRun \/ TLogAdded \/ TLogRemoved \/ TLogStop
         \/ TJobGate \/ TJobStart \/ TJobEnd \/ TJobSkip \/ TCtxDone \/ TQuiescent \/ TIgnore \/ Silent
TSpec == TInit /\ [][TNext]_tvars
Done == IF l = Trace[tr].end THEN PrintT(<<"DONE", tr>>) ELSE TRUE
=============================================================================
