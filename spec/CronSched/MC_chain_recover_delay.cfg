SPECIFICATION Spec
CONSTANTS
  Scheds <- SchedsChain
  Blocking = {}
  Panicking = {1}
  MaxNow = 4
  MaxStep = 2
  MaxOps = 4
  Chain = "recover+delay"
  Variant = "ok"
INVARIANTS Accepted ViewsAgree WaitGroupSane
CHECK_DEADLOCK FALSE
