SPECIFICATION Spec
CONSTANTS
  Scheds <- SchedsNested
  Blocking = {1}
  Panicking = {}
  MaxNow = 6
  MaxStep = 3
  MaxOps = 5
  Chain = "none"
  Variant = "ok"
INVARIANTS Accepted ViewsAgree WaitGroupSane
CHECK_DEADLOCK FALSE
