------------------------------ MODULE CronSched ------------------------------
(* Implementation-shaped model of cron/cron.go with the CronContract monitor  *)
(* attached: every action that the harness can observe feeds its event(s) to  *)
(* CNext, and the invariant is "the monitor never rejects".                   *)
(*   run()       lpc: "off" | "init" (cron.go:263-267) | "sort" (:271-285,    *)
(*               sort + arm one timer, then the gate cron.run.armed) |        *)
(*               "select" (:288) | "wake" (:289-306, one entry per step)       *)
(*   timer       the k8s FakeClock timer: armed with a deadline, fires at a   *)
(*               clock step when now >= deadline (so a timer armed with a     *)
(*               non-positive duration fires at the NEXT step only); the value *)
(*               stays buffered in its channel until taken or drained          *)
(*   callers     one sequential caller (runningMu serialises them anyway):    *)
(*               while running, Schedule/Remove/Entries/Stop rendezvous with  *)
(*               the loop's select over unbuffered channels ("sending"->"got") *)
(*   jobs        one goroutine per start, registered in jobWaiter (wg);        *)
(*               Stop's context is cancelled by a goroutine waiting for wg = 0 *)
(* Clock discipline (the harness's): the clock is stepped only while no call  *)
(* is in flight, the loop is parked (off / before or in its select) and no    *)
(* expiry is waiting to be picked up; a step of 0 ("nudge") fires a timer     *)
(* that was armed with a non-positive duration.                               *)
EXTENDS CronContract

CONSTANTS Scheds,     \* Scheds[i] = [p, ph]: schedule of the i-th entry added
          Blocking,   \* ids whose job blocks until released
          MaxNow, MaxStep, MaxOps,
          Variant,    \* "ok" | "stalenow" (remove arm keeps the old now) | "lateadd" (jobWaiter.Add inside the job goroutine)
                      \* | "unsortedadd" (add arm keeps the timer and skips the re-sort when the new entry is not before the head)
                      \* | "sharedmu" (DelayIfStillRunning's mutex shared by all entries of the Cron)
                      \* | "delayNoDefer" (DelayIfStillRunning unlocks without defer: a panicking job leaves the entry's mutex locked)
                      \* | "runResetsRunning" (Run() clears c.running when it returns, whenever that is)
                      \* | "removeNoLock" (Remove does not take runningMu: it can be left sending on the remove channel for ever)
          Panicking,  \* ids whose job panics on its first invocation (only with a chain that contains Recover)
          Chain       \* the WithChain option: "none" | "delay" | "skip" | "recover+delay" | "recover+skip" (Recover alone is the identity here)

N == Len(Scheds)
Ids == 1..N

VARIABLES now, running, list, nx, pv, nadded, lpc, lnow, wi, timer,
          cpc, cop, reply, nops, nstops, jobs, wg, watchers, c,
          chain,      \* the chain in use (the constant Chain when model checking, the recorded one when replaying a trace)
          rm,         \* a second caller that only calls Remove, concurrently with the first one's Stop: [pc, id] with pc
                      \* "idle" | "called" (waits for runningMu) | "sending" | "got" | "done" (returned, not yet recorded).  runningMu is held by the first caller
                      \* while its cpc is "sending"/"got", by this one while its pc is "sending"/"got".
          jx,         \* jobs' extras: pan (ids whose job panics on its first invocation), done (those that did), stuck (ids
                      \* whose delay mutex was left locked)
          rx,         \* Run(): cur (number of the Run call whose goroutine runs the current loop, 0: started by Start), old
                      \* (Run calls whose loop has ended and which have not returned yet), noop (Run calls that found the
                      \* Cron running and have not returned yet), n (Run calls so far)
          sch, blk    \* sch[i]: schedule of entry i, blk: ids whose job blocks - filled by the Schedule call (from the
                      \* constants when model checking, from the recorded call when a trace of the real Cron is replayed)
vars == <<now, running, list, nx, pv, nadded, lpc, lnow, wi, timer, cpc, cop, reply, nops, nstops, jobs, wg, watchers, c, chain, sch, blk, jx, rx, rm>>

Off == [on |-> FALSE, dl |-> 0, fired |-> FALSE, buf |-> FALSE, val |-> 0]
NoOp == [op |-> "none", id |-> 0]

RECURSIVE Feed(_, _)
Feed(cc, es) == IF es = << >> THEN cc ELSE Feed(CNext(cc, Head(es)), Tail(es))

InitWith(ch) ==
        /\ now = 0 /\ running = FALSE /\ list = << >> /\ nx = [i \in Ids |-> 0] /\ pv = [i \in Ids |-> 0]
        /\ nadded = 0 /\ lpc = "off" /\ lnow = 0 /\ wi = 0 /\ timer = Off
        /\ cpc = "idle" /\ cop = NoOp /\ reply = << >> /\ nops = 0 /\ nstops = 0
        /\ jobs = << >> /\ wg = 0 /\ watchers = {} /\ c = CInitC(0, ch) /\ chain = ch
        /\ sch = [i \in Ids |-> [p |-> 0, ph |-> 0]] /\ blk = {}
        /\ jx = [pan |-> {}, done |-> {}, stuck |-> {}] /\ rx = [cur |-> 0, old |-> {}, noop |-> {}, n |-> 0]
        /\ rm = [pc |-> "idle", id |-> 0]

Init == InitWith(Chain)

SNext(i, t) == NextAct(sch[i].p, sch[i].ph, t)
Without(s, x) == SelectSeq(s, LAMBDA y : y # x)
Snapshot == [k \in 1..Len(list) |-> <<list[k], nx[list[k]], pv[list[k]]>>]

(* byTime: zero last.  sort.Sort on fewer than 13 elements is an insertion sort, hence stable: entries with equal *)
(* Next (or both zero) keep the order they had in the list.                                                     *)
Range(s) == {s[k] : k \in 1..Len(s)}
Pos(s, x) == CHOOSE k \in 1..Len(s) : s[k] = x
Before(i, j) == IF nx[i] = 0 THEN FALSE ELSE IF nx[j] = 0 THEN TRUE ELSE nx[i] < nx[j]      \* byTime.Less
Less(s, i, j) == Before(i, j) \/ (~Before(j, i) /\ Pos(s, i) < Pos(s, j))
Sorted(s) == CHOOSE t \in [1..Len(s) -> Range(s)] :
               /\ \A a, b \in 1..Len(s) : a < b => (t[a] # t[b] /\ ~Less(s, t[b], t[a]))

(* ---------------- the caller ---------------- *)
RemHolds == Variant # "removeNoLock" /\ rm.pc \in {"sending", "got"}       \* the second caller holds runningMu
MainHolds == cpc \in {"sending", "got"}                                    \* the first caller holds runningMu
Begin(op, id) == /\ cpc = "idle" /\ nops < MaxOps /\ nops' = nops + 1
                 /\ (op # "stop" => rm.pc = "idle")    \* only a Stop is issued next to the second caller's Remove
                 /\ cop' = [op |-> op, id |-> id]

CallSchedWith(p, ph, b, pn) ==
  /\ nadded < N /\ Begin("sched", nadded + 1) /\ nadded' = nadded + 1
  /\ sch' = [sch EXCEPT ![nadded + 1] = [p |-> p, ph |-> ph]]
  /\ blk' = IF b THEN blk \cup {nadded + 1} ELSE blk
  /\ jx' = IF pn THEN [jx EXCEPT !.pan = @ \cup {nadded + 1}] ELSE jx
  /\ LET id == nadded + 1
         call == [ev |-> "sched_call", id |-> id, p |-> p, ph |-> ph]
     IN IF running
          THEN /\ cpc' = "sending" /\ c' = Feed(c, <<call>>) /\ UNCHANGED list
          ELSE /\ list' = Append(list, id) /\ cpc' = "idle"
               /\ c' = Feed(c, <<call, [ev |-> "sched_ret", id |-> id]>>)
  /\ UNCHANGED <<now, running, nx, pv, lpc, lnow, wi, timer, reply, nstops, jobs, wg, watchers, chain, rx, rm>>

CallRemove(id) ==
  /\ id \in Range(list) /\ Begin("remove", id)
  /\ LET call == [ev |-> "remove_call", id |-> id]
     IN IF running
          THEN /\ cpc' = "sending" /\ c' = Feed(c, <<call>>) /\ UNCHANGED list
          ELSE /\ list' = Without(list, id) /\ cpc' = "idle"
               /\ c' = Feed(c, <<call, [ev |-> "remove_ret", id |-> id]>>)
  /\ UNCHANGED <<now, running, nx, pv, nadded, lpc, lnow, wi, timer, reply, nstops, jobs, wg, watchers, chain, sch, blk, jx, rx, rm>>

CallEntries ==
  /\ Begin("entries", 0)
  /\ IF running
       THEN /\ cpc' = "sending" /\ c' = Feed(c, <<[ev |-> "entries_call"]>>)
       ELSE /\ cpc' = "idle" /\ c' = Feed(c, <<[ev |-> "entries_call"], [ev |-> "entries_ret", list |-> Snapshot]>>)
  /\ UNCHANGED <<now, running, list, nx, pv, nadded, lpc, lnow, wi, timer, reply, nstops, jobs, wg, watchers, chain, sch, blk, jx, rx, rm>>

CallStart ==
  /\ Begin("start", 0) /\ cpc' = "idle"
  /\ c' = Feed(c, <<[ev |-> "start"]>>)
  /\ IF running THEN UNCHANGED <<running, lpc, rx>> ELSE running' = TRUE /\ lpc' = "init" /\ rx' = [rx EXCEPT !.cur = 0]
  /\ UNCHANGED <<now, list, nx, pv, nadded, lnow, wi, timer, reply, nstops, jobs, wg, watchers, chain, sch, blk, jx, rm>>

(* Run(): the same on the caller's goroutine, which then IS the scheduler loop; on a running Cron it returns at once *)
CallRun ==
  /\ Begin("run", rx.n + 1) /\ cpc' = "idle"
  /\ c' = Feed(c, <<[ev |-> "runcall", r |-> rx.n + 1]>>)
  /\ IF running THEN /\ UNCHANGED <<running, lpc>> /\ rx' = [rx EXCEPT !.n = @ + 1, !.noop = @ \cup {rx.n + 1}]
                ELSE /\ running' = TRUE /\ lpc' = "init" /\ rx' = [rx EXCEPT !.n = @ + 1, !.cur = rx.n + 1]
  /\ UNCHANGED <<now, list, nx, pv, nadded, lnow, wi, timer, reply, nstops, jobs, wg, watchers, chain, sch, blk, jx, rm>>
(* ... and Run() returns: after its loop has ended, or at once *)
RunReturn(r) ==                   \* several ended Run goroutines return in any order
  /\ r \in rx.old /\ rx' = [rx EXCEPT !.old = @ \ {r}]
  /\ c' = Feed(c, <<[ev |-> "runret", r |-> r]>>)
  /\ IF Variant = "runResetsRunning" THEN cpc = "idle" /\ running' = FALSE ELSE UNCHANGED running
  /\ UNCHANGED <<now, list, nx, pv, nadded, lpc, lnow, wi, timer, cpc, cop, reply, nops, nstops, jobs, wg, watchers, chain, sch, blk, jx, rm>>
RunNoopReturn ==
  /\ \E r \in rx.noop : /\ rx' = [rx EXCEPT !.noop = @ \ {r}]
                        /\ c' = Feed(c, <<[ev |-> "runret", r |-> r]>>)
  /\ UNCHANGED <<now, running, list, nx, pv, nadded, lpc, lnow, wi, timer, cpc, cop, reply, nops, nstops, jobs, wg, watchers, chain, sch, blk, jx, rm>>
RunRets == (\E r \in rx.old : RunReturn(r)) \/ RunNoopReturn

CallStop ==
  /\ Begin("stop", nstops + 1) /\ nstops' = nstops + 1
  /\ LET k == nstops + 1
     IN \* the call is made; runningMu is taken in a second step (StopLock): the second caller's Remove may get it first
        /\ cpc' = "wantmu" /\ c' = Feed(c, <<[ev |-> "stop_call", k |-> k]>>) /\ UNCHANGED watchers
  /\ UNCHANGED <<now, running, list, nx, pv, nadded, lpc, lnow, wi, timer, reply, jobs, wg, chain, sch, blk, jx, rx, rm>>
StopLock ==                                   \* Stop gets runningMu (after the second caller's Remove released it, if it held it)
  /\ cpc = "wantmu" /\ ~RemHolds
  /\ IF running THEN cpc' = "sending" /\ UNCHANGED <<watchers, c>>
                ELSE /\ cpc' = "idle" /\ watchers' = watchers \cup {cop.id}
                     /\ c' = Feed(c, <<[ev |-> "stop_ret", k |-> cop.id]>>)
  /\ UNCHANGED <<now, running, list, nx, pv, nadded, lpc, lnow, wi, timer, cop, reply, nops, nstops, jobs, wg, chain, sch, blk, jx, rx, rm>>

(* ---- the second caller: Remove(id), possibly while the first caller's Stop is pending ---- *)
RCall(id) == /\ rm.pc = "idle" /\ nops < MaxOps /\ nops' = nops + 1 /\ id \in Range(list)
             /\ (cpc = "idle" \/ (cop.op = "stop" /\ cpc # "idle"))   \* alone, or next to a Stop in flight
             /\ rm' = [pc |-> "called", id |-> id]
             /\ c' = Feed(c, <<[ev |-> "remove_call", id |-> id]>>)
             /\ UNCHANGED <<now, running, list, nx, pv, nadded, lpc, lnow, wi, timer, cpc, cop, reply, nstops, jobs, wg, watchers, chain, sch, blk, jx, rx>>
(* Remove takes runningMu (not in the removeNoLock variant), reads c.running, then sends or removes directly *)
RLock == /\ rm.pc = "called" /\ (Variant = "removeNoLock" \/ ~MainHolds)
         /\ IF running THEN /\ rm' = [rm EXCEPT !.pc = "sending"] /\ UNCHANGED <<list, c>>
                       ELSE /\ rm' = [rm EXCEPT !.pc = "idle"] /\ list' = Without(list, rm.id)
                            /\ c' = Feed(c, <<[ev |-> "remove_ret", id |-> rm.id]>>)
         /\ UNCHANGED <<now, running, nx, pv, nadded, lpc, lnow, wi, timer, cpc, cop, reply, nops, nstops, jobs, wg, watchers, chain, sch, blk, jx, rx>>
RRelease == /\ rm.pc = "got" /\ rm' = [rm EXCEPT !.pc = "done"]
            /\ UNCHANGED <<now, running, list, nx, pv, nadded, lpc, lnow, wi, timer, cpc, cop, reply, nops, nstops, jobs, wg, watchers, c, chain, sch, blk, jx, rx>>
RRet == /\ rm.pc = "done" /\ rm' = [rm EXCEPT !.pc = "idle"]
        /\ c' = Feed(c, <<[ev |-> "remove_ret", id |-> rm.id]>>)
        /\ UNCHANGED <<now, running, list, nx, pv, nadded, lpc, lnow, wi, timer, cpc, cop, reply, nops, nstops, jobs, wg, watchers, chain, sch, blk, jx, rx>>
Rem == RLock \/ RRelease \/ RRet

(* the call returns (after the loop took the rendezvous) *)
(* Stop and the second caller's Remove can be in flight together, so for them "the call has returned" (runningMu *)
(* released) and "its return was recorded" are separate steps: the other call may be served, and even have its    *)
(* return recorded, in between.                                                                                  *)
RetRelease ==
  /\ cpc = "got" /\ cop.op = "stop" /\ cpc' = "done" /\ running' = FALSE
  /\ UNCHANGED <<now, list, nx, pv, nadded, lpc, lnow, wi, timer, cop, reply, nops, nstops, jobs, wg, watchers, c, chain, sch, blk, jx, rx, rm>>
Ret ==
  /\ cpc = (IF cop.op = "stop" THEN "done" ELSE "got") /\ cpc' = "idle"
  /\ CASE cop.op = "sched"   -> c' = Feed(c, <<[ev |-> "sched_ret", id |-> cop.id]>>) /\ UNCHANGED <<running, watchers>>
       [] cop.op = "remove"  -> c' = Feed(c, <<[ev |-> "remove_ret", id |-> cop.id]>>) /\ UNCHANGED <<running, watchers>>
       [] cop.op = "entries" -> c' = Feed(c, <<[ev |-> "entries_ret", list |-> reply]>>) /\ UNCHANGED <<running, watchers>>
       [] cop.op = "stop"    -> /\ c' = Feed(c, <<[ev |-> "stop_ret", k |-> cop.id]>>)
                                /\ UNCHANGED running /\ watchers' = watchers \cup {cop.id}
  /\ UNCHANGED <<now, list, nx, pv, nadded, lpc, lnow, wi, timer, cop, reply, nops, nstops, jobs, wg, chain, sch, blk, jx, rx, rm>>

CallSched == nadded < N /\ CallSchedWith(Scheds[nadded + 1].p, Scheds[nadded + 1].ph, (nadded + 1) \in Blocking, (nadded + 1) \in Panicking)
Call == CallSched \/ CallEntries \/ CallStart \/ CallRun \/ CallStop \/ \E id \in Ids : CallRemove(id)

(* ---------------- run() ---------------- *)
LInit == /\ lpc = "init" /\ lnow' = now
         /\ nx' = [i \in Ids |-> IF i \in Range(list) THEN SNext(i, now) ELSE nx[i]]
         /\ lpc' = "sort"
         /\ UNCHANGED <<now, running, list, pv, nadded, wi, timer, cpc, cop, reply, nops, nstops, jobs, wg, watchers, c, chain, sch, blk, jx, rx, rm>>

(* sort, arm the timer for entries[0].Next - now (relative to the clock's current time) *)
LSort == /\ lpc = "sort" /\ list' = Sorted(list)
         /\ timer' = IF list = << >> \/ nx[Sorted(list)[1]] = 0 THEN Off
                     ELSE [on |-> TRUE, dl |-> now + (nx[Sorted(list)[1]] - lnow), fired |-> FALSE,
                           buf |-> FALSE, val |-> 0]
         /\ lpc' = "select"
         /\ UNCHANGED <<now, running, nx, pv, nadded, lnow, wi, cpc, cop, reply, nops, nstops, jobs, wg, watchers, c, chain, sch, blk, jx, rx, rm>>

SelTimer == /\ lpc = "select" /\ timer.on /\ timer.buf
            /\ lnow' = timer.val /\ timer' = Off /\ lpc' = "wake" /\ wi' = 1
            /\ UNCHANGED <<now, running, list, nx, pv, nadded, cpc, cop, reply, nops, nstops, jobs, wg, watchers, c, chain, sch, blk, jx, rx, rm>>

Before2(a, b) == a < b          \* time.Time.Before on the raw instants (the zero time is before everything)
(* the leftover timer is stopped and drained before the next pass *)
Drained == Off

KeepTimer == Variant = "unsortedadd" /\ timer.on /\ list # << >>
             /\ ~Before2(SNext(cop.id, now), nx[list[1]])
SelAdd == /\ lpc = "select" /\ cpc = "sending" /\ cop.op = "sched"
          /\ lnow' = now /\ nx' = [nx EXCEPT ![cop.id] = SNext(cop.id, now)]
          /\ list' = Append(list, cop.id) /\ cpc' = "got"
          /\ IF KeepTimer THEN UNCHANGED <<timer, lpc>> ELSE timer' = Drained /\ lpc' = "sort"
          /\ UNCHANGED <<now, running, pv, nadded, wi, cop, reply, nops, nstops, jobs, wg, watchers, c, chain, sch, blk, jx, rx, rm>>
SelRemove == /\ lpc = "select" /\ cpc = "sending" /\ cop.op = "remove"
             /\ lnow' = IF Variant = "stalenow" THEN lnow ELSE now
             /\ list' = Without(list, cop.id) /\ timer' = Drained /\ lpc' = "sort" /\ cpc' = "got"
             /\ UNCHANGED <<now, running, nx, pv, nadded, wi, cop, reply, nops, nstops, jobs, wg, watchers, c, chain, sch, blk, jx, rx, rm>>
SelRemoveR == /\ lpc = "select" /\ rm.pc = "sending"                       \* the remove arm, served to the second caller
              /\ lnow' = IF Variant = "stalenow" THEN lnow ELSE now
              /\ list' = Without(list, rm.id) /\ timer' = Drained /\ lpc' = "sort" /\ rm' = [rm EXCEPT !.pc = "got"]
              /\ UNCHANGED <<now, running, nx, pv, nadded, wi, cpc, cop, reply, nops, nstops, jobs, wg, watchers, c, chain, sch, blk, jx, rx>>
SelSnapshot == /\ lpc = "select" /\ cpc = "sending" /\ cop.op = "entries"
               /\ reply' = Snapshot /\ cpc' = "got"
               /\ UNCHANGED <<now, running, list, nx, pv, nadded, lpc, lnow, wi, timer, cop, nops, nstops, jobs, wg, watchers, c, chain, sch, blk, jx, rx, rm>>
SelStop == /\ lpc = "select" /\ cpc = "sending" /\ cop.op = "stop"
           /\ timer' = Off /\ lpc' = "off" /\ cpc' = "got"
           /\ rx' = IF rx.cur # 0 THEN [rx EXCEPT !.old = @ \cup {rx.cur}, !.cur = 0] ELSE rx
           /\ UNCHANGED <<now, running, list, nx, pv, nadded, lnow, wi, cop, reply, nops, nstops, jobs, wg, watchers, c, chain, sch, blk, jx, rm>>

(* wake: every entry (in sorted order) whose Next is not after now is started *)
LWake == /\ lpc = "wake"
         /\ IF wi <= Len(list) /\ nx[list[wi]] # 0 /\ nx[list[wi]] <= lnow
              THEN LET id == list[wi] IN
                   /\ jobs' = Append(jobs, [id |-> id, st |-> "spawned"])
                   /\ wg' = IF Variant = "lateadd" THEN wg ELSE wg + 1
                   /\ pv' = [pv EXCEPT ![id] = nx[id]] /\ nx' = [nx EXCEPT ![id] = SNext(id, lnow)]
                   /\ c' = Feed(c, <<[ev |-> "run", id |-> id]>>)
                   /\ wi' = wi + 1 /\ UNCHANGED lpc
              ELSE /\ lpc' = "sort" /\ UNCHANGED <<jobs, wg, pv, nx, c, wi>>
         /\ UNCHANGED <<now, running, list, nadded, lnow, timer, cpc, cop, reply, nops, nstops, watchers, chain, sch, blk, jx, rx, rm>>

Loop == LInit \/ LSort \/ SelTimer \/ SelAdd \/ SelRemove \/ SelRemoveR \/ SelSnapshot \/ SelStop \/ LWake

(* ---------------- job goroutines, Stop's waiter ---------------- *)
SetSt(j, st) == [jobs EXCEPT ![j].st = st]
(* the wrappers: DelayIfStillRunning holds a mutex (one per entry) around the job, SkipIfStillRunning a one-slot  *)
(* token (one per entry); the invocation whose job is running or blocked holds it                                *)
SameLock(j, k) == k # j /\ jobs[k].st \in {"running", "blocked"} /\ (jobs[k].id = jobs[j].id \/ Variant = "sharedmu")
Held(j) == \/ \E k \in 1..Len(jobs) : SameLock(j, k)
           \/ jobs[j].id \in jx.stuck
JBegin(j) == /\ jobs[j].st = "spawned"
             /\ (chain \in {"delay", "recover+delay", "skip", "recover+skip"} => ~Held(j))
             /\ wg' = IF Variant = "lateadd" THEN wg + 1 ELSE wg
             /\ jobs' = SetSt(j, IF jobs[j].id \in blk THEN "blocked" ELSE "running")
             /\ c' = Feed(c, <<[ev |-> "jobstart", id |-> jobs[j].id]>>)
             /\ UNCHANGED <<now, running, list, nx, pv, nadded, lpc, lnow, wi, timer, cpc, cop, reply, nops, nstops, watchers, chain, sch, blk, jx, rx, rm>>
JSkip(j) == /\ jobs[j].st = "spawned" /\ chain \in {"skip", "recover+skip"} /\ Held(j)
            /\ wg' = IF Variant = "lateadd" THEN wg ELSE wg - 1
            /\ jobs' = [k \in 1..(Len(jobs) - 1) |-> IF k < j THEN jobs[k] ELSE jobs[k + 1]]
            /\ c' = Feed(c, <<[ev |-> "jobskip", id |-> jobs[j].id]>>)
            /\ UNCHANGED <<now, running, list, nx, pv, nadded, lpc, lnow, wi, timer, cpc, cop, reply, nops, nstops, watchers, chain, sch, blk, jx, rx, rm>>
JUnblock(j) == /\ jobs[j].st = "blocked" /\ jobs' = SetSt(j, "running")
               /\ UNCHANGED <<now, running, list, nx, pv, nadded, lpc, lnow, wi, timer, cpc, cop, reply, nops, nstops, wg, watchers, c, chain, sch, blk, jx, rx, rm>>
JEnd(j) == /\ jobs[j].st = "running" /\ wg' = wg - 1
           /\ jobs' = [k \in 1..(Len(jobs) - 1) |-> IF k < j THEN jobs[k] ELSE jobs[k + 1]]
           /\ c' = Feed(c, <<[ev |-> "jobend", id |-> jobs[j].id]>>)
           /\ LET id == jobs[j].id
                  panics == id \in jx.pan /\ id \notin jx.done        \* the first invocation ends by panicking (recovered above)
              IN jx' = IF panics
                         THEN [jx EXCEPT !.done = @ \cup {id},
                                         !.stuck = IF Variant = "delayNoDefer" /\ chain \in {"delay", "recover+delay"} THEN @ \cup {id} ELSE @]
                         ELSE jx
           /\ UNCHANGED <<now, running, list, nx, pv, nadded, lpc, lnow, wi, timer, cpc, cop, reply, nops, nstops, watchers, chain, sch, blk, rx, rm>>
WDone(k) == /\ k \in watchers /\ wg = 0 /\ watchers' = watchers \ {k}
            /\ c' = Feed(c, <<[ev |-> "stopctx_done", k |-> k]>>)
            /\ UNCHANGED <<now, running, list, nx, pv, nadded, lpc, lnow, wi, timer, cpc, cop, reply, nops, nstops, jobs, wg, chain, sch, blk, jx, rx, rm>>
Job == \E j \in 1..Len(jobs) : JBegin(j) \/ JEnd(j) \/ JSkip(j)
Unblock == \E j \in 1..Len(jobs) : JUnblock(j)
Waiter == \E k \in watchers : WDone(k)

(* ---------------- the fake clock ---------------- *)
Pending == timer.on /\ (timer.buf \/ (~timer.fired /\ timer.dl <= now))
Parked == lpc \in {"off", "select"}
Step(d) == /\ cpc = "idle" /\ rm.pc = "idle" /\ Parked /\ now + d <= MaxNow
           /\ now' = now + d
           /\ timer' = IF timer.on /\ ~timer.fired /\ timer.dl <= now + d
                         THEN [timer EXCEPT !.fired = TRUE, !.buf = TRUE, !.val = now + d] ELSE timer
           /\ c' = Feed(c, <<[ev |-> "adv", now |-> now + d]>>)
           /\ UNCHANGED <<running, list, nx, pv, nadded, lpc, lnow, wi, cpc, cop, reply, nops, nstops, jobs, wg, watchers, chain, sch, blk, jx, rx, rm>>
Adv == \E d \in 1..MaxStep : ~Pending /\ Step(d)
Nudge == timer.on /\ ~timer.fired /\ timer.dl <= now /\ Step(0)

(* a quiescent point as the harness reports it *)
Quiet == /\ cpc = "idle" /\ rm.pc = "idle" /\ Parked /\ rx.old = {} /\ rx.noop = {} /\ ~(timer.on /\ timer.buf)     \* an unfired timer, even overdue, leaves the loop blocked
         /\ \A j \in 1..Len(jobs) : jobs[j].st = "blocked" \/ (jobs[j].st = "spawned" /\ chain \in {"delay", "recover+delay"} /\ Held(j))
         /\ (watchers = {} \/ wg > 0)
Quiesce == /\ Quiet /\ c' = Feed(c, <<[ev |-> "quiescent"]>>)
           /\ UNCHANGED <<now, running, list, nx, pv, nadded, lpc, lnow, wi, timer, cpc, cop, reply, nops, nstops, jobs, wg, watchers, chain, sch, blk, jx, rx, rm>>

(* end of a run as the harness reports it: a call is still in flight although nothing else can move *)
Wedged == /\ rm.pc = "sending" /\ cpc = "idle" /\ lpc = "off"
          /\ rx.old = {} /\ rx.noop = {} /\ \A j \in 1..Len(jobs) : jobs[j].st = "blocked"
Stuck == /\ Wedged /\ c' = Feed(c, <<[ev |-> "stuck", n |-> 1]>>)
         /\ UNCHANGED <<now, running, list, nx, pv, nadded, lpc, lnow, wi, timer, cpc, cop, reply, nops, nstops, jobs, wg, watchers, chain, sch, blk, jx, rx, rm>>

Next == Call \/ (\E id \in Ids : RCall(id)) \/ StopLock \/ Rem \/ Stuck \/ Ret \/ RetRelease \/ RunRets \/ Loop \/ Job \/ Unblock \/ Waiter \/ Adv \/ Nudge \/ Quiesce
Spec == Init /\ [][Next]_vars /\ WF_vars(Loop) /\ WF_vars(Ret) /\ WF_vars(RetRelease) /\ WF_vars(StopLock) /\ WF_vars(Rem) /\ WF_vars(RunRets) /\ WF_vars(Job) /\ WF_vars(Nudge) /\ WF_vars(Waiter)

(* ---------------- properties ---------------- *)
Accepted == ~IsBad(c)
(* the model's own view agrees with the monitor's at rest *)
ViewsAgree == (Quiet /\ ~Pending /\ running /\ ~IsBad(c)) =>
                \A k \in 1..Len(list) : /\ c.ents[list[k]].next = nx[list[k]]
                                        /\ c.ents[list[k]].prev = pv[list[k]]
WaitGroupSane == wg >= 0
(* liveness: every call returns; what is due gets started (or is cancelled by Remove/Stop) *)
CallsReturn == ((cpc # "idle") ~> (cpc = "idle")) /\ ((rm.pc # "idle") ~> (rm.pc = "idle"))
DueStarted == \A i \in Ids : (i \in DOMAIN c.ents /\ c.ents[i].owed > 0) ~> (i \in DOMAIN c.ents /\ c.ents[i].owed = 0)
=============================================================================
