SPECIFICATION Spec
CONSTANTS
  Scheds <- SchedsChain
  Blocking = {1}
  Panicking = {}
  MaxNow = 4
  MaxStep = 2
  MaxOps = 3
  Chain = "delay"
  Variant = "ok"
INVARIANTS Accepted ViewsAgree WaitGroupSane
CHECK_DEADLOCK FALSE
