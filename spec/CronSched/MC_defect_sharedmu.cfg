SPECIFICATION Spec
CONSTANTS
  Scheds <- SchedsChain
  Blocking = {1}
  Panicking = {}
  MaxNow = 4
  MaxStep = 2
  MaxOps = 4
  Chain = "delay"
  Variant = "sharedmu"
INVARIANTS Accepted
CHECK_DEADLOCK FALSE
