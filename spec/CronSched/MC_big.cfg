SPECIFICATION Spec
CONSTANTS
  Scheds <- SchedsBig
  Blocking = {2}
  MaxNow = 7
  MaxStep = 3
  MaxOps = 4
  Variant = "ok"
INVARIANTS Accepted ViewsAgree WaitGroupSane
CHECK_DEADLOCK FALSE
