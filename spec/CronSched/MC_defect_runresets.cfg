SPECIFICATION Spec
CONSTANTS
  Scheds <- SchedsChain
  Blocking = {}
  Panicking = {}
  MaxNow = 4
  MaxStep = 2
  MaxOps = 6
  Chain = "none"
  Variant = "runResetsRunning"
INVARIANTS Accepted
CHECK_DEADLOCK FALSE
