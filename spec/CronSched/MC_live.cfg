SPECIFICATION Spec
CONSTANTS
  Scheds <- SchedsLive
  Blocking = {}
  Panicking = {}
  MaxNow = 4
  MaxStep = 2
  MaxOps = 3
  Chain = "none"
  Variant = "ok"
INVARIANTS Accepted
PROPERTIES CallsReturn DueStarted
CHECK_DEADLOCK FALSE
