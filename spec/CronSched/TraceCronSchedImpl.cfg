SPECIFICATION TSpec
CONSTANTS
  Scheds <- SchedsTrace
  Blocking = {}
  Panicking = {}
  MaxNow = 1000000
  MaxStep = 1
  MaxOps = 1000000
  Chain = "none"
  Variant = "ok"
CONSTRAINT Done
INVARIANTS Accepted WaitGroupSane
CHECK_DEADLOCK FALSE
