SPECIFICATION Spec
CONSTANTS
  Scheds <- SchedsChain
  Blocking = {}
  Panicking = {1}
  MaxNow = 4
  MaxStep = 2
  MaxOps = 4
  Chain = "recover+delay"
  Variant = "delayNoDefer"
INVARIANTS Accepted
CHECK_DEADLOCK FALSE
