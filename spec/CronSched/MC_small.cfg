SPECIFICATION Spec
CONSTANTS
  Scheds <- SchedsSmall
  Blocking = {2}
  Panicking = {}
  MaxNow = 5
  MaxStep = 3
  MaxOps = 4
  Chain = "none"
  Variant = "ok"
INVARIANTS Accepted ViewsAgree WaitGroupSane
CHECK_DEADLOCK FALSE
