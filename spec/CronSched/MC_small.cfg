SPECIFICATION Spec
CONSTANTS
  Scheds <- SchedsSmall
  Blocking = {2}
  MaxNow = 6
  MaxStep = 3
  MaxOps = 4
  Chain = "none"
  Variant = "ok"
INVARIANTS Accepted ViewsAgree WaitGroupSane
CHECK_DEADLOCK FALSE
