SPECIFICATION Spec
CONSTANTS
  Scheds <- SchedsChain
  Blocking = {}
  Panicking = {}
  MaxNow = 2
  MaxStep = 2
  MaxOps = 5
  Chain = "none"
  Variant = "removeNoLock"
INVARIANTS Accepted
CHECK_DEADLOCK FALSE
