SPECIFICATION Spec
CONSTANTS
  Scheds <- SchedsSmall
  Blocking = {2}
  Panicking = {}
  MaxNow = 6
  MaxStep = 3
  MaxOps = 4
  Chain = "none"
  Variant = "lateadd"
INVARIANTS Accepted
CHECK_DEADLOCK FALSE
